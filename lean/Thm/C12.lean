import RbModel.Ty
import Thm.C06
import Thm.C12Tables
/-!
# C12 — the static checker is sound for types and its verdicts are stable

Theorems over `RbModel.Ty` (model of the checker fragment, see the header of that file), the extracted
operator table `Gen.NumTables` and the extracted built-in table `Gen.TyTables` (`Thm/C12Tables.lean`).
-/
namespace RbThm.C12
open RbModel.Num RbModel.Ty Gen.NumTables Gen.TyTables

/-! ## The VM's operators never see a wrong kind when the static table accepted the kinds -/

theorem bind_ne {α β : Type} {r : Res α} {f : α → Res β} (hr : r ≠ .err .typeMismatch)
    (hf : ∀ a, r = .ok a → f a ≠ .err .typeMismatch) : r.bind f ≠ .err .typeMismatch := by
  cases r with
  | ok a => exact hf a rfl
  | err e => intro h; simp [Res.bind] at h; exact hr (by rw [h])
  | inexact => simp [Res.bind]

theorem castRound_ne (lo hi : Int) (q : Rat) (mk : Int → Val) :
    (castRound lo hi q).bind (fun r => Res.ok (mk r)) ≠ .err .typeMismatch := by
  unfold castRound; simp only; split <;> simp [Res.bind]

theorem mkSgl_ne (q : Rat) : mkSgl q ≠ .err .typeMismatch := by unfold mkSgl; split <;> simp
theorem mkDbl_ne (q : Rat) : mkDbl q ≠ .err .typeMismatch := by unfold mkDbl; split <;> simp

/-- Conversions between types of the same kind never raise Type mismatch. -/
theorem cast_same_kind (v : Val) (t : Ty) (h : kindOf v.tag = kindOf t) :
    RbModel.Num.cast v t ≠ .err .typeMismatch := by
  cases t <;> cases v <;> simp_all [RbModel.Num.cast, Val.tag, kindOf] <;>
    first
    | exact mkSgl_ne _ | exact mkDbl_ne _
    | (split <;> first | exact mkSgl_ne _ | exact mkDbl_ne _ | exact castRound_ne _ _ _ _ | simp)

theorem fitInt_num {n : Int} : fitInt n ≠ .err .typeMismatch := by
  unfold fitInt; (repeat' split) <;> first | exact mkDbl_ne _ | simp

theorem fitInt_ok_num {n : Int} {w : Val} (h : fitInt n = .ok w) : w.tag ≠ .str := by
  unfold fitInt at h
  split at h
  · cases h; simp [Val.tag]
  · split at h
    · cases h; simp [Val.tag]
    · obtain ⟨rfl, _⟩ := RbThm.C06.mkDbl_ok h; simp [Val.tag]

theorem fitS_ne (q : Rat) : fitS q ≠ .err .typeMismatch := by
  unfold fitS; (repeat' split) <;> first | exact fitInt_num | simp
theorem fitD_ne (q : Rat) : fitD q ≠ .err .typeMismatch := by
  unfold fitD; (repeat' split) <;> first | exact fitInt_num | simp

theorem fitS_ok_num {q : Rat} {w : Val} (h : fitS q = .ok w) : w.tag ≠ .str := by
  unfold fitS at h
  split at h
  · split at h
    · cases h; simp [Val.tag]
    · exact fitInt_ok_num h
  · cases h
theorem fitD_ok_num {q : Rat} {w : Val} (h : fitD q = .ok w) : w.tag ≠ .str := by
  unfold fitD at h
  split at h
  · split at h
    · cases h; simp [Val.tag]
    · exact fitInt_ok_num h
  · cases h

theorem arith_kinds (op : Arith) (a b : Val)
    (h : (a.tag ≠ .str ∧ b.tag ≠ .str) ∨ (a.tag = .str ∧ b.tag = .str ∧ op = .add)) :
    arith op a b ≠ .err .typeMismatch := by
  cases a <;> cases b <;>
    simp_all [arith, Val.tag, intResult, longResult, sglOp, dblOp] <;>
    (repeat' split) <;> first | exact mkSgl_ne _ | exact mkDbl_ne _ | simp_all

theorem tryCmp_kinds (a b : Val) (h : kindOf a.tag = kindOf b.tag) :
    tryCmp a b ≠ .err .typeMismatch := by
  cases a <;> cases b <;> simp_all [tryCmp, Val.tag, kindOf, approxCmp] <;> (repeat' split) <;> simp_all

theorem divide_cases (a b : Val) (ha : a.tag ≠ .str) (hb : b.tag ≠ .str) :
    divide a b = .err .divisionByZero ∨ divide a b = .inexact ∨
    (∃ q, divide a b = fitS q) ∨ (∃ q, divide a b = fitD q) := by
  cases a <;> cases b <;> simp_all [divide, Val.tag, Val.toRat?, isApproxZero, Val.isDbl] <;>
    (repeat' split) <;>
    first
    | (right; right; left; exact ⟨_, rfl⟩)
    | (right; right; right; exact ⟨_, rfl⟩)
    | simp_all

theorem divide_kinds (a b : Val) (ha : a.tag ≠ .str) (hb : b.tag ≠ .str) :
    divide a b ≠ .err .typeMismatch := by
  rcases divide_cases a b ha hb with h | h | ⟨q, h⟩ | ⟨q, h⟩ <;> rw [h]
  · simp
  · simp
  · exact fitS_ne q
  · exact fitD_ne q

theorem divide_ok_num (a b q : Val) (ha : a.tag ≠ .str) (hb : b.tag ≠ .str) (hq : divide a b = .ok q) :
    q.tag ≠ .str := by
  rcases divide_cases a b ha hb with h | h | ⟨x, h⟩ | ⟨x, h⟩ <;> rw [h] at hq
  · cases hq
  · cases hq
  · exact fitS_ok_num hq
  · exact fitD_ok_num hq

theorem num_table_total (op : Op) (a b : Ty) (ha : a ≠ .str) (hb : b ≠ .str) :
    ∃ t, binType op a b = some t ∧ t ≠ .str := by
  cases op <;> cases a <;> cases b <;> simp_all <;> decide

/-- The operand kinds the static table accepts for `op`. -/
def KindsOk (op : Op) (a b : Ty) : Prop :=
  (a ≠ .str ∧ b ≠ .str) ∨ (a = .str ∧ b = .str ∧ (op = .plus ∨ isRel op = true))

theorem kindsOk_of_table {op : Op} {a b t : Ty} (h : binType op a b = some t) : KindsOk op a b := by
  rcases binType_kinds op a b t h with h | ⟨h1, h2, h3⟩
  · exact Or.inl ⟨h.1, h.2.1⟩
  · exact Or.inr ⟨h1, h2, h3.elim (fun x => Or.inl x.1) (fun x => Or.inr x.1)⟩

/-- **Operator step.** On operand values whose kinds the static table accepts, no VM operator other than
`MOD` raises Type mismatch. -/
theorem vmBin_no_mismatch (op : Op) (a b : Val) (hop : op ≠ .modulo) (ha : a.InRange) (hb : b.InRange)
    (hk : KindsOk op a.tag b.tag) : vmBin binType op a b ≠ .err .typeMismatch := by
  have hnum : ∀ (o : Arith), o.toOp = op → arith o a b ≠ .err .typeMismatch := by
    intro o ho
    apply arith_kinds
    rcases hk with h | ⟨h1, h2, h3⟩
    · exact Or.inl h
    · refine Or.inr ⟨h1, h2, ?_⟩
      subst ho
      cases o <;> simp_all [Arith.toOp, isRel]
  have hrel : kindOf a.tag = kindOf b.tag := by
    rcases hk with ⟨h1, h2⟩ | ⟨h1, h2, _⟩
    · cases a <;> cases b <;> simp_all [Val.tag, kindOf]
    · rw [h1, h2]
  have hlog : ∀ (f : Val → Val → Res Val), (∀ n m, f (.int n) (.int m) ≠ .err .typeMismatch) →
      a.tag ≠ .str → b.tag ≠ .str →
      ((RbModel.Num.cast a .int).bind fun x => (RbModel.Num.cast b .int).bind fun y => f x y) ≠ .err .typeMismatch := by
    intro f hf h1 h2
    apply bind_ne
    · apply cast_same_kind; cases a <;> simp_all [Val.tag, kindOf]
    · intro x hx
      obtain ⟨n, rfl, _, _⟩ := RbThm.C06.cast_int_ok ha hx
      apply bind_ne
      · apply cast_same_kind; cases b <;> simp_all [Val.tag, kindOf]
      · intro y hy
        obtain ⟨m, rfl, _, _⟩ := RbThm.C06.cast_int_ok hb hy
        exact hf n m
  have hnn : isRel op = false → op ≠ .plus → a.tag ≠ .str ∧ b.tag ≠ .str := by
    intro h1 h2
    rcases hk with h | ⟨_, _, h3⟩
    · exact h
    · rcases h3 with h3 | h3
      · exact absurd h3 h2
      · rw [h1] at h3; cases h3
  cases op <;> simp only [vmBin]
  case plus => exact hnum .add rfl
  case minus => exact hnum .sub rfl
  case multiply => exact hnum .mul rfl
  case modulo => exact absurd rfl hop
  case divide =>
    obtain ⟨h1, h2⟩ := hnn rfl (by decide)
    obtain ⟨t, ht, hts⟩ := num_table_total .divide a.tag b.tag h1 h2
    rw [ht]
    apply bind_ne (divide_kinds a b h1 h2)
    intro q hq
    apply cast_same_kind
    have hq2 : q.tag ≠ .str := divide_ok_num a b q h1 h2 hq
    cases q <;> cases t <;> simp_all [Val.tag, kindOf]
  case and =>
    obtain ⟨h1, h2⟩ := hnn rfl (by decide)
    exact hlog RbModel.Num.and (by intro n m; simp [RbModel.Num.and]) h1 h2
  case or =>
    obtain ⟨h1, h2⟩ := hnn rfl (by decide)
    exact hlog RbModel.Num.or (by intro n m; simp [RbModel.Num.or]) h1 h2
  all_goals exact bind_ne (tryCmp_kinds a b hrel) (by intro o _; simp)


/-! ## `MOD` on a huge operand (was finding C12-a, repaired by /repo ec526c5) -/

/-- The full statement (no exclusion of `MOD`). -/
def OperatorStepFull : Prop :=
  ∀ (op : Op) (a b : Val), a.InRange → b.InRange → KindsOk op a.tag b.tag →
    vmBin binType op a b ≠ .err .typeMismatch

theorem fitInt_numeric (n : Int) (w : Val) (h : fitInt n = .ok w) : w.tag ≠ .str := by
  unfold fitInt at h
  split at h
  · injection h with h; subst h; simp [Val.tag]
  · split at h
    · injection h with h; subst h; simp [Val.tag]
    · unfold mkDbl at h
      split at h
      · injection h with h; subst h; simp [Val.tag]
      · cases h

theorem roundV_numeric (a w : Val) (ha : a.tag ≠ .str) :
    roundV a ≠ .err .typeMismatch ∧ (roundV a = .ok w → w.tag ≠ .str) := by
  cases a with
  | int n => exact ⟨by simp [roundV], fun h => by simp [roundV] at h; subst h; simp [Val.tag]⟩
  | long n => exact ⟨by simp [roundV], fun h => by simp [roundV] at h; subst h; simp [Val.tag]⟩
  | sgl q =>
    simp only [roundV]
    split
    · refine ⟨?_, fun h => fitInt_numeric _ _ h⟩
      unfold fitInt mkDbl
      split <;> (try split) <;> (try split) <;> simp
    · exact ⟨by simp, fun h => by cases h⟩
  | dbl q =>
    simp only [roundV]
    split
    · refine ⟨?_, fun h => fitInt_numeric _ _ h⟩
      unfold fitInt mkDbl
      split <;> (try split) <;> (try split) <;> simp
    · exact ⟨by simp, fun h => by cases h⟩
  | str s => exact absurd rfl ha

/-- after the repair `MOD` never answers Type mismatch on numeric operands -/
theorem modulo_no_mismatch (a b : Val) (ha : a.tag ≠ .str) (hb : b.tag ≠ .str) :
    modulo a b ≠ .err .typeMismatch := by
  unfold modulo
  apply bind_ne (roundV_numeric a a ha).1
  intro ra hra
  apply bind_ne (roundV_numeric b b hb).1
  intro rb hrb
  have hrbn := (roundV_numeric b rb hb).2 hrb
  cases rb with
  | str s => exact absurd rfl hrbn
  | int n =>
    simp only [isApproxZero]
    split
    · rename_i heq; simp at heq
    · simp
    · first | (split <;> simp) | simp
  | long n =>
    simp only [isApproxZero]
    split
    · rename_i heq; simp at heq
    · simp
    · first | (split <;> simp) | simp
  | sgl q =>
    simp only [isApproxZero]
    split
    · rename_i heq; simp at heq
    · simp
    · first | (split <;> simp) | simp
  | dbl q =>
    simp only [isApproxZero]
    split
    · rename_i heq; simp at heq
    · simp
    · first | (split <;> simp) | simp

/-- **The operator step holds for every operator**, `MOD` included, on the repaired code. -/
theorem operatorStepFull_holds : OperatorStepFull := by
  intro op a b ha hb hk
  by_cases hop : op = .modulo
  · subst hop
    simp only [vmBin]
    rcases hk with ⟨h1, h2⟩ | ⟨_, _, h3⟩
    · exact modulo_no_mismatch a b h1 h2
    · rcases h3 with h3 | h3 <;> simp [isRel] at h3
  · exact vmBin_no_mismatch op a b hop ha hb hk

/-! ## Soundness of the checker on expressions -/

section Sound
variable {κ : Type} [DecidableEq κ]

theorem firstSome_append {α β : Type} (f : α → Option β) (l1 l2 : List α) :
    firstSome f (l1 ++ l2) = none ↔ firstSome f l1 = none ∧ firstSome f l2 = none := by
  induction l1 with
  | nil => simp [firstSome]
  | cons a as ih =>
    simp only [List.cons_append, firstSome]
    split <;> simp_all

theorem firstSome_none_mem {α β : Type} {f : α → Option β} {l : List α} (h : firstSome f l = none)
    {a : α} (ha : a ∈ l) : f a = none := by
  induction l with
  | nil => cases ha
  | cons b bs ih =>
    simp only [firstSome] at h
    split at h
    · cases h
    · next hb =>
      rcases List.mem_cons.mp ha with rfl | h2
      · exact hb
      · exact ih h h2

/-- The oracles return values of the kind of the static type, in range. -/
def SemWF (Γ : Env κ) (σ : Sem κ) : Prop :=
  (∀ x, kindOf (σ.var x).tag = kindOf (Γ.ty x) ∧ (σ.var x).InRange) ∧
  (∀ f vs, kindOf (σ.call f vs).tag = kindOf (Γ.ty f) ∧ (σ.call f vs).InRange) ∧
  (∀ b vs, kindOf (σ.bi b vs).tag = kindOf (biRet b) ∧ (σ.bi b vs).InRange)

mutual
/-- Literals are values of their own type (what the parser produces). -/
def Good : Expr κ → Prop
  | .lit v => v.InRange
  | .var _ => True
  | .paren e => Good e
  | .un _ e => Good e
  | .bin _ l r => Good l ∧ Good r
  | .call _ args => GoodL args
  | .bi _ args => GoodL args
def GoodL : Exprs κ → Prop
  | .nil => True
  | .cons e es => Good e ∧ GoodL es
end

/-- What a checker pass guarantees about an expression: typed by the converter, and the two expression
walkers found nothing at any node they visit. -/
def Accepted (Γ : Env κ) (e : Expr κ) (t : Ty) : Prop :=
  typeOf Γ e = some t ∧ walk (biCheck Γ) e = none ∧ walk (fnCheck Γ) e = none

def AcceptedL (Γ : Env κ) (es : Exprs κ) (ts : List Ty) : Prop :=
  typesOf Γ es = some ts ∧ walkL (biCheck Γ) es = none ∧ walkL (fnCheck Γ) es = none

def kinds (vs : List Val) : List Kind := vs.map fun v => kindOf v.tag

theorem kindsOk_congr {op : Op} {a b a' b' : Ty} (ha : kindOf a' = kindOf a) (hb : kindOf b' = kindOf b)
    (h : KindsOk op a b) : KindsOk op a' b' := by
  unfold KindsOk at *
  cases a <;> cases b <;> cases a' <;> cases b' <;> simp_all [kindOf]

theorem indexArgs_ok (vs : List Val) (ts : List Ty) (hk : kinds vs = ts.map kindOf)
    (hn : ts.all (fun t => t != .str) = true) : indexArgs vs = .ok () := by
  induction vs generalizing ts with
  | nil => rfl
  | cons v vs ih =>
    cases ts with
    | nil => simp [kinds] at hk
    | cons t ts =>
      simp only [kinds, List.map_cons, List.cons.injEq] at hk
      simp only [List.all_cons, Bool.and_eq_true, bne_iff_ne, ne_eq] at hn
      have hv : v.tag ≠ .str := by
        intro hv; rw [hv] at hk; cases t <;> simp_all [kindOf]
      simp only [indexArgs, hv, if_false]
      exact ih ts hk.2 hn.2

theorem canCast_kinds (a b : Ty) (h : canCast a b = true) : kindOf a = kindOf b := by
  cases a <;> cases b <;> first | rfl | (revert h; decide)

theorem bindArgs_ne (Γ : Env κ) (args : Exprs κ) (ps : List Ty) (ts : List Ty) (vs : List Val)
    (hts : typesOf Γ args = some ts) (hok : argsOk Γ args ps = true) (hk : kinds vs = ts.map kindOf) :
    bindArgs vs ps ≠ .err .typeMismatch := by
  induction vs generalizing args ps ts with
  | nil =>
    cases ts with
    | cons t ts => simp [kinds] at hk
    | nil =>
      cases args with
      | nil => cases ps <;> simp_all [argsOk, bindArgs]
      | cons e es =>
        simp only [typesOf] at hts
        split at hts <;> simp_all
  | cons v vs ih =>
    cases ts with
    | nil => simp [kinds] at hk
    | cons t ts =>
      cases args with
      | nil => simp [typesOf] at hts
      | cons e es =>
        cases ps with
        | nil => simp [argsOk] at hok
        | cons p ps =>
          simp only [typesOf] at hts
          split at hts
          · next t' ts' h1 h2 =>
            simp only [Option.some.injEq, List.cons.injEq] at hts
            obtain ⟨rfl, rfl⟩ := hts
            simp only [argsOk, Bool.and_eq_true] at hok
            simp only [kinds, List.map_cons, List.cons.injEq] at hk
            have hkp : kindOf t' = kindOf p := by
              have := hok.1
              simp only [argOk, h1] at this
              split at this
              · simp only [beq_iff_eq] at this; rw [this]
              · exact canCast_kinds _ _ this
            simp only [bindArgs]
            apply bind_ne
            · apply cast_same_kind; rw [hk.1, hkp]
            · intro _ _
              exact ih es ps ts' h2 hok.2 hk.2
          · simp at hts

theorem negate_ne (a : Val) (h : a.tag ≠ .str) : negate a ≠ .err .typeMismatch := by
  cases a <;> simp_all [negate, Val.tag] <;> split <;> simp
theorem unaryNot_ne (a : Val) (h : a.tag ≠ .str) : unaryNot a ≠ .err .typeMismatch := by
  cases a <;> simp_all [unaryNot, Val.tag] <;> split <;> first | exact mkSgl_ne _ | exact mkDbl_ne _ | simp

theorem kind_num {t : Ty} : t ≠ .str ↔ kindOf t = .num := by cases t <;> simp [kindOf]

/-- The kind of the result of an accepted operator is determined by the operator and the kinds of its
operands. -/
theorem result_kind {op : Op} {a b t a' b' t' : Ty} (h : binType op a b = some t)
    (h' : binType op a' b' = some t') (ha : kindOf a' = kindOf a) (hb : kindOf b' = kindOf b) :
    kindOf t' = kindOf t := by
  have h1 := binType_kinds op a b t h
  have h2 := binType_kinds op a' b' t' h'
  rcases h1 with ⟨x1, _, x3⟩ | ⟨x1, _, x3⟩ <;> rcases h2 with ⟨y1, _, y3⟩ | ⟨y1, _, y3⟩
  · rw [kind_num.mp x3, kind_num.mp y3]
  · exfalso; rw [y1] at ha; apply x1; cases a <;> simp_all [kindOf]
  · exfalso; rw [x1] at ha; apply y1; cases a' <;> simp_all [kindOf]
  · rcases x3 with ⟨o, rfl⟩ | ⟨o, rfl⟩ <;> rcases y3 with ⟨o', rfl⟩ | ⟨o', rfl⟩
    · rfl
    · rw [o] at o'; simp [isRel] at o'
    · rw [o'] at o; simp [isRel] at o
    · rfl

mutual
/-- **C12_type_sound (expressions).** Evaluating an accepted expression never raises Type mismatch — no
operator or built-in function receives an operand of the wrong kind — and the value has the kind of the
static type. -/
theorem C12_type_sound (Γ : Env κ) (σ : Sem κ) (hσ : SemWF Γ σ) :
    ∀ (e : Expr κ) (t : Ty), Accepted Γ e t → Good e →
      eval Γ σ e ≠ .err .typeMismatch ∧
      ∀ v, eval Γ σ e = .ok v → kindOf v.tag = kindOf t ∧ v.InRange
  | .lit v, t, ⟨ht, _, _⟩, hg => by
    simp only [typeOf, Option.some.injEq] at ht
    simp only [eval]
    refine ⟨by simp, ?_⟩
    intro w hw; cases hw; exact ⟨by rw [ht], hg⟩
  | .var x, t, ⟨ht, _, _⟩, _ => by
    simp only [typeOf, Option.some.injEq] at ht
    simp only [eval]
    refine ⟨by simp, ?_⟩
    intro w hw; cases hw; rw [← ht]; exact hσ.1 x
  | .paren e, t, ⟨ht, hb, hf⟩, hg => by
    simp only [typeOf] at ht
    simp only [walk, nodes, firstSome_append] at hb hf
    simp only [eval]
    exact C12_type_sound Γ σ hσ e t ⟨ht, hb.1, hf.1⟩ hg
  | .un op e, t, ⟨ht, hb, hf⟩, hg => by
    simp only [typeOf] at ht
    simp only [walk, nodes, firstSome_append] at hb hf
    split at ht
    · next t' ht' =>
      split at ht
      · cases ht
      · next hns =>
        have htt : t' = t := by simpa using ht
        rw [← htt]
        have ih := C12_type_sound Γ σ hσ e t' ⟨ht', hb.1, hf.1⟩ hg
        have hnum : ∀ a, eval Γ σ e = .ok a → a.tag ≠ .str := by
          intro a ha
          have := (ih.2 a ha).1
          rw [kind_num]; rw [this]; exact kind_num.mp hns
        cases op
        · simp only [eval]
          refine ⟨bind_ne ih.1 (fun a ha => negate_ne a (hnum a ha)), ?_⟩
          intro w hw
          obtain ⟨a, ha, hw⟩ := RbThm.C06.bind_ok hw
          obtain ⟨h1, h2⟩ := RbThm.C06.negate_typed a w (ih.2 a ha).2 hw
          exact ⟨by rw [h1]; exact (ih.2 a ha).1, h2⟩
        · simp only [eval]
          refine ⟨bind_ne ih.1 (fun a ha => unaryNot_ne a (hnum a ha)), ?_⟩
          intro w hw
          obtain ⟨a, ha, hw⟩ := RbThm.C06.bind_ok hw
          obtain ⟨h1, h2⟩ := RbThm.C06.unaryNot_typed a w (ih.2 a ha).2 hw
          exact ⟨by rw [h1]; exact (ih.2 a ha).1, h2⟩
    · cases ht
  | .bin op l r, t, ⟨ht, hb, hf⟩, hg => by
    simp only [typeOf] at ht
    simp only [walk, nodes, firstSome_append] at hb hf
    split at ht
    · next ta tb hta htb =>
      have ihl := C12_type_sound Γ σ hσ l ta ⟨hta, hb.1, hf.1⟩ hg.1
      have ihr := C12_type_sound Γ σ hσ r tb ⟨htb, hb.2.1, hf.2.1⟩ hg.2
      simp only [eval]
      constructor
      · apply bind_ne ihl.1
        intro a ha
        apply bind_ne ihr.1
        intro b hb'
        exact operatorStepFull_holds op a b (ihl.2 a ha).2 (ihr.2 b hb').2
          (kindsOk_congr (ihl.2 a ha).1 (ihr.2 b hb').1 (kindsOk_of_table ht))
      · intro w hw
        obtain ⟨a, ha, hw⟩ := RbThm.C06.bind_ok hw
        obtain ⟨b, hb', hw⟩ := RbThm.C06.bind_ok hw
        obtain ⟨h1, h2⟩ := RbThm.C06.op_result_typed op a b w (ihl.2 a ha).2 (ihr.2 b hb').2 hw
        exact ⟨result_kind ht h1 (ihl.2 a ha).1 (ihr.2 b hb').1, h2⟩
    · cases ht
  | .call f args, t, ⟨ht, hb, hf⟩, hg => by
    simp only [typeOf] at ht
    simp only [walk, nodes, firstSome_append] at hb hf
    split at ht
    · next ts hts =>
      have iha := C12_typesL_sound Γ σ hσ args ts ⟨hts, hb.1, hf.1⟩ hg
      have hfn : fnCheck Γ (.call f args) = none := firstSome_none_mem hf.2 (List.mem_singleton.mpr rfl)
      simp only [fnCheck] at hfn
      simp only [eval, target]
      by_cases harr : isArray Γ f = true
      · simp only [harr, if_true] at ht ⊢
        split at ht
        · next hn =>
          cases ht
          constructor
          · apply bind_ne iha.1
            intro vs hvs
            rw [indexArgs_ok vs ts (iha.2 vs hvs).1 hn]
            simp [Res.bind]
          · intro w hw
            obtain ⟨vs, _, hw⟩ := RbThm.C06.bind_ok hw
            obtain ⟨_, _, hw⟩ := RbThm.C06.bind_ok hw
            cases hw; exact hσ.2.1 f vs
        · cases ht
      · simp only [harr] at ht hfn ⊢
        simp only [Bool.false_eq_true, if_false, Option.some.injEq] at ht hfn ⊢
        subst ht
        cases hlk : lookup f Γ.fns with
        | none =>
          simp only
          refine ⟨by simp, ?_⟩
          intro w hw; cases hw
          by_cases hs : Γ.ty f = .str <;> simp [hs, Val.tag, kindOf, Val.InRange] <;> decide
        | some ps =>
          simp only [hlk] at hfn ⊢
          have hargs : argsOk Γ args ps = true := by
            by_cases h1 : args.length ≠ ps.length
            · simp [callArgsCheck, h1] at hfn
            · by_cases h2 : argsOk Γ args ps = true
              · exact h2
              · simp [callArgsCheck, h1, h2] at hfn
          constructor
          · apply bind_ne iha.1
            intro vs hvs
            apply bind_ne (bindArgs_ne Γ args ps ts vs hts hargs (iha.2 vs hvs).1)
            intro _ _; simp
          · intro w hw
            obtain ⟨vs, _, hw⟩ := RbThm.C06.bind_ok hw
            obtain ⟨_, _, hw⟩ := RbThm.C06.bind_ok hw
            cases hw; exact hσ.2.1 f vs
    · cases ht
  | .bi b args, t, ⟨ht, hb, hf⟩, hg => by
    simp only [typeOf] at ht
    simp only [walk, nodes, firstSome_append] at hb hf
    split at ht
    · next ts hts =>
      cases ht
      have iha := C12_typesL_sound Γ σ hσ args ts ⟨hts, hb.1, hf.1⟩ hg
      have hbi : biCheck Γ (.bi b args) = none := firstSome_none_mem hb.2 (List.mem_singleton.mpr rfl)
      simp only [biCheck, hts] at hbi
      have hok : biLint b ts (firstIsRef Γ args) = .ok := by
        cases hc : biLint b ts (firstIsRef Γ args) <;> simp_all [codeErr]
      have hrt := biLint_sound b ts _ hok
      simp only [eval]
      constructor
      · apply bind_ne iha.1
        intro vs hvs
        have : (vs.map fun v => kindOf v.tag) = ts.map kindOf := (iha.2 vs hvs).1
        rw [this, hrt]; simp
      · intro w hw
        obtain ⟨vs, hvs, hw⟩ := RbThm.C06.bind_ok hw
        have : (vs.map fun v => kindOf v.tag) = ts.map kindOf := (iha.2 vs hvs).1
        rw [this, hrt] at hw
        simp only [if_true, Res.ok.injEq] at hw
        subst hw; exact hσ.2.2 b vs
    · cases ht
theorem C12_typesL_sound (Γ : Env κ) (σ : Sem κ) (hσ : SemWF Γ σ) :
    ∀ (es : Exprs κ) (ts : List Ty), AcceptedL Γ es ts → GoodL es →
      evalL Γ σ es ≠ .err .typeMismatch ∧
      ∀ vs, evalL Γ σ es = .ok vs → kinds vs = ts.map kindOf ∧ ∀ v ∈ vs, v.InRange
  | .nil, ts, ⟨ht, _, _⟩, _ => by
    simp only [typesOf, Option.some.injEq] at ht
    subst ht
    simp only [evalL]
    refine ⟨by simp, ?_⟩
    intro vs hvs; cases hvs; simp [kinds]
  | .cons e es, ts, ⟨ht, hb, hf⟩, hg => by
    simp only [typesOf] at ht
    simp only [walkL, nodesL, firstSome_append] at hb hf
    split at ht
    · next t ts' h1 h2 =>
      cases ht
      have ih1 := C12_type_sound Γ σ hσ e t ⟨h1, hb.1, hf.1⟩ hg.1
      have ih2 := C12_typesL_sound Γ σ hσ es ts' ⟨h2, hb.2, hf.2⟩ hg.2
      simp only [evalL]
      constructor
      · apply bind_ne ih1.1
        intro v _
        apply bind_ne ih2.1
        intro vs _; simp
      · intro ws hws
        obtain ⟨v, hv, hws⟩ := RbThm.C06.bind_ok hws
        obtain ⟨vs, hvs, hws⟩ := RbThm.C06.bind_ok hws
        cases hws
        refine ⟨?_, ?_⟩
        · simp only [kinds, List.map_cons, List.cons.injEq]
          exact ⟨(ih1.2 v hv).1, (ih2.2 vs hvs).1⟩
        · intro x hx
          rcases List.mem_cons.mp hx with rfl | hx
          · exact (ih1.2 _ hv).2
          · exact (ih2.2 vs hvs).2 x hx
    · cases ht
end

/-! ## The traversal is complete, and a fault at any position is found -/

theorem self_mem_nodes : ∀ (e : Expr κ), e ∈ nodes e
  | .lit _ => by simp [nodes]
  | .var _ => by simp [nodes]
  | .paren _ => by simp [nodes]
  | .un _ _ => by simp [nodes]
  | .bin _ _ _ => by simp [nodes]
  | .call _ _ => by simp [nodes]
  | .bi _ _ => by simp [nodes]

mutual
/-- **traversal_complete.** The (repaired) walkers visit every sub-expression of an expression, at any
depth: inside parentheses, operands, argument lists of calls and built-ins, array indices. -/
theorem traversal_complete : ∀ (e : Expr κ) (p : List Nat) (s : Expr κ), subAt e p = some s → s ∈ nodes e
  | e, [], s, h => by
    have : e = s := by cases e <;> simpa [subAt] using h
    subst this; exact self_mem_nodes e
  | .lit _, _ :: _, s, h => by simp [subAt] at h
  | .var _, _ :: _, s, h => by simp [subAt] at h
  | .paren e, i :: p, s, h => by
    cases i with
    | zero => simp only [subAt] at h; simp only [nodes, List.mem_append]; exact Or.inl (traversal_complete e p s h)
    | succ n => simp [subAt] at h
  | .un _ e, i :: p, s, h => by
    cases i with
    | zero => simp only [subAt] at h; simp only [nodes, List.mem_append]; exact Or.inl (traversal_complete e p s h)
    | succ n => simp [subAt] at h
  | .bin _ l r, i :: p, s, h => by
    match i with
    | 0 => simp only [subAt] at h; simp only [nodes, List.mem_append]; exact Or.inl (traversal_complete l p s h)
    | 1 =>
      simp only [subAt] at h; simp only [nodes, List.mem_append]
      exact Or.inr (Or.inl (traversal_complete r p s h))
    | n + 2 => simp [subAt] at h
  | .call _ args, i :: p, s, h => by
    simp only [subAt] at h; simp only [nodes, List.mem_append]
    exact Or.inl (traversalL_complete args i p s h)
  | .bi _ args, i :: p, s, h => by
    simp only [subAt] at h; simp only [nodes, List.mem_append]
    exact Or.inl (traversalL_complete args i p s h)
theorem traversalL_complete : ∀ (es : Exprs κ) (i : Nat) (p : List Nat) (s : Expr κ),
    subAtL es i p = some s → s ∈ nodesL es
  | .nil, _, _, _, h => by simp [subAtL] at h
  | .cons e es, 0, p, s, h => by
    simp only [subAtL] at h; simp only [nodesL, List.mem_append]
    exact Or.inl (traversal_complete e p s h)
  | .cons e es, i + 1, p, s, h => by
    simp only [subAtL] at h; simp only [nodesL, List.mem_append]
    exact Or.inr (traversalL_complete es i p s h)
end

theorem firstSome_some_of_mem {α β : Type} {f : α → Option β} {l : List α} {a : α} (ha : a ∈ l)
    (hf : f a ≠ none) : firstSome f l ≠ none := by
  intro h; exact hf (firstSome_none_mem h ha)

/-- A node-level fault (wrong argument count, wrong argument type, variable required …) at ANY position of
an expression makes the walker reject the expression. -/
theorem walker_finds_fault (chk : Expr κ → Option LintErr) (e s : Expr κ) (p : List Nat)
    (hs : subAt e p = some s) (hbad : chk s ≠ none) : walk chk e ≠ none :=
  firstSome_some_of_mem (traversal_complete e p s hs) hbad

/-- The walkers before the repair (F10) do not have this property: the built-in call in `(UCASE$(5))` is
a sub-expression (path [0]) that `nodesOld` does not list, so `PRINT (UCASE$(5))` was accepted. -/
theorem old_traversal_incomplete :
    let e : Expr Nat := .paren (.bi .ucase (.cons (.lit (.int 5)) .nil))
    (∃ s, subAt e [0] = some s ∧ biCheck (⟨fun _ => .int, [], [], []⟩ : Env Nat) s = some .argType) ∧
    (nodesOld e).length = 1 ∧ firstSome (biCheck (⟨fun _ => .int, [], [], []⟩ : Env Nat)) (nodesOld e) = none ∧
    walk (biCheck (⟨fun _ => .int, [], [], []⟩ : Env Nat)) e = some .argType := by
  refine ⟨⟨_, rfl, ?_⟩, rfl, ?_, ?_⟩ <;> decide +kernel

mutual
/-- A type error at ANY position of an expression makes the converter reject the whole expression. -/
theorem type_error_propagates (Γ : Env κ) : ∀ (e : Expr κ) (p : List Nat) (s : Expr κ),
    subAt e p = some s → typeOf Γ s = none → typeOf Γ e = none
  | e, [], s, h, hs => by
    have : e = s := by cases e <;> simpa [subAt] using h
    subst this; exact hs
  | .lit _, _ :: _, s, h, _ => by simp [subAt] at h
  | .var _, _ :: _, s, h, _ => by simp [subAt] at h
  | .paren e, i :: p, s, h, hs => by
    cases i with
    | zero => simp only [subAt] at h; simp only [typeOf]; exact type_error_propagates Γ e p s h hs
    | succ n => simp [subAt] at h
  | .un _ e, i :: p, s, h, hs => by
    cases i with
    | zero => simp only [subAt] at h; simp only [typeOf, type_error_propagates Γ e p s h hs]
    | succ n => simp [subAt] at h
  | .bin _ l r, i :: p, s, h, hs => by
    match i with
    | 0 => simp only [subAt] at h; simp only [typeOf, type_error_propagates Γ l p s h hs]
    | 1 =>
      simp only [subAt] at h; simp only [typeOf, type_error_propagates Γ r p s h hs]
      split <;> simp_all
    | n + 2 => simp [subAt] at h
  | .call _ args, i :: p, s, h, hs => by
    simp only [subAt] at h; simp only [typeOf, types_error_propagates Γ args i p s h hs]
  | .bi _ args, i :: p, s, h, hs => by
    simp only [subAt] at h; simp only [typeOf, types_error_propagates Γ args i p s h hs]
theorem types_error_propagates (Γ : Env κ) : ∀ (es : Exprs κ) (i : Nat) (p : List Nat) (s : Expr κ),
    subAtL es i p = some s → typeOf Γ s = none → typesOf Γ es = none
  | .nil, _, _, _, h, _ => by simp [subAtL] at h
  | .cons e es, 0, p, s, h, hs => by
    simp only [subAtL] at h; simp only [typesOf, type_error_propagates Γ e p s h hs]
  | .cons e es, i + 1, p, s, h, hs => by
    simp only [subAtL] at h; simp only [typesOf, types_error_propagates Γ es i p s h hs]
    split <;> simp_all
end

/-- **single_edit_rejected (string operand for arithmetic).** If, at ANY position of an expression, an
operand of `- * / MOD AND OR` (or one operand of `+` / a comparison, or the operand of a unary operator) is
a string, the converter rejects the expression (with TypeMismatch: `typeOf = none`), hence every line
containing it. -/
theorem single_edit_rejected (Γ : Env κ) (e : Expr κ) (p : List Nat) (op : Op) (l r : Expr κ)
    (hs : subAt e p = some (.bin op l r))
    (hbad : (op ≠ .plus ∧ isRel op = false ∧ (typeOf Γ l = some .str ∨ typeOf Γ r = some .str)) ∨
            (typeOf Γ l = some .str ∧ ∃ t, typeOf Γ r = some t ∧ t ≠ .str) ∨
            (typeOf Γ r = some .str ∧ ∃ t, typeOf Γ l = some t ∧ t ≠ .str)) :
    typeOf Γ e = none := by
  apply type_error_propagates Γ e p _ hs
  simp only [typeOf]
  rcases hbad with ⟨h1, h2, h3⟩ | ⟨h1, t, h2, h3⟩ | ⟨h1, t, h2, h3⟩
  · cases hl : typeOf Γ l with
    | none => rfl
    | some a =>
      cases hr : typeOf Γ r with
      | none => rfl
      | some b =>
        simp only
        apply string_operand_rejected op a b ⟨h1, h2⟩
        rcases h3 with h3 | h3
        · left; rw [hl] at h3; simpa using h3
        · right; rw [hr] at h3; simpa using h3
  · rw [h1, h2]; simp only
    apply mixed_operands_rejected; simp [h3]
  · rw [h1, h2]; simp only
    apply mixed_operands_rejected; simp [h3]

theorem single_edit_rejected_unary (Γ : Env κ) (e : Expr κ) (p : List Nat) (op : UnOp) (c : Expr κ)
    (hs : subAt e p = some (.un op c)) (hbad : typeOf Γ c = some .str) : typeOf Γ e = none := by
  apply type_error_propagates Γ e p _ hs
  simp [typeOf, hbad]

/-- A rejected expression rejects its line, with TypeMismatch at the line's row (for the lines whose
expressions are all converted: PRINT). -/
theorem print_line_rejected (Γ : Env κ) (row : Nat) (items : Exprs κ) (i : Nat) (p : List Nat) (s : Expr κ)
    (hs : subAtL items i p = some s) (hbad : typeOf Γ s = none) :
    convLine Γ (.print row items) = some (.typeMismatch, row) := by
  simp [convLine, allTyped, types_error_propagates Γ items i p s hs hbad]

end Sound

/-! ## `MOD` on a huge operand (was finding C12-a, repaired by /repo ec526c5): examples -/

/-- the former witness of C12-a now raises Overflow -/
example : vmBin binType .modulo (.int 1) (.dbl 10000000000) = .err .overflow := by decide +kernel

example : binType .modulo .int .dbl = some .int := by decide

/-- The hypotheses of the soundness theorem are satisfiable on a non-trivial expression:
`LEFT$("ab" + S$, I% + 1)` with `S$`, `I%` variables. -/
example :
    let Γ : Env Nat := ⟨fun x => if x = 0 then .str else .int, [], [], []⟩
    let e : Expr Nat := .bi .left (.cons (.bin .plus (.lit (.str ['a', 'b'])) (.var 0))
      (.cons (.bin .plus (.var 1) (.lit (.int 1))) .nil))
    Accepted Γ e .str := by
  refine ⟨?_, ?_, ?_⟩ <;> decide +kernel

end RbThm.C12
