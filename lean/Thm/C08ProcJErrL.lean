import Thm.ProcJSim
import Thm.ErrLSim
/-!
# C08 for the layers ProcJ (procedures ∪ jumps) and ErrL (jumps + ON ERROR / RESUME) — no internal failure

`Thm/C08Core.lean`, `Thm/C08Layers.lean`, `Thm/C08Layers2.lean` and `Thm/C08AoR.lean` prove C08 ("a program the checker accepts
runs to a BASIC-level outcome, never an internal failure") for the core language and the layers procedures, arrays, records,
jumps, procedures + arrays, arrays of records, each as a corollary of the layer's simulation theorem.  This file does the same
for the two layers completed last:

* **ProcJ** (`RbThm.ProcJSim.compile_correct_checked`: core language + SUB / FUNCTION + `label`, `GOTO`, `GOSUB`, `RETURN` in the
  main module *and inside procedure bodies*) — namespace `RbThm.C08ProcJErrL.ProcJs`;
* **ErrL** (`RbThm.ErrLSim.compile_correct_checked`: the jump layer + `ON ERROR GOTO label / RESUME NEXT / GOTO 0`, `RESUME`,
  `RESUME NEXT`, `RESUME label` in the main module) — namespace `RbThm.C08ProcJErrL.ErrLs`.

Each VM model answers `stuck` exactly where the real VM would panic on the layer's instructions (pop from an empty stack,
`PopRegisters` without a frame, `Return` / `ResumeLabel` whose recorded height cuts the register stack to nothing, `PopRet`
without a frame, `Resume` / `ResumeNext` whose error address has no statement entry, a missing variable, an operand of the wrong
kind in an unchecked accessor, no instruction at the pc) — and where the model does not follow the code (exact arithmetic leaving
its domain).  `step` is a function, so the run the simulation theorem exhibits is *the* run.  Hence, for every program passing
the layer's boolean premise checker (`ProcJ.progWfB`, `ErrL.progWfXB`; evaluated by the driver on the real front end's tree:
`procj.wf`, `errl.wf`) on which the layer's reference run *finishes* —

* **ProcJ**: `normal`, `halted` (END, also inside a procedure or a GOSUB routine) or `error c p` — including error 3 at a RETURN
  that no GOSUB of the *running activation* waits for (top level, or inside a procedure while only callers have GOSUBs pending);
  not `inexact`, `outOfFuel`, `illFormed`; `exited`, `jump`, `ret`, `notHere` never come out of `ProcJ.Ref.run`;
* **ErrL**: `normal`, `halted` or `error c p` **whatever errors were handled on the way** — by `ON ERROR RESUME NEXT`, or by
  handlers that ended with `RESUME`, `RESUME NEXT` or `RESUME label`, any number of times, at any FOR / SELECT / GOSUB depth:
  the handled errors are *inside* the finished run, they are not outcomes.  `error c p` is an *unhandled* error: no handler set,
  the handler cleared by `ON ERROR GOTO 0`, also when that happens inside a running handler.  Also `halted` when a handler's run
  reaches END or the end of the program text.  **Excluded**: `inexact`, `outOfFuel`, `illFormed` and **`unspec`** — the outcome
  `ErrL.Ref` gives where the property is silent: an error raised inside a running handler while a handler mode is set (the code
  under test dispatches again and may loop for ever; QBasic ends the program), a RETURN that leaves a handler's run, a RESUME
  inside a routine called from the handler.  For such runs nothing is claimed —

the bounded VM run never answers `stuck`, whatever the step budget (`procj_no_internal_failure`, `errl_no_internal_failure`),
and with enough budget it has halted with the reference's output (ErrL: and variables), or stopped with exactly the reference's
BASIC error, code and position (`procj_basic_level_outcome`, `errl_basic_level_outcome`; `*_only_outcome`: no budget shows
anything else).
-/

namespace RbThm.C08ProcJErrL.ProcJs
set_option linter.unusedVariables false
open RbModel RbModel.ProcJ RbModel.ProcJ.Compile RbModel.ProcJ.Vm
open RbModel.Num hiding Expr
open RbModel.Ast (Pos)
open RbThm.ProcJSim (Steps HaltsWith ErrsWith)

/-- the layer's reference semantics finished: normally, with END, or with a BASIC error (`exited`, `jump`, `ret`, `notHere`
never come out of `ProcJ.Ref.run`; they are listed because the outcome type has them) -/
def finished : ProcJ.Ref.Outcome → Bool
  | .normal => true
  | .halted => true
  | .error _ _ => true
  | .exited => false
  | .jump _ => false
  | .ret _ => false
  | .inexact => false
  | .outOfFuel => false
  | .illFormed => false
  | .notHere => false

abbrev Finished (o : ProcJ.Ref.Outcome) : Prop := finished o = true

/-! `step` is a function, so a run that is known to end cannot get stuck earlier -/

theorem run_of_steps_halt (code : Code) {σ τ υ : Vm} (h : Steps code σ τ) (hh : Vm.step code τ = .halt υ) :
    ∀ m, Vm.run code m σ = .outOfFuel ∨ Vm.run code m σ = .halted υ := by
  induction h with
  | refl σ =>
    intro m
    cases m with
    | zero => exact .inl rfl
    | succ k => exact .inr (by simp [Vm.run, hh])
  | cons hs _ ih =>
    intro m
    cases m with
    | zero => exact .inl rfl
    | succ k =>
      rcases ih hh k with h1 | h1
      · exact .inl (by simp [Vm.run, hs, h1])
      · exact .inr (by simp [Vm.run, hs, h1])

theorem run_of_steps_err (code : Code) {σ τ υ : Vm} {c : Nat} {p : Pos} (h : Steps code σ τ)
    (hh : Vm.step code τ = .error c p υ) :
    ∀ m, Vm.run code m σ = .outOfFuel ∨ Vm.run code m σ = .error c p υ := by
  induction h with
  | refl σ =>
    intro m
    cases m with
    | zero => exact .inl rfl
    | succ k => exact .inr (by simp [Vm.run, hh])
  | cons hs _ ih =>
    intro m
    cases m with
    | zero => exact .inl rfl
    | succ k =>
      rcases ih hh k with h1 | h1
      · exact .inl (by simp [Vm.run, hs, h1])
      · exact .inr (by simp [Vm.run, hs, h1])

/-- the end of the VM run, as the simulation theorem gives it, for a finished reference run -/
theorem ends (prog : SProgram) (fuel : Nat) (hw : progWfB prog = true)
    (hfin : Finished (ProcJ.Ref.run fuel prog.toAst).2) :
    (∃ τ υ, Steps (compile prog) Vm.init τ ∧ Vm.step (compile prog) τ = .halt υ ∧
        υ.out = (ProcJ.Ref.run fuel prog.toAst).1.out ∧
        ((ProcJ.Ref.run fuel prog.toAst).2 = .normal ∨ (ProcJ.Ref.run fuel prog.toAst).2 = .halted)) ∨
    (∃ τ υ c p, Steps (compile prog) Vm.init τ ∧ Vm.step (compile prog) τ = .error c p υ ∧
        υ.out = (ProcJ.Ref.run fuel prog.toAst).1.out ∧ (ProcJ.Ref.run fuel prog.toAst).2 = .error c p) := by
  have h := RbThm.ProcJSim.compile_correct_checked prog hw fuel
  rcases hr : ProcJ.Ref.run fuel prog.toAst with ⟨s', o⟩
  rw [hr] at h hfin
  cases o with
  | normal => obtain ⟨τ, υ, hs, hh, ho⟩ := h; exact .inl ⟨τ, υ, hs, hh, ho, .inl rfl⟩
  | halted => obtain ⟨τ, υ, hs, hh, ho⟩ := h; exact .inl ⟨τ, υ, hs, hh, ho, .inr rfl⟩
  | error c p => obtain ⟨τ, υ, hs, hh, ho⟩ := h; exact .inr ⟨τ, υ, c, p, hs, hh, ho, rfl⟩
  | exited => simp [Finished, finished] at hfin
  | jump L => simp [Finished, finished] at hfin
  | ret p => simp [Finished, finished] at hfin
  | inexact => simp [Finished, finished] at hfin
  | outOfFuel => simp [Finished, finished] at hfin
  | illFormed => simp [Finished, finished] at hfin
  | notHere => simp [Finished, finished] at hfin

/-- **`procj_no_internal_failure`** (layer ProcJ: SUB / FUNCTION + labels, GOTO, GOSUB, RETURN in every scope) — for every
program the layer's premise checker accepts on which the layer's reference semantics finishes (normally; with END, also inside
a procedure or a GOSUB routine; with a BASIC error — error 3 of a RETURN inside a procedure while only callers have a GOSUB
pending included), the VM model running the generated code never answers `stuck` (the model's rendering of a Rust panic: among
others `PopRet` without a call frame, `Return` whose recorded heights cut the register stack to nothing, a jump out of a
procedure's code with the procedure's frame still open): whatever the step budget `m`, the run is still going, or has halted,
or has stopped with a BASIC error. -/
theorem procj_no_internal_failure (prog : SProgram) (fuel : Nat) (hw : progWfB prog = true)
    (hfin : Finished (ProcJ.Ref.run fuel prog.toAst).2) :
    ∀ m, Vm.run (compile prog) m Vm.init ≠ .stuck := by
  intro m
  rcases ends prog fuel hw hfin with ⟨τ, υ, hs, hh, _⟩ | ⟨τ, υ, c, p, hs, hh, _⟩
  · rcases run_of_steps_halt _ hs hh m with h1 | h1 <;> simp [h1]
  · rcases run_of_steps_err _ hs hh m with h1 | h1 <;> simp [h1]

/-- **`procj_basic_level_outcome`** (layer ProcJ) — … and with a large enough budget the run ends at BASIC level: halted (the
reference ended normally or with END) or in exactly the BASIC error, code and position, the reference ends in; in both cases
with the reference's output. -/
theorem procj_basic_level_outcome (prog : SProgram) (fuel : Nat) (hw : progWfB prog = true)
    (hfin : Finished (ProcJ.Ref.run fuel prog.toAst).2) :
    ∃ n, ∀ m, n ≤ m →
      (∃ ω, Vm.run (compile prog) m Vm.init = .halted ω ∧
        ω.out = (ProcJ.Ref.run fuel prog.toAst).1.out ∧
        ((ProcJ.Ref.run fuel prog.toAst).2 = .normal ∨ (ProcJ.Ref.run fuel prog.toAst).2 = .halted)) ∨
      (∃ c p ω, Vm.run (compile prog) m Vm.init = .error c p ω ∧
        ω.out = (ProcJ.Ref.run fuel prog.toAst).1.out ∧
        (ProcJ.Ref.run fuel prog.toAst).2 = .error c p) := by
  rcases ends prog fuel hw hfin with ⟨τ, υ, hs, hh, ho, hr⟩ | ⟨τ, υ, c, p, hs, hh, ho, hr⟩
  · obtain ⟨n, hn⟩ := RbThm.ProcJSim.run_of_steps _ hs hh
    exact ⟨n, fun m hm => .inl ⟨υ, hn m hm, ho, hr⟩⟩
  · obtain ⟨n, hn⟩ := RbThm.ProcJSim.run_of_steps_error _ hs hh
    exact ⟨n, fun m hm => .inr ⟨c, p, υ, hn m hm, ho, hr⟩⟩

/-- the bounded run is a function of the budget: once it has ended it stays ended — so the outcome of
`procj_basic_level_outcome` is the only outcome other than "still running" that any budget can show -/
theorem procj_only_outcome (prog : SProgram) (fuel : Nat) (hw : progWfB prog = true)
    (hfin : Finished (ProcJ.Ref.run fuel prog.toAst).2) (m : Nat) :
    Vm.run (compile prog) m Vm.init = .outOfFuel ∨
    (∃ ω, Vm.run (compile prog) m Vm.init = .halted ω ∧ ω.out = (ProcJ.Ref.run fuel prog.toAst).1.out) ∨
    (∃ c p ω, Vm.run (compile prog) m Vm.init = .error c p ω ∧
      ω.out = (ProcJ.Ref.run fuel prog.toAst).1.out ∧ (ProcJ.Ref.run fuel prog.toAst).2 = .error c p) := by
  rcases ends prog fuel hw hfin with ⟨τ, υ, hs, hh, ho, _⟩ | ⟨τ, υ, c, p, hs, hh, ho, hr⟩
  · rcases run_of_steps_halt _ hs hh m with h1 | h1
    · exact .inl h1
    · exact .inr (.inl ⟨υ, h1, ho⟩)
  · rcases run_of_steps_err _ hs hh m with h1 | h1
    · exact .inl h1
    · exact .inr (.inr ⟨c, p, υ, h1, ho, hr⟩)

/-! non-vacuity: accepted programs that use procedures and jumps together, on which the reference finishes normally / with
error 3 raised inside a procedure -/

/-- a SUB whose GOSUB routine leaves the SUB with EXIT SUB (X% is DIM SHARED):
```
DIM SHARED X%
CALL S
X% = X% + 2
SUB S : GOSUB R : X% = 1 : EXIT SUB : R: EXIT SUB : END SUB
``` -/
def demoExit : SProgram :=
  { slots := [],
    gslots := [.int],
    body :=
      .seq (.dim ⟨true, 0⟩ .int ⟨1, 12⟩)
      (.seq (.callSub 0 .nil ⟨2, 1⟩)
      (.seq (.assign ⟨true, 0⟩ .int (.bin .plus (.var ⟨true, 0⟩ .int ⟨3, 6⟩) (.lit (.int 2) ⟨3, 11⟩) .int ⟨3, 9⟩) ⟨3, 1⟩) .skip)),
    procs :=
      [ { result := none, name := "S", params := [], slots := [],
          body :=
            .seq (.gosub 0 ⟨5, 3⟩)
            (.seq (.assign ⟨true, 0⟩ .int (.lit (.int 1) ⟨6, 8⟩) ⟨6, 3⟩)
            (.seq (.exitProc ⟨7, 3⟩)
            (.seq (.label 0 "R" ⟨8, 1⟩)
            (.seq (.exitProc ⟨9, 3⟩) .skip)))),
          pos := ⟨4, 1⟩ } ] }

/-- a RETURN inside a SUB while only the main module has a GOSUB pending (the SUB is called from the main module's GOSUB
routine): error 3 at the RETURN of the SUB
```
GOSUB R : END
R: CALL S : RETURN
SUB S : RETURN : END SUB
``` -/
def demoRet : SProgram :=
  { slots := [],
    gslots := [],
    body :=
      .seq (.gosub 0 ⟨1, 1⟩)
      (.seq (.end_ ⟨2, 1⟩)
      (.seq (.label 0 "R" ⟨3, 1⟩)
      (.seq (.callSub 0 .nil ⟨4, 1⟩)
      (.seq (.ret ⟨5, 1⟩) .skip)))),
    procs :=
      [ { result := none, name := "S", params := [], slots := [],
          body := .seq (.ret ⟨7, 3⟩) .skip,
          pos := ⟨6, 1⟩ } ] }

example : progWfB demoExit = true ∧ (ProcJ.Ref.run 30 demoExit.toAst).2 = .normal := by decide
example : progWfB demoRet = true ∧ (ProcJ.Ref.run 30 demoRet.toAst).2 = .error 3 ⟨7, 3⟩ := by decide

example (m : Nat) : Vm.run (compile demoExit) m Vm.init ≠ .stuck :=
  procj_no_internal_failure demoExit 30 (by decide) (by decide) m

example (m : Nat) : Vm.run (compile demoRet) m Vm.init ≠ .stuck :=
  procj_no_internal_failure demoRet 30 (by decide) (by decide) m

/-- the SUB's RETURN ends the run with error 3 at ⟨7, 3⟩ for every sufficient budget -/
example : ∃ n, ∀ m, n ≤ m → ∃ ω, Vm.run (compile demoRet) m Vm.init = .error 3 ⟨7, 3⟩ ω := by
  obtain ⟨n, hn⟩ := procj_basic_level_outcome demoRet 30 (by decide) (by decide)
  refine ⟨n, fun m hm => ?_⟩
  have hr : (ProcJ.Ref.run 30 demoRet.toAst).2 = .error 3 ⟨7, 3⟩ := by decide
  rcases hn m hm with ⟨ω, _, _, h | h⟩ | ⟨c, p, ω, h1, _, h3⟩
  · rw [hr] at h; cases h
  · rw [hr] at h; cases h
  · rw [hr] at h3; cases h3; exact ⟨ω, h1⟩

end RbThm.C08ProcJErrL.ProcJs

namespace RbThm.C08ProcJErrL.ErrLs
set_option linter.unusedVariables false
open RbModel RbModel.Num RbModel.ErrL RbModel.ErrL.Compile RbModel.ErrL.Vm
open RbModel.Ast (Pos)
open RbThm.ErrLSim (Steps ProgSpec)

/-- the error layer's reference semantics finished: normally, with END (both possibly after any number of handled errors), or
with an *unhandled* BASIC error.  **`unspec` is not finished**: it is `ErrL.Ref`'s answer where the property does not say what
happens (an error inside a running handler while a handler mode is set, a RETURN that leaves a handler's run, a RESUME inside a
routine the handler called).  `jump`, `ret`, `resumed`, `notHere` never come out of `ErrL.Ref.run` (it folds them into
`illFormed`); they are listed because the outcome type has them. -/
def finished : ErrL.Ref.Outcome → Bool
  | .normal => true
  | .halted => true
  | .error _ _ => true
  | .jump _ => false
  | .ret _ => false
  | .resumed _ => false
  | .inexact => false
  | .outOfFuel => false
  | .illFormed => false
  | .unspec => false
  | .notHere => false

abbrev Finished (o : ErrL.Ref.Outcome) : Prop := finished o = true

theorem run_of_steps_halt (P : Prog) {σ τ υ : EVm} (h : Steps P σ τ) (hh : step P τ = .halt υ) :
    ∀ m, Vm.run P m σ = .outOfFuel ∨ Vm.run P m σ = .halted υ := by
  induction h with
  | refl σ =>
    intro m
    cases m with
    | zero => exact .inl rfl
    | succ k => exact .inr (by simp [Vm.run, hh])
  | cons hs _ ih =>
    intro m
    cases m with
    | zero => exact .inl rfl
    | succ k =>
      rcases ih hh k with h1 | h1
      · exact .inl (by simp [Vm.run, hs, h1])
      · exact .inr (by simp [Vm.run, hs, h1])

theorem run_of_steps_err (P : Prog) {σ τ υ : EVm} {c : Nat} {p : Pos} (h : Steps P σ τ)
    (hh : step P τ = .error c p υ) :
    ∀ m, Vm.run P m σ = .outOfFuel ∨ Vm.run P m σ = .error c p υ := by
  induction h with
  | refl σ =>
    intro m
    cases m with
    | zero => exact .inl rfl
    | succ k => exact .inr (by simp [Vm.run, hh])
  | cons hs _ ih =>
    intro m
    cases m with
    | zero => exact .inl rfl
    | succ k =>
      rcases ih hh k with h1 | h1
      · exact .inl (by simp [Vm.run, hs, h1])
      · exact .inr (by simp [Vm.run, hs, h1])

/-- the end of the VM run, as the simulation theorem gives it, for a finished reference run -/
theorem ends (prog : SProgram) (fuel : Nat) (hw : progWfXB prog = true)
    (hfin : Finished (ErrL.Ref.run fuel prog.toAst).2) :
    (∃ τ υ, Steps (Prog.ofProgram prog) (EVm.init prog.slots) τ ∧ step (Prog.ofProgram prog) τ = .halt υ ∧
        υ.b.env = (ErrL.Ref.run fuel prog.toAst).1.st.env ∧ υ.b.out = (ErrL.Ref.run fuel prog.toAst).1.st.out ∧
        ((ErrL.Ref.run fuel prog.toAst).2 = .normal ∨ (ErrL.Ref.run fuel prog.toAst).2 = .halted)) ∨
    (∃ τ υ c p, Steps (Prog.ofProgram prog) (EVm.init prog.slots) τ ∧ step (Prog.ofProgram prog) τ = .error c p υ ∧
        υ.b.out = (ErrL.Ref.run fuel prog.toAst).1.st.out ∧ (ErrL.Ref.run fuel prog.toAst).2 = .error c p) := by
  have h := RbThm.ErrLSim.compile_correct_checked prog fuel hw
  rcases hr : ErrL.Ref.run fuel prog.toAst with ⟨s', o⟩
  rw [hr] at h hfin
  cases o with
  | normal => obtain ⟨τ, υ, hs, hh, he, ho⟩ := h; exact .inl ⟨τ, υ, hs, hh, he, ho, .inl rfl⟩
  | halted => obtain ⟨τ, υ, hs, hh, he, ho⟩ := h; exact .inl ⟨τ, υ, hs, hh, he, ho, .inr rfl⟩
  | error c p => obtain ⟨τ, υ, hs, hh, ho⟩ := h; exact .inr ⟨τ, υ, c, p, hs, hh, ho, rfl⟩
  | jump L => simp [Finished, finished] at hfin
  | ret p => simp [Finished, finished] at hfin
  | resumed k => simp [Finished, finished] at hfin
  | inexact => simp [Finished, finished] at hfin
  | outOfFuel => simp [Finished, finished] at hfin
  | illFormed => simp [Finished, finished] at hfin
  | unspec => simp [Finished, finished] at hfin
  | notHere => simp [Finished, finished] at hfin

/-- **`errl_no_internal_failure`** (error layer: the jump layer + ON ERROR GOTO label / RESUME NEXT / GOTO 0, RESUME, RESUME
NEXT, RESUME label) — for every program the layer's premise checker `progWfXB` accepts on which the layer's reference semantics
finishes — normally or with END, **whatever errors were handled and resumed on the way** (by ON ERROR RESUME NEXT, or by
handlers ending in RESUME / RESUME NEXT / RESUME label, any number of times, from inside any FOR / SELECT / GOSUB nesting), or
with an unhandled BASIC error (no handler; after ON ERROR GOTO 0; RETURN without GOSUB: 3; RESUME without error: 20) — the VM
model running the generated code *with its statement-address table and label-depth table* never answers `stuck` (the model's
rendering of a Rust panic: among others `Resume` / `ResumeNext` whose error address has no entry in the statement-address table,
`ResumeLabel` whose cut leaves no register frame, `PopRegisters` without a frame after a RESUME into a loop): whatever the step
budget `m`, the run is still going, or has halted, or has stopped with a BASIC error.  Runs the reference answers `unspec` for
(an error inside a running handler with a handler mode set, …) are not covered. -/
theorem errl_no_internal_failure (prog : SProgram) (fuel : Nat) (hw : progWfXB prog = true)
    (hfin : Finished (ErrL.Ref.run fuel prog.toAst).2) :
    ∀ m, Vm.run (Prog.ofProgram prog) m (EVm.init prog.slots) ≠ .stuck := by
  intro m
  rcases ends prog fuel hw hfin with ⟨τ, υ, hs, hh, _⟩ | ⟨τ, υ, c, p, hs, hh, _⟩
  · rcases run_of_steps_halt _ hs hh m with h1 | h1 <;> simp [h1]
  · rcases run_of_steps_err _ hs hh m with h1 | h1 <;> simp [h1]

/-- **`errl_basic_level_outcome`** (error layer) — … and with a large enough budget the run ends at BASIC level: halted (the
reference ended normally or with END — in the main text, or in a handler that ran into END / the end of the text) with the
reference's variables and output, or in exactly the *unhandled* BASIC error, code and position, the reference ends in, with the
reference's output.  Errors that were handled do not show in the outcome. -/
theorem errl_basic_level_outcome (prog : SProgram) (fuel : Nat) (hw : progWfXB prog = true)
    (hfin : Finished (ErrL.Ref.run fuel prog.toAst).2) :
    ∃ n, ∀ m, n ≤ m →
      (∃ ω, Vm.run (Prog.ofProgram prog) m (EVm.init prog.slots) = .halted ω ∧
        ω.b.env = (ErrL.Ref.run fuel prog.toAst).1.st.env ∧ ω.b.out = (ErrL.Ref.run fuel prog.toAst).1.st.out ∧
        ((ErrL.Ref.run fuel prog.toAst).2 = .normal ∨ (ErrL.Ref.run fuel prog.toAst).2 = .halted)) ∨
      (∃ c p ω, Vm.run (Prog.ofProgram prog) m (EVm.init prog.slots) = .error c p ω ∧
        ω.b.out = (ErrL.Ref.run fuel prog.toAst).1.st.out ∧
        (ErrL.Ref.run fuel prog.toAst).2 = .error c p) := by
  rcases ends prog fuel hw hfin with ⟨τ, υ, hs, hh, he, ho, hr⟩ | ⟨τ, υ, c, p, hs, hh, ho, hr⟩
  · obtain ⟨n, hn⟩ := RbThm.ErrLSim.run_of_steps _ hs hh
    exact ⟨n, fun m hm => .inl ⟨υ, hn m hm, he, ho, hr⟩⟩
  · obtain ⟨n, hn⟩ := RbThm.ErrLSim.run_of_steps_error _ hs hh
    exact ⟨n, fun m hm => .inr ⟨c, p, υ, hn m hm, ho, hr⟩⟩

/-- the bounded run is a function of the budget: once it has ended it stays ended — so the outcome of
`errl_basic_level_outcome` is the only outcome other than "still running" that any budget can show -/
theorem errl_only_outcome (prog : SProgram) (fuel : Nat) (hw : progWfXB prog = true)
    (hfin : Finished (ErrL.Ref.run fuel prog.toAst).2) (m : Nat) :
    Vm.run (Prog.ofProgram prog) m (EVm.init prog.slots) = .outOfFuel ∨
    (∃ ω, Vm.run (Prog.ofProgram prog) m (EVm.init prog.slots) = .halted ω ∧
      ω.b.env = (ErrL.Ref.run fuel prog.toAst).1.st.env ∧ ω.b.out = (ErrL.Ref.run fuel prog.toAst).1.st.out) ∨
    (∃ c p ω, Vm.run (Prog.ofProgram prog) m (EVm.init prog.slots) = .error c p ω ∧
      ω.b.out = (ErrL.Ref.run fuel prog.toAst).1.st.out ∧ (ErrL.Ref.run fuel prog.toAst).2 = .error c p) := by
  rcases ends prog fuel hw hfin with ⟨τ, υ, hs, hh, he, ho, _⟩ | ⟨τ, υ, c, p, hs, hh, ho, hr⟩
  · rcases run_of_steps_halt _ hs hh m with h1 | h1
    · exact .inl h1
    · exact .inr (.inl ⟨υ, h1, he, ho⟩)
  · rcases run_of_steps_err _ hs hh m with h1 | h1
    · exact .inl h1
    · exact .inr (.inr ⟨c, p, υ, h1, ho, hr⟩)

/-! non-vacuity (slots: `Z%`, `A%`, `I%`): accepted programs whose reference run *handles* a division by zero and then
finishes — with RESUME NEXT; with RESUME after the handler repaired the divisor; with RESUME label out of a FOR; an error
inside a GOSUB routine called from a FOR body resumed at a label of the routine — and programs that end in an unhandled error:
after ON ERROR GOTO 0, and raised by the handler itself after it cleared the handler mode -/

def tenModZ : Ast.Expr := .bin .modulo (.lit (.int 10) ⟨2, 6⟩) (.var 0 .int ⟨2, 13⟩) .int ⟨2, 9⟩

/-- `ON ERROR GOTO H : A% = 10 MOD Z% : PRINT A% : END : H: Z% = 1 : <r>` with `r` = RESUME / RESUME NEXT -/
def demoH (r : SStmt) : SProgram :=
  ⟨[.int, .int, .int],
   .seq (.onErrorGoto 0 ⟨1, 1⟩)
   (.seq (.assign 1 .int tenModZ ⟨2, 1⟩)
   (.seq (.print [.expr (.var 1 .int ⟨3, 7⟩)] ⟨3, 1⟩)
   (.seq (.end_ ⟨4, 1⟩)
   (.seq (.label 0 "H" ⟨5, 1⟩)
   (.seq (.assign 0 .int (.lit (.int 1) ⟨6, 6⟩) ⟨6, 1⟩)
   (.seq r .skip))))))⟩

/-- RESUME label out of a FOR:
`ON ERROR GOTO H : FOR I% = 1 TO 3 : A% = 10 MOD Z% : NEXT : Fin: PRINT I% : END : H: RESUME Fin` -/
def demoLabel : SProgram :=
  ⟨[.int, .int, .int],
   .seq (.onErrorGoto 0 ⟨1, 1⟩)
   (.seq (.forLoop 2 .int (.lit (.int 1) ⟨2, 10⟩) (.lit (.int 3) ⟨2, 15⟩) none
      (.seq (.assign 1 .int tenModZ ⟨3, 1⟩) .skip) ⟨2, 1⟩)
   (.seq (.label 1 "Fin" ⟨5, 1⟩)
   (.seq (.print [.expr (.var 2 .int ⟨6, 7⟩)] ⟨6, 1⟩)
   (.seq (.end_ ⟨7, 1⟩)
   (.seq (.label 0 "H" ⟨8, 1⟩)
   (.seq (.resumeLabel 1 ⟨9, 1⟩) .skip))))))⟩

/-- an error inside a GOSUB routine called from a FOR body, the handler resumes at a label inside the routine:
`ON ERROR GOTO H : FOR I% = 1 TO 2 : GOSUB R : NEXT : PRINT A% : END : R: A% = 10 MOD Z% : Back: A% = A% + 1 : RETURN :
H: RESUME Back` -/
def demoGosub : SProgram :=
  ⟨[.int, .int, .int],
   .seq (.onErrorGoto 0 ⟨1, 1⟩)
   (.seq (.forLoop 2 .int (.lit (.int 1) ⟨2, 10⟩) (.lit (.int 2) ⟨2, 15⟩) none
      (.seq (.gosub 1 ⟨3, 1⟩) .skip) ⟨2, 1⟩)
   (.seq (.print [.expr (.var 1 .int ⟨5, 7⟩)] ⟨5, 1⟩)
   (.seq (.end_ ⟨6, 1⟩)
   (.seq (.label 1 "R" ⟨7, 1⟩)
   (.seq (.assign 1 .int tenModZ ⟨8, 1⟩)
   (.seq (.label 2 "Back" ⟨9, 1⟩)
   (.seq (.assign 1 .int (.bin .plus (.var 1 .int ⟨10, 6⟩) (.lit (.int 1) ⟨10, 11⟩) .int ⟨10, 9⟩) ⟨10, 1⟩)
   (.seq (.ret ⟨11, 1⟩)
   (.seq (.label 0 "H" ⟨12, 1⟩)
   (.seq (.resumeLabel 2 ⟨13, 1⟩) .skip))))))))))⟩

/-- the handler is cleared before the failing statement: `ON ERROR GOTO H : ON ERROR GOTO 0 : A% = 10 MOD Z% : END : H: RESUME
NEXT` — the division by zero is unhandled -/
def demoCleared : SProgram :=
  ⟨[.int, .int, .int],
   .seq (.onErrorGoto 0 ⟨1, 1⟩)
   (.seq (.onErrorGoto0 ⟨1, 20⟩)
   (.seq (.assign 1 .int tenModZ ⟨2, 1⟩)
   (.seq (.end_ ⟨4, 1⟩)
   (.seq (.label 0 "H" ⟨5, 1⟩)
   (.seq (.resumeNext ⟨6, 1⟩) .skip)))))⟩

/-- an error raised inside the running handler after the handler cleared the handler mode — `Ref` defines it (the error ends
the program); with the mode still set it would be `unspec`:
`ON ERROR GOTO H : A% = 10 MOD Z% : END : H: ON ERROR GOTO 0 : A% = 10 MOD Z% : RESUME NEXT` (second division at line 7) -/
def demoInHandler : SProgram :=
  ⟨[.int, .int, .int],
   .seq (.onErrorGoto 0 ⟨1, 1⟩)
   (.seq (.assign 1 .int tenModZ ⟨2, 1⟩)
   (.seq (.end_ ⟨4, 1⟩)
   (.seq (.label 0 "H" ⟨5, 1⟩)
   (.seq (.onErrorGoto0 ⟨6, 1⟩)
   (.seq (.assign 1 .int (.bin .modulo (.lit (.int 10) ⟨7, 6⟩) (.var 0 .int ⟨7, 13⟩) .int ⟨7, 9⟩) ⟨7, 1⟩)
   (.seq (.resumeNext ⟨8, 1⟩) .skip))))))⟩

example : progWfXB (demoH (.resume ⟨7, 1⟩)) = true ∧ progWfXB (demoH (.resumeNext ⟨7, 1⟩)) = true ∧ progWfXB demoLabel = true ∧
    progWfXB demoGosub = true ∧ progWfXB demoCleared = true ∧ progWfXB demoInHandler = true := by decide

/-- handled errors, then END: the `halted` clause is hit through a handled error in each of the four programs -/
example : (ErrL.Ref.run 40 (demoH (.resume ⟨7, 1⟩)).toAst).2 = .halted ∧
    (ErrL.Ref.run 40 (demoH (.resumeNext ⟨7, 1⟩)).toAst).2 = .halted ∧
    (ErrL.Ref.run 40 demoLabel.toAst).2 = .halted ∧ (ErrL.Ref.run 60 demoGosub.toAst).2 = .halted := by
  refine ⟨by decide +kernel, by decide +kernel, by decide +kernel, by decide +kernel⟩

/-- unhandled errors: Division by zero (11) at the failing expression — after ON ERROR GOTO 0, and inside the handler -/
example : (ErrL.Ref.run 40 demoCleared.toAst).2 = .error 11 ⟨2, 9⟩ ∧
    (ErrL.Ref.run 40 demoInHandler.toAst).2 = .error 11 ⟨7, 9⟩ := by
  refine ⟨by decide +kernel, by decide +kernel⟩

example (m : Nat) : Vm.run (Prog.ofProgram (demoH (.resume ⟨7, 1⟩))) m (EVm.init [.int, .int, .int]) ≠ .stuck :=
  errl_no_internal_failure (demoH (.resume ⟨7, 1⟩)) 40 (by decide) (by decide +kernel) m

example (m : Nat) : Vm.run (Prog.ofProgram demoGosub) m (EVm.init [.int, .int, .int]) ≠ .stuck :=
  errl_no_internal_failure demoGosub 60 (by decide) (by decide +kernel) m

example (m : Nat) : Vm.run (Prog.ofProgram demoInHandler) m (EVm.init [.int, .int, .int]) ≠ .stuck :=
  errl_no_internal_failure demoInHandler 40 (by decide) (by decide +kernel) m

end RbThm.C08ProcJErrL.ErrLs
