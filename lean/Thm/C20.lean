import RbModel.Pc
/-!
C20 — parser combinators honour their backtracking and error contract.

All statements are over the denotational model `RbModel.Pc` (a parser over a fixed input is a function
`Nat → Res` from the start position to the observable outcome *and* the position afterwards).

Contract predicates
* `WB len p`   — *well-behaved*: a soft failure leaves the position where it started, a success never
                 moves the position backwards, and positions stay `≤ len` (the input length);
* `Mono len p` — the weaker, unconditional part: no outcome moves the position backwards or beyond `len`;
* `Prog p`     — a success consumes input.

Main theorems: `run_wb` (every expression whose leaves/mappers are well-behaved denotes a well-behaved
parser), `run_mono` (every expression, without exception, never moves backwards), the per-combinator
`*_wb` lemmas, `fatal_never_downgraded`, `or_first_success`, `many_maximal_run` (+ `many_sound`,
`many_no_hang`, `many_nonprogress_hangs`), `delimited_trailing_fatal` (+ `delimited_ok_ends_with_element`),
`surround_contract`, `seq_fatal_after_first`; and the documented exceptions as witnesses
(`andThen_soft_no_rewind`, `eatSoft_not_wb`, `orNoBox_needs_wb_left`, `flatten_no_rewind`,
`map_fatal_err_pinned_replaces_soft` = F14).
-/
namespace RbThm.C20
open RbModel.Pc

/-! ## 1. The contract -/

/-- Well-behaved parser over an input of length `len`. -/
structure WB (len : Nat) (p : P) : Prop where
  ok : ∀ pos v q, pos ≤ len → p pos = .ok v q → pos ≤ q ∧ q ≤ len
  soft : ∀ pos e q, pos ≤ len → p pos = .soft e q → q = pos
  fatal : ∀ pos e q, pos ≤ len → p pos = .fatal e q → pos ≤ q ∧ q ≤ len

/-- No outcome moves the position backwards or past the end. -/
structure Mono (len : Nat) (p : P) : Prop where
  ok : ∀ pos v q, pos ≤ len → p pos = .ok v q → pos ≤ q ∧ q ≤ len
  soft : ∀ pos e q, pos ≤ len → p pos = .soft e q → pos ≤ q ∧ q ≤ len
  fatal : ∀ pos e q, pos ≤ len → p pos = .fatal e q → pos ≤ q ∧ q ≤ len

/-- A success consumes input. -/
def Prog (p : P) : Prop := ∀ pos v q, p pos = .ok v q → pos < q

/-- A success does not consume input. -/
def NoConsume (p : P) : Prop := ∀ pos v q, p pos = .ok v q → q = pos

/-! ## 2. Leaves -/

theorem anyP_wb (inp : List Nat) : WB inp.length (anyP inp) := by
  constructor <;> intro pos x q hpos h <;> unfold anyP at h <;> split at h <;> grind

theorem anyP_prog (inp : List Nat) : Prog (anyP inp) := by
  intro pos v q h; unfold anyP at h; split at h <;> grind

theorem peekAnyP_wb (inp : List Nat) : WB inp.length (peekAnyP inp) := by
  constructor <;> intro pos x q hpos h <;> unfold peekAnyP at h <;> split at h <;> grind

theorem failSoftP_wb (len c : Nat) : WB len (failSoftP c) := by
  constructor <;> intro pos x q hpos h <;> unfold failSoftP at h <;> grind

theorem failFatalP_wb (len c : Nat) : WB len (failFatalP c) := by
  constructor <;> intro pos x q hpos h <;> unfold failFatalP at h <;> grind

theorem pureP_wb (len : Nat) : WB len pureP := by
  constructor <;> intro pos x q hpos h <;> unfold pureP at h <;> grind

/-- the deliberately ill-behaved leaf is *not* well-behaved (on any non-empty input) … -/
theorem eatSoft_not_wb : ¬ WB 1 (eatSoftP [0]) := by
  intro h
  have := h.soft 0 7 1 (by omega) (by decide)
  omega

/-- … but it still never moves backwards. -/
theorem eatSoftP_mono (inp : List Nat) : Mono inp.length (eatSoftP inp) := by
  constructor <;> intro pos x q hpos h <;> unfold eatSoftP at h <;> split at h <;> grind

theorem WB.mono {len p} (h : WB len p) : Mono len p := by
  obtain ⟨o, s, f⟩ := h
  constructor
  · exact o
  · intro pos e q hpos hq; have := s pos e q hpos hq; omega
  · exact f

/-! ## 3. Combinators preserve the contract

Every lemma has the shape "sub-parsers `WB` ⇒ combinator `WB`" (and the same for `Mono`). -/

/-- destructs all `WB`/`Mono` hypotheses in scope is not needed: `grind` instantiates the fields. -/
macro "contract" "[" ds:Lean.Parser.Tactic.simpLemma,* "]" : tactic =>
  `(tactic| (constructor <;> intro pos x q hpos h <;> simp only [$ds,*] at h <;> grind))

theorem andP_wb {len c l r} (hl : WB len l) (hr : WB len r) : WB len (andP c l r) := by
  obtain ⟨lo, ls, lf⟩ := hl; obtain ⟨ro, rs, rf⟩ := hr; contract [andP]

theorem andP_mono {len c l r} (hl : Mono len l) (hr : Mono len r) : Mono len (andP c l r) := by
  obtain ⟨lo, ls, lf⟩ := hl; obtain ⟨ro, rs, rf⟩ := hr; contract [andP]

theorem orNoBoxP_wb {len l r} (hl : WB len l) (hr : WB len r) : WB len (orNoBoxP l r) := by
  obtain ⟨lo, ls, lf⟩ := hl; obtain ⟨ro, rs, rf⟩ := hr; contract [orNoBoxP]

theorem orNoBoxP_mono {len l r} (hl : Mono len l) (hr : Mono len r) : Mono len (orNoBoxP l r) := by
  obtain ⟨lo, ls, lf⟩ := hl; obtain ⟨ro, rs, rf⟩ := hr; contract [orNoBoxP]

theorem filterP_wb {len pr p} (hp : WB len p) : WB len (filterP pr p) := by
  obtain ⟨po, ps, pf⟩ := hp; contract [filterP]

theorem filterP_mono {len pr p} (hp : Mono len p) : Mono len (filterP pr p) := by
  obtain ⟨po, ps, pf⟩ := hp; contract [filterP]

theorem filterMapP_wb {len f p} (hp : WB len p) : WB len (filterMapP f p) := by
  obtain ⟨po, ps, pf⟩ := hp; contract [filterMapP]

theorem filterMapP_mono {len f p} (hp : Mono len p) : Mono len (filterMapP f p) := by
  obtain ⟨po, ps, pf⟩ := hp; contract [filterMapP]

theorem peekP_wb {len p} (hp : WB len p) : WB len (peekP p) := by
  obtain ⟨po, ps, pf⟩ := hp; contract [peekP]

theorem peekP_mono {len p} (hp : Mono len p) : Mono len (peekP p) := by
  obtain ⟨po, ps, pf⟩ := hp; contract [peekP]

theorem toOptionP_wb {len p} (hp : WB len p) : WB len (toOptionP p) := by
  obtain ⟨po, ps, pf⟩ := hp; contract [toOptionP]

theorem toOptionP_mono {len p} (hp : Mono len p) : Mono len (toOptionP p) := by
  obtain ⟨po, ps, pf⟩ := hp; contract [toOptionP]

theorem orDefaultP_wb {len p} (hp : WB len p) : WB len (orDefaultP p) := by
  obtain ⟨po, ps, pf⟩ := hp; contract [orDefaultP]

theorem orDefaultP_mono {len p} (hp : Mono len p) : Mono len (orDefaultP p) := by
  obtain ⟨po, ps, pf⟩ := hp; contract [orDefaultP]

theorem surroundP_wb {len md l m r} (hl : WB len l) (hm : WB len m) (hr : WB len r) : WB len (surroundP md l m r) := by
  obtain ⟨lo, ls, lf⟩ := hl; obtain ⟨mo, ms, mf⟩ := hm; obtain ⟨ro, rs, rf⟩ := hr; contract [surroundP, surroundMain]

theorem surroundP_mono {len md l m r} (hl : Mono len l) (hm : Mono len m) (hr : Mono len r) : Mono len (surroundP md l m r) := by
  obtain ⟨lo, ls, lf⟩ := hl; obtain ⟨mo, ms, mf⟩ := hm; obtain ⟨ro, rs, rf⟩ := hr; contract [surroundP, surroundMain]

theorem thenWithP_wb {len c l r} (hl : WB len l) (hr : WB len r) : WB len (thenWithP c l r) := by
  obtain ⟨lo, ls, lf⟩ := hl; obtain ⟨ro, rs, rf⟩ := hr; contract [thenWithP]

theorem thenWithP_mono {len c l r} (hl : Mono len l) (hr : Mono len r) : Mono len (thenWithP c l r) := by
  obtain ⟨lo, ls, lf⟩ := hl; obtain ⟨ro, rs, rf⟩ := hr; contract [thenWithP]

theorem andThenErrP_wb {len m p} (hp : WB len p) : WB len (andThenErrP m p) := by
  obtain ⟨po, ps, pf⟩ := hp; contract [andThenErrP]

theorem andThenErrP_mono {len m p} (hp : Mono len p) : Mono len (andThenErrP m p) := by
  obtain ⟨po, ps, pf⟩ := hp; contract [andThenErrP]

theorem mapP_wb {len f p} (hp : WB len p) : WB len (mapP f p) := by
  obtain ⟨po, ps, pf⟩ := hp; contract [mapP]

theorem mapP_mono {len f p} (hp : Mono len p) : Mono len (mapP f p) := by
  obtain ⟨po, ps, pf⟩ := hp; contract [mapP]

theorem toFatalP_wb {len p} (hp : WB len p) : WB len (toFatalP p) := by
  obtain ⟨po, ps, pf⟩ := hp; contract [toFatalP]

theorem toFatalP_mono {len p} (hp : Mono len p) : Mono len (toFatalP p) := by
  obtain ⟨po, ps, pf⟩ := hp; contract [toFatalP]

theorem withSoftErrP_wb {len c ft p} (hp : WB len p) : WB len (withSoftErrP c ft p) := by
  obtain ⟨po, ps, pf⟩ := hp; contract [withSoftErrP]

theorem withSoftErrP_mono {len c ft p} (hp : Mono len p) : Mono len (withSoftErrP c ft p) := by
  obtain ⟨po, ps, pf⟩ := hp; contract [withSoftErrP]

theorem mapFatalErrP_wb {len c p} (hp : WB len p) : WB len (mapFatalErrP c p) := by
  obtain ⟨po, ps, pf⟩ := hp; contract [mapFatalErrP]

theorem mapFatalErrP_mono {len c p} (hp : Mono len p) : Mono len (mapFatalErrP c p) := by
  obtain ⟨po, ps, pf⟩ := hp; contract [mapFatalErrP]

/-- `and_then`: unconditionally monotone … -/
theorem andThenP_mono {len m p} (hp : Mono len p) : Mono len (andThenP m p) := by
  obtain ⟨po, ps, pf⟩ := hp; contract [andThenP]

/-- … well-behaved when the mapper can only fail fatally … -/
theorem andThenP_wb {len m p} (hp : WB len p) (hm : m.fatal = true) : WB len (andThenP m p) := by
  obtain ⟨po, ps, pf⟩ := hp; contract [andThenP]

/-- … or when the decorated parser does not consume (nothing to rewind). -/
theorem andThenP_wb_of_noConsume {len m p} (hp : WB len p) (hn : NoConsume p) : WB len (andThenP m p) := by
  obtain ⟨po, ps, pf⟩ := hp; unfold NoConsume at hn; contract [andThenP]

theorem flattenP_mono {len p q} (hp : Mono len p) (hq : Mono len q) : Mono len (flattenP p q) := by
  obtain ⟨po, ps, pf⟩ := hp; obtain ⟨qo, qs, qf⟩ := hq; contract [flattenP]

/-- `flatten` is well-behaved when the outer parser does not consume (its documented use with `ctx_parser`). -/
theorem flattenP_wb_of_noConsume {len p q} (hp : WB len p) (hq : WB len q) (hn : NoConsume p) :
    WB len (flattenP p q) := by
  obtain ⟨po, ps, pf⟩ := hp; obtain ⟨qo, qs, qf⟩ := hq; unfold NoConsume at hn; contract [flattenP]

/-! ### choice over a vector (`OrParser`) -/

theorem orBoxP_wb {len} (p : P) (rest : List P) (hp : WB len p) (hr : ∀ q ∈ rest, WB len q) :
    WB len (orBoxP p rest) := by
  induction rest generalizing p with
  | nil => simpa [orBoxP] using hp
  | cons q rest ih =>
    have ih' := ih q (hr q (by simp)) (fun x hx => hr x (by simp [hx]))
    obtain ⟨lo, ls, lf⟩ := hp; obtain ⟨ro, rs, rf⟩ := ih'; contract [orBoxP]

theorem orBoxP_mono {len} (p : P) (rest : List P) (hp : Mono len p) (hr : ∀ q ∈ rest, Mono len q) :
    Mono len (orBoxP p rest) := by
  induction rest generalizing p with
  | nil => simpa [orBoxP] using hp
  | cons q rest ih =>
    have ih' := ih q (hr q (by simp)) (fun x hx => hr x (by simp [hx]))
    obtain ⟨lo, ls, lf⟩ := hp; obtain ⟨ro, rs, rf⟩ := ih'; contract [orBoxP]

/-! ### repetition -/

theorem manyLoop_mono {len p} (hp : Mono len p) (fuel pos : Nat) (acc : List Val) (hpos : pos ≤ len) :
    (∀ v q, manyLoop p fuel pos acc = .ok v q → pos ≤ q ∧ q ≤ len) ∧
    (∀ e q, manyLoop p fuel pos acc ≠ .soft e q) ∧
    (∀ e q, manyLoop p fuel pos acc = .fatal e q → pos ≤ q ∧ q ≤ len) := by
  obtain ⟨po, ps, pf⟩ := hp
  induction fuel generalizing pos acc with
  | zero => simp [manyLoop]
  | succ n ih =>
    simp only [manyLoop]
    split
    · next v q hq =>
      have := po _ _ _ hpos hq
      have := ih q (acc ++ [v]) (by omega)
      grind
    · grind
    · grind
    · grind

theorem manyP_mono {len an p} (hp : Mono len p) : Mono len (manyP len an p) := by
  have hl := manyLoop_mono hp
  obtain ⟨po, ps, pf⟩ := hp
  constructor <;> intro pos x q hpos h <;> simp only [manyP] at h <;> split at h
  all_goals first
    | (next v q1 hq1 => have := po _ _ _ hpos hq1; have := hl (len + 3) q1 [v] (by omega); grind)
    | grind

theorem manyP_wb {len an p} (hp : WB len p) : WB len (manyP len an p) := by
  have hl := manyLoop_mono hp.mono
  obtain ⟨po, ps, pf⟩ := hp
  constructor <;> intro pos x q hpos h <;> simp only [manyP] at h <;> split at h
  all_goals first
    | (next v q1 hq1 => have := po _ _ _ hpos hq1; have := hl (len + 3) q1 [v] (by omega); grind)
    | grind

/-! ### repetition with an arbitrary many-combiner (`many.rs ManyCombiner`)

`ManyParser::parse` folds the maximal run of successes with `seed` / `accumulate`; the model's `manyCP` transcribes
that loop.  It is `manyP` (the `Vec` of the run) followed by the fold — so outcome and position are those of `manyP`. -/

/-- the fold `ManyParser::parse` computes over the run `vs` (`O::default()` on the empty run) -/
def MCmb.fold (mc : MCmb) : List Val → Val
  | [] => mc.dflt
  | v :: vs => vs.foldl mc.acc (mc.seed v)

/-- applies the fold to the `Vec` a successful `manyP` returns; errors and `hang` pass -/
def finP (mc : MCmb) (p : P) : P := fun pos =>
  match p pos with
  | .ok v q => .ok (MCmb.fold mc v.asList) q
  | r => r

theorem asList_ofList : ∀ l : List Val, (Val.ofList l).asList = l
  | [] => rfl
  | v :: vs => by simp [Val.ofList, Val.asList, asList_ofList vs]

theorem manyLoopC_eq (mc : MCmb) (p : P) : ∀ (fuel pos : Nat) (a : Val) (as : List Val),
    manyLoopC mc p fuel pos (MCmb.fold mc (a :: as)) =
      (match manyLoop p fuel pos (a :: as) with
       | .ok v q => .ok (MCmb.fold mc v.asList) q
       | r => r) := by
  intro fuel
  induction fuel with
  | zero => intros; simp [manyLoopC, manyLoop]
  | succ n ih =>
    intro pos a as
    simp only [manyLoopC, manyLoop]
    cases h : p pos with
    | ok v q =>
      simp only []
      have := ih q a (as ++ [v])
      simp only [MCmb.fold, List.foldl_append, List.foldl_cons, List.foldl_nil, List.cons_append] at this ⊢
      exact this
    | soft e q => simp [asList_ofList]
    | fatal e q => rfl
    | hang => rfl

/-- **the many-combiner layer is a fold over the run `many` collects** -/
theorem manyCP_eq_fin (len : Nat) (mc : MCmb) (an : Bool) (p : P) :
    manyCP len mc an p = finP mc (manyP len an p) := by
  funext pos
  simp only [manyCP, finP, manyP]
  cases h : p pos with
  | ok v q => simpa [MCmb.fold] using manyLoopC_eq mc p (len + 3) q v []
  | soft e q => cases an <;> simp [MCmb.fold, Val.asList]
  | fatal e q => rfl
  | hang => rfl

theorem finP_wb {len mc p} (hp : WB len p) : WB len (finP mc p) := by
  obtain ⟨po, ps, pf⟩ := hp; contract [finP]

theorem finP_mono {len mc p} (hp : Mono len p) : Mono len (finP mc p) := by
  obtain ⟨po, ps, pf⟩ := hp; contract [finP]

theorem manyCP_wb {len mc an p} (hp : WB len p) : WB len (manyCP len mc an p) := by
  rw [manyCP_eq_fin]; exact finP_wb (manyP_wb hp)

theorem manyCP_mono {len mc an p} (hp : Mono len p) : Mono len (manyCP len mc an p) := by
  rw [manyCP_eq_fin]; exact finP_mono (manyP_mono hp)

/-! ### delimited lists -/

theorem delimLoop_mono {len am te p d} (hp : Mono len p) (hd : Mono len d)
    (fuel pos : Nat) (acc : List Val) (last : Last) (hpos : pos ≤ len) :
    (∀ v q, delimLoop am te p d fuel pos acc last = .ok v q → pos ≤ q ∧ q ≤ len) ∧
    (∀ e q, delimLoop am te p d fuel pos acc last = .soft e q → pos ≤ q ∧ q ≤ len) ∧
    (∀ e q, delimLoop am te p d fuel pos acc last = .fatal e q → pos ≤ q ∧ q ≤ len) := by
  obtain ⟨po, ps, pf⟩ := hp; obtain ⟨d_o, ds, df⟩ := hd
  induction fuel generalizing pos acc last with
  | zero => simp [delimLoop]
  | succ n ih =>
    simp only [delimLoop]
    split
    · next v q hq =>
      have h1 := po _ _ _ hpos hq
      split
      · next w q2 hq2 =>
        have h2 := d_o _ _ _ h1.2 hq2
        have := ih q2 (acc ++ [if am then Val.some v else v]) .delim (by omega)
        grind
      · next e q2 hq2 => have h2 := ds _ _ _ h1.2 hq2; simp only [delimFinish]; grind
      · next e q2 hq2 => have h2 := df _ _ _ h1.2 hq2; grind
      · grind
    · next e q hq =>
      have h1 := ps _ _ _ hpos hq
      split
      · next w q2 hq2 =>
        have h2 := d_o _ _ _ h1.2 hq2
        have := ih q2 (acc ++ [Val.none]) .delim (by omega)
        grind
      · next e q2 hq2 => have h2 := ds _ _ _ h1.2 hq2; simp only [delimFinish]; grind
      · next e q2 hq2 => have h2 := df _ _ _ h1.2 hq2; grind
      · grind
    · grind
    · grind

theorem delimitedP_mono {len am te p d} (hp : Mono len p) (hd : Mono len d) :
    Mono len (delimitedP len am te p d) := by
  constructor <;> intro pos x q hpos h <;> simp only [delimitedP] at h <;>
    have := delimLoop_mono (am := am) (te := te) hp hd (len + 3) pos [] .nothing hpos <;> grind

/-- In the loop a soft result can only come from the very first round (`last = nothing`), and then the
position is the start position if both sub-parsers are well-behaved. -/
theorem delimLoop_soft {len am te p d} (hp : WB len p) (hd : WB len d)
    (fuel pos : Nat) (acc : List Val) (last : Last) (hpos : pos ≤ len) :
    ∀ e q, delimLoop am te p d fuel pos acc last = .soft e q → last = .nothing ∧ q = pos := by
  obtain ⟨po, ps, pf⟩ := hp; obtain ⟨d_o, ds, df⟩ := hd
  induction fuel generalizing pos acc last with
  | zero => simp [delimLoop]
  | succ n ih =>
    simp only [delimLoop]
    split
    · next v q hq =>
      have h1 := po _ _ _ hpos hq
      split
      · next w q2 hq2 =>
        have h2 := d_o _ _ _ h1.2 hq2
        have := ih q2 (acc ++ [if am then Val.some v else v]) .delim (by omega)
        grind
      · simp [delimFinish]
      · simp
      · simp
    · next e q hq =>
      have h1 := ps _ _ _ hpos hq
      subst h1
      split
      · next w q2 hq2 =>
        have h2 := d_o _ _ _ hpos hq2
        have := ih q2 (acc ++ [Val.none]) .delim (by omega)
        grind
      · next e q2 hq2 =>
        have h2 := ds _ _ _ hpos hq2
        cases last <;> simp [delimFinish] <;> omega
      · simp
      · simp
    · simp
    · simp

theorem delimitedP_wb {len am te p d} (hp : WB len p) (hd : WB len d) :
    WB len (delimitedP len am te p d) := by
  have hm := delimitedP_mono (am := am) (te := te) hp.mono hd.mono
  constructor
  · exact hm.ok
  · intro pos e q hpos h
    exact (delimLoop_soft hp hd (len + 3) pos [] .nothing hpos e q h).2
  · exact hm.fatal

/-! ### sequences whose tail must succeed (`seq2 … seq6`) -/

theorem seqRest_mono {len} (ps : List P) (hps : ∀ p ∈ ps, Mono len p) (pos : Nat) (acc : List Val)
    (hpos : pos ≤ len) :
    (∀ v q, seqRest ps pos acc = .ok v q → pos ≤ q ∧ q ≤ len) ∧
    (∀ e q, seqRest ps pos acc ≠ .soft e q) ∧
    (∀ e q, seqRest ps pos acc = .fatal e q → pos ≤ q ∧ q ≤ len) := by
  induction ps generalizing pos acc with
  | nil => simp [seqRest]; omega
  | cons p ps ih =>
    obtain ⟨po, pso, pf⟩ := hps p (by simp)
    have ih' := ih (fun x hx => hps x (by simp [hx]))
    simp only [seqRest]
    split
    · next v q hq =>
      have h1 := po _ _ _ hpos hq
      have := ih' q (acc ++ [v]) h1.2
      grind
    · grind
    · grind
    · grind

theorem seqP_mono {len first rest} (hf : Mono len first) (hr : ∀ p ∈ rest, Mono len p) :
    Mono len (seqP first rest) := by
  have hl := seqRest_mono rest hr
  obtain ⟨po, ps, pf⟩ := hf
  constructor <;> intro pos x q hpos h <;> simp only [seqP] at h <;> split at h
  all_goals first
    | (next v q1 hq1 => have := po _ _ _ hpos hq1; have := hl q1 [v] (by omega); grind)
    | grind

theorem seqP_wb {len first rest} (hf : WB len first) (hr : ∀ p ∈ rest, WB len p) :
    WB len (seqP first rest) := by
  have hl := seqRest_mono rest (fun p hp => (hr p hp).mono)
  obtain ⟨po, ps, pf⟩ := hf
  constructor <;> intro pos x q hpos h <;> simp only [seqP] at h <;> split at h
  all_goals first
    | (next v q1 hq1 => have := po _ _ _ hpos hq1; have := hl q1 [v] (by omega); grind)
    | grind

/-! ### where the soft failure of a sub-parser is absorbed, the input is where it started -/

/-- optional / default / zero-or-more / optional boundaries: when the (well-behaved) sub-parser fails softly
the combinator succeeds *without having moved the input*. -/
theorem soft_absorbed_in_place {len : Nat} {p : P} (hp : WB len p) (pos : Nat) (hpos : pos ≤ len) (e q : Nat)
    (h : p pos = .soft e q) :
    toOptionP p pos = .ok .none pos ∧ orDefaultP p pos = .ok .nil pos ∧ manyP len true p pos = .ok .nil pos ∧
    (∀ m r, surroundP false p m r pos = surroundMain false m r pos pos) := by
  have hq := hp.soft _ _ _ hpos h
  subst hq
  simp [toOptionP, orDefaultP, manyP, surroundP, h]

/-! ## 4. Every expression honours the contract -/

/-- The syntactic side condition of `run_wb`: no deliberately ill-behaved leaf (`eatSoft`), no `and_then`
whose mapper may fail *softly* (documented: "even if the mapper function returns a soft error, the input
is not backtracked"), no `flatten` (it never rewinds; see `flattenP_wb_of_noConsume`).  Everything else
is unrestricted. -/
def leavesWB : PExpr → Bool
  | .any | .peekAny | .one _ | .oneOf _ | .failSoft _ | .failFatal _ | .pure | .manyStr _ => true
  | .eatSoft => false
  | .and _ l r => leavesWB l && leavesWB r
  | .or2 a b => leavesWB a && leavesWB b
  | .or3 a b c => leavesWB a && leavesWB b && leavesWB c
  | .orNoBox l r => leavesWB l && leavesWB r
  | .many _ e | .manyC _ _ e | .manyCtx _ e | .filter _ e | .filterMap _ e | .peek e | .toOption e
  | .orDefault e => leavesWB e
  | .surround _ l m r => leavesWB l && leavesWB m && leavesWB r
  | .delimited _ _ e d => leavesWB e && leavesWB d
  | .seq2 a b => leavesWB a && leavesWB b
  | .seq3 a b c => leavesWB a && leavesWB b && leavesWB c
  | .seq4 a b c d => leavesWB a && leavesWB b && leavesWB c && leavesWB d
  | .seq5 a b c d e => leavesWB a && leavesWB b && leavesWB c && leavesWB d && leavesWB e
  | .seq6 a b c d e f => leavesWB a && leavesWB b && leavesWB c && leavesWB d && leavesWB e && leavesWB f
  | .thenWith _ l r => leavesWB l && leavesWB r
  | .andThen m e => m.fatal && leavesWB e
  | .andThenErr _ e | .map _ e | .toFatal e | .withSoftErr _ _ e | .mapFatalErr _ e | .lazy e => leavesWB e
  | .flatten _ _ => false
  | .iif _ l r => leavesWB l && leavesWB r

abbrev LeavesWB (e : PExpr) : Prop := leavesWB e = true

theorem oneP_wb (inp : List Nat) (k : Nat) : WB inp.length (oneP inp k) := filterP_wb (anyP_wb inp)
theorem oneOfP_wb (inp : List Nat) (ks : List Nat) : WB inp.length (oneOfP inp ks) := filterP_wb (anyP_wb inp)

theorem mem1 {α} {a : α} {P : α → Prop} (ha : P a) : ∀ x ∈ [a], P x := by simp [ha]
theorem mem2 {α} {a b : α} {P : α → Prop} (ha : P a) (hb : P b) : ∀ x ∈ [a, b], P x := by simp [ha, hb]
theorem mem3 {α} {a b c : α} {P : α → Prop} (ha : P a) (hb : P b) (hc : P c) : ∀ x ∈ [a, b, c], P x := by
  simp [ha, hb, hc]
theorem mem4 {α} {a b c d : α} {P : α → Prop} (ha : P a) (hb : P b) (hc : P c) (hd : P d) :
    ∀ x ∈ [a, b, c, d], P x := by simp [ha, hb, hc, hd]
theorem mem5 {α} {a b c d e : α} {P : α → Prop} (ha : P a) (hb : P b) (hc : P c) (hd : P d) (he : P e) :
    ∀ x ∈ [a, b, c, d, e], P x := by simp [ha, hb, hc, hd, he]

/-- **Main theorem.**  Every parser expression built from well-behaved leaves and mappers denotes a
well-behaved parser: on every input and from every position a soft failure leaves the position where it
started, a success never moves it backwards, and the position never passes the end of the input. -/
theorem run_wb (inp : List Nat) : ∀ e, LeavesWB e → WB inp.length (run e inp)
  | .any, _ => anyP_wb inp
  | .peekAny, _ => peekAnyP_wb inp
  | .one k, _ => oneP_wb inp k
  | .oneOf ks, _ => oneOfP_wb inp ks
  | .failSoft c, _ => failSoftP_wb _ c
  | .failFatal c, _ => failFatalP_wb _ c
  | .eatSoft, h => by simp [LeavesWB, leavesWB] at h
  | .pure, _ => pureP_wb _
  | .manyStr k, _ => manyP_wb (oneP_wb inp k)
  | .and c l r, h => by
      simp [LeavesWB, leavesWB] at h; exact andP_wb (run_wb inp l h.1) (run_wb inp r h.2)
  | .or2 a b, h => by
      simp [LeavesWB, leavesWB] at h
      exact orBoxP_wb _ _ (run_wb inp a h.1) (mem1 (run_wb inp b h.2))
  | .or3 a b c, h => by
      simp [LeavesWB, leavesWB] at h
      exact orBoxP_wb _ _ (run_wb inp a h.1.1) (mem2 (run_wb inp b h.1.2) (run_wb inp c h.2))
  | .orNoBox l r, h => by
      simp [LeavesWB, leavesWB] at h; exact orNoBoxP_wb (run_wb inp l h.1) (run_wb inp r h.2)
  | .many an e, h => by simp [LeavesWB, leavesWB] at h; exact manyP_wb (run_wb inp e h)
  | .manyC mc an e, h => by simp [LeavesWB, leavesWB] at h; exact manyCP_wb (run_wb inp e h)
  | .manyCtx an e, h => by simp [LeavesWB, leavesWB] at h; exact manyP_wb (run_wb inp e h)
  | .filter pr e, h => by simp [LeavesWB, leavesWB] at h; exact filterP_wb (run_wb inp e h)
  | .filterMap f e, h => by simp [LeavesWB, leavesWB] at h; exact filterMapP_wb (run_wb inp e h)
  | .peek e, h => by simp [LeavesWB, leavesWB] at h; exact peekP_wb (run_wb inp e h)
  | .toOption e, h => by simp [LeavesWB, leavesWB] at h; exact toOptionP_wb (run_wb inp e h)
  | .orDefault e, h => by simp [LeavesWB, leavesWB] at h; exact orDefaultP_wb (run_wb inp e h)
  | .surround md l m r, h => by
      simp [LeavesWB, leavesWB] at h
      exact surroundP_wb (run_wb inp l h.1.1) (run_wb inp m h.1.2) (run_wb inp r h.2)
  | .delimited am te e d, h => by
      simp [LeavesWB, leavesWB] at h; exact delimitedP_wb (run_wb inp e h.1) (run_wb inp d h.2)
  | .seq2 a b, h => by
      simp [LeavesWB, leavesWB] at h
      exact seqP_wb (run_wb inp a h.1) (mem1 (run_wb inp b h.2))
  | .seq3 a b c, h => by
      simp [LeavesWB, leavesWB] at h
      exact seqP_wb (run_wb inp a h.1.1) (mem2 (run_wb inp b h.1.2) (run_wb inp c h.2))
  | .seq4 a b c d, h => by
      simp [LeavesWB, leavesWB] at h
      exact seqP_wb (run_wb inp a h.1.1.1) (mem3 (run_wb inp b h.1.1.2) (run_wb inp c h.1.2) (run_wb inp d h.2))
  | .seq5 a b c d e, h => by
      simp [LeavesWB, leavesWB] at h
      exact seqP_wb (run_wb inp a h.1.1.1.1)
        (mem4 (run_wb inp b h.1.1.1.2) (run_wb inp c h.1.1.2) (run_wb inp d h.1.2) (run_wb inp e h.2))
  | .seq6 a b c d e f, h => by
      simp [LeavesWB, leavesWB] at h
      exact seqP_wb (run_wb inp a h.1.1.1.1.1)
        (mem5 (run_wb inp b h.1.1.1.1.2) (run_wb inp c h.1.1.1.2) (run_wb inp d h.1.1.2) (run_wb inp e h.1.2)
          (run_wb inp f h.2))
  | .thenWith c l r, h => by
      simp [LeavesWB, leavesWB] at h; exact thenWithP_wb (run_wb inp l h.1) (run_wb inp r h.2)
  | .andThen m e, h => by
      simp [LeavesWB, leavesWB] at h; exact andThenP_wb (run_wb inp e h.2) h.1
  | .andThenErr m e, h => by simp [LeavesWB, leavesWB] at h; exact andThenErrP_wb (run_wb inp e h)
  | .map f e, h => by simp [LeavesWB, leavesWB] at h; exact mapP_wb (run_wb inp e h)
  | .toFatal e, h => by simp [LeavesWB, leavesWB] at h; exact toFatalP_wb (run_wb inp e h)
  | .withSoftErr c ft e, h => by simp [LeavesWB, leavesWB] at h; exact withSoftErrP_wb (run_wb inp e h)
  | .mapFatalErr c e, h => by simp [LeavesWB, leavesWB] at h; exact mapFatalErrP_wb (run_wb inp e h)
  | .flatten p q, h => by simp [LeavesWB, leavesWB] at h
  | .lazy e, h => by simp [LeavesWB, leavesWB] at h; exact run_wb inp e h
  | .iif b l r, h => by
      simp [LeavesWB, leavesWB] at h
      cases b
      · exact run_wb inp r h.2
      · exact run_wb inp l h.1

/-- Unconditionally — ill-behaved leaves, soft-failing `and_then` mappers and `flatten` included — no
expression ever moves the position backwards or past the end of the input, whatever the outcome. -/
theorem run_mono (inp : List Nat) : ∀ e, Mono inp.length (run e inp)
  | .any => (anyP_wb inp).mono
  | .peekAny => (peekAnyP_wb inp).mono
  | .one k => (oneP_wb inp k).mono
  | .oneOf ks => (oneOfP_wb inp ks).mono
  | .failSoft c => (failSoftP_wb _ c).mono
  | .failFatal c => (failFatalP_wb _ c).mono
  | .eatSoft => eatSoftP_mono inp
  | .pure => (pureP_wb _).mono
  | .manyStr k => manyP_mono (oneP_wb inp k).mono
  | .and c l r => andP_mono (run_mono inp l) (run_mono inp r)
  | .or2 a b => orBoxP_mono _ _ (run_mono inp a) (mem1 (run_mono inp b))
  | .or3 a b c => orBoxP_mono _ _ (run_mono inp a) (mem2 (run_mono inp b) (run_mono inp c))
  | .orNoBox l r => orNoBoxP_mono (run_mono inp l) (run_mono inp r)
  | .many an e => manyP_mono (run_mono inp e)
  | .manyC mc an e => manyCP_mono (run_mono inp e)
  | .manyCtx an e => manyP_mono (run_mono inp e)
  | .filter pr e => filterP_mono (run_mono inp e)
  | .filterMap f e => filterMapP_mono (run_mono inp e)
  | .peek e => peekP_mono (run_mono inp e)
  | .toOption e => toOptionP_mono (run_mono inp e)
  | .orDefault e => orDefaultP_mono (run_mono inp e)
  | .surround md l m r => surroundP_mono (run_mono inp l) (run_mono inp m) (run_mono inp r)
  | .delimited am te e d => delimitedP_mono (run_mono inp e) (run_mono inp d)
  | .seq2 a b => seqP_mono (run_mono inp a) (mem1 (run_mono inp b))
  | .seq3 a b c => seqP_mono (run_mono inp a) (mem2 (run_mono inp b) (run_mono inp c))
  | .seq4 a b c d => seqP_mono (run_mono inp a) (mem3 (run_mono inp b) (run_mono inp c) (run_mono inp d))
  | .seq5 a b c d e =>
      seqP_mono (run_mono inp a) (mem4 (run_mono inp b) (run_mono inp c) (run_mono inp d) (run_mono inp e))
  | .seq6 a b c d e f =>
      seqP_mono (run_mono inp a)
        (mem5 (run_mono inp b) (run_mono inp c) (run_mono inp d) (run_mono inp e) (run_mono inp f))
  | .thenWith c l r => thenWithP_mono (run_mono inp l) (run_mono inp r)
  | .andThen m e => andThenP_mono (run_mono inp e)
  | .andThenErr m e => andThenErrP_mono (run_mono inp e)
  | .map f e => mapP_mono (run_mono inp e)
  | .toFatal e => toFatalP_mono (run_mono inp e)
  | .withSoftErr c ft e => withSoftErrP_mono (run_mono inp e)
  | .mapFatalErr c e => mapFatalErrP_mono (run_mono inp e)
  | .flatten p q => flattenP_mono (run_mono inp p) (run_mono inp q)
  | .lazy e => run_mono inp e
  | .iif b l r => by
      cases b
      · exact run_mono inp r
      · exact run_mono inp l

/-! ## 5. Choice returns the first alternative that succeeds from the original position -/

/-- `OrParser` over the alternatives `p :: rest = pre ++ x :: post`: if every alternative before `x` fails
softly *when run from the original position `pos`* and `x` does not fail softly from `pos` (it succeeds, or
fails fatally, or is the last alternative), the result of the choice is exactly `x`'s result from `pos`.
No hypothesis on the alternatives: the real code restores the position itself before each retry. -/
theorem or_first_nonsoft (p : P) (rest pre post : List P) (x : P) (pos : Nat)
    (hsplit : p :: rest = pre ++ x :: post)
    (hpre : ∀ y ∈ pre, ∃ e q, y pos = .soft e q)
    (hx : (∀ e q, x pos ≠ .soft e q) ∨ post = []) :
    orBoxP p rest pos = x pos := by
  induction pre generalizing p rest with
  | nil =>
    simp at hsplit
    obtain ⟨rfl, rfl⟩ := hsplit
    cases rest with
    | nil => simp [orBoxP]
    | cons y ys =>
      simp only [orBoxP]
      rcases hx with hx | hx
      · split <;> simp_all
      · simp at hx
  | cons y pre ih =>
    simp at hsplit
    obtain ⟨rfl, hrest⟩ := hsplit
    obtain ⟨e, q, hy⟩ := hpre p (by simp)
    cases rest with
    | nil => cases pre <;> simp at hrest
    | cons r rs =>
      simp only [orBoxP, hy]
      exact ih r rs hrest (fun z hz => hpre z (by simp [hz]))

/-- The clause of the property: choice returns the first alternative that succeeds from the original position. -/
theorem or_first_success (p : P) (rest pre post : List P) (x : P) (pos : Nat) (v : Val) (q : Nat)
    (hsplit : p :: rest = pre ++ x :: post)
    (hpre : ∀ y ∈ pre, ∃ e q, y pos = .soft e q)
    (hx : x pos = .ok v q) :
    orBoxP p rest pos = .ok v q := by
  rw [or_first_nonsoft p rest pre post x pos hsplit hpre (Or.inl (by simp [hx])), hx]

/-- and it does not hide a fatal alternative behind later ones. -/
theorem or_first_fatal (p : P) (rest pre post : List P) (x : P) (pos : Nat) (e q : Nat)
    (hsplit : p :: rest = pre ++ x :: post)
    (hpre : ∀ y ∈ pre, ∃ e q, y pos = .soft e q)
    (hx : x pos = .fatal e q) :
    orBoxP p rest pos = .fatal e q := by
  rw [or_first_nonsoft p rest pre post x pos hsplit hpre (Or.inl (by simp [hx])), hx]

/-- The two-way `or` (`OrParserNoBox`) has no restore of its own: it agrees with "first success from the
original position" when its left side is well-behaved … -/
theorem orNoBox_first_success {len l r} (hl : WB len l) (pos : Nat) (hpos : pos ≤ len) :
    orNoBoxP l r pos = orBoxP l [r] pos := by
  simp only [orNoBoxP, orBoxP]
  split
  · next e q hq => have := hl.soft _ _ _ hpos hq; subst this; rfl
  all_goals rfl

/-- … and only then: with the ill-behaved leaf on the left, the right side starts one symbol late. -/
theorem orNoBox_needs_wb_left :
    run (.orNoBox .eatSoft (.one 0)) [0, 0] 0 = .ok (.sym 0) 2 ∧
    run (.or2 .eatSoft (.one 0)) [0, 0] 0 = .ok (.sym 0) 1 := by decide

/-! ## 6. Repetition returns exactly the maximal run of successes -/

/-- `Chain p pos vs q`: starting at `pos`, `p` succeeds `vs.length` times in a row, yielding `vs`, ending at `q`. -/
inductive Chain (p : P) : Nat → List Val → Nat → Prop where
  | nil (pos : Nat) : Chain p pos [] pos
  | cons {pos v q vs r} : p pos = .ok v q → Chain p q vs r → Chain p pos (v :: vs) r

theorem Chain.len_le {p : P} (hp : Prog p) {pos vs q} (h : Chain p pos vs q) : pos + vs.length ≤ q := by
  induction h with
  | nil => simp
  | cons h1 _ ih => have := hp _ _ _ h1; simp; omega

theorem Chain.le_len {len} {p : P} (hm : Mono len p) {pos vs q} (h : Chain p pos vs q) (hpos : pos ≤ len) :
    q ≤ len := by
  induction h with
  | nil => exact hpos
  | cons h1 _ ih => exact ih (hm.ok _ _ _ hpos h1).2

theorem manyLoop_of_chain {p : P} {pos vs q} (h : Chain p pos vs q) :
    ∀ (fuel : Nat) (acc : List Val), vs.length < fuel →
      manyLoop p fuel pos acc = manyLoop p (fuel - vs.length) q (acc ++ vs) := by
  induction h with
  | nil => simp
  | cons h1 _ ih =>
    intro fuel acc hf
    cases fuel with
    | zero => simp at hf
    | succ n =>
      simp only [manyLoop, h1]
      simp at hf
      rw [ih n _ hf]
      simp [Nat.add_sub_add_right]

/-- **Soundness** (no hypotheses): whenever `many` succeeds, its value is a run of successes of the element
parser from the start position, the run is *maximal* (the element parser fails softly right after it),
it is non-empty unless `many_allow_none`, and the position is where that last soft failure left it. -/
theorem manyLoop_sound (p : P) (fuel pos : Nat) (acc : List Val) (v : Val) (q' : Nat)
    (h : manyLoop p fuel pos acc = .ok v q') :
    ∃ vs q e, v = Val.ofList (acc ++ vs) ∧ Chain p pos vs q ∧ p q = .soft e q' := by
  induction fuel generalizing pos acc with
  | zero => simp [manyLoop] at h
  | succ n ih =>
    simp only [manyLoop] at h
    split at h
    · next w q1 hq1 =>
      obtain ⟨vs, q, e, hv, hc, hs⟩ := ih _ _ h
      exact ⟨w :: vs, q, e, by simpa using hv, Chain.cons hq1 hc, hs⟩
    · next e q1 hq1 =>
      simp at h
      obtain ⟨rfl, rfl⟩ := h
      exact ⟨[], pos, e, by simp, Chain.nil pos, hq1⟩
    · simp at h
    · simp at h

theorem many_sound (len : Nat) (an : Bool) (p : P) (pos : Nat) (v : Val) (q' : Nat)
    (h : manyP len an p pos = .ok v q') :
    ∃ vs q e, v = Val.ofList vs ∧ Chain p pos vs q ∧ p q = .soft e q' ∧ (vs ≠ [] ∨ an = true) := by
  simp only [manyP] at h
  split at h
  · next w q1 hq1 =>
    obtain ⟨vs, q, e, hv, hc, hs⟩ := manyLoop_sound _ _ _ _ _ _ h
    exact ⟨w :: vs, q, e, by simpa using hv, Chain.cons hq1 hc, hs, Or.inl (by simp)⟩
  · next e q1 hq1 =>
    split at h
    · next han =>
      simp at h
      obtain ⟨rfl, rfl⟩ := h
      exact ⟨[], pos, e, rfl, Chain.nil pos, hq1, Or.inr han⟩
    · simp at h
  · simp at h
  · simp at h

/-- **Completeness** (this is where progress is needed): if the element parser makes progress on success
and never moves backwards, then for every maximal run of successes from `pos` — `vs` non-empty, ending at
`q`, where the element parser fails softly — `many` returns exactly that run and the position of the
failure; and if the run is stopped by a fatal error, `many` returns that fatal error. -/
theorem many_maximal_run {len : Nat} {an : Bool} {p : P} (hm : Mono len p) (hp : Prog p)
    {pos : Nat} (hpos : pos ≤ len) {vs : List Val} {q : Nat} (hc : Chain p pos vs q) :
    (∀ e q', p q = .soft e q' → vs ≠ [] → manyP len an p pos = .ok (Val.ofList vs) q') ∧
    (∀ e q', p q = .soft e q' → vs = [] → manyP len an p pos = if an then .ok .nil q' else .soft e q') ∧
    (∀ e q', p q = .fatal e q' → manyP len an p pos = .fatal e q') := by
  have hlen := hc.len_le hp
  have hq := hc.le_len hm hpos
  cases hc with
  | nil =>
    refine ⟨fun _ _ _ h => absurd rfl h, fun e q' hs _ => by simp [manyP, hs], fun e q' hf => by simp [manyP, hf]⟩
  | cons h1 hc' =>
    rename_i v q1 vs'
    simp at hlen
    have hfuel : vs'.length < len + 3 := by omega
    have hrew := manyLoop_of_chain hc' (len + 3) [v] hfuel
    have hpos' : len + 3 - vs'.length = (len + 2 - vs'.length) + 1 := by omega
    refine ⟨fun e q' hs _ => ?_, fun _ _ _ h => by simp at h, fun e q' hf => ?_⟩
    · simp only [manyP, h1]; rw [hrew, hpos']; simp only [manyLoop, hs]; simp
    · simp only [manyP, h1]; rw [hrew, hpos']; simp only [manyLoop, hf]

/-- Under the same hypotheses `many` terminates (the model never answers `hang`), provided the element
parser itself terminates. -/
theorem manyLoop_no_hang {len : Nat} {p : P} (hm : Mono len p) (hp : Prog p) (hh : ∀ x, p x ≠ .hang)
    (fuel pos : Nat) (acc : List Val) (hpos : pos ≤ len) (hf : len - pos < fuel) :
    manyLoop p fuel pos acc ≠ .hang := by
  induction fuel generalizing pos acc with
  | zero => omega
  | succ n ih =>
    simp only [manyLoop]
    split
    · next v q hq =>
      have h1 := hm.ok _ _ _ hpos hq
      have h2 := hp _ _ _ hq
      exact ih q _ h1.2 (by omega)
    · simp
    · simp
    · next h => exact absurd h (hh pos)

theorem many_no_hang {len : Nat} {an : Bool} {p : P} (hm : Mono len p) (hp : Prog p) (hh : ∀ x, p x ≠ .hang)
    (pos : Nat) (hpos : pos ≤ len) : manyP len an p pos ≠ .hang := by
  simp only [manyP]
  split
  · next v q hq =>
    exact manyLoop_no_hang hm hp hh _ _ _ (hm.ok _ _ _ hpos hq).2 (by omega)
  · split <;> simp
  · simp
  · next h => exact absurd h (hh pos)

/-- What the real code does with an element parser that succeeds without consuming: its `loop` never
ends (the model answers `hang`; the harness observes the same by a step budget). -/
theorem manyLoop_nonprogress (p : P) (pos : Nat) (v : Val) (h : p pos = .ok v pos) (fuel : Nat) (acc : List Val) :
    manyLoop p fuel pos acc = .hang := by
  induction fuel generalizing acc with
  | zero => rfl
  | succ n ih => simp only [manyLoop, h]; exact ih _

theorem many_nonprogress_hangs (len : Nat) (an : Bool) (p : P) (pos : Nat) (v : Val) (h : p pos = .ok v pos) :
    manyP len an p pos = .hang := by
  simp only [manyP, h]; exact manyLoop_nonprogress p pos v h _ _

/-! ## 7. Delimited lists -/

/-- A trailing delimiter is rejected fatally with the configured error: in the loop, right after a
delimiter (`last = delim`), an element that fails softly followed by a delimiter that fails softly ends
the list with `fatal te`. -/
theorem delimited_trailing_fatal (am : Bool) (te : Nat) (p d : P) (fuel pos : Nat) (acc : List Val)
    (e1 q1 e2 q2 : Nat) (hp : p pos = .soft e1 q1) (hd : d q1 = .soft e2 q2) :
    delimLoop am te p d (fuel + 1) pos acc .delim = .fatal te q2 := by
  simp [delimLoop, hp, hd, delimFinish]

/-- `delimited_by` (no missing elements allowed): a delimiter that is not preceded by an element — at the
start of the list or right after another delimiter — is rejected with the same fatal error. -/
theorem delimited_missing_element_fatal (te : Nat) (p d : P) (fuel pos : Nat) (acc : List Val) (last : Last)
    (e1 q1 : Nat) (w : Val) (q2 : Nat) (hp : p pos = .soft e1 q1) (hd : d q1 = .ok w q2) :
    delimLoop false te p d (fuel + 1) pos acc last = .fatal te q2 := by
  simp [delimLoop, hp, hd]

/-- Whenever a delimited list succeeds, the last thing it parsed was an element (at `q0`, ending at `q1`)
and the delimiter failed softly right after it: a successful result never ends in a delimiter. -/
theorem delimLoop_ok_ends_with_element (am : Bool) (te : Nat) (p d : P) (fuel pos : Nat) (acc : List Val)
    (last : Last) (hl : last ≠ .value) (v : Val) (q2 : Nat)
    (h : delimLoop am te p d fuel pos acc last = .ok v q2) :
    ∃ q0 w q1 e, p q0 = .ok w q1 ∧ d q1 = .soft e q2 := by
  induction fuel generalizing pos acc last with
  | zero => simp [delimLoop] at h
  | succ n ih =>
    simp only [delimLoop] at h
    split at h
    · next w q hq =>
      split at h
      · exact ih _ _ _ (by simp) h
      · next e q3 hq3 =>
        simp [delimFinish] at h
        exact ⟨pos, w, q, e, hq, by rw [hq3, h.2]⟩
      · simp at h
      · simp at h
    · next e q hq =>
      split at h
      · split at h
        · exact ih _ _ _ (by simp) h
        · simp at h
      · cases last <;> simp [delimFinish] at h
        exact absurd rfl hl
      · simp at h
      · simp at h
    · simp at h
    · simp at h

theorem delimited_ok_ends_with_element (len : Nat) (am : Bool) (te : Nat) (p d : P) (pos : Nat) (v : Val) (q2 : Nat)
    (h : delimitedP len am te p d pos = .ok v q2) :
    ∃ q0 w q1 e, p q0 = .ok w q1 ∧ d q1 = .soft e q2 :=
  delimLoop_ok_ends_with_element am te p d _ pos [] .nothing (by simp) v q2 h

/-- The classic instance: element `0`, delimiter `1`, input `0 1` — a trailing delimiter — is the fatal
error 9 (both collectors), while `0 1 0` is the two-element list. -/
theorem delimited_examples :
    run (.delimited false 9 (.one 0) (.one 1)) [0, 1] 0 = .fatal 9 2 ∧
    run (.delimited true 9 (.one 0) (.one 1)) [0, 1] 0 = .fatal 9 2 ∧
    run (.delimited false 9 (.one 0) (.one 1)) [0, 1, 0] 0 = .ok (Val.ofList [.sym 0, .sym 0]) 3 ∧
    run (.delimited false 9 (.one 0) (.one 1)) [1, 0] 0 = .fatal 9 1 ∧
    run (.delimited true 9 (.one 0) (.one 1)) [1, 0] 0 = .ok (Val.ofList [.none, .some (.sym 0)]) 2 ∧
    run (.delimited false 9 (.one 0) (.one 1)) [2] 0 = .soft 0 0 := by decide

/-! ## 8. `surround`, both modes, as documented -/

/-- `SurroundMode::Mandatory`: a missing left boundary is a soft error (the left parser's own); after the
left boundary, a missing content or right boundary is fatal; fatal errors pass through; otherwise the
content's value, with the position after the right boundary. -/
theorem surround_mandatory_contract (l m r : P) (pos : Nat) :
    (∀ e q, l pos = .soft e q → surroundP true l m r pos = .soft e q) ∧
    (∀ e q, l pos = .fatal e q → surroundP true l m r pos = .fatal e q) ∧
    (∀ a q, l pos = .ok a q →
      (∀ e q1, (m q = .soft e q1 ∨ m q = .fatal e q1) → surroundP true l m r pos = .fatal e q1) ∧
      (∀ v q1, m q = .ok v q1 →
        (∀ e q2, (r q1 = .soft e q2 ∨ r q1 = .fatal e q2) → surroundP true l m r pos = .fatal e q2) ∧
        (∀ b q2, r q1 = .ok b q2 → surroundP true l m r pos = .ok v q2))) := by
  refine ⟨fun e q h => by simp [surroundP, h], fun e q h => by simp [surroundP, h], fun a q h => ⟨?_, ?_⟩⟩
  · rintro e q1 (h1 | h1) <;> simp [surroundP, surroundMain, h, h1]
  · intro v q1 h1
    refine ⟨?_, fun b q2 h2 => by simp [surroundP, surroundMain, h, h1, h2]⟩
    rintro e q2 (h2 | h2) <;> simp [surroundP, surroundMain, h, h1, h2]

/-- `SurroundMode::Optional`: the boundaries may be missing (a soft failure of a boundary is ignored and
parsing continues where that failure left the input); if the content is missing the result is the
content's soft error *and the position is the one before the left boundary*; fatal errors pass through. -/
theorem surround_optional_contract (l m r : P) (pos : Nat) :
    (∀ e q, l pos = .fatal e q → surroundP false l m r pos = .fatal e q) ∧
    (∀ q, ((∃ a, l pos = .ok a q) ∨ (∃ e, l pos = .soft e q)) →
      (∀ e q1, m q = .soft e q1 → surroundP false l m r pos = .soft e pos) ∧
      (∀ e q1, m q = .fatal e q1 → surroundP false l m r pos = .fatal e q1) ∧
      (∀ v q1, m q = .ok v q1 →
        (∀ e q2, r q1 = .fatal e q2 → surroundP false l m r pos = .fatal e q2) ∧
        (∀ q2, ((∃ b, r q1 = .ok b q2) ∨ (∃ e, r q1 = .soft e q2)) → surroundP false l m r pos = .ok v q2))) := by
  refine ⟨fun e q h => by simp [surroundP, h], ?_⟩
  rintro q (⟨a, h⟩ | ⟨e0, h⟩) <;>
  refine ⟨fun e q1 h1 => by simp [surroundP, surroundMain, h, h1],
          fun e q1 h1 => by simp [surroundP, surroundMain, h, h1], fun v q1 h1 => ⟨?_, ?_⟩⟩
  · intro e q2 h2; simp [surroundP, surroundMain, h, h1, h2]
  · rintro q2 (⟨b, h2⟩ | ⟨e, h2⟩) <;> simp [surroundP, surroundMain, h, h1, h2]
  · intro e q2 h2; simp [surroundP, surroundMain, h, h1, h2]
  · rintro q2 (⟨b, h2⟩ | ⟨e, h2⟩) <;> simp [surroundP, surroundMain, h, h1, h2]

/-- Both modes. -/
theorem surround_contract (l m r : P) (pos : Nat) :
    ((∀ e q, l pos = .soft e q → surroundP true l m r pos = .soft e q) ∧
     (∀ a q e q1, l pos = .ok a q → (m q = .soft e q1 ∨ m q = .fatal e q1) → surroundP true l m r pos = .fatal e q1) ∧
     (∀ a q v q1 e q2, l pos = .ok a q → m q = .ok v q1 → (r q1 = .soft e q2 ∨ r q1 = .fatal e q2) →
        surroundP true l m r pos = .fatal e q2)) ∧
    (∀ q e q1, ((∃ a, l pos = .ok a q) ∨ (∃ e, l pos = .soft e q)) → m q = .soft e q1 →
        surroundP false l m r pos = .soft e pos) := by
  have hm := surround_mandatory_contract l m r pos
  have ho := surround_optional_contract l m r pos
  refine ⟨⟨hm.1, ?_, ?_⟩, ?_⟩
  · intro a q e q1 h h1; exact (hm.2.2 a q h).1 e q1 h1
  · intro a q v q1 e q2 h h1 h2; exact ((hm.2.2 a q h).2 v q1 h1).1 e q2 h2
  · intro q e q1 h h1; exact (ho.2 q h).1 e q1 h1

/-! ## 9. Sequences: every error after the first element is fatal -/

theorem seqRest_cons_ok (p : P) (ps : List P) (pos : Nat) (acc : List Val) (v : Val) (q : Nat)
    (h : p pos = .ok v q) : seqRest (p :: ps) pos acc = seqRest ps q (acc ++ [v]) := by
  simp [seqRest, h]

/-- an element after the first that fails — softly or fatally — makes the sequence fail *fatally* with that error -/
theorem seqRest_cons_err (p : P) (ps : List P) (pos : Nat) (acc : List Val) (e q : Nat)
    (h : p pos = .soft e q ∨ p pos = .fatal e q) : seqRest (p :: ps) pos acc = .fatal e q := by
  rcases h with h | h <;> simp [seqRest, h]

theorem seqRest_never_soft (ps : List P) (pos : Nat) (acc : List Val) (e q : Nat) :
    seqRest ps pos acc ≠ .soft e q := by
  induction ps generalizing pos acc with
  | nil => simp [seqRest]
  | cons p ps ih => simp only [seqRest]; split <;> simp [ih]

/-- `seq2 … seq6` (and `then_with_in_context`): the sequence fails softly only if its *first* element
does, with that element's error and position; once the first element has succeeded, the result is a
success or a fatal error. -/
theorem seq_fatal_after_first (first : P) (rest : List P) (pos : Nat) :
    (∀ e q, seqP first rest pos = .soft e q ↔ first pos = .soft e q) ∧
    (∀ v q, first pos = .ok v q → ∀ e q', seqP first rest pos ≠ .soft e q') ∧
    (∀ e q, first pos = .fatal e q → seqP first rest pos = .fatal e q) := by
  refine ⟨fun e q => ?_, fun v q h e q' => ?_, fun e q h => by simp [seqP, h]⟩
  · simp only [seqP]
    split
    · next v q1 h1 => simp [seqRest_never_soft, h1]
    · next e1 q1 h1 => simp [h1]
    · next h1 => simp [h1]
    · next h1 => simp [h1]
  · simp [seqP, h, seqRest_never_soft]

theorem thenWith_fatal_after_first (c : Cmb) (l r : P) (pos : Nat) (a : Val) (q : Nat) (h : l pos = .ok a q) :
    (∀ e q', thenWithP c l r pos ≠ .soft e q') ∧
    (∀ e q', (r q = .soft e q' ∨ r q = .fatal e q') → thenWithP c l r pos = .fatal e q') := by
  refine ⟨fun e q' => ?_, ?_⟩
  · simp only [thenWithP, h]; split <;> simp
  · rintro e q' (h1 | h1) <;> simp [thenWithP, h, h1]

/-! ## 10. A fatal error is never swallowed or downgraded

For every combinator and every sub-parser *in the order the combinator consults them*: if the sub-parser's
result is fatal, that is the combinator's result — same error, same position.  The only combinator that
touches a fatal error is `map_fatal_err`, which replaces its code and keeps it fatal.  (`and_then_err`
and the soft-error mappers never see a fatal error.) -/

/-- unary decorators: a fatal result of the decorated parser is the result -/
theorem fatal_unary (p : P) (pos e q : Nat) (h : p pos = .fatal e q) :
    (∀ pr, filterP pr p pos = .fatal e q) ∧ (∀ f, filterMapP f p pos = .fatal e q) ∧
    peekP p pos = .fatal e q ∧ toOptionP p pos = .fatal e q ∧ orDefaultP p pos = .fatal e q ∧
    (∀ m, andThenP m p pos = .fatal e q) ∧ (∀ m, andThenErrP m p pos = .fatal e q) ∧
    (∀ f, mapP f p pos = .fatal e q) ∧ toFatalP p pos = .fatal e q ∧
    (∀ c ft, withSoftErrP c ft p pos = .fatal e q) ∧
    (∀ c, mapFatalErrP c p pos = .fatal c q) ∧
    (∀ len an, manyP len an p pos = .fatal e q) := by
  simp [filterP, filterMapP, peekP, toOptionP, orDefaultP, andThenP, andThenErrP, mapP, toFatalP,
    withSoftErrP, mapFatalErrP, manyP, h]

/-- first sub-parser of every binary / n-ary combinator -/
theorem fatal_first (p : P) (pos e q : Nat) (h : p pos = .fatal e q) :
    (∀ c r, andP c p r pos = .fatal e q) ∧ (∀ rest, orBoxP p rest pos = .fatal e q) ∧
    (∀ r, orNoBoxP p r pos = .fatal e q) ∧ (∀ md m r, surroundP md p m r pos = .fatal e q) ∧
    (∀ len am te d, delimitedP len am te p d pos = .fatal e q) ∧ (∀ rest, seqP p rest pos = .fatal e q) ∧
    (∀ c r, thenWithP c p r pos = .fatal e q) ∧ (∀ r, flattenP p r pos = .fatal e q) := by
  refine ⟨?_, ?_, ?_, ?_, ?_, ?_, ?_, ?_⟩
  · simp [andP, h]
  · intro rest; cases rest <;> simp [orBoxP, h]
  · simp [orNoBoxP, h]
  · simp [surroundP, h]
  · simp [delimitedP, delimLoop, h]
  · simp [seqP, h]
  · simp [thenWithP, h]
  · simp [flattenP, h]

/-- second sub-parser, reached after the first one succeeded (or, for choice, failed softly) -/
theorem fatal_second (l r : P) (pos p1 e q : Nat) :
    (∀ a c, l pos = .ok a p1 → r p1 = .fatal e q → andP c l r pos = .fatal e q) ∧
    (∀ a c, l pos = .ok a p1 → r p1 = .fatal e q → thenWithP c l r pos = .fatal e q) ∧
    (∀ a, l pos = .ok a p1 → r p1 = .fatal e q → flattenP l r pos = .fatal e q) ∧
    (∀ a rest acc, l pos = .ok a p1 → r p1 = .fatal e q → seqP l (r :: rest) pos = .fatal e q ∧
        seqRest (r :: rest) p1 acc = .fatal e q) ∧
    (∀ e1, l pos = .soft e1 p1 → r p1 = .fatal e q → orNoBoxP l r pos = .fatal e q) ∧
    (∀ e1 rest, l pos = .soft e1 p1 → r pos = .fatal e q → orBoxP l (r :: rest) pos = .fatal e q) := by
  refine ⟨?_, ?_, ?_, ?_, ?_, ?_⟩
  · intro a c h1 h2; simp [andP, h1, h2]
  · intro a c h1 h2; simp [thenWithP, h1, h2]
  · intro a h1 h2; simp [flattenP, h1, h2]
  · intro a rest acc h1 h2; simp [seqP, seqRest, h1, h2]
  · intro e1 h1 h2; simp [orNoBoxP, h1, h2]
  · intro e1 rest h1 h2; cases rest <;> simp [orBoxP, h1, h2]

/-- loops: a fatal error of the body (or the delimiter) ends the loop with that error -/
theorem fatal_in_loops (p d : P) (fuel pos e q : Nat) (acc : List Val) :
    (p pos = .fatal e q → manyLoop p (fuel + 1) pos acc = .fatal e q) ∧
    (∀ am te last, p pos = .fatal e q → delimLoop am te p d (fuel + 1) pos acc last = .fatal e q) ∧
    (∀ am te last v p1, p pos = .ok v p1 → d p1 = .fatal e q →
        delimLoop am te p d (fuel + 1) pos acc last = .fatal e q) ∧
    (∀ am te last e1 p1, p pos = .soft e1 p1 → d p1 = .fatal e q →
        delimLoop am te p d (fuel + 1) pos acc last = .fatal e q) := by
  refine ⟨fun h => by simp [manyLoop, h], fun am te last h => by simp [delimLoop, h], ?_, ?_⟩
  · intro am te last v p1 h1 h2; simp [delimLoop, h1, h2]
  · intro am te last e1 p1 h1 h2; simp [delimLoop, h1, h2]

/-- `surround`: content and right boundary -/
theorem fatal_in_surround (md : Bool) (l m r : P) (pos p1 e q : Nat)
    (hl : (∃ a, l pos = .ok a p1) ∨ (md = false ∧ ∃ e1, l pos = .soft e1 p1)) :
    (m p1 = .fatal e q → surroundP md l m r pos = .fatal e q) ∧
    (∀ v p2, m p1 = .ok v p2 → r p2 = .fatal e q → surroundP md l m r pos = .fatal e q) := by
  rcases hl with ⟨a, hl⟩ | ⟨rfl, e1, hl⟩
  · exact ⟨fun h => by simp [surroundP, surroundMain, hl, h],
           fun v p2 h1 h2 => by simp [surroundP, surroundMain, hl, h1, h2]⟩
  · exact ⟨fun h => by simp [surroundP, surroundMain, hl, h],
           fun v p2 h1 h2 => by simp [surroundP, surroundMain, hl, h1, h2]⟩

/-- The clause of the property: whatever combinator is put around a parser `p` (as its decorated parser, or
as the first sub-parser it consults), a fatal result of `p` is the result of the combinator — same error, same
position; `map_fatal_err` alone replaces the code and keeps it fatal.  The sub-parsers consulted later are
covered by `fatal_second`, `fatal_in_loops`, `fatal_in_surround`, `or_first_fatal` and `many_maximal_run`. -/
theorem fatal_never_downgraded (p : P) (pos e q : Nat) (h : p pos = .fatal e q) :
    (∀ pr, filterP pr p pos = .fatal e q) ∧ (∀ f, filterMapP f p pos = .fatal e q) ∧
    peekP p pos = .fatal e q ∧ toOptionP p pos = .fatal e q ∧ orDefaultP p pos = .fatal e q ∧
    (∀ m, andThenP m p pos = .fatal e q) ∧ (∀ m, andThenErrP m p pos = .fatal e q) ∧
    (∀ f, mapP f p pos = .fatal e q) ∧ toFatalP p pos = .fatal e q ∧
    (∀ c ft, withSoftErrP c ft p pos = .fatal e q) ∧
    (∀ c, mapFatalErrP c p pos = .fatal c q) ∧
    (∀ len an, manyP len an p pos = .fatal e q) ∧
    (∀ c r, andP c p r pos = .fatal e q) ∧ (∀ rest, orBoxP p rest pos = .fatal e q) ∧
    (∀ r, orNoBoxP p r pos = .fatal e q) ∧ (∀ md m r, surroundP md p m r pos = .fatal e q) ∧
    (∀ len am te d, delimitedP len am te p d pos = .fatal e q) ∧ (∀ rest, seqP p rest pos = .fatal e q) ∧
    (∀ c r, thenWithP c p r pos = .fatal e q) ∧ (∀ r, flattenP p r pos = .fatal e q) := by
  have h1 := fatal_unary p pos e q h
  have h2 := fatal_first p pos e q h
  exact ⟨h1.1, h1.2.1, h1.2.2.1, h1.2.2.2.1, h1.2.2.2.2.1, h1.2.2.2.2.2.1, h1.2.2.2.2.2.2.1,
    h1.2.2.2.2.2.2.2.1, h1.2.2.2.2.2.2.2.2.1, h1.2.2.2.2.2.2.2.2.2.1, h1.2.2.2.2.2.2.2.2.2.2.1,
    h1.2.2.2.2.2.2.2.2.2.2.2, h2⟩

/-! ## 11. The documented exceptions, and the defect F14, as witnesses -/

/-- `and_then`: "even if the mapper function returns a soft error, the input is not backtracked" —
the soft error of the mapper is reported one symbol after the start. -/
theorem andThen_soft_no_rewind :
    run (.andThen ⟨1, 5, false⟩ .any) [0] 0 = .soft 5 1 ∧
    ¬ WB 1 (run (.andThen ⟨1, 5, false⟩ .any) [0]) := by
  refine ⟨by decide, fun h => ?_⟩
  have := h.soft 0 5 1 (by omega) (by decide)
  omega

/-- `flatten` does not rewind when the inner parser fails softly after the outer one consumed. -/
theorem flatten_no_rewind :
    run (.flatten .any (.one 1)) [0, 0] 0 = .soft 0 1 ∧ ¬ WB 2 (run (.flatten .any (.one 1)) [0, 0]) := by
  refine ⟨by decide, fun h => ?_⟩
  have := h.soft 0 0 1 (by omega) (by decide)
  omega

/-- F14 — the statement `map_fatal_err`'s doc comment makes ("If the parser returns a soft error, the error is
returned as-is"), over a given transcription `mfe` of `MapFatalErrParser::parse`. -/
def MapFatalErrPassesSoft (mfe : Nat → P → P) : Prop :=
  ∀ (c : Nat) (p : P) (pos e q : Nat), p pos = .soft e q → mfe c p pos = .soft e q

/-- The pinned tree's code (`Err(_) => Err(self.err.clone())`) violates it: a soft error becomes the fatal one. -/
theorem map_fatal_err_pinned_replaces_soft : ¬ MapFatalErrPassesSoft mapFatalErrP_pinned := by
  intro h
  have := h 9 (failSoftP 3) 0 3 0 rfl
  simp [mapFatalErrP_pinned, failSoftP] at this

/-- The repaired code satisfies it (and still replaces fatal errors, and leaves successes alone). -/
theorem map_fatal_err_contract : MapFatalErrPassesSoft mapFatalErrP ∧
    (∀ c p pos e q, p pos = .fatal e q → mapFatalErrP c p pos = .fatal c q) ∧
    (∀ c p pos v q, p pos = .ok v q → mapFatalErrP c p pos = .ok v q) := by
  refine ⟨?_, ?_, ?_⟩ <;> intro c p pos x q h <;> simp [mapFatalErrP, h]

/-! ## 12. The hypotheses are satisfiable on non-trivial values -/

/-- a depth-4 expression that backtracks: `(a b | a)+` separated by `c`, surrounded by optional `b`s -/
def sampleExpr : PExpr :=
  .surround false (.toOption (.one 1))
    (.delimited false 9 (.many false (.or2 (.and .tuple (.one 0) (.one 1)) (.one 0))) (.one 2))
    (.orDefault (.one 1))

example : LeavesWB sampleExpr := by decide
example : WB 6 (run sampleExpr [0, 1, 0, 2, 0, 0]) := run_wb [0, 1, 0, 2, 0, 0] sampleExpr (by decide)
example : run sampleExpr [0, 1, 0, 2, 0, 0] 0 =
    .ok (Val.ofList [Val.ofList [.pair (.sym 0) (.sym 1), .sym 0], Val.ofList [.sym 0, .sym 0]]) 6 := by decide
example : run sampleExpr [0, 1, 0, 2] 0 = .fatal 9 4 := by decide
example : Prog (anyP [0, 1, 2]) ∧ Mono 3 (anyP [0, 1, 2]) := ⟨anyP_prog _, (anyP_wb [0, 1, 2]).mono⟩
example : Chain (anyP [0, 1]) 0 [.sym 0, .sym 1] 2 :=
  Chain.cons (q := 1) (by decide) (Chain.cons (q := 2) (by decide) (Chain.nil 2))
example : manyP 2 false (anyP [0, 1]) 0 = .ok (Val.ofList [.sym 0, .sym 1]) 2 := by decide

end RbThm.C20
