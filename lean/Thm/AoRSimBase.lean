import RbModel.AoR.Ref
import RbModel.AoR.Vm
import RbModel.RecL.Spec
import Thm.AoRLen
import Thm.AoRTyping
import Thm.AoRProps
import Thm.RecLSimBase
import Thm.ArrLSimBase
import Thm.ArrLNum
import Thm.C04
/-!
Layer AoR (arrays of records / of fixed-length strings), simulation part — the infrastructure.

The code the generator model `AoR.Compile.compile*` emits, run on the VM model `AoR.Vm.step`, computes what the reference
semantics `AoR.Ref` prescribes.  The file is `Thm/RecLSimBase.lean` (records layer) over the AoR models, with the array
relation of `Thm/ArrLSimBase.lean` lifted to elements that are `Variant` trees: `ArrRel` = same bounds, well-formed flat
vector, `getElem V idx` REPRESENTS (`ValRel`: RecL's Variant-tree representation of finite-map records) `A.get idx` on the
index box, every element (stored or fresh) typed (`HasTy`: every `STRING * n` at any depth holds exactly n characters) and
NUL-free.  The record representation lemmas (`path_get_rel`, `path_set_rel`, `fresh_rel`) are those of the records layer.
Same API as the other layers (`CodeAt`, `Steps`, `ErrsWith`, `HaltsWith`, `Rel`, `SameStacks`, `ActInv`, `EWf`, `Wf`,
`RvPost`, `ExprPost`, `StmtPost`, `IH`, `IHle`, `exprToE_correct`, `exprTo_correct`, `evalE_correct`, `cond_correct`).
-/
namespace RbThm.AoRSim
set_option linter.unusedVariables false
set_option linter.unusedSimpArgs false
open RbModel RbModel.Num RbModel.AoR RbModel.AoR.Compile RbModel.AoR.Vm
open RbModel.Ast (Pos)
open RbModel.RecL (ETy FTy FFields expand zeroOf)
open RbModel.RecL.Vm (allocTy defaultVar)
open RbThm.AoRLen RbThm.ArrLNum RbThm.RecLTy RbThm.AoRTy

abbrev St := RbModel.AoR.Ref.St
abbrev Outcome := RbModel.AoR.Ref.Outcome
abbrev InBox := RbThm.C04.InBox
abbrev RArr := RbModel.AoR.Ref.RArr
abbrev ValRel := RbModel.RecL.Spec.ValRel
abbrev FieldsRel := RbModel.RecL.Spec.FieldsRel
abbrev HasTy := RbModel.RecL.Spec.HasTy
abbrev FieldsHaveTy := RbModel.RecL.Spec.FieldsHaveTy
abbrev TypesWf := RbModel.RecL.Spec.TypesWf
abbrev EnvTyped := RbModel.RecL.Spec.EnvTyped
abbrev NoNul := RbModel.RecL.Spec.NoNul
abbrev NoNulVal := RbModel.RecL.Spec.NoNulVal
abbrev PathTyped := RbModel.RecL.Spec.PathTyped

/-- the static tables of a program: the record types, the declared types of the variables -/
structure Scope where
  types : List FFields
  slots : List ETy
  arrs : List ETy

/-! ### code placement -/

/-- the fragment `frag` sits in `code` at address `off` -/
def CodeAt (code : Code) (off : Nat) (frag : Code) : Prop :=
  ∀ i, i < frag.length → code[off + i]? = frag[i]?

theorem CodeAt.nil (code : Code) (off : Nat) : CodeAt code off [] := by
  intro i hi; simp at hi

theorem CodeAt.append_left {code : Code} {off : Nat} {a b : Code} (h : CodeAt code off (a ++ b)) :
    CodeAt code off a := by
  intro i hi
  have := h i (by simp; omega)
  rw [this, List.getElem?_append_left hi]

theorem CodeAt.append_right {code : Code} {off : Nat} {a b : Code} (h : CodeAt code off (a ++ b)) :
    CodeAt code (off + a.length) b := by
  intro i hi
  have := h (a.length + i) (by simp; omega)
  rw [Nat.add_assoc, this, List.getElem?_append_right (by omega)]
  congr 1; omega

theorem CodeAt.head {code : Code} {off : Nat} {x : CInstr × Pos} {rest : Code}
    (h : CodeAt code off (x :: rest)) : code[off]? = some x := by
  have := h 0 (by simp)
  simpa using this

theorem CodeAt.tail {code : Code} {off : Nat} {x : CInstr × Pos} {rest : Code}
    (h : CodeAt code off (x :: rest)) : CodeAt code (off + 1) rest := by
  have := CodeAt.append_right (a := [x]) (b := rest) (by simpa using h)
  simpa using this

/-- re-addressing: the same fragment at a provably equal address -/
theorem CodeAt.at {code : Code} {off off' : Nat} {frag : Code} (h : CodeAt code off frag) (e : off = off') :
    CodeAt code off' frag := e ▸ h

/-- re-addressing with a provably equal fragment -/
theorem CodeAt.cast {code : Code} {off off' : Nat} {frag frag' : Code} (h : CodeAt code off frag) (e : off = off')
    (e' : frag = frag') : CodeAt code off' frag' := e ▸ e' ▸ h

/-! ### execution -/

/-- zero or more successful steps -/
inductive Steps (code : Code) : Vm → Vm → Prop
  | refl (σ : Vm) : Steps code σ σ
  | cons {σ τ υ : Vm} : Vm.step code σ = .next τ → Steps code τ υ → Steps code σ υ

theorem Steps.trans {code : Code} {a b c : Vm} (h₁ : Steps code a b) (h₂ : Steps code b c) : Steps code a c := by
  induction h₁ with
  | refl => exact h₂
  | cons hs _ ih => exact Steps.cons hs (ih h₂)

theorem Steps.one {code : Code} {σ τ : Vm} (h : Vm.step code σ = .next τ) : Steps code σ τ :=
  Steps.cons h (Steps.refl τ)

theorem Steps.cast {code : Code} {σ τ τ' : Vm} (h : Steps code σ τ) (e : τ = τ') : Steps code σ τ' := e ▸ h

/-- the run reaches a state whose next step raises the BASIC error `(c, p)`, with the output `out` -/
def ErrsWith (code : Code) (σ : Vm) (c : Nat) (p : Pos) (out : Print.WritePrinter) : Prop :=
  ∃ τ υ, Steps code σ τ ∧ Vm.step code τ = .error c p υ ∧ υ.out = out

/-- the run reaches a `Halt` (END / the end of the program) with the output `out` -/
def HaltsWith (code : Code) (σ : Vm) (out : Print.WritePrinter) : Prop :=
  ∃ τ υ, Steps code σ τ ∧ Vm.step code τ = .halt υ ∧ υ.out = out

theorem ErrsWith.of_steps {code : Code} {σ τ : Vm} {c : Nat} {p : Pos} {out}
    (h₁ : Steps code σ τ) (h₂ : ErrsWith code τ c p out) : ErrsWith code σ c p out := by
  obtain ⟨a, b, h, hs, ho⟩ := h₂
  exact ⟨a, b, h₁.trans h, hs, ho⟩

theorem HaltsWith.of_steps {code : Code} {σ τ : Vm} {out}
    (h₁ : Steps code σ τ) (h₂ : HaltsWith code τ out) : HaltsWith code σ out := by
  obtain ⟨a, b, h, hs, ho⟩ := h₂
  exact ⟨a, b, h₁.trans h, hs, ho⟩


/-! ### records (reused from the records layer): `RbThm.RecLSim.path_get_rel`, `path_set_rel`, `fresh_rel` -/

abbrev stepsOf := RbThm.RecLSim.stepsOf

/-! ### arrays: bounds + finite map of record values (reference) vs dimensions + row-major vector of trees (VM) -/

theorem inBox_iff (bs : List (Int × Int)) (is : List Int) : AoR.Ref.inBox bs is = true ↔ InBox bs is :=
  RbThm.ArrLSim.inBox_iff bs is

abbrev rget_set_same := @RbThm.AoRProps.get_set_same
abbrev rget_set_other := @RbThm.AoRProps.get_set_other

/-- a VM array represents a reference array of (expanded) element type `ft`: same bounds, one vector entry per element
of the box, every tuple of the box reads through `abs_index` a tree that represents the value of the finite map, and
EVERY element of the finite map (stored or fresh) has type `ft` and holds no NUL -/
structure ArrRel (ft : FTy) (A : RArr) (V : VArr) : Prop where
  ty : A.ty = ft
  dims : V.dims = A.bounds
  wf : RbThm.C04.WF V
  get : ∀ idx, InBox A.bounds idx → ∃ w, Arr.getElem V idx = some w ∧ ValRel (A.get idx) w
  typed : ∀ idx, HasTy ft (A.get idx)
  nonul : ∀ idx, NoNul (A.get idx)

/-- reading an element: inside the box a tree that represents the value of the finite map, outside `none` (Subscript out
of range) -/
theorem ArrRel.read {ft : FTy} {A : RArr} {V : VArr} (h : ArrRel ft A V) (is : List Int) :
    if A.inBounds is then ∃ w, Arr.getElem V is = some w ∧ ValRel (A.get is) w else Arr.getElem V is = none := by
  by_cases hb : A.inBounds is = true
  · simp only [hb, if_true]
    exact h.get is ((inBox_iff _ _).mp hb)
  · simp only [hb]
    have hnb : ¬ InBox V.dims is := by rw [h.dims]; exact fun x => hb ((inBox_iff _ _).mpr x)
    cases hg : Arr.getElem V is with
    | none => rfl
    | some v => exact absurd ((RbThm.C04.getElem_some_iff h.wf is).mp ⟨v, hg⟩) hnb

/-- storing an element (a typed, NUL-free value and a tree that represents it): inside the box the store succeeds and the
arrays still correspond, outside it fails -/
theorem ArrRel.store {ft : FTy} {A : RArr} {V : VArr} (h : ArrRel ft A V) (is : List Int) (v : RRV) (w : RV)
    (hv : HasTy ft v) (hn : NoNul v) (hvw : ValRel v w) :
    if A.inBounds is then ∃ V', Arr.setElem V is w = some V' ∧ ArrRel ft (A.set is v) V'
    else Arr.setElem V is w = none := by
  by_cases hb : A.inBounds is = true
  · simp only [hb, if_true]
    have hbox : InBox V.dims is := by rw [h.dims]; exact (inBox_iff _ _).mp hb
    obtain ⟨V', hs⟩ := (RbThm.C04.setElem_some_iff h.wf is w).mpr hbox
    refine ⟨V', hs, ?_⟩
    obtain ⟨hd, hl⟩ := RbThm.C04.set_preserves_dims hs
    refine ⟨h.ty, by rw [hd]; exact h.dims, RbThm.C04.set_preserves_wf hs h.wf, ?_, ?_, ?_⟩
    · intro js hjs
      by_cases hj : js = is
      · subst hj
        exact ⟨w, RbThm.C04.get_set_same hs, by rw [rget_set_same]; exact hvw⟩
      · rw [RbThm.C04.get_set_other hs hj, rget_set_other _ _ _ _ hj]
        exact h.get js hjs
    · intro js
      by_cases hj : js = is
      · subst hj; rw [rget_set_same]; exact hv
      · rw [rget_set_other _ _ _ _ hj]; exact h.typed js
    · intro js
      by_cases hj : js = is
      · subst hj; rw [rget_set_same]; exact hn
      · rw [rget_set_other _ _ _ _ hj]; exact h.nonul js
  · simp only [hb]
    have hnb : ¬ InBox V.dims is := by rw [h.dims]; exact fun x => hb ((inBox_iff _ _).mpr x)
    cases hg : Arr.setElem V is w with
    | none => rfl
    | some v => exact absurd ((RbThm.C04.setElem_some_iff h.wf is w).mp ⟨v, hg⟩) hnb

/-- a freshly allocated array represents the fresh reference array -/
theorem ArrRel.fresh {types : List FFields} (hw : TypesWf types) {et : ETy} {ft : FTy}
    (he : expand types et = some ft) (bounds : List (Int × Int)) :
    ArrRel ft ⟨ft, bounds, []⟩ (Arr.VArray.new bounds (allocTy ft)) := by
  have hfr : ∀ idx, (⟨ft, bounds, []⟩ : RArr).get idx = RecL.Ref.fresh ft := fun idx => rfl
  refine ⟨rfl, rfl, RbThm.C04.new_wf _ _, ?_, ?_, ?_⟩
  · intro idx hb
    exact ⟨allocTy ft, RbThm.C04.getElem_new _ hb, by rw [hfr]; exact RbThm.RecLSim.fresh_rel hw ft (tyIn_expand he)⟩
  · intro idx; rw [hfr]; exact fresh_typed ft
  · intro idx; rw [hfr]; exact noNul_fresh ft

theorem set_getElem?_self {α : Type} {l : List α} {i : Nat} {v : α} (h : l[i]? = some v) : l.set i v = l := by
  obtain ⟨hlt, hv⟩ := List.getElem?_eq_some_iff.mp h
  rw [← hv]; exact List.set_getElem_self hlt

/-- the arrays of the two states correspond slot by slot over the array table (a never-dimensioned array is `none` on
both sides) -/
structure ArrsRel (types : List FFields) (al : List ETy) (ra : List (Option RArr)) (va : List (Option VArr)) : Prop where
  lenR : ra.length = al.length
  lenV : va.length = al.length
  at_ : ∀ (a : Nat) (et : ETy), al[a]? = some et →
    (ra[a]? = some none ∧ va[a]? = some none) ∨
      ∃ A V ft, ra[a]? = some (some A) ∧ va[a]? = some (some V) ∧ expand types et = some ft ∧ ArrRel ft A V

/-- a dimensioned array of the reference state has its VM counterpart -/
theorem ArrsRel.lookup {types : List FFields} {al : List ETy} {ra : List (Option RArr)} {va : List (Option VArr)}
    (h : ArrsRel types al ra va) {a : Nat} {et : ETy} {A : RArr} (ha : al[a]? = some et)
    (hA : ra[a]? = some (some A)) :
    ∃ V ft, va[a]? = some (some V) ∧ expand types et = some ft ∧ ArrRel ft A V := by
  rcases h.at_ a et ha with ⟨h1, _⟩ | ⟨A', V, ft, h1, h2, h3, h4⟩
  · rw [h1] at hA; cases hA
  · rw [h1] at hA; injection hA with hA; injection hA with hA; subst hA
    exact ⟨V, ft, h2, h3, h4⟩

/-- (re)dimensioning or updating array `a` on both sides -/
theorem ArrsRel.set {types : List FFields} {al : List ETy} {ra : List (Option RArr)} {va : List (Option VArr)}
    (h : ArrsRel types al ra va) {a : Nat} {et : ETy} {ft : FTy} {A : RArr} {V : VArr} (ha : al[a]? = some et)
    (he : expand types et = some ft) (hr : ArrRel ft A V) :
    ArrsRel types al (ra.set a (some A)) (va.set a (some V)) := by
  have hlt : a < al.length := (List.getElem?_eq_some_iff.mp ha).1
  refine ⟨by rw [List.length_set]; exact h.lenR, by rw [List.length_set]; exact h.lenV, ?_⟩
  intro b u hb
  by_cases hab : a = b
  · subst hab
    have hu : u = et := by rw [ha] at hb; injection hb with hb; exact hb.symm
    subst hu
    exact Or.inr ⟨A, V, ft, List.getElem?_set_self (by rw [h.lenR]; exact hlt),
      List.getElem?_set_self (by rw [h.lenV]; exact hlt), he, hr⟩
  · rw [List.getElem?_set_ne hab, List.getElem?_set_ne hab]
    exact h.at_ b u hb

/-- storing back an array that represents the reference array changes nothing on the reference side (LBOUND / UBOUND
copy their array argument back into the variable) -/
theorem ArrsRel.set_same {types : List FFields} {al : List ETy} {ra : List (Option RArr)} {va : List (Option VArr)}
    (h : ArrsRel types al ra va) {a : Nat} {et : ETy} {ft : FTy} {A : RArr} {V : VArr} (ha : al[a]? = some et)
    (hA : ra[a]? = some (some A)) (he : expand types et = some ft) (hr : ArrRel ft A V) :
    ArrsRel types al ra (va.set a (some V)) := by
  have := h.set ha he hr
  rwa [set_getElem?_self hA] at this

/-- the typing invariant of the reference arrays follows from the relation -/
theorem ArrsRel.typed {types : List FFields} {al : List ETy} {ra : List (Option RArr)} {va : List (Option VArr)}
    (h : ArrsRel types al ra va) : ArrsTyped types al ra := by
  refine ⟨h.lenR, ?_⟩
  intro a A hA
  have hlt : a < al.length := by rw [← h.lenR]; exact (List.getElem?_eq_some_iff.mp hA).1
  obtain ⟨V, ft, _, he, hr⟩ := h.lookup (List.getElem?_eq_getElem hlt) hA
  exact ⟨al[a], List.getElem?_eq_getElem hlt, by rw [hr.ty]; exact he, by rw [hr.ty]; exact hr.typed⟩

theorem ArrsRel.nonul {types : List FFields} {al : List ETy} {ra : List (Option RArr)} {va : List (Option VArr)}
    (h : ArrsRel types al ra va) : ArrsNoNul ra := by
  intro a A hA
  have hlt : a < al.length := by rw [← h.lenR]; exact (List.getElem?_eq_some_iff.mp hA).1
  obtain ⟨V, ft, _, he, hr⟩ := h.lookup (List.getElem?_eq_getElem hlt) hA
  exact hr.nonul

/-! ### the state relation -/

/-- the variables of the two states correspond slot by slot: a variable that exists by `ValRel`; a record / `STRING * n`
variable whose `DIM` has not run is still what `get_or_create` makes of its name -/
structure VarsRel (slots : List ETy) (env : AoR.Ref.Env) (vars : List RV) : Prop where
  lenR : env.length = slots.length
  lenV : vars.length = slots.length
  at_ : ∀ (x : Nat) (st : ETy), slots[x]? = some st →
    (env[x]? = some none ∧ vars[x]? = some (defaultVar st)) ∨
      ∃ rv w, env[x]? = some (some rv) ∧ vars[x]? = some w ∧ ValRel rv w

theorem VarsRel.set {slots : List ETy} {env : RecL.Ref.Env} {vars : List RV} (h : VarsRel slots env vars) {x : Nat}
    {st : ETy} {v : RRV} {w : RV} (hx : slots[x]? = some st) (hvw : ValRel v w) :
    VarsRel slots (env.set x (some v)) (vars.set x w) := by
  have hlt : x < slots.length := (List.getElem?_eq_some_iff.mp hx).1
  refine ⟨by rw [List.length_set]; exact h.lenR, by rw [List.length_set]; exact h.lenV, ?_⟩
  intro y su hy
  by_cases hxy : x = y
  · subst hxy
    exact Or.inr ⟨v, w, List.getElem?_set_self (by rw [h.lenR]; exact hlt),
      List.getElem?_set_self (by rw [h.lenV]; exact hlt), hvw⟩
  · rw [List.getElem?_set_ne hxy, List.getElem?_set_ne hxy]
    exact h.at_ y su hy

/-- the VM state represents the state `s` of the reference semantics over the tables `sc` -/
structure Rel (sc : Scope) (s : St) (σ : Vm) : Prop where
  /-- the type table is closed and consistent -/
  twf : TypesWf sc.types
  types : s.types = sc.types
  vtypes : σ.types = sc.types
  vars : VarsRel sc.slots s.env σ.vars
  /-- the arrays correspond (which carries the typing and no-NUL invariants of every element) -/
  arrs : ArrsRel sc.types sc.arrs s.arrs σ.arrs
  /-- every variable that exists has its declared type: in particular every `STRING * n` location holds `n` characters -/
  typed : EnvTyped sc.types sc.slots s.env
  /-- no NUL character in any variable -/
  nonul : ∀ (x : Nat) (v : RRV), s.env[x]? = some (some v) → NoNul v
  out : σ.out = s.out
  data : σ.data = s.data
  dataIdx : σ.dataIdx = s.dataIdx
  /-- nothing is waiting in the by-reference return queue, no function result is stashed -/
  queue : σ.queue = []
  funRes : σ.funRes = none
  /-- no NUL character in the DATA items -/
  dnonul : ∀ v ∈ s.data, NoNulVal v

/-- a VM state that agrees with a related one on the variables is related to a reference state that agrees with the old
one on the variables -/
theorem Rel.congr {sc : Scope} {s s' : St} {σ τ : Vm} (h : Rel sc s σ)
    (hv : τ.vars = σ.vars) (hva : τ.arrs = σ.arrs) (ht : τ.types = σ.types) (he : s'.env = s.env)
    (hea : s'.arrs = s.arrs) (hty : s'.types = s.types)
    (ho : τ.out = s'.out) (hd : τ.data = s'.data) (hds : s'.data = s.data) (hi : τ.dataIdx = s'.dataIdx)
    (hq : τ.queue = []) (hf : τ.funRes = none) : Rel sc s' τ :=
  ⟨h.twf, by rw [hty]; exact h.types, by rw [ht]; exact h.vtypes, by rw [hv, he]; exact h.vars,
    by rw [hva, hea]; exact h.arrs,
    by rw [he]; exact h.typed, by rw [he]; exact h.nonul, ho, hd, hi, hq, hf, by rw [hds]; exact h.dnonul⟩

/-- only the program counter, the registers, the stacks and the open argument lists differ -/
theorem Rel.same {sc : Scope} {s : St} {σ τ : Vm} (h : Rel sc s σ)
    (hv : τ.vars = σ.vars) (hva : τ.arrs = σ.arrs) (ht : τ.types = σ.types) (ho : τ.out = σ.out)
    (hd : τ.data = σ.data) (hi : τ.dataIdx = σ.dataIdx) (hq : τ.queue = σ.queue) (hf : τ.funRes = σ.funRes) :
    Rel sc s τ :=
  h.congr hv hva ht rfl rfl rfl (by rw [ho, h.out]) (by rw [hd, h.data]) rfl (by rw [hi, h.dataIdx])
    (by rw [hq, h.queue]) (by rw [hf, h.funRes])

theorem Rel.advance {sc : Scope} {s : St} {σ : Vm} (h : Rel sc s σ) : Rel sc s (advance σ) :=
  h.same rfl rfl rfl rfl rfl rfl rfl rfl

theorem Rel.setPc {sc : Scope} {s : St} {σ : Vm} (h : Rel sc s σ) (a : Nat) : Rel sc s { σ with pc := a } :=
  h.same rfl rfl rfl rfl rfl rfl rfl rfl

theorem Rel.setA {sc : Scope} {s : St} {σ : Vm} (h : Rel sc s σ) (v : Val) : Rel sc s (setA σ v) :=
  h.same rfl rfl rfl rfl rfl rfl rfl rfl

theorem Rel.setRA {sc : Scope} {s : St} {σ : Vm} (h : Rel sc s σ) (v : RV) : Rel sc s (setRA σ v) :=
  h.same rfl rfl rfl rfl rfl rfl rfl rfl

theorem Rel.lt {sc : Scope} {s : St} {τ : Vm} (h : Rel sc s τ) {x : Nat} {st : ETy} (hx : sc.slots[x]? = some st) :
    x < τ.vars.length := by
  rw [h.vars.lenV]; exact (List.getElem?_eq_some_iff.mp hx).1

/-- storing a typed, NUL-free value into variable `x` (as a whole) on both sides -/
theorem Rel.storeVar {sc : Scope} {s : St} {σ τ : Vm} (h : Rel sc s σ)
    {x : Nat} {st : ETy} {ft : FTy} {v : RRV} {w : RV} (hx : sc.slots[x]? = some st)
    (he : expand sc.types st = some ft) (hv : HasTy ft v) (hvw : ValRel v w) (hn : NoNul v)
    (hc : τ.vars = σ.vars.set x w) (hca : τ.arrs = σ.arrs) (ht : τ.types = σ.types) (ho : τ.out = σ.out)
    (hd : τ.data = σ.data) (hi : τ.dataIdx = σ.dataIdx) (hq : τ.queue = σ.queue) (hf : τ.funRes = σ.funRes) :
    Rel sc (s.setRV x v) τ := by
  refine ⟨h.twf, h.types, by rw [ht]; exact h.vtypes, ?_, by rw [hca]; exact h.arrs, ?_, ?_, ?_, ?_, ?_, ?_,
    by rw [hf, h.funRes], h.dnonul⟩
  · rw [hc]; exact h.vars.set hx hvw
  · exact envTyped_setRV h.typed hx he hv
  · intro y u hy
    simp only [AoR.Ref.St.setRV] at hy
    by_cases hxy : x = y
    · subst hxy
      have hlt : x < s.env.length := by rw [h.vars.lenR]; exact (List.getElem?_eq_some_iff.mp hx).1
      rw [List.getElem?_set_self hlt] at hy
      injection hy with hy; injection hy with hy; subst hy; exact hn
    · rw [List.getElem?_set_ne hxy] at hy
      exact h.nonul y u hy
  · rw [ho, h.out]; rfl
  · rw [hd, h.data]; rfl
  · rw [hi, h.dataIdx]; rfl
  · rw [hq, h.queue]

/-- (re)dimensioning or updating array `a` on both sides -/
theorem Rel.storeArr {sc : Scope} {s : St} {σ τ : Vm} (h : Rel sc s σ)
    {a : Nat} {et : ETy} {ft : FTy} {A : RArr} {V : VArr} (ha : sc.arrs[a]? = some et)
    (he : expand sc.types et = some ft) (hr : ArrRel ft A V)
    (hc : τ.arrs = σ.arrs.set a (some V)) (hcv : τ.vars = σ.vars) (ht : τ.types = σ.types) (ho : τ.out = σ.out)
    (hd : τ.data = σ.data) (hi : τ.dataIdx = σ.dataIdx) (hq : τ.queue = σ.queue) (hf : τ.funRes = σ.funRes) :
    Rel sc (s.setArr a A) τ :=
  ⟨h.twf, h.types, by rw [ht]; exact h.vtypes, by rw [hcv]; exact h.vars,
    by rw [hc]; exact h.arrs.set ha he hr, h.typed, h.nonul, by rw [ho, h.out]; rfl, by rw [hd, h.data]; rfl,
    by rw [hi, h.dataIdx]; rfl, by rw [hq, h.queue], by rw [hf, h.funRes], h.dnonul⟩

/-- the typing / no-NUL invariants of the reference arrays, as `Thm/AoRTyping.lean` wants them -/
theorem Rel.arrsTyped {sc : Scope} {s : St} {σ : Vm} (h : Rel sc s σ) : ArrsTyped sc.types sc.arrs s.arrs :=
  h.arrs.typed

theorem Rel.arrsNoNul {sc : Scope} {s : St} {σ : Vm} (h : Rel sc s σ) : ArrsNoNul s.arrs := h.arrs.nonul

/-- storing a scalar of the slot's type into a scalar variable -/
theorem Rel.store {sc : Scope} {s : St} {σ τ : Vm} (h : Rel sc s σ)
    {x : Nat} {t : Ty} {v : Val} (hx : sc.slots[x]? = some (.sc t)) (hv : v.tag = t) (hn : NoNulVal v)
    (hc : τ.vars = σ.vars.set x (.leaf v)) (hca : τ.arrs = σ.arrs) (ht : τ.types = σ.types) (ho : τ.out = σ.out)
    (hd : τ.data = σ.data) (hi : τ.dataIdx = σ.dataIdx) (hq : τ.queue = σ.queue) (hf : τ.funRes = σ.funRes) :
    Rel sc (s.set x v) τ :=
  h.storeVar (ft := .sc t) (v := .sc v) hx rfl (by simp only [HasTy, RecL.Spec.HasTy]; exact ⟨v, rfl, hv⟩)
    (by simp only [ValRel, RecL.Spec.ValRel]) (by simpa only [NoNul, RecL.Spec.NoNul] using hn) hc hca ht ho hd hi hq hf

/-- the current value of a scalar slot, as the VM reads it (also before the variable's `DIM` has run) -/
theorem Rel.getS {sc : Scope} {s : St} {σ : Vm} (h : Rel sc s σ) {x : Nat} {t : Ty}
    (hx : sc.slots[x]? = some (.sc t)) :
    σ.vars[x]? = some (.leaf (s.getS x t)) ∧ (s.getS x t).tag = t ∧ NoNulVal (s.getS x t) := by
  rcases h.vars.at_ x _ hx with ⟨h1, h2⟩ | ⟨rv, w, h1, h2, h3⟩
  · have hg : s.getS x t = zeroOf t := by simp only [AoR.Ref.St.getS, h1]
    rw [hg]
    exact ⟨h2, by cases t <;> rfl, noNul_zeroOf t⟩
  · have hty := envTyped_lookup h.typed hx rfl h1
    obtain ⟨a, rfl, hat⟩ := hasTy_sc hty
    have hnn := h.nonul x _ h1
    simp only [ValRel, RecL.Spec.ValRel] at h3
    subst h3
    have hg : s.getS x t = a := by simp only [AoR.Ref.St.getS, h1]
    rw [hg]
    exact ⟨h2, hat, by simpa only [NoNul, RecL.Spec.NoNul] using hnn⟩

/-- what a construct leaves alone: value stack, path stack, register stack, the open argument lists, the stack trace;
and it does not raise the "skip the newline" flag of PRINT -/
structure SameStacks (σ τ : Vm) : Prop where
  vals : τ.vals = σ.vals
  paths : τ.paths = σ.paths
  regStack : τ.regStack = σ.regStack
  ctx : τ.ctx = σ.ctx
  trace : τ.trace = σ.trace
  skip : σ.skipNewline = false → τ.skipNewline = false

theorem SameStacks.refl (σ : Vm) : SameStacks σ σ := ⟨rfl, rfl, rfl, rfl, rfl, id⟩

theorem SameStacks.trans {a b c : Vm} (h₁ : SameStacks a b) (h₂ : SameStacks b c) : SameStacks a c :=
  ⟨h₂.vals.trans h₁.vals, h₂.paths.trans h₁.paths, h₂.regStack.trans h₁.regStack, h₂.ctx.trans h₁.ctx,
    h₂.trace.trans h₁.trace, fun h => h₂.skip (h₁.skip h)⟩

/-- the states agree on everything `SameStacks` mentions -/
theorem SameStacks.of_eq {σ τ : Vm} (h1 : τ.vals = σ.vals) (h2 : τ.paths = σ.paths) (h3 : τ.regStack = σ.regStack)
    (h4 : τ.ctx = σ.ctx) (h6 : τ.trace = σ.trace) (h7 : τ.skipNewline = σ.skipNewline) :
    SameStacks σ τ := ⟨h1, h2, h3, h4, h6, fun h => by rw [h7]; exact h⟩

/-- the invariant between statements: the PRINT flag is down -/
structure ActInv (σ : Vm) : Prop where
  quiet : σ.skipNewline = false

theorem ActInv.of_same {σ τ : Vm} (h : ActInv σ) (hs : SameStacks σ τ) : ActInv τ := ⟨hs.skip h.quiet⟩

/-! ### well-formedness -/

/-- static well-formedness of an expression as the linter establishes it (`RecL.Spec.ExprTyped`): a variable / field path
leads to a declared location of the type the node carries, operators see scalars and carry the result type of the
checker's table, string literals hold no NUL -/
def EWf (sc : Scope) (e : AoR.Expr) : Prop := AoRTy.ExprTyped sc.types sc.slots sc.arrs e


def ItemsWf (sc : Scope) : List PrintItem → Prop
  | [] => True
  | .expr e :: rest => EWf sc e ∧ ItemsWf sc rest
  | _ :: rest => ItemsWf sc rest

/-- the six relational operators (after `CASE IS` the parser accepts nothing else) -/
def SelRelOp (op : Op) : Prop :=
  op = .less ∨ op = .lessOrEqual ∨ op = .equal ∨ op = .greaterOrEqual ∨ op = .greater ∨ op = .notEqual

def CaseWf (sc : Scope) : CaseExpr → Prop
  | .simple e => EWf sc e
  | .is op e => SelRelOp op ∧ EWf sc e
  | .range lo hi => EWf sc lo ∧ EWf sc hi

def CondsWf (sc : Scope) : List CaseExpr → Prop
  | [] => True
  | c :: rest => CaseWf sc c ∧ CondsWf sc rest

/-- the bounds of a `DIM` are well-formed numbers -/
def DimsWf (sc : Scope) : Dims → Prop
  | .nil => True
  | .cons none hi rest => EWf sc hi ∧ NumTy hi.ty ∧ DimsWf sc rest
  | .cons (some lo) hi rest => EWf sc lo ∧ NumTy lo.ty ∧ EWf sc hi ∧ NumTy hi.ty ∧ DimsWf sc rest

def TargetWf (sc : Scope) (tg : ReadTarget) : Prop := sc.slots[tg.x]? = some (.sc tg.t)

mutual
/-- well-formed statements: a `DIM` names the slot's declared type (a type of the table); an assignment goes to a declared
location of the type the statement carries (whatever the static type of the right-hand side: a conversion the linter
would reject is the same Type mismatch on both sides); READ targets and FOR counters are
scalar variables used at their declared type (a FOR counter is not a string); expressions are well formed; conditions of
IF / WHILE / DO are numbers; a missing ELSE part is empty; DATA does not occur (it is hoisted: see the program theorem) -/
def Wf (sc : Scope) : SStmt → Prop
  | .skip => True
  | .comment => True
  | .seq a b => Wf sc a ∧ Wf sc b
  | .dim x t _ => sc.slots[x]? = some t ∧ (expand sc.types t).isSome
  | .dimArr a t dims _ => sc.arrs[a]? = some t ∧ (expand sc.types t).isSome ∧ DimsWf sc dims
  | .assign x path t e _ => PathTyped sc.types sc.slots x path t ∧ EWf sc e
  | .assignElem a idx path t e _ =>
    ElemTyped sc.types sc.arrs a path t ∧ ¬ Exprs.isNilP idx ∧ IdxTyped sc.types sc.slots sc.arrs idx ∧ EWf sc e
  | .print items _ => ItemsWf sc items
  | .ifBlock c thn elifs hasElse els _ =>
    EWf sc c ∧ NumTy c.ty ∧ Wf sc thn ∧ WfElifs sc elifs ∧ Wf sc els ∧ (hasElse = false → els = .skip)
  | .while c body _ => EWf sc c ∧ NumTy c.ty ∧ Wf sc body
  | .doLoop c _ _ body _ => EWf sc c ∧ NumTy c.ty ∧ Wf sc body
  | .end_ _ => True
  | .data _ _ => False
  | .read tgs _ => ∀ tg ∈ tgs, TargetWf sc tg
  | .select e cases hasElse els _ =>
    EWf sc e ∧ WfCases sc cases ∧ Wf sc els ∧ (hasElse = false → els = .skip)
  | .forLoop x t lo hi step body _ =>
    sc.slots[x]? = some (.sc t) ∧ t ≠ .str ∧ EWf sc lo ∧ EWf sc hi ∧ (∀ se, step = some se → EWf sc se) ∧ Wf sc body
def WfElifs (sc : Scope) : ElseIfs → Prop
  | .nil => True
  | .cons c body rest => EWf sc c ∧ NumTy c.ty ∧ Wf sc body ∧ WfElifs sc rest
def WfCases (sc : Scope) : SCases → Prop
  | .nil => True
  | .cons conds body rest => conds ≠ [] ∧ CondsWf sc conds ∧ Wf sc body ∧ WfCases sc rest
end

/-! ### specifications -/

/-- an evaluation that does not yield a value: the run ends with the error; the outcomes outside the modelled language
(`illFormed`: a record / `STRING * n` variable used before its DIM ran; `inexact`; `outOfFuel`) claim nothing -/
def ErrPost (code : Code) (σ : Vm) (s' : St) : Outcome → Prop
  | .error c p => ErrsWith code σ c p s'.out
  | .halted => HaltsWith code σ s'.out
  | .inexact => True
  | .outOfFuel => True
  | .illFormed => True
  | .tooBig => True
  | .normal => False

theorem ErrPost.of_steps {code : Code} {σ τ : Vm} {s' : St} {o : Outcome} (h₁ : Steps code σ τ)
    (h₂ : ErrPost code τ s' o) : ErrPost code σ s' o := by
  cases o with
  | error c p => exact ErrsWith.of_steps h₁ h₂
  | halted => exact HaltsWith.of_steps h₁ h₂
  | inexact => trivial
  | outOfFuel => trivial
  | illFormed => trivial
  | tooBig => trivial
  | normal => exact h₂

/-- code that leaves a value — a scalar or a whole record — in A: `n` instructions starting at `off`.  The reference
state `s` does not change (expressions are pure) -/
def RvPost (code : Code) (sc : Scope) (n : Nat) (off : Nat) (s : St) (σ : Vm) : ERes RRV → Prop
  | .ok v => ∃ τ, Steps code σ τ ∧ τ.pc = off + n ∧ ValRel v τ.regs.a ∧ Rel sc s τ ∧ SameStacks σ τ
  | .err c p => ErrsWith code σ c p s.out
  | .inexact => True
  | .illFormed => True

/-- code that leaves a scalar in A -/
def ExprPost (code : Code) (sc : Scope) (n : Nat) (off : Nat) (s : St) (σ : Vm) : ERes Val → Prop
  | .ok v => ∃ τ, Steps code σ τ ∧ τ.pc = off + n ∧ τ.regs.a = .leaf v ∧ Rel sc s τ ∧ SameStacks σ τ
  | .err c p => ErrsWith code σ c p s.out
  | .inexact => True
  | .illFormed => True

theorem ExprPost.of_steps {code : Code} {sc : Scope} {n : Nat} {off : Nat} {s : St} {σ τ : Vm} {r : ERes Val}
    (h₁ : Steps code σ τ) (hs : SameStacks σ τ) (h₂ : ExprPost code sc n off s τ r) :
    ExprPost code sc n off s σ r := by
  cases r with
  | ok v =>
    obtain ⟨υ, st, hp, ha, hr, hss⟩ := h₂
    exact ⟨υ, h₁.trans st, hp, ha, hr, hs.trans hss⟩
  | err c p => exact ErrsWith.of_steps h₁ h₂
  | inexact => trivial
  | illFormed => trivial

/-- a tree in A that represents a scalar is that scalar -/
theorem ExprPost.of_rv {code : Code} {sc : Scope} {n : Nat} {off : Nat} {s : St} {σ : Vm} {r : ERes RRV}
    (h : RvPost code sc n off s σ r) : ExprPost code sc n off s σ (r.bind RecL.Ref.asScalar) := by
  cases r with
  | ok v =>
    cases v with
    | sc a =>
      obtain ⟨τ, st, hp, ha, hr, hss⟩ := h
      simp only [ValRel, RecL.Spec.ValRel] at ha
      exact ⟨τ, st, hp, ha, hr, hss⟩
    | udt fs => trivial
  | err c p => exact h
  | inexact => trivial
  | illFormed => trivial

/-- expressions: the code of `e` puts `Ref.eval e` into A -/
def RvSpec (code : Code) (sc : Scope) (e : AoR.Expr) : Prop :=
  ∀ (off : Nat) (s : St) (σ : Vm), CodeAt code off (compileExpr e) → σ.pc = off → Rel sc s σ → EWf sc e →
    RvPost code sc (compileExpr e).length off s σ (AoR.Ref.eval s.env s.arrs e)

/-- subscripts: the path on top of the path stack (no field appended yet) is extended by the converted subscripts;
everything else — register A included: it holds the value to be stored when the path is an assignment target — is as
before -/
def IdxPost (code : Code) (sc : Scope) (n off : Nat) (s : St) (σ : Vm) (pth : Path) (rest : List Path) :
    ERes (List Int) → Prop
  | .ok is => ∃ τ, Steps code σ τ ∧ τ.pc = off + n ∧ τ.regs.a = σ.regs.a ∧ Rel sc s τ ∧
      τ.paths = { pth with idx := pth.idx ++ is } :: rest ∧ τ.vals = σ.vals ∧ τ.regStack = σ.regStack ∧
      τ.ctx = σ.ctx ∧ τ.trace = σ.trace ∧ (σ.skipNewline = false → τ.skipNewline = false)
  | .err c p => ErrsWith code σ c p s.out
  | .inexact => True
  | .illFormed => True

def IdxSpec (code : Code) (sc : Scope) (idx : Exprs) : Prop :=
  ∀ (off : Nat) (s : St) (σ : Vm) (pth : Path) (rest : List Path), CodeAt code off (compileIdx idx) → σ.pc = off →
    Rel sc s σ → IdxTyped sc.types sc.slots sc.arrs idx → σ.paths = pth :: rest → pth.props = [] →
    IdxPost code sc (compileIdx idx).length off s σ pth rest (AoR.Ref.evalIdx s.env s.arrs idx)

/-- what the code of a statement does, given what the reference semantics says the statement does -/
def StmtPost (code : Code) (sc : Scope) (n off : Nat) (σ : Vm) : St × Outcome → Prop
  | (s', .normal) => ∃ τ, Steps code σ τ ∧ τ.pc = off + n ∧ Rel sc s' τ ∧ SameStacks σ τ
  | (s', .halted) => HaltsWith code σ s'.out
  | (s', .error c p) => ErrsWith code σ c p s'.out
  | (_, .inexact) => True
  | (_, .outOfFuel) => True
  | (_, .illFormed) => True
  | (_, .tooBig) => True

def StmtIH (code : Code) (fuel : Nat) : Prop :=
  ∀ (sc : Scope) (stmt : SStmt) (sfx : String) (off : Nat) (s : St) (σ : Vm),
    CodeAt code off (compileStmt sfx off stmt) → σ.pc = off → Rel sc s σ → Wf sc stmt → ActInv σ →
    StmtPost code sc (sizeStmt stmt) off σ (AoR.Ref.exec fuel (desugar stmt) s)

/-- the induction hypothesis at a given amount of fuel (expressions are pure and need none) -/
structure IH (code : Code) (fuel : Nat) : Prop where
  stmt : StmtIH code fuel

/-- the induction hypothesis at every smaller or equal amount of fuel -/
def IHle (code : Code) (fuel : Nat) : Prop := ∀ f, f ≤ fuel → IH code f

theorem IHle.self {code : Code} {fuel : Nat} (h : IHle code fuel) : IH code fuel := h fuel (Nat.le_refl _)

theorem IHle.mono {code : Code} {fuel f : Nat} (h : IHle code fuel) (hf : f ≤ fuel) : IHle code f :=
  fun g hg => h g (Nat.le_trans hg hf)

/-- an evaluation that ended the run ends the statement the same way -/
theorem StmtPost.of_err {code : Code} {sc : Scope} {n off : Nat} {σ : Vm} {s' : St}
    {o : Outcome} (h : ErrPost code σ s' o) : StmtPost code sc n off σ (s', o) := by
  cases o with
  | error c p => exact h
  | halted => exact h
  | inexact => trivial
  | outOfFuel => trivial
  | illFormed => trivial
  | tooBig => trivial
  | normal => exact h.elim

/-- an expression that did not yield a value ends the statement with its outcome -/
theorem ErrPost.of_expr {code : Code} {sc : Scope} {n : Nat} {off : Nat} {s : St} {σ : Vm} {r : ERes Val}
    (h : ExprPost code sc n off s σ r) (hn : ∀ v, r ≠ .ok v) : ErrPost code σ s (AoR.Ref.outcomeOf r) := by
  cases r with
  | ok v => exact absurd rfl (hn v)
  | err c p => exact h
  | inexact => trivial
  | illFormed => trivial

theorem ErrPost.of_rv {code : Code} {sc : Scope} {n : Nat} {off : Nat} {s : St} {σ : Vm} {r : ERes RRV}
    (h : RvPost code sc n off s σ r) (hn : ∀ v, r ≠ .ok v) : ErrPost code σ s (AoR.Ref.outcomeOf r) := by
  cases r with
  | ok v => exact absurd rfl (hn v)
  | err c p => exact h
  | inexact => trivial
  | illFormed => trivial

/-- the statement's code is reached after some steps that leave the stacks alone -/
theorem StmtPost.of_steps {code : Code} {sc : Scope} {n off : Nat} {σ τ : Vm}
    {r : St × Outcome} (h₁ : Steps code σ τ) (hs : SameStacks σ τ)
    (h₂ : StmtPost code sc n off τ r) : StmtPost code sc n off σ r := by
  obtain ⟨s', o⟩ := r
  cases o with
  | normal =>
    obtain ⟨υ, st, hp, hr, hss⟩ := h₂
    exact ⟨υ, h₁.trans st, hp, hr, hs.trans hss⟩
  | halted => exact HaltsWith.of_steps h₁ h₂
  | error c p => exact ErrsWith.of_steps h₁ h₂
  | inexact => trivial
  | outOfFuel => trivial
  | illFormed => trivial
  | tooBig => trivial

/-- the same specification with the end address written differently -/
theorem StmtPost.addr {code : Code} {sc : Scope} {n off n' off' : Nat} {σ : Vm}
    {r : St × Outcome} (e : off + n = off' + n') (h : StmtPost code sc n off σ r) :
    StmtPost code sc n' off' σ r := by
  obtain ⟨s', o⟩ := r
  cases o with
  | normal =>
    obtain ⟨υ, st, hp, hr, hss⟩ := h
    exact ⟨υ, st, by rw [hp, e], hr, hss⟩
  | halted => exact h
  | error c p => exact h
  | inexact => trivial
  | outOfFuel => trivial
  | illFormed => trivial
  | tooBig => trivial

/-! ### loads, stores, conversions, conditions -/

/-- the state after `VarPathName x; CopyVarPathToA; PopVarPath` -/
def loadSt (τ : Vm) (v : Val) : Vm := { τ with pc := τ.pc + 3, regs := { τ.regs with a := .leaf v } }

/-- reading a scalar variable into A: only A and the program counter change -/
theorem var_steps (code : Code) (sc : Scope) (s : St) (x : Nat) (t : Ty) (p : Pos)
    (τ : Vm) (hc : CodeAt code τ.pc (loadVar x p)) (hr : Rel sc s τ) (hx : sc.slots[x]? = some (.sc t)) :
    Steps code τ (loadSt τ (s.getS x t)) := by
  have hv := (hr.getS hx).1
  have h0 : code[τ.pc]? = some (CInstr.varPath x, p) := hc.head
  have h1 : code[τ.pc + 1]? = some (CInstr.copyVarPathToA, p) := hc.tail.head
  have h2 : code[τ.pc + 1 + 1]? = some (CInstr.popVarPath, p) := hc.tail.tail.head
  let τ1 : Vm := Vm.advance { τ with paths := ⟨.var x, [], []⟩ :: τ.paths }
  let τ2 : Vm := Vm.advance (Vm.setRA τ1 (.leaf (s.getS x t)))
  have s1 : Vm.step code τ = .next τ1 := by simp only [Vm.step, h0]; rfl
  have s2 : Vm.step code τ1 = .next τ2 := by
    simp only [Vm.step, τ1, Vm.advance, h1, readPath, hv, Path.flds, List.map_nil, ArrPath.getAt]; rfl
  have s3 : Vm.step code τ2 = .next (loadSt τ (s.getS x t)) := by
    simp only [Vm.step, τ2, τ1, Vm.advance, Vm.setRA, h2, loadSt]
  exact Steps.cons s1 (Steps.cons s2 (Steps.one s3))

theorem Rel.loadSt {sc : Scope} {s : St} {τ : Vm} (h : Rel sc s τ) (v : Val) :
    Rel sc s (loadSt τ v) := h.same rfl rfl rfl rfl rfl rfl rfl rfl

theorem SameStacks.loadSt (τ : Vm) (v : Val) : SameStacks τ (loadSt τ v) := ⟨rfl, rfl, rfl, rfl, rfl, id⟩

/-- the state after `VarPathName x; CopyAToVarPath` with the scalar `w` in A -/
def storeSt (τ : Vm) (x : Nat) (w : Val) : Vm :=
  { τ with pc := τ.pc + 2, vars := τ.vars.set x (.leaf w) }

/-- `VarPathName x; CopyAToVarPath`: store the scalar in A into variable `x`; the registers and the stacks are as they
were -/
theorem store_steps (code : Code) (x : Nat) (p : Pos) (τ : Vm) (w : Val) (hc : CodeAt code τ.pc (storeVar x p))
    (ha : τ.regs.a = .leaf w) (hx : x < τ.vars.length) : Steps code τ (storeSt τ x w) := by
  have h0 : code[τ.pc]? = some (CInstr.varPath x, p) := hc.head
  have h1 : code[τ.pc + 1]? = some (CInstr.copyAToVarPath, p) := hc.tail.head
  have hv : τ.vars[x]? = some τ.vars[x] := List.getElem?_eq_getElem hx
  refine Steps.cons (τ := Vm.advance { τ with paths := ⟨.var x, [], []⟩ :: τ.paths }) ?_ (Steps.one ?_)
  · simp only [Vm.step, h0]
  · simp only [Vm.step, Vm.advance, h1, writePath, hv, Path.flds, List.map_nil, ArrPath.modAt, ha, storeSt]

theorem Rel.storeSt {sc : Scope} {s : St} {τ : Vm} (h : Rel sc s τ) {x : Nat} {t : Ty} {w : Val}
    (hx : sc.slots[x]? = some (.sc t)) (hv : w.tag = t) (hn : NoNulVal w) : Rel sc (s.set x w) (storeSt τ x w) :=
  h.store hx hv hn rfl rfl rfl rfl rfl rfl rfl rfl

theorem SameStacks.storeSt (τ : Vm) (x : Nat) (w : Val) : SameStacks τ (storeSt τ x w) :=
  ⟨rfl, rfl, rfl, rfl, rfl, id⟩

/-- one instruction that rewrites A by a `Res`-valued operation -/
theorem resA_ok {code : Code} {σ : Vm} {p : Pos} {r : Res Val} {w : Val} (hstep : Vm.step code σ = Vm.resA σ p r)
    (h : r = .ok w) : Steps code σ (Vm.advance (Vm.setA σ w)) := by
  subst h; exact Steps.one (by rw [hstep]; rfl)

theorem resA_err {code : Code} {σ : Vm} {p : Pos} {r : Res Val} {e : Err} (hstep : Vm.step code σ = Vm.resA σ p r)
    (h : r = .err e) : ErrsWith code σ (AoR.Ref.codeOf e) p σ.out := by
  subst h; exact ⟨σ, σ, Steps.refl _, (by rw [hstep]; rfl), rfl⟩

/-- `fix_length` on a string without NUL is the reference's `padTrunc` -/
theorem fixLength_eq_padTrunc (cs : List Char) (n : Nat) (h : Char.ofNat 0 ∉ cs) :
    Arr.fixLength cs n = RecL.Ref.padTrunc n cs := by
  rw [RbThm.C04.fixLength_eq, RbThm.C04.cutNul_of_no_nul cs h]; rfl

/-- the optional conversion after an expression whose static type is `st` (`generate_expression_instructions_casting`):
nothing, `Cast t` or `FixLength n` -/
theorem conv_tail (code : Code) (sc : Scope) (s : St) (st tt : ETy) (p : Pos) (τ : Vm) (v : RRV)
    (hc : CodeAt code τ.pc (if st = tt then [] else convInstr tt p)) (hr : Rel sc s τ)
    (ha : ValRel v τ.regs.a) (hn : NoNul v) :
    RvPost code sc (if st = tt then ([] : Code) else convInstr tt p).length τ.pc s τ (RecL.Ref.conv p st tt v) := by
  unfold RecL.Ref.conv
  by_cases hty : st = tt
  · simp only [hty, if_true, RvPost, List.length_nil, Nat.add_zero]
    exact ⟨τ, Steps.refl τ, rfl, ha, hr, SameStacks.refl τ⟩
  · simp only [hty, if_false] at hc ⊢
    cases tt with
    | sc t =>
      cases v with
      | udt fs => simp only [RvPost]
      | sc a =>
        simp only [ValRel, RecL.Spec.ValRel] at ha
        simp only [convInstr] at hc ⊢
        have h0 : code[τ.pc]? = some (CInstr.cast t, p) := hc.head
        have hs : Vm.step code τ = Vm.resA τ p (cast a t) := by simp only [Vm.step, h0, onA, ha]
        cases hcst : cast a t with
        | ok w =>
          simp only [RecL.Ref.lift, RecL.Ref.ERes.bind, RvPost, List.length_singleton]
          exact ⟨_, resA_ok hs hcst, rfl, by simp [Vm.advance, Vm.setA, ValRel, RecL.Spec.ValRel],
            (hr.setA w).advance, ⟨rfl, rfl, rfl, rfl, rfl, id⟩⟩
        | err e =>
          simp only [RecL.Ref.lift, RecL.Ref.ERes.bind, RvPost]
          rw [← hr.out]; exact resA_err hs hcst
        | inexact => simp only [RecL.Ref.lift, RecL.Ref.ERes.bind, RvPost]
    | fix n =>
      cases v with
      | udt fs => simp only [RvPost]
      | sc a =>
        simp only [ValRel, RecL.Spec.ValRel] at ha
        simp only [convInstr] at hc ⊢
        have h0 : code[τ.pc]? = some (CInstr.fixLength n, p) := hc.head
        have hs : Vm.step code τ = Vm.resA τ p (ArrPath.fixLengthInA n a) := by simp only [Vm.step, h0, onA, ha]
        cases a with
        | str cs =>
          simp only [NoNul, RecL.Spec.NoNul, NoNulVal, RecL.Spec.NoNulVal] at hn
          have hf : ArrPath.fixLengthInA n (.str cs) = .ok (.str (RecL.Ref.padTrunc n cs)) := by
            simp only [ArrPath.fixLengthInA, Num.cast, Res.bind, fixLength_eq_padTrunc cs n hn]
          simp only [RvPost, List.length_singleton]
          exact ⟨_, resA_ok hs hf, rfl, by simp [Vm.advance, Vm.setA, ValRel, RecL.Spec.ValRel],
            (hr.setA _).advance, ⟨rfl, rfl, rfl, rfl, rfl, id⟩⟩
        | int i =>
          simp only [RvPost]
          rw [← hr.out]; exact resA_err (e := .typeMismatch) hs rfl
        | long i =>
          simp only [RvPost]
          rw [← hr.out]; exact resA_err (e := .typeMismatch) hs rfl
        | sgl q =>
          simp only [RvPost]
          rw [← hr.out]; exact resA_err (e := .typeMismatch) hs rfl
        | dbl q =>
          simp only [RvPost]
          rw [← hr.out]; exact resA_err (e := .typeMismatch) hs rfl
    | udt k => cases v <;> simp only [RvPost]

theorem len_path (x : Nat) (path : List String) (p : Pos) : (compilePath x path p).length = 1 + path.length := by
  simp [compilePath]; omega

/-- evaluating an expression and converting it to the type of the receiving location:
`generate_expression_instructions_casting` -/
theorem exprToE_correct (code : Code) (sc : Scope) (e : AoR.Expr) (hE : RvSpec code sc e) (t : ETy) (off : Nat)
    (s : St) (σ : Vm)
    (hc : CodeAt code off (compileExprToE e t)) (hpc : σ.pc = off) (hr : Rel sc s σ) (hw : EWf sc e) :
    RvPost code sc (compileExprToE e t).length off s σ (AoR.Ref.evalTo s.env s.arrs e t) := by
  simp only [compileExprToE] at hc
  have he := hE off s σ hc.append_left hpc hr hw
  simp only [AoR.Ref.evalTo, compileExprToE, List.length_append]
  cases hev : AoR.Ref.eval s.env s.arrs e with
  | err c p => rw [hev] at he; exact he
  | inexact => trivial
  | illFormed => trivial
  | ok v =>
    rw [hev] at he
    obtain ⟨τ, st, hp, ha, hrel, hss⟩ := he
    have hct : CodeAt code τ.pc (if e.ty = t then [] else convInstr t e.pos) := by
      have := hc.append_right
      rw [hp]; exact this
    have hnn : NoNul v := AoRTy.eval_noNul hr.nonul hr.arrsNoNul e v hw hev
    have := conv_tail code sc s e.ty t e.pos τ v hct hrel ha hnn
    simp only [RecL.Ref.ERes.bind]
    generalize RecL.Ref.conv e.pos e.ty t v = r2 at this ⊢
    cases r2 with
    | err c p => exact ErrsWith.of_steps st this
    | inexact => trivial
    | illFormed => trivial
    | ok w =>
      obtain ⟨υ, st2, hp2, ha2, hrel2, hss2⟩ := this
      exact ⟨υ, st.trans st2, by rw [hp2, hp]; omega, ha2, hrel2, hss.trans hss2⟩

/-- the same for a built-in target, stated on its own for the FOR bounds -/
theorem conv_tail_sc (code : Code) (sc : Scope) (s : St) (st : ETy) (t : Ty) (p : Pos) (τ : Vm) (v : RRV)
    (hc : CodeAt code τ.pc (if st = .sc t then [] else convInstr (.sc t) p)) (hr : Rel sc s τ)
    (ha : ValRel v τ.regs.a) :
    RvPost code sc (if st = .sc t then ([] : Code) else convInstr (.sc t) p).length τ.pc s τ
      (RecL.Ref.conv p st (.sc t) v) := by
  unfold RecL.Ref.conv
  by_cases hty : st = .sc t
  · simp only [hty, if_true, RvPost, List.length_nil, Nat.add_zero]
    exact ⟨τ, Steps.refl τ, rfl, ha, hr, SameStacks.refl τ⟩
  · simp only [hty, if_false] at hc ⊢
    cases v with
    | udt fs => simp only [RvPost]
    | sc a =>
      simp only [ValRel, RecL.Spec.ValRel] at ha
      simp only [convInstr] at hc ⊢
      have h0 : code[τ.pc]? = some (CInstr.cast t, p) := hc.head
      have hs : Vm.step code τ = Vm.resA τ p (cast a t) := by simp only [Vm.step, h0, onA, ha]
      cases hcst : cast a t with
      | ok w =>
        simp only [RecL.Ref.lift, RecL.Ref.ERes.bind, RvPost, List.length_singleton]
        exact ⟨_, resA_ok hs hcst, rfl, by simp [Vm.advance, Vm.setA, ValRel, RecL.Spec.ValRel],
          (hr.setA w).advance, ⟨rfl, rfl, rfl, rfl, rfl, id⟩⟩
      | err e =>
        simp only [RecL.Ref.lift, RecL.Ref.ERes.bind, RvPost]
        rw [← hr.out]; exact resA_err hs hcst
      | inexact => simp only [RecL.Ref.lift, RecL.Ref.ERes.bind, RvPost]

/-- evaluating an expression and converting it to a built-in type (FOR bounds): the scalar ends up in A and has the
target type -/
theorem exprTo_correct (code : Code) (sc : Scope) (e : AoR.Expr) (hE : RvSpec code sc e) (t : Ty) (off : Nat)
    (s : St) (σ : Vm)
    (hc : CodeAt code off (compileExprTo e t)) (hpc : σ.pc = off) (hr : Rel sc s σ) (hw : EWf sc e) :
    ExprPost code sc (compileExprTo e t).length off s σ (AoR.Ref.evalToS s.env s.arrs e t) ∧
      ∀ v, AoR.Ref.evalToS s.env s.arrs e t = .ok v → v.tag = t ∧ NoNulVal v := by
  constructor
  · simp only [compileExprTo, compileExprToE] at hc
    have he := hE off s σ hc.append_left hpc hr hw
    simp only [AoR.Ref.evalToS, AoR.Ref.evalTo, compileExprTo, compileExprToE, List.length_append]
    cases hev : AoR.Ref.eval s.env s.arrs e with
    | err c p => rw [hev] at he; exact he
    | inexact => trivial
    | illFormed => trivial
    | ok v =>
      rw [hev] at he
      obtain ⟨τ, st, hp, ha, hrel, hss⟩ := he
      have hct : CodeAt code τ.pc (if e.ty = .sc t then [] else convInstr (.sc t) e.pos) := by
        have := hc.append_right
        rw [hp]; exact this
      have := conv_tail_sc code sc s e.ty t e.pos τ v hct hrel ha
      simp only [RecL.Ref.ERes.bind]
      generalize RecL.Ref.conv e.pos e.ty (.sc t) v = r2 at this ⊢
      cases r2 with
      | err c p => exact ErrsWith.of_steps st this
      | inexact => trivial
      | illFormed => trivial
      | ok w =>
        have h2 := ExprPost.of_rv this
        simp only [RecL.Ref.ERes.bind] at h2 ⊢
        refine ExprPost.of_steps st hss ?_
        generalize RecL.Ref.asScalar w = r3 at h2 ⊢
        cases r3 with
        | ok a =>
          obtain ⟨υ, st2, hp2, ha2, hrel2, hss2⟩ := h2
          exact ⟨υ, st2, by rw [hp2, hp]; omega, ha2, hrel2, hss2⟩
        | err c p => exact h2
        | inexact => trivial
        | illFormed => trivial
  · intro a h
    simp only [AoR.Ref.evalToS, AoR.Ref.evalTo] at h
    obtain ⟨w, h1, h2⟩ := eres_bind_ok h
    obtain ⟨v, h3, h4⟩ := eres_bind_ok h1
    have hwa := asScalar_ok h2
    subst hwa
    obtain ⟨ft, hft, hv⟩ := AoRTy.eval_typed hr.twf hr.typed hr.arrsTyped e v hw h3
    have hnn : NoNul v := AoRTy.eval_noNul hr.nonul hr.arrsNoNul e v hw h3
    have hnw := conv_noNul hnn h4
    rcases conv_typed hft hv h4 with ⟨h5, h6⟩ | ⟨_, ft', h5, h6⟩
    · subst h6
      rw [h5] at hft
      simp only [expand] at hft; injection hft with hft; subst hft
      obtain ⟨a', ha', hat⟩ := hasTy_sc hv
      injection ha' with ha'; subst ha'
      exact ⟨hat, by simpa only [NoNul, RecL.Spec.NoNul] using hnw⟩
    · simp only [expand] at h5; injection h5 with h5; subst h5
      obtain ⟨a', ha', hat⟩ := hasTy_sc h6
      injection ha' with ha'; subst ha'
      exact ⟨hat, by simpa only [NoNul, RecL.Spec.NoNul] using hnw⟩

/-- a scalar-valued expression -/
theorem evalS_correct (code : Code) (sc : Scope) (e : AoR.Expr) (hE : RvSpec code sc e) (off : Nat)
    (s : St) (σ : Vm) (hc : CodeAt code off (compileExpr e)) (hpc : σ.pc = off) (hr : Rel sc s σ) (hw : EWf sc e) :
    ExprPost code sc (compileExpr e).length off s σ (AoR.Ref.evalS s.env s.arrs e) :=
  ExprPost.of_rv (hE off s σ hc hpc hr hw)

/-- a value or the outcome that ends the statement (`Ref.evalE`) -/
def ValPost (code : Code) (sc : Scope) (n : Nat) (off : Nat) (s : St) (σ : Vm) : Except Outcome Val → Prop
  | .ok v => ∃ τ, Steps code σ τ ∧ τ.pc = off + n ∧ τ.regs.a = .leaf v ∧ Rel sc s τ ∧ SameStacks σ τ
  | .error o => ErrPost code σ s o

theorem evalE_correct (code : Code) (sc : Scope) (e : AoR.Expr) (hE : RvSpec code sc e) (off : Nat)
    (s : St) (σ : Vm) (hc : CodeAt code off (compileExpr e)) (hpc : σ.pc = off) (hr : Rel sc s σ) (hw : EWf sc e) :
    ValPost code sc (compileExpr e).length off s σ (AoR.Ref.evalE s e) := by
  have he := evalS_correct code sc e hE off s σ hc hpc hr hw
  simp only [AoR.Ref.evalE]
  generalize AoR.Ref.evalS s.env s.arrs e = r at he ⊢
  cases r with
  | ok v => exact he
  | err c p => exact he
  | inexact => trivial
  | illFormed => trivial

/-- a condition followed by `JumpIfFalse no`: control arrives at `yes` (true) or `no` (false) -/
def CondPost (code : Code) (sc : Scope) (yes no : Nat) (s : St) (σ : Vm) : Except Outcome Bool → Prop
  | .ok true => ∃ τ, Steps code σ τ ∧ τ.pc = yes ∧ Rel sc s τ ∧ SameStacks σ τ
  | .ok false => ∃ τ, Steps code σ τ ∧ τ.pc = no ∧ Rel sc s τ ∧ SameStacks σ τ
  | .error o => ErrPost code σ s o

theorem truthy_of_tag {v : Val} (h : v.tag ≠ .str) : ∃ b, AoR.Ref.truthy v = some b := by
  cases v with
  | int i => exact ⟨_, rfl⟩
  | long i => exact ⟨_, rfl⟩
  | sgl q => exact ⟨_, rfl⟩
  | dbl q => exact ⟨_, rfl⟩
  | str l => exact absurd rfl h

/-- the scalar value of a numerically typed expression is a number -/
theorem evalS_numTag {sc : Scope} {s : St} {σ : Vm} (hr : Rel sc s σ) {e : AoR.Expr} (hw : EWf sc e)
    (hn : NumTy e.ty) {v : Val} (h : AoR.Ref.evalS s.env s.arrs e = .ok v) : v.tag ≠ .str := by
  simp only [AoR.Ref.evalS] at h
  obtain ⟨w, h1, h2⟩ := eres_bind_ok h
  have hwa := asScalar_ok h2
  subst hwa
  obtain ⟨ft, hft, hv⟩ := AoRTy.eval_typed hr.twf hr.typed hr.arrsTyped e _ hw h1
  obtain ⟨q, hq, hqs⟩ := hn
  rw [hq] at hft
  simp only [expand] at hft; injection hft with hft; subst hft
  obtain ⟨a', ha', hat⟩ := hasTy_sc hv
  injection ha' with ha'; subst ha'
  rw [hat]; exact hqs

/-- `<cond>; JumpIfFalse target` -/
theorem cond_correct (code : Code) (sc : Scope) (c : AoR.Expr) (hE : RvSpec code sc c) (target : Nat) (p : Pos)
    (off : Nat) (s : St) (σ : Vm)
    (hc : CodeAt code off (compileExpr c ++ [(CInstr.jumpIfFalse target, p)])) (hpc : σ.pc = off)
    (hr : Rel sc s σ) (hw : EWf sc c) (hn : NumTy c.ty) :
    CondPost code sc (off + (compileExpr c).length + 1) target s σ (AoR.Ref.evalCond s c) := by
  have he := evalS_correct code sc c hE off s σ hc.append_left hpc hr hw
  have hj : code[off + (compileExpr c).length]? = some (CInstr.jumpIfFalse target, p) := hc.append_right.head
  simp only [AoR.Ref.evalCond]
  cases hev : AoR.Ref.evalS s.env s.arrs c with
  | err c p => rw [hev] at he; exact he
  | inexact => trivial
  | illFormed => trivial
  | ok v =>
    rw [hev] at he
    obtain ⟨τ, st, hp, ha, hrel, hss⟩ := he
    obtain ⟨b, hb⟩ := truthy_of_tag (v := v) (evalS_numTag hr hw hn hev)
    have hj' : code[τ.pc]? = some (CInstr.jumpIfFalse target, p) := by rw [hp]; exact hj
    have hb' : RbModel.Ref.truthy v = some b := hb
    simp only [hb]
    cases b with
    | true =>
      refine ⟨Vm.advance τ, st.trans (Steps.one ?_), by simp [Vm.advance, hp], hrel.advance,
        hss.trans ⟨rfl, rfl, rfl, rfl, rfl, id⟩⟩
      simp only [Vm.step, hj', onA, ha, hb']
    | false =>
      refine ⟨{ τ with pc := target }, st.trans (Steps.one ?_), rfl, hrel.setPc target,
        hss.trans ⟨rfl, rfl, rfl, rfl, rfl, id⟩⟩
      simp only [Vm.step, hj', onA, ha, hb']

/-- with no fuel every specification holds (the reference semantics says `outOfFuel`) -/
theorem ih_zero (code : Code) : IH code 0 := by
  refine ⟨?_⟩
  intro sc stmt sfx off s σ _ _ _ _ _; simp only [AoR.Ref.exec, StmtPost]

end RbThm.AoRSim
