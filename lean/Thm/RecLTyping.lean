import RbModel.RecL.Spec
import Thm.ArrLNum
import Thm.C04
/-!
Records layer (core language + TYPE records + `STRING * n`) — facts about the REFERENCE SEMANTICS `RecL.Ref` alone
that both the simulation (`Thm/RecLSim*.lean`) and the property theorems (`Thm/RecLProps.lean`) use:

* `HasTy` / `FieldsHaveTy` along a field (`fieldsHaveTy_find`, `fieldsHaveTy_set`) and along a path (`hasTy_getPath`,
  `hasTy_setPath`): a typed value has every declared location, a read yields a value of the location's type, a typed
  store keeps the type of the whole;
* the type table: `TyIn` (a record type carries the field list the table has for its number) along `expand`, `find`, `at`;
* typed environments: `EnvTyped.setRV`;
* evaluation: `eval_typed` (the value of a statically typed expression has the expression's static type), `conv_typed`
  (the conversion in front of a store yields a value of the target's type — for `STRING * n` exactly `n` characters);
* `NoNul` (no NUL character anywhere in a value) along reads, stores, fresh values, operators and conversions.
-/
namespace RbThm.RecLTy
set_option linter.unusedVariables false
set_option linter.unusedSimpArgs false
open RbModel RbModel.Num RbModel.RecL RbModel.RecL.Spec
open RbModel.Ast (Pos)
open RbThm.ArrLNum

abbrev RRV := RbModel.RecL.Ref.RV
abbrev RFs := RbModel.RecL.Ref.RFs
abbrev Env := RbModel.RecL.Ref.Env
abbrev ERes := RbModel.RecL.Ref.ERes

/-! ### one field -/

/-- a typed record value has every declared field, at the field's type -/
theorem fieldsHaveTy_find : ∀ (fs : FFields) (rfs : RFs) (f : String) (t : FTy), FieldsHaveTy fs rfs →
    fs.find f = some t → ∃ v, rfs.find f = some v ∧ HasTy t v
  | .nil, _, _, _, _, hf => by simp [FFields.find] at hf
  | .cons g t' rest, rfs, f, t, h, hf => by
    simp only [FieldsHaveTy] at h
    obtain ⟨v, rr, rfl, hv, hrr⟩ := h
    simp only [FFields.find] at hf
    by_cases hg : g = f
    · simp only [hg, if_true] at hf
      injection hf with hf; subst hf
      exact ⟨v, by simp [RecL.Ref.RFs.find, hg], hv⟩
    · simp only [hg, if_false] at hf
      obtain ⟨w, hw, hwt⟩ := fieldsHaveTy_find rest rr f t hrr hf
      exact ⟨w, by simp [RecL.Ref.RFs.find, hg, hw], hwt⟩

/-- storing a value of the field's type: the store succeeds and the record keeps its type -/
theorem fieldsHaveTy_set : ∀ (fs : FFields) (rfs : RFs) (f : String) (t : FTy) (w : RRV), FieldsHaveTy fs rfs →
    fs.find f = some t → HasTy t w → ∃ rfs', rfs.set f w = some rfs' ∧ FieldsHaveTy fs rfs'
  | .nil, _, _, _, _, _, hf, _ => by simp [FFields.find] at hf
  | .cons g t' rest, rfs, f, t, w, h, hf, hw => by
    simp only [FieldsHaveTy] at h
    obtain ⟨v, rr, rfl, hv, hrr⟩ := h
    simp only [FFields.find] at hf
    by_cases hg : g = f
    · simp only [hg, if_true] at hf
      injection hf with hf; subst hf
      refine ⟨.cons g w rr, by simp [RecL.Ref.RFs.set, hg], ?_⟩
      simp only [FieldsHaveTy]
      exact ⟨w, rr, rfl, hw, hrr⟩
    · simp only [hg, if_false] at hf
      obtain ⟨rr', hs, ht⟩ := fieldsHaveTy_set rest rr f t w hrr hf hw
      refine ⟨.cons g v rr', by simp [RecL.Ref.RFs.set, hg, hs], ?_⟩
      simp only [FieldsHaveTy]
      exact ⟨v, rr', rfl, hv, ht⟩

theorem fieldsHaveTy_names : ∀ (fs : FFields) (rfs : RFs), FieldsHaveTy fs rfs → rfs.names = fs.names
  | .nil, _, h => by simp only [FieldsHaveTy] at h; subst h; rfl
  | .cons g t rest, rfs, h => by
    simp only [FieldsHaveTy] at h
    obtain ⟨v, rr, rfl, _, hrr⟩ := h
    simp only [RecL.Ref.RFs.names, FFields.names, fieldsHaveTy_names rest rr hrr]

/-- a field that is found is one of the names -/
theorem find_mem_names : ∀ (fs : FFields) (f : String) (t : FTy), fs.find f = some t → f ∈ fs.names
  | .nil, _, _, h => by simp [FFields.find] at h
  | .cons g t' rest, f, t, h => by
    simp only [FFields.find] at h
    by_cases hg : g = f
    · simp [FFields.names, hg]
    · simp only [hg, if_false] at h
      simp [FFields.names, find_mem_names rest f t h]

/-! ### a path -/

/-- reading a declared location of a typed value yields a value of the location's type -/
theorem hasTy_getPath : ∀ (path : List String) (ft ft' : FTy) (v : RRV), HasTy ft v → ft.at path = some ft' →
    ∃ v', v.getPath path = some v' ∧ HasTy ft' v'
  | [], ft, ft', v, h, ha => by
    simp only [FTy.at] at ha
    injection ha with ha; subst ha
    exact ⟨v, rfl, h⟩
  | f :: rest, .sc _, _, _, _, ha => by simp [FTy.at] at ha
  | f :: rest, .fix _, _, _, _, ha => by simp [FTy.at] at ha
  | f :: rest, .udt k fs, ft', v, h, ha => by
    simp only [HasTy] at h
    obtain ⟨rfs, rfl, hfs⟩ := h
    simp only [FTy.at] at ha
    cases hfind : fs.find f with
    | none => simp [hfind] at ha
    | some t =>
      simp only [hfind] at ha
      obtain ⟨c, hc, hct⟩ := fieldsHaveTy_find fs rfs f t hfs hfind
      obtain ⟨v', hv', hvt⟩ := hasTy_getPath rest t ft' c hct ha
      exact ⟨v', by simp [RecL.Ref.RV.getPath, hc, hv'], hvt⟩

/-- storing a value of the location's type into a declared location of a typed value succeeds and keeps the type of the
whole -/
theorem hasTy_setPath : ∀ (path : List String) (ft ft' : FTy) (v w : RRV), HasTy ft v → ft.at path = some ft' →
    HasTy ft' w → ∃ v', v.setPath path w = some v' ∧ HasTy ft v'
  | [], ft, ft', v, w, h, ha, hw => by
    simp only [FTy.at] at ha
    injection ha with ha; subst ha
    exact ⟨w, rfl, hw⟩
  | f :: rest, .sc _, _, _, _, _, ha, _ => by simp [FTy.at] at ha
  | f :: rest, .fix _, _, _, _, _, ha, _ => by simp [FTy.at] at ha
  | f :: rest, .udt k fs, ft', v, w, h, ha, hw => by
    simp only [HasTy] at h
    obtain ⟨rfs, rfl, hfs⟩ := h
    simp only [FTy.at] at ha
    cases hfind : fs.find f with
    | none => simp [hfind] at ha
    | some t =>
      simp only [hfind] at ha
      obtain ⟨c, hc, hct⟩ := fieldsHaveTy_find fs rfs f t hfs hfind
      obtain ⟨c', hc', hct'⟩ := hasTy_setPath rest t ft' c w hct ha hw
      obtain ⟨rfs', hs, hst⟩ := fieldsHaveTy_set fs rfs f t c' hfs hfind hct'
      refine ⟨.udt rfs', by simp [RecL.Ref.RV.setPath, hc, hc', hs], ?_⟩
      simp only [HasTy]
      exact ⟨rfs', rfl, hst⟩

/-! ### the type table -/

/-- a record type carries the field list the table has under its number -/
def TyIn (types : List FFields) : FTy → Prop
  | .udt k fs => types[k]? = some fs
  | _ => True

theorem tyIn_expand {types : List FFields} {st : ETy} {ft : FTy} (h : expand types st = some ft) : TyIn types ft := by
  cases st with
  | sc t => simp only [expand] at h; injection h with h; subst h; trivial
  | fix n => simp only [expand] at h; injection h with h; subst h; trivial
  | udt k =>
    simp only [expand] at h
    cases hk : types[k]? with
    | none => simp [hk] at h
    | some fs =>
      simp only [hk, Option.map_some] at h
      injection h with h; subst h
      exact hk

theorem tyIn_find {types : List FFields} (hw : TypesWf types) {k : Nat} {fs : FFields} {f : String} {t : FTy}
    (h : TyIn types (.udt k fs)) (hf : fs.find f = some t) : TyIn types t := by
  cases t with
  | sc _ => trivial
  | fix _ => trivial
  | udt j inner => exact ((hw k fs h).2.2 f j inner hf).2

theorem tyIn_at {types : List FFields} (hw : TypesWf types) : ∀ (path : List String) (ft ft' : FTy),
    TyIn types ft → ft.at path = some ft' → TyIn types ft'
  | [], ft, ft', h, ha => by
    simp only [FTy.at] at ha
    injection ha with ha; subst ha; exact h
  | f :: rest, .sc _, _, _, ha => by simp [FTy.at] at ha
  | f :: rest, .fix _, _, _, ha => by simp [FTy.at] at ha
  | f :: rest, .udt k fs, ft', h, ha => by
    simp only [FTy.at] at ha
    cases hfind : fs.find f with
    | none => simp [hfind] at ha
    | some t =>
      simp only [hfind] at ha
      exact tyIn_at hw rest t ft' (tyIn_find hw h hfind) ha

/-- the expansion of the flat form of a type of the table is the type -/
theorem expand_flat {types : List FFields} {ft : FTy} (h : TyIn types ft) : expand types ft.flat = some ft := by
  cases ft with
  | sc t => rfl
  | fix n => rfl
  | udt k fs => simp only [FTy.flat, expand]; rw [h]; rfl

/-- the type of the location a typed path leads to, as a type of the table -/
theorem pathTyped_expand {types : List FFields} {slots : List ETy} (hw : TypesWf types) {x : Nat} {path : List String}
    {t : ETy} (h : PathTyped types slots x path t) :
    ∃ st root ft, slots[x]? = some st ∧ expand types st = some root ∧ root.at path = some ft ∧
      expand types t = some ft := by
  obtain ⟨st, root, ft, h1, h2, h3, h4⟩ := h
  exact ⟨st, root, ft, h1, h2, h3, by rw [← h4]; exact expand_flat (tyIn_at hw path root ft (tyIn_expand h2) h3)⟩

/-! ### typed environments -/

theorem envTyped_setRV {types : List FFields} {slots : List ETy} {env : Env} (h : EnvTyped types slots env)
    {x : Nat} {st : ETy} {ft : FTy} {v : RRV} (hx : slots[x]? = some st) (he : expand types st = some ft)
    (hv : HasTy ft v) : EnvTyped types slots (env.set x (some v)) := by
  refine ⟨by rw [List.length_set]; exact h.1, ?_⟩
  intro y w hy
  by_cases hxy : x = y
  · subst hxy
    have hlt : x < env.length := by
      rw [h.1]; exact (List.getElem?_eq_some_iff.mp hx).1
    rw [List.getElem?_set_self hlt] at hy
    injection hy with hy; injection hy with hy; subst hy
    exact ⟨st, ft, hx, he, hv⟩
  · rw [List.getElem?_set_ne hxy] at hy
    exact h.2 y w hy

/-- what a typed environment knows about an existing variable -/
theorem envTyped_lookup {types : List FFields} {slots : List ETy} {env : Env} (h : EnvTyped types slots env)
    {x : Nat} {st : ETy} {ft : FTy} {v : RRV} (hx : slots[x]? = some st) (he : expand types st = some ft)
    (hv : env[x]? = some (some v)) : HasTy ft v := by
  obtain ⟨st', ft', h1, h2, h3⟩ := h.2 x v hv
  rw [hx] at h1; injection h1 with h1; subst h1
  rw [he] at h2; injection h2 with h2; subst h2
  exact h3

/-! ### values of scalar type -/

/-- a value of a built-in type is a scalar of that tag -/
theorem hasTy_sc {t : Ty} {v : RRV} (h : HasTy (.sc t) v) : ∃ a, v = .sc a ∧ a.tag = t := by
  simpa only [HasTy] using h

theorem hasTy_fix {n : Nat} {v : RRV} (h : HasTy (.fix n) v) : ∃ cs, v = .sc (.str cs) ∧ cs.length = n := by
  simpa only [HasTy] using h

/-- a value whose static type the operators accept (`asTy`) is a scalar of the corresponding built-in type -/
theorem hasTy_asTy {types : List FFields} {et : ETy} {ft : FTy} {ty : Ty} {v : RRV} (he : expand types et = some ft)
    (ha : RecL.Ref.ETy.asTy et = some ty) (h : HasTy ft v) : ∃ a, v = .sc a ∧ a.tag = ty := by
  cases et with
  | sc t =>
    simp only [expand] at he; injection he with he; subst he
    simp only [RecL.Ref.ETy.asTy] at ha; injection ha with ha; subst ha
    exact hasTy_sc h
  | fix n =>
    simp only [expand] at he; injection he with he; subst he
    simp only [RecL.Ref.ETy.asTy] at ha; injection ha with ha; subst ha
    obtain ⟨cs, rfl, _⟩ := hasTy_fix h
    exact ⟨_, rfl, rfl⟩
  | udt k => simp [RecL.Ref.ETy.asTy] at ha

/-! ### evaluation -/

theorem eres_bind_ok {α β : Type} {r : ERes α} {f : α → ERes β} {b : β} (h : r.bind f = .ok b) :
    ∃ a, r = .ok a ∧ f a = .ok b := by
  cases r with
  | ok a => exact ⟨a, rfl, h⟩
  | err c p => cases h
  | inexact => cases h
  | illFormed => cases h

theorem lift_ok {p : Pos} {r : Res Val} {w : Val} (h : RecL.Ref.lift p r = .ok w) : r = .ok w := by
  cases r with
  | ok v => simp only [RecL.Ref.lift] at h; injection h with h; rw [h]
  | err e => cases h
  | inexact => cases h

theorem asScalar_ok {v : RRV} {a : Val} (h : RecL.Ref.asScalar v = .ok a) : v = .sc a := by
  cases v with
  | sc b => simp only [RecL.Ref.asScalar] at h; injection h with h; rw [h]
  | udt fs => cases h

/-- the value of an operator node has the node's static type -/
theorem binStep_tag (op : Op) (tl tr t : Ty) (a b w : Val) (hta : a.tag = tl) (htb : b.tag = tr)
    (hop : op = .divide ∨ Gen.NumTables.binType op tl tr = some t) (h : RecL.Ref.binStep op t a b = .ok w) :
    w.tag = t := by
  by_cases hd : op = .divide
  · subst hd
    simp only [RecL.Ref.binStep, RbModel.Ref.binStep] at h
    obtain ⟨q, _, hc⟩ := res_bind_ok h
    exact cast_tag q t w hc
  · have hb' : RecL.Ref.binStep op t a b = vmBin Gen.NumTables.binType op a b := by
      cases op <;> first | rfl | exact absurd rfl hd
    rw [hb'] at h
    rcases hop with hop | hop
    · exact absurd hop hd
    · exact vmBin_tag op a b w t hd (by rw [hta, htb]; exact hop) h

/-- **the value of a statically typed expression has the expression's static type** (in a typed environment) -/
theorem eval_typed {types : List FFields} {slots : List ETy} {env : Env} (hw : TypesWf types)
    (henv : EnvTyped types slots env) : ∀ (e : RecL.Expr) (v : RRV), ExprTyped types slots e → RecL.Ref.eval env e = .ok v →
    ∃ ft, expand types e.ty = some ft ∧ HasTy ft v
  | .lit a _, v, _, h => by
    simp only [RecL.Ref.eval] at h; injection h with h; subst h
    exact ⟨.sc a.tag, rfl, by simp only [HasTy]; exact ⟨a, rfl, rfl⟩⟩
  | .var x path t _, v, ht, h => by
    simp only [ExprTyped] at ht
    obtain ⟨st, root, ft, h1, h2, h3, h4⟩ := pathTyped_expand hw ht
    simp only [RecL.Ref.eval] at h
    cases hx : env[x]? with
    | none => simp [hx] at h
    | some o =>
      cases o with
      | none => simp [hx] at h
      | some rv =>
        simp only [hx] at h
        obtain ⟨v', hv', hvt⟩ := hasTy_getPath path root ft rv (envTyped_lookup henv h1 h2 hx) h3
        simp only [hv'] at h
        injection h with h; subst h
        exact ⟨ft, h4, hvt⟩
  | .un op e p, v, ht, h => by
    simp only [ExprTyped] at ht
    obtain ⟨hte, t, hty⟩ := ht
    have key : ∀ (f : Val → Res Val), (∀ a w, f a = .ok w → w.tag = a.tag) →
        ((RecL.Ref.eval env e).bind fun v => (RecL.Ref.asScalar v).bind fun a => (RecL.Ref.lift p (f a)).bind fun r => .ok (.sc r))
          = .ok v → ∃ ft, expand types e.ty = some ft ∧ HasTy ft v := by
      intro f hf h
      obtain ⟨v1, h1, h⟩ := eres_bind_ok h
      obtain ⟨a, h2, h⟩ := eres_bind_ok h
      obtain ⟨r, h3, h⟩ := eres_bind_ok h
      injection h with h; subst h
      obtain ⟨ft, hft, hv1⟩ := eval_typed hw henv e v1 hte h1
      rw [hty] at hft ⊢
      simp only [expand] at hft; injection hft with hft; subst hft
      obtain ⟨a', ha', hat⟩ := hasTy_sc hv1
      rw [asScalar_ok h2] at ha'; injection ha' with ha'; subst ha'
      refine ⟨.sc t, rfl, ?_⟩
      simp only [HasTy]
      exact ⟨r, rfl, by rw [hf a r (lift_ok h3)]; exact hat⟩
    cases op with
    | neg => simp only [RecL.Ref.eval] at h; exact key negate negate_tag h
    | not => simp only [RecL.Ref.eval] at h; exact key unaryNot unaryNot_tag h
  | .bin op l r t p, v, ht, h => by
    simp only [ExprTyped] at ht
    obtain ⟨htl, htr, tl, tr, hal, har, hop⟩ := ht
    simp only [RecL.Ref.eval] at h
    obtain ⟨v1, h1, h⟩ := eres_bind_ok h
    obtain ⟨a, h2, h⟩ := eres_bind_ok h
    obtain ⟨v2, h3, h⟩ := eres_bind_ok h
    obtain ⟨b, h4, h⟩ := eres_bind_ok h
    obtain ⟨w, h5, h⟩ := eres_bind_ok h
    injection h with h; subst h
    obtain ⟨ft1, hft1, hv1⟩ := eval_typed hw henv l v1 htl h1
    obtain ⟨ft2, hft2, hv2⟩ := eval_typed hw henv r v2 htr h3
    obtain ⟨a', ha', hat⟩ := hasTy_asTy hft1 hal hv1
    obtain ⟨b', hb', hbt⟩ := hasTy_asTy hft2 har hv2
    rw [asScalar_ok h2] at ha'; injection ha' with ha'; subst ha'
    rw [asScalar_ok h4] at hb'; injection hb' with hb'; subst hb'
    refine ⟨.sc t, rfl, ?_⟩
    simp only [HasTy]
    exact ⟨w, rfl, binStep_tag op tl tr t a b w hat hbt hop (lift_ok h5)⟩
  | .paren e _, v, ht, h => by
    simp only [ExprTyped] at ht
    simp only [RecL.Ref.eval] at h
    exact eval_typed hw henv e v ht h

theorem padTrunc_length (n : Nat) (cs : List Char) : (RecL.Ref.padTrunc n cs).length = n := by
  simp only [RecL.Ref.padTrunc, List.length_append, List.length_take, List.length_replicate]
  omega

/-- **the conversion in front of a store yields a value of the target's type** — for a `STRING * n` target a string of
exactly `n` characters -/
theorem conv_typed {types : List FFields} {p : Pos} {st tt : ETy} {v w : RRV} {ft : FTy}
    (hs : expand types st = some ft) (hv : HasTy ft v) (h : RecL.Ref.conv p st tt v = .ok w) :
    (st = tt ∧ w = v) ∨ (st ≠ tt ∧ ∃ ft', expand types tt = some ft' ∧ HasTy ft' w) := by
  unfold RecL.Ref.conv at h
  by_cases hst : st = tt
  · simp only [hst, if_true] at h
    injection h with h
    exact Or.inl ⟨hst, h.symm⟩
  · simp only [hst, if_false] at h
    refine Or.inr ⟨hst, ?_⟩
    cases tt with
    | sc t =>
      cases v with
      | udt fs => simp at h
      | sc a =>
        simp only at h
        obtain ⟨r, hr, h⟩ := eres_bind_ok h
        injection h with h; subst h
        refine ⟨.sc t, rfl, ?_⟩
        simp only [HasTy]
        exact ⟨r, rfl, cast_tag a t r (lift_ok hr)⟩
    | fix n =>
      cases v with
      | udt fs => simp at h
      | sc a =>
        cases a with
        | str cs =>
          simp only at h
          injection h with h; subst h
          refine ⟨.fix n, rfl, ?_⟩
          simp only [HasTy]
          exact ⟨_, rfl, padTrunc_length n cs⟩
        | int _ => simp at h
        | long _ => simp at h
        | sgl _ => simp at h
        | dbl _ => simp at h
    | udt k => cases v <;> simp at h

/-! ### no NUL character -/

theorem noNulVal_of_tag {w : Val} (h : w.tag ≠ .str) : NoNulVal w := by
  cases w with
  | str cs => exact absurd rfl h
  | int _ => trivial
  | long _ => trivial
  | sgl _ => trivial
  | dbl _ => trivial

/-- a conversion between built-in types does not invent characters: a string result is the string it was given -/
theorem cast_noNul {v w : Val} {t : Ty} (h : cast v t = .ok w) (hv : NoNulVal v) : NoNulVal w := by
  by_cases ht : t = .str
  · subst ht
    cases v with
    | str cs => simp only [Num.cast] at h; injection h with h; subst h; exact hv
    | int _ => simp [Num.cast] at h
    | long _ => simp [Num.cast] at h
    | sgl _ => simp [Num.cast] at h
    | dbl _ => simp [Num.cast] at h
  · exact noNulVal_of_tag (by rw [cast_tag v t w h]; exact ht)

theorem arith_noNul {op : Arith} {a b w : Val} (h : arith op a b = .ok w) (ha : NoNulVal a) (hb : NoNulVal b) :
    NoNulVal w := by
  cases a <;> cases b <;> simp only [arith] at h <;>
    first
    | (obtain ⟨rfl, _⟩ := RbThm.C06.intResult_ok h; trivial)
    | (obtain ⟨rfl, _⟩ := RbThm.C06.longResult_ok h; trivial)
    | (obtain ⟨rfl, _⟩ := RbThm.C06.sglOp_ok h; trivial)
    | (obtain ⟨rfl, _⟩ := RbThm.C06.dblOp_ok h; trivial)
    | (cases h)
    | (split at h
       · cases h
         simp only [NoNulVal, List.mem_append, not_or] at ha hb ⊢
         exact ⟨ha, hb⟩
       · cases h)

theorem mkDbl_not_str {q : Rat} {w : Val} (h : mkDbl q = .ok w) : w.tag ≠ .str := by
  rw [mkDbl_tag h]; decide

theorem fitInt_not_str {n : Int} {w : Val} (h : fitInt n = .ok w) : w.tag ≠ .str := by
  unfold fitInt at h
  split at h
  · cases h; exact fun hh => by cases hh
  · split at h
    · cases h; exact fun hh => by cases hh
    · exact mkDbl_not_str h

theorem divide_not_str {a b w : Val} (h : divide a b = .ok w) : w.tag ≠ .str := by
  unfold divide at h
  split at h
  · split at h
    · cases h
    · split at h
      · split at h
        · unfold fitD at h
          split at h
          · split at h
            · cases h; exact fun hh => by cases hh
            · exact fitInt_not_str h
          · cases h
        · cases h
      · split at h
        · unfold fitS at h
          split at h
          · split at h
            · cases h; exact fun hh => by cases hh
            · exact fitInt_not_str h
          · cases h
        · cases h
  · cases h

/-- an operator applied to NUL-free operands yields a NUL-free value (the only string-valued operator is `+`) -/
theorem binStep_noNul {op : Op} {t : Ty} {a b w : Val} (h : RecL.Ref.binStep op t a b = .ok w) (ha : NoNulVal a)
    (hb : NoNulVal b) : NoNulVal w := by
  cases op <;> simp only [RecL.Ref.binStep, RbModel.Ref.binStep, vmBin] at h
  case plus => exact arith_noNul h ha hb
  case minus => exact arith_noNul h ha hb
  case multiply => exact arith_noNul h ha hb
  case divide =>
    obtain ⟨q, hq, hc⟩ := res_bind_ok h
    exact cast_noNul hc (noNulVal_of_tag (divide_not_str hq))
  case modulo => exact noNulVal_of_tag (by rw [modulo_tag a b w h]; decide)
  case and =>
    obtain ⟨x, _, h⟩ := res_bind_ok h
    obtain ⟨y, _, h⟩ := res_bind_ok h
    exact noNulVal_of_tag (by rw [and_tag x y w h]; decide)
  case or =>
    obtain ⟨x, _, h⟩ := res_bind_ok h
    obtain ⟨y, _, h⟩ := res_bind_ok h
    exact noNulVal_of_tag (by rw [or_tag x y w h]; decide)
  all_goals
    obtain ⟨o, _, h⟩ := res_bind_ok h
    cases h
    trivial

theorem negate_noNul {a w : Val} (h : negate a = .ok w) : NoNulVal w := by
  cases a with
  | str _ => simp [negate] at h
  | int _ => exact noNulVal_of_tag (by rw [negate_tag _ w h]; exact fun hh => by cases hh)
  | long _ => exact noNulVal_of_tag (by rw [negate_tag _ w h]; exact fun hh => by cases hh)
  | sgl _ => exact noNulVal_of_tag (by rw [negate_tag _ w h]; exact fun hh => by cases hh)
  | dbl _ => exact noNulVal_of_tag (by rw [negate_tag _ w h]; exact fun hh => by cases hh)

theorem unaryNot_noNul {a w : Val} (h : unaryNot a = .ok w) : NoNulVal w := by
  cases a with
  | str _ => simp [unaryNot] at h
  | int _ => exact noNulVal_of_tag (by rw [unaryNot_tag _ w h]; exact fun hh => by cases hh)
  | long _ => exact noNulVal_of_tag (by rw [unaryNot_tag _ w h]; exact fun hh => by cases hh)
  | sgl _ => exact noNulVal_of_tag (by rw [unaryNot_tag _ w h]; exact fun hh => by cases hh)
  | dbl _ => exact noNulVal_of_tag (by rw [unaryNot_tag _ w h]; exact fun hh => by cases hh)

theorem noNulFs_find : ∀ (rfs : RFs) (f : String) (v : RRV), NoNulFs rfs → rfs.find f = some v → NoNul v
  | .nil, _, _, _, h => by simp [RecL.Ref.RFs.find] at h
  | .cons g c rest, f, v, hn, h => by
    simp only [NoNulFs] at hn
    simp only [RecL.Ref.RFs.find] at h
    by_cases hg : g = f
    · simp only [hg, if_true] at h; injection h with h; subst h; exact hn.1
    · simp only [hg, if_false] at h; exact noNulFs_find rest f v hn.2 h

theorem noNulFs_set : ∀ (rfs rfs' : RFs) (f : String) (w : RRV), NoNulFs rfs → NoNul w → rfs.set f w = some rfs' →
    NoNulFs rfs'
  | .nil, _, _, _, _, _, h => by simp [RecL.Ref.RFs.set] at h
  | .cons g c rest, rfs', f, w, hn, hw, h => by
    simp only [NoNulFs] at hn
    simp only [RecL.Ref.RFs.set] at h
    by_cases hg : g = f
    · simp only [hg, if_true] at h; injection h with h; subst h
      simp only [NoNulFs]; exact ⟨hw, hn.2⟩
    · simp only [hg, if_false] at h
      cases hr : rest.set f w with
      | none => simp [hr] at h
      | some r' =>
        simp only [hr, Option.map_some] at h; injection h with h; subst h
        simp only [NoNulFs]; exact ⟨hn.1, noNulFs_set rest r' f w hn.2 hw hr⟩

theorem noNul_getPath : ∀ (path : List String) (v v' : RRV), NoNul v → v.getPath path = some v' → NoNul v'
  | [], v, v', hn, h => by simp only [RecL.Ref.RV.getPath] at h; injection h with h; subst h; exact hn
  | f :: rest, .sc _, _, _, h => by simp [RecL.Ref.RV.getPath] at h
  | f :: rest, .udt fs, v', hn, h => by
    simp only [NoNul] at hn
    simp only [RecL.Ref.RV.getPath] at h
    cases hf : fs.find f with
    | none => simp [hf] at h
    | some c =>
      simp only [hf] at h
      exact noNul_getPath rest c v' (noNulFs_find fs f c hn hf) h

theorem noNul_setPath : ∀ (path : List String) (v w v' : RRV), NoNul v → NoNul w → v.setPath path w = some v' →
    NoNul v'
  | [], v, w, v', _, hw, h => by simp only [RecL.Ref.RV.setPath] at h; injection h with h; subst h; exact hw
  | f :: rest, .sc _, _, _, _, _, h => by simp [RecL.Ref.RV.setPath] at h
  | f :: rest, .udt fs, w, v', hn, hw, h => by
    simp only [NoNul] at hn
    simp only [RecL.Ref.RV.setPath] at h
    cases hf : fs.find f with
    | none => simp [hf] at h
    | some c =>
      simp only [hf] at h
      cases hc : c.setPath rest w with
      | none => simp [hc] at h
      | some c' =>
        simp only [hc] at h
        cases hs : fs.set f c' with
        | none => simp [hs] at h
        | some fs' =>
          simp only [hs, Option.map_some] at h; injection h with h; subst h
          simp only [NoNul]
          exact noNulFs_set fs fs' f c' hn
            (noNul_setPath rest c w c' (noNulFs_find fs f c hn hf) hw hc) hs

theorem space_ne_nul : Char.ofNat 0 ≠ ' ' := by decide

theorem noNul_zeroOf (t : Ty) : NoNulVal (zeroOf t) := by
  cases t <;> simp [zeroOf, NoNulVal]

mutual
theorem noNul_fresh : ∀ ft : FTy, NoNul (RecL.Ref.fresh ft)
  | .sc t => by simp only [RecL.Ref.fresh, NoNul]; exact noNul_zeroOf t
  | .fix n => by
    simp only [RecL.Ref.fresh, NoNul, NoNulVal]
    intro h
    exact space_ne_nul (List.mem_replicate.mp h).2
  | .udt _ fs => by simp only [RecL.Ref.fresh, NoNul]; exact noNul_freshFs fs
theorem noNul_freshFs : ∀ fs : FFields, NoNulFs (RecL.Ref.freshFs fs)
  | .nil => by simp only [RecL.Ref.freshFs, NoNulFs]
  | .cons f t rest => by simp only [RecL.Ref.freshFs, NoNulFs]; exact ⟨noNul_fresh t, noNul_freshFs rest⟩
end

theorem padTrunc_noNul {n : Nat} {cs : List Char} (h : Char.ofNat 0 ∉ cs) : Char.ofNat 0 ∉ RecL.Ref.padTrunc n cs := by
  simp only [RecL.Ref.padTrunc, List.mem_append, not_or]
  exact ⟨fun hm => h (List.mem_of_mem_take hm), fun hm => space_ne_nul (List.mem_replicate.mp hm).2⟩

/-- the value of an expression whose literals hold no NUL, in an environment whose values hold none, holds none -/
theorem eval_noNul {types : List FFields} {slots : List ETy} {env : Env}
    (hn : ∀ (x : Nat) (v : RRV), env[x]? = some (some v) → NoNul v) :
    ∀ (e : RecL.Expr) (v : RRV), ExprTyped types slots e → RecL.Ref.eval env e = .ok v → NoNul v
  | .lit a _, v, ht, h => by
    simp only [RecL.Ref.eval] at h; injection h with h; subst h
    simp only [ExprTyped] at ht
    simpa only [NoNul] using ht
  | .var x path t _, v, _, h => by
    simp only [RecL.Ref.eval] at h
    cases hx : env[x]? with
    | none => simp [hx] at h
    | some o =>
      cases o with
      | none => simp [hx] at h
      | some rv =>
        simp only [hx] at h
        cases hp : rv.getPath path with
        | none => simp [hp] at h
        | some v' =>
          simp only [hp] at h; injection h with h; subst h
          exact noNul_getPath path rv v' (hn x rv hx) hp
  | .un op e p, v, _, h => by
    cases op with
    | neg =>
      simp only [RecL.Ref.eval] at h
      obtain ⟨v1, _, h⟩ := eres_bind_ok h
      obtain ⟨a, _, h⟩ := eres_bind_ok h
      obtain ⟨r, h3, h⟩ := eres_bind_ok h
      injection h with h; subst h
      simp only [NoNul]; exact negate_noNul (lift_ok h3)
    | not =>
      simp only [RecL.Ref.eval] at h
      obtain ⟨v1, _, h⟩ := eres_bind_ok h
      obtain ⟨a, _, h⟩ := eres_bind_ok h
      obtain ⟨r, h3, h⟩ := eres_bind_ok h
      injection h with h; subst h
      simp only [NoNul]; exact unaryNot_noNul (lift_ok h3)
  | .bin op l r t p, v, ht, h => by
    simp only [ExprTyped] at ht
    simp only [RecL.Ref.eval] at h
    obtain ⟨v1, h1, h⟩ := eres_bind_ok h
    obtain ⟨a, h2, h⟩ := eres_bind_ok h
    obtain ⟨v2, h3, h⟩ := eres_bind_ok h
    obtain ⟨b, h4, h⟩ := eres_bind_ok h
    obtain ⟨w, h5, h⟩ := eres_bind_ok h
    injection h with h; subst h
    have n1 := eval_noNul hn l v1 ht.1 h1
    have n2 := eval_noNul hn r v2 ht.2.1 h3
    rw [asScalar_ok h2] at n1
    rw [asScalar_ok h4] at n2
    simp only [NoNul] at n1 n2 ⊢
    exact binStep_noNul (lift_ok h5) n1 n2
  | .paren e _, v, ht, h => by
    simp only [ExprTyped] at ht
    simp only [RecL.Ref.eval] at h
    exact eval_noNul hn e v ht h

theorem conv_noNul {p : Pos} {st tt : ETy} {v w : RRV} (hv : NoNul v) (h : RecL.Ref.conv p st tt v = .ok w) :
    NoNul w := by
  unfold RecL.Ref.conv at h
  by_cases hst : st = tt
  · simp only [hst, if_true] at h; injection h with h; subst h; exact hv
  · simp only [hst, if_false] at h
    cases tt with
    | sc t =>
      cases v with
      | udt fs => simp at h
      | sc a =>
        simp only at h
        obtain ⟨r, hr, h⟩ := eres_bind_ok h
        injection h with h; subst h
        simp only [NoNul] at hv ⊢
        exact cast_noNul (lift_ok hr) hv
    | fix n =>
      cases v with
      | udt fs => simp at h
      | sc a =>
        cases a with
        | str cs =>
          simp only at h
          injection h with h; subst h
          simp only [NoNul, NoNulVal] at hv ⊢
          exact padTrunc_noNul hv
        | int _ => simp at h
        | long _ => simp at h
        | sgl _ => simp at h
        | dbl _ => simp at h
    | udt k => cases v <;> simp at h

/-- the converted value a store receives has the type of the receiving location -/
theorem evalTo_typed {types : List FFields} {slots : List ETy} {env : Env} (hw : TypesWf types)
    (henv : EnvTyped types slots env)
    {e : RecL.Expr} {t : ETy} {ft : FTy} {v : RRV} (he : ExprTyped types slots e) (ht : expand types t = some ft)
    (h : RecL.Ref.evalTo env e t = .ok v) : HasTy ft v := by
  simp only [RecL.Ref.evalTo] at h
  obtain ⟨v0, h1, h2⟩ := eres_bind_ok h
  obtain ⟨ft0, hft0, hv0⟩ := eval_typed hw henv e v0 he h1
  rcases conv_typed hft0 hv0 h2 with ⟨h3, h4⟩ | ⟨_, ft', h3, h4⟩
  · subst h4
    rw [h3, ht] at hft0; injection hft0 with hft0; subst hft0; exact hv0
  · rw [ht] at h3; injection h3 with h3; subst h3; exact h4

/-- … and holds no NUL -/
theorem evalTo_noNul {types : List FFields} {slots : List ETy} {env : Env}
    (hn : ∀ (x : Nat) (v : RRV), env[x]? = some (some v) → NoNul v)
    {e : RecL.Expr} {t : ETy} {v : RRV} (he : ExprTyped types slots e)
    (h : RecL.Ref.evalTo env e t = .ok v) : NoNul v := by
  simp only [RecL.Ref.evalTo] at h
  obtain ⟨v0, h1, h2⟩ := eres_bind_ok h
  exact conv_noNul (eval_noNul hn e v0 he h1) h2

/-- a FOR bound converted to the counter's type is a scalar of that type -/
theorem evalToS_tag {types : List FFields} {slots : List ETy} {env : Env} (hw : TypesWf types)
    (henv : EnvTyped types slots env) {e : RecL.Expr} {t : Ty} {a : Val} (he : ExprTyped types slots e)
    (h : RecL.Ref.evalToS env e t = .ok a) : a.tag = t := by
  simp only [RecL.Ref.evalToS] at h
  obtain ⟨w, h1, h2⟩ := eres_bind_ok h
  have hwa := asScalar_ok h2
  subst hwa
  have := evalTo_typed (ft := .sc t) hw henv he rfl h1
  obtain ⟨a', ha', hat⟩ := hasTy_sc this
  injection ha' with ha'; subst ha'
  exact hat

theorem zeroOf_tag (t : Ty) : (zeroOf t).tag = t := by cases t <;> rfl

mutual
/-- a fresh value has its type: every `STRING * n` inside a fresh record holds `n` spaces -/
theorem fresh_typed : ∀ ft : FTy, HasTy ft (RecL.Ref.fresh ft)
  | .sc t => by
    simp only [RecL.Ref.fresh, HasTy]
    exact ⟨_, rfl, zeroOf_tag t⟩
  | .fix n => by
    simp only [RecL.Ref.fresh, HasTy]
    exact ⟨_, rfl, List.length_replicate⟩
  | .udt k fs => by
    simp only [RecL.Ref.fresh, HasTy]
    exact ⟨_, rfl, freshFs_typed fs⟩
theorem freshFs_typed : ∀ fs : FFields, FieldsHaveTy fs (RecL.Ref.freshFs fs)
  | .nil => by simp only [RecL.Ref.freshFs, FieldsHaveTy]
  | .cons f t rest => by
    simp only [RecL.Ref.freshFs, FieldsHaveTy]
    exact ⟨_, _, rfl, fresh_typed t, freshFs_typed rest⟩
end

/-- before any statement has run only the scalar variables exist, holding zero / the empty string -/
theorem init_exists {slots : List ETy} {x : Nat} {v : RRV} (h : (slots.map RecL.Ref.initVar)[x]? = some (some v)) :
    ∃ t, slots[x]? = some (.sc t) ∧ v = .sc (zeroOf t) := by
  rw [List.getElem?_map] at h
  cases hs : slots[x]? with
  | none => simp [hs] at h
  | some st =>
    cases st with
    | sc t =>
      simp only [hs, Option.map_some, RecL.Ref.initVar] at h
      injection h with h; injection h with h
      exact ⟨t, rfl, h.symm⟩
    | fix n => simp [hs, RecL.Ref.initVar] at h
    | udt k => simp [hs, RecL.Ref.initVar] at h

theorem typed_init (types : List FFields) (slots : List ETy) :
    EnvTyped types slots (slots.map RecL.Ref.initVar) := by
  refine ⟨by simp, ?_⟩
  intro x v hx
  obtain ⟨t, hs, rfl⟩ := init_exists hx
  refine ⟨.sc t, .sc t, hs, rfl, ?_⟩
  simp only [HasTy]
  exact ⟨_, rfl, zeroOf_tag t⟩

theorem nonul_init (slots : List ETy) (x : Nat) (v : RRV) (hx : (slots.map RecL.Ref.initVar)[x]? = some (some v)) :
    NoNul v := by
  obtain ⟨t, _, rfl⟩ := init_exists hx
  simp only [NoNul]
  exact noNul_zeroOf t

end RbThm.RecLTy
