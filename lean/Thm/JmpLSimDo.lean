import Thm.JmpLSimBase
/-!
Jump layer, simulation part: the four `DO` forms (`DO WHILE c … LOOP`, `DO UNTIL c … LOOP`, `DO … LOOP WHILE c`,
`DO … LOOP UNTIL c`).  As for WHILE: the loop may be entered at a label inside its body (top-test loops: no test is made;
bottom-test loops: the test follows the body as usual), a jump out of the body leaves the loop (nothing to pop), RETURN, END
and errors are passed on.
-/
namespace RbThm.JmpLSim
set_option linter.unusedVariables false
set_option linter.unusedSimpArgs false
open RbModel RbModel.Num RbModel.JmpL RbModel.JmpL.Compile RbModel.JmpL.Vm
open RbModel.Ast (Pos PrintItem CaseExpr)
open RbModel.Ref (St ERes eval evalTo codeOf codeOutOfData codeZeroStep zeroOf truthy printValue endsInSeparator StepSign
  binStep lift)
open RbModel.JmpL.Ref
open RbThm.JmpLLen
open RbThm.C01Sim (Typed SlotsBelow ExprWt NumericAt NumericCond ItemsSlots CaseSlots CondsSlots)

/-- `<cond>; JumpIfFalse target` placed at `a`, from two separate facts about the code -/
theorem codeAt_cond {code : Code} {a : Nat} {c : Ast.Expr} {target : Nat} {p : Pos}
    (h1 : CodeAt code a (compileExpr c)) (h2 : code[a + (compileExpr c).length]? = some (CInstr.jumpIfFalse target, p)) :
    CodeAt code a (compileExpr c ++ [(CInstr.jumpIfFalse target, p)]) := by
  intro i hi
  simp only [List.length_append, List.length_singleton] at hi
  by_cases h3 : i < (compileExpr c).length
  · rw [List.getElem?_append_left h3, ← h1 i h3]
  · have hi' : i = (compileExpr c).length := by omega
    subst hi'
    rw [List.getElem?_append_right (by omega)]
    simp only [Nat.sub_self]
    exact h2

/-- the body of a loop whose back-edge is a plain `Jump off` right behind the body (WHILE, `DO WHILE`, `DO UNTIL`): entered
either way; a normal end goes round the loop, a jump leaves it -/
theorem body_then_loop {C : Ctx} {fuel : Nat} (ih : StmtIH C fuel) {loop body : SStmt} {sfx : String}
    {d e off bodyOff : Nat} {p : Pos} {σ : Vm}
    (hcl : CodeAt C.code off (compileStmt C.env sfx d e off loop)) (hll : LabAt C.env d e off loop)
    (hwl : Wf C.sl C.env.dp d e loop)
    (hcb : CodeAt C.code bodyOff (compileStmt C.env sfx d e bodyOff body)) (hlb : LabAt C.env d e bodyOff body)
    (hwb : Wf C.sl C.env.dp d e body)
    (hjmp : C.code[bodyOff + sizeStmt C.env.dp d e body]? = some (CInstr.jump off, p))
    (hd : d ≤ σ.regStack.length) (he : e ≤ σ.vals.length) (m : Mode) (s : St) (τ0 : Vm)
    (hen0 : Entry C.env bodyOff body m τ0) (hrel0 : Rel C.sl s τ0) (hss0 : SameStacks σ τ0) :
    StmtSpec C d e (off + sizeStmt C.env.dp d e loop) τ0
      (match (generalizing := false) exec fuel C.P (desugar body) m s with
       | (s', .normal) => exec fuel C.P (desugar loop) .run s'
       | (s', .jump L) =>
         if (desugar body).hasLabel L = true then exec fuel C.P (desugar loop) (.seek L) s' else (s', .jump L)
       | r => r) := by
  have hd0 : d ≤ τ0.regStack.length := by rw [hss0.1]; exact hd
  have he0 : e ≤ τ0.vals.length := by rw [hss0.2.1]; exact he
  have hb := ih body sfx d e _ m τ0 s hcb hlb hwb hen0 hrel0 hd0 he0
  generalize hrb : exec fuel C.P (desugar body) m s = rb at hb ⊢
  obtain ⟨s1', o1⟩ := rb
  cases o1 with
  | normal =>
    obtain ⟨υ, st2, hp2, hrel2, hss2⟩ := hb
    have hj : C.code[υ.pc]? = some (CInstr.jump off, p) := by rw [hp2]; exact hjmp
    let υ1 : Vm := { υ with pc := off }
    have s3 : Vm.step C.code υ = .next υ1 := by simp only [Vm.step, hj]; rfl
    have hloop := ih loop sfx d e off .run υ1 s1' hcl hll hwl rfl (hrel2.setPc _)
      (by show d ≤ υ.regStack.length; rw [hss2.1]; exact hd0) (by show e ≤ υ.vals.length; rw [hss2.2.1]; exact he0)
    simp only
    exact StmtSpec.of_steps (st2.trans (Steps.one s3)) (SameStacks.trans hss2 ⟨rfl, rfl, rfl, rfl⟩) hloop
  | jump L =>
    simp only
    obtain ⟨hnl, hdep⟩ := jump_depths hwb hrb
    by_cases hL : (desugar body).hasLabel L = true
    · exact absurd ((hasLabel_iff hwb L).mp hL) hnl
    · simp only [hL]
      exact hb
  | halted => exact hb
  | ret q => exact hb
  | error cd q => exact hb
  | inexact => trivial
  | outOfFuel => trivial
  | illFormed => trivial
  | notHere => trivial

/-- one `Label` instruction -/
theorem label_step {code : Code} {σ : Vm} {name : String} {p : Pos} (h : code[σ.pc]? = some (CInstr.label name, p)) :
    Vm.step code σ = .next (advance σ) := by simp only [Vm.step, h]

theorem jump_step {code : Code} {σ : Vm} {a : Nat} {p : Pos} (h : code[σ.pc]? = some (CInstr.jump a, p)) :
    Vm.step code σ = .next { σ with pc := a } := by simp only [Vm.step, h]

/-! ### test at the top -/

theorem case_do_top (C : Ctx) (fuel : Nat) (ih : StmtIH C fuel) (c : Ast.Expr) (u : Bool) (body : SStmt) (p : Pos)
    (sfx : String) (d e off : Nat) (m : Mode) (σ : Vm) (s : St)
    (hc : CodeAt C.code off (compileStmt C.env sfx d e off (.doLoop c true u body p)))
    (hl : LabAt C.env d e off (.doLoop c true u body p)) (hw : Wf C.sl C.env.dp d e (.doLoop c true u body p))
    (hen : Entry C.env off (.doLoop c true u body p) m σ) (hr : Rel C.sl s σ)
    (hd : d ≤ σ.regStack.length) (he : e ≤ σ.vals.length) :
    StmtSpec C d e (off + sizeStmt C.env.dp d e (.doLoop c true u body p)) σ
      (exec (fuel + 1) C.P (desugar (.doLoop c true u body p)) m s) := by
  have hcw := hc
  have hw0 := hw
  obtain ⟨hsc, hnc, hwb⟩ := hw
  have hlb := hl.doTop
  have hent : m.enters (desugar (.doLoop c true u body p)) = true := by
    cases m with
    | run => rfl
    | seek L => exact (hasLabel_iff hw0 L).mpr hen.1
  simp only [compileStmt, if_true] at hc
  cases u with
  | false =>
    -- DO WHILE c: `label; <c>; JumpIfFalse loop; body; Jump off; label loop`
    simp only [Bool.false_eq_true, if_false] at hc hlb
    have hcb : CodeAt C.code (off + 1 + (compileExpr c).length + 1)
        (compileStmt C.env sfx d e (off + 1 + (compileExpr c).length + 1) body) := by
      have := hc.append_left.append_right
      simp only [List.length_append, List.length_singleton] at this
      have e1 : off + (0 + 1 + (compileExpr c).length + 1) = off + 1 + (compileExpr c).length + 1 := by omega
      rw [e1] at this
      exact this
    have hjmp : C.code[off + 1 + (compileExpr c).length + 1 + sizeStmt C.env.dp d e body]? =
        some (CInstr.jump off, p) := by
      have := hc.append_right.head
      simp only [List.length_append, List.length_singleton, len_stmt] at this
      rw [← this]; congr 1; omega
    have hloopl : C.code[off + 1 + (compileExpr c).length + 1 + sizeStmt C.env.dp d e body + 1]? =
        some (CInstr.label (labelName "loop" p sfx), p) := by
      have := hc.append_right.tail.head
      simp only [List.length_append, List.length_singleton, len_stmt] at this
      rw [← this]; congr 1; omega
    have hsize : sizeStmt C.env.dp d e (.doLoop c true false body p) =
        1 + (compileExpr c).length + 1 + sizeStmt C.env.dp d e body + 2 := by
      simp only [sizeStmt, if_true, Bool.false_eq_true, if_false]
    have hbody := fun τ0 h1 h2 h3 => body_then_loop ih hcw hl hw0 hcb hlb hwb hjmp hd he m s τ0 h1 h2 h3
    simp only [desugar] at hent hbody ⊢
    simp only [exec, hent, if_true]
    cases m with
    | seek L =>
      have hLb : L ∈ body.labels := by simpa only [SStmt.labels] using hen.1
      simp
      exact hbody σ ⟨hLb, hen.2⟩ hr (SameStacks.refl σ)
    | run =>
      have hpc : σ.pc = off := hen
      subst hpc
      have hlab : C.code[σ.pc]? = some (CInstr.label (labelName "do" p sfx), p) :=
        hc.append_left.append_left.append_left.append_left.head
      let σ1 : Vm := advance σ
      have s1 : Vm.step C.code σ = .next σ1 := label_step hlab
      have hcc : CodeAt C.code (σ.pc + 1) (compileExpr c ++
          [(CInstr.jumpIfFalse (σ.pc + 1 + (compileExpr c).length + 1 + sizeStmt C.env.dp d e body + 1), p)]) := by
        refine codeAt_cond ?_ ?_
        · have := hc.append_left.append_left.append_left.append_right
          simpa using this
        · have := hc.append_left.append_left.append_right.head
          simp only [List.length_append, List.length_singleton] at this
          rw [← this]; congr 1; omega
      have henv1 : σ1.env = s.env := hr.env
      have hcond := cond_correct C.code c _ p (σ.pc + 1) σ1 hcc rfl
        (by rw [henv1, hr.typed.len]; exact hsc) (by rw [henv1]; exact hnc _ hr.typed)
      rw [henv1] at hcond
      simp only
      cases hec : evalCond s.env c with
      | error o =>
        simp only [hec] at hcond ⊢
        refine StmtSpec.of_cond_error hec ?_
        intro cd q ho
        subst ho
        exact ⟨s.env, by rw [← hr.out]; exact ErrsWith.of_steps (Steps.one s1) hcond⟩
      | ok bv =>
        simp only [hec] at hcond ⊢
        cases bv with
        | false =>
          obtain ⟨v, b, st⟩ := hcond
          simp [StmtSpec]
          let τ0 : Vm := afterExpr σ1 (σ.pc + 1 + (compileExpr c).length + 1 + sizeStmt C.env.dp d e body + 1) v b
          have s2 : Vm.step C.code τ0 = .next (advance τ0) := label_step hloopl
          refine ⟨advance τ0, (Steps.cons s1 st).trans (Steps.one s2), ?_, ?_, ⟨rfl, rfl, rfl, rfl⟩⟩
          · show σ.pc + 1 + (compileExpr c).length + 1 + sizeStmt C.env.dp d e body + 1 + 1 = _
            rw [hsize]; omega
          · exact ((hr.advance).afterExpr _ v b).advance
        | true =>
          obtain ⟨v, b, st⟩ := hcond
          let τ0 : Vm := afterExpr σ1 (σ.pc + 1 + (compileExpr c).length + 1) v b
          have := hbody τ0 rfl ((hr.advance).afterExpr _ v b) ⟨rfl, rfl, rfl, rfl⟩
          simp
          exact StmtSpec.of_steps (Steps.cons s1 st) ⟨rfl, rfl, rfl, rfl⟩ this
  | true =>
    -- DO UNTIL c: `label; <c>; JumpIfFalse do-body; Jump loop; label do-body; body; Jump off; label loop`
    simp only [if_true] at hc hlb
    have hcb : CodeAt C.code (off + 1 + (compileExpr c).length + 3)
        (compileStmt C.env sfx d e (off + 1 + (compileExpr c).length + 3) body) := by
      have := hc.append_left.append_right
      simp only [List.length_append, List.length_singleton, List.length_cons, List.length_nil] at this
      have e1 : off + (0 + 1 + (compileExpr c).length + (0 + 1 + 1 + 1)) = off + 1 + (compileExpr c).length + 3 := by omega
      rw [e1] at this
      exact this
    have hjmp : C.code[off + 1 + (compileExpr c).length + 3 + sizeStmt C.env.dp d e body]? =
        some (CInstr.jump off, p) := by
      have := hc.append_right.head
      simp only [List.length_append, List.length_singleton, List.length_cons, List.length_nil, len_stmt] at this
      rw [← this]; congr 1; omega
    have hloopl : C.code[off + 1 + (compileExpr c).length + 3 + sizeStmt C.env.dp d e body + 1]? =
        some (CInstr.label (labelName "loop" p sfx), p) := by
      have := hc.append_right.tail.head
      simp only [List.length_append, List.length_singleton, List.length_cons, List.length_nil, len_stmt] at this
      rw [← this]; congr 1; omega
    have hsize : sizeStmt C.env.dp d e (.doLoop c true true body p) =
        1 + (compileExpr c).length + 3 + sizeStmt C.env.dp d e body + 2 := by
      simp only [sizeStmt, if_true]
    have hbody := fun τ0 h1 h2 h3 => body_then_loop ih hcw hl hw0 hcb hlb hwb hjmp hd he m s τ0 h1 h2 h3
    simp only [desugar] at hent hbody ⊢
    simp only [exec, hent, if_true]
    cases m with
    | seek L =>
      have hLb : L ∈ body.labels := by simpa only [SStmt.labels] using hen.1
      simp
      exact hbody σ ⟨hLb, hen.2⟩ hr (SameStacks.refl σ)
    | run =>
      have hpc : σ.pc = off := hen
      subst hpc
      have hlab : C.code[σ.pc]? = some (CInstr.label (labelName "do" p sfx), p) :=
        hc.append_left.append_left.append_left.append_left.head
      let σ1 : Vm := advance σ
      have s1 : Vm.step C.code σ = .next σ1 := label_step hlab
      have h3l := hc.append_left.append_left.append_right
      simp only [List.length_append, List.length_singleton] at h3l
      have hcc : CodeAt C.code (σ.pc + 1) (compileExpr c ++
          [(CInstr.jumpIfFalse (σ.pc + 1 + (compileExpr c).length + 3 - 1), p)]) := by
        refine codeAt_cond ?_ ?_
        · have := hc.append_left.append_left.append_left.append_right
          simpa using this
        · have := h3l.head
          rw [← this]; congr 1; omega
      have hj2 : C.code[σ.pc + 1 + (compileExpr c).length + 1]? =
          some (CInstr.jump (σ.pc + 1 + (compileExpr c).length + 3 + sizeStmt C.env.dp d e body + 1), p) := by
        have := h3l.tail.head
        rw [← this]; congr 1; omega
      have hl3 : C.code[σ.pc + 1 + (compileExpr c).length + 3 - 1]? =
          some (CInstr.label (labelName "do-body" p sfx), p) := by
        have := h3l.tail.tail.head
        rw [← this]; congr 1; omega
      have henv1 : σ1.env = s.env := hr.env
      have hcond := cond_correct C.code c _ p (σ.pc + 1) σ1 hcc rfl
        (by rw [henv1, hr.typed.len]; exact hsc) (by rw [henv1]; exact hnc _ hr.typed)
      rw [henv1] at hcond
      simp only
      cases hec : evalCond s.env c with
      | error o =>
        simp only [hec] at hcond ⊢
        refine StmtSpec.of_cond_error hec ?_
        intro cd q ho
        subst ho
        exact ⟨s.env, by rw [← hr.out]; exact ErrsWith.of_steps (Steps.one s1) hcond⟩
      | ok bv =>
        simp only [hec] at hcond ⊢
        cases bv with
        | true =>
          -- the condition holds: leave the loop through `Jump loop`
          obtain ⟨v, b, st⟩ := hcond
          simp [StmtSpec]
          let τ0 : Vm := afterExpr σ1 (σ.pc + 1 + (compileExpr c).length + 1) v b
          let τ1 : Vm := { τ0 with pc := σ.pc + 1 + (compileExpr c).length + 3 + sizeStmt C.env.dp d e body + 1 }
          have s2 : Vm.step C.code τ0 = .next τ1 := jump_step hj2
          have s3 : Vm.step C.code τ1 = .next (advance τ1) := label_step hloopl
          refine ⟨advance τ1, (Steps.cons s1 st).trans (Steps.cons s2 (Steps.one s3)), ?_, ?_, ⟨rfl, rfl, rfl, rfl⟩⟩
          · show σ.pc + 1 + (compileExpr c).length + 3 + sizeStmt C.env.dp d e body + 1 + 1 = _
            rw [hsize]; omega
          · exact ((((hr.advance).afterExpr _ v b).setPc _)).advance
        | false =>
          obtain ⟨v, b, st⟩ := hcond
          let τ0 : Vm := afterExpr σ1 (σ.pc + 1 + (compileExpr c).length + 3 - 1) v b
          have s2 : Vm.step C.code τ0 = .next (advance τ0) := label_step hl3
          have hp : (advance τ0).pc = σ.pc + 1 + (compileExpr c).length + 3 := by
            show σ.pc + 1 + (compileExpr c).length + 3 - 1 + 1 = _
            omega
          have := hbody (advance τ0) hp (((hr.advance).afterExpr _ v b).advance) ⟨rfl, rfl, rfl, rfl⟩
          simp
          exact StmtSpec.of_steps ((Steps.cons s1 st).trans (Steps.one s2)) ⟨rfl, rfl, rfl, rfl⟩ this

/-! ### test at the bottom -/

theorem case_do_bottom (C : Ctx) (fuel : Nat) (ih : StmtIH C fuel) (c : Ast.Expr) (u : Bool) (body : SStmt) (p : Pos)
    (sfx : String) (d e off : Nat) (m : Mode) (σ : Vm) (s : St)
    (hc : CodeAt C.code off (compileStmt C.env sfx d e off (.doLoop c false u body p)))
    (hl : LabAt C.env d e off (.doLoop c false u body p)) (hw : Wf C.sl C.env.dp d e (.doLoop c false u body p))
    (hen : Entry C.env off (.doLoop c false u body p) m σ) (hr : Rel C.sl s σ)
    (hd : d ≤ σ.regStack.length) (he : e ≤ σ.vals.length) :
    StmtSpec C d e (off + sizeStmt C.env.dp d e (.doLoop c false u body p)) σ
      (exec (fuel + 1) C.P (desugar (.doLoop c false u body p)) m s) := by
  have hcw := hc
  have hw0 := hw
  obtain ⟨hsc, hnc, hwb⟩ := hw
  have hlb := hl.doBottom
  have hent : m.enters (desugar (.doLoop c false u body p)) = true := by
    cases m with
    | run => rfl
    | seek L => exact (hasLabel_iff hw0 L).mpr hen.1
  simp only [compileStmt, Bool.false_eq_true, if_false] at hc
  have hlab : C.code[off]? = some (CInstr.label (labelName "do" p sfx), p) :=
    hc.append_left.append_left.append_left.append_left.head
  have hcb : CodeAt C.code (off + 1) (compileStmt C.env sfx d e (off + 1) body) := by
    have := hc.append_left.append_left.append_left.append_right
    simpa using this
  have hce : CodeAt C.code (off + 1 + sizeStmt C.env.dp d e body) (compileExpr c) := by
    have := hc.append_left.append_left.append_right
    simp only [List.length_append, List.length_singleton, len_stmt] at this
    have e1 : off + (0 + 1 + sizeStmt C.env.dp d e body) = off + 1 + sizeStmt C.env.dp d e body := by omega
    rw [e1] at this
    exact this
  have htail := hc.append_left.append_right
  simp only [List.length_append, List.length_singleton, len_stmt] at htail
  have hlast := hc.append_right.head
  simp only [List.length_append, List.length_singleton, len_stmt] at hlast
  -- what follows a normal end of the body: the test, then round the loop or out
  have hafter : ∀ (υ : Vm) (s1 : St), υ.pc = off + 1 + sizeStmt C.env.dp d e body → Rel C.sl s1 υ → SameStacks σ υ →
      StmtSpec C d e (off + sizeStmt C.env.dp d e (.doLoop c false u body p)) υ
        (match evalCond s1.env c with
         | .error o => (s1, o)
         | .ok b => if (b != u) = true then exec fuel C.P (Stmt.doLoop c false u (desugar body) p) .run s1 else (s1, .normal)) := by
    intro υ s1 hp hrel hss
    have hd1 : d ≤ υ.regStack.length := by rw [hss.1]; exact hd
    have he1 : e ≤ υ.vals.length := by rw [hss.2.1]; exact he
    have hloop : ∀ (τ : Vm), τ.pc = off → Rel C.sl s1 τ → SameStacks υ τ →
        StmtSpec C d e (off + sizeStmt C.env.dp d e (.doLoop c false u body p)) τ
          (exec fuel C.P (Stmt.doLoop c false u (desugar body) p) .run s1) := by
      intro τ hpτ hrτ hsτ
      have := ih (.doLoop c false u body p) sfx d e off .run τ s1 hcw hl hw0 hpτ hrτ
        (by rw [hsτ.1]; exact hd1) (by rw [hsτ.2.1]; exact he1)
      simpa only [desugar] using this
    cases u with
    | true =>
      -- LOOP UNTIL c: `<c>; JumpIfFalse off; label loop`
      simp only [if_true] at htail hlast
      have hcc : CodeAt C.code υ.pc (compileExpr c ++ [(CInstr.jumpIfFalse off, p)]) := by
        rw [hp]
        refine codeAt_cond hce ?_
        have := htail.head
        rw [← this]; congr 1; omega
      have hll : C.code[off + 1 + sizeStmt C.env.dp d e body + (compileExpr c).length + 1]? =
          some (CInstr.label (labelName "loop" p sfx), p) := by
        rw [← hlast]; congr 1; simp only [List.length_singleton]; omega
      have hcond := cond_correct C.code c _ p υ.pc υ hcc rfl
        (by rw [hrel.env, hrel.typed.len]; exact hsc) (by rw [hrel.env]; exact hnc _ hrel.typed)
      rw [hrel.env] at hcond
      cases hec : evalCond s1.env c with
      | error o =>
        simp only [hec] at hcond ⊢
        refine StmtSpec.of_cond_error hec ?_
        intro cd q ho
        subst ho
        exact ⟨s1.env, by rw [← hrel.out]; exact hcond⟩
      | ok bv =>
        simp only [hec] at hcond ⊢
        cases bv with
        | false =>
          obtain ⟨v, b, st⟩ := hcond
          simp
          exact StmtSpec.of_steps st ⟨rfl, rfl, rfl, rfl⟩ (hloop _ rfl (hrel.afterExpr _ v b) ⟨rfl, rfl, rfl, rfl⟩)
        | true =>
          obtain ⟨v, b, st⟩ := hcond
          simp [StmtSpec]
          let τ0 : Vm := afterExpr υ (υ.pc + (compileExpr c).length + 1) v b
          have s2 : Vm.step C.code τ0 = .next (advance τ0) := by
            refine label_step (name := labelName "loop" p sfx) (p := p) ?_
            show C.code[υ.pc + (compileExpr c).length + 1]? = _
            rw [hp]; exact hll
          refine ⟨advance τ0, st.trans (Steps.one s2), ?_, (hrel.afterExpr _ v b).advance, ⟨rfl, rfl, rfl, rfl⟩⟩
          show υ.pc + (compileExpr c).length + 1 + 1 = _
          rw [hp]; simp only [sizeStmt, Bool.false_eq_true, if_false, if_true]; omega
    | false =>
      -- LOOP WHILE c: `<c>; JumpIfFalse loop; Jump off; label loop`
      simp only [Bool.false_eq_true, if_false] at htail hlast
      have hcc : CodeAt C.code υ.pc (compileExpr c ++
          [(CInstr.jumpIfFalse (off + 1 + sizeStmt C.env.dp d e body + (compileExpr c).length + 2), p)]) := by
        rw [hp]
        refine codeAt_cond hce ?_
        have := htail.head
        rw [← this]; congr 1; omega
      have hjo : C.code[off + 1 + sizeStmt C.env.dp d e body + (compileExpr c).length + 1]? =
          some (CInstr.jump off, p) := by
        have := htail.tail.head
        rw [← this]; congr 1; omega
      have hll : C.code[off + 1 + sizeStmt C.env.dp d e body + (compileExpr c).length + 2]? =
          some (CInstr.label (labelName "loop" p sfx), p) := by
        rw [← hlast]; congr 1; simp only [List.length_cons, List.length_nil]; omega
      have hcond := cond_correct C.code c _ p υ.pc υ hcc rfl
        (by rw [hrel.env, hrel.typed.len]; exact hsc) (by rw [hrel.env]; exact hnc _ hrel.typed)
      rw [hrel.env] at hcond
      cases hec : evalCond s1.env c with
      | error o =>
        simp only [hec] at hcond ⊢
        refine StmtSpec.of_cond_error hec ?_
        intro cd q ho
        subst ho
        exact ⟨s1.env, by rw [← hrel.out]; exact hcond⟩
      | ok bv =>
        simp only [hec] at hcond ⊢
        cases bv with
        | true =>
          obtain ⟨v, b, st⟩ := hcond
          simp
          let τ0 : Vm := afterExpr υ (υ.pc + (compileExpr c).length + 1) v b
          have s2 : Vm.step C.code τ0 = .next { τ0 with pc := off } := by
            refine jump_step (p := p) ?_
            show C.code[υ.pc + (compileExpr c).length + 1]? = _
            rw [hp]; exact hjo
          exact StmtSpec.of_steps (st.trans (Steps.one s2)) ⟨rfl, rfl, rfl, rfl⟩
            (hloop _ rfl ((hrel.afterExpr _ v b).setPc _) ⟨rfl, rfl, rfl, rfl⟩)
        | false =>
          obtain ⟨v, b, st⟩ := hcond
          simp [StmtSpec]
          let τ0 : Vm := afterExpr υ (off + 1 + sizeStmt C.env.dp d e body + (compileExpr c).length + 2) v b
          have s2 : Vm.step C.code τ0 = .next (advance τ0) := label_step hll
          refine ⟨advance τ0, st.trans (Steps.one s2), ?_, (hrel.afterExpr _ v b).advance, ⟨rfl, rfl, rfl, rfl⟩⟩
          show off + 1 + sizeStmt C.env.dp d e body + (compileExpr c).length + 2 + 1 = _
          simp only [sizeStmt, Bool.false_eq_true, if_false]; omega
  -- the body phase
  have hbody : ∀ (τ0 : Vm), Entry C.env (off + 1) body m τ0 → Rel C.sl s τ0 → SameStacks σ τ0 →
      StmtSpec C d e (off + sizeStmt C.env.dp d e (.doLoop c false u body p)) τ0
        (match exec fuel C.P (desugar body) m s with
         | (s', .normal) =>
           match evalCond s'.env c with
           | .error o => (s', o)
           | .ok b => if (b != u) = true then exec fuel C.P (Stmt.doLoop c false u (desugar body) p) .run s' else (s', .normal)
         | (s', .jump L) =>
           if (desugar body).hasLabel L = true then exec fuel C.P (Stmt.doLoop c false u (desugar body) p) (.seek L) s'
           else (s', .jump L)
         | r => r) := by
    intro τ0 hen0 hrel0 hss0
    have hd0 : d ≤ τ0.regStack.length := by rw [hss0.1]; exact hd
    have he0 : e ≤ τ0.vals.length := by rw [hss0.2.1]; exact he
    have hb := ih body sfx d e _ m τ0 s hcb hlb hwb hen0 hrel0 hd0 he0
    generalize hrb : exec fuel C.P (desugar body) m s = rb at hb ⊢
    obtain ⟨s1', o1⟩ := rb
    cases o1 with
    | normal =>
      obtain ⟨υ, st2, hp2, hrel2, hss2⟩ := hb
      simp only
      exact StmtSpec.of_steps st2 hss2 (hafter υ s1' hp2 hrel2 (SameStacks.trans hss0 hss2))
    | jump L =>
      simp only
      obtain ⟨hnl, hdep⟩ := jump_depths hwb hrb
      by_cases hL : (desugar body).hasLabel L = true
      · exact absurd ((hasLabel_iff hwb L).mp hL) hnl
      · simp only [hL]
        exact hb
    | halted => exact hb
    | ret q => exact hb
    | error cd q => exact hb
    | inexact => trivial
    | outOfFuel => trivial
    | illFormed => trivial
    | notHere => trivial
  simp only [desugar] at hent ⊢
  simp only [exec, hent, if_true, Bool.false_eq_true, if_false]
  cases m with
  | seek L =>
    have hLb : L ∈ body.labels := by simpa only [SStmt.labels] using hen.1
    exact hbody σ ⟨hLb, hen.2⟩ hr (SameStacks.refl σ)
  | run =>
    have hpc : σ.pc = off := hen
    have s1 : Vm.step C.code σ = .next (advance σ) := label_step (by rw [hpc]; exact hlab)
    have := hbody (advance σ) (by show σ.pc + 1 = off + 1; rw [hpc]) hr.advance ⟨rfl, rfl, rfl, rfl⟩
    exact StmtSpec.of_steps (Steps.one s1) ⟨rfl, rfl, rfl, rfl⟩ this

/-- **DO … LOOP** in its four forms -/
theorem case_do (C : Ctx) (fuel : Nat) (ih : StmtIH C fuel) (c : Ast.Expr) (top u : Bool) (body : SStmt) (p : Pos)
    (sfx : String) (d e off : Nat) (m : Mode) (σ : Vm) (s : St)
    (hc : CodeAt C.code off (compileStmt C.env sfx d e off (.doLoop c top u body p)))
    (hl : LabAt C.env d e off (.doLoop c top u body p)) (hw : Wf C.sl C.env.dp d e (.doLoop c top u body p))
    (hen : Entry C.env off (.doLoop c top u body p) m σ) (hr : Rel C.sl s σ)
    (hd : d ≤ σ.regStack.length) (he : e ≤ σ.vals.length) :
    StmtSpec C d e (off + sizeStmt C.env.dp d e (.doLoop c top u body p)) σ
      (exec (fuel + 1) C.P (desugar (.doLoop c top u body p)) m s) := by
  cases top with
  | true => exact case_do_top C fuel ih c u body p sfx d e off m σ s hc hl hw hen hr hd he
  | false => exact case_do_bottom C fuel ih c u body p sfx d e off m σ s hc hl hw hen hr hd he

end RbThm.JmpLSim
