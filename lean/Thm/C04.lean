import RbModel.Arr
/-!
C04 — arrays, records and fixed-length strings change only where they are written.

All array theorems are for arbitrary rank and arbitrary (also negative) bounds; nothing is bounded in size.
`InBox dims idx` is "the ranks agree and every index lies within its declared bounds".
-/
namespace RbThm.C04
open RbModel RbModel.Arr

/-! ### The index box -/

/-- The ranks agree and every index lies within its declared bounds. -/
def InBox : List (Int × Int) → List Int → Prop
  | [], [] => True
  | (lb, ub) :: ds, a :: as => lb ≤ a ∧ a ≤ ub ∧ InBox ds as
  | _, _ => False

instance instDecidableInBox : (ds : List (Int × Int)) → (as : List Int) → Decidable (InBox ds as)
  | [], [] => isTrue trivial
  | (lb, ub) :: ds, a :: as =>
      have := instDecidableInBox ds as
      inferInstanceAs (Decidable (lb ≤ a ∧ a ≤ ub ∧ InBox ds as))
  | [], _ :: _ => isFalse (fun h => h)
  | _ :: _, [] => isFalse (fun h => h)

theorem inBox_length : ∀ {ds : List (Int × Int)} {as : List Int}, InBox ds as → ds.length = as.length
  | [], [], _ => rfl
  | (_, _) :: ds, _ :: as, h => by
      have := inBox_length (ds := ds) (as := as) h.2.2
      simp [this]
  | [], _ :: _, h => h.elim
  | _ :: _, [], h => h.elim

/-- `InBox`, spelled out position by position. -/
theorem inBox_iff_forall : ∀ (ds : List (Int × Int)) (as : List Int),
    InBox ds as ↔ ds.length = as.length ∧
      ∀ (i : Nat) (h₁ : i < ds.length) (h₂ : i < as.length), ds[i].1 ≤ as[i] ∧ as[i] ≤ ds[i].2
  | [], [] => by simp [InBox]
  | [], _ :: _ => by simp [InBox]
  | _ :: _, [] => by simp [InBox]
  | (lb, ub) :: ds, a :: as => by
      simp only [InBox, inBox_iff_forall ds as, List.length_cons]
      constructor
      · rintro ⟨h1, h2, h3, h4⟩
        refine ⟨by omega, ?_⟩
        intro i h₁ h₂
        cases i with
        | zero => exact ⟨h1, h2⟩
        | succ j => simpa using h4 j (by omega) (by omega)
      · rintro ⟨h1, h2⟩
        refine ⟨(h2 0 (by omega) (by omega)).1, (h2 0 (by omega) (by omega)).2, by omega, ?_⟩
        intro i h₁ h₂
        have := h2 (i + 1) (by omega) (by omega)
        simpa only [List.getElem_cons_succ] using this

theorem inBox_append_single : ∀ (ds : List (Int × Int)) (as : List Int) (d : Int × Int) (a : Int),
    InBox (ds ++ [d]) (as ++ [a]) ↔ InBox ds as ∧ d.1 ≤ a ∧ a ≤ d.2
  | [], [], (lb, ub), a => by simp [InBox]
  | [], b :: bs, (lb, ub), a => by
      cases bs <;> simp [InBox]
  | e :: es, [], (lb, ub), a => by
      obtain ⟨l, u⟩ := e
      cases es <;> simp [InBox]
  | (l, u) :: es, b :: bs, d, a => by
      simp only [List.cons_append, InBox, inBox_append_single es bs d a]
      constructor
      · rintro ⟨h1, h2, h3, h4⟩; exact ⟨⟨h1, h2, h3⟩, h4⟩
      · rintro ⟨⟨h1, h2, h3⟩, h4⟩; exact ⟨h1, h2, h3, h4⟩

theorem inBox_reverse : ∀ (ds : List (Int × Int)) (as : List Int),
    InBox ds.reverse as.reverse ↔ InBox ds as
  | [], [] => by simp
  | [], b :: bs => by
      constructor
      · intro h; have := inBox_length h; simp at this
      · intro h; exact h.elim
  | e :: es, [] => by
      constructor
      · intro h; have := inBox_length h; simp at this
      · intro h; exact h.elim
  | (l, u) :: es, b :: bs => by
      simp only [List.reverse_cons, inBox_append_single, inBox_reverse es bs, InBox]
      constructor
      · rintro ⟨h1, h2, h3⟩; exact ⟨h2, h3, h1⟩
      · rintro ⟨h1, h2, h3⟩; exact ⟨h3, h1, h2⟩

/-! ### The flat index as a mixed-radix number (least significant digit first) -/

/-- Product of the extents. -/
def prodExt : List (Int × Int) → Nat
  | [] => 1
  | d :: ds => extent d * prodExt ds

/-- Value of the index tuple as a mixed-radix number, least significant digit first. -/
def flatLE : List (Int × Int) → List Int → Int
  | (lb, ub) :: ds, a :: as => (a - lb) + (ub - lb + 1) * flatLE ds as
  | _, _ => 0

theorem foldl_prod (ds : List (Int × Int)) (acc : Nat) :
    ds.foldl (fun len d => len * extent d) acc = acc * prodExt ds := by
  induction ds generalizing acc with
  | nil => simp [prodExt]
  | cons d ds ih => simp [List.foldl_cons, ih, prodExt, Nat.mul_assoc]

theorem dimsLen_eq_prodExt (ds : List (Int × Int)) : dimsLen ds = prodExt ds := by
  simp [dimsLen, foldl_prod]

theorem prodExt_append (xs ys : List (Int × Int)) : prodExt (xs ++ ys) = prodExt xs * prodExt ys := by
  induction xs with
  | nil => simp [prodExt]
  | cons d ds ih => simp [prodExt, ih, Nat.mul_assoc]

theorem prodExt_reverse (ds : List (Int × Int)) : prodExt ds.reverse = prodExt ds := by
  induction ds with
  | nil => rfl
  | cons d ds ih => simp [prodExt_append, prodExt, ih, Nat.mul_comm]

/-- The loop computes `index + multiplier * flatLE` exactly on the box … -/
theorem absLoop_inBox : ∀ (ds : List (Int × Int)) (as : List Int) (index mult : Int),
    InBox ds as → absLoop ds as index mult = some (index + mult * flatLE ds as)
  | [], [], index, mult, _ => by simp [absLoop, flatLE]
  | (lb, ub) :: ds, a :: as, index, mult, h => by
      obtain ⟨h1, h2, h3⟩ := h
      have hn : ¬ (a < lb ∨ a > ub) := by omega
      simp only [absLoop, hn, if_false, flatLE]
      rw [absLoop_inBox ds as _ _ h3]
      congr 1
      rw [Int.mul_add mult (a - lb), ← Int.mul_assoc, Int.mul_comm (a - lb) mult, Int.add_assoc]
  | [], _ :: _, _, _, h => h.elim
  | _ :: _, [], _, _, h => h.elim

/-- … and fails exactly outside it. -/
theorem absLoop_not_inBox : ∀ (ds : List (Int × Int)) (as : List Int) (index mult : Int),
    ¬ InBox ds as → absLoop ds as index mult = none
  | [], [], _, _, h => (h trivial).elim
  | (lb, ub) :: ds, a :: as, index, mult, h => by
      by_cases hc : a < lb ∨ a > ub
      · simp [absLoop, hc]
      · simp only [absLoop, hc, if_false]
        apply absLoop_not_inBox ds as
        intro h3
        exact h ⟨by omega, by omega, h3⟩
  | [], _ :: _, _, _, _ => by simp [absLoop]
  | _ :: _, [], _, _, _ => by simp [absLoop]

theorem extent_cast_of_le {lb ub : Int} (h : lb ≤ ub) : ((extent (lb, ub) : Nat) : Int) = ub - lb + 1 := by
  simp only [extent]
  omega

/-- Inside the box the mixed-radix value is a valid position: `0 ≤ flatLE < ∏ extents`. -/
theorem flatLE_range : ∀ (ds : List (Int × Int)) (as : List Int),
    InBox ds as → 0 ≤ flatLE ds as ∧ flatLE ds as < (prodExt ds : Int)
  | [], [], _ => by simp [flatLE, prodExt]
  | (lb, ub) :: ds, a :: as, h => by
      obtain ⟨h1, h2, h3⟩ := h
      obtain ⟨ih0, ih1⟩ := flatLE_range ds as h3
      have he : ((extent (lb, ub) : Nat) : Int) = ub - lb + 1 := extent_cast_of_le (by omega)
      simp only [flatLE, prodExt, Int.natCast_mul, he]
      have hpos : (0 : Int) ≤ ub - lb + 1 := by omega
      have hm0 : 0 ≤ (ub - lb + 1) * flatLE ds as := Int.mul_nonneg hpos ih0
      have hm1 : (ub - lb + 1) * (flatLE ds as + 1) ≤ (ub - lb + 1) * (prodExt ds : Int) :=
        Int.mul_le_mul_of_nonneg_left (by omega) hpos
      rw [Int.mul_add, Int.mul_one] at hm1
      constructor <;> omega
  | [], _ :: _, h => h.elim
  | _ :: _, [], h => h.elim

/-- Mixed-radix uniqueness: two tuples of the box with the same value are the same tuple. -/
theorem flatLE_inj : ∀ (ds : List (Int × Int)) (as bs : List Int),
    InBox ds as → InBox ds bs → flatLE ds as = flatLE ds bs → as = bs
  | [], [], [], _, _, _ => rfl
  | (lb, ub) :: ds, a :: as, b :: bs, ha, hb, he => by
      obtain ⟨a1, a2, a3⟩ := ha
      obtain ⟨b1, b2, b3⟩ := hb
      simp only [flatLE] at he
      have hpos : (0 : Int) < ub - lb + 1 := by omega
      -- digits: take the value modulo the radix
      have hma : ((a - lb) + (ub - lb + 1) * flatLE ds as) % (ub - lb + 1) = a - lb := by
        rw [Int.add_mul_emod_self_left]; exact Int.emod_eq_of_lt (by omega) (by omega)
      have hmb : ((b - lb) + (ub - lb + 1) * flatLE ds bs) % (ub - lb + 1) = b - lb := by
        rw [Int.add_mul_emod_self_left]; exact Int.emod_eq_of_lt (by omega) (by omega)
      have hab : a = b := by
        have : a - lb = b - lb := by rw [← hma, ← hmb, he]
        omega
      subst hab
      have hrest : (ub - lb + 1) * flatLE ds as = (ub - lb + 1) * flatLE ds bs := by omega
      have hf : flatLE ds as = flatLE ds bs := Int.eq_of_mul_eq_mul_left (by omega) hrest
      rw [flatLE_inj ds as bs a3 b3 hf]
  | [], [], _ :: _, _, hb, _ => hb.elim
  | [], _ :: _, _, ha, _, _ => ha.elim
  | _ :: _, [], _, ha, _, _ => ha.elim
  | _ :: _, _ :: _, [], _, hb, _ => hb.elim

/-! ### `abs_index` -/

/-- Closed form of `absIndex` on the box. -/
theorem absIndex_of_inBox {dims : List (Int × Int)} {idx : List Int} (h : InBox dims idx) :
    absIndex dims idx = some (flatLE dims.reverse idx.reverse).toNat := by
  have h' := (inBox_reverse dims idx).mpr h
  simp [absIndex, absLoop_inBox _ _ 0 1 h']

theorem absIndex_of_not_inBox {dims : List (Int × Int)} {idx : List Int} (h : ¬ InBox dims idx) :
    absIndex dims idx = none := by
  have h' : ¬ InBox dims.reverse idx.reverse := fun x => h ((inBox_reverse dims idx).mp x)
  simp [absIndex, absLoop_not_inBox _ _ 0 1 h']

/-- **Subscript out of range exactly when some index is outside its declared bounds**:
`abs_index` succeeds iff the ranks agree and every index lies within its bounds. -/
theorem absIndex_some_iff (dims : List (Int × Int)) (idx : List Int) :
    (∃ k, absIndex dims idx = some k) ↔ InBox dims idx := by
  constructor
  · rintro ⟨k, hk⟩
    apply Classical.byContradiction
    intro hn
    rw [absIndex_of_not_inBox hn] at hk
    cases hk
  · intro h
    exact ⟨_, absIndex_of_inBox h⟩

/-- The same, for the error side. -/
theorem absIndex_none_iff (dims : List (Int × Int)) (idx : List Int) :
    absIndex dims idx = none ↔ ¬ InBox dims idx := by
  constructor
  · intro h hb
    rw [absIndex_of_inBox hb] at h
    cases h
  · exact absIndex_of_not_inBox

/-- The same, position by position (`i`-th index within the `i`-th declared bounds). -/
theorem absIndex_some_iff_forall (dims : List (Int × Int)) (idx : List Int) :
    (∃ k, absIndex dims idx = some k) ↔
      dims.length = idx.length ∧
        ∀ (i : Nat) (h₁ : i < dims.length) (h₂ : i < idx.length), dims[i].1 ≤ idx[i] ∧ idx[i] ≤ dims[i].2 := by
  rw [absIndex_some_iff, inBox_iff_forall]

theorem absIndex_inBox {dims : List (Int × Int)} {idx : List Int} {k : Nat}
    (h : absIndex dims idx = some k) : InBox dims idx :=
  (absIndex_some_iff dims idx).mp ⟨k, h⟩

/-- A successful `abs_index` is a position of the element vector: `k < len`. -/
theorem absIndex_lt {dims : List (Int × Int)} {idx : List Int} {k : Nat}
    (h : absIndex dims idx = some k) : k < dimsLen dims := by
  have hb := absIndex_inBox h
  rw [absIndex_of_inBox hb] at h
  have hr := flatLE_range _ _ ((inBox_reverse dims idx).mpr hb)
  rw [prodExt_reverse, ← dimsLen_eq_prodExt] at hr
  injection h with h
  omega

/-- Distinct index tuples denote distinct elements (mixed-radix uniqueness). -/
theorem absIndex_inj {dims : List (Int × Int)} {i j : List Int} {k : Nat}
    (hi : absIndex dims i = some k) (hj : absIndex dims j = some k) : i = j := by
  have bi := absIndex_inBox hi
  have bj := absIndex_inBox hj
  rw [absIndex_of_inBox bi] at hi
  rw [absIndex_of_inBox bj] at hj
  have ri := flatLE_range _ _ ((inBox_reverse dims i).mpr bi)
  have rj := flatLE_range _ _ ((inBox_reverse dims j).mpr bj)
  injection hi with hi
  injection hj with hj
  have he : flatLE dims.reverse i.reverse = flatLE dims.reverse j.reverse := by omega
  have := flatLE_inj _ _ _ ((inBox_reverse dims i).mpr bi) ((inBox_reverse dims j).mpr bj) he
  exact List.reverse_inj.mp this



/-! ### Onto, and the row-major formula -/

/-- The index tuple (least significant digit first) of a position. -/
def unflatLE : List (Int × Int) → Int → List Int
  | [], _ => []
  | (lb, ub) :: ds, k => (lb + k % (ub - lb + 1)) :: unflatLE ds (k / (ub - lb + 1))

theorem unflatLE_spec : ∀ (ds : List (Int × Int)) (k : Int), 0 ≤ k → k < (prodExt ds : Int) →
    InBox ds (unflatLE ds k) ∧ flatLE ds (unflatLE ds k) = k
  | [], k, h0, h1 => by
      simp only [prodExt] at h1
      simp only [unflatLE, InBox, flatLE, true_and]
      omega
  | (lb, ub) :: ds, k, h0, h1 => by
      simp only [prodExt, Int.natCast_mul] at h1
      have hpos : 0 < ub - lb + 1 := by
        apply Classical.byContradiction
        intro hn
        have : extent (lb, ub) = 0 := by simp only [extent]; omega
        rw [this] at h1
        simp at h1
        omega
      have he : ((extent (lb, ub) : Nat) : Int) = ub - lb + 1 := extent_cast_of_le (by omega)
      rw [he] at h1
      have hm0 : 0 ≤ k % (ub - lb + 1) := Int.emod_nonneg k (by omega)
      have hm1 : k % (ub - lb + 1) < ub - lb + 1 := Int.emod_lt_of_pos k hpos
      have hd0 : 0 ≤ k / (ub - lb + 1) := Int.ediv_nonneg h0 (by omega)
      have hd1 : k / (ub - lb + 1) < (prodExt ds : Int) :=
        Int.ediv_lt_of_lt_mul hpos (by rw [Int.mul_comm]; exact h1)
      obtain ⟨ih1, ih2⟩ := unflatLE_spec ds (k / (ub - lb + 1)) hd0 hd1
      simp only [unflatLE, InBox, flatLE, ih2]
      refine ⟨⟨by omega, by omega, ih1⟩, ?_⟩
      have := Int.emod_add_mul_ediv k (ub - lb + 1)
      omega

/-- **Onto**: every position `k < len` is the flat index of some index tuple.  With `absIndex_some_iff`,
`absIndex_lt` and `absIndex_inj`: `abs_index` is a bijection between the index box and `0 .. len-1`. -/
theorem absIndex_surj (dims : List (Int × Int)) (k : Nat) (h : k < dimsLen dims) :
    ∃ idx, absIndex dims idx = some k := by
  have hk : ((k : Nat) : Int) < (prodExt dims.reverse : Int) := by
    rw [prodExt_reverse, ← dimsLen_eq_prodExt]; omega
  obtain ⟨h1, h2⟩ := unflatLE_spec dims.reverse k (by omega) hk
  refine ⟨(unflatLE dims.reverse k).reverse, ?_⟩
  have hb : InBox dims (unflatLE dims.reverse k).reverse := by
    rw [← inBox_reverse, List.reverse_reverse]; exact h1
  rw [absIndex_of_inBox hb, List.reverse_reverse, h2]
  simp

/-- The usual row-major formula: `Σ (idx_i - lb_i) * Π_{j>i} extent_j`. -/
def rowMajor : List (Int × Int) → List Int → Int
  | (lb, _) :: ds, a :: as => (a - lb) * (prodExt ds : Int) + rowMajor ds as
  | _, _ => 0

theorem flatLE_append_single : ∀ (ds : List (Int × Int)) (as : List Int) (d : Int × Int) (a : Int),
    InBox ds as → flatLE (ds ++ [d]) (as ++ [a]) = flatLE ds as + (prodExt ds : Int) * (a - d.1)
  | [], [], (lb, ub), a, _ => by simp [flatLE, prodExt]
  | (l, u) :: es, b :: bs, d, a, h => by
      obtain ⟨h1, h2, h3⟩ := h
      have he : ((extent (l, u) : Nat) : Int) = u - l + 1 := extent_cast_of_le (by omega)
      simp only [List.cons_append, flatLE, flatLE_append_single es bs d a h3, prodExt, Int.natCast_mul, he]
      rw [Int.mul_add, Int.mul_assoc, Int.add_assoc]
  | [], _ :: _, _, _, h => h.elim
  | _ :: _, [], _, _, h => h.elim

theorem flatLE_reverse_eq_rowMajor : ∀ (ds : List (Int × Int)) (as : List Int),
    InBox ds as → flatLE ds.reverse as.reverse = rowMajor ds as
  | [], [], _ => by simp [flatLE, rowMajor]
  | (lb, ub) :: ds, a :: as, h => by
      obtain ⟨h1, h2, h3⟩ := h
      have h3' := (inBox_reverse ds as).mpr h3
      simp only [List.reverse_cons, flatLE_append_single _ _ _ _ h3', prodExt_reverse,
        flatLE_reverse_eq_rowMajor ds as h3, rowMajor]
      rw [Int.mul_comm, Int.add_comm]
  | [], _ :: _, h => h.elim
  | _ :: _, [], h => h.elim

/-- On the box `abs_index` is the row-major position. -/
theorem absIndex_rowMajor {dims : List (Int × Int)} {idx : List Int} (h : InBox dims idx) :
    absIndex dims idx = some (rowMajor dims idx).toNat := by
  rw [absIndex_of_inBox h, flatLE_reverse_eq_rowMajor dims idx h]


/-- `abs_index` answers `k` exactly when the tuple is in the box and `k` is its row-major position. -/
theorem absIndex_eq_some_iff (dims : List (Int × Int)) (idx : List Int) (k : Nat) :
    absIndex dims idx = some k ↔ InBox dims idx ∧ rowMajor dims idx = (k : Int) := by
  constructor
  · intro h
    have hb := absIndex_inBox h
    have hr := flatLE_range _ _ ((inBox_reverse dims idx).mpr hb)
    rw [flatLE_reverse_eq_rowMajor dims idx hb] at hr
    rw [absIndex_rowMajor hb] at h
    injection h with h
    exact ⟨hb, by omega⟩
  · rintro ⟨hb, hk⟩
    rw [absIndex_rowMajor hb, hk]
    simp


/-- The checked element count of `VArray::try_new` is the plain product whenever it answers, and it answers
(no Out of memory from counting) whenever every extent is non-negative and the product is below 2^64. -/
theorem dimsLenChecked_eq : ∀ (ds : List (Int × Int)) (acc n : Nat), dimsLenChecked ds acc = some n →
    n = acc * prodExt ds
  | [], acc, n, h => by simp only [dimsLenChecked, Option.some.injEq] at h; simp [prodExt, h]
  | (lb, ub) :: ds, acc, n, h => by
      simp only [dimsLenChecked] at h
      split at h
      · cases h
      · split at h
        · cases h
        · rw [dimsLenChecked_eq ds _ n h, prodExt, extent, Nat.mul_assoc]

theorem dimsLenChecked_some (ds : List (Int × Int)) (n : Nat) (h : dimsLenChecked ds 1 = some n) :
    n = dimsLen ds := by
  rw [dimsLenChecked_eq ds 1 n h, dimsLen_eq_prodExt, Nat.one_mul]

/-! ### The `i32` arithmetic of `abs_index` -/

theorem wrap32_id {x : Int} (h1 : -2147483648 ≤ x) (h2 : x < 2147483648) : wrap32 x = x := by
  unfold wrap32; omega

theorem prodExt_pos_of_inBox : ∀ {ds : List (Int × Int)} {as : List Int}, InBox ds as → 0 < prodExt ds
  | [], [], _ => by simp [prodExt]
  | (lb, ub) :: ds, a :: as, h => by
      have ih := prodExt_pos_of_inBox (ds := ds) (as := as) h.2.2
      have : 0 < extent (lb, ub) := by
        have h1 := h.1; have h2 := h.2.1
        simp only [extent]; omega
      simp only [prodExt]
      exact Nat.mul_pos this ih
  | [], _ :: _, h => h.elim
  | _ :: _, [], h => h.elim

theorem absLoop32_not_inBox : ∀ (ds : List (Int × Int)) (as : List Int) (index mult : Int),
    ¬ InBox ds as → absLoop32 ds as index mult = none
  | [], [], _, _, h => (h trivial).elim
  | (lb, ub) :: ds, a :: as, index, mult, h => by
      by_cases hc : a < lb ∨ a > ub
      · simp [absLoop32, hc]
      · simp only [absLoop32, hc, if_false]
        apply absLoop32_not_inBox ds as
        intro h3
        exact h ⟨by omega, by omega, h3⟩
  | [], _ :: _, _, _, _ => by simp [absLoop32]
  | _ :: _, [], _, _, _ => by simp [absLoop32]

/-- Loop invariant `0 ≤ index < multiplier`, `multiplier * (product of the remaining extents) < 2^31`:
no `i32` operation of the loop wraps. -/
theorem absLoop32_eq : ∀ (ds : List (Int × Int)) (as : List Int) (index mult : Int),
    InBox ds as → 0 ≤ index → index < mult → mult * (prodExt ds : Int) < 2147483648 →
    absLoop32 ds as index mult = absLoop ds as index mult
  | [], [], _, _, _, _, _, _ => by simp [absLoop32, absLoop]
  | (lb, ub) :: ds, a :: as, index, mult, h, h0, h1, h2 => by
      obtain ⟨b1, b2, b3⟩ := h
      have hn : ¬ (a < lb ∨ a > ub) := by omega
      have hP : (1 : Int) ≤ (prodExt ds : Int) := by
        have := prodExt_pos_of_inBox b3; omega
      have he : ((extent (lb, ub) : Nat) : Int) = ub - lb + 1 := extent_cast_of_le (by omega)
      simp only [prodExt, Int.natCast_mul, he] at h2
      rw [← Int.mul_assoc] at h2
      have hm : 1 ≤ mult := by omega
      have hX0 : 0 ≤ (a - lb) * mult := Int.mul_nonneg (by omega) (by omega)
      have hX1 : (a - lb) * mult ≤ (ub - lb) * mult :=
        Int.mul_le_mul_of_nonneg_right (by omega) (by omega)
      have hE : (ub - lb) * 1 ≤ (ub - lb) * mult :=
        Int.mul_le_mul_of_nonneg_left hm (by omega)
      have hY : mult * (ub - lb + 1) = (ub - lb) * mult + mult := by
        rw [Int.mul_add, Int.mul_one, Int.mul_comm]
      have hY0 : 0 ≤ mult * (ub - lb + 1) := Int.mul_nonneg (by omega) (by omega)
      have hZ : mult * (ub - lb + 1) * 1 ≤ mult * (ub - lb + 1) * (prodExt ds : Int) :=
        Int.mul_le_mul_of_nonneg_left hP hY0
      have w1 : wrap32 (a - lb) = a - lb := wrap32_id (by omega) (by omega)
      have w2 : wrap32 ((a - lb) * mult) = (a - lb) * mult := wrap32_id (by omega) (by omega)
      have w3 : wrap32 (index + (a - lb) * mult) = index + (a - lb) * mult := wrap32_id (by omega) (by omega)
      have w4 : wrap32 (ub - lb) = ub - lb := wrap32_id (by omega) (by omega)
      have w5 : wrap32 (ub - lb + 1) = ub - lb + 1 := wrap32_id (by omega) (by omega)
      have w6 : wrap32 (mult * (ub - lb + 1)) = mult * (ub - lb + 1) := wrap32_id (by omega) (by omega)
      simp only [absLoop32, absLoop, hn, if_false, w1, w2, w3, w4, w5, w6]
      exact absLoop32_eq ds as _ _ b3 (by omega) (by omega) h2
  | [], _ :: _, _, _, h, _, _, _ => h.elim
  | _ :: _, [], _, _, h, _, _, _ => h.elim

/-- **`i32` refinement**: when the array has fewer than 2^31 elements, the wrap-around arithmetic of the Rust
code never wraps and `abs_index` is the integer function the theorems above are about — for every index
tuple, in range or not. -/
theorem absIndex32_eq (dims : List (Int × Int)) (idx : List Int) (hlen : dimsLen dims < 2147483648) :
    absIndex32 dims idx = absIndex dims idx := by
  by_cases hb : InBox dims idx
  · have hb' := (inBox_reverse dims idx).mpr hb
    have hP : (1 : Int) * (prodExt dims.reverse : Int) < 2147483648 := by
      rw [prodExt_reverse, ← dimsLen_eq_prodExt]; omega
    have hr := flatLE_range _ _ hb'
    simp only [absIndex32, absIndex, absLoop32_eq _ _ 0 1 hb' (by omega) (by omega) hP,
      absLoop_inBox _ _ 0 1 hb', Option.map_some]
    simp only [Int.zero_add, Int.one_mul]
    have : ¬ (flatLE dims.reverse idx.reverse < 0) := by omega
    simp only [this, if_false]
  · have hb' : ¬ InBox dims.reverse idx.reverse := fun x => hb ((inBox_reverse dims idx).mp x)
    simp [absIndex32, absIndex, absLoop32_not_inBox _ _ 0 1 hb', absLoop_not_inBox _ _ 0 1 hb']

/-- Out-of-range detection does not depend on the hypothesis: the wrapped loop rejects exactly the tuples
outside the box, whatever the size of the array. -/
theorem absIndex32_none_iff (dims : List (Int × Int)) (idx : List Int) :
    absIndex32 dims idx = none ↔ ¬ InBox dims idx := by
  constructor
  · intro h hb
    have hb' := (inBox_reverse dims idx).mpr hb
    -- inside the box the loop never returns `none`
    have key : ∀ (ds : List (Int × Int)) (as : List Int) (i m : Int), InBox ds as → absLoop32 ds as i m ≠ none := by
      intro ds
      induction ds with
      | nil =>
        intro as i m hb
        cases as with
        | nil => simp [absLoop32]
        | cons _ _ => exact hb.elim
      | cons d ds ih =>
        intro as i m hb
        obtain ⟨lb, ub⟩ := d
        cases as with
        | nil => exact hb.elim
        | cons a as =>
          obtain ⟨b1, b2, b3⟩ := hb
          have hn : ¬ (a < lb ∨ a > ub) := by omega
          simp only [absLoop32, hn, if_false]
          exact ih as _ _ b3
    have := key _ _ 0 1 hb'
    simp only [absIndex32, Option.map_eq_none_iff] at h
    exact this h
  · intro hb
    have hb' : ¬ InBox dims.reverse idx.reverse := fun x => hb ((inBox_reverse dims idx).mp x)
    simp [absIndex32, absLoop32_not_inBox _ _ 0 1 hb']

/-! ### Element reads and writes -/

/-- The element vector has as many entries as the dimensions say (established by `VArray::new`,
preserved by every store). -/
def WF {α : Type} (a : VArray α) : Prop := a.elems.length = dimsLen a.dims

theorem new_wf {α : Type} (dims : List (Int × Int)) (d : α) : WF (VArray.new dims d) := by
  simp [WF, VArray.new]

/-- A store changes neither the declared dimensions nor the number of elements. -/
theorem set_preserves_dims {α : Type} {a a' : VArray α} {idx : List Int} {v : α}
    (h : setElem a idx v = some a') : a'.dims = a.dims ∧ a'.elems.length = a.elems.length := by
  unfold setElem at h
  split at h
  · split at h
    · injection h with h; subst h; simp
    · cases h
  · cases h

theorem set_preserves_wf {α : Type} {a a' : VArray α} {idx : List Int} {v : α}
    (h : setElem a idx v = some a') (wf : WF a) : WF a' := by
  obtain ⟨h1, h2⟩ := set_preserves_dims h
  simp only [WF] at *
  rw [h1, h2, wf]

/-- On a well-formed array a store succeeds exactly on the index box (otherwise: Subscript out of range). -/
theorem setElem_some_iff {α : Type} {a : VArray α} (wf : WF a) (idx : List Int) (v : α) :
    (∃ a', setElem a idx v = some a') ↔ InBox a.dims idx := by
  constructor
  · rintro ⟨a', h⟩
    unfold setElem at h
    split at h
    · rename_i k hk; exact absIndex_inBox hk
    · cases h
  · intro hb
    obtain ⟨k, hk⟩ := (absIndex_some_iff a.dims idx).mpr hb
    have hlt := absIndex_lt hk
    unfold setElem
    rw [hk]
    have : k < a.elems.length := by rw [wf]; exact hlt
    simp [this]

/-- On a well-formed array a read succeeds exactly on the index box. -/
theorem getElem_some_iff {α : Type} {a : VArray α} (wf : WF a) (idx : List Int) :
    (∃ v, Arr.getElem a idx = some v) ↔ InBox a.dims idx := by
  constructor
  · rintro ⟨v, h⟩
    unfold Arr.getElem at h
    split at h
    · rename_i k hk; exact absIndex_inBox hk
    · cases h
  · intro hb
    obtain ⟨k, hk⟩ := (absIndex_some_iff a.dims idx).mpr hb
    have hlt := absIndex_lt hk
    unfold Arr.getElem
    rw [hk]
    have : k < a.elems.length := by rw [wf]; exact hlt
    exact ⟨a.elems[k], by simp [this]⟩

/-- Reading the element just written yields the written value. -/
theorem get_set_same {α : Type} {a a' : VArray α} {idx : List Int} {v : α}
    (h : setElem a idx v = some a') : Arr.getElem a' idx = some v := by
  unfold setElem at h
  split at h
  · rename_i k hk
    split at h
    · rename_i hlt
      injection h with h; subst h
      simp [Arr.getElem, hk, hlt]
    · cases h
  · cases h

/-- A store leaves every other element alone: reading at any *other* index tuple gives what it gave before
(also the same error, if that tuple is out of range). -/
theorem get_set_other {α : Type} {a a' : VArray α} {idx idx' : List Int} {v : α}
    (h : setElem a idx v = some a') (hne : idx' ≠ idx) : Arr.getElem a' idx' = Arr.getElem a idx' := by
  unfold setElem at h
  split at h
  · rename_i k hk
    split at h
    · injection h with h; subst h
      simp only [Arr.getElem]
      cases hk' : absIndex a.dims idx' with
      | none => rfl
      | some k' =>
        have : k ≠ k' := by
          intro e; subst e
          exact hne (absIndex_inj hk' hk)
        simp [List.getElem?_set_ne this]
    · cases h
  · cases h

/-- A fresh array holds the default value at every position of the box. -/
theorem getElem_new {α : Type} {dims : List (Int × Int)} {idx : List Int} (d : α) (hb : InBox dims idx) :
    Arr.getElem (VArray.new dims d) idx = some d := by
  obtain ⟨k, hk⟩ := (absIndex_some_iff dims idx).mpr hb
  have hlt := absIndex_lt hk
  simp [Arr.getElem, VArray.new, hk, hlt]

/-- A sequence of stores (a store that fails with Subscript out of range leaves the array as it was). -/
def applyWrites {α : Type} (a : VArray α) : List (List Int × α) → VArray α
  | [] => a
  | (idx, v) :: ws => applyWrites ((setElem a idx v).getD a) ws

/-- Reference for reads after a sequence of stores: the value of the last store to that tuple, else `init`. -/
def lastWrite {α : Type} (init : α) (idx : List Int) : List (List Int × α) → α
  | [] => init
  | (i, v) :: ws => lastWrite (if i = idx then v else init) idx ws

theorem applyWrites_dims {α : Type} (a : VArray α) (ws : List (List Int × α)) :
    (applyWrites a ws).dims = a.dims ∧ (WF a → WF (applyWrites a ws)) := by
  induction ws generalizing a with
  | nil => simp [applyWrites]
  | cons w ws ih =>
    obtain ⟨i, v⟩ := w
    simp only [applyWrites]
    cases hs : setElem a i v with
    | none => simpa using ih a
    | some a' =>
      have h1 := set_preserves_dims hs
      have h2 := ih a'
      simp only [Option.getD_some]
      exact ⟨by rw [h2.1, h1.1], fun wf => h2.2 (set_preserves_wf hs wf)⟩

/-- **All write/read sequences**: after any sequence of stores, an in-range read returns the value of the last
store to exactly that index tuple, or what the array held before if there was none. -/
theorem read_after_writes {α : Type} (a : VArray α) (wf : WF a) (ws : List (List Int × α)) (idx : List Int)
    (init : α) (h0 : Arr.getElem a idx = some init) :
    Arr.getElem (applyWrites a ws) idx = some (lastWrite init idx ws) := by
  induction ws generalizing a init with
  | nil => simpa [applyWrites, lastWrite] using h0
  | cons w ws ih =>
    obtain ⟨i, v⟩ := w
    simp only [applyWrites, lastWrite]
    cases hs : setElem a i v with
    | none =>
      simp only [Option.getD_none]
      by_cases he : i = idx
      · subst he
        have hb := (getElem_some_iff wf i).mp ⟨init, h0⟩
        obtain ⟨a', ha'⟩ := (setElem_some_iff wf i v).mpr hb
        rw [ha'] at hs; cases hs
      · simp only [he, if_false]
        exact ih a wf init h0
    | some a' =>
      simp only [Option.getD_some]
      have wf' := set_preserves_wf hs wf
      by_cases he : i = idx
      · subst he
        simp only [if_true]
        exact ih a' wf' v (get_set_same hs)
      · simp only [he, if_false]
        apply ih a' wf' init
        rw [get_set_other hs (fun e => he e.symm)]
        exact h0

/-! ### LBOUND / UBOUND -/

/-- `LBOUND(a, i+1)` / `UBOUND(a, i+1)` of a freshly dimensioned array are the declared bounds of
dimension `i`; a dimension number outside `1..rank` is Subscript out of range (`none`). -/
theorem bounds_reported {α : Type} (dims : List (Int × Int)) (d : α) (i : Nat) :
    dimBounds (VArray.new dims d) i = dims[i]? ∧
    lbound (VArray.new dims d) (i + 1) = dims[i]?.map (·.1) ∧
    ubound (VArray.new dims d) (i + 1) = dims[i]?.map (·.2) := by
  have h : ((i : Int) + 1 > 0) := by omega
  have h2 : ((i : Int) + 1).toNat - 1 = i := by omega
  simp [dimBounds, lbound, ubound, VArray.new, h]

theorem bounds_nonpositive {α : Type} (a : VArray α) (n : Int) (h : n ≤ 0) :
    lbound a n = none ∧ ubound a n = none := by
  have : ¬ n > 0 := by omega
  simp [lbound, ubound, this]

theorem bounds_beyond_rank {α : Type} (a : VArray α) (n : Int) (h : n > a.dims.length) :
    lbound a n = none ∧ ubound a n = none := by
  have h1 : n > 0 := by omega
  have h2 : a.dims.length ≤ n.toNat - 1 := by omega
  simp [lbound, ubound, dimBounds, h1, List.getElem?_eq_none h2]

/-- Stores never change what LBOUND / UBOUND report. -/
theorem bounds_after_set {α : Type} {a a' : VArray α} {idx : List Int} {v : α}
    (h : setElem a idx v = some a') (n : Int) :
    lbound a' n = lbound a n ∧ ubound a' n = ubound a n ∧ ∀ i, dimBounds a' i = dimBounds a i := by
  have := (set_preserves_dims h).1
  simp [lbound, ubound, dimBounds, this]

/-- The reported bounds are the bounds `abs_index` checks: an index tuple is accepted iff each index lies
between `LBOUND` and `UBOUND` of its dimension. -/
theorem access_ok_iff_within_reported_bounds {α : Type} {a : VArray α} (wf : WF a) (idx : List Int) :
    (∃ v, Arr.getElem a idx = some v) ↔
      a.dims.length = idx.length ∧ ∀ (i : Nat) (h : i < idx.length),
        ∃ lb ub, lbound a (i + 1) = some lb ∧ ubound a (i + 1) = some ub ∧ lb ≤ idx[i] ∧ idx[i] ≤ ub := by
  rw [getElem_some_iff wf, inBox_iff_forall]
  constructor
  · rintro ⟨hl, hall⟩
    refine ⟨hl, ?_⟩
    intro i h
    have hi : i < a.dims.length := by omega
    have h1 : ((i : Int) + 1 > 0) := by omega
    have h2 : ((i : Int) + 1).toNat - 1 = i := by omega
    refine ⟨a.dims[i].1, a.dims[i].2, ?_, ?_, hall i hi h⟩ <;>
      simp [lbound, ubound, dimBounds, h1, hi]
  · rintro ⟨hl, hall⟩
    refine ⟨hl, ?_⟩
    intro i h₁ h₂
    obtain ⟨lb, ub, e1, e2, e3⟩ := hall i h₂
    have h1 : ((i : Int) + 1 > 0) := by omega
    have h2 : ((i : Int) + 1).toNat - 1 = i := by omega
    simp [lbound, ubound, dimBounds, h1, h₁] at e1 e2
    rw [e1, e2]; exact e3

/-! ### Records -/

theorem lookup_update_same {κ α : Type} [DecidableEq κ] : ∀ (l : List (κ × α)) (k : κ) (v : α) (l' : List (κ × α)),
    updateField l k v = some l' → lookupField l' k = some v
  | [], _, _, _, h => by simp [updateField] at h
  | (k', v') :: rest, k, v, l', h => by
      simp only [updateField] at h
      by_cases hk : k' = k
      · simp only [hk, if_true] at h
        injection h with h; subst h
        simp [lookupField]
      · simp only [hk, if_false] at h
        cases hr : updateField rest k v with
        | none => simp [hr] at h
        | some r =>
          simp only [hr, Option.map_some] at h
          injection h with h; subst h
          simp [lookupField, hk, lookup_update_same rest k v r hr]

theorem lookup_update_other {κ α : Type} [DecidableEq κ] : ∀ (l : List (κ × α)) (k k₂ : κ) (v : α) (l' : List (κ × α)),
    updateField l k v = some l' → k₂ ≠ k → lookupField l' k₂ = lookupField l k₂
  | [], _, _, _, _, h, _ => by simp [updateField] at h
  | (k', v') :: rest, k, k₂, v, l', h, hne => by
      simp only [updateField] at h
      by_cases hk : k' = k
      · simp only [hk, if_true] at h
        injection h with h; subst h
        have : ¬ k = k₂ := fun e => hne e.symm
        simp [lookupField, hk, this]
      · simp only [hk, if_false] at h
        cases hr : updateField rest k v with
        | none => simp [hr] at h
        | some r =>
          simp only [hr, Option.map_some] at h
          injection h with h; subst h
          simp [lookupField, lookup_update_other rest k k₂ v r hr hne]

theorem update_keys {κ α : Type} [DecidableEq κ] : ∀ (l : List (κ × α)) (k : κ) (v : α) (l' : List (κ × α)),
    updateField l k v = some l' → l'.map (·.1) = l.map (·.1)
  | [], _, _, _, h => by simp [updateField] at h
  | (k', v') :: rest, k, v, l', h => by
      simp only [updateField] at h
      by_cases hk : k' = k
      · subst hk
        simp at h
        subst h; simp
      · simp only [hk, if_false] at h
        cases hr : updateField rest k v with
        | none => simp [hr] at h
        | some r =>
          simp only [hr, Option.map_some] at h
          injection h with h; subst h
          simp [update_keys rest k v r hr]

theorem update_some_iff {κ α : Type} [DecidableEq κ] : ∀ (l : List (κ × α)) (k : κ) (v : α),
    (∃ l', updateField l k v = some l') ↔ ∃ w, lookupField l k = some w
  | [], _, _ => by simp [updateField, lookupField]
  | (k', v') :: rest, k, v => by
      by_cases hk : k' = k
      · subst hk; simp [updateField, lookupField]
      · have ih := update_some_iff rest k v
        simp only [updateField, lookupField, hk, if_false]
        constructor
        · rintro ⟨l', h⟩
          cases hr : updateField rest k v with
          | none => simp [hr] at h
          | some r => exact ih.mp ⟨r, hr⟩
        · intro h
          obtain ⟨r, hr⟩ := ih.mpr h
          exact ⟨(k', v') :: r, by simp [hr]⟩

/-- Reading the field just written yields the written value (field names compare case-insensitively). -/
theorem field_get_set_same {α : Type} {r r' : Rec α} {name name' : List Char} {v : α}
    (h : setField r name v = some r') (hn : foldName name' = foldName name) : getField r' name' = some v := by
  unfold setField at h
  cases hu : updateField r.fields (foldName name) v with
  | none => simp [hu] at h
  | some l =>
    simp only [hu, Option.map_some] at h
    injection h with h; subst h
    simp only [getField, hn]
    exact lookup_update_same _ _ _ _ hu

/-- A store into one field leaves every other field alone. -/
theorem field_get_set_other {α : Type} {r r' : Rec α} {name other : List Char} {v : α}
    (h : setField r name v = some r') (hn : foldName other ≠ foldName name) :
    getField r' other = getField r other := by
  unfold setField at h
  cases hu : updateField r.fields (foldName name) v with
  | none => simp [hu] at h
  | some l =>
    simp only [hu, Option.map_some] at h
    injection h with h; subst h
    simp only [getField]
    exact lookup_update_other _ _ _ _ _ hu hn

/-- A store never adds, removes or reorders fields. -/
theorem field_set_preserves_names {α : Type} {r r' : Rec α} {name : List Char} {v : α}
    (h : setField r name v = some r') : r'.names = r.names := by
  unfold setField at h
  cases hu : updateField r.fields (foldName name) v with
  | none => simp [hu] at h
  | some l =>
    simp only [hu, Option.map_some] at h
    injection h with h; subst h
    exact update_keys _ _ _ _ hu

/-- A field can be written exactly when it can be read (i.e. when the TYPE declares it). -/
theorem field_set_some_iff {α : Type} (r : Rec α) (name : List Char) (v : α) :
    (∃ r', setField r name v = some r') ↔ ∃ w, getField r name = some w := by
  simp only [setField, getField, ← update_some_iff r.fields (foldName name) v]
  constructor
  · rintro ⟨r', h⟩
    cases hu : updateField r.fields (foldName name) v with
    | none => simp [hu] at h
    | some l => exact ⟨l, rfl⟩
  · rintro ⟨l, hl⟩
    exact ⟨⟨l⟩, by simp [hl]⟩

theorem lookup_insert_same {κ α : Type} [DecidableEq κ] : ∀ (l : List (κ × α)) (k : κ) (v : α),
    lookupField (insertField l k v) k = some v
  | [], k, v => by simp [insertField, lookupField]
  | (k', v') :: rest, k, v => by
      by_cases hk : k' = k
      · simp [insertField, lookupField, hk]
      · simp [insertField, lookupField, hk, lookup_insert_same rest k v]

theorem lookup_insert_other {κ α : Type} [DecidableEq κ] : ∀ (l : List (κ × α)) (k k₂ : κ) (v : α),
    k₂ ≠ k → lookupField (insertField l k v) k₂ = lookupField l k₂
  | [], k, k₂, v, h => by
      have : ¬ k = k₂ := fun e => h e.symm
      simp [insertField, lookupField, this]
  | (k', v') :: rest, k, k₂, v, h => by
      by_cases hk : k' = k
      · have : ¬ k = k₂ := fun e => h e.symm
        simp [insertField, lookupField, hk, this]
      · by_cases hk2 : k' = k₂
        · subst hk2; simp [insertField, lookupField, hk]
        · simp [insertField, lookupField, hk, hk2, lookup_insert_other rest k k₂ v h]

/-- Allocation (`UserDefinedTypeValue::new`): a record built from fields with pairwise different (folded)
names holds each given value under its name. -/
theorem getField_new {α : Type} (arr : List (List Char × α)) (name : List Char) (v : α)
    (hmem : (name, v) ∈ arr)
    (hnodup : (arr.map (fun p => foldName p.1)).Nodup) :
    getField (Rec.new arr) name = some v := by
  simp only [getField, Rec.new]
  -- generalise the accumulator
  suffices H : ∀ (acc : List (List Char × α)) (arr : List (List Char × α)),
      (arr.map (fun p => foldName p.1)).Nodup →
      ((name, v) ∈ arr ∨ (lookupField acc (foldName name) = some v ∧ ∀ p ∈ arr, foldName p.1 ≠ foldName name)) →
      lookupField (arr.foldl (fun acc p => insertField acc (foldName p.1) p.2) acc) (foldName name) = some v from
    H [] arr hnodup (Or.inl hmem)
  intro acc arr
  induction arr generalizing acc with
  | nil =>
    intro _ h
    rcases h with h | h
    · cases h
    · simpa using h.1
  | cons p ps ih =>
    intro hnd h
    simp only [List.map_cons, List.nodup_cons] at hnd
    simp only [List.foldl_cons]
    apply ih _ hnd.2
    rcases h with h | h
    · rcases List.mem_cons.mp h with h | h
      · subst h
        right
        refine ⟨lookup_insert_same _ _ _, ?_⟩
        intro q hq e
        exact hnd.1 (by rw [← e]; exact List.mem_map.mpr ⟨q, hq, rfl⟩)
      · left; exact h
    · right
      have hp : foldName p.1 ≠ foldName name := h.2 p (List.mem_cons_self ..)
      refine ⟨?_, fun q hq => h.2 q (List.mem_cons_of_mem _ hq)⟩
      rw [lookup_insert_other _ _ _ _ (fun e => hp e.symm)]
      exact h.1

/-! ### Fixed-length strings -/

theorem popLoop_eq_take (s : List Char) (n : Nat) : popLoop s n = s.take n := by
  fun_induction popLoop s n with
  | case1 s h ih =>
    rw [ih, List.dropLast_eq_take, List.take_take]
    congr 1; omega
  | case2 s h => rw [List.take_of_length_le (by omega)]

theorem pushLoop_eq_pad (s : List Char) (n : Nat) :
    pushLoop s n = s ++ List.replicate (n - s.length) ' ' := by
  fun_induction pushLoop s n with
  | case1 s h ih =>
    rw [ih, List.append_assoc]
    congr 1
    have : n - s.length = (n - (s ++ [' ']).length) + 1 := by simp; omega
    rw [this, List.replicate_succ]
    simp
  | case2 s h =>
    have : n - s.length = 0 := by omega
    simp [this]

/-- Closed form of `fix_length`: cut at the first NUL, keep at most `n` characters, pad with spaces. -/
theorem fixLength_eq (s : List Char) (n : Nat) :
    fixLength s n = (cutNul s).take n ++ List.replicate (n - (cutNul s).length) ' ' := by
  simp only [fixLength, popLoop_eq_take, pushLoop_eq_pad, List.length_take]
  congr 2
  omega

/-- **A `STRING * n` value always has exactly `n` characters** — for every string, whatever its characters. -/
theorem fixLength_length (s : List Char) (n : Nat) : (fixLength s n).length = n := by
  simp only [fixLength_eq, List.length_append, List.length_take, List.length_replicate]
  omega

/-- Content, first part: the characters that fit are those of the assigned string (up to its first NUL). -/
theorem fixLength_prefix (s : List Char) (n : Nat) :
    (fixLength s n).take (min n (cutNul s).length) = (cutNul s).take n := by
  rw [fixLength_eq, List.take_append_of_le_length (by simp), List.take_take]
  by_cases h : n ≤ (cutNul s).length
  · congr 1; omega
  · rw [List.take_of_length_le (by omega), List.take_of_length_le (by omega)]

/-- Content, second part: everything after the assigned characters is a space. -/
theorem fixLength_pad (s : List Char) (n i : Nat) (h1 : (cutNul s).length ≤ i) (h2 : i < n) :
    (fixLength s n)[i]? = some ' ' := by
  rw [fixLength_eq]
  have hl : ((cutNul s).take n).length ≤ i := by simp; omega
  rw [List.getElem?_append_right hl]
  simp only [List.length_take]
  rw [List.getElem?_replicate]
  have : i - min n (cutNul s).length < n - (cutNul s).length := by omega
  simp [this]

/-- Position by position: character `i < n` of the result is character `i` of the NUL-cut source if there is one,
else a space. -/
theorem fixLength_getElem (s : List Char) (n i : Nat) (h : i < n) :
    (fixLength s n)[i]? = some ((cutNul s)[i]?.getD ' ') := by
  by_cases hi : i < (cutNul s).length
  · rw [fixLength_eq, List.getElem?_append_left (by simp; omega)]
    simp [h, hi]
  · rw [fixLength_pad s n i (by omega) h]
    simp [List.getElem?_eq_none (Nat.le_of_not_lt hi)]

theorem cutNul_no_nul : ∀ (s : List Char), Char.ofNat 0 ∉ cutNul s
  | [] => by simp [cutNul]
  | c :: cs => by
      by_cases h : c = Char.ofNat 0
      · simp [cutNul, h]
      · have := cutNul_no_nul cs
        simp only [cutNul, h, if_false, List.mem_cons, not_or]
        exact ⟨fun e => h e.symm, this⟩

theorem cutNul_of_no_nul : ∀ (s : List Char), Char.ofNat 0 ∉ s → cutNul s = s
  | [], _ => rfl
  | c :: cs, h => by
      simp only [List.mem_cons, not_or] at h
      have hc : ¬ c = Char.ofNat 0 := fun e => h.1 e.symm
      simp [cutNul, hc, cutNul_of_no_nul cs h.2]

theorem cutNul_prefix : ∀ (s : List Char), cutNul s <+: s
  | [] => by simp [cutNul]
  | c :: cs => by
      by_cases h : c = Char.ofNat 0
      · simp [cutNul, h]
      · simp only [cutNul, h, if_false]
        exact (List.prefix_cons_inj c).mpr (cutNul_prefix cs)

/-- A fixed-length value never contains a NUL. -/
theorem fixLength_no_nul (s : List Char) (n : Nat) : Char.ofNat 0 ∉ fixLength s n := by
  rw [fixLength_eq]
  intro h
  rcases List.mem_append.mp h with h | h
  · exact cutNul_no_nul s (List.mem_of_mem_take h)
  · have := (List.mem_replicate.mp h).2
    revert this; decide

/-- Storing a value that already went through `FixLength n` again (the write-back after a by-reference
call, `generate_fix_string_length`) does not change it. -/
theorem fixLength_idem (s : List Char) (n : Nat) : fixLength (fixLength s n) n = fixLength s n := by
  have h0 := fixLength_no_nul s n
  have hl := fixLength_length s n
  rw [fixLength_eq (fixLength s n) n, cutNul_of_no_nul _ h0, hl]
  simp [List.take_of_length_le (Nat.le_of_eq hl)]

/-- A string of exactly `n` NUL-free characters is stored unchanged. -/
theorem fixLength_exact (s : List Char) (h : Char.ofNat 0 ∉ s) : fixLength s s.length = s := by
  rw [fixLength_eq, cutNul_of_no_nul s h]
  simp

/-! ### F13 (pinned tree): the byte-counting `fix_length` did not keep the length -/

/-- The property "exactly `n` characters" as a statement about the pinned tree's `fix_length`. -/
def FixLengthBytesExact : Prop := ∀ (s : List Char) (n : Nat), (fixLengthBytes s n).length = n

/-- F13 witness: `DIM A AS STRING * 3 : A = CHR$(200) + "ab"` gave 2 characters on the pinned tree
(`CHR$(200)` is one character, two UTF-8 bytes).  Repaired by the `fix:` commit; `fixLength` above is the
repaired function and satisfies `fixLength_length` for every string. -/
theorem fixLengthBytes_not_exact : ¬ FixLengthBytesExact := by
  intro h
  have := h [Char.ofNat 200, 'a', 'b'] 3
  revert this
  decide


/-! ### The hypotheses are satisfiable (non-trivial instances) -/

/-- `DIM A(-2 TO 1, 3 TO 4)`: 8 elements; `A(0, 4)` is element 5; `A(2, 3)` and `A(0, 5)` are out of range. -/
example : dimsLen [(-2, 1), (3, 4)] = 8 := by decide
example : InBox [(-2, 1), (3, 4)] [0, 4] := by decide
example : absIndex [(-2, 1), (3, 4)] [0, 4] = some 5 := by decide
example : absIndex32 [(-2, 1), (3, 4)] [0, 4] = some 5 := by decide
example : ¬ InBox [(-2, 1), (3, 4)] [2, 3] := by decide
example : absIndex [(-2, 1), (3, 4)] [0, 5] = none := by decide
example : WF (VArray.new [(-2, 1), (3, 4)] (0 : Int)) := new_wf _ _
example : ∃ a', setElem (VArray.new [(-2, 1), (3, 4)] (0 : Int)) [0, 4] 7 = some a' :=
  (setElem_some_iff (new_wf _ _) _ _).mpr (by decide)
example : dimsLen [(-2, 1), (3, 4)] < 2147483648 := by decide
example : dimsLenChecked [(-2, 1), (3, 4)] 1 = some 8 := by decide
/-- `DIM A(-32768 TO 32767, …)` four times: 2^64 elements cannot be counted: Out of memory -/
example : dimsLenChecked [(-32768, 32767), (-32768, 32767), (-32768, 32767), (-32768, 32767)] 1 = none := by decide
/-- a record with two fields; `setField` through a differently cased name -/
example : ∃ r', setField (Rec.new [(['a', 'b'], (1 : Int)), (['C'], 2)]) ['A', 'b'] 5 = some r' :=
  (field_set_some_iff _ _ _).mpr ⟨1, by decide⟩
example : foldName ['c'] ≠ foldName ['A', 'B'] := by decide
/-- truncation, padding and the NUL cut on a string with a character above 127 -/
example : fixLength [Char.ofNat 200, 'a', 'b', 'c'] 3 = [Char.ofNat 200, 'a', 'b'] := by
  rw [fixLength_eq]; decide
example : fixLength ['a', Char.ofNat 0, 'b'] 3 = ['a', ' ', ' '] := by
  rw [fixLength_eq]; decide

end RbThm.C04
