import Thm.C01SimBase
/-!
C01, simulation part: the block IF statement (`IF … THEN … ELSEIF … ELSE … END IF`).

Every arm (the first one and each ELSEIF arm) has the shape `<cond>; JumpIfFalse next; <body>; Jump endOff`;
`ifs_correct` treats one arm against one `.ifs` node of the desugared statement, `elifs_correct` walks the ELSEIF
chain by structural recursion (one unit of fuel per arm), `case_if` puts the first arm, the chain, the optional
ELSE part and the closing `end-if` label together.

Convention: `StmtSpec code 0 tgt σ s r` is used as "what `r` prescribes, arriving at address `tgt` on a normal end".
-/
namespace RbThm.C01Sim
set_option linter.unusedVariables false
set_option linter.unusedSimpArgs false
open RbModel RbModel.Num RbModel.Ast RbModel.Src RbModel.Core RbModel.CoreVm RbModel.Ref
open RbThm.C01Len

/-! ### moving a `StmtSpec` around -/

/-- successful steps that leave the stacks alone may be put in front -/
theorem spec_prefix {code : Code} {n off : Nat} {σ σ' : Vm} {s : St} (r : St × Outcome)
    (st : Steps code σ σ') (hss : SameStacks σ σ') (h : StmtSpec code n off σ' s r) :
    StmtSpec code n off σ s r := by
  obtain ⟨s', o⟩ := r
  cases o with
  | normal =>
    simp only [StmtSpec] at h ⊢
    obtain ⟨τ, st2, hp, hrel, hss2, hlen⟩ := h
    exact ⟨τ, st.trans st2, hp, hrel, hss.trans hss2, hlen⟩
  | halted =>
    simp only [StmtSpec] at h ⊢
    obtain ⟨τ, υ, st2, hh, hrel⟩ := h
    exact ⟨τ, υ, st.trans st2, hh, hrel⟩
  | error c q =>
    simp only [StmtSpec] at h ⊢
    obtain ⟨ev, h⟩ := h
    exact ⟨ev, ErrsWith.of_steps st h⟩
  | inexact => simp [StmtSpec]
  | outOfFuel => simp [StmtSpec]

/-- only the end address `off + n` matters -/
theorem spec_addr {code : Code} {n off n' off' : Nat} {σ : Vm} {s : St} (r : St × Outcome)
    (e : off + n = off' + n') (h : StmtSpec code n off σ s r) : StmtSpec code n' off' σ s r := by
  obtain ⟨s', o⟩ := r
  cases o with
  | normal =>
    simp only [StmtSpec] at h ⊢
    obtain ⟨τ, st, hp, hrel, hss, hlen⟩ := h
    exact ⟨τ, st, by omega, hrel, hss, hlen⟩
  | halted => simpa [StmtSpec] using h
  | error c q => simpa [StmtSpec] using h
  | inexact => simp [StmtSpec]
  | outOfFuel => simp [StmtSpec]

/-- a `Jump tgt` after the statement: a normal end arrives at `tgt` -/
theorem spec_then_jump {code : Code} {n off tgt : Nat} {p : Pos} {σ : Vm} {s : St} (r : St × Outcome)
    (h : StmtSpec code n off σ s r) (hj : code[off + n]? = some (CInstr.jump tgt, p)) :
    StmtSpec code 0 tgt σ s r := by
  obtain ⟨s', o⟩ := r
  cases o with
  | normal =>
    simp only [StmtSpec] at h ⊢
    obtain ⟨τ, st, hp, hrel, hss, hlen⟩ := h
    have hj' : code[τ.pc]? = some (CInstr.jump tgt, p) := by rw [hp]; exact hj
    let τ1 : Vm := { τ with pc := tgt }
    have s1 : CoreVm.step code τ = .next τ1 := by simp only [CoreVm.step, hj']; rfl
    exact ⟨τ1, st.trans (Steps.one s1), rfl,
      rel_of _ _ hrel.env hrel.out hrel.skip hrel.data hrel.dataIdx hrel.queue,
      hss.trans ⟨rfl, rfl, rfl⟩, hlen⟩
  | halted => simpa [StmtSpec] using h
  | error c q => simpa [StmtSpec] using h
  | inexact => simp [StmtSpec]
  | outOfFuel => simp [StmtSpec]

/-- a label after the statement: a normal end steps over it -/
theorem spec_then_label {code : Code} {n off : Nat} {name : String} {p : Pos} {σ : Vm} {s : St} (r : St × Outcome)
    (h : StmtSpec code n off σ s r) (hl : code[off + n]? = some (CInstr.label name, p)) :
    StmtSpec code (n + 1) off σ s r := by
  obtain ⟨s', o⟩ := r
  cases o with
  | normal =>
    simp only [StmtSpec] at h ⊢
    obtain ⟨τ, st, hp, hrel, hss, hlen⟩ := h
    have hl' : code[τ.pc]? = some (CInstr.label name, p) := by rw [hp]; exact hl
    have s1 : CoreVm.step code τ = .next (advance τ) := by simp only [CoreVm.step, hl']
    exact ⟨advance τ, st.trans (Steps.one s1), by simp [advance, hp]; omega,
      rel_of _ _ hrel.env hrel.out hrel.skip hrel.data hrel.dataIdx hrel.queue,
      hss.trans ⟨rfl, rfl, rfl⟩, hlen⟩
  | halted => simpa [StmtSpec] using h
  | error c q => simpa [StmtSpec] using h
  | inexact => simp [StmtSpec]
  | outOfFuel => simp [StmtSpec]

theorem rel_afterExpr {s : St} {σ : Vm} (hr : Rel s σ) (pc : Nat) (v b : Val) : Rel s (afterExpr σ pc v b) :=
  rel_of _ _ hr.env hr.out hr.skip hr.data hr.dataIdx hr.queue

theorem rel_advance {s : St} {σ : Vm} (hr : Rel s σ) : Rel s (advance σ) :=
  rel_of _ _ hr.env hr.out hr.skip hr.data hr.dataIdx hr.queue

/-! ### one arm -/

/-- one arm `<cond>; JumpIfFalse next; <body>; Jump endOff` against one `.ifs` node: the true branch runs the body
(at fuel `f`, by the statement IH) and jumps to `endOff`; the false branch continues at `next` with whatever `hels`
says about the rest -/
theorem ifs_correct (code : Code) (fuel f : Nat) (ih : StmtIHle code fuel) (hf : f ≤ fuel) (c : Ast.Expr)
    (body : SStmt) (els : Stmt) (sfx : String) (p : Pos) (off next endOff : Nat) (σ : Vm) (s : St)
    (hc : CodeAt code off (compileExpr c ++ [(CInstr.jumpIfFalse next, p)] ++
      compileStmt sfx (off + (compileExpr c).length + 1) body ++ [(CInstr.jump endOff, p)]))
    (hpc : σ.pc = off) (hr : Rel s σ) (sl : List Ty) (hsc : SlotsBelow sl.length c) (hnc : NumericCond sl c)
    (hwb : Wf sl body) (hty : Typed sl s.env)
    (hels : ∀ τ : Vm, τ.pc = next → Rel s τ → StmtSpec code 0 endOff τ s (exec f els s)) :
    StmtSpec code 0 endOff σ s (exec (f + 1) (.ifs c (desugar body) els p) s) := by
  have hcond := cond_correct code c next p off σ hc.append_left.append_left hpc
    (by rw [hr.env, hty.len]; exact hsc) (by rw [hr.env]; exact hnc _ hty)
  rw [hr.env, hr.out] at hcond
  simp only [exec]
  cases hec : evalCond s.env c with
  | error o =>
    simp only [hec] at hcond
    cases o with
    | error cd q =>
      simp only [StmtSpec]
      exact ⟨s.env, hcond⟩
    | normal => rcases evalCond_error_kind hec with ⟨_, _, h⟩ | h <;> cases h
    | halted => rcases evalCond_error_kind hec with ⟨_, _, h⟩ | h <;> cases h
    | inexact => simp [StmtSpec]
    | outOfFuel => rcases evalCond_error_kind hec with ⟨_, _, h⟩ | h <;> cases h
  | ok bv =>
    simp only [hec] at hcond
    cases bv with
    | false =>
      obtain ⟨v, b, st⟩ := hcond
      exact spec_prefix _ st ⟨rfl, rfl, rfl⟩ (hels _ rfl (rel_afterExpr hr _ v b))
    | true =>
      obtain ⟨v, b, st⟩ := hcond
      have hcb : CodeAt code (off + (compileExpr c).length + 1)
          (compileStmt sfx (off + (compileExpr c).length + 1) body) := by
        have := hc.append_left.append_right
        simp only [List.length_append, List.length_singleton] at this
        have e : off + ((compileExpr c).length + 1) = off + (compileExpr c).length + 1 := by omega
        rw [e] at this
        exact this
      have hb := ih f hf body sfx _ (afterExpr σ (off + (compileExpr c).length + 1) v b) s sl hcb rfl
        (rel_afterExpr hr _ v b) hwb hty
      have hj : code[off + (compileExpr c).length + 1 + sizeStmt body]? = some (CInstr.jump endOff, p) := by
        have := hc.append_right.head
        simp only [List.length_append, List.length_singleton, len_stmt] at this
        rw [← this]; congr 1; omega
      exact spec_prefix _ st ⟨rfl, rfl, rfl⟩ (spec_then_jump _ hb hj)

/-! ### the ELSEIF chain -/

/-- running from the label of arm `i` does what the nested `.ifs` chain prescribes and, on a normal end, arrives at
`endOff`; `helse` says what happens once the chain is exhausted and control is at `elseOff` -/
theorem elifs_correct (code : Code) (fuel : Nat) (ih : StmtIHle code fuel) (sfx : String) (p : Pos)
    (endOff elseOff : Nat) (els : SStmt) (sl : List Ty)
    (helse : ∀ f, f ≤ fuel → ∀ (σ : Vm) (s : St), σ.pc = elseOff → Rel s σ → Typed sl s.env →
      StmtSpec code 0 endOff σ s (exec f (desugar els) s)) :
    ∀ (elifs : ElseIfs) (f : Nat), f ≤ fuel → ∀ (off i : Nat) (σ : Vm) (s : St),
      CodeAt code off (compileElifs sfx p endOff elseOff off i elifs) → off + sizeElifs elifs = elseOff →
      σ.pc = off → Rel s σ → WfElifs sl elifs → Typed sl s.env →
      StmtSpec code 0 endOff σ s (exec f (desugarElifs elifs (desugar els) p) s)
  | .nil, f, hf, off, i, σ, s, hc, he, hpc, hr, hw, hty => by
    simp only [desugarElifs]
    simp only [sizeElifs] at he
    exact helse f hf σ s (by omega) hr hty
  | .cons c body rest, f, hf, off, i, σ, s, hc, he, hpc, hr, hw, hty => by
    cases f with
    | zero => simp [desugarElifs, exec, StmtSpec]
    | succ f' =>
      simp only [desugarElifs]
      simp only [compileElifs] at hc
      simp only [WfElifs] at hw
      obtain ⟨hsc, hnc, hwb, hwr⟩ := hw
      simp only [sizeElifs] at he
      subst hpc
      have hlab : code[σ.pc]? = some (CInstr.label (labelName ("else-if-" ++ toString i) p sfx), p) :=
        hc.append_left.append_left.append_left.append_left.append_left.head
      have s1 : CoreVm.step code σ = .next (advance σ) := by simp only [CoreVm.step, hlab]
      have harm : CodeAt code (σ.pc + 1) (compileExpr c ++
          [(CInstr.jumpIfFalse (σ.pc + 1 + (compileExpr c).length + 1 + sizeStmt body + 1), p)] ++
          compileStmt sfx (σ.pc + 1 + (compileExpr c).length + 1) body ++ [(CInstr.jump endOff, p)]) := by
        have h := hc.append_left
        have h' : CodeAt code σ.pc ([(CInstr.label (labelName ("else-if-" ++ toString i) p sfx), p)] ++
            (compileExpr c ++
              [(CInstr.jumpIfFalse (σ.pc + 1 + (compileExpr c).length + 1 + sizeStmt body + 1), p)] ++
              compileStmt sfx (σ.pc + 1 + (compileExpr c).length + 1) body ++ [(CInstr.jump endOff, p)])) := by
          simpa only [List.append_assoc] using h
        have := h'.append_right
        simpa only [List.length_singleton] using this
      have hcr : CodeAt code (σ.pc + 1 + (compileExpr c).length + 1 + sizeStmt body + 1)
          (compileElifs sfx p endOff elseOff (σ.pc + 1 + (compileExpr c).length + 1 + sizeStmt body + 1) (i + 1)
            rest) := by
        have := hc.append_right
        simp only [List.length_append, List.length_singleton, len_stmt] at this
        have e : σ.pc + (1 + (compileExpr c).length + 1 + sizeStmt body + 1) =
            σ.pc + 1 + (compileExpr c).length + 1 + sizeStmt body + 1 := by omega
        rw [e] at this
        exact this
      refine spec_prefix _ (Steps.one s1) ⟨rfl, rfl, rfl⟩ ?_
      refine ifs_correct code fuel f' ih (by omega) c body _ sfx p (σ.pc + 1) _ endOff (advance σ) s harm rfl
        (rel_advance hr) sl hsc hnc hwb hty ?_
      intro τ hτ hrτ
      exact elifs_correct code fuel ih sfx p endOff elseOff els sl helse rest f' (by omega) _ (i + 1) τ s hcr
        (by omega) hτ hrτ hwr hty

/-! ### the statement -/

theorem case_if (code : Code) (fuel : Nat) (ih : StmtIHle code fuel) (htp : ExecTyped) (c : Ast.Expr) (thn : SStmt)
    (elifs : ElseIfs) (hasElse : Bool) (els : SStmt) (p : Pos) (sfx : String) (off : Nat) (σ : Vm) (s : St)
    (hc : CodeAt code off (compileStmt sfx off (.ifBlock c thn elifs hasElse els p))) (hpc : σ.pc = off) (hr : Rel s σ)
    (sl : List Ty) (hw : Wf sl (.ifBlock c thn elifs hasElse els p)) (hty : Typed sl s.env) :
    StmtSpec code (sizeStmt (.ifBlock c thn elifs hasElse els p)) off σ s
      (exec (fuel + 1) (desugar (.ifBlock c thn elifs hasElse els p)) s) := by
  simp only [Wf] at hw
  obtain ⟨hsc, hnc, hwt, hwe, hwels, hnoelse⟩ := hw
  cases hasElse with
  | false =>
    have hskip : els = .skip := hnoelse rfl
    subst hskip
    simp only [compileStmt, Bool.false_eq_true, if_false, Nat.add_zero, List.append_nil] at hc
    simp only [desugar, sizeStmt, Bool.false_eq_true, if_false, Nat.add_zero]
    have harm := hc.append_left.append_left
    have hend : code[off + (compileExpr c).length + 1 + sizeStmt thn + 1 + sizeElifs elifs + 0]? =
        some (CInstr.label (labelName "end-if" p sfx), p) := by
      have := hc.append_right.head
      simp only [List.length_append, List.length_singleton, len_stmt, len_elifs] at this
      rw [← this]; congr 1; omega
    have hce : CodeAt code (off + (compileExpr c).length + 1 + sizeStmt thn + 1)
        (compileElifs sfx p (off + (compileExpr c).length + 1 + sizeStmt thn + 1 + sizeElifs elifs)
          (off + (compileExpr c).length + 1 + sizeStmt thn + 1 + sizeElifs elifs)
          (off + (compileExpr c).length + 1 + sizeStmt thn + 1) 0 elifs) := by
      have := hc.append_left.append_right
      simp only [List.length_append, List.length_singleton, len_stmt] at this
      have e : off + ((compileExpr c).length + 1 + sizeStmt thn + 1) =
          off + (compileExpr c).length + 1 + sizeStmt thn + 1 := by omega
      rw [e] at this
      exact this
    refine spec_addr _ (by omega) (spec_then_label _ ?_ hend)
    refine ifs_correct code fuel fuel ih (Nat.le_refl _) c thn _ sfx p off _ _ σ s harm hpc hr sl hsc hnc hwt hty ?_
    intro τ hτ hrτ
    refine elifs_correct code fuel ih sfx p _ _ .skip sl ?_ elifs fuel (Nat.le_refl _) _ 0 τ s hce rfl hτ hrτ hwe hty
    intro f hf σ' s' hpc' hr' hty'
    cases f with
    | zero => simp [exec, StmtSpec]
    | succ f' =>
      simp only [desugar, exec, StmtSpec]
      exact ⟨σ', Steps.refl σ', by omega, hr', SameStacks.refl σ', trivial⟩
  | true =>
    simp only [compileStmt, if_true] at hc
    simp only [desugar, sizeStmt, if_true]
    have harm := hc.append_left.append_left.append_left
    have hend : code[off + (compileExpr c).length + 1 + sizeStmt thn + 1 + sizeElifs elifs + (1 + sizeStmt els) + 0]? =
        some (CInstr.label (labelName "end-if" p sfx), p) := by
      have := hc.append_right.head
      simp only [List.length_append, List.length_singleton, len_stmt, len_elifs] at this
      rw [← this]; congr 1; omega
    have hce : CodeAt code (off + (compileExpr c).length + 1 + sizeStmt thn + 1)
        (compileElifs sfx p (off + (compileExpr c).length + 1 + sizeStmt thn + 1 + sizeElifs elifs + (1 + sizeStmt els))
          (off + (compileExpr c).length + 1 + sizeStmt thn + 1 + sizeElifs elifs)
          (off + (compileExpr c).length + 1 + sizeStmt thn + 1) 0 elifs) := by
      have := hc.append_left.append_left.append_right
      simp only [List.length_append, List.length_singleton, len_stmt] at this
      have e : off + ((compileExpr c).length + 1 + sizeStmt thn + 1) =
          off + (compileExpr c).length + 1 + sizeStmt thn + 1 := by omega
      rw [e] at this
      exact this
    have hlab : code[off + (compileExpr c).length + 1 + sizeStmt thn + 1 + sizeElifs elifs]? =
        some (CInstr.label (labelName "else" p sfx), p) := by
      have := hc.append_left.append_right.append_left.head
      simp only [List.length_append, List.length_singleton, len_stmt, len_elifs] at this
      rw [← this]; congr 1; omega
    have hcels : CodeAt code (off + (compileExpr c).length + 1 + sizeStmt thn + 1 + sizeElifs elifs + 1)
        (compileStmt sfx (off + (compileExpr c).length + 1 + sizeStmt thn + 1 + sizeElifs elifs + 1) els) := by
      have := hc.append_left.append_right.append_right
      simp only [List.length_append, List.length_singleton, len_stmt, len_elifs] at this
      have e : off + ((compileExpr c).length + 1 + sizeStmt thn + 1 + sizeElifs elifs) + 1 =
          off + (compileExpr c).length + 1 + sizeStmt thn + 1 + sizeElifs elifs + 1 := by omega
      rw [e] at this
      exact this
    refine spec_addr _ (by omega) (spec_then_label _ ?_ hend)
    refine ifs_correct code fuel fuel ih (Nat.le_refl _) c thn _ sfx p off _ _ σ s harm hpc hr sl hsc hnc hwt hty ?_
    intro τ hτ hrτ
    refine elifs_correct code fuel ih sfx p _ _ els sl ?_ elifs fuel (Nat.le_refl _) _ 0 τ s hce rfl hτ hrτ hwe hty
    intro f hf σ' s' hpc' hr' hty'
    have hlab' : code[σ'.pc]? = some (CInstr.label (labelName "else" p sfx), p) := by rw [hpc']; exact hlab
    have s1 : CoreVm.step code σ' = .next (advance σ') := by simp only [CoreVm.step, hlab']
    have hb := ih f hf els sfx _ (advance σ') s' sl hcels (by simp [advance, hpc']) (rel_advance hr') hwels hty'
    exact spec_prefix _ (Steps.one s1) ⟨rfl, rfl, rfl⟩ (spec_addr _ (by omega) hb)

end RbThm.C01Sim
