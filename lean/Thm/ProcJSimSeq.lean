import Thm.ProcJCatch
/-!
Layer "procedures ∪ jumps", simulation part: sequences.

`seq a b` shows the whole jump discipline: it is entered from its first instruction or at a label inside `a` or inside `b`; a jump
out of `a` or `b` to a label inside the sequence re-enters the sequence in seek mode (`catch_spec`); any other jump, a RETURN,
EXIT, END and errors are passed on.  Ported from `Thm/JmpLSimSeq.lean`; the state is threaded as in `Thm/ProcSimStmt.lean`.
-/
namespace RbThm.ProcJSim
set_option linter.unusedVariables false
set_option linter.unusedSimpArgs false
open RbModel RbModel.ProcJ RbModel.ProcJ.Compile RbModel.ProcJ.Vm
open RbModel.Num hiding Expr
open RbModel.Ast (Pos)
open RbModel.Proc (Var SlotTabs Expr Args PrintItem CaseExpr ProcDecl zeroOf Sigs sigsOf)
open RbModel.Proc.Compile (Layout Layout.addr sizeExpr sizePush refCount sizeExprTo sizeSubCall sizeItems sizeCaseExpr sizeConds
  sizeExit labelName stepSuffix maxPos)
open RbModel.Proc.Vm (Regs Regs.new Frame CtxState getVar setVar curVars modCur curStatic applyArgs readVars binInstr)
open RbModel.ProcJ.Ref (Outcome Mode Act)
open RbThm.ProcJLen
open RbThm.ProcSim (Scope)
theorem case_seq (W : World) (hjd : JumpDepths W) (B : BodyCtx) (hB : B.Ok W) (fuel : Nat) (ih : StmtIH W fuel) (a b : SStmt)
    (sfx : String) (fd sd off : Nat) (m : Mode) (below : List CtxState) (s : St) (σ : Vm)
    (hc : CodeAt W.code off (compileStmt W.lay W.env sfx fd sd off (.seq a b)))
    (hl : LabAt W.env fd sd off (.seq a b)) (hw : Wf W.sg B.sc W.env.dp B.body.labels fd sd (.seq a b))
    (hen : Entry W.env off (.seq a b) m σ) (hr : Rel W B.sc [] below s σ) (hinv : ActInv B.sc fd sd σ) :
    StmtPost W B.sc below fd sd (off + sizeStmt W.env.dp fd sd (.seq a b)) σ
      (ProcJ.Ref.exec W.P (fuel + 1) B.act (desugar (.seq a b)) m s) := by
  have hcs := hc
  simp only [compileStmt] at hc
  have hw0 := hw
  obtain ⟨hwa, hwb⟩ := hw
  obtain ⟨hla, hlb⟩ := hl.seq
  have hcb : CodeAt W.code (off + sizeStmt W.env.dp fd sd a)
      (compileStmt W.lay W.env sfx fd sd (off + sizeStmt W.env.dp fd sd a) b) := by
    have := hc.append_right
    rwa [len_stmt] at this
  have hfin : off + sizeStmt W.env.dp fd sd a + sizeStmt W.env.dp fd sd b = off + sizeStmt W.env.dp fd sd (.seq a b) := by
    simp only [sizeStmt]; omega
  -- the sequence is entered
  have hent : m.enters (desugar (.seq a b)) = true := by
    cases m with
    | run => rfl
    | seek L => exact (hasLabel_iff hw0 L).mpr hen.1
  -- `b`, entered either way, relative to a state with the stacks of `σ`
  have hbspec : ∀ (mb : Mode) (τ : Vm) (sb : St), Entry W.env (off + sizeStmt W.env.dp fd sd a) b mb τ →
      Rel W B.sc [] below sb τ → SameStacks σ τ →
      StmtPost W B.sc below fd sd (off + sizeStmt W.env.dp fd sd (.seq a b)) τ
        (ProcJ.Ref.exec W.P fuel B.act (desugar b) mb sb) := by
    intro mb τ sb hen' hr' hss
    have := ih B b sfx fd sd _ mb below sb τ hB hcb hlb hwb hen' hr' (hinv.of_same hss)
    exact this.addr hfin
  -- what the two parts do, before the jump-handling rule
  have hinner : StmtPost W B.sc below fd sd (off + sizeStmt W.env.dp fd sd (.seq a b)) σ
      (if m.enters (desugar a) = true then
        match ProcJ.Ref.exec W.P fuel B.act (desugar a) m s with
        | (s', .normal) => ProcJ.Ref.exec W.P fuel B.act (desugar b) .run s'
        | r => r
      else ProcJ.Ref.exec W.P fuel B.act (desugar b) m s) ∧
      ∀ s' L, (if m.enters (desugar a) = true then
        match ProcJ.Ref.exec W.P fuel B.act (desugar a) m s with
        | (s', .normal) => ProcJ.Ref.exec W.P fuel B.act (desugar b) .run s'
        | r => r
      else ProcJ.Ref.exec W.P fuel B.act (desugar b) m s) = (s', .jump L) →
        W.env.dp.fd L ≤ fd ∧ W.env.dp.sd L ≤ sd := by
    by_cases hea : m.enters (desugar a) = true
    · simp only [hea, if_true]
      have hena : Entry W.env off a m σ := by
        cases m with
        | run => exact hen
        | seek L => exact ⟨(hasLabel_iff hwa L).mp hea, hen.2⟩
      have ha := ih B a sfx fd sd off m below s σ hB hc.append_left hla hwa hena hr hinv
      generalize hra : ProcJ.Ref.exec W.P fuel B.act (desugar a) m s = ra at ha ⊢
      obtain ⟨s1, o1⟩ := ra
      cases o1 with
      | normal =>
        obtain ⟨τ, st, hp, hrel, hss⟩ := ha
        simp only
        exact ⟨StmtPost.of_steps st hss (hbspec .run τ s1 hp hrel hss),
          fun s' L h => (hjd B.sc B.body.labels b fd sd hwb fuel B.act .run s1 s' L h).2⟩
      | jump L =>
        exact ⟨ha, fun s' L' h => by
          cases h; exact (hjd B.sc B.body.labels a fd sd hwa fuel B.act m s s1 L hra).2⟩
      | exited => exact ⟨ha, fun s' L' h => by cases h⟩
      | halted => exact ⟨ha, fun s' L' h => by cases h⟩
      | ret p => exact ⟨ha, fun s' L' h => by cases h⟩
      | error c p => exact ⟨ha, fun s' L' h => by cases h⟩
      | inexact => exact ⟨trivial, fun s' L' h => by cases h⟩
      | outOfFuel => exact ⟨trivial, fun s' L' h => by cases h⟩
      | illFormed => exact ⟨trivial, fun s' L' h => by cases h⟩
      | notHere => exact ⟨trivial, fun s' L' h => by cases h⟩
    · simp only [hea]
      -- seek mode, and the label is in `b`
      cases m with
      | run => exact absurd rfl hea
      | seek L =>
        have hLa : L ∉ a.labels := fun h => hea ((hasLabel_iff hwa L).mpr h)
        have hLb : L ∈ b.labels := by
          have := hen.1
          simp only [SStmt.labels, List.mem_append] at this
          exact this.resolve_left hLa
        exact ⟨hbspec (.seek L) σ s ⟨hLb, hen.2⟩ hr (SameStacks.refl σ),
          fun s' L' h => (hjd B.sc B.body.labels b fd sd hwb fuel B.act (.seek L) s s' L' h).2⟩
  have := catch_spec ih hB hcs hl hw0 hinv _ hinner.1 hinner.2
  simp only [desugar] at hent this ⊢
  simp only [ProcJ.Ref.exec, hent, if_true]
  exact this

end RbThm.ProcJSim
