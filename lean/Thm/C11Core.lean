import Thm.C01Wf
import Thm.C08Core
import Thm.C11Gen
/-!
# C11 (run-time half) for the core layer by the reference route — no `(0, 0)` alternative

`Thm/C11Gen.lean` proves `runtime_error_pos_within_program` for the core language from the emitted instructions:
the error position is a position of the tree **or `(0, 0)`** (the VM's initial `callPos`, which a `READ` failing
before any `PushStack` would report; that the generator never emits such code is not proved there).  This file
removes the alternative for accepted programs by the route `Thm/C11Layers.lean` takes for the other layers:

* `ref_error_pos_within_program` — the position the reference semantics `Ref.run` prescribes for an error is carried
  by a node of the source tree (`C11Gen.stmtPosns prog.body`; `mem_stmtPosns_reorder`: the same positions as
  `stmtPosns (reorder prog.body)`, the collection `C11Gen.runtime_error_pos_within_program` uses).  Induction on fuel
  over `Ref.exec` / `execCases` / `forIter` (`errPos_all`), the expression-level functions by structural induction,
  then through `desugar` (`desugar_posns`).  No premise.
* `runtime_error_pos_is_ref_pos` — for a program `wfTopB` accepts on which the reference run finishes, whatever error
  the VM model stops with, at any step budget, is the reference's (corollary of `C01_core_correct_checked`).
* `runtime_error_pos_within_program_checked` — both together; `no_error_at_origin`.
* `read_error_pos` — an error of `READ v1, v2, …` (Out of DATA 4, Type mismatch 13, Overflow 6) carries the READ
  statement's position (not a variable's), in the reference semantics; `read_step_error_pos` /
  `read_code_callPos`: in the VM it is `callPos`, which the `PushStack` emitted before every `BuiltInRead` of the
  statement's code sets to the READ statement's position.
-/
namespace RbThm.C11Core
set_option linter.unusedVariables false
open RbModel RbModel.Num RbModel.Ast RbModel.Src RbModel.Core RbModel.CoreWf
open RbModel.Ref (ERes Outcome St lift eval evalTo printItems evalCond relTest evalE caseMatches anyMatches stepSign
  StepSign exec execCases forIter codeOf codeOutOfData codeZeroStep truthy)
open RbThm.C11Gen (exprPosns itemPosns caseExprPosns optExprPosns stmtPosns elifsPosns casesPosns pos_mem_exprPosns)
open RbThm.C01Sim (C01_core_correct_checked)
open RbThm.C08Core (Finished finished run_of_steps_halt run_of_steps_error)

/-! ### positions that occur in a statement of the reference syntax (`Ast.Stmt`) -/

mutual
def astPosns : Stmt → List Pos
  | .skip => []
  | .seq a b => astPosns a ++ astPosns b
  | .assign _ _ e p => p :: exprPosns e
  | .print items p => p :: items.flatMap itemPosns
  | .read _ _ p => [p]
  | .ifs c thn els p => p :: (exprPosns c ++ astPosns thn ++ astPosns els)
  | .select e cs p => p :: (exprPosns e ++ astCasesPosns cs)
  | .forLoop _ _ lo hi step body p => p :: (exprPosns lo ++ exprPosns hi ++ optExprPosns step ++ astPosns body)
  | .while c body p => p :: (exprPosns c ++ astPosns body)
  | .doLoop c _ _ body p => p :: (exprPosns c ++ astPosns body)
  | .end_ p => [p]
def astCasesPosns : Cases → List Pos
  | .nil => []
  | .else_ body => astPosns body
  | .case conds body rest => conds.flatMap caseExprPosns ++ astPosns body ++ astCasesPosns rest
end

/-! ### the leaves: expressions, conditions, CASE items (no fuel: structural) -/

theorem lift_err {q : Pos} {r : Res Val} {c : Nat} {p : Pos} (h : lift q r = .err c p) : p = q := by
  cases r <;> simp [lift] at h
  exact h.2.symm

theorem bind_err {r : ERes} {f : Val → ERes} {c : Nat} {p : Pos} (h : r.bind f = .err c p) :
    r = .err c p ∨ ∃ v, r = .ok v ∧ f v = .err c p := by
  cases r with
  | ok v => exact .inr ⟨v, rfl, h⟩
  | err c' p' => simp only [ERes.bind, ERes.err.injEq] at h; obtain ⟨rfl, rfl⟩ := h; exact .inl rfl
  | inexact => simp [ERes.bind] at h

theorem eval_err (Q : Pos → Prop) (env : List Val) : ∀ (e : Ast.Expr) (c : Nat) (p : Pos),
    eval env e = .err c p → (∀ q ∈ exprPosns e, Q q) → Q p := by
  intro e
  induction e with
  | lit v q => intro c p h; simp [eval] at h
  | var x t q => intro c p h; simp [eval] at h
  | un op e q ih =>
    intro c p h hQ
    have hq : Q q := hQ _ (by simp [exprPosns])
    have he : ∀ x ∈ exprPosns e, Q x := fun x hx => hQ x (by simp [exprPosns, hx])
    cases op <;> simp only [eval] at h <;> rcases bind_err h with h1 | ⟨v, _, h1⟩
    · exact ih c p h1 he
    · rw [lift_err h1]; exact hq
    · exact ih c p h1 he
    · rw [lift_err h1]; exact hq
  | bin op l r t q ihl ihr =>
    intro c p h hQ
    have hq : Q q := hQ _ (by simp [exprPosns])
    simp only [eval] at h
    rcases bind_err h with h1 | ⟨a, _, h1⟩
    · exact ihl c p h1 (fun x hx => hQ x (by simp [exprPosns, hx]))
    · rcases bind_err h1 with h2 | ⟨b, _, h2⟩
      · exact ihr c p h2 (fun x hx => hQ x (by simp [exprPosns, hx]))
      · rw [lift_err h2]; exact hq
  | paren e q ih =>
    intro c p h hQ
    simp only [eval] at h
    exact ih c p h (fun x hx => hQ x (by simp [exprPosns, hx]))

theorem evalTo_err (Q : Pos → Prop) (env : List Val) (e : Ast.Expr) (t : Ty) (c : Nat) (p : Pos)
    (h : evalTo env e t = .err c p) (hQ : ∀ q ∈ exprPosns e, Q q) : Q p := by
  simp only [evalTo] at h
  rcases bind_err h with h1 | ⟨v, _, h1⟩
  · exact eval_err Q env e c p h1 hQ
  · rw [lift_err h1]; exact hQ _ (pos_mem_exprPosns e)

theorem printItems_err (Q : Pos → Prop) : ∀ (items : List PrintItem) (s s' : St) (c : Nat) (p : Pos),
    printItems s items = (s', .error c p) → (∀ q ∈ items.flatMap itemPosns, Q q) → Q p
  | [], s, s', c, p, h, _ => by simp [printItems] at h
  | .comma :: rest, s, s', c, p, h, hQ => by
    simp only [printItems] at h
    exact printItems_err Q rest _ _ c p h (fun x hx => hQ x (by simp [itemPosns, hx]))
  | .semicolon :: rest, s, s', c, p, h, hQ => by
    simp only [printItems] at h
    exact printItems_err Q rest _ _ c p h (fun x hx => hQ x (by simp [itemPosns, hx]))
  | .expr e :: rest, s, s', c, p, h, hQ => by
    simp only [printItems] at h
    split at h
    · rename_i c' p' he
      simp only [Prod.mk.injEq, Outcome.error.injEq] at h
      obtain ⟨_, rfl, rfl⟩ := h
      exact eval_err Q _ e _ _ he (fun x hx => hQ x (by simp [itemPosns, hx]))
    · simp at h
    · split at h
      · simp at h
      · exact printItems_err Q rest _ _ c p h (fun x hx => hQ x (by simp [itemPosns, hx]))

theorem evalCond_err (Q : Pos → Prop) (env : List Val) (e : Ast.Expr) (c : Nat) (p : Pos)
    (h : evalCond env e = .error (.error c p)) (hQ : ∀ q ∈ exprPosns e, Q q) : Q p := by
  simp only [evalCond] at h
  split at h
  · rename_i c' p' he
    simp only [Except.error.injEq, Outcome.error.injEq] at h
    obtain ⟨rfl, rfl⟩ := h
    exact eval_err Q env e _ _ he hQ
  · simp at h
  · split at h
    · simp at h
    · simp only [Except.error.injEq, Outcome.error.injEq] at h
      rw [← h.2]; exact hQ _ (pos_mem_exprPosns e)

theorem relTest_err {q : Pos} {op : Op} {a b : Val} {c : Nat} {p : Pos}
    (h : relTest q op a b = .error (.error c p)) : p = q := by
  unfold relTest at h
  split at h
  · cases h
  · simp only [Except.error.injEq, Outcome.error.injEq] at h; exact h.2.symm
  · cases h

theorem evalE_err (Q : Pos → Prop) (env : List Val) (e : Ast.Expr) (c : Nat) (p : Pos)
    (h : evalE env e = .error (.error c p)) (hQ : ∀ q ∈ exprPosns e, Q q) : Q p := by
  simp only [evalE] at h
  split at h
  · simp at h
  · rename_i c' p' he
    simp only [Except.error.injEq, Outcome.error.injEq] at h
    obtain ⟨rfl, rfl⟩ := h
    exact eval_err Q env e _ _ he hQ
  · simp at h

theorem exceptBind_err {α β : Type} {x : Except Outcome α} {f : α → Except Outcome β} {o : Outcome}
    (h : x >>= f = .error o) : x = .error o ∨ ∃ a, x = .ok a ∧ f a = .error o := by
  cases x with
  | error o' =>
    have : (Except.error o' >>= f) = Except.error o' := rfl
    rw [this] at h; cases h; exact .inl rfl
  | ok a => exact .inr ⟨a, rfl, h⟩

theorem caseMatches_err (Q : Pos → Prop) (env : List Val) (q0 : Pos) (subj : Val) (ce : CaseExpr) (c : Nat) (p : Pos)
    (h : caseMatches env q0 subj ce = .error (.error c p)) (h0 : Q q0) (hQ : ∀ q ∈ caseExprPosns ce, Q q) : Q p := by
  cases ce with
  | simple e =>
    simp only [caseMatches] at h
    rcases exceptBind_err h with h1 | ⟨v, _, h1⟩
    · exact evalE_err Q env e c p h1 (fun x hx => hQ x (by simpa [caseExprPosns] using hx))
    · rw [relTest_err h1]; exact h0
  | is op e =>
    simp only [caseMatches] at h
    rcases exceptBind_err h with h1 | ⟨v, _, h1⟩
    · exact evalE_err Q env e c p h1 (fun x hx => hQ x (by simpa [caseExprPosns] using hx))
    · rw [relTest_err h1]; exact h0
  | range lo hi =>
    simp only [caseMatches] at h
    rcases exceptBind_err h with h1 | ⟨l, _, h1⟩
    · exact evalE_err Q env lo c p h1 (fun x hx => hQ x (by simp [caseExprPosns, hx]))
    · rcases exceptBind_err h1 with h2 | ⟨b1, _, h2⟩
      · rw [relTest_err h2]; exact h0
      · cases b1 with
        | false => simp [pure, Except.pure] at h2
        | true =>
          simp only [if_true] at h2
          rcases exceptBind_err h2 with h3 | ⟨hv, _, h3⟩
          · exact evalE_err Q env hi c p h3 (fun x hx => hQ x (by simp [caseExprPosns, hx]))
          · rw [relTest_err h3]; exact h0

theorem anyMatches_err (Q : Pos → Prop) (env : List Val) (q0 : Pos) (subj : Val) :
    ∀ (conds : List CaseExpr) (c : Nat) (p : Pos), anyMatches env q0 subj conds = .error (.error c p) →
      Q q0 → (∀ q ∈ conds.flatMap caseExprPosns, Q q) → Q p
  | [], c, p, h, _, _ => by simp [anyMatches, pure, Except.pure] at h
  | ce :: rest, c, p, h, h0, hQ => by
    simp only [anyMatches] at h
    rcases exceptBind_err h with h1 | ⟨b, _, h1⟩
    · exact caseMatches_err Q env q0 subj ce c p h1 h0 (fun x hx => hQ x (by simp [hx]))
    · cases b with
      | true => simp [pure, Except.pure] at h1
      | false =>
        simp only [Bool.false_eq_true, if_false] at h1
        exact anyMatches_err Q env q0 subj rest c p h1 h0 (fun x hx => hQ x (by simp [hx]))

theorem stepSign_err {q : Pos} {v : Val} {c : Nat} {p : Pos} (h : stepSign q v = .error (.error c p)) : p = q := by
  simp only [stepSign] at h
  rcases exceptBind_err h with h1 | ⟨b, _, h1⟩
  · exact relTest_err h1
  · cases b with
    | true => simp [pure, Except.pure] at h1
    | false =>
      simp only [Bool.false_eq_true, if_false] at h1
      rcases exceptBind_err h1 with h2 | ⟨b2, _, h2⟩
      · exact relTest_err h2
      · cases b2 <;> simp [pure, Except.pure] at h2

/-! ### the three mutually recursive functions -/

/-- the claim at a given amount of fuel: an error raised while a piece of syntax runs is reported at a position with
property `Q`, provided every position occurring in that piece of syntax has it -/
structure ErrPos (Q : Pos → Prop) (fuel : Nat) : Prop where
  exec : ∀ st s s' c p, exec fuel st s = (s', .error c p) → (∀ q ∈ astPosns st, Q q) → Q p
  execCases : ∀ q0 subj cs s s' c p, execCases fuel q0 subj cs s = (s', .error c p) →
    Q q0 → (∀ q ∈ astCasesPosns cs, Q q) → Q p
  forIter : ∀ x t hv sv up body q0 s s' c p, forIter fuel x t hv sv up body q0 s = (s', .error c p) →
    Q q0 → (∀ q ∈ astPosns body, Q q) → Q p

theorem errPos_zero (Q : Pos → Prop) : ErrPos Q 0 := by
  refine ⟨?_, ?_, ?_⟩
  · intro st s s' c p h; simp [Ref.exec] at h
  · intro q0 subj cs s s' c p h; simp [Ref.execCases] at h
  · intro x t hv sv up body q0 s s' c p h; simp [Ref.forIter] at h

section succ
variable {Q : Pos → Prop} {n : Nat} (ih : ErrPos Q n)
include ih

theorem succ_exec : ∀ st s s' c p, Ref.exec (n + 1) st s = (s', .error c p) →
    (∀ q ∈ astPosns st, Q q) → Q p := by
  intro st s s' c p h hQ
  cases st with
  | skip => simp [Ref.exec] at h
  | end_ q => simp [Ref.exec] at h
  | seq a b =>
    simp only [Ref.exec] at h
    split at h
    · exact ih.exec b _ _ c p h (fun x hx => hQ x (by simp [astPosns, hx]))
    · exact ih.exec a _ _ c p h (fun x hx => hQ x (by simp [astPosns, hx]))
  | assign x t e q =>
    simp only [Ref.exec] at h
    split at h
    · simp at h
    · rename_i c' p' ho
      simp only [Prod.mk.injEq, Outcome.error.injEq] at h
      obtain ⟨_, rfl, rfl⟩ := h
      exact evalTo_err Q _ e t _ _ ho (fun x hx => hQ x (by simp [astPosns, hx]))
    · simp at h
  | print items q =>
    simp only [Ref.exec] at h
    split at h
    · split at h <;> simp at h
    · exact printItems_err Q items _ _ c p h (fun x hx => hQ x (by simp [astPosns, hx]))
  | read x t q =>
    simp only [Ref.exec] at h
    split at h
    · simp only [Prod.mk.injEq, Outcome.error.injEq] at h
      rw [← h.2.2]; exact hQ _ (by simp [astPosns])
    · split at h
      · simp at h
      · simp only [Prod.mk.injEq, Outcome.error.injEq] at h
        rw [← h.2.2]; exact hQ _ (by simp [astPosns])
      · simp at h
  | ifs cnd thn els q =>
    simp only [Ref.exec] at h
    split at h
    · rename_i o ho
      simp only [Prod.mk.injEq] at h
      obtain ⟨_, rfl⟩ := h
      exact evalCond_err Q _ cnd c p ho (fun x hx => hQ x (by simp [astPosns, hx]))
    · exact ih.exec thn _ _ c p h (fun x hx => hQ x (by simp [astPosns, hx]))
    · exact ih.exec els _ _ c p h (fun x hx => hQ x (by simp [astPosns, hx]))
  | select e cs q =>
    simp only [Ref.exec] at h
    split at h
    · rename_i o ho
      simp only [Prod.mk.injEq] at h
      obtain ⟨_, rfl⟩ := h
      exact evalE_err Q _ e c p ho (fun x hx => hQ x (by simp [astPosns, hx]))
    · exact ih.execCases q _ cs _ _ c p h (hQ _ (by simp [astPosns])) (fun x hx => hQ x (by simp [astPosns, hx]))
  | forLoop x t lo hi step body q =>
    have hq : Q q := hQ _ (by simp [astPosns])
    have hb : ∀ y ∈ astPosns body, Q y := fun y hy => hQ y (by simp [astPosns, hy])
    simp only [Ref.exec] at h
    split at h
    · rename_i c' p' ho
      simp only [Prod.mk.injEq, Outcome.error.injEq] at h
      obtain ⟨_, rfl, rfl⟩ := h
      exact evalTo_err Q _ lo t _ _ ho (fun y hy => hQ y (by simp [astPosns, hy]))
    · simp at h
    · split at h
      · rename_i c' p' ho
        simp only [Prod.mk.injEq, Outcome.error.injEq] at h
        obtain ⟨_, rfl, rfl⟩ := h
        exact evalTo_err Q _ hi t _ _ ho (fun y hy => hQ y (by simp [astPosns, hy]))
      · simp at h
      · split at h
        · exact ih.forIter _ _ _ _ _ body q _ _ c p h hq hb
        · rename_i se
          split at h
          · rename_i o ho
            simp only [Prod.mk.injEq] at h
            obtain ⟨_, rfl⟩ := h
            exact evalE_err Q _ se c p ho (fun y hy => hQ y (by simp [astPosns, optExprPosns, hy]))
          · split at h
            · rename_i o ho
              simp only [Prod.mk.injEq] at h
              obtain ⟨_, rfl⟩ := h
              rw [stepSign_err ho]; exact hq
            · exact ih.forIter _ _ _ _ _ body q _ _ c p h hq hb
            · exact ih.forIter _ _ _ _ _ body q _ _ c p h hq hb
            · simp only [Prod.mk.injEq, Outcome.error.injEq] at h
              rw [← h.2.2]; exact hQ _ (by simp [astPosns, optExprPosns, pos_mem_exprPosns])
  | «while» cnd body q =>
    simp only [Ref.exec] at h
    split at h
    · rename_i o ho
      simp only [Prod.mk.injEq] at h
      obtain ⟨_, rfl⟩ := h
      exact evalCond_err Q _ cnd c p ho (fun x hx => hQ x (by simp [astPosns, hx]))
    · simp at h
    · split at h
      · exact ih.exec _ _ _ c p h hQ
      · exact ih.exec body _ _ c p h (fun x hx => hQ x (by simp [astPosns, hx]))
  | doLoop cnd top u body q =>
    simp only [Ref.exec] at h
    split at h
    · split at h
      · rename_i o ho
        simp only [Prod.mk.injEq] at h
        obtain ⟨_, rfl⟩ := h
        exact evalCond_err Q _ cnd c p ho (fun x hx => hQ x (by simp [astPosns, hx]))
      · split at h
        · split at h
          · exact ih.exec _ _ _ c p h hQ
          · exact ih.exec body _ _ c p h (fun x hx => hQ x (by simp [astPosns, hx]))
        · simp at h
    · split at h
      · split at h
        · rename_i o ho
          simp only [Prod.mk.injEq] at h
          obtain ⟨_, rfl⟩ := h
          exact evalCond_err Q _ cnd c p ho (fun x hx => hQ x (by simp [astPosns, hx]))
        · split at h
          · exact ih.exec _ _ _ c p h hQ
          · simp at h
      · exact ih.exec body _ _ c p h (fun x hx => hQ x (by simp [astPosns, hx]))

theorem succ_execCases : ∀ q0 subj cs s s' c p, Ref.execCases (n + 1) q0 subj cs s = (s', .error c p) →
    Q q0 → (∀ q ∈ astCasesPosns cs, Q q) → Q p := by
  intro q0 subj cs s s' c p h h0 hQ
  cases cs with
  | nil => simp [Ref.execCases] at h
  | else_ body =>
    simp only [Ref.execCases] at h
    exact ih.exec body _ _ c p h (fun x hx => hQ x (by simpa [astCasesPosns] using hx))
  | case conds body rest =>
    simp only [Ref.execCases] at h
    split at h
    · rename_i o ho
      simp only [Prod.mk.injEq] at h
      obtain ⟨_, rfl⟩ := h
      exact anyMatches_err Q _ q0 subj conds c p ho h0 (fun x hx => hQ x (by
        simp only [astCasesPosns, List.mem_append]; exact .inl (.inl hx)))
    · exact ih.exec body _ _ c p h (fun x hx => hQ x (by simp [astCasesPosns, hx]))
    · exact ih.execCases q0 subj rest _ _ c p h h0 (fun x hx => hQ x (by simp [astCasesPosns, hx]))

theorem succ_forIter : ∀ x t hv sv up body q0 s s' c p,
    Ref.forIter (n + 1) x t hv sv up body q0 s = (s', .error c p) →
    Q q0 → (∀ q ∈ astPosns body, Q q) → Q p := by
  intro x t hv sv up body q0 s s' c p h h0 hQ
  simp only [Ref.forIter] at h
  split at h
  · rename_i o ho
    simp only [Prod.mk.injEq] at h
    obtain ⟨_, rfl⟩ := h
    rw [relTest_err ho]; exact h0
  · simp at h
  · split at h
    · split at h
      · exact ih.forIter _ _ _ _ _ body q0 _ _ c p h h0 hQ
      · simp only [Prod.mk.injEq, Outcome.error.injEq] at h
        rw [← h.2.2]; exact h0
      · simp at h
    · exact ih.exec body _ _ c p h hQ

end succ

theorem errPos_all (Q : Pos → Prop) : ∀ n, ErrPos Q n
  | 0 => errPos_zero Q
  | n + 1 =>
    have ih := errPos_all Q n
    ⟨succ_exec ih, succ_execCases ih, succ_forIter ih⟩

/-! ### the source tree (`SStmt`) and its desugaring; `reorder` -/

theorem readSeq_posns (p q : Pos) : ∀ vars : List (Nat × Ty × Pos), q ∈ astPosns (readSeq p vars) → q = p
  | [], h => by simp [readSeq, astPosns] at h
  | (x, t, r) :: rest, h => by
    simp only [readSeq, astPosns, List.mem_append, List.mem_cons, List.not_mem_nil, or_false] at h
    rcases h with h | h
    · exact h
    · exact readSeq_posns p q rest h

mutual
/-- desugaring adds no positions -/
theorem desugar_posns (q : Pos) : ∀ s : SStmt, q ∈ astPosns (desugar s) → q ∈ stmtPosns s
  | .skip, h => by simp [desugar, astPosns] at h
  | .comment, h => by simp [desugar, astPosns] at h
  | .data _ _, h => by simp [desugar, astPosns] at h
  | .seq a b, h => by
    simp only [desugar, astPosns, List.mem_append] at h
    rcases h with h | h
    · simp [stmtPosns, desugar_posns q a h]
    · simp [stmtPosns, desugar_posns q b h]
  | .dim x t p, h => by simpa [desugar, astPosns, exprPosns, stmtPosns] using h
  | .assign x t e p, h => by simpa [desugar, astPosns, stmtPosns] using h
  | .print items p, h => by simpa [desugar, astPosns, stmtPosns] using h
  | .read vars p, h => by
    simp only [desugar] at h
    simp [stmtPosns, readSeq_posns p q vars h]
  | .ifBlock c thn elifs he els p, h => by
    simp only [desugar, astPosns, List.mem_append, List.mem_cons] at h
    rcases h with h | (h | h) | h
    · simp [stmtPosns, h]
    · simp [stmtPosns, h]
    · simp [stmtPosns, desugar_posns q thn h]
    · rcases desugarElifs_posns q elifs (desugar els) p h with h1 | h1 | h1
      · simp [stmtPosns, h1]
      · simp [stmtPosns, h1]
      · simp [stmtPosns, desugar_posns q els h1]
  | .select e cases he els p, h => by
    simp only [desugar, astPosns, List.mem_append, List.mem_cons] at h
    rcases h with h | h | h
    · simp [stmtPosns, h]
    · simp [stmtPosns, h]
    · rcases desugarCases_posns q cases _ h with h1 | h1
      · simp [stmtPosns, h1]
      · cases he with
        | true =>
          simp only [if_true, astCasesPosns] at h1
          simp [stmtPosns, desugar_posns q els h1]
        | false => simp [astCasesPosns] at h1
  | .forLoop x t lo hi step body p, h => by
    simp only [desugar, astPosns, List.mem_append, List.mem_cons] at h
    rcases h with h | ((h | h) | h) | h
    · simp [stmtPosns, h]
    · simp [stmtPosns, h]
    · simp [stmtPosns, h]
    · simp [stmtPosns, h]
    · simp [stmtPosns, desugar_posns q body h]
  | .while c body p, h => by
    simp only [desugar, astPosns, List.mem_append, List.mem_cons] at h
    rcases h with h | h | h
    · simp [stmtPosns, h]
    · simp [stmtPosns, h]
    · simp [stmtPosns, desugar_posns q body h]
  | .doLoop c top u body p, h => by
    simp only [desugar, astPosns, List.mem_append, List.mem_cons] at h
    rcases h with h | h | h
    · simp [stmtPosns, h]
    · simp [stmtPosns, h]
    · simp [stmtPosns, desugar_posns q body h]
  | .end_ p, h => by simpa [desugar, astPosns, stmtPosns] using h
theorem desugarElifs_posns (q : Pos) : ∀ (e : ElseIfs) (els : Stmt) (p : Pos),
    q ∈ astPosns (desugarElifs e els p) → q = p ∨ q ∈ elifsPosns e ∨ q ∈ astPosns els
  | .nil, els, p, h => by simp only [desugarElifs] at h; exact .inr (.inr h)
  | .cons c body rest, els, p, h => by
    simp only [desugarElifs, astPosns, List.mem_append, List.mem_cons] at h
    rcases h with h | (h | h) | h
    · exact .inl h
    · exact .inr (.inl (by simp [elifsPosns, h]))
    · exact .inr (.inl (by simp [elifsPosns, desugar_posns q body h]))
    · rcases desugarElifs_posns q rest els p h with h1 | h1 | h1
      · exact .inl h1
      · exact .inr (.inl (by simp [elifsPosns, h1]))
      · exact .inr (.inr h1)
theorem desugarCases_posns (q : Pos) : ∀ (cs : SCases) (tail : Cases),
    q ∈ astCasesPosns (desugarCases cs tail) → q ∈ casesPosns cs ∨ q ∈ astCasesPosns tail
  | .nil, tail, h => by simp only [desugarCases] at h; exact .inr h
  | .cons conds body rest, tail, h => by
    simp only [desugarCases, astCasesPosns, List.mem_append] at h
    rcases h with (h | h) | h
    · exact .inl (by simp [casesPosns, h])
    · exact .inl (by simp [casesPosns, desugar_posns q body h])
    · rcases desugarCases_posns q rest tail h with h1 | h1
      · exact .inl (by simp [casesPosns, h1])
      · exact .inr h1
end

/-- the statement list `reorder` builds carries the positions of its members -/
theorem mem_stmtPosns_seqOf (q : Pos) : ∀ l : List SStmt, q ∈ stmtPosns (seqOf l) ↔ ∃ s ∈ l, q ∈ stmtPosns s
  | [] => by simp [seqOf, stmtPosns]
  | a :: rest => by simp [seqOf, stmtPosns, mem_stmtPosns_seqOf q rest]

theorem mem_stmtPosns_topLevel (q : Pos) : ∀ body : SStmt, q ∈ stmtPosns body ↔ ∃ s ∈ topLevel body, q ∈ stmtPosns s
  | .seq a b => by
    simp only [stmtPosns, topLevel, List.mem_append, mem_stmtPosns_topLevel q a, mem_stmtPosns_topLevel q b]
    constructor
    · rintro (⟨s, hs, h⟩ | ⟨s, hs, h⟩)
      · exact ⟨s, .inl hs, h⟩
      · exact ⟨s, .inr hs, h⟩
    · rintro ⟨s, hs | hs, h⟩
      · exact .inl ⟨s, hs, h⟩
      · exact .inr ⟨s, hs, h⟩
  | .skip => by simp [topLevel, stmtPosns]
  | .comment => by simp [topLevel]
  | .dim _ _ _ => by simp [topLevel]
  | .assign _ _ _ _ => by simp [topLevel]
  | .print _ _ => by simp [topLevel]
  | .data _ _ => by simp [topLevel]
  | .read _ _ => by simp [topLevel]
  | .ifBlock _ _ _ _ _ _ => by simp [topLevel]
  | .select _ _ _ _ _ => by simp [topLevel]
  | .forLoop _ _ _ _ _ _ _ => by simp [topLevel]
  | .while _ _ _ => by simp [topLevel]
  | .doLoop _ _ _ _ _ => by simp [topLevel]
  | .end_ _ => by simp [topLevel]

/-- **`reorder` (DATA statements first) neither adds nor drops a position**: the collection
`C11Gen.runtime_error_pos_within_program` speaks of, `stmtPosns (reorder body)`, has the members of `stmtPosns body` -/
theorem mem_stmtPosns_reorder (q : Pos) (body : SStmt) : q ∈ stmtPosns (reorder body) ↔ q ∈ stmtPosns body := by
  rw [mem_stmtPosns_topLevel q body]
  simp only [reorder, mem_stmtPosns_seqOf, List.mem_append, List.mem_filter]
  constructor
  · rintro ⟨s, (⟨hs, _⟩ | ⟨hs, _⟩), h⟩ <;> exact ⟨s, hs, h⟩
  · rintro ⟨s, hs, h⟩
    cases hd : isData s
    · exact ⟨s, .inr ⟨hs, by simp [hd]⟩, h⟩
    · exact ⟨s, .inl ⟨hs, hd⟩, h⟩

/-! ### the property theorems -/

/-- **`ref_error_pos_within_program`** (core layer) — the position the reference semantics prescribes for a run-time
error is a position carried by a node of the program's tree.  No premise: this holds of every tree. -/
theorem ref_error_pos_within_program (prog : SProgram) (fuel c : Nat) (p : Pos)
    (h : (Ref.run fuel prog.toAst).2 = .error c p) : p ∈ stmtPosns prog.body := by
  unfold Ref.run at h
  generalize hr : Ref.exec fuel prog.toAst.body _ = r at h
  obtain ⟨s', o⟩ := r
  simp only at h
  subst h
  exact (errPos_all (· ∈ stmtPosns prog.body) fuel).exec _ _ _ c p hr (fun q hq => desugar_posns q prog.body hq)

/-- the same in the collection `C11Gen.runtime_error_pos_within_program` uses -/
theorem ref_error_pos_within_reordered (prog : SProgram) (fuel c : Nat) (p : Pos)
    (h : (Ref.run fuel prog.toAst).2 = .error c p) : p ∈ stmtPosns (reorder prog.body) :=
  (mem_stmtPosns_reorder p prog.body).mpr (ref_error_pos_within_program prog fuel c p h)

/-- **`runtime_error_pos_is_ref_pos`** (core layer) — for a program the premise checker `wfTopB` accepts on which the
reference run finishes (normally, with END, or with a BASIC error), whatever error the VM model stops with — at any
step budget — is the reference's: same code, same position. -/
theorem runtime_error_pos_is_ref_pos (prog : SProgram) (fuel : Nat) (hw : wfTopB prog.slots prog.body = true)
    (hfin : Finished (Ref.run fuel prog.toAst).2) :
    ∀ (m c : Nat) (p : Pos) (ω : CoreVm.Vm),
      CoreVm.run (compile prog) m (CoreVm.Vm.init prog.slots) = .error c p ω →
      (Ref.run fuel prog.toAst).2 = .error c p := by
  intro m c p ω hrun
  have h := C01_core_correct_checked prog fuel hw
  rcases hr : Ref.run fuel prog.toAst with ⟨s', o⟩
  rw [hr] at h hfin
  cases o with
  | normal =>
    obtain ⟨τ, υ, hs, hh, _⟩ := h
    rcases run_of_steps_halt _ hs hh m with h1 | h1 <;> rw [h1] at hrun <;> cases hrun
  | halted =>
    obtain ⟨τ, υ, hs, hh, _⟩ := h
    rcases run_of_steps_halt _ hs hh m with h1 | h1 <;> rw [h1] at hrun <;> cases hrun
  | error c' p' =>
    obtain ⟨τ, υ, hs, hh, _⟩ := h
    rcases run_of_steps_error _ hs hh m with h1 | h1 <;> rw [h1] at hrun <;> cases hrun
    rfl
  | inexact => simp [Finished, finished] at hfin
  | outOfFuel => simp [Finished, finished] at hfin

/-- **`runtime_error_pos_within_program_checked`** (core layer) — hence the position reported with a run-time error of
the VM run of an accepted program is a position carried by a node of the program's tree.  The alternative `(0, 0)` of
`C11Gen.runtime_error_pos_within_program` is gone. -/
theorem runtime_error_pos_within_program_checked (prog : SProgram) (fuel : Nat)
    (hw : wfTopB prog.slots prog.body = true) (hfin : Finished (Ref.run fuel prog.toAst).2) :
    ∀ (m c : Nat) (p : Pos) (ω : CoreVm.Vm),
      CoreVm.run (compile prog) m (CoreVm.Vm.init prog.slots) = .error c p ω → p ∈ stmtPosns prog.body :=
  fun m c p ω hrun =>
    ref_error_pos_within_program prog fuel c p (runtime_error_pos_is_ref_pos prog fuel hw hfin m c p ω hrun)

/-- the same in the collection `C11Gen.runtime_error_pos_within_program` uses -/
theorem runtime_error_pos_within_reordered_checked (prog : SProgram) (fuel : Nat)
    (hw : wfTopB prog.slots prog.body = true) (hfin : Finished (Ref.run fuel prog.toAst).2) :
    ∀ (m c : Nat) (p : Pos) (ω : CoreVm.Vm),
      CoreVm.run (compile prog) m (CoreVm.Vm.init prog.slots) = .error c p ω → p ∈ stmtPosns (reorder prog.body) :=
  fun m c p ω hrun =>
    (mem_stmtPosns_reorder p prog.body).mpr (runtime_error_pos_within_program_checked prog fuel hw hfin m c p ω hrun)

/-- **`no_error_at_origin`** — if `(0, 0)` is not a position of the tree (true of every parsed program: rows and
columns start at 1), the VM run of an accepted program never reports an error at `(0, 0)`: the initial `callPos` is
never what a failing `READ` reports. -/
theorem no_error_at_origin (prog : SProgram) (fuel : Nat)
    (hw : wfTopB prog.slots prog.body = true) (hfin : Finished (Ref.run fuel prog.toAst).2)
    (h0 : (⟨0, 0⟩ : Pos) ∉ stmtPosns prog.body) :
    ∀ (m c : Nat) (ω : CoreVm.Vm),
      CoreVm.run (compile prog) m (CoreVm.Vm.init prog.slots) ≠ .error c ⟨0, 0⟩ ω :=
  fun m c ω hrun => h0 (runtime_error_pos_within_program_checked prog fuel hw hfin m c ⟨0, 0⟩ ω hrun)

/-- a sufficient, checkable form of the premise `h0`: every position of the tree has a row ≥ 1 -/
theorem origin_not_mem_of_rows_pos (body : SStmt) (h : ∀ q ∈ stmtPosns body, 1 ≤ q.row) :
    (⟨0, 0⟩ : Pos) ∉ stmtPosns body :=
  fun hm => absurd (h _ hm) (by simp)

/-! ### READ: which node -/

theorem castRound_bind_err {lo hi : Int} {q : Rat} {f : Int → Val} {e : Err}
    (h : (castRound lo hi q).bind (fun r => .ok (f r)) = .err e) : e = .overflow := by
  simp only [castRound] at h
  split at h
  · simp [Res.bind] at h
  · simp only [Res.bind, Res.err.injEq] at h; exact h.symm

theorem mkSgl_err {q : Rat} {e : Err} (h : mkSgl q = .err e) : False := by
  unfold mkSgl at h; split at h <;> cases h

theorem mkDbl_err {q : Rat} {e : Err} (h : mkDbl q = .err e) : False := by
  unfold mkDbl at h; split at h <;> cases h

local macro "cast_leaf" h:ident : tactic => `(tactic| first
    | (cases $h:ident; done)
    | exact (mkSgl_err $h).elim
    | exact (mkDbl_err $h).elim
    | exact .inl (castRound_bind_err $h)
    | (simp only [Res.err.injEq] at $h:ident; first | exact .inl (Eq.symm $h) | exact .inr (Eq.symm $h)))

/-- a conversion fails with Overflow or Type mismatch only (never Division by zero) -/
theorem cast_err_kind {v : Val} {t : Ty} {e : Err} (h : Num.cast v t = .err e) :
    e = .overflow ∨ e = .typeMismatch := by
  unfold Num.cast at h
  split at h
  all_goals first
    | cast_leaf h
    | (split at h <;> cast_leaf h)

/-- one `READ x` of the reference syntax: an error is Out of DATA (4) when the DATA items are used up, else the
conversion error of the next item (Type mismatch 13 or Overflow 6); it carries the statement's position and leaves the
state as it was -/
theorem read1_error (fuel : Nat) (x : Nat) (t : Ty) (p : Pos) (s s' : St) (c : Nat) (q : Pos)
    (h : Ref.exec fuel (.read x t p) s = (s', .error c q)) :
    q = p ∧ s' = s ∧ ((s.data[s.dataIdx]? = none ∧ c = 4) ∨
      (∃ v e, s.data[s.dataIdx]? = some v ∧ Num.cast v t = .err e ∧ c = codeOf e ∧ (c = 13 ∨ c = 6))) := by
  cases fuel with
  | zero => simp [Ref.exec] at h
  | succ n =>
    simp only [Ref.exec] at h
    split at h
    · rename_i hd
      simp only [Prod.mk.injEq, Outcome.error.injEq] at h
      obtain ⟨rfl, rfl, rfl⟩ := h
      exact ⟨rfl, rfl, .inl ⟨hd, rfl⟩⟩
    · rename_i v hd
      split at h
      · simp at h
      · rename_i e he
        simp only [Prod.mk.injEq, Outcome.error.injEq] at h
        obtain ⟨rfl, rfl, rfl⟩ := h
        refine ⟨rfl, rfl, .inr ⟨v, e, hd, he, rfl, ?_⟩⟩
        rcases cast_err_kind he with rfl | rfl
        · exact .inr rfl
        · exact .inl rfl
      · simp at h

/-- **`read_error_pos`** — WHICH node for READ: an error raised by `READ v1, v2, …` (as the reference semantics runs
it: one item per variable, left to right) has code 4 (Out of DATA), 13 (Type mismatch) or 6 (Overflow) and is reported
at the READ *statement's* position `p` — not at the position of the variable that could not be filled. -/
theorem read_error_pos (vars : List (Nat × Ty × Pos)) (p : Pos) : ∀ (fuel : Nat) (s s' : St) (c : Nat) (q : Pos),
    Ref.exec fuel (desugar (.read vars p)) s = (s', .error c q) → q = p ∧ (c = 4 ∨ c = 13 ∨ c = 6) := by
  simp only [desugar]
  induction vars with
  | nil =>
    intro fuel s s' c q h
    cases fuel <;> simp [readSeq, Ref.exec] at h
  | cons v rest ih =>
    obtain ⟨x, t, r⟩ := v
    intro fuel s s' c q h
    cases fuel with
    | zero => simp [Ref.exec] at h
    | succ n =>
      simp only [readSeq, Ref.exec] at h
      split at h
      · exact ih n _ _ c q h
      · rename_i r' hne
        obtain ⟨h1, _, h2⟩ := read1_error n x t p s s' c q h
        refine ⟨h1, ?_⟩
        rcases h2 with ⟨_, rfl⟩ | ⟨_, _, _, _, _, h3 | h3⟩
        · exact .inl rfl
        · exact .inr (.inl h3)
        · exact .inr (.inr h3)

/-- in the VM a failing `BuiltInRead` reports `callPos` (the position of the last `PushStack`), whatever position the
instruction itself carries, and leaves the state as it was -/
theorem read_step_error_pos (code : Code) (σ σ' : CoreVm.Vm) (iq : Pos) (c : Nat) (p : Pos)
    (hi : code[σ.pc]? = some (.builtInRead, iq)) (h : CoreVm.step code σ = .error c p σ') :
    p = σ.callPos ∧ σ' = σ := by
  unfold CoreVm.step at h
  simp only [hi] at h
  split at h
  · simp only [CoreVm.StepRes.error.injEq] at h; exact ⟨h.2.1.symm, h.2.2.symm⟩
  · simp only [CoreVm.StepRes.error.injEq] at h; exact ⟨h.2.1.symm, h.2.2.symm⟩
  · cases h

/-- the code of `READ` for one variable: `READ a, b` is generated as `READ a : READ b` -/
def readBlock (p : Pos) (v : Nat × Ty × Pos) : Code :=
  [(.beginArgs, p), (.varPath v.1, v.2.2), (.copyVarPathToA, v.2.2), (.pushByRef, v.2.2), (.pushStack, p), (.builtInRead, p),
   (.enqueue 0, v.2.2), (.popStack, p), (.dequeue, v.2.2), (.varPath v.1, v.2.2), (.copyAToVarPath, v.2.2)]

theorem compile_read_eq (sfx : String) (off : Nat) (vars : List (Nat × Ty × Pos)) (p : Pos) :
    compileStmt sfx off (.read vars p) =
      if vars.isEmpty then [(.beginArgs, p), (.pushStack, p), (.builtInRead, p), (.popStack, p)]
      else vars.flatMap (readBlock p) := by
  simp only [compileStmt]
  split
  · rfl
  · congr 1

theorem readBlocks_callPos (p : Pos) : ∀ (vars : List (Nat × Ty × Pos)) (i : Nat) (q : Pos),
    (vars.flatMap (readBlock p))[i]? = some (.builtInRead, q) →
      q = p ∧ ∃ j, i = j + 1 ∧ (vars.flatMap (readBlock p))[j]? = some (.pushStack, p)
  | [], i, q, h => by simp at h
  | v :: rest, i, q, h => by
    have hl : (readBlock p v).length = 11 := rfl
    simp only [List.flatMap_cons] at h ⊢
    by_cases hi : i < 11
    · rw [List.getElem?_append_left (by omega)] at h
      have : i = 0 ∨ i = 1 ∨ i = 2 ∨ i = 3 ∨ i = 4 ∨ i = 5 ∨ i = 6 ∨ i = 7 ∨ i = 8 ∨ i = 9 ∨ i = 10 := by omega
      rcases this with rfl | rfl | rfl | rfl | rfl | rfl | rfl | rfl | rfl | rfl | rfl <;>
        simp [readBlock] at h
      exact ⟨h.symm, 4, rfl, by rw [List.getElem?_append_left (by omega)]; simp [readBlock]⟩
    · rw [List.getElem?_append_right (by omega), hl] at h
      obtain ⟨hq, j, hj, hp⟩ := readBlocks_callPos p rest (i - 11) q h
      refine ⟨hq, j + 11, by omega, ?_⟩
      rw [List.getElem?_append_right (by omega), hl]
      simpa using hp

/-- **the generator's half of "which node"**: in the code of `READ v1, v2, …` every `BuiltInRead` carries the READ
statement's position and is immediately preceded by a `PushStack` carrying the READ statement's position — the
instruction that sets the `callPos` a failing `BuiltInRead` reports -/
theorem read_code_callPos (sfx : String) (off : Nat) (vars : List (Nat × Ty × Pos)) (p : Pos) (i : Nat) (q : Pos)
    (h : (compileStmt sfx off (.read vars p))[i]? = some (.builtInRead, q)) :
    q = p ∧ ∃ j, i = j + 1 ∧ (compileStmt sfx off (.read vars p))[j]? = some (.pushStack, p) := by
  rw [compile_read_eq] at h ⊢
  split at h
  · rename_i he
    simp only [he, if_true]
    have : i = 0 ∨ i = 1 ∨ i = 2 ∨ i = 3 ∨ 4 ≤ i := by omega
    rcases this with rfl | rfl | rfl | rfl | h4
    · simp at h
    · simp at h
    · simp at h; exact ⟨h.symm, 1, rfl, by simp⟩
    · simp at h
    · rw [List.getElem?_eq_none (by simpa using h4)] at h; cases h
  · rename_i he
    simp only [he]
    exact readBlocks_callPos p vars i q h

/-- the VM's half: a `PushStack` at `p` followed by a `BuiltInRead` that fails reports `p` -/
theorem pushStack_then_read_error (code : Code) (σ σ1 σ' : CoreVm.Vm) (p iq : Pos) (c : Nat) (q : Pos)
    (h1 : code[σ.pc]? = some (.pushStack, p)) (h2 : code[σ.pc + 1]? = some (.builtInRead, iq))
    (hs : CoreVm.step code σ = .next σ1) (he : CoreVm.step code σ1 = .error c q σ') : q = p := by
  unfold CoreVm.step at hs
  simp only [h1, CoreVm.StepRes.next.injEq] at hs
  subst hs
  exact (read_step_error_pos code _ σ' iq c q (by simpa [CoreVm.advance] using h2) he).1

/-! ### non-vacuity: accepted programs whose run ends in a READ error at the READ statement's position -/

/-- `DATA "x" : READ A%` (row 1: DATA at col 1, its item at col 6, READ at col 12, the variable at col 17) -/
def readMismatch : SProgram :=
  ⟨[.int], .seq (.data [(.str ['x'], ⟨1, 6⟩)] ⟨1, 1⟩) (.seq (.read [(0, .int, ⟨1, 17⟩)] ⟨1, 12⟩) .skip)⟩

/-- `READ A%` with no DATA (READ at row 1 col 1, the variable at col 6) -/
def readNoData : SProgram :=
  ⟨[.int], .seq (.read [(0, .int, ⟨1, 6⟩)] ⟨1, 1⟩) .skip⟩

/-- the premises hold of `DATA "x" : READ A%`; the reference ends with Type mismatch (13) at the READ statement
(col 12, not the variable at col 17, not the DATA item); so does the VM model; `(0, 0)` is not a position of the tree -/
example : wfTopB readMismatch.slots readMismatch.body = true ∧
    Finished (Ref.run 10 readMismatch.toAst).2 ∧
    (match (Ref.run 10 readMismatch.toAst).2 with | .error 13 ⟨1, 12⟩ => true | _ => false) = true ∧
    (match CoreVm.run (compile readMismatch) 100 (CoreVm.Vm.init readMismatch.slots) with
     | .error 13 ⟨1, 12⟩ _ => true | _ => false) = true ∧
    (⟨1, 12⟩ : Pos) ∈ stmtPosns readMismatch.body ∧ (⟨1, 12⟩ : Pos) ≠ ⟨0, 0⟩ ∧
    (⟨0, 0⟩ : Pos) ∉ stmtPosns readMismatch.body := by
  refine ⟨by decide +kernel, by decide +kernel, by decide +kernel, by decide +kernel, by decide +kernel,
    by decide, by decide +kernel⟩

/-- the premises hold of `READ A%` without DATA; Out of DATA (4) at the READ statement (col 1, not the variable) -/
example : wfTopB readNoData.slots readNoData.body = true ∧
    Finished (Ref.run 10 readNoData.toAst).2 ∧
    (match (Ref.run 10 readNoData.toAst).2 with | .error 4 ⟨1, 1⟩ => true | _ => false) = true ∧
    (match CoreVm.run (compile readNoData) 100 (CoreVm.Vm.init readNoData.slots) with
     | .error 4 ⟨1, 1⟩ _ => true | _ => false) = true ∧
    (⟨1, 1⟩ : Pos) ∈ stmtPosns readNoData.body ∧ (⟨1, 1⟩ : Pos) ≠ ⟨0, 0⟩ ∧
    (⟨0, 0⟩ : Pos) ∉ stmtPosns readNoData.body := by
  refine ⟨by decide +kernel, by decide +kernel, by decide +kernel, by decide +kernel, by decide +kernel,
    by decide, by decide +kernel⟩

/-- the error of an outcome, if it is one (decidable equality for the examples) -/
def errOf : Outcome → Option (Nat × Pos)
  | .error c p => some (c, p)
  | _ => none

/-- the theorems applied: every error the VM run of `DATA "x" : READ A%` can stop with, at any budget, is
`(13, (1, 12))`, and none is at `(0, 0)` -/
example (m c : Nat) (p : Pos) (ω : CoreVm.Vm)
    (h : CoreVm.run (compile readMismatch) m (CoreVm.Vm.init readMismatch.slots) = .error c p ω) :
    c = 13 ∧ p = ⟨1, 12⟩ := by
  have h1 := runtime_error_pos_is_ref_pos readMismatch 10 (by decide +kernel) (by decide +kernel) m c p ω h
  have h2 : errOf (Ref.run 10 readMismatch.toAst).2 = some (13, ⟨1, 12⟩) := by decide +kernel
  rw [h1] at h2
  simp only [errOf, Option.some.injEq, Prod.mk.injEq] at h2
  exact h2

example (m c : Nat) (ω : CoreVm.Vm) :
    CoreVm.run (compile readNoData) m (CoreVm.Vm.init readNoData.slots) ≠ .error c ⟨0, 0⟩ ω :=
  no_error_at_origin readNoData 10 (by decide +kernel) (by decide +kernel) (by decide +kernel) m c ω

/-- `DATA 70000` (row 1) `READ A%` (row 2): Overflow (6) at the READ statement (row 2 col 1; the real interpreter
answers `Overflow, Position { row: 2, col: 1 }` as well) -/
def readOverflow : SProgram :=
  ⟨[.int], .seq (.data [(.long 70000, ⟨1, 6⟩)] ⟨1, 1⟩) (.seq (.read [(0, .int, ⟨2, 6⟩)] ⟨2, 1⟩) .skip)⟩

example : wfTopB readOverflow.slots readOverflow.body = true ∧
    Finished (Ref.run 10 readOverflow.toAst).2 ∧
    errOf (Ref.run 10 readOverflow.toAst).2 = some (6, ⟨2, 1⟩) ∧
    (match CoreVm.run (compile readOverflow) 100 (CoreVm.Vm.init readOverflow.slots) with
     | .error 6 ⟨2, 1⟩ _ => true | _ => false) = true ∧
    (⟨0, 0⟩ : Pos) ∉ stmtPosns readOverflow.body := by
  refine ⟨by decide +kernel, by decide +kernel, by decide +kernel, by decide +kernel, by decide +kernel⟩

end RbThm.C11Core
