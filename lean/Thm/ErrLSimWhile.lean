import Thm.ErrLSimCond
/-!
Error layer (property C05), simulation part: `WHILE c … WEND` (port of `JmpLSim.case_while`).

New with respect to the jump layer: the condition is a *resume unit* `[off, bodyOff)` (`marks_while`): when it fails, RESUME
runs it again (`Ref.condUnit` answers `again`: the loop statement is re-entered from its first instruction), RESUME NEXT /
ON ERROR RESUME NEXT enter the body (`go true` with the VM at the entry that follows the unit = the body's first
instruction), a handler that ends with `RESUME label` leaves the loop — or, when the label is inside the body, re-enters it
in seek mode.  The body is followed in the statement-address table by the back-edge `Jump`, which is also where it ends: the
two normal exits of the body coincide.

`wl_body_then_loop`, `wl_step_label`, `wl_step_jump` are shared with `Thm/ErrLSimDo.lean`.
-/
namespace RbThm.ErrLSim
set_option linter.unusedVariables false
set_option linter.unusedSimpArgs false
open RbModel RbModel.Num RbModel.ErrL RbModel.ErrL.Compile RbModel.ErrL.Vm
open RbModel.JmpL.Compile (CInstr Code labelName compileExpr compileExprTo storeVar loadVar compileItems compileConds
  sizeCaseExpr sizeItems sizeConds Dp lookupNat lookupDepth stepSuffix maxPos)
open RbModel.JmpL.Vm (Vm truncTop)
open RbModel.Ast (Pos PrintItem CaseExpr)
open RbModel.Ref (St)
open RbModel.ErrL.Ref
open RbThm.ErrLLen
open RbThm.C01Sim (Typed SlotsBelow ExprWt NumericAt NumericCond ItemsSlots CaseSlots CondsSlots)

/-- one `Label` instruction -/
theorem wl_step_label {P : Prog} (hP : ProgOk P) {x : EVm} {name : String} {p : Pos}
    (h : P.code[x.b.pc]? = some (.base (.label name), p)) :
    step P x = .next { x with b := JmpL.Vm.advance x.b } := by
  rw [step_base hP h (by simp)]
  simp only [JmpL.Vm.step, base_get hP h]

/-- one `Jump` instruction -/
theorem wl_step_jump {P : Prog} (hP : ProgOk P) {x : EVm} {a : Nat} {p : Pos}
    (h : P.code[x.b.pc]? = some (.base (.jump a), p)) :
    step P x = .next { x with b := { x.b with pc := a } } := by
  rw [step_base hP h (by simp)]
  simp only [JmpL.Vm.step, base_get hP h]

/-- the code behind the first instruction of a lifted fragment -/
theorem wl_lift_tail {code : ECode} {off : Nat} {x : CInstr × Pos} {rest : Code} (h : CodeAt code off (lift (x :: rest))) :
    CodeAt code (off + 1) (lift rest) :=
  CodeAt.tail (x := (.base x.1, x.2)) (rest := lift rest) h

theorem wl_lift_head {code : ECode} {off : Nat} {x : CInstr × Pos} {rest : Code} (h : CodeAt code off (lift (x :: rest))) :
    code[off]? = some (.base x.1, x.2) :=
  CodeAt.head (x := (.base x.1, x.2)) (rest := lift rest) h

/-- the body of a loop whose back-edge is a plain `Jump off` right behind the body (WHILE, `DO WHILE`, `DO UNTIL`): entered
either way; a normal end goes round the loop, a jump leaves it (the entry that follows the body is the back-edge) -/
theorem wl_body_then_loop {C : Ctx} (hC : C.Ok) {fuel : Nat} (ih : StmtIH C fuel) {loop body : SStmt} {sfx : String}
    {d e off bodyOff nx vb gd : Nat} {p : Pos}
    (hcl : CodeAt C.prog.code off (compileStmt C.env sfx d e off loop)) (hll : LabAt C.env d e off loop)
    (hwl : Wf C.sl C.env.dp C.rl d e loop) (hml : MarksAt C.prog.marks (marksStmt C.env.dp d e off loop) nx)
    (hnxl : off + sizeStmt C.env.dp d e loop ≤ nx)
    (hcb : CodeAt C.prog.code bodyOff (compileStmt C.env sfx d e bodyOff body)) (hlb : LabAt C.env d e bodyOff body)
    (hwb : Wf C.sl C.env.dp C.rl d e body)
    (hmb : MarksAt C.prog.marks (marksStmt C.env.dp d e bodyOff body) (bodyOff + sizeStmt C.env.dp d e body))
    (hjmp : C.prog.code[bodyOff + sizeStmt C.env.dp d e body]? = some (.base (.jump off), p))
    (m : Mode) (s : ESt) (τ0 : EVm)
    (hen0 : Entry C.env bodyOff body m τ0) (hrel0 : ERel C.sl C.env s τ0) (hi0 : Inv C d e vb gd τ0) :
    StmtSpec C d e vb (off + sizeStmt C.env.dp d e loop) nx τ0
      (match (generalizing := false) exec fuel C.P gd (desugar body) m s with
       | (s', .normal) => exec fuel C.P gd (desugar loop) .run s'
       | (s', .jump L) =>
         if (desugar body).hasLabel L = true then exec fuel C.P gd (desugar loop) (.seek L) s' else (s', .jump L)
       | r => r) := by
  have hb := ih body sfx d e bodyOff (bodyOff + sizeStmt C.env.dp d e body) vb gd m τ0 s hcb hlb hwb hmb (Nat.le_refl _)
    hen0 hrel0 hi0
  generalize hrb : exec fuel C.P gd (desugar body) m s = rb at hb ⊢
  obtain ⟨s1', o1⟩ := rb
  cases o1 with
  | normal =>
    obtain ⟨υ, st2, hp2, hrel2, a1, a2, a3, a4, a5⟩ := hb
    have hp2' : υ.b.pc = bodyOff + sizeStmt C.env.dp d e body := by
      rcases hp2 with h | h
      · exact h
      · exact h.1
    have s3 : step C.prog υ = .next { υ with b := { υ.b with pc := off } } :=
      wl_step_jump hC.pok (by rw [hp2']; exact hjmp)
    have hi2 : Inv C d e vb gd υ := inv_after hi0 a1 a2 a4 a5
    have hq3 : Quiet υ { υ with b := { υ.b with pc := off } } := ⟨rfl, rfl, rfl, rfl, rfl⟩
    have hloop := ih loop sfx d e off nx vb gd .run { υ with b := { υ.b with pc := off } } s1' hcl hll hwl hml hnxl rfl
      (hrel2.same (hrel2.base.setPc _)) (hq3.inv hi2)
    simp only
    exact StmtSpec.after st2 a1 a2 a3 a4 a5 (StmtSpec.of_steps (Steps.one s3) ⟨rfl, rfl, rfl, rfl, rfl⟩ hloop)
  | jump L =>
    simp only
    obtain ⟨hnl, hdep⟩ := Ctx.Ok.jump_depths hC.shape hwb hlb hrb
    by_cases hL : (desugar body).hasLabel L = true
    · exact absurd ((hasLabel_iff hwb L).mp hL) hnl
    · simp only [hL]
      exact hb
  | halted => exact hb
  | ret q => exact hb
  | resumed k => exact hb
  | error cd q => exact hb
  | inexact => trivial
  | outOfFuel => trivial
  | illFormed => trivial
  | unspec => trivial
  | notHere => trivial

theorem case_while (C : Ctx) (hC : C.Ok) (fuel : Nat) (ih : StmtIHle C fuel) (c : Ast.Expr) (body : SStmt) (p : Pos)
    (sfx : String) (d e off nx vb gd : Nat) (m : Mode) (σ : EVm) (s : ESt)
    (hc : CodeAt C.prog.code off (compileStmt C.env sfx d e off (.while c body p)))
    (hl : LabAt C.env d e off (.while c body p)) (hw : Wf C.sl C.env.dp C.rl d e (.while c body p))
    (hm : MarksAt C.prog.marks (marksStmt C.env.dp d e off (.while c body p)) nx)
    (hnx : off + sizeStmt C.env.dp d e (.while c body p) ≤ nx)
    (hen : Entry C.env off (.while c body p) m σ) (hr : ERel C.sl C.env s σ) (hi : Inv C d e vb gd σ) :
    StmtSpec C d e vb (off + sizeStmt C.env.dp d e (.while c body p)) nx σ
      (exec (fuel + 1) C.P gd (desugar (.while c body p)) m s) := by
  have hcw := hc
  have hw0 := hw
  simp only [compileStmt] at hc
  obtain ⟨hsc, hnc, hwb⟩ := hw
  obtain ⟨hu, hmb, _⟩ := marks_while hm
  have hlb := hl.while
  have hhead := hc.append_left.append_left
  rw [List.append_assoc, List.singleton_append] at hhead
  have hlab : C.prog.code[off]? = some (.base (.label (labelName "while" p sfx)), p) := wl_lift_head hhead
  have hcc : CodeAt C.prog.code (off + 1) (lift (compileExpr c ++
      [(CInstr.jumpIfFalse (off + 1 + (compileExpr c).length + 1 + sizeStmt C.env.dp d e body + 1), p)])) :=
    wl_lift_tail hhead
  have hcb : CodeAt C.prog.code (off + 1 + (compileExpr c).length + 1)
      (compileStmt C.env sfx d e (off + 1 + (compileExpr c).length + 1) body) := by
    have := hc.append_left.append_right
    simp only [lift_length, List.length_append, List.length_singleton, List.length_cons, List.length_nil] at this
    have e1 : off + (1 + (compileExpr c).length + 1) = off + 1 + (compileExpr c).length + 1 := by omega
    rw [e1] at this
    exact this
  have hcr := hc.append_right
  simp only [lift_length, List.length_append, List.length_singleton, List.length_cons, List.length_nil, len_stmt] at hcr
  have hjmp : C.prog.code[off + 1 + (compileExpr c).length + 1 + sizeStmt C.env.dp d e body]? =
      some (.base (.jump off), p) := by
    have := wl_lift_head hcr
    rw [← this]; congr 1; omega
  have hwend : C.prog.code[off + 1 + (compileExpr c).length + 1 + sizeStmt C.env.dp d e body + 1]? =
      some (.base (.label (labelName "wend" p sfx)), p) := by
    have := wl_lift_head (wl_lift_tail hcr)
    rw [← this]; congr 1; omega
  have hsize : sizeStmt C.env.dp d e (.while c body p) = 1 + (compileExpr c).length + 1 + sizeStmt C.env.dp d e body + 2 := by
    simp only [sizeStmt]
  have hent : m.enters (desugar (.while c body p)) = true := by
    cases m with
    | run => rfl
    | seek L => exact (hasLabel_iff hw0 L).mpr hen.1
  have hbody := fun mm ss τ0 h1 h2 h3 =>
    wl_body_then_loop (vb := vb) (gd := gd) hC ih.self hcw hl hw0 hm hnx hcb hlb hwb hmb hjmp mm ss τ0 h1 h2 h3
  simp only [desugar] at hent hbody ⊢
  cases m with
  | seek L =>
    -- entered at a label inside the body: no test
    have hLb : L ∈ body.labels := by simpa only [SStmt.labels] using hen.1
    simp only [exec, hent, if_true]
    exact hbody (.seek L) s σ ⟨hLb, hen.2⟩ hr hi
  | run =>
    have hpc : σ.b.pc = off := hen
    have s1 : step C.prog σ = .next { σ with b := JmpL.Vm.advance σ.b } :=
      wl_step_label hC.pok (by rw [hpc]; exact hlab)
    have hq1 : Quiet σ { σ with b := JmpL.Vm.advance σ.b } := ⟨rfl, rfl, rfl, rfl, rfl⟩
    have hr1 : ERel C.sl C.env s { σ with b := JmpL.Vm.advance σ.b } := hr.same hr.base.advance
    have hi1 : Inv C d e vb gd { σ with b := JmpL.Vm.advance σ.b } := hq1.inv hi
    have hcond := cond_unit hC ih (skipAs := true) hcc hu (Nat.le_succ off) (Nat.le_refl _) hsc hnc
      (show σ.b.pc + 1 = off + 1 by rw [hpc]) hr1 hi1
    refine StmtSpec.of_steps (Steps.one s1) hq1 ?_
    simp only [exec, hent, if_true]
    generalize hcu : condUnit fuel C.P gd c true s = rc at hcond ⊢
    obtain ⟨s1', dec⟩ := rc
    cases dec with
    | go b =>
      obtain ⟨τ, st, hrτ, a1, a2, a3, a4, a5, hp⟩ := hcond
      cases b with
      | false =>
        have hp' : τ.b.pc = off + 1 + (compileExpr c).length + 1 + sizeStmt C.env.dp d e body + 1 := by
          rcases hp with h | h
          · simpa using h
          · exact absurd h.1 (by simp)
        have s2 : step C.prog τ = .next { τ with b := JmpL.Vm.advance τ.b } :=
          wl_step_label hC.pok (by rw [hp']; exact hwend)
        simp only [StmtSpec]
        refine ⟨{ τ with b := JmpL.Vm.advance τ.b }, st.trans (Steps.one s2), .inl ?_, hrτ.same hrτ.base.advance,
          a1, a2, a3, a4, a5⟩
        show τ.b.pc + 1 = _
        rw [hp', hsize]; omega
      | true =>
        have hp' : τ.b.pc = off + 1 + (compileExpr c).length + 1 := by
          rcases hp with h | h
          · simpa using h
          · exact h.2.1
        simp only
        exact StmtSpec.after st a1 a2 a3 a4 a5 (hbody .run s1' τ hp' hrτ (inv_after hi1 a1 a2 a4 a5))
    | again =>
      obtain ⟨τ, st, hp, hrτ, a1, a2, a3, a4, a5⟩ := hcond
      have := ih.self (.while c body p) sfx d e off nx vb gd .run τ s1' hcw hl hw0 hm hnx hp hrτ
        (inv_after hi1 a1 a2 a4 a5)
      simp only [desugar] at this
      simp only
      exact StmtSpec.after st a1 a2 a3 a4 a5 this
    | out o =>
      obtain ⟨n1, n2, n3, n4, n5, hsp⟩ := hcond
      cases o with
      | normal => exact absurd rfl n1
      | ret q => exact absurd rfl (n2 q)
      | resumed k => exact absurd rfl (n3 k)
      | notHere => exact absurd rfl n4
      | jump L =>
        simp only
        by_cases hL : (desugar body).hasLabel L = true
        · simp only [hL, if_true]
          have hLw : L ∈ (SStmt.while c body p).labels := by
            simpa only [SStmt.labels] using (hasLabel_iff hwb L).mp hL
          have := restart_seek ih.self hcw hl hw0 hm hnx hi1 (hsp 0 0) (n5 L rfl) hLw
          simpa only [desugar] using this
        · simp only [hL]
          exact hsp _ _
      | halted => exact hsp _ _
      | error cd q => exact hsp _ _
      | inexact => trivial
      | outOfFuel => trivial
      | illFormed => trivial
      | unspec => trivial

end RbThm.ErrLSim
