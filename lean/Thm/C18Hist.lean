import Thm.C18
/-!
C18, part 2 — history-level theorems that compose the pieces of `Thm/C18.lean`:
several comma-separated fields per PRINT # line, APPEND followed by reading back, and PUT / GET lifted
from the bytes of the file to `step` on `State` (FIELD / LSET / PUT / GET with the field-list variables).
-/
namespace RbThm.C18
open RbModel.Files

/-! ## Helper: a stream that a scanner cuts into a given list of items -/

/-- The scanner `sc`, applied repeatedly to the stream `st`, returns the items `xs` one by one and leaves `fin`. -/
def Chain (sc : List Nat → Scan) : List Nat → List (List Nat) → List Nat → Prop
  | st, [], fin => st = fin
  | st, x :: xs, fin => st ≠ [] ∧ (sc st).val = .ok x ∧ Chain sc (sc st).rest xs fin

theorem Chain.append (sc : List Nat → Scan) (xs ys : List (List Nat)) (st mid fin : List Nat)
    (h1 : Chain sc st xs mid) (h2 : Chain sc mid ys fin) : Chain sc st (xs ++ ys) fin := by
  induction xs generalizing st with
  | nil => simp only [Chain] at h1; subst h1; exact h2
  | cons x xs ih => exact ⟨h1.1, h1.2.1, ih _ h1.2.2⟩

/-- Reading along a chain: EOF is false before every item, every read returns the next item. -/
theorem run_reads_chain (sc : List Nat → Scan) (hsc : 1 ≤ (sc []).looked) (h i v : Nat) (op : Op)
    (hop : ∀ s, step s op = doRead s h sc v) (hv : validHandle h = true) (xs : List (List Nat))
    (st fin : List Nat) (hch : Chain sc st xs fin) (s : State) (hr : ReaderAt s h i st) :
    (run s (xs.flatMap fun _ => [.eof h, op])).2 = (xs.flatMap fun x => [.flag false, .val x]) ∧
      ReaderAt (run s (xs.flatMap fun _ => [.eof h, op])).1 h i fin := by
  induction xs generalizing s st with
  | nil => simp only [Chain] at hch; subst hch; exact ⟨rfl, hr⟩
  | cons x rest ih =>
    obtain ⟨hne, hval, hrest⟩ := hch
    have he := doEof_at s h i _ hv hr
    have hne' : st.isEmpty = false := by cases st <;> simp_all
    have hd := doRead_at sc hsc (doEof s h).1 h i v _ hv he.2.1
    rw [hval] at hd
    have := ih _ hrest (doRead (doEof s h).1 h sc v).1 hd.2.1
    have e1 : ∀ s, step s (.eof h) = doEof s h := fun _ => rfl
    simp only [List.flatMap_cons, List.cons_append, List.nil_append, run, e1, hop]
    refine ⟨?_, this.2⟩
    rw [this.1, he.1, hd.1, hne']
    rfl

/-- A closed file whose contents the scanner cuts into `xs` with nothing left, opened FOR INPUT on a free
handle: EOF false / item, ..., then EOF true, one more read = Input past end of file, EOF still true. -/
theorem read_back_chain (sc : List Nat → Scan) (hsc : 1 ≤ (sc []).looked)
    (hend : (sc []).val = .error .unexpectedEof) (hendr : (sc []).rest = []) (op : Nat → Nat → Op)
    (hop : ∀ h v s, step s (op h v) = doRead s h sc v)
    (s : State) (h k i v : Nat) (xs : List (List Nat))
    (hv : validHandle h = true) (hc : alGet s.handles h = none)
    (hd : alGet s.fs.dir k = some (.file i)) (hch : Chain sc (s.fs.data i) xs []) :
    (run s ([.open h (.plain k) .input 0] ++ (xs.flatMap fun _ => [.eof h, op h v])
        ++ [.eof h, op h v, .eof h])).2
      = [.ok] ++ (xs.flatMap fun x => [.flag false, .val x]) ++ [.flag true, .err .inputPastEnd, .flag true] := by
  have ho := open_input_at s h k i 0 hv hc hd
  have hr := run_reads_chain sc hsc h i v (op h v) (hop h v) hv xs _ [] hch _ ho.2.1
  rw [run_append, run_append]
  simp only [run, List.append_assoc]
  generalize (run (step s (.open h (.plain k) .input 0)).1 (xs.flatMap fun _ => [Op.eof h, op h v])) = q at hr
  obtain ⟨s2, outs⟩ := q
  simp only at hr
  have he := doEof_at s2 h i [] hv hr.2
  have hd2 := doRead_at sc hsc (doEof s2 h).1 h i v [] hv he.2.1
  rw [hendr] at hd2
  have he2 := doEof_at (doRead (doEof s2 h).1 h sc v).1 h i [] hv hd2.2.1
  have e1 : ∀ s, step s (.eof h) = doEof s h := fun _ => rfl
  have ho1 : (step s (.open h (.plain k) .input 0)).2 = .ok := ho.1
  simp only [e1, hop, hr.1, he.1, hd2.1, he2.1, ho1, hend]
  simp [readOut, Err.ofIo]

/-! ## Lines and comma-separated fields as chains -/

theorem chain_lines (ls : List (List Nat)) (hls : ∀ l ∈ ls, NoCrLf l) (rest : List Nat) :
    Chain scanLine (encodeLines ls ++ rest) ls rest := by
  induction ls with
  | nil => simp [Chain, encodeLines]
  | cons l ls ih =>
    have e : encodeLines (l :: ls) ++ rest = l ++ 13 :: 10 :: (encodeLines ls ++ rest) := by simp [encodeLines]
    rw [e]
    have hs := scanLine_crlf l (encodeLines ls ++ rest) (hls l (by simp))
    refine ⟨by cases l <;> simp, by rw [hs], ?_⟩
    rw [hs]
    exact ih (fun l' hl' => hls l' (by simp [hl']))

/-- A comma-free, blank-trimmed field. -/
def GoodField (f : List Nat) : Prop := NoFieldEnd f ∧ trim f = f

/-- One PRINT # line of fields: joined by commas, ended by CR LF. -/
def encodeRow : List (List Nat) → List Nat
  | [] => [13, 10]
  | [f] => f ++ [13, 10]
  | f :: g :: fs => f ++ 44 :: encodeRow (g :: fs)

def encodeRows (rows : List (List (List Nat))) : List Nat := (rows.map encodeRow).flatten

/-- The PRINT # items that write a row: `f1; ","; f2; ","; ...`. -/
def rowItems : List (List Nat) → List (List Nat)
  | [] => []
  | [f] => [f]
  | f :: g :: fs => f :: [44] :: rowItems (g :: fs)

theorem chain_row (row : List (List Nat)) (hne : row ≠ []) (hg : ∀ f ∈ row, GoodField f) (rest : List Nat) :
    Chain scanField (encodeRow row ++ rest) row rest := by
  induction row with
  | nil => exact absurd rfl hne
  | cons f fs ih =>
    have hf := hg f (by simp)
    cases fs with
    | nil =>
      have e : encodeRow [f] ++ rest = f ++ 13 :: 10 :: rest := by simp [encodeRow]
      rw [e]
      have hs := scanField_crlf f rest hf.1 hf.2
      refine ⟨by cases f <;> simp, by rw [hs], ?_⟩
      rw [hs]
      rfl
    | cons g gs =>
      have e : encodeRow (f :: g :: gs) ++ rest = f ++ 44 :: (encodeRow (g :: gs) ++ rest) := by simp [encodeRow]
      rw [e]
      have hs := scanField_comma f (encodeRow (g :: gs) ++ rest) hf.1 hf.2
      refine ⟨by cases f <;> simp, by rw [hs], ?_⟩
      rw [hs]
      exact ih (by simp) (fun f' hf' => hg f' (by simp [hf']))

theorem chain_rows (rows : List (List (List Nat))) (hg : ∀ r ∈ rows, r ≠ [] ∧ ∀ f ∈ r, GoodField f)
    (rest : List Nat) : Chain scanField (encodeRows rows ++ rest) rows.flatten rest := by
  induction rows with
  | nil => simp [Chain, encodeRows]
  | cons r rs ih =>
    have e : encodeRows (r :: rs) ++ rest = encodeRow r ++ (encodeRows rs ++ rest) := by simp [encodeRows]
    rw [e, List.flatten_cons]
    exact Chain.append _ _ _ _ _ _ (chain_row r (hg r (by simp)).1 (hg r (by simp)).2 _)
      (ih (fun r' hr' => hg r' (by simp [hr'])))

theorem NoFieldEnd.noCrLf (f : List Nat) (h : NoFieldEnd f) : NoCrLf f := by
  intro c hc
  have := h c hc
  simp only [isFieldEnd, isCrLf, Bool.or_eq_false_iff] at this ⊢
  exact ⟨this.1.2, this.2⟩

theorem printBytes_row (row : List (List Nat)) (hne : row ≠ []) (hg : ∀ f ∈ row, NoFieldEnd f) :
    printBytes (rowItems row) true = encodeRow row := by
  induction row with
  | nil => exact absurd rfl hne
  | cons f fs ih =>
    have hf := expandCrLf_id f (NoFieldEnd.noCrLf f (hg f (by simp)))
    cases fs with
    | nil => simp [printBytes, rowItems, encodeRow, hf]
    | cons g gs =>
      have := ih (by simp) (fun f' hf' => hg f' (by simp [hf']))
      have h44 : expandCrLf [44] = [44] := by decide
      simp only [printBytes, rowItems, encodeRow, List.map_cons, List.flatten_cons, hf, h44, ↓reduceIte] at this ⊢
      rw [← this]
      simp

theorem printBytes_rows (rows : List (List (List Nat))) (hg : ∀ r ∈ rows, r ≠ [] ∧ ∀ f ∈ r, GoodField f) :
    ((rows.map fun r => (rowItems r, true)).map fun p => printBytes p.1 p.2).flatten = encodeRows rows := by
  rw [List.map_map]
  unfold encodeRows
  congr 1
  apply List.map_congr_left
  intro r hr
  simp [printBytes_row r (hg r hr).1 (fun f hf => ((hg r hr).2 f hf).1)]

theorem encodeLines_append (a b : List (List Nat)) : encodeLines (a ++ b) = encodeLines a ++ encodeLines b := by
  simp [encodeLines]

theorem encodeRows_append (a b : List (List (List Nat))) : encodeRows (a ++ b) = encodeRows a ++ encodeRows b := by
  simp [encodeRows]

/-! ## Property theorems: write, close, read back (OUTPUT and APPEND; lines and comma-separated fields) -/

/-- **write_close_read_lines**, OUTPUT and APPEND (with **append_keeps_prefix** at the level of what is read):
a file that holds the lines `old` (nothing is assumed about it FOR OUTPUT), opened FOR OUTPUT / APPEND on a free
handle, `PRINT #h, l` for every new line, CLOSE, reopened FOR INPUT: every operation succeeds, LINE INPUT # returns
the old lines (APPEND only) followed by the new lines, one by one and unchanged, EOF(h) is false before each of
them and true after the last, and one more LINE INPUT # raises Input past end of file. -/
theorem write_close_read_lines_any (s : State) (h k v : Nat) (app : Bool) (old lines : List (List Nat))
    (hv : validHandle h = true) (hc : alGet s.handles h = none) (hnd : alGet s.fs.dir k ≠ some .dir)
    (hwf : ∀ j, alGet s.fs.dir k = some (.file j) → j < s.fs.inodes.length)
    (hold : app = true → oldContent s k = encodeLines old)
    (hl : ∀ l ∈ (if app then old else []) ++ lines, NoCrLf l) :
    (run s (writeOps h k app (lines.map fun l => ([l], true))
        ++ ([.open h (.plain k) .input 0]
          ++ (((if app then old else []) ++ lines).flatMap fun _ => [.eof h, .lineInput h v])
          ++ [.eof h, .lineInput h v, .eof h]))).2
      = ([.ok] ++ lines.map (fun _ => Out.ok) ++ [.ok])
        ++ ([.ok] ++ (((if app then old else []) ++ lines).flatMap fun l => [.flag false, .val l])
          ++ [.flag true, .err .inputPastEnd, .flag true]) := by
  obtain ⟨h1, h2, i, h3, h4⟩ := write_phase s h k app hv hc hnd hwf (lines.map fun l => ([l], true))
  rw [printBytes_lines lines (fun l hl' => hl l (by simp [hl']))] at h4
  have hdata : (run s (writeOps h k app (lines.map fun l => ([l], true)))).1.fs.data i
      = encodeLines ((if app then old else []) ++ lines) := by
    rw [h4, encodeLines_append]
    cases app with
    | true => simp [hold rfl]
    | false => simp [encodeLines]
  have hch := chain_lines ((if app then old else []) ++ lines) hl []
  rw [List.append_nil, ← hdata] at hch
  rw [run_append]
  simp only
  rw [read_back_chain scanLine scanLine_looked (by simp [scanLine]) (by simp [scanLine]) Op.lineInput
    (fun _ _ _ => rfl) _ h k i v _ hv h2 h3 hch, h1]
  simp

/-- **write_close_read_lines** for INPUT # with several fields per line: rows of comma-free, blank-trimmed
fields written as `PRINT #h, f1; ","; f2; ...` come back field by field from INPUT # (after the fields of the
old rows when the file was opened FOR APPEND), with EOF exact and error 62 past the end. -/
theorem write_close_read_fields (s : State) (h k v : Nat) (app : Bool) (old rows : List (List (List Nat)))
    (hv : validHandle h = true) (hc : alGet s.handles h = none) (hnd : alGet s.fs.dir k ≠ some .dir)
    (hwf : ∀ j, alGet s.fs.dir k = some (.file j) → j < s.fs.inodes.length)
    (hold : app = true → oldContent s k = encodeRows old)
    (hg : ∀ r ∈ (if app then old else []) ++ rows, r ≠ [] ∧ ∀ f ∈ r, GoodField f) :
    (run s (writeOps h k app (rows.map fun r => (rowItems r, true))
        ++ ([.open h (.plain k) .input 0]
          ++ (((if app then old else []) ++ rows).flatten.flatMap fun _ => [.eof h, .input h v])
          ++ [.eof h, .input h v, .eof h]))).2
      = ([.ok] ++ rows.map (fun _ => Out.ok) ++ [.ok])
        ++ ([.ok] ++ (((if app then old else []) ++ rows).flatten.flatMap fun f => [.flag false, .val f])
          ++ [.flag true, .err .inputPastEnd, .flag true]) := by
  obtain ⟨h1, h2, i, h3, h4⟩ := write_phase s h k app hv hc hnd hwf (rows.map fun r => (rowItems r, true))
  rw [printBytes_rows rows (fun r hr => hg r (by simp [hr]))] at h4
  have hdata : (run s (writeOps h k app (rows.map fun r => (rowItems r, true)))).1.fs.data i
      = encodeRows ((if app then old else []) ++ rows) := by
    rw [h4, encodeRows_append]
    cases app with
    | true => simp [hold rfl]
    | false => simp [encodeRows]
  have hch := chain_rows ((if app then old else []) ++ rows) hg []
  rw [List.append_nil, ← hdata] at hch
  rw [run_append]
  simp only
  rw [read_back_chain scanField scanField_looked (by simp [scanField]) (by simp [scanField]) Op.input
    (fun _ _ _ => rfl) _ h k i v _ hv h2 h3 hch, h1]
  simp

example :
    (run emptyState (writeOps 1 0 false ([[[97], [98, 32, 99]], [[]]].map fun r => (rowItems r, true))
        ++ ([.open 1 (.plain 0) .input 0]
          ++ (([] ++ [[[97], [98, 32, 99]], [[]]]).flatten.flatMap fun _ => [.eof 1, .input 1 7])
          ++ [.eof 1, .input 1 7, .eof 1]))).2
      = ([.ok] ++ [[[97], [98, 32, 99]], [[]]].map (fun _ => Out.ok) ++ [.ok])
        ++ ([.ok] ++ (([] ++ [[[97], [98, 32, 99]], [[]]]).flatten.flatMap fun f => [.flag false, .val f])
          ++ [.flag true, .err .inputPastEnd, .flag true]) :=
  write_close_read_fields emptyState 1 0 7 false [] [[[97], [98, 32, 99]], [[]]] (by decide) rfl
    (by simp [emptyState, alGet]) (by simp [emptyState, alGet]) (by simp)
    (by simp [GoodField, NoFieldEnd]; decide)

/-- APPEND instance: a file holding the line "a", appended with "b", reads back "a", "b". -/
example :
    let s : State := { emptyState with fs := { inodes := [[97, 13, 10]], dir := [(0, .file 0)] } }
    (run s (writeOps 2 0 true ([[98]].map fun l => ([l], true))
        ++ ([.open 2 (.plain 0) .input 0] ++ (([[97]] ++ [[98]]).flatMap fun _ => [.eof 2, .lineInput 2 0])
          ++ [.eof 2, .lineInput 2 0, .eof 2]))).2
      = ([.ok] ++ [[98]].map (fun _ => Out.ok) ++ [.ok])
        ++ ([.ok] ++ (([[97]] ++ [[98]]).flatMap fun l => [.flag false, .val l])
          ++ [.flag true, .err .inputPastEnd, .flag true]) :=
  write_close_read_lines_any _ 2 0 0 true [[97]] [[98]] (by decide) rfl (by simp [alGet])
    (by simp [alGet]) (fun _ => by simp [oldContent, alGet, Fs.data, encodeLines])
    (by simp [NoCrLf]; decide)

/-! ## PUT / GET lifted to `step` -/

/-- Handle `h` is open FOR RANDOM on inode `i` with record length `L` and one FIELD list that fits a record. -/
def RandomAt (s : State) (h i L : Nat) (fields : List (Nat × Nat)) : Prop :=
  i < s.fs.inodes.length ∧ 0 < L ∧ sumWidths fields ≤ L ∧
    ∃ fi, alGet s.handles h = some fi ∧ fi.kind = .random i L ∧ fi.fieldLists = [fields] ∧ fi.current = some 0

theorem fixLength_length (b : List Nat) (w : Nat) : (fixLength b w).length = w := by
  simp [fixLength]; omega

theorem recordOf_length (s : State) (fields : List (Nat × Nat)) : (recordOf s fields).length = sumWidths fields := by
  induction fields with
  | nil => rfl
  | cons f fs ih =>
    simp only [recordOf, List.map_cons, List.flatten_cons, List.length_append, fixLength_length, sumWidths,
      List.sum_cons] at ih ⊢
    rw [ih]

theorem put_at (s : State) (h i L n : Nat) (fields : List (Nat × Nat)) (hv : validHandle h = true) (hn : 1 ≤ n)
    (hr : RandomAt s h i L fields) :
    step s (.put h n)
      = ({ s with fs := s.fs.setData i (putRecord (s.fs.data i) L n (recordOf s fields)) }, .ok) := by
  obtain ⟨_, hL, _, fi, hg, hk, hfl, hcur⟩ := hr
  have hn0 : ¬ n = 0 := by omega
  simp [step, doPut, hv, hn0, getInfo, hg, hcur, hfl, ensureRandom, hk, hL]

theorem get_at (s : State) (h i L n : Nat) (fields : List (Nat × Nat)) (hv : validHandle h = true) (hn : 1 ≤ n)
    (hr : RandomAt s h i L fields) :
    step s (.get h n)
      = ({ s with vars := assignFields (getRecord (s.fs.data i) L n) fields 0 s.vars }, .ok) := by
  obtain ⟨_, hL, _, fi, hg, hk, hfl, hcur⟩ := hr
  have hn0 : ¬ n = 0 := by omega
  simp [step, doGet, hv, hn0, getInfo, hg, hfl, ensureRandom, hk, hL]

/-- LSET marks a current field list somewhere; every handle keeps its kind and field lists, and its current
list either stays or becomes the index of a list that uses the variable. -/
theorem markCurrent_get (v : Nat) (hs hs' : List (Nat × FileInfo)) (hm : markCurrent v hs = some hs') (h : Nat)
    (fi : FileInfo) (hg : alGet hs h = some fi) :
    ∃ c, alGet hs' h = some { fi with current := c } ∧
      (c = fi.current ∨ ∃ idx, findList v fi.fieldLists 0 = some idx ∧ c = some idx) := by
  induction hs generalizing hs' with
  | nil => simp [alGet] at hg
  | cons p rest ih =>
    obtain ⟨k, fk⟩ := p
    simp only [markCurrent] at hm
    split at hm
    · rename_i idx hidx
      simp only [Option.some.injEq] at hm
      subst hm
      simp only [alGet] at hg ⊢
      split
      · rename_i hkh
        simp only [hkh, ↓reduceIte, Option.some.injEq] at hg
        subst hg
        exact ⟨some idx, rfl, Or.inr ⟨idx, hidx, rfl⟩⟩
      · rename_i hkh
        simp only [hkh, ↓reduceIte] at hg
        exact ⟨fi.current, by rw [hg], Or.inl rfl⟩
    · split at hm
      · rename_i rest' hrest
        simp only [Option.some.injEq] at hm
        subst hm
        simp only [alGet] at hg ⊢
        split
        · rename_i hkh
          simp only [hkh, ↓reduceIte, Option.some.injEq] at hg
          subst hg
          exact ⟨fk.current, rfl, Or.inl rfl⟩
        · rename_i hkh
          simp only [hkh, ↓reduceIte] at hg
          exact ih rest' hrest hg
      · simp at hm

theorem lset_preserves (s : State) (h i L v : Nat) (val : List Nat) (fields : List (Nat × Nat))
    (hr : RandomAt s h i L fields) :
    RandomAt (step s (.lset v val)).1 h i L fields ∧ (step s (.lset v val)).1.fs = s.fs := by
  simp only [step, doLset]
  split
  · exact ⟨hr, rfl⟩
  · rename_i hs' hm
    refine ⟨?_, rfl⟩
    obtain ⟨h1, h2, h3, fi, hg, hk, hfl, hcur⟩ := hr
    obtain ⟨c, hg', hc⟩ := markCurrent_get v s.handles hs' hm h fi hg
    refine ⟨h1, h2, h3, { fi with current := c }, hg', hk, hfl, ?_⟩
    rcases hc with hc | ⟨idx, hidx, hc⟩
    · rw [hc]; exact hcur
    · rw [hfl] at hidx
      simp only [findList] at hidx
      split at hidx
      · simp only [Option.some.injEq] at hidx
        subst hidx
        exact hc
      · simp at hidx

/-- What may happen between the PUT and the GET of record `n`: LSETs and PUTs to other record numbers. -/
def OtherOp (h n : Nat) (op : Op) : Prop :=
  (∃ v val, op = .lset v val) ∨ (∃ m, op = .put h m ∧ 1 ≤ m ∧ m ≠ n)

theorem run_others (h i L n : Nat) (fields : List (Nat × Nat)) (hv : validHandle h = true) (hn : 1 ≤ n)
    (ops : List Op) (hops : ∀ op ∈ ops, OtherOp h n op) (s : State) (hr : RandomAt s h i L fields) :
    RandomAt (run s ops).1 h i L fields ∧
      getRecord ((run s ops).1.fs.data i) L n = getRecord (s.fs.data i) L n := by
  induction ops generalizing s with
  | nil => exact ⟨hr, rfl⟩
  | cons op rest ih =>
    simp only [run]
    rcases hops op (by simp) with ⟨v, val, hop⟩ | ⟨m, hop, hm1, hmn⟩
    · subst hop
      have hl := lset_preserves s h i L v val fields hr
      have := ih (fun o ho => hops o (by simp [ho])) _ hl.1
      exact ⟨this.1, by rw [this.2, hl.2]⟩
    · subst hop
      have hp := put_at s h i L m fields hv hm1 hr
      have hi := hr.1
      have hr' : RandomAt (step s (.put h m)).1 h i L fields := by
        rw [hp]
        obtain ⟨h1, h2, h3, fi, hg, hk, hfl, hcur⟩ := hr
        exact ⟨by simp [Fs.setData]; exact h1, h2, h3, fi, hg, hk, hfl, hcur⟩
      have := ih (fun o ho => hops o (by simp [ho])) _ hr'
      refine ⟨this.1, ?_⟩
      rw [this.2, hp]
      simp only [data_setData _ _ _ hi]
      exact get_put_other _ _ L m n hm1 hn hmn (by rw [recordOf_length]; exact hr.2.2.1)

theorem assignFields_other (bytes : List Nat) (fields : List (Nat × Nat)) (start v : Nat)
    (vars : List (Nat × List Nat)) (hv : v ∉ fields.map (·.2)) :
    alGet (assignFields bytes fields start vars) v = alGet vars v := by
  induction fields generalizing start vars with
  | nil => rfl
  | cons f fs ih =>
    obtain ⟨w, u⟩ := f
    simp only [List.map_cons, List.mem_cons, not_or] at hv
    simp only [assignFields]
    rw [ih _ _ hv.2, alGet_alSet_ne _ _ _ _ hv.1]

/-- GET hands every variable of the field list its slice of the record. -/
theorem assignFields_recordOf (s0 : State) (bytes : List Nat) (fields : List (Nat × Nat)) (start : Nat)
    (vars : List (Nat × List Nat)) (hnd : (fields.map (·.2)).Nodup)
    (hb : (bytes.drop start).take (sumWidths fields) = recordOf s0 fields) :
    ∀ f ∈ fields, alGet (assignFields bytes fields start vars) f.2 = some (fixLength (s0.var f.2) f.1) := by
  induction fields generalizing start vars with
  | nil => intro f hf; simp at hf
  | cons g gs ih =>
    obtain ⟨w, u⟩ := g
    simp only [List.map_cons, List.nodup_cons] at hnd
    have hrec : recordOf s0 ((w, u) :: gs) = fixLength (s0.var u) w ++ recordOf s0 gs := by simp [recordOf]
    have hsum : sumWidths ((w, u) :: gs) = w + sumWidths gs := by simp [sumWidths]
    rw [hrec, hsum] at hb
    have h1 : (bytes.drop start).take w = fixLength (s0.var u) w := by
      have := congrArg (List.take w) hb
      rw [List.take_take, List.take_append_of_le_length (by rw [fixLength_length]; omega)] at this
      rw [Nat.min_eq_left (by omega)] at this
      rw [this, List.take_of_length_le (by rw [fixLength_length]; omega)]
    have h2 : (bytes.drop (start + w)).take (sumWidths gs) = recordOf s0 gs := by
      have := congrArg (List.drop w) hb
      rw [List.drop_take, List.drop_drop, List.drop_append_of_le_length (by rw [fixLength_length]; omega)] at this
      have hz : List.drop w (fixLength (s0.var u) w) = [] :=
        List.drop_of_length_le (by rw [fixLength_length]; omega)
      rw [hz, Nat.add_sub_cancel_left, List.nil_append] at this
      exact this
    intro f hf
    simp only [assignFields]
    rcases List.mem_cons.mp hf with hf | hf
    · subst hf
      rw [assignFields_other _ _ _ _ _ hnd.1, alGet_alSet_same, h1]
    · exact ih _ _ hnd.2 h2 f hf

/-- **put_get_same_record** on `State`: on a handle open FOR RANDOM with a FIELD list (distinct variables) that
fits the record length, `PUT #h, n`, then any sequence of LSETs and of PUTs to other record numbers, then
`GET #h, n`: PUT and GET succeed, and every FIELD variable holds what it held at the PUT, padded with zero
bytes or cut to its field width (the real code's `fix_length`). -/
theorem put_get_same_record (s : State) (h i L n : Nat) (fields : List (Nat × Nat)) (others : List Op)
    (hv : validHandle h = true) (hn : 1 ≤ n) (hr : RandomAt s h i L fields)
    (hops : ∀ op ∈ others, OtherOp h n op) (hnd : (fields.map (·.2)).Nodup) :
    (step s (.put h n)).2 = .ok ∧
      (step (run (step s (.put h n)).1 others).1 (.get h n)).2 = .ok ∧
      ∀ f ∈ fields, (run s ([.put h n] ++ others ++ [.get h n])).1.var f.2 = fixLength (s.var f.2) f.1 := by
  have hp := put_at s h i L n fields hv hn hr
  have hi := hr.1
  have hr1 : RandomAt (step s (.put h n)).1 h i L fields := by
    rw [hp]
    obtain ⟨h1, h2, h3, fi, hg, hk, hfl, hcur⟩ := hr
    exact ⟨by simp [Fs.setData]; exact h1, h2, h3, fi, hg, hk, hfl, hcur⟩
  have ho := run_others h i L n fields hv hn others hops _ hr1
  have hg := get_at _ h i L n fields hv hn ho.1
  refine ⟨by rw [hp], by rw [hg], ?_⟩
  intro f hf
  rw [run_append, run_append]
  simp only [run]
  rw [hg]
  simp only [State.var]
  rw [assignFields_recordOf s _ fields 0 _ hnd ?_ f hf]
  · rfl
  · rw [ho.2, hp]
    simp only [data_setData _ _ _ hi, List.drop_zero]
    rw [← recordOf_length s fields]
    exact get_put_same_take _ _ L n (by rw [recordOf_length]; exact hr.2.2.1)

example : RandomAt (run emptyState [.open 1 (.plain 0) .random 4, .field 1 [(3, 0), (1, 1)]]).1 1 0 4 [(3, 0), (1, 1)] :=
  ⟨by decide, by decide, by decide, _, rfl, rfl, rfl, rfl⟩

example : ∀ f ∈ [(3, 0), (1, 1)],
    (run ((run emptyState [.open 1 (.plain 0) .random 4, .field 1 [(3, 0), (1, 1)], .lset 0 [112, 113]]).1)
      ([.put 1 2] ++ [.lset 0 [90], .put 1 1, .lset 1 [89], .put 1 3] ++ [.get 1 2])).1.var f.2
      = fixLength ((run emptyState [.open 1 (.plain 0) .random 4, .field 1 [(3, 0), (1, 1)], .lset 0 [112, 113]]).1.var f.2) f.1 :=
  (put_get_same_record _ 1 0 4 2 [(3, 0), (1, 1)] [.lset 0 [90], .put 1 1, .lset 1 [89], .put 1 3] (by decide)
    (by decide) ⟨by decide, by decide, by decide, _, rfl, rfl, rfl, rfl⟩
    (by
      intro op hop
      simp only [List.mem_cons, List.mem_nil_iff, or_false] at hop
      rcases hop with h | h | h | h <;> subst h
      · exact Or.inl ⟨_, _, rfl⟩
      · exact Or.inr ⟨1, rfl, by decide, by decide⟩
      · exact Or.inl ⟨_, _, rfl⟩
      · exact Or.inr ⟨3, rfl, by decide, by decide⟩)
    (by decide)).2.2

end RbThm.C18
