import Thm.JmpLSim
import Thm.JmpLProps
import Thm.C08Layers2
/-!
# C05 at VM level — GOTO / GOSUB / RETURN on the stacks of the VM model of the jump layer

`Thm/JmpLProps.lean` states the GOTO / GOSUB / RETURN clauses of C05 over the reference semantics `JmpL.Ref` (which has no
addresses and no stacks).  `Thm/C05Frames.lean` states the frame discipline over an edge model of the generator.  Here the
clauses are stated over the VM model `JmpL.Vm` running the code of the generator model `JmpL.Compile`, where the register
stack (`PushRegisters` frames: the limit and the step of a FOR live in registers C and D of the frame that the loop head
pushes before its body), the value stack (SELECT CASE selectors) and the GOSUB stack (address of the `GoSub` + the two
recorded heights) are explicit.  Every theorem is an instance of the statement theorem `JmpLSim.compileStmt_correct`
(relative `StmtSpec`) or of the program theorem, for an arbitrary consistent program context `C` (`Ctx.Ok`; for a program
passing `progWfB`: `progCtx prog`, `progCtx_ok`), at any FOR / SELECT depth, on top of any stacks, for any fuel.

* instruction level: `gosub_step`, `return_step` (whatever frames `X` / operands `Y` the routine left on top),
  `return_step_empty` (error 3 at the `Return`'s own position);
* **`gosub_return_continues_after_vm`** — a `GoSub` whose routine (the nested reference run entered at the label) ends in a
  RETURN — executed anywhere: inside any nest of the routine's own FOR / SELECT / WHILE / IF, after leaving the routine by
  GOTO, after nested GOSUBs — is followed by a VM run that arrives at the instruction after the `GoSub` with the register
  stack, the value stack, the var-path stack and the GOSUB stack as they were, and the variables / output of the routine's
  final state;
* **`jump_leaves_frames_vm`** (any statement, e.g. a nest of FORs, answering `jump L`), `goto_pops_frames_vm` (one GOTO),
  **`jump_keeps_enclosing_frames_vm`** (`regStack = R₀ ++ R₁`, `|R₀| = d − fd L` ⟹ at the label the register stack is `R₁`:
  the frames — limit and step — of the FORs that enclose the label are untouched) and `jump_within_body_keeps_stacks_vm`
  (label at the depths of the statement: all four stacks as at the entry);
* **`return_without_gosub_vm`** — a RETURN reached at top level with nothing pending: the VM stands at that `Return`
  instruction with an empty GOSUB stack and the next step is error 3 at the RETURN's own position (bounded-run form
  included).
-/
namespace RbThm.C05Vm
set_option linter.unusedVariables false
set_option linter.unusedSimpArgs false
open RbModel RbModel.Num RbModel.JmpL RbModel.JmpL.Compile RbModel.JmpL.Vm
open RbModel.Ast (Pos PrintItem CaseExpr)
open RbModel.Ref (St)
open RbModel.JmpL.Ref
open RbThm.JmpLSim

/-! ### the three instructions, one step each -/

/-- `GoSub a`: the address of the `GoSub` and the heights of the register stack (current frame counted) and of the value
stack are pushed on the GOSUB stack; the run continues at `a` -/
theorem gosub_step (code : Code) (σ : Vm) (a : Nat) (p : Pos) (h : code[σ.pc]? = some (.goSub a, p)) :
    Vm.step code σ =
      .next { σ with pc := a, gosubs := (σ.pc, σ.regStack.length + 1, σ.vals.length) :: σ.gosubs } := by
  simp only [Vm.step, h]

/-- `Return` with a pending GOSUB recorded at register height `|R| + 1` and value height `|V|`: **whatever frames `X` and
operands `Y` are on top** (the routine's own FOR frames and SELECT selectors, at any nesting), the run continues at the
instruction after the `GoSub` with exactly `R` and `V` left and the entry popped -/
theorem return_step (code : Code) (τ : Vm) (p : Pos) (a : Nat) (R X : List Regs) (V Y : List Val)
    (G : List (Nat × Nat × Nat)) (h : code[τ.pc]? = some (.ret, p))
    (hg : τ.gosubs = (a, R.length + 1, V.length) :: G) (hR : τ.regStack = X ++ R) (hV : τ.vals = Y ++ V) :
    ∃ r', Vm.step code τ = .next { τ with pc := a + 1, regs := r', regStack := R, vals := V, gosubs := G } := by
  obtain ⟨r', hr'⟩ := truncTop_frames R X τ.regs
  refine ⟨r', ?_⟩
  have ht : truncTop (R.length + 1) (τ.regs :: τ.regStack) = r' :: R := by rw [hR]; exact hr'
  have hv : truncTop V.length τ.vals = V := by rw [hV]; exact truncTop_vals _ _
  simp only [Vm.step, h, hg, ht, hv]

/-- `Return` with an empty GOSUB stack: error 3 (RETURN without GOSUB) at the position of that `Return` -/
theorem return_step_empty (code : Code) (τ : Vm) (p : Pos) (h : code[τ.pc]? = some (.ret, p)) (hg : τ.gosubs = []) :
    Vm.step code τ = .error 3 p τ := by
  simp only [Vm.step, h, hg]
  rfl

/-! ### GOSUB … RETURN -/

/-- **after `GOSUB L … RETURN` the VM continues at the instruction after the `GoSub`, all stacks as they were.**
`σ` stands at a `GoSub` of label `L` (a label at FOR / SELECT depth 0: what `progWfB` asks of a GOSUB target) anywhere
in the code, on top of any register / value / GOSUB stacks; the routine — the nested reference run of the whole program
entered at `L` — ends in a RETURN at some position `q`: inside any nest of its own FOR / SELECT / WHILE / IF (its frames and
selectors are then still on the stacks: `Return` cuts them), possibly after nested GOSUBs or after leaving the routine's text
by GOTO.  Then the VM run arrives at `σ.pc + 1` with the register stack, the value stack, the var-path stack and the GOSUB
stack **equal** to those of `σ`, and with the variables, the output and the READ cursor of the routine's final state. -/
theorem gosub_return_continues_after_vm (C : Ctx) (hC : C.Ok) (n L : Nat) (p q : Pos) (σ : Vm) (s : St)
    (hi : C.code[σ.pc]? = some (.goSub (C.env.addr L), p))
    (hL : C.env.dp.fd L = 0 ∧ C.env.dp.sd L = 0) (hr : Rel C.sl s σ)
    (hret : (exec n C.P C.P (.seek L) s).2 = .ret q) :
    ∃ τ, Steps C.code σ τ ∧ τ.pc = σ.pc + 1 ∧ Rel C.sl (exec n C.P C.P (.seek L) s).1 τ ∧
      τ.regStack = σ.regStack ∧ τ.vals = σ.vals ∧ τ.paths = σ.paths ∧ τ.gosubs = σ.gosubs := by
  have hc : CodeAt C.code σ.pc (compileStmt C.env "" 0 0 σ.pc (.gosub L p)) := by
    intro i hi'
    simp only [compileStmt, List.length_singleton] at hi'
    have : i = 0 := by omega
    subst this
    simpa [compileStmt] using hi
  have hl : LabAt C.env 0 0 σ.pc (.gosub L p) :=
    ⟨by intro L a h; simp [addrTable] at h, by intro L d' e' h; simp [depthTable] at h⟩
  have h := compileStmt_correct C hC (n + 1) (.gosub L p) "" 0 0 σ.pc .run σ s hc hl hL rfl hr
    (Nat.zero_le _) (Nat.zero_le _)
  have hx : exec (n + 1) C.P (desugar (.gosub L p)) .run s = ((exec n C.P C.P (.seek L) s).1, .normal) := by
    rw [desugar, RbThm.JmpLRef.exec_gosub]
    generalize exec n C.P C.P (.seek L) s = r at hret ⊢
    obtain ⟨s1, o⟩ := r
    simp only at hret
    subst hret
    rfl
  rw [hx] at h
  obtain ⟨τ, st, hp, hrel, h1, h2, h3, h4⟩ := h
  exact ⟨τ, st, by simpa [sizeStmt] using hp, hrel, h1, h2, h3, h4⟩

/-! ### GOTO -/

/-- **a jump that leaves a statement removes exactly the frames and selectors of the constructs it leaves.**  `stmt` is any
statement — think of a nest of FORs — placed anywhere at FOR depth `d` and SELECT depth `e`, entered in either way on top of
any stacks at least that high; the reference semantics says it ends in `jump L` (a `GOTO L` was executed somewhere inside and
the jump left `stmt`).  Then `L` is not a label of `stmt`, it is not deeper than `stmt` (`fd L ≤ d`, `sd L ≤ e`), and the VM
arrives at the `Label` address of `L` with the register stack of the entry state minus its `d − fd L` top frames, the value
stack minus its `e − sd L` top entries, the var-path stack and the GOSUB stack as they were. -/
theorem jump_leaves_frames_vm (C : Ctx) (hC : C.Ok) (fuel : Nat) (stmt : SStmt) (sfx : String) (d e off : Nat) (m : Mode)
    (σ : Vm) (s : St) (L : Nat)
    (hc : CodeAt C.code off (compileStmt C.env sfx d e off stmt)) (hl : LabAt C.env d e off stmt)
    (hw : Wf C.sl C.env.dp d e stmt) (hen : Entry C.env off stmt m σ) (hr : Rel C.sl s σ)
    (hd : d ≤ σ.regStack.length) (he : e ≤ σ.vals.length)
    (hj : (exec fuel C.P (desugar stmt) m s).2 = .jump L) :
    L ∉ stmt.labels ∧ C.env.dp.fd L ≤ d ∧ C.env.dp.sd L ≤ e ∧
    ∃ τ, Steps C.code σ τ ∧ τ.pc = C.env.addr L ∧ Rel C.sl (exec fuel C.P (desugar stmt) m s).1 τ ∧
      τ.regStack = σ.regStack.drop (d - C.env.dp.fd L) ∧ τ.vals = σ.vals.drop (e - C.env.dp.sd L) ∧
      τ.paths = σ.paths ∧ τ.gosubs = σ.gosubs := by
  have h := compileStmt_correct C hC fuel stmt sfx d e off m σ s hc hl hw hen hr hd he
  generalize hx : exec fuel C.P (desugar stmt) m s = r at h hj
  obtain ⟨s', o⟩ := r
  simp only at hj
  subst hj
  obtain ⟨h1, h2, h3⟩ := jump_depths hw hx
  exact ⟨h1, h2, h3, h⟩

/-- **the frames of the FORs that enclose the label are untouched**: split the register stack of the entry state as
`R₀ ++ R₁` with `R₀` the `d − fd L` frames of the FORs the jump leaves (`stmt` lies inside them, the label does not); at the
label the register stack is `R₁` — its top frame is the frame of the innermost FOR around the label, with the limit and the
step that FOR stored in it (registers C and D), and every frame below it is as it was. -/
theorem jump_keeps_enclosing_frames_vm (C : Ctx) (hC : C.Ok) (fuel : Nat) (stmt : SStmt) (sfx : String) (d e off : Nat)
    (m : Mode) (σ : Vm) (s : St) (L : Nat) (R₀ R₁ : List Regs)
    (hc : CodeAt C.code off (compileStmt C.env sfx d e off stmt)) (hl : LabAt C.env d e off stmt)
    (hw : Wf C.sl C.env.dp d e stmt) (hen : Entry C.env off stmt m σ) (hr : Rel C.sl s σ)
    (hR : σ.regStack = R₀ ++ R₁) (h0 : R₀.length = d - C.env.dp.fd L) (hd : d ≤ σ.regStack.length)
    (he : e ≤ σ.vals.length) (hj : (exec fuel C.P (desugar stmt) m s).2 = .jump L) :
    ∃ τ, Steps C.code σ τ ∧ τ.pc = C.env.addr L ∧ Rel C.sl (exec fuel C.P (desugar stmt) m s).1 τ ∧
      τ.regStack = R₁ ∧ τ.gosubs = σ.gosubs := by
  obtain ⟨_, _, _, τ, st, hp, hrel, h1, _, _, h4⟩ :=
    jump_leaves_frames_vm C hC fuel stmt sfx d e off m σ s L hc hl hw hen hr hd he hj
  refine ⟨τ, st, hp, hrel, ?_, h4⟩
  rw [h1, hR, ← h0, List.drop_left]

/-- a jump to a label at the depths of the statement itself (a GOTO out of a nest of FORs to a label of the body that
contains the nest; a `continue`-like jump): all four stacks are those of the entry state -/
theorem jump_within_body_keeps_stacks_vm (C : Ctx) (hC : C.Ok) (fuel : Nat) (stmt : SStmt) (sfx : String) (d e off : Nat)
    (m : Mode) (σ : Vm) (s : St) (L : Nat)
    (hc : CodeAt C.code off (compileStmt C.env sfx d e off stmt)) (hl : LabAt C.env d e off stmt)
    (hw : Wf C.sl C.env.dp d e stmt) (hen : Entry C.env off stmt m σ) (hr : Rel C.sl s σ)
    (hd : d ≤ σ.regStack.length) (he : e ≤ σ.vals.length)
    (hj : (exec fuel C.P (desugar stmt) m s).2 = .jump L) (hfd : C.env.dp.fd L = d) (hsd : C.env.dp.sd L = e) :
    ∃ τ, Steps C.code σ τ ∧ τ.pc = C.env.addr L ∧ Rel C.sl (exec fuel C.P (desugar stmt) m s).1 τ ∧
      τ.regStack = σ.regStack ∧ τ.vals = σ.vals ∧ τ.paths = σ.paths ∧ τ.gosubs = σ.gosubs := by
  obtain ⟨_, _, _, τ, st, hp, hrel, h1, h2, h3, h4⟩ :=
    jump_leaves_frames_vm C hC fuel stmt sfx d e off m σ s L hc hl hw hen hr hd he hj
  refine ⟨τ, st, hp, hrel, ?_, ?_, h3, h4⟩
  · rw [h1, hfd, Nat.sub_self, List.drop_zero]
  · rw [h2, hsd, Nat.sub_self, List.drop_zero]

/-- **one GOTO**: the code of `GOTO L` at FOR depth `d`, SELECT depth `e` (`d − fd L` `PopRegisters`, `e − sd L`
`PopValueStackIntoA`, `Jump`) run from any state whose stacks are at least that high arrives at the resolved address of `L`
with exactly those frames and selectors removed, the variables, the output, the var-path stack and the GOSUB stack untouched.
(No premise on the context: this is the generator's emission alone.) -/
theorem goto_pops_frames_vm (C : Ctx) (L : Nat) (p : Pos) (d e : Nat) (σ : Vm) (s : St)
    (hc : CodeAt C.code σ.pc (compileGoto C.env d e L p)) (hr : Rel C.sl s σ)
    (hd : d ≤ σ.regStack.length) (he : e ≤ σ.vals.length) :
    ∃ τ, Steps C.code σ τ ∧ τ.pc = C.env.addr L ∧ Rel C.sl s τ ∧
      τ.regStack = σ.regStack.drop (d - C.env.dp.fd L) ∧ τ.vals = σ.vals.drop (e - C.env.dp.sd L) ∧
      τ.paths = σ.paths ∧ τ.gosubs = σ.gosubs := by
  have h := case_goto C 0 L p "" d e σ.pc .run σ s (by simpa [compileStmt] using hc) rfl hr hd he
  simpa [desugar, exec, StmtSpec] using h

/-! ### RETURN without GOSUB -/

/-- **RETURN with nothing pending, at top level, is error 3 at that RETURN.**  For a program passing `progWfB`: if the
reference run of the body answers `ret p` at the top (a RETURN at position `p` was executed — at top level or inside any nest
of FOR / SELECT / WHILE / IF of the main module — while no GOSUB was waiting), the VM run from the initial state reaches a
state `τ` standing at a `Return` instruction carrying position `p`, with an **empty GOSUB stack** and the variables and
output of the reference state, and its next step is error 3 at `p`. -/
theorem return_without_gosub_vm (prog : SProgram) (fuel : Nat) (hw : progWfB prog = true) (s' : St) (p : Pos)
    (h : exec fuel (desugar prog.body) (desugar prog.body) .run (startSt prog) = (s', .ret p)) :
    JmpL.Ref.run fuel prog.toAst = (s', .error 3 p) ∧
    ∃ τ, Steps (compile prog) (Vm.init prog.slots) τ ∧ (compile prog)[τ.pc]? = some (.ret, p) ∧ τ.gosubs = [] ∧
      τ.env = s'.env ∧ τ.out = s'.out ∧ Vm.step (compile prog) τ = .error 3 p τ := by
  have hpw := progWfB_sound prog hw
  have hC := progCtx_ok prog hpw
  refine ⟨by rw [run_eq, h]; rfl, ?_⟩
  obtain ⟨σ1, st1, hp1, hrel1, hg1⟩ := data_phase prog
  have hs := compileStmt_correct (progCtx prog) hC fuel (strip prog.body) "" 0 0 (progCtx prog).base .run σ1
    (startSt prog) hC.hcode hC.lab hC.wf hp1 hrel1 (Nat.zero_le _) (Nat.zero_le _)
  rw [progCtx_P, desugar_strip, h] at hs
  obtain ⟨τ, st, hret, hrel, _, _, _, hgs⟩ := hs
  have hret' : (compile prog)[τ.pc]? = some (CInstr.ret, p) := hret
  have hg : τ.gosubs = [] := by rw [hgs]; exact hg1
  exact ⟨τ, st1.trans st, hret', hg, hrel.env, hrel.out, return_step_empty _ τ p hret' hg⟩

/-- the same for the bounded interpreter: every sufficient step budget ends in error 3 at the RETURN's position -/
theorem return_without_gosub_run (prog : SProgram) (fuel : Nat) (hw : progWfB prog = true) (s' : St) (p : Pos)
    (h : exec fuel (desugar prog.body) (desugar prog.body) .run (startSt prog) = (s', .ret p)) :
    ∃ n υ, (∀ m, n ≤ m → Vm.run (compile prog) m (Vm.init prog.slots) = .error 3 p υ) ∧ υ.gosubs = [] ∧
      υ.env = s'.env ∧ υ.out = s'.out := by
  obtain ⟨_, τ, st, _, hg, he, ho, hstep⟩ := return_without_gosub_vm prog fuel hw s' p h
  obtain ⟨n, hn⟩ := run_of_steps_error _ st hstep
  exact ⟨n, τ, hn, hg, he, ho⟩

/-! ### non-vacuity -/

section Examples
open RbThm.C08Layers2.Jumps (demo demoRet)

/-- a start state of the VM at address `a` on top of given stacks, related to the program's start state -/
def at_ (prog : SProgram) (a : Nat) (R : List Regs) (V : List Val) (G : List (Nat × Nat × Nat)) : Vm :=
  { Vm.init prog.slots with pc := a, regStack := R, vals := V, gosubs := G }

theorem rel_at (prog : SProgram) (hd : dataOf prog.body = []) (a : Nat) (R V G) :
    Rel prog.slots (startSt prog) (at_ prog a R V G) :=
  ⟨rfl, typed_init prog.slots, rfl, rfl, by simp [at_, Vm.init, startSt, hd], rfl, rfl⟩

def fr (k : Int) : Regs := ⟨.int 0, .int 0, .int k, .int 1⟩

/-- `demo 0` (`X% = 0 : GOSUB 0 : … : 0: FOR I% = 1 TO 3 : X% = X% + 1 : IF I% = 2 THEN RETURN : NEXT : RETURN : …`): the
`GoSub` is instruction 3; the routine RETURNs at ⟨8, 18⟩ **from inside its own FOR body** (its frame is on the register stack
at that moment).  From a state at the `GoSub` on top of two frames, a selector and a pending GOSUB, the VM arrives at
instruction 4 with exactly those stacks. -/
example : ∃ τ, Steps (compile (demo 0)) (at_ (demo 0) 3 [fr 7, fr 9] [.int 5] [(40, 1, 0)]) τ ∧ τ.pc = 4 ∧
    τ.regStack = [fr 7, fr 9] ∧ τ.vals = [.int 5] ∧ τ.gosubs = [(40, 1, 0)] ∧ τ.env = [.int 2, .int 2] := by
  have hC := progCtx_ok (demo 0) (progWfB_sound _ (by decide +kernel))
  obtain ⟨τ, st, hp, hrel, h1, h2, _, h4⟩ :=
    gosub_return_continues_after_vm (progCtx (demo 0)) hC 50 0 ⟨2, 1⟩ ⟨8, 18⟩
      (at_ (demo 0) 3 [fr 7, fr 9] [.int 5] [(40, 1, 0)]) (startSt (demo 0))
      (by decide +kernel) (by decide +kernel) (rel_at _ rfl _ _ _ _) (by decide +kernel)
  refine ⟨τ, st, hp, h1, h2, h4, ?_⟩
  rw [hrel.env]
  decide +kernel

/-- `FOR I% … : FOR J% … : FOR K% … : GOTO 0 : NEXT : NEXT : 0: NEXT` — the label is in the body of the outermost FOR
(depth 1), the GOTO at depth 3 -/
def demoGoto : SProgram :=
  ⟨[.int, .int, .int],
   .seq (.forLoop 0 .int (.lit (.int 1) ⟨1, 10⟩) (.lit (.int 2) ⟨1, 15⟩) none
     (.seq (.forLoop 1 .int (.lit (.int 1) ⟨2, 12⟩) (.lit (.int 2) ⟨2, 17⟩) none
       (.seq (.forLoop 2 .int (.lit (.int 1) ⟨3, 14⟩) (.lit (.int 2) ⟨3, 19⟩) none
         (.seq (.goto 0 ⟨4, 7⟩) .skip) ⟨3, 5⟩) .skip) ⟨2, 3⟩)
     (.seq (.label 0 "Nxt" ⟨7, 3⟩) .skip)) ⟨1, 1⟩) .skip⟩

example : progWfB demoGoto = true ∧ (JmpL.Ref.run 200 demoGoto.toAst).2 = .normal := by decide +kernel

theorem demoGoto_code : CodeAt (progCtx demoGoto).code 54 (compileGoto (progCtx demoGoto).env 3 0 0 ⟨4, 7⟩) := by
  intro i hi
  have hl : (compileGoto (progCtx demoGoto).env 3 0 0 ⟨4, 7⟩).length = 3 := by decide +kernel
  rw [hl] at hi
  match i, hi with
  | 0, _ => decide +kernel
  | 1, _ => decide +kernel
  | 2, _ => decide +kernel

/-- the GOTO's code is at 54 (`PopRegisters; PopRegisters; Jump 79`); from a state on top of the frames of K, J, I (limits
33, 22, 11) and one more frame, the VM arrives at the label (79) with the frames of K and J gone and **the frame of I — the
FOR that encloses the label — and everything below it intact** -/
example : ∃ τ, Steps (compile demoGoto) (at_ demoGoto 54 [fr 33, fr 22, fr 11, fr 0] [] []) τ ∧ τ.pc = 79 ∧
    τ.regStack = [fr 11, fr 0] ∧ τ.gosubs = [] := by
  obtain ⟨τ, st, hp, _, h1, _, _, h4⟩ :=
    goto_pops_frames_vm (progCtx demoGoto) 0 ⟨4, 7⟩ 3 0 (at_ demoGoto 54 [fr 33, fr 22, fr 11, fr 0] [] [])
      (startSt demoGoto) demoGoto_code (rel_at _ rfl _ _ _ _) (by decide) (by decide)
  have hfd : (progCtx demoGoto).env.dp.fd 0 = 1 := by decide +kernel
  refine ⟨τ, st, ?_, ?_, h4⟩
  · rw [hp]; decide +kernel
  · rw [h1, hfd]; rfl

/-- `demoRet` (`FOR I% = 1 TO 3 : RETURN : NEXT`): the RETURN at ⟨2, 3⟩ is reached inside the FOR body with no GOSUB pending -/
example : ∃ n υ, (∀ m, n ≤ m → Vm.run (compile demoRet) m (Vm.init demoRet.slots) = .error 3 ⟨2, 3⟩ υ) ∧
    υ.gosubs = [] ∧ υ.env = [.int 1] := by
  obtain ⟨n, υ, h1, h2, h3, _⟩ := return_without_gosub_run demoRet 30 (by decide +kernel)
    (exec 30 (desugar demoRet.body) (desugar demoRet.body) .run (startSt demoRet)).1 ⟨2, 3⟩
    (Prod.ext rfl (by decide +kernel))
  refine ⟨n, υ, h1, h2, ?_⟩
  rw [h3]
  decide +kernel

end Examples

end RbThm.C05Vm
