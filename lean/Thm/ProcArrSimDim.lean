import Thm.ProcArrSimBase
import Thm.ArrLSimStmt
/-!
Combined layer, simulation part — `DIM a(l TO u, …)` of an array (`case_dimArr`).

`BeginCollectArguments` pushes a collecting state; every bound is evaluated and joins it by `PushUnnamedByVal`
(`dims_correct`: by induction on the bound list, the fuel generalised — a bound may call a function, so the state is threaded
exactly as `Ref.evalDims` threads it, and the collecting state sits in the prefix of `Rel`); `AllocateArrayIntoA` pops the
collecting state and builds the array (`allocArray_spec`: `argInts` / `toDimensions` / `dimsLenChecked` against
`Ref.convDims` / `Ref.dimArray`); `VarPathName a · CopyAToVarPath` moves it from the array register into the block
(`Rel.storeArr`).  The helpers live in the namespace `RbThm.ProcArrSim.Dim`.
-/
namespace RbThm.ProcArrSim
set_option linter.unusedVariables false
set_option linter.unusedSimpArgs false
open RbModel RbModel.Num RbModel.ProcArr RbModel.ProcArr.Compile RbModel.ProcArr.Vm
open RbModel.Ast (Pos)
open RbThm.ProcArrLen

namespace Dim

/-! ### moving the collecting prefix -/

theorem curVars_coll (st : Nat → Option Frame) : ∀ {pre : List CtxState}, Collecting pre → ∀ (rest : List CtxState),
    curVars st (pre ++ rest) = curVars st rest
  | [], _, _ => rfl
  | .args _ :: l, h, rest => by
    simp only [List.cons_append, curVars]
    exact curVars_coll st (pre := l) h rest
  | .frame _ :: _, h, _ => h.elim
  | .sframe _ :: _, h, _ => h.elim

/-- the same activation under another collecting prefix (an argument-collecting state was pushed, filled or dropped) -/
theorem repre {W : World} {sc : Scope} {pre pre' below : List CtxState} {s : St} {σ τ : Vm}
    (h : Rel W sc pre below s σ) (hcoll : Collecting pre')
    (hctx : ∀ b, σ.ctx = pre ++ topState sc b :: below → τ.ctx = pre' ++ topState sc b :: below)
    (ho : τ.out = σ.out) (hd : τ.data = σ.data) (hi : τ.dataIdx = σ.dataIdx) (hq : τ.queue = σ.queue)
    (hf : τ.funRes = σ.funRes) (hg : τ.glob = σ.glob) (hs : τ.statics = σ.statics) (hA : τ.arrA = σ.arrA) :
    Rel W sc pre' below s τ := by
  obtain ⟨b, h1, h2, h3, h4, h5⟩ := h.ctx
  have hc' := hctx b h1
  have hcf : τ.curFrame = some b.vars := by
    have e := h2
    unfold Vm.curFrame at e ⊢
    rw [h1, curVars_coll _ h.coll] at e
    rw [hc', hs, curVars_coll _ hcoll]; exact e
  exact ⟨hcoll, h.self, ⟨b, hc', hcf, h3, h4, h5⟩, h.typed, h.gl, h.st, by rw [hg]; exact h.glob, h.gtyped,
    by rw [hs]; exact h.stat, h.scok, by rw [ho, h.out], by rw [hd, h.data], by rw [hi, h.dataIdx],
    by rw [hq, h.queue], by rw [hf, h.funRes], by rw [hA, h.arrA]⟩

/-! ### the bounds as collected arguments -/

/-- `PushUnnamedByVal`: the value in A joins the collecting state on top, without a path -/
theorem pushByVal_step (W : World) (sc : Scope) (pre below : List CtxState) (s : St) (τ : Vm)
    (vs : List (Val × Option Path)) (p : Pos) (hi : W.code[τ.pc]? = some (CInstr.pushByVal, p))
    (hr : Rel W sc (.args vs :: pre) below s τ) :
    ∃ υ, Vm.step W.code τ = .next υ ∧ υ.pc = τ.pc + 1 ∧
      Rel W sc (.args (vs ++ [(τ.regs.a, none)]) :: pre) below s υ ∧ SameStacks τ υ := by
  obtain ⟨b, h1, _⟩ := hr.ctx
  have h1' : τ.ctx = .args vs :: (pre ++ topState sc b :: below) := by simpa using h1
  refine ⟨Vm.advance { τ with ctx := .args (vs ++ [(τ.regs.a, none)]) :: (pre ++ topState sc b :: below) }, ?_, rfl, ?_,
    ⟨rfl, rfl, rfl, rfl, rfl, rfl, id⟩⟩
  · simp only [Vm.step, hi, pushArg, h1']
  · refine repre hr (pre' := .args (vs ++ [(τ.regs.a, none)]) :: pre) hr.coll ?_ rfl rfl rfl rfl rfl rfl rfl rfl
    intro b' hb'
    have : pre ++ topState sc b :: below = pre ++ topState sc b' :: below := by
      have e := h1.symm.trans hb'
      simpa using e
    simp only [Vm.advance, List.cons_append, this]

/-- code that evaluates one bound and pushes it: control arrives at `tgt`, the collecting state has one more entry -/
def PushPost (W : World) (sc : Scope) (pre below : List CtxState) (vs : List (Val × Option Path)) (tgt : Nat) (σ : Vm) :
    St × Except Outcome Val → Prop
  | (s', .ok v) => ∃ τ, Steps W.code σ τ ∧ τ.pc = tgt ∧ Rel W sc (.args (vs ++ [(v, none)]) :: pre) below s' τ ∧
      SameStacks σ τ
  | (s', .error o) => ErrPost W.code σ s' o

/-- `⟦e⟧ · PushUnnamedByVal` -/
theorem pushVal_correct (W : World) (fuel : Nat) (hE : ExprIH W fuel) (sc : Scope) (e : ProcArr.Expr) (q : Pos) (off : Nat)
    (pre below : List CtxState) (vs : List (Val × Option Path)) (s : St) (σ : Vm)
    (hc : CodeAt W.code off (compileExpr W.lay off e ++ [(CInstr.pushByVal, q)])) (hpc : σ.pc = off)
    (hr : Rel W sc (.args vs :: pre) below s σ) (hw : EWf W.sg sc.slots e) :
    PushPost W sc pre below vs (off + sizeExpr e + 1) σ (ProcArr.Ref.eval W.P fuel e s) := by
  have he := hE sc e off (.args vs :: pre) below s σ hc.append_left hpc hr hw
  generalize ProcArr.Ref.eval W.P fuel e s = r at he ⊢
  obtain ⟨s1, rv⟩ := r
  cases rv with
  | error o => exact he
  | ok v =>
    obtain ⟨τ, st, hp, hav, hrel, hss, _⟩ := he
    have hi : W.code[τ.pc]? = some (CInstr.pushByVal, q) := by
      have := hc.append_right.head
      rw [len_expr] at this
      rw [hp]; exact this
    obtain ⟨υ, sυ, hpυ, hrelυ, hssυ⟩ := pushByVal_step W sc pre below s1 τ vs q hi hrel
    rw [hav] at hrelυ
    exact ⟨υ, st.trans (Steps.one sυ), by rw [hpυ, hp], hrelυ, hss.trans hssυ⟩

/-- the evaluated bounds as the argument list of `AllocateArrayIntoA` -/
def flatArgs : List (Val × Val) → List (Val × Option Path)
  | [] => []
  | (l, h) :: rest => (l, none) :: (h, none) :: flatArgs rest

/-- the bound list: control arrives at `tgt`, the collecting state has received every bound, in order -/
def DimsPost (W : World) (sc : Scope) (pre below : List CtxState) (vs : List (Val × Option Path)) (tgt : Nat) (σ : Vm) :
    St × Except Outcome (List (Val × Val)) → Prop
  | (s', .ok ds) => ∃ τ, Steps W.code σ τ ∧ τ.pc = tgt ∧ Rel W sc (.args (vs ++ flatArgs ds) :: pre) below s' τ ∧
      SameStacks σ τ
  | (s', .error o) => ErrPost W.code σ s' o

theorem DimsPost.of_steps {W : World} {sc : Scope} {pre below : List CtxState} {vs : List (Val × Option Path)} {tgt : Nat}
    {σ τ : Vm} {r : St × Except Outcome (List (Val × Val))} (h₁ : Steps W.code σ τ) (hs : SameStacks σ τ)
    (h₂ : DimsPost W sc pre below vs tgt τ r) : DimsPost W sc pre below vs tgt σ r := by
  obtain ⟨s', rv⟩ := r
  cases rv with
  | error o => exact ErrPost.of_steps h₁ h₂
  | ok ds =>
    obtain ⟨υ, st, hp, hrel, hss⟩ := h₂
    exact ⟨υ, h₁.trans st, hp, hrel, hs.trans hss⟩

/-- what `Ref.evalDims` does after the lower bound `l` of the first dimension -/
def tailRes (P : Program) (n : Nat) (hi : ProcArr.Expr) (rest : Dims) (l : Val) (s1 : St) :
    St × Except Outcome (List (Val × Val)) :=
  match ProcArr.Ref.eval P n hi s1 with
  | (s2, .error o) => (s2, .error o)
  | (s2, .ok h) =>
    match ProcArr.Ref.evalDims P n rest s2 with
    | (s3, .error o) => (s3, .error o)
    | (s3, .ok ds) => (s3, .ok ((l, h) :: ds))

theorem evalDims_cons_none (P : Program) (n : Nat) (hi : ProcArr.Expr) (rest : Dims) (s : St) :
    ProcArr.Ref.evalDims P (n + 1) (.cons none hi rest) s = tailRes P n hi rest (.int 0) s := by
  simp only [ProcArr.Ref.evalDims, tailRes]
  rfl

theorem evalDims_cons_some (P : Program) (n : Nat) (e hi : ProcArr.Expr) (rest : Dims) (s : St) :
    ProcArr.Ref.evalDims P (n + 1) (.cons (some e) hi rest) s =
      match ProcArr.Ref.eval P n e s with
      | (s1, .error o) => (s1, .error o)
      | (s1, .ok l) => tailRes P n hi rest l s1 := by
  simp only [ProcArr.Ref.evalDims, tailRes]
  rfl

/-- the upper bound of a dimension and the remaining dimensions -/
theorem tail_correct (W : World) (p : Pos) (n : Nat) (hE : ExprIH W n) (hi : ProcArr.Expr) (rest : Dims)
    (ihd : ∀ (sc : Scope) (off : Nat) (pre below : List CtxState) (vs : List (Val × Option Path)) (s : St) (σ : Vm),
      CodeAt W.code off (compileDims W.lay p off rest) → σ.pc = off → Rel W sc (.args vs :: pre) below s σ →
      DimsWf W.sg sc.slots rest → DimsPost W sc pre below vs (off + sizeDims rest) σ (ProcArr.Ref.evalDims W.P n rest s))
    (sc : Scope) (offh : Nat) (pre below : List CtxState) (vs : List (Val × Option Path)) (l : Val) (s1 : St) (σ2 : Vm)
    (hch : CodeAt W.code offh (compileExpr W.lay offh hi ++ [(CInstr.pushByVal, hi.pos)]))
    (hcr : CodeAt W.code (offh + sizeExpr hi + 1) (compileDims W.lay p (offh + sizeExpr hi + 1) rest))
    (hp : σ2.pc = offh) (hr : Rel W sc (.args (vs ++ [(l, none)]) :: pre) below s1 σ2)
    (hwh : EWf W.sg sc.slots hi) (hwr : DimsWf W.sg sc.slots rest) :
    DimsPost W sc pre below vs (offh + sizeExpr hi + 1 + sizeDims rest) σ2 (tailRes W.P n hi rest l s1) := by
  have hh := pushVal_correct W n hE sc hi hi.pos offh pre below (vs ++ [(l, none)]) s1 σ2 hch hp hr hwh
  unfold tailRes
  generalize ProcArr.Ref.eval W.P n hi s1 = rh at hh ⊢
  obtain ⟨s2, rv⟩ := rh
  cases rv with
  | error o => exact hh
  | ok h =>
    obtain ⟨τ, st, hpτ, hrel, hss⟩ := hh
    have hrr := ihd sc _ pre below _ s2 τ hcr hpτ hrel hwr
    simp only
    generalize ProcArr.Ref.evalDims W.P n rest s2 = rr at hrr ⊢
    obtain ⟨s3, rv3⟩ := rr
    cases rv3 with
    | error o => exact ErrPost.of_steps st hrr
    | ok ds =>
      obtain ⟨υ, st2, hp2, hrel2, hss2⟩ := hrr
      refine ⟨υ, st.trans st2, hp2, ?_, hss.trans hss2⟩
      have e : vs ++ [(l, none)] ++ [(h, none)] ++ flatArgs ds = vs ++ flatArgs ((l, h) :: ds) := by
        simp only [flatArgs, List.append_assoc, List.cons_append, List.nil_append]
      rw [e] at hrel2; exact hrel2

/-- the bound expressions of a DIM, left to right, collected as arguments; the state is threaded as `Ref.evalDims` does -/
theorem dims_correct (W : World) (p : Pos) : ∀ (dims : Dims) (fuel : Nat), IHle W fuel →
    ∀ (sc : Scope) (off : Nat) (pre below : List CtxState) (vs : List (Val × Option Path)) (s : St) (σ : Vm),
      CodeAt W.code off (compileDims W.lay p off dims) → σ.pc = off → Rel W sc (.args vs :: pre) below s σ →
      DimsWf W.sg sc.slots dims →
      DimsPost W sc pre below vs (off + sizeDims dims) σ (ProcArr.Ref.evalDims W.P fuel dims s) := by
  intro dims
  induction dims with
  | nil =>
    intro fuel ih sc off pre below vs s σ hc hpc hr hw
    cases fuel with
    | zero => simp only [ProcArr.Ref.evalDims, DimsPost, ErrPost]
    | succ n =>
      simp only [ProcArr.Ref.evalDims, DimsPost, sizeDims, Nat.add_zero, flatArgs, List.append_nil]
      exact ⟨σ, Steps.refl σ, hpc, hr, SameStacks.refl σ⟩
  | cons lo hi rest ihd =>
    intro fuel ih sc off pre below vs s σ hc hpc hr hw
    cases fuel with
    | zero => simp only [ProcArr.Ref.evalDims, DimsPost, ErrPost]
    | succ n =>
      have hE : ExprIH W n := (ih n (Nat.le_succ n)).expr
      have ihd' := ihd n (ih.mono (Nat.le_succ n))
      cases lo with
      | none =>
        simp only [DimsWf] at hw
        obtain ⟨hwh, _, hwr⟩ := hw
        simp only [compileDims] at hc
        subst hpc
        have h0 : W.code[σ.pc]? = some (CInstr.loadA (.int 0), p) := hc.append_left.append_left.append_left.head
        have h1 : W.code[σ.pc + 1]? = some (CInstr.pushByVal, p) := hc.append_left.append_left.append_left.tail.head
        let σ1 : Vm := Vm.advance (Vm.setA σ (.int 0))
        have s1 : Vm.step W.code σ = .next σ1 := by simp only [Vm.step, h0]; rfl
        have hr1 : Rel W sc (.args vs :: pre) below s σ1 := (hr.setA _).advance
        obtain ⟨σ2, s2, hp2, hr2, hss2⟩ := pushByVal_step W sc pre below s σ1 vs p h1 hr1
        have hr2' : Rel W sc (.args (vs ++ [(Val.int 0, none)]) :: pre) below s σ2 := hr2
        have hch : CodeAt W.code (σ.pc + 2) (compileExpr W.lay (σ.pc + 2) hi ++ [(CInstr.pushByVal, hi.pos)]) := by
          have h := hc.append_left
          rw [List.append_assoc] at h
          exact h.append_right
        have hcr : CodeAt W.code (σ.pc + 2 + sizeExpr hi + 1) (compileDims W.lay p (σ.pc + 2 + sizeExpr hi + 1) rest) := by
          have := hc.append_right
          simp only [List.length_append, List.length_cons, List.length_nil, len_expr] at this
          exact this.at (by omega)
        have ht := tail_correct W p n hE hi rest ihd' sc (σ.pc + 2) pre below vs (.int 0) s σ2 hch hcr
          (by rw [hp2]; rfl) hr2' hwh hwr
        rw [evalDims_cons_none]
        have e : σ.pc + sizeDims (.cons none hi rest) = σ.pc + 2 + sizeExpr hi + 1 + sizeDims rest := by
          simp only [sizeDims]; omega
        rw [e]
        exact DimsPost.of_steps (Steps.cons s1 (Steps.one s2))
          ((SameStacks.trans (a := σ) (b := σ1) ⟨rfl, rfl, rfl, rfl, rfl, rfl, id⟩ hss2)) ht
      | some e0 =>
        simp only [DimsWf] at hw
        obtain ⟨hwl, _, hwh, _, hwr⟩ := hw
        simp only [compileDims] at hc
        have hcl : CodeAt W.code off (compileExpr W.lay off e0 ++ [(CInstr.pushByVal, e0.pos)]) :=
          hc.append_left.append_left.append_left
        have hl := pushVal_correct W n hE sc e0 e0.pos off pre below vs s σ hcl hpc hr hwl
        rw [evalDims_cons_some]
        generalize ProcArr.Ref.eval W.P n e0 s = rl at hl ⊢
        obtain ⟨s1, rv⟩ := rl
        cases rv with
        | error o => exact hl
        | ok l =>
          obtain ⟨σ2, pre0, hp0, hr2, hss0⟩ := hl
          have hch : CodeAt W.code (off + sizeExpr e0 + 1)
              (compileExpr W.lay (off + sizeExpr e0 + 1) hi ++ [(CInstr.pushByVal, hi.pos)]) := by
            have h := hc.append_left
            rw [List.append_assoc] at h
            have := h.append_right
            simp only [List.length_append, List.length_cons, List.length_nil, len_expr] at this
            exact this.cast (by omega) (by rw [Nat.add_assoc])
          have hcr : CodeAt W.code (off + sizeExpr e0 + 1 + sizeExpr hi + 1)
              (compileDims W.lay p (off + sizeExpr e0 + 1 + sizeExpr hi + 1) rest) := by
            have := hc.append_right
            simp only [List.length_append, List.length_cons, List.length_nil, len_expr] at this
            exact this.cast (by omega) (by congr 1 <;> omega)
          have ht := tail_correct W p n hE hi rest ihd' sc (off + sizeExpr e0 + 1) pre below vs l s1 σ2 hch hcr
            hp0 hr2 hwh hwr
          have e : off + sizeDims (.cons (some e0) hi rest) = off + sizeExpr e0 + 1 + sizeExpr hi + 1 + sizeDims rest := by
            simp only [sizeDims]; omega
          rw [e]
          exact DimsPost.of_steps pre0 hss0 ht

/-! ### `AllocateArrayIntoA` -/

def flatVals : List (Val × Val) → List Val
  | [] => []
  | (l, h) :: rest => l :: h :: flatVals rest

theorem map_flatArgs : ∀ (ds : List (Val × Val)), (flatArgs ds).map (·.1) = flatVals ds
  | [] => rfl
  | (l, h) :: rest => by simp only [flatArgs, flatVals, List.map_cons, map_flatArgs rest]

def flatInts : List (Int × Int) → List Int
  | [] => []
  | (lo, hi) :: rest => lo :: hi :: flatInts rest

/-- a successful conversion to INTEGER yields an INTEGER -/
theorem cast_int {v w : Val} (h : Num.cast v .int = .ok w) : ∃ i, w = .int i := by
  have ht := RbThm.C01Sim.SimRead.cast_tag v .int w h
  cases w with
  | int i => exact ⟨i, rfl⟩
  | long _ => cases ht
  | sgl _ => cases ht
  | dbl _ => cases ht
  | str _ => cases ht

/-- conversion of the collected bounds to INTEGER: `argInts` on the argument list is `convDims` on the value pairs
(in particular `convDims` never answers `illFormed`) -/
theorem argInts_flat (p : Pos) : ∀ (ds : List (Val × Val)),
    match ProcArr.Ref.convDims p ds with
    | .ok bs => argInts (flatVals ds) = .inl (.ok (flatInts bs))
    | .error o => o = .inexact ∨ ∃ e, o = .error (ProcArr.Ref.codeOf e) p ∧ argInts (flatVals ds) = .inl (.error e)
  | [] => by simp only [ProcArr.Ref.convDims, flatVals, argInts, flatInts]
  | (l, h) :: rest => by
    have ih := argInts_flat p rest
    simp only [ProcArr.Ref.convDims, flatVals, argInts]
    cases hl : Num.cast l .int with
    | err e => exact Or.inr ⟨e, rfl, rfl⟩
    | inexact => exact Or.inl rfl
    | ok lv =>
      obtain ⟨lo, rfl⟩ := cast_int hl
      simp only
      cases hh : Num.cast h .int with
      | err e => exact Or.inr ⟨e, rfl, rfl⟩
      | inexact => exact Or.inl rfl
      | ok hv =>
        obtain ⟨hi, rfl⟩ := cast_int hh
        simp only
        generalize ProcArr.Ref.convDims p rest = r at ih ⊢
        cases r with
        | ok bs => simp only [ih, flatInts]
        | error o =>
          rcases ih with h1 | ⟨e, h1, h2⟩
          · exact Or.inl h1
          · exact Or.inr ⟨e, h1, by simp only [h2]⟩

theorem toDimensions_flat : ∀ (bs : List (Int × Int)),
    toDimensions (flatInts bs) = if bs.any (fun b => decide (b.2 < b.1)) then none else some bs
  | [] => by simp [flatInts, toDimensions]
  | (lo, hi) :: rest => by
    simp only [flatInts, toDimensions, toDimensions_flat rest, List.any_cons]
    by_cases h : hi < lo
    · simp [h]
    · simp only [h, if_false, decide_false, Bool.false_or]
      split <;> simp

/-- what `AllocateArrayIntoA` does with the collected bounds is what `Ref.dimArray` prescribes -/
theorem allocArray_spec (t : Ty) (p : Pos) (ds : List (Val × Val)) :
    match ProcArr.Ref.dimArray t ds p with
    | .ok A => ∃ bs, A = ⟨t, bs, []⟩ ∧ allocArray t (flatVals ds) = .ok (Arr.VArray.new bs (zeroOf t))
    | .error (.error c q) => q = p ∧ allocArray t (flatVals ds) = .err c
    | .error .inexact => True
    | .error .tooBig => True
    | .error _ => False := by
  have h := argInts_flat p ds
  unfold ProcArr.Ref.dimArray
  generalize ProcArr.Ref.convDims p ds = r at h ⊢
  cases r with
  | error o =>
    rcases h with h1 | ⟨e, h1, h2⟩
    · subst h1; trivial
    · subst h1
      exact ⟨rfl, by simp only [allocArray, h2]⟩
  | ok bs =>
    simp only at h ⊢
    by_cases hany : bs.any (fun b => decide (b.2 < b.1)) = true
    · simp only [hany, if_true]
      exact ⟨trivial, by simp only [allocArray, h, toDimensions_flat, hany, if_true]⟩
    · have hany' : bs.any (fun b => decide (b.2 < b.1)) = false := by simpa using hany
      simp only [hany', Bool.false_eq_true, if_false]
      by_cases hbig : ProcArr.Ref.boxSize bs > ProcArr.Ref.sizeLimit
      · simp only [hbig, if_true]
      · simp only [hbig, if_false]
        have hsm : ArrL.Ref.boxSize bs ≤ 1000000 := by
          simp only [ProcArr.Ref.sizeLimit, ProcArr.Ref.boxSize, ArrL.Ref.sizeLimit] at hbig; omega
        have hlen := RbThm.ArrLSim.dimsLenChecked_ok bs 1 hany' (by omega)
        rw [Nat.one_mul] at hlen
        refine ⟨bs, rfl, ?_⟩
        simp only [allocArray, h, toDimensions_flat, hany', Bool.false_eq_true, if_false, hlen]
        simp only [ProcArr.Ref.sizeLimit, ProcArr.Ref.boxSize] at hbig
        simp only [hbig, if_false]

end Dim

open Dim in
/-- `DIM a(l TO u, …)`: the bounds as arguments, `AllocateArrayIntoA`, the store into the array variable -/
theorem case_dimArr (W : World) (fuel : Nat) (ih : IHle W fuel) (a : Nat) (t : Ty) (dims : Dims) (p : Pos)
    (sc : Scope) (sfx : String) (fd sd off : Nat) (below : List CtxState) (s : St) (σ : Vm)
    (hc : CodeAt W.code off (compileStmt W.lay sfx fd sd off (.dimArr a t dims p))) (hpc : σ.pc = off)
    (hr : Rel W sc [] below s σ) (hw : Wf W.sg sc (.dimArr a t dims p)) (ha : ActInv sc fd sd σ) :
    StmtPost W sc below fd sd (sizeStmt fd sd (.dimArr a t dims p)) off σ
      (ProcArr.Ref.exec W.P (fuel + 1) (desugar (.dimArr a t dims p)) s) := by
  simp only [compileStmt] at hc
  simp only [Wf] at hw
  obtain ⟨hwa, _, hwd, hself⟩ := hw
  subst hpc
  have h0 : W.code[σ.pc]? = some (CInstr.beginArgs, p) := hc.append_left.append_left.head
  let σ1 : Vm := Vm.advance { σ with ctx := .args [] :: σ.ctx }
  have s1 : Vm.step W.code σ = .next σ1 := by simp only [Vm.step, h0]; rfl
  have hr1 : Rel W sc [.args []] below s σ1 := by
    refine repre hr (pre' := [.args []]) trivial ?_ rfl rfl rfl rfl rfl rfl rfl rfl
    intro b hb
    show CtxState.args [] :: σ.ctx = _
    rw [hb]; rfl
  have hcd : CodeAt W.code (σ.pc + 1) (compileDims W.lay p (σ.pc + 1) dims) := by
    simpa using hc.append_left.append_right
  have hd := dims_correct W p dims fuel ih sc (σ.pc + 1) [] below [] s σ1 hcd rfl hr1 hwd
  simp only [desugar, ProcArr.Ref.exec, sizeStmt]
  generalize ProcArr.Ref.evalDims W.P fuel dims s = rd at hd ⊢
  obtain ⟨s2, rv⟩ := rd
  have hss1 : SameStacks σ σ1 := ⟨rfl, rfl, rfl, rfl, rfl, rfl, id⟩
  cases rv with
  | error o => exact StmtPost.of_err (ErrPost.of_steps (Steps.one s1) hd)
  | ok ds =>
    obtain ⟨τ, st, hp, hrel, hst⟩ := hd
    simp only [List.nil_append] at hrel
    have pre : Steps W.code σ τ := (Steps.one s1).trans st
    have hss : SameStacks σ τ := hss1.trans hst
    obtain ⟨b, hctx, _, _, _, _⟩ := hrel.curBlock hself
    have hctx' : τ.ctx = .args (flatArgs ds) :: (.frame b :: below) := by simpa using hctx
    have hal : W.code[τ.pc]? = some (CInstr.allocArr t, p) := by
      have := hc.append_right.head
      simp only [List.length_append, List.length_singleton, len_dims] at this
      rw [hp, ← this]; congr 1; omega
    have hap : W.code[τ.pc + 1]? = some (CInstr.arrPath a, p) := by
      have := hc.append_right.tail.head
      simp only [List.length_append, List.length_singleton, len_dims] at this
      rw [hp, ← this]; congr 1; omega
    have hcw : W.code[τ.pc + 1 + 1]? = some (CInstr.copyAToVarPath, p) := by
      have := hc.append_right.tail.tail.head
      simp only [List.length_append, List.length_singleton, len_dims] at this
      rw [hp, ← this]; congr 1; omega
    -- the state the collecting state is dropped from: related under the empty prefix
    let τ0 : Vm := { τ with ctx := .frame b :: below }
    have hr0 : Rel W sc [] below s2 τ0 := by
      refine repre hrel (pre' := []) trivial ?_ rfl rfl rfl rfl rfl rfl rfl rfl
      intro b' hb'
      have e : ([CtxState.args (flatArgs ds)] ++ topState sc b' :: below) = .args (flatArgs ds) :: (.frame b :: below) :=
        hb'.symm.trans hctx'
      have e2 : topState sc b' = .frame b := by
        simp only [List.cons_append, List.nil_append] at e
        injection e with _ e; injection e
      show CtxState.frame b :: below = [] ++ topState sc b' :: below
      rw [e2]; rfl
    have hspec := allocArray_spec t p ds
    rw [← map_flatArgs] at hspec
    simp only
    generalize ProcArr.Ref.dimArray t ds p = rA at hspec ⊢
    cases rA with
    | error o =>
      cases o with
      | error c q =>
        obtain ⟨hq, hall⟩ := hspec
        subst hq
        simp only [StmtPost]
        refine ⟨τ, { τ with ctx := .frame b :: below }, pre, ?_, hrel.out⟩
        simp only [Vm.step, hal, hctx', hall]
      | inexact => trivial
      | tooBig => trivial
      | normal => exact hspec.elim
      | exited => exact hspec.elim
      | halted => exact hspec.elim
      | outOfFuel => exact hspec.elim
      | illFormed => exact hspec.elim
    | ok A =>
      obtain ⟨bs, hA, hall⟩ := hspec
      subst hA
      let V : VArr := Arr.VArray.new bs (zeroOf t)
      let τ1 : Vm := Vm.advance { τ with arrA := some V, ctx := .frame b :: below }
      let τ2 : Vm := Vm.advance { τ1 with paths := .elem a [] :: τ.paths }
      let τ3 : Vm := Vm.advance { τ2 with ctx := modArr a V (.frame b :: below), arrA := none, paths := τ.paths }
      have t1 : Vm.step W.code τ = .next τ1 := by
        simp only [Vm.step, hal, hctx', hall]; rfl
      have t2 : Vm.step W.code τ1 = .next τ2 := by
        simp only [Vm.step, τ1, Vm.advance, hap]; rfl
      have t3 : Vm.step W.code τ2 = .next τ3 := by
        simp only [Vm.step, τ2, τ1, Vm.advance, hcw, curBlock]; rfl
      simp only [StmtPost]
      refine ⟨τ3, pre.trans (Steps.cons t1 (Steps.cons t2 (Steps.one t3))), ?_, ?_, ?_⟩
      · simp only [τ3, τ2, τ1, Vm.advance, hp]; omega
      · exact hr0.storeArr (τ := τ3) hwa (RbThm.ArrLSim.arrRel_new t bs) rfl rfl rfl rfl rfl rfl rfl
      · exact hss.trans ⟨rfl, rfl, rfl, rfl, rfl, rfl, id⟩

end RbThm.ProcArrSim
