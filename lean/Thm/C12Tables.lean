import RbModel.Ty
import Thm.C06
/-!
# C12, part 1: the extracted tables at the level of kinds

Theorems over `RbModel.Ty` (model of the checker fragment, see the header of that file), the extracted
operator table `Gen.NumTables` and the extracted built-in table `Gen.TyTables`.
-/
namespace RbThm.C12
open RbModel.Num RbModel.Ty Gen.NumTables Gen.TyTables

/-! ## The tables at the level of kinds -/

def isRel : Op → Bool
  | .less | .lessOrEqual | .equal | .greaterOrEqual | .greater | .notEqual => true
  | _ => false

/-- The extracted operator table never mixes kinds: an accepted operator has two numeric operands and a
numeric result, or two strings (`+` giving a string, a comparison giving an INTEGER). -/
theorem binType_kinds (op : Op) (a b t : Ty) (h : binType op a b = some t) :
    (a ≠ .str ∧ b ≠ .str ∧ t ≠ .str) ∨
    (a = .str ∧ b = .str ∧ ((op = .plus ∧ t = .str) ∨ (isRel op = true ∧ t = .int))) := by
  cases op <;> cases a <;> cases b <;> revert h <;> revert t <;> decide

/-- A string operand of `- * / MOD AND OR` is rejected, whatever the other operand is. -/
theorem string_operand_rejected (op : Op) (a b : Ty) (hop : op ≠ .plus ∧ isRel op = false)
    (h : a = .str ∨ b = .str) : binType op a b = none := by
  cases op <;> cases a <;> cases b <;> simp_all [isRel] <;> decide

/-- `+` and the comparisons reject operands of different kinds. -/
theorem mixed_operands_rejected (op : Op) (a b : Ty) (h : (a = .str) ≠ (b = .str)) :
    binType op a b = none := by
  cases op <;> cases a <;> cases b <;> simp_all <;> decide

/-- Every accepted row of the extracted built-in table hands the built-in operands of the kinds it
consumes at run time. -/
theorem builtin_rows_sound :
    biRows.all (fun row => row.2 != .ok || rtAccepts row.1.1 (row.1.2.1.map kindOf)) = true := by
  decide +kernel

theorem biLookup_mem {b : BuiltIn} {ts : List Ty} {r : Bool} {c : BiCode}
    (h : biLookup b ts r = some c) : ((b, ts, r), c) ∈ biRows := by
  unfold biLookup at h
  split at h
  · next row hrow =>
    have hm := List.mem_of_find?_eq_some hrow
    have hp := List.find?_some hrow
    simp only [beq_iff_eq] at hp
    cases h
    have : row = ((b, ts, r), row.2) := by rw [← hp]
    rw [this] at hm; exact hm
  · cases h

/-- If the built-in linter accepts an argument list, the run time receives the kinds it consumes. -/
theorem biLint_sound (b : BuiltIn) (ts : List Ty) (r : Bool) (h : biLint b ts r = .ok) :
    rtAccepts b (ts.map kindOf) = true := by
  unfold biLint at h
  split at h
  · split at h
    · next c hc =>
      subst h
      have hm := biLookup_mem hc
      have hall := builtin_rows_sound
      rw [List.all_eq_true] at hall
      have := hall _ hm
      simpa using this
    · cases h
  · cases h


end RbThm.C12
