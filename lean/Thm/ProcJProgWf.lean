import Thm.ProcJSimBase
/-!
Layer "procedures ∪ jumps", simulation part — the static premise of the whole-program theorem (`ProgWf`), the scope of the main
module and the world of a program.  Kept in a file of its own because both `Thm/ProcJSimProg.lean` (which uses the premise) and
`Thm/ProcJWf.lean` (which proves that the boolean check `progWfB` implies it) need exactly these definitions.
-/
namespace RbThm.ProcJSim
set_option linter.unusedVariables false
open RbModel RbModel.ProcJ RbModel.ProcJ.Compile RbModel.ProcJ.Vm
open RbModel.Num hiding Expr
open RbModel.Ast (Pos)
open RbModel.Proc (Var SlotTabs Expr Args PrintItem CaseExpr ProcDecl zeroOf Sigs sigsOf)
open RbThm.ProcSim (Scope)

/-- the body of the main module: DATA statements may occur only at top level (where the generator hoists them from); everything
else is well formed at depths 0 / 0 -/
def WfTop (sg : Sigs) (sc : Scope) (dp : Dp) (labs : List Nat) : SStmt → Prop
  | .seq a b => WfTop sg sc dp labs a ∧ WfTop sg sc dp labs b
  | .data _ _ => True
  | st => Wf sg sc dp labs 0 0 st

/-- the scope of the main module: no parameters, not a procedure -/
def mainScope (prog : SProgram) : Scope := ⟨⟨prog.slots, prog.gslots⟩, 0, false, none⟩

/-- the static premise of the program theorem (decided by `ProcJ.progWfB`): the main module is well formed in its scope up to
top-level DATA, every GOTO / GOSUB target in it a label of the main module; every procedure's slot table starts with its
parameters (and result) and its body is well formed in the procedure's scope, every GOTO / GOSUB target in it a label of that
body; the depths are those the generator records for the whole program (`dpOf prog`); a label is defined once in the whole
program -/
structure ProgWf (prog : SProgram) : Prop where
  body : WfTop (sigsOf prog.procs) (mainScope prog) (dpOf prog) prog.body.labels prog.body
  procs : ∀ (f : Nat) (d : ProcDecl SStmt), prog.procs[f]? = some d →
    SlotsOk d ∧ Wf (sigsOf prog.procs) (procScope prog.gslots f d) (dpOf prog) d.body.labels 0 0 d.body
  nodup : (progLabels prog).Nodup

/-- the world of a program: its reference program, its code, its layout, its label environment, its signatures -/
def world (prog : SProgram) : World := ⟨prog.toAst, compile prog, layout prog, envOf prog, sigsOf prog.procs⟩

end RbThm.ProcJSim
