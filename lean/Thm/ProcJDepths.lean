import Thm.ProcJShape
import Thm.ProcJRef
/-!
Layer "procedures ∪ jumps", simulation part — depths of labels and of GOTO targets (syntax and `Wf` only; the last theorem uses
the shape fact `ProcJRef.jump_shape` of the reference semantics).

* `depth_of_label` (+ `_elifs`, `_cases`): the depth table lists every label of a statement, at depths that are at least the
  statement's own; `LabAt.depth_ge`, `LabAtElifs.depth_ge`, `LabAtCases.depth_ge`: so the generator's label environment records
  depths that are at least those of the statement the label is inside;
* `goto_depths` (+ `_elifs`, `_cases`): a GOTO inside a well-formed statement whose label is outside it names a label that is not
  deeper than the statement;
* `gotos_desugar` (+ `Elifs`, `Cases`): the GOTO targets of the desugared statement are GOTO targets of the statement;
* `jump_depths`: the label of a jump that leaves a well-formed statement is outside it and not deeper than it
  (`forIter_jump_depths`: the same for `forIter`).

Ported from `Thm/JmpLLen.lean` (depth_of_label) and `Thm/JmpLSimBase.lean` (goto_depths, depth_ge).
-/
namespace RbThm.ProcJSim
set_option linter.unusedVariables false
set_option linter.unusedSimpArgs false
open RbModel RbModel.ProcJ RbModel.ProcJ.Compile RbModel.ProcJ.Vm
open RbModel.Num hiding Expr
open RbModel.Ast (Pos)
open RbModel.Proc (Var SlotTabs Expr Args PrintItem CaseExpr ProcDecl zeroOf Sigs sigsOf)
open RbModel.Proc.Compile (Layout Layout.addr sizeExpr sizePush refCount sizeExprTo sizeSubCall sizeItems sizeCaseExpr sizeConds
  sizeExit labelName stepSuffix maxPos)
open RbModel.Proc.Vm (Regs Regs.new Frame CtxState getVar setVar curVars modCur curStatic applyArgs readVars binInstr)
open RbModel.ProcJ.Ref (Outcome Mode Act)
open RbThm.ProcJLen
open RbThm.ProcSim (Scope)
open RbThm.ProcJRef (gotosS gotosC)



/-! ### the depth table lists every label of the statement, at depths that are at least the statement's own -/

mutual
theorem depth_of_label : ∀ (s : SStmt) (d e L : Nat), L ∈ s.labels →
    ∃ d' e', (L, d', e') ∈ depthTable d e s ∧ d ≤ d' ∧ e ≤ e'
  | .seq a b, d, e, L, h => by
    simp only [SStmt.labels, List.mem_append] at h
    simp only [depthTable, List.mem_append]
    rcases h with h | h
    · obtain ⟨d', e', hm, h1, h2⟩ := depth_of_label a d e L h
      exact ⟨d', e', .inl hm, h1, h2⟩
    · obtain ⟨d', e', hm, h1, h2⟩ := depth_of_label b d e L h
      exact ⟨d', e', .inr hm, h1, h2⟩
  | .ifBlock c thn elifs hasElse els p, d, e, L, h => by
    simp only [SStmt.labels, List.mem_append] at h
    simp only [depthTable, List.mem_append]
    rcases h with h | h | h
    · obtain ⟨d', e', hm, h1, h2⟩ := depth_of_label thn d e L h
      exact ⟨d', e', .inl (.inl hm), h1, h2⟩
    · obtain ⟨d', e', hm, h1, h2⟩ := depth_of_label_elifs elifs d e L h
      exact ⟨d', e', .inl (.inr hm), h1, h2⟩
    · obtain ⟨d', e', hm, h1, h2⟩ := depth_of_label els d e L h
      exact ⟨d', e', .inr hm, h1, h2⟩
  | .select sel cases hasElse els p, d, e, L, h => by
    simp only [SStmt.labels, List.mem_append] at h
    simp only [depthTable, List.mem_append]
    rcases h with h | h
    · obtain ⟨d', e', hm, h1, h2⟩ := depth_of_label_cases cases d (e + 1) L h
      exact ⟨d', e', .inl hm, h1, by omega⟩
    · obtain ⟨d', e', hm, h1, h2⟩ := depth_of_label els d (e + 1) L h
      exact ⟨d', e', .inr hm, h1, by omega⟩
  | .forLoop x t lo hi step body p, d, e, L, h => by
    simp only [SStmt.labels] at h
    simp only [depthTable]
    obtain ⟨d', e', hm, h1, h2⟩ := depth_of_label body (d + 1) e L h
    exact ⟨d', e', hm, by omega, h2⟩
  | .while c body p, d, e, L, h => by
    simp only [SStmt.labels] at h
    simp only [depthTable]
    exact depth_of_label body d e L h
  | .doLoop c top u body p, d, e, L, h => by
    simp only [SStmt.labels] at h
    simp only [depthTable]
    exact depth_of_label body d e L h
  | .label L' name p, d, e, L, h => by
    simp only [SStmt.labels, List.mem_singleton] at h
    subst h
    exact ⟨d, e, by simp [depthTable], Nat.le_refl _, Nat.le_refl _⟩
  | .skip, _, _, _, h => by simp [SStmt.labels] at h
  | .comment, _, _, _, h => by simp [SStmt.labels] at h
  | .dim _ _ _, _, _, _, h => by simp [SStmt.labels] at h
  | .assign _ _ _ _, _, _, _, h => by simp [SStmt.labels] at h
  | .sdim _ _ _, _, _, _, h => by simp [SStmt.labels] at h
  | .callSub _ _ _, _, _, _, h => by simp [SStmt.labels] at h
  | .exitProc _, _, _, _, h => by simp [SStmt.labels] at h
  | .print _ _, _, _, _, h => by simp [SStmt.labels] at h
  | .data _ _, _, _, _, h => by simp [SStmt.labels] at h
  | .read _ _, _, _, _, h => by simp [SStmt.labels] at h
  | .end_ _, _, _, _, h => by simp [SStmt.labels] at h
  | .goto _ _, _, _, _, h => by simp [SStmt.labels] at h
  | .gosub _ _, _, _, _, h => by simp [SStmt.labels] at h
  | .ret _, _, _, _, h => by simp [SStmt.labels] at h
theorem depth_of_label_elifs : ∀ (el : ElseIfs) (d e L : Nat), L ∈ el.labels →
    ∃ d' e', (L, d', e') ∈ depthElifs d e el ∧ d ≤ d' ∧ e ≤ e'
  | .nil, _, _, _, h => by simp [ElseIfs.labels] at h
  | .cons c body rest, d, e, L, h => by
    simp only [ElseIfs.labels, List.mem_append] at h
    simp only [depthElifs, List.mem_append]
    rcases h with h | h
    · obtain ⟨d', e', hm, h1, h2⟩ := depth_of_label body d e L h
      exact ⟨d', e', .inl hm, h1, h2⟩
    · obtain ⟨d', e', hm, h1, h2⟩ := depth_of_label_elifs rest d e L h
      exact ⟨d', e', .inr hm, h1, h2⟩
theorem depth_of_label_cases : ∀ (cs : SCases) (d e L : Nat), L ∈ cs.labels →
    ∃ d' e', (L, d', e') ∈ depthCases d e cs ∧ d ≤ d' ∧ e ≤ e'
  | .nil, _, _, _, h => by simp [SCases.labels] at h
  | .cons conds body rest, d, e, L, h => by
    simp only [SCases.labels, List.mem_append] at h
    simp only [depthCases, List.mem_append]
    rcases h with h | h
    · obtain ⟨d', e', hm, h1, h2⟩ := depth_of_label body d e L h
      exact ⟨d', e', .inl hm, h1, h2⟩
    · obtain ⟨d', e', hm, h1, h2⟩ := depth_of_label_cases rest d e L h
      exact ⟨d', e', .inr hm, h1, h2⟩
end


/-- a label inside a statement is at least as deep as the statement -/
theorem LabAt.depth_ge {env : LEnv} {d e off : Nat} {s : SStmt} (h : LabAt env d e off s) {L : Nat} (hL : L ∈ s.labels) :
    d ≤ env.dp.fd L ∧ e ≤ env.dp.sd L := by
  obtain ⟨d', e', hm, h1, h2⟩ := depth_of_label s d e L hL
  obtain ⟨e1, e2⟩ := h.2 L d' e' hm
  omega

theorem LabAtElifs.depth_ge {env : LEnv} {d e off : Nat} {el : ElseIfs} (h : LabAtElifs env d e off el) {L : Nat}
    (hL : L ∈ el.labels) : d ≤ env.dp.fd L ∧ e ≤ env.dp.sd L := by
  obtain ⟨d', e', hm, h1, h2⟩ := depth_of_label_elifs el d e L hL
  obtain ⟨e1, e2⟩ := h.2 L d' e' hm
  omega

theorem LabAtCases.depth_ge {env : LEnv} {d e off : Nat} {cs : SCases} (h : LabAtCases env d e off cs) {L : Nat}
    (hL : L ∈ cs.labels) : d ≤ env.dp.fd L ∧ e ≤ env.dp.sd L := by
  obtain ⟨d', e', hm, h1, h2⟩ := depth_of_label_cases cs d e L hL
  obtain ⟨e1, e2⟩ := h.2 L d' e' hm
  omega


mutual
/-- **static lemma**: a GOTO inside a well-formed statement whose label is outside it names a label that is not deeper
than the statement -/
theorem goto_depths (sg : Sigs) (sc : Scope) (dp : Dp) (labs : List Nat) : ∀ (s : SStmt) (d e L : Nat), Wf sg sc dp labs d e s → L ∈ s.gotos → L ∉ s.labels →
    dp.fd L ≤ d ∧ dp.sd L ≤ e
  | .seq a b, d, e, L, hw, hg, hl => by
    simp only [SStmt.gotos, List.mem_append] at hg
    simp only [SStmt.labels, List.mem_append, not_or] at hl
    rcases hg with hg | hg
    · exact goto_depths sg sc dp labs a d e L hw.1 hg hl.1
    · exact goto_depths sg sc dp labs b d e L hw.2 hg hl.2
  | .ifBlock c thn elifs hasElse els p, d, e, L, hw, hg, hl => by
    obtain ⟨_, _, h1, h2, h3, _⟩ := hw
    simp only [SStmt.gotos, List.mem_append] at hg
    simp only [SStmt.labels, List.mem_append, not_or] at hl
    rcases hg with hg | hg | hg
    · exact goto_depths sg sc dp labs thn d e L h1 hg hl.1
    · exact goto_depths_elifs sg sc dp labs elifs d e L h2 hg hl.2.1
    · exact goto_depths sg sc dp labs els d e L h3 hg hl.2.2
  | .select sel cases hasElse els p, d, e, L, hw, hg, hl => by
    obtain ⟨_, h1, h2, _, h4⟩ := hw
    simp only [SStmt.gotos] at hg
    simp only [SStmt.labels] at hl
    have hsd : dp.sd L ≤ e := by
      rcases h4 L hg with h | h
      · exact absurd h hl
      · exact h
    simp only [List.mem_append] at hg
    simp only [List.mem_append, not_or] at hl
    rcases hg with hg | hg
    · exact ⟨(goto_depths_cases sg sc dp labs cases d (e + 1) L h1 hg hl.1).1, hsd⟩
    · exact ⟨(goto_depths sg sc dp labs els d (e + 1) L h2 hg hl.2).1, hsd⟩
  | .forLoop x t lo hi step body p, d, e, L, hw, hg, hl => by
    obtain ⟨_, _, _, _, h1, h2⟩ := hw
    simp only [SStmt.gotos] at hg
    simp only [SStmt.labels] at hl
    have hfd : dp.fd L ≤ d := by
      rcases h2 L hg with h | h
      · exact absurd h hl
      · exact h
    exact ⟨hfd, (goto_depths sg sc dp labs body (d + 1) e L h1 hg hl).2⟩
  | .while c body p, d, e, L, hw, hg, hl => goto_depths sg sc dp labs body d e L hw.2.2 hg hl
  | .doLoop c top u body p, d, e, L, hw, hg, hl => goto_depths sg sc dp labs body d e L hw.2.2 hg hl
  | .goto L' p, d, e, L, hw, hg, hl => by
    simp only [SStmt.gotos, List.mem_singleton] at hg
    subst hg; exact ⟨hw.1, hw.2.1⟩
  | .skip, _, _, _, _, hg, _ => by simp [SStmt.gotos] at hg
  | .comment, _, _, _, _, hg, _ => by simp [SStmt.gotos] at hg
  | .dim _ _ _, _, _, _, _, hg, _ => by simp [SStmt.gotos] at hg
  | .assign _ _ _ _, _, _, _, _, hg, _ => by simp [SStmt.gotos] at hg
  | .sdim _ _ _, _, _, _, _, hg, _ => by simp [SStmt.gotos] at hg
  | .callSub _ _ _, _, _, _, _, hg, _ => by simp [SStmt.gotos] at hg
  | .exitProc _, _, _, _, _, hg, _ => by simp [SStmt.gotos] at hg
  | .print _ _, _, _, _, _, hg, _ => by simp [SStmt.gotos] at hg
  | .data _ _, _, _, _, _, hg, _ => by simp [SStmt.gotos] at hg
  | .read _ _, _, _, _, _, hg, _ => by simp [SStmt.gotos] at hg
  | .end_ _, _, _, _, _, hg, _ => by simp [SStmt.gotos] at hg
  | .label _ _ _, _, _, _, _, hg, _ => by simp [SStmt.gotos] at hg
  | .gosub _ _, _, _, _, _, hg, _ => by simp [SStmt.gotos] at hg
  | .ret _, _, _, _, _, hg, _ => by simp [SStmt.gotos] at hg
theorem goto_depths_elifs (sg : Sigs) (sc : Scope) (dp : Dp) (labs : List Nat) : ∀ (el : ElseIfs) (d e L : Nat), WfElifs sg sc dp labs d e el → L ∈ el.gotos →
    L ∉ el.labels → dp.fd L ≤ d ∧ dp.sd L ≤ e
  | .nil, _, _, _, _, hg, _ => by simp [ElseIfs.gotos] at hg
  | .cons c body rest, d, e, L, hw, hg, hl => by
    obtain ⟨_, _, h1, h2⟩ := hw
    simp only [ElseIfs.gotos, List.mem_append] at hg
    simp only [ElseIfs.labels, List.mem_append, not_or] at hl
    rcases hg with hg | hg
    · exact goto_depths sg sc dp labs body d e L h1 hg hl.1
    · exact goto_depths_elifs sg sc dp labs rest d e L h2 hg hl.2
theorem goto_depths_cases (sg : Sigs) (sc : Scope) (dp : Dp) (labs : List Nat) : ∀ (cs : SCases) (d e L : Nat), WfCases sg sc dp labs d e cs → L ∈ cs.gotos →
    L ∉ cs.labels → dp.fd L ≤ d ∧ dp.sd L ≤ e
  | .nil, _, _, _, _, hg, _ => by simp [SCases.gotos] at hg
  | .cons conds body rest, d, e, L, hw, hg, hl => by
    obtain ⟨_, _, h1, h2⟩ := hw
    simp only [SCases.gotos, List.mem_append] at hg
    simp only [SCases.labels, List.mem_append, not_or] at hl
    rcases hg with hg | hg
    · exact goto_depths sg sc dp labs body d e L h1 hg hl.1
    · exact goto_depths_cases sg sc dp labs rest d e L h2 hg hl.2
end


/-! ### GOTO targets of a statement and of its desugared form; the depths of a jump that leaves a statement -/

theorem gotos_readSeq (p : Pos) : ∀ vars : List (Var × Ty × Pos), gotosS (readSeq p vars) = []
  | [] => rfl
  | (x, t, q) :: rest => by simp [readSeq, gotosS, gotos_readSeq p rest]

mutual
theorem gotos_desugar : ∀ (s : SStmt) (L : Nat), L ∈ gotosS (desugar s) → L ∈ s.gotos
  | .skip, _, h => by simp [desugar, gotosS] at h
  | .seq a b, L, h => by
    simp only [desugar, gotosS, List.mem_append] at h
    simp only [SStmt.gotos, List.mem_append]
    exact h.imp (gotos_desugar a L) (gotos_desugar b L)
  | .comment, _, h => by simp [desugar, gotosS] at h
  | .dim _ _ _, _, h => by simp [desugar, gotosS] at h
  | .assign _ _ _ _, _, h => by simp [desugar, gotosS] at h
  | .sdim _ _ _, _, h => by simp [desugar, gotosS] at h
  | .callSub _ _ _, _, h => by simp [desugar, gotosS] at h
  | .exitProc _, _, h => by simp [desugar, gotosS] at h
  | .print _ _, _, h => by simp [desugar, gotosS] at h
  | .data _ _, _, h => by simp [desugar, gotosS] at h
  | .read vars p, _, h => by simp [desugar, gotos_readSeq] at h
  | .ifBlock c thn elifs hasElse els p, L, h => by
    simp only [desugar, gotosS, List.mem_append] at h
    simp only [SStmt.gotos, List.mem_append]
    rcases h with h | h
    · exact .inl (gotos_desugar thn L h)
    · rcases gotos_desugarElifs elifs (desugar els) p L h with h | h
      · exact .inr (.inl h)
      · exact .inr (.inr (gotos_desugar els L h))
  | .select sel cases hasElse els p, L, h => by
    simp only [desugar, gotosS] at h
    simp only [SStmt.gotos, List.mem_append]
    rcases gotos_desugarCases cases _ L h with h | h
    · exact .inl h
    · cases hasElse with
      | false => simp [gotosC] at h
      | true => simp only [if_true, gotosC] at h; exact .inr (gotos_desugar els L h)
  | .forLoop _ _ _ _ _ body _, L, h => by
    simp only [desugar, gotosS] at h; simp only [SStmt.gotos]; exact gotos_desugar body L h
  | .while _ body _, L, h => by
    simp only [desugar, gotosS] at h; simp only [SStmt.gotos]; exact gotos_desugar body L h
  | .doLoop _ _ _ body _, L, h => by
    simp only [desugar, gotosS] at h; simp only [SStmt.gotos]; exact gotos_desugar body L h
  | .end_ _, _, h => by simp [desugar, gotosS] at h
  | .label _ _ _, _, h => by simp [desugar, gotosS] at h
  | .goto L' _, L, h => by simpa [desugar, gotosS, SStmt.gotos] using h
  | .gosub _ _, _, h => by simp [desugar, gotosS] at h
  | .ret _, _, h => by simp [desugar, gotosS] at h
theorem gotos_desugarElifs : ∀ (el : ElseIfs) (els : Stmt) (p : Pos) (L : Nat),
    L ∈ gotosS (desugarElifs el els p) → L ∈ el.gotos ∨ L ∈ gotosS els
  | .nil, _, _, _, h => by simp only [desugarElifs] at h; exact .inr h
  | .cons c body rest, els, p, L, h => by
    simp only [desugarElifs, gotosS, List.mem_append] at h
    simp only [ElseIfs.gotos, List.mem_append]
    rcases h with h | h
    · exact .inl (.inl (gotos_desugar body L h))
    · rcases gotos_desugarElifs rest els p L h with h | h
      · exact .inl (.inr h)
      · exact .inr h
theorem gotos_desugarCases : ∀ (cs : SCases) (tail : Cases) (L : Nat),
    L ∈ gotosC (desugarCases cs tail) → L ∈ cs.gotos ∨ L ∈ gotosC tail
  | .nil, _, _, h => by simp only [desugarCases] at h; exact .inr h
  | .cons conds body rest, tail, L, h => by
    simp only [desugarCases, gotosC, List.mem_append] at h
    simp only [SCases.gotos, List.mem_append]
    rcases h with h | h
    · exact .inl (.inl (gotos_desugar body L h))
    · rcases gotos_desugarCases rest tail L h with h | h
      · exact .inl (.inr h)
      · exact .inr h
end


/-- **the label of a jump that leaves a well-formed statement is not deeper than the statement** (so the `PopRegisters` /
`PopValueStackIntoA` runs in front of the `Jump` remove exactly the frames and subjects of the constructs that are left) -/
theorem jump_depths {sg : Sigs} {sc : Scope} {dp : Dp} {labs : List Nat} {stmt : SStmt} {d e : Nat}
    (hw : Wf sg sc dp labs d e stmt) {P : Program} {fuel : Nat} {A : Act} {m : Mode} {s s' : St} {L : Nat}
    (h : ProcJ.Ref.exec P fuel A (desugar stmt) m s = (s', .jump L)) :
    L ∉ stmt.labels ∧ (dp.fd L ≤ d ∧ dp.sd L ≤ e) := by
  obtain ⟨hg, hl⟩ := RbThm.ProcJRef.jump_shape fuel P A _ m s s' L h
  rw [hasLabel_desugar hw] at hl
  have hl' : L ∉ stmt.labels := by simpa using hl
  exact ⟨hl', goto_depths sg sc dp labs stmt d e L hw (gotos_desugar stmt L hg) hl'⟩

/-- the same for the body of a FOR loop run by `forIter` -/
theorem forIter_jump_depths {sg : Sigs} {sc : Scope} {dp : Dp} {labs : List Nat} {body : SStmt} {d e : Nat}
    (hw : Wf sg sc dp labs d e body) {P : Program} {fuel : Nat} {A : Act} {x : Var} {t : Ty} {hv sv : Val} {up : Bool}
    {p : Pos} {m : Mode} {s s' : St} {L : Nat}
    (h : ProcJ.Ref.forIter P fuel A x t hv sv up (desugar body) p m s = (s', .jump L)) :
    L ∈ body.gotos ∧ L ∉ body.labels ∧ (dp.fd L ≤ d ∧ dp.sd L ≤ e) := by
  obtain ⟨hg, hl⟩ := RbThm.ProcJRef.forIter_jump_shape h
  rw [hasLabel_desugar hw] at hl
  have hl' : L ∉ body.labels := by simpa using hl
  exact ⟨gotos_desugar body L hg, hl', goto_depths sg sc dp labs body d e L hw (gotos_desugar body L hg) hl'⟩

end RbThm.ProcJSim
