import RbModel.RecL.Spec
import Thm.RecLTyping
/-!
Records layer — the property-level statements of C04 over the reference semantics `RecL.Ref` ALONE (no generator, no VM):
the statements proposed in `RbModel/RecL/Spec.lean`, proved.

* `store_changes_only_that_field` (`Spec.StoreChangesOnlyThatField`): `x.path = e` that ends normally leaves in `x.path` the
  converted value (a whole record for a record-typed field), changes no location apart from it — a sibling field, a field of
  another sub-record, at any depth —, keeps the field names of every enclosing record, touches no other variable, not the
  output, not the DATA cursor;
* `conv_fix_exact` (`Spec.ConvFixExact`): the conversion to `STRING * n` yields exactly `n` characters — the first `n` of the
  source, then spaces;
* `fresh_typed` (`Spec.FreshTyped`): a fresh value has its type (every `STRING * n` inside a fresh record holds `n` spaces);
* `exec_preserves_typing`: one statement of a statically typed program keeps every existing variable at its declared type,
  however it ends.  The statement proposed in `Spec.ExecPreservesTyping StmtTyped` is FALSE without the hypothesis that the
  type table is consistent (`Spec.TypesWf`; counterexample below): it is proved with that hypothesis added to the static
  premise (`ExecPreservesTyping StmtTypedWf`);
* `fixed_string_always_n_chars` (`Spec.FixedStringAlwaysNChars ProgTyped`): for every statically typed program, every fuel
  and however the run ends, every existing variable of the final state has its declared type — every `STRING * n` location
  at any depth holds exactly `n` characters — and every `STRING * n`-typed expression `x.path` that evaluates yields `n`
  characters.

Together with `RbThm.RecLSim.compile_correct` (the VM model on the generator model's code does what `RecL.Ref` prescribes)
these are statements about what compiled programs do.
-/
namespace RbThm.RecLProps
set_option linter.unusedVariables false
set_option linter.unusedSimpArgs false
open RbModel RbModel.Num RbModel.RecL RbModel.RecL.Spec
open RbModel.Ast (Pos)
open RbThm.ArrLNum RbThm.RecLTy

/-! ### get / set laws of the finite maps -/

theorem rfs_find_set_same : ∀ (rfs rfs' : RFs) (f : String) (w : RRV), rfs.set f w = some rfs' →
    rfs'.find f = some w
  | .nil, _, _, _, h => by simp [RecL.Ref.RFs.set] at h
  | .cons g c rest, rfs', f, w, h => by
    simp only [RecL.Ref.RFs.set] at h
    by_cases hg : g = f
    · simp only [hg, if_true] at h; injection h with h; subst h
      simp [RecL.Ref.RFs.find]
    · simp only [hg, if_false] at h
      cases hr : rest.set f w with
      | none => simp [hr] at h
      | some r' =>
        simp only [hr, Option.map_some] at h; injection h with h; subst h
        simp [RecL.Ref.RFs.find, hg, rfs_find_set_same rest r' f w hr]

theorem rfs_find_set_other : ∀ (rfs rfs' : RFs) (f g' : String) (w : RRV), rfs.set f w = some rfs' → g' ≠ f →
    rfs'.find g' = rfs.find g'
  | .nil, _, _, _, _, h, _ => by simp [RecL.Ref.RFs.set] at h
  | .cons g c rest, rfs', f, g', w, h, hne => by
    simp only [RecL.Ref.RFs.set] at h
    by_cases hg : g = f
    · simp only [hg, if_true] at h; injection h with h; subst h
      have : ¬ f = g' := fun e => hne e.symm
      simp [RecL.Ref.RFs.find, hg, this]
    · simp only [hg, if_false] at h
      cases hr : rest.set f w with
      | none => simp [hr] at h
      | some r' =>
        simp only [hr, Option.map_some] at h; injection h with h; subst h
        simp [RecL.Ref.RFs.find, rfs_find_set_other rest r' f g' w hr hne]

theorem rfs_set_names : ∀ (rfs rfs' : RFs) (f : String) (w : RRV), rfs.set f w = some rfs' → rfs'.names = rfs.names
  | .nil, _, _, _, h => by simp [RecL.Ref.RFs.set] at h
  | .cons g c rest, rfs', f, w, h => by
    simp only [RecL.Ref.RFs.set] at h
    by_cases hg : g = f
    · simp only [hg, if_true] at h; injection h with h; subst h
      simp [RecL.Ref.RFs.names, hg]
    · simp only [hg, if_false] at h
      cases hr : rest.set f w with
      | none => simp [hr] at h
      | some r' =>
        simp only [hr, Option.map_some] at h; injection h with h; subst h
        simp [RecL.Ref.RFs.names, rfs_set_names rest r' f w hr]

/-- what a successful store along a non-empty path is made of -/
theorem setPath_cons {fs : RFs} {f : String} {rest : List String} {w v' : RRV}
    (h : (RecL.Ref.RV.udt fs).setPath (f :: rest) w = some v') :
    ∃ c c' fs', fs.find f = some c ∧ c.setPath rest w = some c' ∧ fs.set f c' = some fs' ∧ v' = .udt fs' := by
  simp only [RecL.Ref.RV.setPath] at h
  cases hf : fs.find f with
  | none => simp [hf] at h
  | some c =>
    simp only [hf] at h
    cases hc : c.setPath rest w with
    | none => simp [hc] at h
    | some c' =>
      simp only [hc] at h
      cases hs : fs.set f c' with
      | none => simp [hs] at h
      | some fs' =>
        simp only [hs, Option.map_some] at h; injection h with h
        exact ⟨c, c', fs', rfl, hc, hs, h.symm⟩

/-- reading the location just written yields the written value -/
theorem getPath_setPath_same : ∀ (path : List String) (v w v' : RRV), v.setPath path w = some v' →
    v'.getPath path = some w
  | [], v, w, v', h => by
    simp only [RecL.Ref.RV.setPath] at h; injection h with h; subst h; rfl
  | f :: rest, .sc _, _, _, h => by simp [RecL.Ref.RV.setPath] at h
  | f :: rest, .udt fs, w, v', h => by
    obtain ⟨c, c', fs', h1, h2, h3, rfl⟩ := setPath_cons h
    simp only [RecL.Ref.RV.getPath, rfs_find_set_same fs fs' f c' h3]
    exact getPath_setPath_same rest c w c' h2

/-- a store leaves every location apart from the written one alone -/
theorem getPath_setPath_apart : ∀ (path q : List String) (v w v' : RRV), v.setPath path w = some v' →
    Apart q path → v'.getPath q = v.getPath q
  | [], q, _, _, _, _, ha => absurd (List.nil_prefix) ha.2
  | f :: rest, [], _, _, _, _, ha => absurd (List.nil_prefix) ha.1
  | f :: rest, g :: q, .sc _, _, _, h, _ => by simp [RecL.Ref.RV.setPath] at h
  | f :: rest, g :: q, .udt fs, w, v', h, ha => by
    obtain ⟨c, c', fs', h1, h2, h3, rfl⟩ := setPath_cons h
    by_cases hg : g = f
    · subst hg
      have ha' : Apart q rest :=
        ⟨fun hp => ha.1 ((List.prefix_cons_inj g).mpr hp), fun hp => ha.2 ((List.prefix_cons_inj g).mpr hp)⟩
      simp only [RecL.Ref.RV.getPath, rfs_find_set_same fs fs' g c' h3, h1]
      exact getPath_setPath_apart rest q c w c' h2 ha'
    · simp only [RecL.Ref.RV.getPath, rfs_find_set_other fs fs' f g c' h3 hg]

/-- a store keeps the field names of every record that encloses the written location -/
theorem getPath_setPath_prefix : ∀ (path q : List String) (v w v' : RRV) (fs0 : RFs), v.setPath path w = some v' →
    q <+: path → q ≠ path → v.getPath q = some (.udt fs0) →
    ∃ fs', v'.getPath q = some (.udt fs') ∧ fs'.names = fs0.names
  | [], q, _, _, _, _, _, hp, hne, _ => absurd (List.prefix_nil.mp hp) hne
  | f :: rest, _, .sc _, _, _, _, h, _, _, _ => by simp [RecL.Ref.RV.setPath] at h
  | f :: rest, [], .udt fs, w, v', fs0, h, _, _, hg => by
    obtain ⟨c, c', fs', h1, h2, h3, rfl⟩ := setPath_cons h
    simp only [RecL.Ref.RV.getPath] at hg
    injection hg with hg; injection hg with hg; subst hg
    exact ⟨fs', rfl, rfs_set_names fs fs' f c' h3⟩
  | f :: rest, g :: q, .udt fs, w, v', fs0, h, hp, hne, hg => by
    obtain ⟨c, c', fs', h1, h2, h3, rfl⟩ := setPath_cons h
    have hgf : g = f := by
      obtain ⟨t, ht⟩ := hp
      simp only [List.cons_append] at ht
      injection ht
    subst hgf
    have hp' : q <+: rest := (List.prefix_cons_inj g).mp hp
    have hne' : q ≠ rest := fun e => hne (by rw [e])
    simp only [RecL.Ref.RV.getPath, h1] at hg
    simp only [RecL.Ref.RV.getPath, rfs_find_set_same fs fs' g c' h3]
    exact getPath_setPath_prefix rest q c w c' fs0 h2 hp' hne' hg

/-! ### C04: a store changes that field and nothing else -/

theorem getElem?_set_self' {α : Type} {l : List α} {i : Nat} {a b : α} (h : l[i]? = some a) :
    (l.set i b)[i]? = some b :=
  List.getElem?_set_self (List.getElem?_eq_some_iff.mp h).1

/-- **"Storing into one record field changes that field and nothing else"** (`Spec.StoreChangesOnlyThatField`) -/
theorem store_changes_only_that_field : StoreChangesOnlyThatField := by
  intro fuel x path t e p s s' h
  cases fuel with
  | zero => simp [RecL.Ref.exec] at h
  | succ fuel =>
    simp only [RecL.Ref.exec] at h
    cases hev : RecL.Ref.evalTo s.env e t with
    | err c q => simp [hev, RecL.Ref.outcomeOf] at h
    | inexact => simp [hev, RecL.Ref.outcomeOf] at h
    | illFormed => simp [hev, RecL.Ref.outcomeOf] at h
    | ok v =>
      simp only [hev] at h
      refine ⟨v, rfl, ?_⟩
      have hother : ∀ (new : RRV) (y : Nat), y ≠ x → (s.setRV x new).env[y]? = s.env[y]? := by
        intro new y hy
        simp only [RecL.Ref.St.setRV]
        exact List.getElem?_set_ne (fun e => hy e.symm)
      cases path with
      | nil =>
        cases hx : s.env[x]? with
        | none => simp [hx] at h
        | some o =>
          simp only [hx] at h
          injection h with h1 _
          subst h1
          have hnew : (s.setRV x v).env[x]? = some (some v) := getElem?_set_self' hx
          refine ⟨by simp only [readLoc, hnew, RecL.Ref.RV.getPath], ?_, ?_, hother v, rfl, rfl, rfl, rfl⟩
          · intro q ha; exact absurd List.nil_prefix ha.2
          · intro q fs hp hne; exact absurd (List.prefix_nil.mp hp) hne
      | cons f rest =>
        cases hx : s.env[x]? with
        | none => simp [hx] at h
        | some o =>
          cases o with
          | none => simp [hx] at h
          | some old =>
            simp only [hx] at h
            cases hs : old.setPath (f :: rest) v with
            | none => simp [hs] at h
            | some new =>
              simp only [hs] at h
              injection h with h1 _
              subst h1
              have hnew : (s.setRV x new).env[x]? = some (some new) := getElem?_set_self' hx
              refine ⟨?_, ?_, ?_, hother new, rfl, rfl, rfl, rfl⟩
              · simp only [readLoc, hnew]; exact getPath_setPath_same _ old v new hs
              · intro q ha
                simp only [readLoc, hnew, hx]; exact getPath_setPath_apart _ q old v new hs ha
              · intro q fs hp hne hg
                simp only [readLoc, hnew, hx] at hg ⊢
                exact getPath_setPath_prefix _ q old v new fs hs hp hne hg

/-! ### the conversion to `STRING * n`, fresh values -/

/-- **the conversion to `STRING * n` yields exactly `n` characters** (`Spec.ConvFixExact`) -/
theorem conv_fix_exact : ConvFixExact := by
  intro p st n cs w hst h
  simp only [RecL.Ref.conv, hst, if_false] at h
  injection h with h; subst h
  refine ⟨_, rfl, padTrunc_length n cs, ?_, ?_⟩
  · simp only [RecL.Ref.padTrunc]
    rw [List.take_append_of_le_length (by simp only [List.length_take]; omega), List.take_take]
    by_cases hn : n ≤ cs.length
    · congr 1; omega
    · rw [List.take_of_length_le (by omega), List.take_of_length_le (by omega)]
  · intro i h1 h2
    simp only [RecL.Ref.padTrunc]
    rw [List.getElem?_append_right (by simp only [List.length_take]; omega)]
    simp only [List.length_take, List.getElem?_replicate]
    have : i - min n cs.length < n - cs.length := by omega
    simp [this]

/-- **a fresh value has its type** (`Spec.FreshTyped`) -/
theorem fresh_typed : FreshTyped := RbThm.RecLTy.fresh_typed

/-! ### typing is preserved by execution -/

/-- the static premise of typing preservation: `Spec.StmtTyped` over a consistent type table -/
def StmtTypedWf (types : List FFields) (slots : List ETy) (st : Stmt) : Prop :=
  TypesWf types ∧ StmtTyped types slots st

/-- the state carries the type table `types` and every existing variable has its declared type -/
def Good (types : List FFields) (slots : List ETy) (s : RecL.Ref.St) : Prop :=
  s.types = types ∧ EnvTyped types slots s.env

theorem Good.congr {types : List FFields} {slots : List ETy} {s s' : RecL.Ref.St} (h : Good types slots s)
    (he : s'.env = s.env) (ht : s'.types = s.types) : Good types slots s' :=
  ⟨by rw [ht]; exact h.1, by rw [he]; exact h.2⟩

theorem Good.set {types : List FFields} {slots : List ETy} {s : RecL.Ref.St} (h : Good types slots s)
    {x : Nat} {t : Ty} {w : Val} (hx : slots[x]? = some (.sc t)) (hw : w.tag = t) : Good types slots (s.set x w) :=
  ⟨h.1, envTyped_setRV (ft := .sc t) h.2 hx rfl (by simp only [HasTy]; exact ⟨w, rfl, hw⟩)⟩

theorem printItems_keeps : ∀ (items : List PrintItem) (s : RecL.Ref.St),
    (RecL.Ref.printItems s items).1.env = s.env ∧ (RecL.Ref.printItems s items).1.types = s.types
  | [], s => ⟨rfl, rfl⟩
  | .comma :: rest, s => by
    simp only [RecL.Ref.printItems]
    exact printItems_keeps rest _
  | .semicolon :: rest, s => by
    simp only [RecL.Ref.printItems]
    exact printItems_keeps rest _
  | .expr e :: rest, s => by
    simp only [RecL.Ref.printItems]
    cases RecL.Ref.evalS s.env e with
    | ok v =>
      simp only
      cases RecL.Ref.printValue v with
      | none => exact ⟨rfl, rfl⟩
      | some pv => exact printItems_keeps rest _
    | err c p => exact ⟨rfl, rfl⟩
    | inexact => exact ⟨rfl, rfl⟩
    | illFormed => exact ⟨rfl, rfl⟩

theorem readItem_tag {s : RecL.Ref.St} {t : Ty} {p : Pos} {w : Val} (h : RecL.Ref.readItem s t p = .ok w) :
    w.tag = t := by
  simp only [RecL.Ref.readItem] at h
  cases hd : s.data[s.dataIdx]? with
  | none => simp [hd] at h
  | some v =>
    simp only [hd] at h
    cases hc : Num.cast v t with
    | ok w' => simp only [hc] at h; injection h with h; subst h; exact cast_tag v t w' hc
    | err e => simp [hc] at h
    | inexact => simp [hc] at h

/-- the three mutually recursive functions of the reference semantics keep the state well typed -/
def ExecOk (types : List FFields) (slots : List ETy) (fuel : Nat) : Prop :=
  (∀ (st : Stmt) (s : RecL.Ref.St), StmtTyped types slots st → Good types slots s →
    Good types slots (RecL.Ref.exec fuel st s).1) ∧
  (∀ (p : Pos) (subj : Val) (cs : Cases) (s : RecL.Ref.St), CasesTyped types slots cs → Good types slots s →
    Good types slots (RecL.Ref.execCases fuel p subj cs s).1) ∧
  (∀ (x : Nat) (t : Ty) (h sv : Val) (up : Bool) (body : Stmt) (p : Pos) (s : RecL.Ref.St),
    slots[x]? = some (.sc t) → StmtTyped types slots body → Good types slots s →
    Good types slots (RecL.Ref.forIter fuel x t h sv up body p s).1)

theorem execOk_zero (types : List FFields) (slots : List ETy) : ExecOk types slots 0 :=
  ⟨fun _ _ _ hg => by simpa only [RecL.Ref.exec] using hg,
   fun _ _ _ _ _ hg => by simpa only [RecL.Ref.execCases] using hg,
   fun _ _ _ _ _ _ _ _ _ _ hg => by simpa only [RecL.Ref.forIter] using hg⟩

theorem exec_succ {types : List FFields} {slots : List ETy} (hw : TypesWf types) {fuel : Nat}
    (ih : ExecOk types slots fuel) (st : Stmt) (s : RecL.Ref.St) (ht : StmtTyped types slots st)
    (hg : Good types slots s) : Good types slots (RecL.Ref.exec (fuel + 1) st s).1 := by
  cases st with
  | skip => simpa only [RecL.Ref.exec] using hg
  | end_ p => simpa only [RecL.Ref.exec] using hg
  | seq a b =>
    simp only [StmtTyped] at ht
    simp only [RecL.Ref.exec]
    have h1 := ih.1 a s ht.1 hg
    generalize RecL.Ref.exec fuel a s = ra at h1 ⊢
    obtain ⟨s1, o1⟩ := ra
    cases o1 <;> first | exact ih.1 b s1 ht.2 h1 | exact h1
  | dim x t p =>
    simp only [StmtTyped] at ht
    simp only [RecL.Ref.exec]
    cases hexp : expand s.types t with
    | none => exact hg
    | some ft =>
      simp only
      rw [hg.1] at hexp
      exact ⟨hg.1, envTyped_setRV hg.2 ht.1 hexp (RbThm.RecLTy.fresh_typed ft)⟩
  | assign x path t e p =>
    simp only [StmtTyped] at ht
    obtain ⟨hpt, hte, _⟩ := ht
    obtain ⟨st0, root, ft, h1, h2, h3, h4⟩ := pathTyped_expand hw hpt
    simp only [RecL.Ref.exec]
    cases hev : RecL.Ref.evalTo s.env e t with
    | err c q => exact hg
    | inexact => exact hg
    | illFormed => exact hg
    | ok v =>
      simp only
      have hvt := evalTo_typed hw hg.2 hte h4 hev
      cases path with
      | nil =>
        simp only [FTy.at] at h3
        injection h3 with h3; subst h3
        cases hx : s.env[x]? with
        | none => exact hg
        | some o => exact ⟨hg.1, envTyped_setRV hg.2 h1 h2 hvt⟩
      | cons f rest =>
        cases hx : s.env[x]? with
        | none => exact hg
        | some o =>
          cases o with
          | none => exact hg
          | some old =>
            simp only
            obtain ⟨v', hs, hv'⟩ := hasTy_setPath (f :: rest) root ft old v (envTyped_lookup hg.2 h1 h2 hx) h3 hvt
            simp only [hs]
            exact ⟨hg.1, envTyped_setRV hg.2 h1 h2 hv'⟩
  | print items p =>
    simp only [RecL.Ref.exec]
    have hk := printItems_keeps items s
    generalize RecL.Ref.printItems s items = r at hk ⊢
    obtain ⟨s1, o1⟩ := r
    have hg1 : Good types slots s1 := hg.congr hk.1 hk.2
    cases o1 with
    | normal =>
      simp only
      split
      · exact hg1
      · exact hg1.congr rfl rfl
    | halted => exact hg1
    | error c q => exact hg1
    | inexact => exact hg1
    | outOfFuel => exact hg1
    | illFormed => exact hg1
  | read tg p =>
    simp only [StmtTyped] at ht
    simp only [RecL.Ref.exec]
    cases hr : RecL.Ref.readItem s tg.t p with
    | error o => exact hg
    | ok w => exact (hg.set ht (readItem_tag hr)).congr rfl rfl
  | ifs c thn els p =>
    simp only [StmtTyped] at ht
    simp only [RecL.Ref.exec]
    cases RecL.Ref.evalCond s c with
    | error o => exact hg
    | ok b =>
      cases b with
      | true => exact ih.1 thn s ht.2.1 hg
      | false => exact ih.1 els s ht.2.2 hg
  | select e cases p =>
    simp only [StmtTyped] at ht
    simp only [RecL.Ref.exec]
    cases RecL.Ref.evalE s e with
    | error o => exact hg
    | ok subj => exact ih.2.1 p subj cases s ht.2 hg
  | forLoop x t lo hi step body p =>
    simp only [StmtTyped] at ht
    obtain ⟨hx, _, hlo, hhi, hstep, hbody⟩ := ht
    simp only [RecL.Ref.exec]
    cases hl : RecL.Ref.evalToS s.env lo t with
    | err c q => exact hg
    | inexact => exact hg
    | illFormed => exact hg
    | ok l =>
      simp only
      have hg1 : Good types slots (s.set x l) := hg.set hx (evalToS_tag hw hg.2 hlo hl)
      cases RecL.Ref.evalToS (s.set x l).env hi t with
      | err c q => exact hg1
      | inexact => exact hg1
      | illFormed => exact hg1
      | ok h =>
        simp only
        cases step with
        | none => exact ih.2.2 x t h (.int 1) true body p _ hx hbody hg1
        | some se =>
          simp only
          cases RecL.Ref.evalE (s.set x l) se with
          | error o => exact hg1
          | ok sv =>
            simp only
            cases RecL.Ref.stepSign p sv with
            | error o => exact hg1
            | ok sg =>
              cases sg with
              | neg => exact ih.2.2 x t h sv false body p _ hx hbody hg1
              | pos => exact ih.2.2 x t h sv true body p _ hx hbody hg1
              | zero => exact hg1
  | «while» c body p =>
    have ht' := ht
    simp only [StmtTyped] at ht
    simp only [RecL.Ref.exec]
    cases RecL.Ref.evalCond s c with
    | error o => exact hg
    | ok b =>
      cases b with
      | false => exact hg
      | true =>
        simp only
        have h1 := ih.1 body s ht.2 hg
        generalize RecL.Ref.exec fuel body s = rb at h1 ⊢
        obtain ⟨s1, o1⟩ := rb
        cases o1 <;> first | exact ih.1 (.while c body p) s1 ht' h1 | exact h1
  | doLoop c top until_ body p =>
    have ht' := ht
    simp only [StmtTyped] at ht
    simp only [RecL.Ref.exec]
    cases top with
    | true =>
      simp only [if_true]
      cases RecL.Ref.evalCond s c with
      | error o => exact hg
      | ok b =>
        simp only
        split
        · have h1 := ih.1 body s ht.2 hg
          generalize RecL.Ref.exec fuel body s = rb at h1 ⊢
          obtain ⟨s1, o1⟩ := rb
          cases o1 <;> first | exact ih.1 (.doLoop c true until_ body p) s1 ht' h1 | exact h1
        · exact hg
    | false =>
      simp only [Bool.false_eq_true, if_false]
      have h1 := ih.1 body s ht.2 hg
      generalize RecL.Ref.exec fuel body s = rb at h1 ⊢
      obtain ⟨s1, o1⟩ := rb
      cases o1 with
      | normal =>
        simp only
        cases RecL.Ref.evalCond s1 c with
        | error o => exact h1
        | ok b =>
          simp only
          split
          · exact ih.1 (.doLoop c false until_ body p) s1 ht' h1
          · exact h1
      | halted => exact h1
      | error c q => exact h1
      | inexact => exact h1
      | outOfFuel => exact h1
      | illFormed => exact h1

theorem execOk_succ {types : List FFields} {slots : List ETy} (hw : TypesWf types) {fuel : Nat}
    (ih : ExecOk types slots fuel) : ExecOk types slots (fuel + 1) := by
  refine ⟨fun st s ht hg => exec_succ hw ih st s ht hg, ?_, ?_⟩
  · intro p subj cs s ht hg
    cases cs with
    | nil => simpa only [RecL.Ref.execCases] using hg
    | else_ body =>
      simp only [CasesTyped] at ht
      simp only [RecL.Ref.execCases]
      exact ih.1 body s ht hg
    | case conds body rest =>
      simp only [CasesTyped] at ht
      simp only [RecL.Ref.execCases]
      cases RecL.Ref.anyMatches s p subj conds with
      | error o => exact hg
      | ok b =>
        cases b with
        | true => exact ih.1 body s ht.2.1 hg
        | false => exact ih.2.1 p subj rest s ht.2.2 hg
  · intro x t h sv up body p s hx hb hg
    simp only [RecL.Ref.forIter]
    cases RecL.Ref.relTest p (if up then .lessOrEqual else .greaterOrEqual) (s.getS x t) h with
    | error o => exact hg
    | ok b =>
      cases b with
      | false => exact hg
      | true =>
        simp only
        have h1 := ih.1 body s hb hg
        generalize RecL.Ref.exec fuel body s = rb at h1 ⊢
        obtain ⟨s1, o1⟩ := rb
        cases o1 with
        | normal =>
          simp only
          cases hinc : (plus (s1.getS x t) sv).bind (fun v => Num.cast v t) with
          | ok v =>
            simp only
            have hv : v.tag = t := by
              obtain ⟨w, _, hc⟩ := res_bind_ok hinc
              exact cast_tag w t v hc
            exact ih.2.2 x t h sv up body p _ hx hb (h1.set hx hv)
          | err e => exact h1
          | inexact => exact h1
        | halted => exact h1
        | error c q => exact h1
        | inexact => exact h1
        | outOfFuel => exact h1
        | illFormed => exact h1

theorem execOk_all {types : List FFields} {slots : List ETy} (hw : TypesWf types) : ∀ fuel, ExecOk types slots fuel
  | 0 => execOk_zero types slots
  | fuel + 1 => execOk_succ hw (execOk_all hw fuel)

/-- **one statement keeps every existing variable at its declared type**, however it ends (normally, END, error, out of
fuel): `Spec.ExecPreservesTyping` with the consistency of the type table added to the static premise -/
theorem exec_preserves_typing : ExecPreservesTyping StmtTypedWf := by
  intro fuel slots st s s' o ht henv h
  have := (execOk_all (slots := slots) ht.1 fuel).1 st s ht.2 ⟨rfl, henv⟩
  rw [h] at this
  exact ⟨by rw [this.1]; exact this.2, this.1⟩

/-- **"A STRING * n variable or field always holds exactly n characters however it was assigned"**
(`Spec.FixedStringAlwaysNChars ProgTyped`) -/
theorem fixed_string_always_n_chars : FixedStringAlwaysNChars ProgTyped := by
  intro P fuel s' o hp h
  obtain ⟨hw, hst, _⟩ := hp
  have hinit : Good P.types P.slots (RecL.Ref.St.init P) := ⟨rfl, typed_init P.types P.slots⟩
  have := (execOk_all (slots := P.slots) hw fuel).1 P.body (RecL.Ref.St.init P) hst hinit
  simp only [RecL.Ref.run] at h
  rw [h] at this
  refine ⟨this.2, ?_⟩
  intro x path n q v hpt hev
  obtain ⟨ft, hft, hv⟩ := eval_typed hw this.2 (.var x path (.fix n) q) v (by simpa only [ExprTyped] using hpt) hev
  simp only [RecL.Expr.ty, expand] at hft
  injection hft with hft; subst hft
  exact hasTy_fix hv

/-- the four facts behind the property, as proposed in `Spec.fixed_string_always_n_chars` (with the corrected premise of
typing preservation) -/
theorem fixed_string_summary :
    FixedStringAlwaysNChars ProgTyped ∧ ExecPreservesTyping StmtTypedWf ∧ ConvFixExact ∧ FreshTyped :=
  ⟨fixed_string_always_n_chars, exec_preserves_typing, conv_fix_exact, fresh_typed⟩

/-! ### the hypothesis `TypesWf` of typing preservation is needed -/

private def cxInner : FFields := .cons "B" (.fix 2) .nil
private def cxTypes : List FFields := [.cons "A" (.sc .int) .nil, .cons "F" (.udt 0 cxInner) .nil]
private def cxSlots : List ETy := [.udt 0, .udt 1]
private def cxA : RRV := .udt (.cons "A" (.sc (.int 0)) .nil)
private def cxState : RecL.Ref.St :=
  { types := cxTypes,
    env := [some cxA, some (.udt (.cons "F" (.udt (.cons "B" (.sc (.str [' ', ' '])) .nil)) .nil))],
    out := Print.WritePrinter.new, data := [], dataIdx := 0 }
private def cxStmt : Stmt := .assign 1 ["F"] (.udt 0) (.var 0 [] (.udt 0) ⟨0, 0⟩) ⟨0, 0⟩

/-- `Spec.ExecPreservesTyping Spec.StmtTyped` as proposed (no hypothesis on the type table) is FALSE: with a table in which
the inline expansion of a nested record type differs from the table's entry for that type (type 1 has a field `F` declared
as "type 0 with the single field B AS STRING * 2" while type 0 itself is "A AS INTEGER"), the statically typed whole-record
assignment `v1.F = v0` stores a record of the fields of type 0 into a location whose declared fields are different. -/
theorem exec_preserves_typing_needs_typesWf : ¬ ExecPreservesTyping StmtTyped := by
  intro h
  have hst : StmtTyped cxState.types cxSlots cxStmt := by
    simp only [cxStmt, StmtTyped, ExprTyped, RecL.Expr.ty]
    refine ⟨⟨.udt 1, .udt 1 (.cons "F" (.udt 0 cxInner) .nil), .udt 0 cxInner, rfl, rfl, ?_, rfl⟩,
      ⟨.udt 0, .udt 0 (.cons "A" (.sc .int) .nil), _, rfl, rfl, rfl, rfl⟩, Or.inl rfl⟩
    simp [FTy.at, FFields.find]
  have henv : EnvTyped cxState.types cxSlots cxState.env := by
    refine ⟨rfl, ?_⟩
    intro x v hx
    match x with
    | 0 =>
      simp only [cxState, List.getElem?_cons_zero] at hx
      injection hx with hx; injection hx with hx; subst hx
      refine ⟨.udt 0, _, rfl, rfl, ?_⟩
      simp only [cxA, HasTy, FieldsHaveTy]
      exact ⟨_, rfl, _, _, rfl, ⟨_, rfl, rfl⟩, rfl⟩
    | 1 =>
      simp only [cxState, List.getElem?_cons_succ, List.getElem?_cons_zero] at hx
      injection hx with hx; injection hx with hx; subst hx
      refine ⟨.udt 1, _, rfl, rfl, ?_⟩
      simp only [HasTy, FieldsHaveTy, cxInner]
      exact ⟨_, rfl, _, _, rfl, ⟨_, rfl, _, _, rfl, ⟨_, rfl, rfl⟩, rfl⟩, rfl⟩
    | n + 2 => simp [cxState] at hx
  have hex : RecL.Ref.exec 1 cxStmt cxState =
      (cxState.setRV 1 (.udt (.cons "F" cxA .nil)), .normal) := by
    simp [cxStmt, cxState, RecL.Ref.exec, RecL.Ref.evalTo, RecL.Ref.eval, RecL.Ref.RV.getPath, RecL.Ref.ERes.bind,
      RecL.Ref.conv, RecL.Expr.ty, RecL.Ref.RV.setPath, RecL.Ref.RFs.find, RecL.Ref.RFs.set, RecL.Ref.St.setRV]
  obtain ⟨⟨_, hty⟩, _⟩ := h 1 cxSlots cxStmt cxState _ _ hst henv hex
  obtain ⟨st, ft, h1, h2, h3⟩ := hty 1 (.udt (.cons "F" cxA .nil)) (by simp [cxState, RecL.Ref.St.setRV])
  simp only [cxSlots, List.getElem?_cons_succ, List.getElem?_cons_zero] at h1
  injection h1 with h1; subst h1
  simp [RecL.Ref.St.setRV, cxState, expand, cxTypes] at h2
  subst h2
  simp [HasTy, FieldsHaveTy, cxA, cxInner] at h3

end RbThm.RecLProps
