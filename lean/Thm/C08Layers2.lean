import Thm.JmpLSim
import Thm.ProcArrSim
/-!
# C08 for the jump layer and the combined procedures + arrays layer — no internal failure

`Thm/C08Core.lean` and `Thm/C08Layers.lean` prove C08 ("a program the checker accepts runs to a BASIC-level outcome,
never an internal failure") for the core language, the procedures, the arrays and the records layer, each as a
corollary of the layer's simulation theorem.  This file does the same for the two layers of round 3:

* the jump layer (`RbThm.JmpLSim.compile_correct_checked`: core language + `label`, `GOTO`, `GOSUB`, `RETURN` in the
  main module) — namespace `RbThm.C08Layers2.Jumps`;
* the combined layer (`RbThm.ProcArrSim.compile_correct_checked`: core language + SUB / FUNCTION + arrays of scalars in
  every ordinary scope + array elements as by-reference actuals) — namespace `RbThm.C08Layers2.ProcArrs`.

Each VM model answers `stuck` exactly where the real VM would panic on the layer's instructions (pop from an empty
stack, `PopRegisters` without a frame, `Return` whose recorded height cuts the register stack to nothing, `PopRet`
without a frame, a missing variable / array, an operand of the wrong kind in an unchecked accessor, no instruction at
the pc) — and where the model does not follow the code (exact arithmetic leaving its domain).  `step` is a function, so
the run the simulation theorem exhibits is *the* run.  Hence, for every program passing the layer's boolean premise
checker `progWfB` (evaluated by the driver on the real front end's tree: `jmpl.wf`, `procarr.wf`) on which the reference
run *finishes* — normally, with END, or with a BASIC error (for the jump layer including error 3, RETURN without GOSUB);
not `inexact`, `outOfFuel`, nor (jump layer) `illFormed`, nor (combined layer) `tooBig`; for the combined layer `exited`
/ `illFormed` are *proved impossible* under `progWfB` —

* `jmpl_no_internal_failure` / `procarr_no_internal_failure`: the bounded VM run never answers `stuck`, whatever the
  step budget;
* `jmpl_basic_level_outcome` / `procarr_basic_level_outcome`: with enough budget it has halted, or stopped with exactly
  the reference's BASIC error (code and position).
-/

namespace RbThm.C08Layers2.Jumps
set_option linter.unusedVariables false
open RbModel RbModel.Num RbModel.JmpL RbModel.JmpL.Compile RbModel.JmpL.Vm
open RbModel.Ast (Pos)
open RbThm.JmpLSim (Steps ProgSpec)

/-- the layer's reference semantics finished: normally, with END, or with a BASIC error (`jump`, `ret`, `notHere` never
come out of `JmpL.Ref.run`; they are listed because the outcome type has them) -/
def finished : JmpL.Ref.Outcome → Bool
  | .normal => true
  | .halted => true
  | .error _ _ => true
  | .jump _ => false
  | .ret _ => false
  | .inexact => false
  | .outOfFuel => false
  | .illFormed => false
  | .notHere => false

abbrev Finished (o : JmpL.Ref.Outcome) : Prop := finished o = true

/-! `step` is a function, so a run that is known to end cannot get stuck earlier -/

theorem run_of_steps_halt (code : Code) {σ τ υ : Vm} (h : Steps code σ τ) (hh : Vm.step code τ = .halt υ) :
    ∀ m, Vm.run code m σ = .outOfFuel ∨ Vm.run code m σ = .halted υ := by
  induction h with
  | refl σ =>
    intro m
    cases m with
    | zero => exact .inl rfl
    | succ k => exact .inr (by simp [Vm.run, hh])
  | cons hs _ ih =>
    intro m
    cases m with
    | zero => exact .inl rfl
    | succ k =>
      rcases ih hh k with h1 | h1
      · exact .inl (by simp [Vm.run, hs, h1])
      · exact .inr (by simp [Vm.run, hs, h1])

theorem run_of_steps_err (code : Code) {σ τ υ : Vm} {c : Nat} {p : Pos} (h : Steps code σ τ)
    (hh : Vm.step code τ = .error c p υ) :
    ∀ m, Vm.run code m σ = .outOfFuel ∨ Vm.run code m σ = .error c p υ := by
  induction h with
  | refl σ =>
    intro m
    cases m with
    | zero => exact .inl rfl
    | succ k => exact .inr (by simp [Vm.run, hh])
  | cons hs _ ih =>
    intro m
    cases m with
    | zero => exact .inl rfl
    | succ k =>
      rcases ih hh k with h1 | h1
      · exact .inl (by simp [Vm.run, hs, h1])
      · exact .inr (by simp [Vm.run, hs, h1])

/-- the end of the VM run, as the simulation theorem gives it, for a finished reference run -/
theorem ends (prog : SProgram) (fuel : Nat) (hw : progWfB prog = true)
    (hfin : Finished (JmpL.Ref.run fuel prog.toAst).2) :
    (∃ τ υ, Steps (compile prog) (Vm.init prog.slots) τ ∧ Vm.step (compile prog) τ = .halt υ ∧
        υ.env = (JmpL.Ref.run fuel prog.toAst).1.env ∧ υ.out = (JmpL.Ref.run fuel prog.toAst).1.out ∧
        ((JmpL.Ref.run fuel prog.toAst).2 = .normal ∨ (JmpL.Ref.run fuel prog.toAst).2 = .halted)) ∨
    (∃ τ υ c p, Steps (compile prog) (Vm.init prog.slots) τ ∧ Vm.step (compile prog) τ = .error c p υ ∧
        υ.out = (JmpL.Ref.run fuel prog.toAst).1.out ∧ (JmpL.Ref.run fuel prog.toAst).2 = .error c p) := by
  have h := RbThm.JmpLSim.compile_correct_checked prog fuel hw
  rcases hr : JmpL.Ref.run fuel prog.toAst with ⟨s', o⟩
  rw [hr] at h hfin
  cases o with
  | normal => obtain ⟨τ, υ, hs, hh, he, ho⟩ := h; exact .inl ⟨τ, υ, hs, hh, he, ho, .inl rfl⟩
  | halted => obtain ⟨τ, υ, hs, hh, he, ho⟩ := h; exact .inl ⟨τ, υ, hs, hh, he, ho, .inr rfl⟩
  | error c p => obtain ⟨τ, υ, hs, hh, ho⟩ := h; exact .inr ⟨τ, υ, c, p, hs, hh, ho, rfl⟩
  | jump L => simp [Finished, finished] at hfin
  | ret p => simp [Finished, finished] at hfin
  | inexact => simp [Finished, finished] at hfin
  | outOfFuel => simp [Finished, finished] at hfin
  | illFormed => simp [Finished, finished] at hfin
  | notHere => simp [Finished, finished] at hfin

/-- **`jmpl_no_internal_failure`** (jump layer) — for every program the layer's premise checker accepts on which the
layer's reference semantics finishes (normally, with END, with a BASIC error — error 3 of a RETURN that no GOSUB is
waiting for included), the VM model running the generated code never answers `stuck` (the model's rendering of a Rust
panic: among others a `PopRegisters` run in front of a `Jump` that finds no frame, a `Return` that cuts the register
stack to nothing): whatever the step budget `m`, the run is still going, or has halted, or has stopped with a BASIC
error. -/
theorem jmpl_no_internal_failure (prog : SProgram) (fuel : Nat) (hw : progWfB prog = true)
    (hfin : Finished (JmpL.Ref.run fuel prog.toAst).2) :
    ∀ m, Vm.run (compile prog) m (Vm.init prog.slots) ≠ .stuck := by
  intro m
  rcases ends prog fuel hw hfin with ⟨τ, υ, hs, hh, _⟩ | ⟨τ, υ, c, p, hs, hh, _⟩
  · rcases run_of_steps_halt _ hs hh m with h1 | h1 <;> simp [h1]
  · rcases run_of_steps_err _ hs hh m with h1 | h1 <;> simp [h1]

/-- **`jmpl_basic_level_outcome`** (jump layer) — … and with a large enough budget the run ends at BASIC level: halted
(the reference ended normally or with END) or in exactly the BASIC error, code and position, the reference ends in. -/
theorem jmpl_basic_level_outcome (prog : SProgram) (fuel : Nat) (hw : progWfB prog = true)
    (hfin : Finished (JmpL.Ref.run fuel prog.toAst).2) :
    ∃ n, ∀ m, n ≤ m →
      (∃ ω, Vm.run (compile prog) m (Vm.init prog.slots) = .halted ω) ∨
      (∃ c p ω, Vm.run (compile prog) m (Vm.init prog.slots) = .error c p ω ∧
        (JmpL.Ref.run fuel prog.toAst).2 = .error c p) := by
  rcases ends prog fuel hw hfin with ⟨τ, υ, hs, hh, _⟩ | ⟨τ, υ, c, p, hs, hh, _, hr⟩
  · obtain ⟨n, hn⟩ := RbThm.JmpLSim.run_of_steps _ hs hh
    exact ⟨n, fun m hm => .inl ⟨υ, hn m hm⟩⟩
  · obtain ⟨n, hn⟩ := RbThm.JmpLSim.run_of_steps_error _ hs hh
    exact ⟨n, fun m hm => .inr ⟨c, p, υ, hn m hm, hr⟩⟩

/-! non-vacuity: an accepted program with GOSUB / RETURN / GOTO out of a FOR on which the reference finishes with END,
one that ends with error 3 at a RETURN inside a FOR body, one that ends with Overflow inside a routine -/

/-- `X% = k : GOSUB 0 : PRINT X% : GOTO 1 : 0: FOR I% = 1 TO 3 : X% = X% + 1 : IF I% = 2 THEN RETURN : NEXT : RETURN :
1: END` (slot 0 = X%, slot 1 = I%) -/
def demo (k : Int) : SProgram :=
  ⟨[.int, .int],
   .seq (.assign 0 .int (.lit (.int k) ⟨1, 6⟩) ⟨1, 1⟩)
   (.seq (.gosub 0 ⟨2, 1⟩)
   (.seq (.print [.expr (.var 0 .int ⟨3, 7⟩)] ⟨3, 1⟩)
   (.seq (.goto 1 ⟨4, 1⟩)
   (.seq (.label 0 "Sub1" ⟨5, 1⟩)
   (.seq (.forLoop 1 .int (.lit (.int 1) ⟨6, 10⟩) (.lit (.int 3) ⟨6, 15⟩) none
      (.seq (.assign 0 .int (.bin .plus (.var 0 .int ⟨7, 8⟩) (.lit (.int 1) ⟨7, 13⟩) .int ⟨7, 11⟩) ⟨7, 3⟩)
      (.seq (.ifBlock (.bin .equal (.var 1 .int ⟨8, 6⟩) (.lit (.int 2) ⟨8, 11⟩) .int ⟨8, 9⟩)
          (.seq (.ret ⟨8, 18⟩) .skip) .nil false .skip ⟨8, 3⟩) .skip)) ⟨6, 1⟩)
   (.seq (.ret ⟨10, 1⟩)
   (.seq (.label 1 "Fin" ⟨11, 1⟩)
   (.seq (.end_ ⟨12, 1⟩) .skip))))))))⟩

/-- a RETURN with no GOSUB pending, from inside a FOR body: `FOR I% = 1 TO 3 : RETURN : NEXT` -/
def demoRet : SProgram :=
  ⟨[.int],
   .seq (.forLoop 0 .int (.lit (.int 1) ⟨1, 10⟩) (.lit (.int 3) ⟨1, 15⟩) none (.seq (.ret ⟨2, 3⟩) .skip) ⟨1, 1⟩) .skip⟩

example : progWfB (demo 0) = true ∧ (JmpL.Ref.run 60 (demo 0).toAst).2 = .halted := by decide +kernel
example : progWfB demoRet = true ∧ (JmpL.Ref.run 30 demoRet.toAst).2 = .error 3 ⟨2, 3⟩ := by decide +kernel
/-- `k = 32767`: Overflow (6) at the `+` inside the routine, inside its FOR body, while a GOSUB is pending -/
example : progWfB (demo 32767) = true ∧ (JmpL.Ref.run 60 (demo 32767).toAst).2 = .error 6 ⟨7, 11⟩ := by decide +kernel

example (m : Nat) : Vm.run (compile (demo 0)) m (Vm.init (demo 0).slots) ≠ .stuck :=
  jmpl_no_internal_failure (demo 0) 60 (by decide +kernel) (by decide +kernel) m
example (m : Nat) : Vm.run (compile demoRet) m (Vm.init demoRet.slots) ≠ .stuck :=
  jmpl_no_internal_failure demoRet 30 (by decide +kernel) (by decide +kernel) m

end RbThm.C08Layers2.Jumps

namespace RbThm.C08Layers2.ProcArrs
set_option linter.unusedVariables false
open RbModel RbModel.Num RbModel.ProcArr RbModel.ProcArr.Compile RbModel.ProcArr.Vm
open RbModel.Ast (Pos)
open RbThm.ProcArrSim (Steps HaltsWith ErrsWith)

/-- the layer's reference semantics finished: normally, with END, or with a BASIC error -/
def finished : ProcArr.Ref.Outcome → Bool
  | .normal => true
  | .halted => true
  | .error _ _ => true
  | .exited => false
  | .inexact => false
  | .outOfFuel => false
  | .illFormed => false
  | .tooBig => false

abbrev Finished (o : ProcArr.Ref.Outcome) : Prop := finished o = true

theorem run_of_steps_halt (code : Code) {σ τ υ : Vm} (h : Steps code σ τ) (hh : Vm.step code τ = .halt υ) :
    ∀ m, Vm.run code m σ = .outOfFuel ∨ Vm.run code m σ = .halted υ := by
  induction h with
  | refl σ =>
    intro m
    cases m with
    | zero => exact .inl rfl
    | succ k => exact .inr (by simp [Vm.run, hh])
  | cons hs _ ih =>
    intro m
    cases m with
    | zero => exact .inl rfl
    | succ k =>
      rcases ih hh k with h1 | h1
      · exact .inl (by simp [Vm.run, hs, h1])
      · exact .inr (by simp [Vm.run, hs, h1])

theorem run_of_steps_err (code : Code) {σ τ υ : Vm} {c : Nat} {p : Pos} (h : Steps code σ τ)
    (hh : Vm.step code τ = .error c p υ) :
    ∀ m, Vm.run code m σ = .outOfFuel ∨ Vm.run code m σ = .error c p υ := by
  induction h with
  | refl σ =>
    intro m
    cases m with
    | zero => exact .inl rfl
    | succ k => exact .inr (by simp [Vm.run, hh])
  | cons hs _ ih =>
    intro m
    cases m with
    | zero => exact .inl rfl
    | succ k =>
      rcases ih hh k with h1 | h1
      · exact .inl (by simp [Vm.run, hs, h1])
      · exact .inr (by simp [Vm.run, hs, h1])

/-- the end of the VM run, as the simulation theorem gives it, for a finished reference run -/
theorem ends (prog : SProgram) (fuel : Nat) (hw : progWfB prog = true)
    (hfin : Finished (ProcArr.Ref.run fuel prog.toAst).2) :
    (∃ τ υ, Steps (compile prog) Vm.init τ ∧ Vm.step (compile prog) τ = .halt υ ∧
        υ.out = (ProcArr.Ref.run fuel prog.toAst).1.out ∧
        ((ProcArr.Ref.run fuel prog.toAst).2 = .normal ∨ (ProcArr.Ref.run fuel prog.toAst).2 = .halted)) ∨
    (∃ τ υ c p, Steps (compile prog) Vm.init τ ∧ Vm.step (compile prog) τ = .error c p υ ∧
        υ.out = (ProcArr.Ref.run fuel prog.toAst).1.out ∧ (ProcArr.Ref.run fuel prog.toAst).2 = .error c p) := by
  have h := RbThm.ProcArrSim.compile_correct_checked prog fuel hw
  rcases hr : ProcArr.Ref.run fuel prog.toAst with ⟨s', o⟩
  rw [hr] at h hfin
  cases o with
  | normal => obtain ⟨τ, υ, hs, hh, ho⟩ := h; exact .inl ⟨τ, υ, hs, hh, ho, .inl rfl⟩
  | halted => obtain ⟨τ, υ, hs, hh, ho⟩ := h; exact .inl ⟨τ, υ, hs, hh, ho, .inr rfl⟩
  | error c p => obtain ⟨τ, υ, hs, hh, ho⟩ := h; exact .inr ⟨τ, υ, c, p, hs, hh, ho, rfl⟩
  | exited => simp [Finished, finished] at hfin
  | inexact => simp [Finished, finished] at hfin
  | outOfFuel => simp [Finished, finished] at hfin
  | illFormed => simp [Finished, finished] at hfin
  | tooBig => simp [Finished, finished] at hfin

/-- **`procarr_no_internal_failure`** (combined procedures + arrays layer) — for every program the layer's premise
checker accepts on which the layer's reference semantics finishes, the VM model running the generated code never
answers `stuck` (the model's rendering of a Rust panic): whatever the step budget `m`, the run is still going, or has
halted, or has stopped with a BASIC error. -/
theorem procarr_no_internal_failure (prog : SProgram) (fuel : Nat) (hw : progWfB prog = true)
    (hfin : Finished (ProcArr.Ref.run fuel prog.toAst).2) :
    ∀ m, Vm.run (compile prog) m Vm.init ≠ .stuck := by
  intro m
  rcases ends prog fuel hw hfin with ⟨τ, υ, hs, hh, _⟩ | ⟨τ, υ, c, p, hs, hh, _⟩
  · rcases run_of_steps_halt _ hs hh m with h1 | h1 <;> simp [h1]
  · rcases run_of_steps_err _ hs hh m with h1 | h1 <;> simp [h1]

/-- **`procarr_basic_level_outcome`** — … and with a large enough budget the run ends at BASIC level: halted (the
reference ended normally or with END, anywhere, also inside a procedure) or in exactly the BASIC error, code and
position, the reference ends in. -/
theorem procarr_basic_level_outcome (prog : SProgram) (fuel : Nat) (hw : progWfB prog = true)
    (hfin : Finished (ProcArr.Ref.run fuel prog.toAst).2) :
    ∃ n, ∀ m, n ≤ m →
      (∃ ω, Vm.run (compile prog) m Vm.init = .halted ω) ∨
      (∃ c p ω, Vm.run (compile prog) m Vm.init = .error c p ω ∧
        (ProcArr.Ref.run fuel prog.toAst).2 = .error c p) := by
  rcases ends prog fuel hw hfin with ⟨τ, υ, hs, hh, _⟩ | ⟨τ, υ, c, p, hs, hh, _, hr⟩
  · obtain ⟨n, hn⟩ := RbThm.ProcArrSim.run_of_steps _ hs hh
    exact ⟨n, fun m hm => .inl (by obtain ⟨ω, h1, _⟩ := hn m hm; exact ⟨ω, h1⟩)⟩
  · obtain ⟨n, hn⟩ := RbThm.ProcArrSim.run_of_steps_error _ hs hh
    exact ⟨n, fun m hm => .inr ⟨c, p, υ, hn m hm, hr⟩⟩

/-- under `progWfB` the reference never answers `exited` (EXIT SUB outside a procedure) or `illFormed` (call of a missing
procedure, an array used although no DIM of it ran in a way the premise excludes): these two need not be excluded -/
theorem ref_never_exited_or_illFormed (prog : SProgram) (fuel : Nat) (hw : progWfB prog = true) :
    (match (ProcArr.Ref.run fuel prog.toAst).2 with | .exited => false | .illFormed => false | _ => true) = true := by
  have h := RbThm.ProcArrSim.compile_correct_checked prog fuel hw
  rcases hr : ProcArr.Ref.run fuel prog.toAst with ⟨s', o⟩
  rw [hr] at h
  cases o <;> first | rfl | exact absurd h id

/-! non-vacuity: an accepted program with an array, a FOR loop storing into it and an array element passed by reference
to a SUB, on which the reference finishes normally; the same ending in Subscript out of range; in Overflow inside the
SUB -/

/-- `DIM A%(1 TO 3) : FOR I% = 1 TO k : A%(I%) = I% * 2 : NEXT : Inc A%(2) : PRINT A%(2)` with
`SUB Inc (N%) : N% = N% + j : END SUB` -/
def demo (k j : Int) : SProgram :=
  { slots := [.int], gslots := [], arrs := [.int],
    body :=
      .seq (.dimArr 0 .int (.cons (some (.lit (.int 1) ⟨1, 9⟩)) (.lit (.int 3) ⟨1, 14⟩) .nil) ⟨1, 5⟩)
      (.seq (.forLoop ⟨false, 0⟩ .int (.lit (.int 1) ⟨2, 10⟩) (.lit (.int k) ⟨2, 15⟩) none
              (.seq (.assignElem 0 .int (.cons (.var ⟨false, 0⟩ .int ⟨3, 6⟩) .nil)
                  (.bin .multiply (.var ⟨false, 0⟩ .int ⟨3, 12⟩) (.lit (.int 2) ⟨3, 17⟩) .int ⟨3, 15⟩) ⟨3, 3⟩) .skip) ⟨2, 1⟩)
      (.seq (.callSub 0 (.cons (.elem 0 (.cons (.lit (.int 2) ⟨5, 8⟩) .nil) .int ⟨5, 5⟩) "N" .int .nil) ⟨5, 1⟩)
      (.seq (.print [.expr (.elem 0 (.cons (.lit (.int 2) ⟨6, 10⟩) .nil) .int ⟨6, 7⟩)] ⟨6, 1⟩) .skip))),
    procs :=
      [ { result := none, name := "Inc", params := [("N", .int)], slots := [.int],
          body := .seq (.assign ⟨false, 0⟩ .int
            (.bin .plus (.var ⟨false, 0⟩ .int ⟨8, 8⟩) (.lit (.int j) ⟨8, 13⟩) .int ⟨8, 11⟩) ⟨8, 3⟩) .skip,
          pos := ⟨7, 1⟩ } ] }

example : progWfB (demo 3 1) = true ∧ Finished (ProcArr.Ref.run 100 (demo 3 1).toAst).2 := by decide +kernel

/-- `k = 4`: Subscript out of range (9) at `A%(4) = …` -/
example : progWfB (demo 4 1) = true ∧
    (match (ProcArr.Ref.run 100 (demo 4 1).toAst).2 with | .error 9 ⟨3, 3⟩ => true | _ => false) = true := by
  decide +kernel

/-- `j = 32767`: Overflow (6) inside the SUB, on an array element passed by reference -/
example : progWfB (demo 3 32767) = true ∧
    (match (ProcArr.Ref.run 100 (demo 3 32767).toAst).2 with | .error 6 ⟨8, 11⟩ => true | _ => false) = true := by
  decide +kernel

example (m : Nat) : Vm.run (compile (demo 3 1)) m Vm.init ≠ .stuck :=
  procarr_no_internal_failure (demo 3 1) 100 (by decide +kernel) (by decide +kernel) m

end RbThm.C08Layers2.ProcArrs
