import RbModel.Outcome
import RbModel.Wf
import Gen.ErrorCodes
import Gen.BuiltinTables
import Thm.C15
/-!
C08 — a program the checker accepts always compiles and runs to a BASIC-level outcome.

What is proved here, and over what:

1. `get_code_total`, `get_code_injective` — over the *extracted graph* of `RuntimeError::get_code`
   (`Gen/ErrorCodes.lean`: every variant constructed, the real function called under `catch_unwind`):
   every run-time error has a numeric code, and different variants have different codes.
2. `builtin_contract`, `builtin_basic_level`, `builtin_codes_known` — over the *extracted table* of every
   built-in function and sub (`Gen/BuiltinTables.lean`: for every argument tuple over the five types x
   {variable, literal}, arity <= 3, the verdict of the real parser + linter and the outcome classes of the
   real runs on the representative values): whenever the linter accepts a call form, no run of it ended
   in an internal failure (panic), every run ended normally or in a BASIC error, and every error code
   seen is the code of a `RuntimeError` variant.  The theorems are exhaustive over the argument tuples
   and *sampled* over the values (the table says how many runs each row stands for).
3. `wf_no_vm_failure` — for *every* instruction list: if the verified checker of C15 (`wfCheck`) accepts it,
   then no state of the abstract stack machine, along any path of any activation, meets one of the VM's
   internal-failure conditions "pop from an empty value / register / context / variable-path / by-ref
   stack", "jump to an unresolved label", "target outside the list", "no instruction at the pc".
   The harness runs `wfCheck` on the real instruction list of the programs it explores.

The composition "accepted by the linter => the generated list passes `wfCheck`" and everything about the
values flowing through the VM (unchecked casts, variable lookups) is NOT proved: the differential run of
`harness/src/bin/c08.rs` decides it on the explored programs (see `checks.d/C08.json`, `unproved`).
-/
namespace RbThm.C08
open RbModel RbModel.Outcome RbModel.Wf
open Gen.BuiltinTables Gen.ErrorCodes

/-! ### 1. every run-time error has a code -/

theorem rtErr_all_complete (e : RtErr) : e ∈ RtErr.all := by
  cases e <;> decide

/-- **`get_code` is total**: every variant of `RuntimeError` has a numeric code (no row of the extracted
graph is a panic, no variant is missing from it). -/
theorem get_code_total (e : RtErr) : ∃ c, codeOf codeRows e = some c := by
  cases e <;> exact ⟨_, rfl⟩

/-- different errors have different codes -/
theorem get_code_injective (e₁ e₂ : RtErr) (h : codeOf codeRows e₁ = codeOf codeRows e₂) : e₁ = e₂ := by
  revert h
  cases e₁ <;> cases e₂ <;> decide

/-- no code is 0 (`ERR` = 0 means "no error") -/
theorem get_code_positive (e : RtErr) : codeOf codeRows e ≠ some 0 := by
  cases e <;> decide

example : codeOf codeRows .outOfData = some 4 ∧ codeOf codeRows .badFileMode = some 54 := by decide

/-! ### 2. the lint-time / run-time contract of the built-ins -/

/-- a code is the code of some `RuntimeError` variant -/
def codeKnown (c : Nat) : Bool := RtErr.all.any fun e => codeOf codeRows e == some c

/-- the row-wise condition: no internal failure, no run cut by the budget, counts add up, every code known -/
def rowGood (r : Row) : Bool :=
  r.clean && r.terminates && r.consistent && r.codes.all codeKnown

theorem chr_good : chrTable.rows.all rowGood = true := by decide +kernel
theorem cvd_good : cvdTable.rows.all rowGood = true := by decide +kernel
theorem environFn_good : environFnTable.rows.all rowGood = true := by decide +kernel
theorem eof_good : eofTable.rows.all rowGood = true := by decide +kernel
theorem err_good : errTable.rows.all rowGood = true := by decide +kernel
theorem instr_good : instrTable.rows.all rowGood = true := by decide +kernel
theorem lbound_good : lboundTable.rows.all rowGood = true := by decide +kernel
theorem lcase_good : lcaseTable.rows.all rowGood = true := by decide +kernel
theorem left_good : leftTable.rows.all rowGood = true := by decide +kernel
theorem len_good : lenTable.rows.all rowGood = true := by decide +kernel
theorem ltrim_good : ltrimTable.rows.all rowGood = true := by decide +kernel
theorem mid_good : midTable.rows.all rowGood = true := by decide +kernel
theorem mkd_good : mkdTable.rows.all rowGood = true := by decide +kernel
theorem peek_good : peekTable.rows.all rowGood = true := by decide +kernel
theorem right_good : rightTable.rows.all rowGood = true := by decide +kernel
theorem rtrim_good : rtrimTable.rows.all rowGood = true := by decide +kernel
theorem space_good : spaceTable.rows.all rowGood = true := by decide +kernel
theorem str_good : strTable.rows.all rowGood = true := by decide +kernel
theorem string_good : stringTable.rows.all rowGood = true := by decide +kernel
theorem ubound_good : uboundTable.rows.all rowGood = true := by decide +kernel
theorem ucase_good : ucaseTable.rows.all rowGood = true := by decide +kernel
theorem val_good : valTable.rows.all rowGood = true := by decide +kernel
theorem varptr_good : varptrTable.rows.all rowGood = true := by decide +kernel
theorem varseg_good : varsegTable.rows.all rowGood = true := by decide +kernel
theorem beep_good : beepTable.rows.all rowGood = true := by decide +kernel
theorem callAbsolute_good : callAbsoluteTable.rows.all rowGood = true := by decide +kernel
theorem close_good : closeTable.rows.all rowGood = true := by decide +kernel
theorem cls_good : clsTable.rows.all rowGood = true := by decide +kernel
theorem color_good : colorTable.rows.all rowGood = true := by decide +kernel
theorem defSeg_good : defSegTable.rows.all rowGood = true := by decide +kernel
theorem environSub_good : environSubTable.rows.all rowGood = true := by decide +kernel
theorem field_good : fieldTable.rows.all rowGood = true := by decide +kernel
theorem get_good : getTable.rows.all rowGood = true := by decide +kernel
theorem input_good : inputTable.rows.all rowGood = true := by decide +kernel
theorem inputFile_good : inputFileTable.rows.all rowGood = true := by decide +kernel
theorem kill_good : killTable.rows.all rowGood = true := by decide +kernel
theorem lineInput_good : lineInputTable.rows.all rowGood = true := by decide +kernel
theorem lineInputFile_good : lineInputFileTable.rows.all rowGood = true := by decide +kernel
theorem locate_good : locateTable.rows.all rowGood = true := by decide +kernel
theorem lset_good : lsetTable.rows.all rowGood = true := by decide +kernel
theorem name_good : nameTable.rows.all rowGood = true := by decide +kernel
theorem open_good : openTable.rows.all rowGood = true := by decide +kernel
theorem poke_good : pokeTable.rows.all rowGood = true := by decide +kernel
theorem put_good : putTable.rows.all rowGood = true := by decide +kernel
theorem read_good : readTable.rows.all rowGood = true := by decide +kernel
theorem screen_good : screenTable.rows.all rowGood = true := by decide +kernel
theorem viewPrint_good : viewPrintTable.rows.all rowGood = true := by decide +kernel
theorem width_good : widthTable.rows.all rowGood = true := by decide +kernel

theorem tables_good : (tables.all fun t => t.rows.all rowGood) = true := by
  simp only [tables, List.all_cons, List.all_nil, Bool.and_true, Bool.and_eq_true]
  exact ⟨chr_good, cvd_good, environFn_good, eof_good, err_good, instr_good, lbound_good, lcase_good, left_good, len_good, ltrim_good, mid_good, mkd_good, peek_good, right_good, rtrim_good, space_good, str_good, string_good, ubound_good, ucase_good, val_good, varptr_good, varseg_good, beep_good, callAbsolute_good, close_good, cls_good, color_good, defSeg_good, environSub_good, field_good, get_good, input_good, inputFile_good, kill_good, lineInput_good, lineInputFile_good, locate_good, lset_good, name_good, open_good, poke_good, put_good, read_good, screen_good, viewPrint_good, width_good⟩

theorem row_of_find {bi : BI} {ctx : Ctx} {args : List (Ty × Sh)} {r : Row}
    (h : findRow tables bi ctx args = some r) : rowGood r = true ∧ r.ctx = ctx ∧ r.args = args := by
  unfold findRow at h
  split at h
  · next t ht =>
    have htm := List.mem_of_find?_eq_some ht
    have hrm := List.mem_of_find?_eq_some h
    have hp := List.find?_some h
    have hg := (List.all_eq_true.1 ((List.all_eq_true.1 tables_good) t htm)) r hrm
    simp only [Row.matches, Bool.and_eq_true, decide_eq_true_eq] at hp
    exact ⟨hg, hp.1, hp.2⟩
  · cases h

theorem mem_classes_internal {r : Row} (h : Class.internalFailure ∈ r.classes) : r.panics > 0 := by
  unfold Row.classes at h
  simp only [List.mem_append, List.mem_map] at h
  rcases h with ((h | h) | h) | h
  · split at h <;> simp at h
  · obtain ⟨_, _, h⟩ := h; cases h
  · split at h <;> simp at h
  · split at h
    · assumption
    · simp at h

theorem mem_classes_timeout {r : Row} (h : Class.timeout ∈ r.classes) : r.timeouts > 0 := by
  unfold Row.classes at h
  simp only [List.mem_append, List.mem_map] at h
  rcases h with ((h | h) | h) | h
  · split at h <;> simp at h
  · obtain ⟨_, _, h⟩ := h; cases h
  · split at h
    · assumption
    · simp at h
  · split at h <;> simp at h

theorem mem_classes_code {r : Row} {c : Nat} (h : Class.basicError c ∈ r.classes) : c ∈ r.codes := by
  unfold Row.classes at h
  simp only [List.mem_append, List.mem_map] at h
  rcases h with ((h | h) | h) | h
  · split at h <;> simp at h
  · obtain ⟨c', hc', h⟩ := h
    injection h with h
    exact h ▸ hc'
  · split at h <;> simp at h
  · split at h <;> simp at h

/-- **Contract of the built-ins** (over the extracted table): for every built-in, file context and argument
tuple, if the real linter accepts the call then none of its runs on the representative values ended in
an internal failure. -/
theorem builtin_contract (bi : BI) (ctx : Ctx) (args : List (Ty × Sh))
    (h : lintAccepts tables bi ctx args = true) :
    Class.internalFailure ∉ runtimeClasses tables bi ctx args := by
  unfold lintAccepts at h
  unfold runtimeClasses
  cases hf : findRow tables bi ctx args with
  | none => simp [hf] at h
  | some r =>
    intro hm
    have hg := (row_of_find hf).1
    have hp := mem_classes_internal hm
    simp only [rowGood, Row.clean, Bool.and_eq_true, beq_iff_eq] at hg
    omega

/-- ... and every one of those runs ended at BASIC level: normally, or with a BASIC error. -/
theorem builtin_basic_level (bi : BI) (ctx : Ctx) (args : List (Ty × Sh)) :
    ∀ c ∈ runtimeClasses tables bi ctx args, c.isBasicLevel = true := by
  intro c hc
  unfold runtimeClasses at hc
  cases hf : findRow tables bi ctx args with
  | none => simp [hf] at hc
  | some r =>
    simp only [hf] at hc
    have hg := (row_of_find hf).1
    simp only [rowGood, Row.clean, Row.terminates, Bool.and_eq_true, beq_iff_eq] at hg
    cases c with
    | ok => rfl
    | basicError _ => rfl
    | timeout => have := mem_classes_timeout hc; omega
    | internalFailure => have := mem_classes_internal hc; omega

/-- ... and every BASIC error they ended in carries the code of a `RuntimeError` variant. -/
theorem builtin_codes_known (bi : BI) (ctx : Ctx) (args : List (Ty × Sh)) (c : Nat)
    (hc : Class.basicError c ∈ runtimeClasses tables bi ctx args) :
    ∃ e, codeOf codeRows e = some c := by
  unfold runtimeClasses at hc
  cases hf : findRow tables bi ctx args with
  | none => simp [hf] at hc
  | some r =>
    simp only [hf] at hc
    have hg := (row_of_find hf).1
    simp only [rowGood, Bool.and_eq_true] at hg
    have hk := (List.all_eq_true.1 hg.2) c (mem_classes_code hc)
    simp only [codeKnown, List.any_eq_true, beq_iff_eq] at hk
    obtain ⟨e, _, he⟩ := hk
    exact ⟨e, he⟩

/-- every accepted row stands for at least one real run -/
theorem builtin_rows_inhabited (bi : BI) (ctx : Ctx) (args : List (Ty × Sh)) (r : Row)
    (h : findRow tables bi ctx args = some r) : r.runs > 0 ∧ r.runs = r.oks + r.errs := by
  have hg := (row_of_find h).1
  simp only [rowGood, Row.clean, Row.terminates, Row.consistent, Bool.and_eq_true, beq_iff_eq,
    decide_eq_true_eq] at hg
  omega

/-- non-vacuity: `MID$(s$, n%, m&)` with variables is accepted, `CHR$("a")` is not, and an accepted call
can end in a BASIC error (`CHR$` of a LONG variable: Illegal function call 5 / Overflow 6). -/
example : lintAccepts tables .mid .noFile [(.str, .var), (.int, .var), (.long, .var)] = true := by decide +kernel
example : lintAccepts tables .chr .noFile [(.str, .lit)] = false := by decide +kernel
example : Class.basicError 6 ∈ runtimeClasses tables .chr .noFile [(.long, .var)] := by decide +kernel

/-! ### 3. code accepted by the verified checker of C15 cannot hit the VM's stack / label failures -/

/-- the internal failures of the fetch-execute loop that the static shape of the code is meant to exclude
(`interpreter/main.rs`: `value_stack.pop().expect("value_stack underflow!")`, `register_stack.last().unwrap()`;
`context.rs`: "States underflow", "Expected argument state"; `handlers/var_path.rs`: "Should have name_ptr";
`handlers/subprogram.rs`: "by_ref_stack underflow", "Should have a VarPath";
`instruction_generator/label_resolver.rs`: `label_to_address.get(x).unwrap()`) -/
inductive VmFailure where
  | noInstruction | valueStackUnderflow | registerStackUnderflow | contextStackUnderflow
  | varPathStackUnderflow | byRefStackUnderflow | unresolvedLabel | targetOutOfRange
  deriving DecidableEq, Repr

/-- which stack is too shallow for the pops `need`, if any -/
def stackFailure (need have_ : H) : Option VmFailure :=
  if have_.value < need.value then some .valueStackUnderflow
  else if have_.reg < need.reg then some .registerStackUnderflow
  else if have_.ctx < need.ctx then some .contextStackUnderflow
  else if have_.path < need.path then some .varPathStackUnderflow
  else if have_.byref < need.byref then some .byRefStackUnderflow
  else none

def targetFailure (code : Code) : Target → Option VmFailure
  | .unresolved _ => some .unresolvedLabel
  | .addr a => if a < code.size then none else some .targetOutOfRange

/-- the failure (if any) that executing the instruction at `pc` with stack depths `h` runs into -/
def stepFailure (code : Code) (pc : Nat) (h : H) : Option VmFailure :=
  match instrAt code pc with
  | none => some .noInstruction
  | some i =>
    match stackFailure (eff i).1 h with
    | some f => some f
    | none => (targetsOf i).findSome? (targetFailure code)

theorem stackFailure_none_of_apply {h h' : H} {e : H × H} (ha : apply h e = some h') :
    stackFailure e.1 h = none := by
  unfold apply at ha
  split at ha
  · next hle =>
    have := (RbThm.C15.H.le_iff _ _).1 hle
    unfold stackFailure
    have h1 : ¬ h.value < e.1.value := by omega
    have h2 : ¬ h.reg < e.1.reg := by omega
    have h3 : ¬ h.ctx < e.1.ctx := by omega
    have h4 : ¬ h.path < e.1.path := by omega
    have h5 : ¬ h.byref < e.1.byref := by omega
    simp [h1, h2, h3, h4, h5]
  · cases ha

theorem checkCert_size {code : Code} {cert : Cert} (h : checkCert code cert = true) : cert.size = code.size := by
  simp only [checkCert, Bool.and_eq_true, beq_iff_eq] at h
  exact h.1.1

/-- **C08, generated-code part**: an instruction list accepted by `wfCheck` cannot, in any state reachable in
the abstract machine of C15 (any activation, any entry depths, paths of any length), pop from an empty
stack, jump to an unresolved or out-of-range target, or run off the list. -/
theorem wf_no_vm_failure {code : Code} {addrs : List Nat} {cert : Cert}
    (hwf : wfCheck code addrs cert = true)
    {r : Nat} (hr : r ∈ roots code) (h0 : H) {pc : Nat} {h : H}
    (hreach : RbThm.C15.Reach code r h0 pc h) :
    stepFailure code pc h = none := by
  have hwf' := hwf
  simp only [wfCheck, Bool.and_eq_true] at hwf'
  obtain ⟨⟨⟨⟨⟨h1, _⟩, _⟩, _⟩, _⟩, h6⟩ := hwf'
  obtain ⟨rel, hcert, _⟩ := RbThm.C15.cert_sound h6 hr h0 hreach
  have hpc : pc < code.size := by
    have hs := checkCert_size h6
    have : pc < cert.size := by
      rcases Nat.lt_or_ge pc cert.size with hlt | hge
      · exact hlt
      · have := Array.getElem?_eq_none hge
        rw [this] at hcert
        cases hcert
    omega
  unfold stepFailure
  cases hi : instrAt code pc with
  | none =>
    unfold instrAt at hi
    have : code[pc]? = some code[pc] := Array.getElem?_eq_getElem hpc
    rw [this] at hi
    cases hi
  | some i =>
    obtain ⟨h', happ⟩ := RbThm.C15.no_underflow h6 hr h0 hreach hi
    simp only [stackFailure_none_of_apply happ]
    have htr := (RbThm.C15.targets_resolved h1 hi).1
    rw [List.findSome?_eq_none_iff]
    intro t ht
    obtain ⟨a, rfl, ha, _⟩ := htr t ht
    simp [targetFailure, ha]

/-- the two named corollaries of the task statement -/
theorem wf_no_stack_underflow {code : Code} {addrs : List Nat} {cert : Cert}
    (hwf : wfCheck code addrs cert = true) {r : Nat} (hr : r ∈ roots code) (h0 : H) {pc : Nat} {h : H}
    (hreach : RbThm.C15.Reach code r h0 pc h) {i : Instr} (hi : instrAt code pc = some i) :
    stackFailure (eff i).1 h = none := by
  simp only [wfCheck, Bool.and_eq_true] at hwf
  obtain ⟨h', happ⟩ := RbThm.C15.no_underflow hwf.2 hr h0 hreach hi
  exact stackFailure_none_of_apply happ

theorem wf_no_unresolved_label {code : Code} {addrs : List Nat} {cert : Cert}
    (hwf : wfCheck code addrs cert = true) {pc : Nat} {i : Instr} (hi : instrAt code pc = some i) :
    ∀ t ∈ targetsOf i, targetFailure code t = none := by
  simp only [wfCheck, Bool.and_eq_true] at hwf
  intro t ht
  obtain ⟨a, rfl, ha, _⟩ := (RbThm.C15.targets_resolved hwf.1.1.1.1.1 hi).1 t ht
  simp [targetFailure, ha]

/-! non-vacuity: the failure conditions are not trivially `none` -/

example : stepFailure #[⟨.popValueStackIntoA, 1, 1⟩] 0 H.zero = some .valueStackUnderflow := by decide +kernel
example : stepFailure #[⟨.jump (.unresolved "x"), 1, 1⟩] 0 H.zero = some .unresolvedLabel := by decide +kernel
example : stepFailure #[⟨.jump (.addr 7), 1, 1⟩] 0 H.zero = some .targetOutOfRange := by decide +kernel
example : stepFailure #[⟨.halt, 1, 1⟩] 1 H.zero = some .noInstruction := by decide +kernel
example : stepFailure #[⟨.pushAToValueStack, 1, 1⟩, ⟨.popValueStackIntoA, 1, 1⟩, ⟨.halt, 1, 1⟩] 1 ⟨1, 0, 0, 0, 0⟩ = none := by
  decide +kernel

end RbThm.C08
