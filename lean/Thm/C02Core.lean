import RbModel.Rewrite
import Thm.C01
import Thm.C06
/-!
C02 (core) — the equivalence of statements used by property C02, and the proof that it is a
congruence: equivalent statements stay equivalent under every enclosing construct (`exec_congr`).
The rewrite theorems are in `Thm/C02.lean`.
-/
namespace RbThm.C02
open RbModel RbModel.Num RbModel.Ast RbModel.Ref RbModel.Rewrite RbThm.C01
open RbModel.Ast (Expr)

/-! ### the equivalence -/

/-- Outcomes equal **up to the position of an error**: the same kind of ending and, for an error, the
same error code.  (Two spellings of a construct put their tests at different source positions, so the
position an error is reported at may legitimately differ; everything else must agree.) -/
def OEq : Outcome → Outcome → Prop
  | .normal, .normal => True
  | .halted, .halted => True
  | .inexact, .inexact => True
  | .outOfFuel, .outOfFuel => True
  | .error c _, .error c' _ => c = c'
  | _, _ => False

theorem OEq.refl (o : Outcome) : OEq o o := by cases o <;> simp [OEq]

theorem OEq.symm {a b : Outcome} (h : OEq a b) : OEq b a := by
  cases a <;> cases b <;> simp_all [OEq]

theorem OEq.trans {a b c : Outcome} (h : OEq a b) (h' : OEq b c) : OEq a c := by
  cases a <;> cases b <;> cases c <;> simp_all [OEq]

theorem OEq.isFuel {a b : Outcome} (h : OEq a b) : Outcome.isFuel b = Outcome.isFuel a := by
  cases a <;> cases b <;> simp_all [OEq, Outcome.isFuel]

theorem OEq.normal_left {b : Outcome} (h : OEq .normal b) : b = .normal := by
  cases b <;> simp_all [OEq]

theorem OEq.ne_normal {a b : Outcome} (h : OEq a b) (ha : a ≠ .normal) : b ≠ .normal := by
  cases a <;> cases b <;> simp_all [OEq]

/-- Two states agree except for the variables `zs` (the temporaries a rewrite introduces): same
output, same DATA cursor, same value in every other variable; the temporaries exist in both. -/
structure StEq (zs : List Nat) (s1 s2 : St) : Prop where
  len : s1.env.length = s2.env.length
  inb : ∀ z, z ∈ zs → z < s1.env.length
  env : ∀ x, x ∉ zs → s1.env[x]? = s2.env[x]?
  out : s1.out = s2.out
  data : s1.data = s2.data
  idx : s1.dataIdx = s2.dataIdx

theorem StEq.refl {zs : List Nat} {s : St} (h : ∀ z, z ∈ zs → z < s.env.length) : StEq zs s s :=
  ⟨rfl, h, fun _ _ => rfl, rfl, rfl, rfl⟩

theorem StEq.symm {zs : List Nat} {s1 s2 : St} (h : StEq zs s1 s2) : StEq zs s2 s1 :=
  ⟨h.len.symm, fun z hz => h.len ▸ h.inb z hz, fun x hx => (h.env x hx).symm, h.out.symm, h.data.symm, h.idx.symm⟩

theorem StEq.trans {zs : List Nat} {s1 s2 s3 : St} (h : StEq zs s1 s2) (h' : StEq zs s2 s3) : StEq zs s1 s3 :=
  ⟨h.len.trans h'.len, h.inb, fun x hx => (h.env x hx).trans (h'.env x hx), h.out.trans h'.out,
    h.data.trans h'.data, h.idx.trans h'.idx⟩

/-- with no temporaries the relation is equality -/
theorem StEq.nil_eq {s1 s2 : St} (h : StEq [] s1 s2) : s1 = s2 := by
  obtain ⟨e1, o1, d1, i1⟩ := s1
  obtain ⟨e2, o2, d2, i2⟩ := s2
  have he : e1 = e2 := List.ext_getElem? (fun x => h.env x (by simp))
  have ho := h.out; have hd := h.data; have hi := h.idx
  simp only at ho hd hi
  subst he; subst ho; subst hd; subst hi; rfl

/-- **`b` simulates `a`** (modulo the temporaries `zs`): whenever `a` ends (with some amount of fuel,
not by running out of it) from a state, `b` ends (with some amount of fuel) from every related state,
in a related state — same output, same variables except `zs` — with the same outcome up to the
position of an error. -/
def Sim (zs : List Nat) (a b : Stmt) : Prop :=
  ∀ fuel s1 s2 s1' o, StEq zs s1 s2 → exec fuel a s1 = (s1', o) → Outcome.isFuel o = false →
    ∃ fuel' s2' o', exec fuel' b s2 = (s2', o') ∧ StEq zs s1' s2' ∧ OEq o o'

/-- the same for CASE lists (with the subject and the SELECT's position given) -/
def SimC (zs : List Nat) (a b : Cases) : Prop :=
  ∀ fuel p subj s1 s2 s1' o, StEq zs s1 s2 → execCases fuel p subj a s1 = (s1', o) → Outcome.isFuel o = false →
    ∃ fuel' s2' o', execCases fuel' p subj b s2 = (s2', o') ∧ StEq zs s1' s2' ∧ OEq o o'

/-- **Equivalent statements**: each simulates the other. -/
def Equiv (zs : List Nat) (a b : Stmt) : Prop := Sim zs a b ∧ Sim zs b a

/-! ### fuel -/

theorem exec_le {f f' : Nat} (hle : f ≤ f') {st : Stmt} {s s' : St} {o : Outcome}
    (h : exec f st s = (s', o)) (ho : Outcome.isFuel o = false) : exec f' st s = (s', o) := by
  obtain ⟨k, rfl⟩ := Nat.exists_eq_add_of_le hle
  exact exec_fuel_mono f k st s s' o h ho

theorem execCases_le {f f' : Nat} (hle : f ≤ f') {p : Pos} {subj : Val} {cs : Cases} {s s' : St} {o : Outcome}
    (h : execCases f p subj cs s = (s', o)) (ho : Outcome.isFuel o = false) :
    execCases f' p subj cs s = (s', o) := by
  obtain ⟨k, rfl⟩ := Nat.exists_eq_add_of_le hle
  induction k with
  | zero => exact h
  | succ k ih => exact (stable_all (f + k)).2.1 _ _ _ _ _ _ (ih (Nat.le_add_right _ _)) ho

theorem forIter_le {f f' : Nat} (hle : f ≤ f') {x : Nat} {t : Ty} {hv sv : Val} {up : Bool} {body : Stmt}
    {p : Pos} {s s' : St} {o : Outcome}
    (h : forIter f x t hv sv up body p s = (s', o)) (ho : Outcome.isFuel o = false) :
    forIter f' x t hv sv up body p s = (s', o) := by
  obtain ⟨k, rfl⟩ := Nat.exists_eq_add_of_le hle
  induction k with
  | zero => exact h
  | succ k ih => exact (stable_all (f + k)).2.2 _ _ _ _ _ _ _ _ _ _ (ih (Nat.le_add_right _ _)) ho

theorem exec_zero_isFuel {st : Stmt} {s s' : St} {o : Outcome} (h : exec 0 st s = (s', o)) :
    Outcome.isFuel o = true := by
  simp [exec] at h; obtain ⟨_, rfl⟩ := h; rfl

/-! ### sequencing -/

/-- run `k` from the state `r` ended in if `r` ended normally, else keep `r` -/
def andThen (r : St × Outcome) (k : St → St × Outcome) : St × Outcome :=
  match r with
  | (s', .normal) => k s'
  | r => r

theorem andThen_normal (s' : St) (k : St → St × Outcome) : andThen (s', .normal) k = k s' := rfl

theorem andThen_abort {s' : St} {o : Outcome} (k : St → St × Outcome) (h : o ≠ .normal) :
    andThen (s', o) k = (s', o) := by
  cases o <;> simp_all [andThen]

theorem andThen_inv {r : St × Outcome} {k : St → St × Outcome} {s' : St} {o : Outcome}
    (h : andThen r k = (s', o)) :
    (∃ sa, r = (sa, .normal) ∧ k sa = (s', o)) ∨ (r.2 ≠ .normal ∧ r = (s', o)) := by
  obtain ⟨sa, oa⟩ := r
  by_cases hn : oa = .normal
  · subst hn; exact .inl ⟨sa, rfl, h⟩
  · rw [andThen_abort k hn] at h; exact .inr ⟨hn, h⟩

theorem exec_seq (f : Nat) (a b : Stmt) (s : St) :
    exec (f + 1) (.seq a b) s = andThen (exec f a s) (exec f b) := by
  simp only [exec, andThen]
  try rfl

theorem exec_while (f : Nat) (c : Ast.Expr) (body : Stmt) (p : Pos) (s : St) :
    exec (f + 1) (.while c body p) s =
      match evalCond s.env c with
      | .error o => (s, o)
      | .ok false => (s, .normal)
      | .ok true => andThen (exec f body s) (exec f (.while c body p)) := by
  simp only [exec, andThen]
  try rfl

theorem exec_doTop (f : Nat) (c : Ast.Expr) (u : Bool) (body : Stmt) (p : Pos) (s : St) :
    exec (f + 1) (.doLoop c true u body p) s =
      match evalCond s.env c with
      | .error o => (s, o)
      | .ok b => if b != u then andThen (exec f body s) (exec f (.doLoop c true u body p)) else (s, .normal) := by
  simp only [exec, andThen, if_true]
  try rfl

theorem exec_doBottom (f : Nat) (c : Ast.Expr) (u : Bool) (body : Stmt) (p : Pos) (s : St) :
    exec (f + 1) (.doLoop c false u body p) s =
      andThen (exec f body s) fun s' =>
        match evalCond s'.env c with
        | .error o => (s', o)
        | .ok b => if b != u then exec f (.doLoop c false u body p) s' else (s', .normal) := by
  simp only [exec, andThen, Bool.false_eq_true, if_false]
  try rfl

theorem forIter_succ (f x : Nat) (t : Ty) (h sv : Val) (up : Bool) (body : Stmt) (p : Pos) (s : St) :
    forIter (f + 1) x t h sv up body p s =
      match relTest p (if up then .lessOrEqual else .greaterOrEqual) (s.env.getD x (zeroOf t)) h with
      | .error o => (s, o)
      | .ok false => (s, .normal)
      | .ok true =>
        andThen (exec f body s) fun s' =>
          match (plus (s'.env.getD x (zeroOf t)) sv).bind (fun v => Num.cast v t) with
          | .ok v => forIter f x t h sv up body p (s'.set x v)
          | .err e => (s', .error (codeOf e) p)
          | .inexact => (s', .inexact) := by
  simp only [forIter, andThen]
  try rfl

/-! ### expressions do not see variables they do not mention -/

theorem not_mem_of_contains {zs : List Nat} {x : Nat} (h : zs.contains x = false) : x ∉ zs := by
  intro hm
  have : zs.contains x = true := List.contains_iff_mem.mpr hm
  rw [h] at this; cases this

theorem eval_agree {zs : List Nat} {env1 env2 : List Val} (h : ∀ x, x ∉ zs → env1[x]? = env2[x]?) :
    ∀ e : Ast.Expr, usesE zs e = false → eval env1 e = eval env2 e
  | .lit _ _, _ => rfl
  | .var x t _, hu => by
      have hx : x ∉ zs := not_mem_of_contains (by simpa [usesE] using hu)
      simp only [eval, List.getD_eq_getElem?_getD, h x hx]
  | .un .neg e p, hu => by
      simp only [eval]; rw [eval_agree h e (by simpa [usesE] using hu)]
  | .un .not e p, hu => by
      simp only [eval]; rw [eval_agree h e (by simpa [usesE] using hu)]
  | .bin op l r t p, hu => by
      have hu' : usesE zs l = false ∧ usesE zs r = false := by simpa [usesE] using hu
      simp only [eval]; rw [eval_agree h l hu'.1, eval_agree h r hu'.2]
  | .paren e _, hu => by
      simp only [eval]; exact eval_agree h e (by simpa [usesE] using hu)

theorem evalTo_agree {zs : List Nat} {s1 s2 : St} (h : StEq zs s1 s2) {e : Ast.Expr} (hu : usesE zs e = false)
    (t : Ty) : evalTo s1.env e t = evalTo s2.env e t := by
  simp only [evalTo, eval_agree h.env e hu]

theorem evalCond_agree {zs : List Nat} {s1 s2 : St} (h : StEq zs s1 s2) {e : Ast.Expr} (hu : usesE zs e = false) :
    evalCond s1.env e = evalCond s2.env e := by
  simp only [evalCond, eval_agree h.env e hu]

theorem evalE_agree {zs : List Nat} {s1 s2 : St} (h : StEq zs s1 s2) {e : Ast.Expr} (hu : usesE zs e = false) :
    evalE s1.env e = evalE s2.env e := by
  simp only [evalE, eval_agree h.env e hu]

theorem caseMatches_agree {zs : List Nat} {s1 s2 : St} (h : StEq zs s1 s2) (p : Pos) (subj : Val)
    {c : CaseExpr} (hu : usesCase zs c = false) :
    caseMatches s1.env p subj c = caseMatches s2.env p subj c := by
  cases c with
  | simple e => simp only [caseMatches, evalE_agree h (show usesE zs e = false by simpa [usesCase] using hu)]
  | is op e => simp only [caseMatches, evalE_agree h (show usesE zs e = false by simpa [usesCase] using hu)]
  | range lo hi =>
    have hu' : usesE zs lo = false ∧ usesE zs hi = false := by simpa [usesCase] using hu
    simp only [caseMatches, evalE_agree h hu'.1, evalE_agree h hu'.2]

theorem anyMatches_agree {zs : List Nat} {s1 s2 : St} (h : StEq zs s1 s2) (p : Pos) (subj : Val) :
    ∀ conds : List CaseExpr, conds.any (usesCase zs) = false →
      anyMatches s1.env p subj conds = anyMatches s2.env p subj conds
  | [], _ => rfl
  | c :: rest, hu => by
      have hu' : usesCase zs c = false ∧ rest.any (usesCase zs) = false := by simpa using hu
      simp only [anyMatches, caseMatches_agree h p subj hu'.1, anyMatches_agree h p subj rest hu'.2]

theorem getD_agree {zs : List Nat} {s1 s2 : St} (h : StEq zs s1 s2) {x : Nat} (hx : x ∉ zs) (d : Val) :
    s1.env.getD x d = s2.env.getD x d := by
  simp only [List.getD_eq_getElem?_getD, h.env x hx]

/-! ### stores -/

theorem StEq.set {zs : List Nat} {s1 s2 : St} (h : StEq zs s1 s2) (x : Nat) (v : Val) :
    StEq zs (s1.set x v) (s2.set x v) := by
  refine ⟨by simp [St.set, h.len], fun z hz => by simpa [St.set] using h.inb z hz, ?_, h.out, h.data, h.idx⟩
  intro y hy
  simp only [St.set, List.getElem?_set, h.len, h.env y hy]

/-- changing a temporary on one side keeps the states related -/
theorem StEq.set_right {zs : List Nat} {s1 s2 : St} (h : StEq zs s1 s2) {z : Nat} (hz : z ∈ zs) (v : Val) :
    StEq zs s1 (s2.set z v) := by
  refine ⟨by simp [St.set, h.len], h.inb, ?_, h.out, h.data, h.idx⟩
  intro y hy
  have hne : z ≠ y := fun e => hy (e ▸ hz)
  simp only [St.set, List.getElem?_set, hne, if_false, h.env y hy]

theorem StEq.set_left {zs : List Nat} {s1 s2 : St} (h : StEq zs s1 s2) {z : Nat} (hz : z ∈ zs) (v : Val) :
    StEq zs (s1.set z v) s2 := (h.symm.set_right hz v).symm

theorem StEq.withOut {zs : List Nat} {s1 s2 : St} (h : StEq zs s1 s2) (f : Print.WritePrinter → Print.WritePrinter) :
    StEq zs { s1 with out := f s1.out } { s2 with out := f s2.out } :=
  ⟨h.len, h.inb, h.env, by simp [h.out], h.data, h.idx⟩

theorem printItems_agree {zs : List Nat} : ∀ (items : List PrintItem) (s1 s2 : St), StEq zs s1 s2 →
    items.any (usesItem zs) = false →
    ∃ s2', printItems s2 items = (s2', (printItems s1 items).2) ∧ StEq zs (printItems s1 items).1 s2'
  | [], s1, s2, h, _ => ⟨s2, rfl, h⟩
  | .comma :: rest, s1, s2, h, hu => by
      simp only [printItems]
      exact printItems_agree rest _ _ (h.withOut _) (by simpa [usesItem] using hu)
  | .semicolon :: rest, s1, s2, h, hu => by
      simp only [printItems]
      exact printItems_agree rest _ _ h (by simpa [usesItem] using hu)
  | .expr e :: rest, s1, s2, h, hu => by
      have hu' : usesE zs e = false ∧ rest.any (usesItem zs) = false := by simpa [usesItem] using hu
      simp only [printItems, ← eval_agree h.env e hu'.1]
      cases eval s1.env e with
      | err c p => exact ⟨s2, rfl, h⟩
      | inexact => exact ⟨s2, rfl, h⟩
      | ok v =>
        simp only
        cases printValue v with
        | none => exact ⟨s2, rfl, h⟩
        | some pv => exact printItems_agree rest _ _ (h.withOut fun o => o.print (Print.valueText pv)) hu'.2

/-! ### simple statements -/

theorem fuel_pos {st : Stmt} {s s' : St} {o : Outcome} {fuel : Nat} (h : exec fuel st s = (s', o))
    (ho : Outcome.isFuel o = false) : ∃ n, fuel = n + 1 := by
  cases fuel with
  | zero => rw [exec_zero_isFuel h] at ho; cases ho
  | succ n => exact ⟨n, rfl⟩

theorem Sim.skip (zs : List Nat) : Sim zs .skip .skip := by
  intro fuel s1 s2 s1' o hs h ho
  obtain ⟨n, rfl⟩ := fuel_pos h ho
  simp only [exec] at h; cases h
  exact ⟨1, s2, .normal, by simp only [exec], hs, trivial⟩

theorem Sim.end_ (zs : List Nat) (p p' : Pos) : Sim zs (.end_ p) (.end_ p') := by
  intro fuel s1 s2 s1' o hs h ho
  obtain ⟨n, rfl⟩ := fuel_pos h ho
  simp only [exec] at h; cases h
  exact ⟨1, s2, .halted, by simp only [exec], hs, trivial⟩

theorem Sim.assign {zs : List Nat} {x : Nat} {t : Ty} {e : Ast.Expr} {p : Pos} (he : usesE zs e = false) :
    Sim zs (.assign x t e p) (.assign x t e p) := by
  intro fuel s1 s2 s1' o hs h ho
  obtain ⟨n, rfl⟩ := fuel_pos h ho
  refine ⟨1, ?_⟩
  simp only [exec] at h ⊢
  rw [← evalTo_agree hs he]
  cases hev : evalTo s1.env e t with
  | ok v => rw [hev] at h; cases h; exact ⟨_, _, rfl, hs.set x v, trivial⟩
  | err c q => rw [hev] at h; cases h; exact ⟨_, _, rfl, hs, rfl⟩
  | inexact => rw [hev] at h; cases h; exact ⟨_, _, rfl, hs, trivial⟩

theorem Sim.print {zs : List Nat} {items : List PrintItem} {p : Pos} (hu : items.any (usesItem zs) = false) :
    Sim zs (.print items p) (.print items p) := by
  intro fuel s1 s2 s1' o hs h ho
  obtain ⟨n, rfl⟩ := fuel_pos h ho
  refine ⟨1, ?_⟩
  obtain ⟨s2', hp, hs'⟩ := printItems_agree items s1 s2 hs hu
  simp only [exec] at h ⊢
  rw [hp]
  generalize printItems s1 items = r at h hs'
  obtain ⟨sa, oa⟩ := r
  cases oa with
  | normal =>
    simp only at h ⊢
    by_cases hsep : endsInSeparator items = true
    · simp only [hsep, if_true] at h ⊢; cases h; exact ⟨_, _, rfl, hs', trivial⟩
    · simp only [hsep] at h ⊢; cases h
      exact ⟨_, _, rfl, hs'.withOut fun o => o.println, trivial⟩
  | halted => simp only at h ⊢; cases h; exact ⟨_, _, rfl, hs', trivial⟩
  | error c q => simp only at h ⊢; cases h; exact ⟨_, _, rfl, hs', rfl⟩
  | inexact => simp only at h ⊢; cases h; exact ⟨_, _, rfl, hs', trivial⟩
  | outOfFuel => simp only at h ⊢; cases h; exact ⟨_, _, rfl, hs', trivial⟩

theorem Sim.read (zs : List Nat) (x : Nat) (t : Ty) (p : Pos) : Sim zs (.read x t p) (.read x t p) := by
  intro fuel s1 s2 s1' o hs h ho
  obtain ⟨n, rfl⟩ := fuel_pos h ho
  refine ⟨1, ?_⟩
  simp only [exec] at h ⊢
  rw [← hs.data, ← hs.idx]
  cases hd : s1.data[s1.dataIdx]? with
  | none => rw [hd] at h; cases h; exact ⟨_, _, rfl, hs, rfl⟩
  | some v =>
    rw [hd] at h; simp only at h ⊢
    cases hc : Num.cast v t with
    | ok w =>
      rw [hc] at h; cases h
      refine ⟨_, _, rfl, ?_, trivial⟩
      have h2 := hs.set x w
      exact ⟨h2.len, h2.inb, h2.env, h2.out, h2.data, by simp [hs.idx]⟩
    | err e => rw [hc] at h; cases h; exact ⟨_, _, rfl, hs, rfl⟩
    | inexact => rw [hc] at h; cases h; exact ⟨_, _, rfl, hs, trivial⟩

/-! ### the equivalence is a congruence -/

theorem Sim.seq {zs : List Nat} {a a' b b' : Stmt} (ha : Sim zs a a') (hb : Sim zs b b') :
    Sim zs (.seq a b) (.seq a' b') := by
  intro fuel s1 s2 s1' o hs h ho
  obtain ⟨n, rfl⟩ := fuel_pos h ho
  rw [exec_seq] at h
  rcases andThen_inv h with ⟨sa, hra, hk⟩ | ⟨hne, hr⟩
  · obtain ⟨fa, sa2, oa', hea, hsa, hoa⟩ := ha n s1 s2 sa .normal hs hra rfl
    cases hoa.normal_left
    obtain ⟨fb, s2', o', heb, hsb, hob⟩ := hb n sa sa2 s1' o hsa hk ho
    refine ⟨max fa fb + 1, s2', o', ?_, hsb, hob⟩
    rw [exec_seq, exec_le (Nat.le_max_left fa fb) hea rfl, andThen_normal]
    exact exec_le (Nat.le_max_right fa fb) heb (by rw [hob.isFuel]; exact ho)
  · rw [hr] at hne
    obtain ⟨fa, sa2, oa', hea, hsa, hoa⟩ := ha n s1 s2 s1' o hs hr ho
    refine ⟨fa + 1, sa2, oa', ?_, hsa, hoa⟩
    rw [exec_seq, hea, andThen_abort _ (hoa.ne_normal hne)]

theorem Sim.ifs {zs : List Nat} {c : Ast.Expr} {a a' b b' : Stmt} {p : Pos} (hc : usesE zs c = false)
    (ha : Sim zs a a') (hb : Sim zs b b') : Sim zs (.ifs c a b p) (.ifs c a' b' p) := by
  intro fuel s1 s2 s1' o hs h ho
  obtain ⟨n, rfl⟩ := fuel_pos h ho
  simp only [exec] at h
  have hcond := evalCond_agree hs hc
  cases hev : evalCond s1.env c with
  | error oe =>
    rw [hev] at h; cases h
    exact ⟨1, s2, _, by simp only [exec, ← hcond, hev], hs, OEq.refl _⟩
  | ok bb =>
    rw [hev] at h
    cases bb with
    | true =>
      obtain ⟨f, s2', o', he, hs', ho'⟩ := ha n s1 s2 s1' o hs h ho
      exact ⟨f + 1, s2', o', by simp only [exec, ← hcond, hev]; exact he, hs', ho'⟩
    | false =>
      obtain ⟨f, s2', o', he, hs', ho'⟩ := hb n s1 s2 s1' o hs h ho
      exact ⟨f + 1, s2', o', by simp only [exec, ← hcond, hev]; exact he, hs', ho'⟩

theorem Sim.doLoop {zs : List Nat} {c : Ast.Expr} {top u : Bool} {body body' : Stmt} {p : Pos}
    (hc : usesE zs c = false) (hb : Sim zs body body') :
    Sim zs (.doLoop c top u body p) (.doLoop c top u body' p) := by
  intro fuel
  induction fuel with
  | zero => intro s1 s2 s1' o hs h ho; rw [exec_zero_isFuel h] at ho; cases ho
  | succ n ih =>
    intro s1 s2 s1' o hs h ho
    cases top with
    | true =>
      rw [exec_doTop] at h
      have hcond := evalCond_agree hs hc
      cases hev : evalCond s1.env c with
      | error oe =>
        rw [hev] at h; cases h
        exact ⟨1, s2, _, by rw [exec_doTop, ← hcond, hev], hs, OEq.refl _⟩
      | ok bb =>
        rw [hev] at h; simp only at h
        by_cases hbu : (bb != u) = true
        · rw [if_pos hbu] at h
          rcases andThen_inv h with ⟨sa, hra, hk⟩ | ⟨hne, hr⟩
          · obtain ⟨fa, sa2, oa', hea, hsa, hoa⟩ := hb n s1 s2 sa .normal hs hra rfl
            cases hoa.normal_left
            obtain ⟨fb, s2', o', heb, hsb, hob⟩ := ih sa sa2 s1' o hsa hk ho
            refine ⟨max fa fb + 1, s2', o', ?_, hsb, hob⟩
            rw [exec_doTop, ← hcond, hev]; simp only
            rw [if_pos hbu, exec_le (Nat.le_max_left fa fb) hea rfl, andThen_normal]
            exact exec_le (Nat.le_max_right fa fb) heb (by rw [hob.isFuel]; exact ho)
          · rw [hr] at hne
            obtain ⟨fa, sa2, oa', hea, hsa, hoa⟩ := hb n s1 s2 s1' o hs hr ho
            refine ⟨fa + 1, sa2, oa', ?_, hsa, hoa⟩
            rw [exec_doTop, ← hcond, hev]; simp only
            rw [if_pos hbu, hea, andThen_abort _ (hoa.ne_normal hne)]
        · rw [if_neg hbu] at h; cases h
          refine ⟨1, s2, .normal, ?_, hs, trivial⟩
          rw [exec_doTop, ← hcond, hev]; simp only; rw [if_neg hbu]
    | false =>
      rw [exec_doBottom] at h
      rcases andThen_inv h with ⟨sa, hra, hk⟩ | ⟨hne, hr⟩
      · obtain ⟨fa, sa2, oa', hea, hsa, hoa⟩ := hb n s1 s2 sa .normal hs hra rfl
        cases hoa.normal_left
        have hcond := evalCond_agree hsa hc
        cases hev : evalCond sa.env c with
        | error oe =>
          rw [hev] at hk; cases hk
          refine ⟨fa + 1, sa2, _, ?_, hsa, OEq.refl _⟩
          rw [exec_doBottom, hea, andThen_normal, ← hcond, hev]
        | ok bb =>
          rw [hev] at hk; simp only at hk
          by_cases hbu : (bb != u) = true
          · rw [if_pos hbu] at hk
            obtain ⟨fb, s2', o', heb, hsb, hob⟩ := ih sa sa2 s1' o hsa hk ho
            refine ⟨max fa fb + 1, s2', o', ?_, hsb, hob⟩
            rw [exec_doBottom, exec_le (Nat.le_max_left fa fb) hea rfl, andThen_normal, ← hcond, hev]
            simp only; rw [if_pos hbu]
            exact exec_le (Nat.le_max_right fa fb) heb (by rw [hob.isFuel]; exact ho)
          · rw [if_neg hbu] at hk; cases hk
            refine ⟨fa + 1, sa2, .normal, ?_, hsa, trivial⟩
            rw [exec_doBottom, hea, andThen_normal, ← hcond, hev]; simp only; rw [if_neg hbu]
      · rw [hr] at hne
        obtain ⟨fa, sa2, oa', hea, hsa, hoa⟩ := hb n s1 s2 s1' o hs hr ho
        refine ⟨fa + 1, sa2, oa', ?_, hsa, hoa⟩
        rw [exec_doBottom, hea, andThen_abort _ (hoa.ne_normal hne)]

/-- WHILE … WEND and DO WHILE … LOOP run identically, step for step (same fuel, same everything) -/
theorem while_doTop_exec (c : Ast.Expr) (body : Stmt) (p p' : Pos) :
    ∀ (f : Nat) (s : St), exec f (.while c body p) s = exec f (.doLoop c true false body p') s := by
  intro f
  induction f with
  | zero => intro s; simp only [exec]
  | succ n ih =>
    intro s
    rw [exec_while, exec_doTop]
    cases evalCond s.env c with
    | error o => rfl
    | ok b =>
      cases b with
      | false => rfl
      | true =>
        simp only [Bool.true_bne, Bool.not_false, if_true]
        congr 1
        funext s'
        exact ih s'

theorem Sim.while {zs : List Nat} {c : Ast.Expr} {body body' : Stmt} {p : Pos}
    (hc : usesE zs c = false) (hb : Sim zs body body') :
    Sim zs (.while c body p) (.while c body' p) := by
  intro fuel s1 s2 s1' o hs h ho
  rw [while_doTop_exec c body p p] at h
  obtain ⟨f, s2', o', he, hs', ho'⟩ := Sim.doLoop (top := true) (u := false) (p := p) hc hb fuel s1 s2 s1' o hs h ho
  exact ⟨f, s2', o', by rw [while_doTop_exec c body' p p]; exact he, hs', ho'⟩

/-- the rounds of a FOR loop, related -/
def SimF (zs : List Nat) (x : Nat) (t : Ty) (up : Bool) (body body' : Stmt) (p : Pos) : Prop :=
  ∀ fuel hv sv s1 s2 s1' o, StEq zs s1 s2 → forIter fuel x t hv sv up body p s1 = (s1', o) → Outcome.isFuel o = false →
    ∃ fuel' s2' o', forIter fuel' x t hv sv up body' p s2 = (s2', o') ∧ StEq zs s1' s2' ∧ OEq o o'

theorem forIter_zero_isFuel {x : Nat} {t : Ty} {hv sv : Val} {up : Bool} {body : Stmt} {p : Pos} {s s' : St}
    {o : Outcome} (h : forIter 0 x t hv sv up body p s = (s', o)) : Outcome.isFuel o = true := by
  simp [forIter] at h; obtain ⟨_, rfl⟩ := h; rfl

theorem simF {zs : List Nat} {x : Nat} {t : Ty} {up : Bool} {body body' : Stmt} {p : Pos}
    (hx : x ∉ zs) (hb : Sim zs body body') : SimF zs x t up body body' p := by
  intro fuel
  induction fuel with
  | zero => intro hv sv s1 s2 s1' o hs h ho; rw [forIter_zero_isFuel h] at ho; cases ho
  | succ n ih =>
    intro hv sv s1 s2 s1' o hs h ho
    rw [forIter_succ] at h
    have hcur := getD_agree hs hx (zeroOf t)
    cases hrt : relTest p (if up then .lessOrEqual else .greaterOrEqual) (s1.env.getD x (zeroOf t)) hv with
    | error oe =>
      rw [hrt] at h; cases h
      exact ⟨1, s2, _, by rw [forIter_succ, ← hcur, hrt], hs, OEq.refl _⟩
    | ok bb =>
      rw [hrt] at h
      cases bb with
      | false =>
        cases h
        exact ⟨1, s2, _, by rw [forIter_succ, ← hcur, hrt], hs, OEq.refl _⟩
      | true =>
        simp only at h
        rcases andThen_inv h with ⟨sa, hra, hk⟩ | ⟨hne, hr⟩
        · obtain ⟨fa, sa2, oa', hea, hsa, hoa⟩ := hb n s1 s2 sa .normal hs hra rfl
          cases hoa.normal_left
          have hcur' := getD_agree hsa hx (zeroOf t)
          cases hpl : (plus (sa.env.getD x (zeroOf t)) sv).bind (fun v => Num.cast v t) with
          | ok v =>
            rw [hpl] at hk; simp only at hk
            obtain ⟨fb, s2', o', heb, hsb, hob⟩ := ih hv sv (sa.set x v) (sa2.set x v) s1' o (hsa.set x v) hk ho
            refine ⟨max fa fb + 1, s2', o', ?_, hsb, hob⟩
            rw [forIter_succ, ← hcur, hrt]; simp only
            rw [exec_le (Nat.le_max_left fa fb) hea rfl, andThen_normal, ← hcur', hpl]
            exact forIter_le (Nat.le_max_right fa fb) heb (by rw [hob.isFuel]; exact ho)
          | err e =>
            rw [hpl] at hk; cases hk
            refine ⟨fa + 1, sa2, _, ?_, hsa, OEq.refl _⟩
            rw [forIter_succ, ← hcur, hrt]; simp only
            rw [hea, andThen_normal, ← hcur', hpl]
          | inexact =>
            rw [hpl] at hk; cases hk
            refine ⟨fa + 1, sa2, _, ?_, hsa, OEq.refl _⟩
            rw [forIter_succ, ← hcur, hrt]; simp only
            rw [hea, andThen_normal, ← hcur', hpl]
        · rw [hr] at hne
          obtain ⟨fa, sa2, oa', hea, hsa, hoa⟩ := hb n s1 s2 s1' o hs hr ho
          refine ⟨fa + 1, sa2, oa', ?_, hsa, hoa⟩
          rw [forIter_succ, ← hcur, hrt]; simp only
          rw [hea, andThen_abort _ (hoa.ne_normal hne)]

theorem Sim.forLoop {zs : List Nat} {x : Nat} {t : Ty} {lo hi : Ast.Expr} {step : Option Ast.Expr}
    {body body' : Stmt} {p : Pos}
    (hx : zs.contains x = false) (hlo : usesE zs lo = false) (hhi : usesE zs hi = false)
    (hst : usesStep zs step = false) (hb : Sim zs body body') :
    Sim zs (.forLoop x t lo hi step body p) (.forLoop x t lo hi step body' p) := by
  intro fuel s1 s2 s1' o hs h ho
  obtain ⟨n, rfl⟩ := fuel_pos h ho
  have hx' := not_mem_of_contains hx
  simp only [exec] at h
  have e1 := evalTo_agree hs hlo t
  cases hl : evalTo s1.env lo t with
  | err c q => rw [hl] at h; cases h; exact ⟨1, s2, _, by simp only [exec, ← e1, hl], hs, OEq.refl _⟩
  | inexact => rw [hl] at h; cases h; exact ⟨1, s2, _, by simp only [exec, ← e1, hl], hs, OEq.refl _⟩
  | ok l =>
    rw [hl] at h; simp only at h
    have hs1 := hs.set x l
    have e2 := evalTo_agree hs1 hhi t
    cases hh : evalTo (s1.set x l).env hi t with
    | err c q => rw [hh] at h; cases h; exact ⟨1, _, _, by simp only [exec, ← e1, hl, ← e2, hh], hs1, OEq.refl _⟩
    | inexact => rw [hh] at h; cases h; exact ⟨1, _, _, by simp only [exec, ← e1, hl, ← e2, hh], hs1, OEq.refl _⟩
    | ok hv =>
      rw [hh] at h; simp only at h
      cases step with
      | none =>
        simp only at h
        obtain ⟨f, s2', o', he, hs', ho'⟩ := simF (t := t) (up := true) (p := p) hx' hb n hv (.int 1) _ _ s1' o hs1 h ho
        exact ⟨f + 1, s2', o', by simp only [exec, ← e1, hl, ← e2, hh]; exact he, hs', ho'⟩
      | some se =>
        simp only at h
        have e3 := evalE_agree hs1 (show usesE zs se = false from hst)
        cases hse : evalE (s1.set x l).env se with
        | error oe => rw [hse] at h; cases h; exact ⟨1, _, _, by simp only [exec, ← e1, hl, ← e2, hh, ← e3, hse], hs1, OEq.refl _⟩
        | ok sv =>
          rw [hse] at h; simp only at h
          cases hsg : stepSign p sv with
          | error oe => rw [hsg] at h; cases h; exact ⟨1, _, _, by simp only [exec, ← e1, hl, ← e2, hh, ← e3, hse, hsg], hs1, OEq.refl _⟩
          | ok sg =>
            rw [hsg] at h
            cases sg with
            | neg =>
              obtain ⟨f, s2', o', he, hs', ho'⟩ := simF (t := t) (up := false) (p := p) hx' hb n hv sv _ _ s1' o hs1 h ho
              exact ⟨f + 1, s2', o', by simp only [exec, ← e1, hl, ← e2, hh, ← e3, hse, hsg]; exact he, hs', ho'⟩
            | pos =>
              obtain ⟨f, s2', o', he, hs', ho'⟩ := simF (t := t) (up := true) (p := p) hx' hb n hv sv _ _ s1' o hs1 h ho
              exact ⟨f + 1, s2', o', by simp only [exec, ← e1, hl, ← e2, hh, ← e3, hse, hsg]; exact he, hs', ho'⟩
            | zero => cases h; exact ⟨1, _, _, by simp only [exec, ← e1, hl, ← e2, hh, ← e3, hse, hsg], hs1, OEq.refl _⟩

/-! CASE lists -/

theorem execCases_pos {p : Pos} {subj : Val} {cs : Cases} {s s' : St} {o : Outcome} {fuel : Nat}
    (h : execCases fuel p subj cs s = (s', o)) (ho : Outcome.isFuel o = false) : ∃ n, fuel = n + 1 := by
  cases fuel with
  | zero => simp [execCases] at h; obtain ⟨_, rfl⟩ := h; cases ho
  | succ n => exact ⟨n, rfl⟩

theorem SimC.nil (zs : List Nat) : SimC zs .nil .nil := by
  intro fuel p subj s1 s2 s1' o hs h ho
  obtain ⟨n, rfl⟩ := execCases_pos h ho
  simp only [execCases] at h; cases h
  exact ⟨1, s2, .normal, by simp only [execCases], hs, OEq.refl _⟩

theorem SimC.else_ {zs : List Nat} {b b' : Stmt} (hb : Sim zs b b') : SimC zs (.else_ b) (.else_ b') := by
  intro fuel p subj s1 s2 s1' o hs h ho
  obtain ⟨n, rfl⟩ := execCases_pos h ho
  simp only [execCases] at h
  obtain ⟨f, s2', o', he, hs', ho'⟩ := hb n s1 s2 s1' o hs h ho
  exact ⟨f + 1, s2', o', by simp only [execCases]; exact he, hs', ho'⟩

theorem SimC.case {zs : List Nat} {conds : List CaseExpr} {b b' : Stmt} {rest rest' : Cases}
    (hc : conds.any (usesCase zs) = false) (hb : Sim zs b b') (hr : SimC zs rest rest') :
    SimC zs (.case conds b rest) (.case conds b' rest') := by
  intro fuel p subj s1 s2 s1' o hs h ho
  obtain ⟨n, rfl⟩ := execCases_pos h ho
  simp only [execCases] at h
  have hm := anyMatches_agree hs p subj conds hc
  cases hev : anyMatches s1.env p subj conds with
  | error oe => rw [hev] at h; cases h; exact ⟨1, s2, _, by simp only [execCases, ← hm, hev], hs, OEq.refl _⟩
  | ok bb =>
    rw [hev] at h
    cases bb with
    | true =>
      obtain ⟨f, s2', o', he, hs', ho'⟩ := hb n s1 s2 s1' o hs h ho
      exact ⟨f + 1, s2', o', by simp only [execCases, ← hm, hev]; exact he, hs', ho'⟩
    | false =>
      obtain ⟨f, s2', o', he, hs', ho'⟩ := hr n p subj s1 s2 s1' o hs h ho
      exact ⟨f + 1, s2', o', by simp only [execCases, ← hm, hev]; exact he, hs', ho'⟩

theorem Sim.select {zs : List Nat} {e : Ast.Expr} {cs cs' : Cases} {p : Pos}
    (he : usesE zs e = false) (hc : SimC zs cs cs') : Sim zs (.select e cs p) (.select e cs' p) := by
  intro fuel s1 s2 s1' o hs h ho
  obtain ⟨n, rfl⟩ := fuel_pos h ho
  simp only [exec] at h
  have hm := evalE_agree hs he
  cases hev : evalE s1.env e with
  | error oe => rw [hev] at h; cases h; exact ⟨1, s2, _, by simp only [exec, ← hm, hev], hs, OEq.refl _⟩
  | ok subj =>
    rw [hev] at h
    obtain ⟨f, s2', o', he', hs', ho'⟩ := hc n p subj s1 s2 s1' o hs h ho
    exact ⟨f + 1, s2', o', by simp only [exec, ← hm, hev]; exact he', hs', ho'⟩

/-! ### a statement that does not mention the temporaries does not care about them -/

mutual
theorem sim_self (zs : List Nat) : (st : Stmt) → usesS zs st = false → Sim zs st st
  | .skip, _ => Sim.skip zs
  | .seq a b, h => by
      have h' : usesS zs a = false ∧ usesS zs b = false := by simpa [usesS] using h
      exact Sim.seq (sim_self zs a h'.1) (sim_self zs b h'.2)
  | .assign x t e p, h => by
      have h' : zs.contains x = false ∧ usesE zs e = false := by simpa [usesS] using h
      exact Sim.assign h'.2
  | .print items p, h => Sim.print (by simpa [usesS] using h)
  | .read x t p, _ => Sim.read zs x t p
  | .ifs c a b p, h => by
      have h' : (usesE zs c = false ∧ usesS zs a = false) ∧ usesS zs b = false := by simpa [usesS] using h
      exact Sim.ifs h'.1.1 (sim_self zs a h'.1.2) (sim_self zs b h'.2)
  | .select e cs p, h => by
      have h' : usesE zs e = false ∧ usesC zs cs = false := by simpa [usesS] using h
      exact Sim.select h'.1 (simC_self zs cs h'.2)
  | .forLoop x t lo hi step body p, h => by
      have h' : (((zs.contains x = false ∧ usesE zs lo = false) ∧ usesE zs hi = false) ∧ usesStep zs step = false)
          ∧ usesS zs body = false := by simpa [usesS] using h
      exact Sim.forLoop h'.1.1.1.1 h'.1.1.1.2 h'.1.1.2 h'.1.2 (sim_self zs body h'.2)
  | .while c body p, h => by
      have h' : usesE zs c = false ∧ usesS zs body = false := by simpa [usesS] using h
      exact Sim.while h'.1 (sim_self zs body h'.2)
  | .doLoop c top u body p, h => by
      have h' : usesE zs c = false ∧ usesS zs body = false := by simpa [usesS] using h
      exact Sim.doLoop h'.1 (sim_self zs body h'.2)
  | .end_ p, _ => Sim.end_ zs p p
theorem simC_self (zs : List Nat) : (cs : Cases) → usesC zs cs = false → SimC zs cs cs
  | .nil, _ => SimC.nil zs
  | .else_ b, h => SimC.else_ (sim_self zs b (by simpa [usesC] using h))
  | .case conds b rest, h => by
      have h' : (conds.any (usesCase zs) = false ∧ usesS zs b = false) ∧ usesC zs rest = false := by
        simpa [usesC] using h
      exact SimC.case h'.1.1 (sim_self zs b h'.1.2) (simC_self zs rest h'.2)
end

/-! ### compositionality -/

mutual
/-- **Context lemma.** If `b` simulates `a`, then in every context that does not mention the
temporaries — to the left or right of other statements, in a branch of an IF, in a CASE block,
in the body of a WHILE / DO / FOR loop, at any depth — `C[b]` simulates `C[a]`. -/
theorem sim_fill {zs : List Nat} {a b : Stmt} (hab : Sim zs a b) :
    (C : Ctx) → C.uses zs = false → Sim zs (C.fill a) (C.fill b)
  | .hole, _ => hab
  | .seqL c k, h => by
      have h' : c.uses zs = false ∧ usesS zs k = false := by simpa [Ctx.uses] using h
      exact Sim.seq (sim_fill hab c h'.1) (sim_self zs k h'.2)
  | .seqR k c, h => by
      have h' : usesS zs k = false ∧ c.uses zs = false := by simpa [Ctx.uses] using h
      exact Sim.seq (sim_self zs k h'.1) (sim_fill hab c h'.2)
  | .ifThen cond c els p, h => by
      have h' : (usesE zs cond = false ∧ c.uses zs = false) ∧ usesS zs els = false := by simpa [Ctx.uses] using h
      exact Sim.ifs h'.1.1 (sim_fill hab c h'.1.2) (sim_self zs els h'.2)
  | .ifElse cond thn c p, h => by
      have h' : (usesE zs cond = false ∧ usesS zs thn = false) ∧ c.uses zs = false := by simpa [Ctx.uses] using h
      exact Sim.ifs h'.1.1 (sim_self zs thn h'.1.2) (sim_fill hab c h'.2)
  | .whileBody cond c p, h => by
      have h' : usesE zs cond = false ∧ c.uses zs = false := by simpa [Ctx.uses] using h
      exact Sim.while h'.1 (sim_fill hab c h'.2)
  | .doBody cond top u c p, h => by
      have h' : usesE zs cond = false ∧ c.uses zs = false := by simpa [Ctx.uses] using h
      exact Sim.doLoop h'.1 (sim_fill hab c h'.2)
  | .forBody x t lo hi step c p, h => by
      have h' : (((zs.contains x = false ∧ usesE zs lo = false) ∧ usesE zs hi = false) ∧ usesStep zs step = false)
          ∧ c.uses zs = false := by simpa [Ctx.uses] using h
      exact Sim.forLoop h'.1.1.1.1 h'.1.1.1.2 h'.1.1.2 h'.1.2 (sim_fill hab c h'.2)
  | .selectIn e cc p, h => by
      have h' : usesE zs e = false ∧ cc.uses zs = false := by simpa [Ctx.uses] using h
      exact Sim.select h'.1 (simC_fill hab cc h'.2)
theorem simC_fill {zs : List Nat} {a b : Stmt} (hab : Sim zs a b) :
    (C : CasesCtx) → C.uses zs = false → SimC zs (C.fill a) (C.fill b)
  | .elseBody c, h => SimC.else_ (sim_fill hab c (by simpa [CasesCtx.uses] using h))
  | .caseBody conds c rest, h => by
      have h' : (conds.any (usesCase zs) = false ∧ c.uses zs = false) ∧ usesC zs rest = false := by
        simpa [CasesCtx.uses] using h
      exact SimC.case h'.1.1 (sim_fill hab c h'.1.2) (simC_self zs rest h'.2)
  | .caseRest conds body cc, h => by
      have h' : (conds.any (usesCase zs) = false ∧ usesS zs body = false) ∧ cc.uses zs = false := by
        simpa [CasesCtx.uses] using h
      exact SimC.case h'.1.1 (sim_self zs body h'.1.2) (simC_fill hab cc h'.2)
end

/-! ### the equivalence relation -/

theorem Sim.trans {zs : List Nat} {a b c : Stmt} (hab : Sim zs a b) (hbc : Sim zs b c) : Sim zs a c := by
  intro fuel s1 s3 s1' o hs h ho
  obtain ⟨f2, s2', o2, he2, hs2, ho2⟩ := hab fuel s1 s1 s1' o (StEq.refl hs.inb) h ho
  obtain ⟨f3, s3', o3, he3, hs3, ho3⟩ := hbc f2 s1 s3 s2' o2 hs he2 (by rw [ho2.isFuel]; exact ho)
  exact ⟨f3, s3', o3, he3, hs2.trans hs3, ho2.trans ho3⟩

theorem Equiv.refl {zs : List Nat} {a : Stmt} (h : usesS zs a = false) : Equiv zs a a :=
  ⟨sim_self zs a h, sim_self zs a h⟩

theorem Equiv.symm {zs : List Nat} {a b : Stmt} (h : Equiv zs a b) : Equiv zs b a := ⟨h.2, h.1⟩

theorem Equiv.trans {zs : List Nat} {a b c : Stmt} (h : Equiv zs a b) (h' : Equiv zs b c) : Equiv zs a c :=
  ⟨h.1.trans h'.1, h'.2.trans h.2⟩

/-- **Compositionality (clause (a) of the property).** Equivalent statements are equivalent in every
context: whatever encloses a construct — a statement sequence on either side, either branch of an
IF, a CASE block, the body of a WHILE / DO / FOR loop, nested to any depth — does not change what the
construct means.  (`zs` are temporaries of a rewrite; the context must not mention them.) -/
theorem exec_congr {zs : List Nat} {a b : Stmt} (h : Equiv zs a b) (C : Ctx) (hC : C.uses zs = false) :
    Equiv zs (C.fill a) (C.fill b) :=
  ⟨sim_fill h.1 C hC, sim_fill h.2 C hC⟩

/-- with no temporaries the side condition on the context is void -/
theorem Ctx.uses_nil : (C : Ctx) → C.uses [] = false := by
  have hE : ∀ e : Ast.Expr, usesE [] e = false := by
    intro e; induction e <;> simp_all [usesE]
  have hI : ∀ x : PrintItem, usesItem [] x = false := by
    intro x; cases x <;> simp [usesItem, hE]
  have hK : ∀ x : CaseExpr, usesCase [] x = false := by
    intro x; cases x <;> simp [usesCase, hE]
  have hSt : ∀ st : Option Ast.Expr, usesStep [] st = false := by
    intro st; cases st <;> simp [usesStep, hE]
  have hS : (∀ st : Stmt, usesS [] st = false) ∧ (∀ cs : Cases, usesC [] cs = false) := by
    constructor
    · intro st
      induction st using Stmt.rec (motive_2 := fun cs => usesC [] cs = false) <;> simp_all [usesS, usesC]
    · intro cs
      induction cs using Cases.rec (motive_1 := fun st => usesS [] st = false) <;> simp_all [usesS, usesC]
  intro C
  induction C using Ctx.rec (motive_2 := fun cc => cc.uses [] = false) <;>
    simp_all [Ctx.uses, CasesCtx.uses]

/-- **Compositionality for rewrites without temporaries**: no side condition at all. -/
theorem exec_congr_nil {a b : Stmt} (h : Equiv [] a b) (C : Ctx) : Equiv [] (C.fill a) (C.fill b) :=
  exec_congr h C (Ctx.uses_nil C)

/-- what an equivalence without temporaries says about whole runs: the same final variables, the
same output bytes, the same outcome up to an error's position -/
theorem Equiv.run_eq {a b : Stmt} (h : Equiv [] a b) {fuel : Nat} {s s' : St} {o : Outcome}
    (hr : exec fuel a s = (s', o)) (ho : Outcome.isFuel o = false) :
    ∃ fuel' o', exec fuel' b s = (s', o') ∧ OEq o o' := by
  obtain ⟨f, s2', o', he, hs, ho'⟩ := h.1 fuel s s s' o (StEq.refl (by simp)) hr ho
  cases hs.nil_eq
  exact ⟨f, o', he, ho'⟩

/-- statements that run identically for every amount of fuel are equivalent -/
theorem Equiv.of_exec_eq {a b : Stmt} (h : ∀ f s, exec f a s = exec f b s) : Equiv [] a b := by
  constructor
  · intro fuel s1 s2 s1' o hs he _
    cases hs.nil_eq
    exact ⟨fuel, s1', o, by rw [← h]; exact he, StEq.refl (by simp), OEq.refl _⟩
  · intro fuel s1 s2 s1' o hs he _
    cases hs.nil_eq
    exact ⟨fuel, s1', o, by rw [h]; exact he, StEq.refl (by simp), OEq.refl _⟩

end RbThm.C02
