import Thm.AoRSimExpr0
/-!
Layer AoR (port of the records-layer file `Thm/RecLSimDo.lean`), simulation part — the loops with a condition: `WHILE c … WEND` and the four forms of DO
(`DO WHILE c … LOOP`, `DO UNTIL c … LOOP`, `DO … LOOP WHILE c`, `DO … LOOP UNTIL c`).

Port of `C01SimBase.case_while` and `C01SimDo.case_do`.  All five loops are assembled from the same moves (a label, a jump,
`<cond>; JumpIfFalse`, the body, going round the loop), so the moves are stated once as lemmas about `SimDo.Reach`: "the run
from `σ` gets to address `pc` in a state that represents `s`, stacks untouched".
-/
namespace RbThm.AoRSim
set_option linter.unusedVariables false
set_option linter.unusedSimpArgs false
open RbModel RbModel.Num RbModel.AoR RbModel.AoR.Compile RbModel.AoR.Vm
open RbModel.Ast (Pos)
open RbModel.RecL (ETy FTy FFields expand zeroOf)
open RbModel.RecL.Vm (allocTy defaultVar)
open RbThm.AoRLen RbThm.ArrLNum RbThm.RecLTy RbThm.AoRTy

set_option linter.unusedSectionVars false
variable [ExprOk]

namespace SimDo

/-- a fragment followed by one more instruction -/
theorem codeAt_snoc {code : Code} {off : Nat} {frag : Code} {x : CInstr × Pos}
    (h1 : CodeAt code off frag) (h2 : code[off + frag.length]? = some x) : CodeAt code off (frag ++ [x]) := by
  intro i hi
  simp only [List.length_append, List.length_singleton] at hi
  by_cases h3 : i < frag.length
  · rw [List.getElem?_append_left h3]; exact h1 i h3
  · have hi' : i = frag.length := by omega
    subst hi'
    rw [List.getElem?_append_right (Nat.le_refl _), h2]
    simp

/-- the run from `σ` reaches address `pc` in a state that represents `s`, with the stacks as they were -/
def Reach (code : Code) (sc : Scope) (σ : Vm) (s : St) (pc : Nat) : Prop :=
  ∃ τ, Steps code σ τ ∧ τ.pc = pc ∧ Rel sc s τ ∧ SameStacks σ τ

theorem Reach.start {code : Code} {sc : Scope} {σ : Vm} {s : St} (hr : Rel sc s σ) :
    Reach code sc σ s σ.pc :=
  ⟨σ, Steps.refl σ, rfl, hr, SameStacks.refl σ⟩

theorem Reach.label {code : Code} {sc : Scope} {σ : Vm} {s : St} {a : Nat} {l : String} {p : Pos}
    (h : Reach code sc σ s a) (hl : code[a]? = some (CInstr.label l, p)) : Reach code sc σ s (a + 1) := by
  obtain ⟨τ, st, hp, hr, hss⟩ := h
  subst hp
  have s1 : Vm.step code τ = .next (Vm.advance τ) := by simp only [Vm.step, hl]
  exact ⟨Vm.advance τ, st.trans (Steps.one s1), rfl, hr.advance, hss.trans ⟨rfl, rfl, rfl, rfl, rfl, id⟩⟩

theorem Reach.jump {code : Code} {sc : Scope} {σ : Vm} {s : St} {a t : Nat} {p : Pos}
    (h : Reach code sc σ s a) (hl : code[a]? = some (CInstr.jump t, p)) : Reach code sc σ s t := by
  obtain ⟨τ, st, hp, hr, hss⟩ := h
  subst hp
  have s1 : Vm.step code τ = .next { τ with pc := t } := by simp only [Vm.step, hl]
  exact ⟨{ τ with pc := t }, st.trans (Steps.one s1), rfl, hr.setPc t, hss.trans ⟨rfl, rfl, rfl, rfl, rfl, id⟩⟩

/-- an outcome other than `normal` does not mention the statement's end address -/
theorem StmtPost.abnormal {code : Code} {sc : Scope} {n off n' off' : Nat} {σ : Vm}
    {s' : St} {o : Outcome} (ho : o ≠ .normal) (h : StmtPost code sc n off σ (s', o)) :
    StmtPost code sc n' off' σ (s', o) := by
  cases o with
  | normal => exact absurd rfl ho
  | halted => exact h
  | error c p => exact h
  | inexact => trivial
  | outOfFuel => trivial
  | illFormed => trivial
  | tooBig => trivial

/-- `<cond>; JumpIfFalse t` from a reached address: an evaluation that ends the run ends the statement (whatever the
statement), truth falls through, falsity lands on `t` -/
theorem Reach.cond {code : Code} {sc : Scope} {σ : Vm} {s : St} {a : Nat}
    (h : Reach code sc σ s a) (c : AoR.Expr) (t : Nat) (p : Pos)
    (hc : CodeAt code a (compileExpr c ++ [(CInstr.jumpIfFalse t, p)]))
    (hw : EWf sc c) (hn : NumTy c.ty) (rv : Except Outcome Bool)
    (he : AoR.Ref.evalCond s c = rv) :
    (∀ o, rv = .error o → ∀ (n off : Nat), StmtPost code sc n off σ (s, o)) ∧
    (rv = .ok true → Reach code sc σ s (a + (compileExpr c).length + 1)) ∧
    (rv = .ok false → Reach code sc σ s t) := by
  obtain ⟨τ, st, hp, hr, hss⟩ := h
  have hcond := cond_correct' code sc c t p a s τ hc hp hr hw hn
  rw [he] at hcond
  refine ⟨?_, ?_, ?_⟩
  · intro o ho n off
    subst ho
    exact StmtPost.of_err (ErrPost.of_steps st hcond)
  · intro ho
    subst ho
    obtain ⟨υ, st2, hp2, hrel2, hss2⟩ := hcond
    exact ⟨υ, st.trans st2, hp2, hrel2, hss.trans hss2⟩
  · intro ho
    subst ho
    obtain ⟨υ, st2, hp2, hrel2, hss2⟩ := hcond
    exact ⟨υ, st.trans st2, hp2, hrel2, hss.trans hss2⟩

/-- a sub-statement from a reached address: ending normally it reaches the address after it; any other outcome is the
outcome of the whole statement -/
theorem Reach.stmt {code : Code} {sc : Scope} {σ : Vm} {s : St} {a f : Nat}
    (h : Reach code sc σ s a) (ih : StmtIH code f) (body : SStmt) (sfx : String)
    (hc : CodeAt code a (compileStmt sfx a body)) (hw : Wf sc body) (ha : ActInv σ)
    (s' : St) (o : Outcome) (he : AoR.Ref.exec f (desugar body) s = (s', o)) :
    (o = .normal → Reach code sc σ s' (a + sizeStmt body)) ∧
    (o ≠ .normal → ∀ (n off : Nat), StmtPost code sc n off σ (s', o)) := by
  obtain ⟨τ, st, hp, hr, hss⟩ := h
  have hb := ih sc body sfx a s τ hc hp hr hw (ha.of_same hss)
  rw [he] at hb
  constructor
  · intro ho
    subst ho
    obtain ⟨υ, st2, hp2, hrel2, hss2⟩ := hb
    exact ⟨υ, st.trans st2, hp2, hrel2, hss.trans hss2⟩
  · intro ho n off
    exact StmtPost.abnormal ho (StmtPost.of_steps st hss hb)

/-- reaching the end address is ending normally -/
theorem Reach.finish {code : Code} {sc : Scope} {σ : Vm} {s' : St} {n off : Nat}
    (h : Reach code sc σ s' (off + n)) : StmtPost code sc n off σ (s', .normal) := h

/-- reaching the start address again: what the statement does from there is what it does from here -/
theorem Reach.again {code : Code} {sc : Scope} {σ : Vm} {s' : St} {n off : Nat}
    {r : St × Outcome} (h : Reach code sc σ s' off)
    (hl : ∀ τ : Vm, τ.pc = off → Rel sc s' τ → SameStacks σ τ → StmtPost code sc n off τ r) :
    StmtPost code sc n off σ r := by
  obtain ⟨τ, st, hp, hr, hss⟩ := h
  exact StmtPost.of_steps st hss (hl τ hp hr hss)

end SimDo

open SimDo

/-- `WHILE c … WEND` -/
theorem case_while (code : Code) (fuel : Nat) (ih : IHle code fuel) (c : AoR.Expr) (body : SStmt) (p : Pos)
    (sc : Scope) (sfx : String) (off : Nat) (s : St) (σ : Vm)
    (hc : CodeAt code off (compileStmt sfx off (.while c body p))) (hpc : σ.pc = off)
    (hr : Rel sc s σ) (hw : Wf sc (.while c body p)) (ha : ActInv σ) :
    StmtPost code sc (sizeStmt (.while c body p)) off σ
      (AoR.Ref.exec (fuel + 1) (desugar (.while c body p)) s) := by
  have hw0 := hw
  simp only [Wf] at hw
  obtain ⟨hwc, hnc, hwb⟩ := hw
  -- going round the loop again
  have hloop : ∀ (s' : St) (τ : Vm), τ.pc = off → Rel sc s' τ → SameStacks σ τ →
      StmtPost code sc (sizeStmt (.while c body p)) off τ
        (AoR.Ref.exec fuel (AoR.Stmt.while c (desugar body) p) s') := by
    intro s' τ hp hr' hss
    have := ih.self.stmt sc (.while c body p) sfx off s' τ hc hp hr' hw0 (ha.of_same hss)
    simpa only [desugar] using this
  have h0 : Reach code sc σ s off := by rw [← hpc]; exact Reach.start hr
  simp only [compileStmt] at hc
  have hlab : code[off]? = some (CInstr.label (labelName "while" p sfx), p) :=
    hc.append_left.append_left.append_left.append_left.head
  have hcc : CodeAt code (off + 1) (compileExpr c ++
      [(CInstr.jumpIfFalse (off + 1 + (compileExpr c).length + 1 + sizeStmt body + 1), p)]) := by
    have := hc.append_left.append_left
    rw [List.append_assoc] at this
    exact this.append_right
  have hcb : CodeAt code (off + 1 + (compileExpr c).length + 1) (compileStmt sfx (off + 1 + (compileExpr c).length + 1) body) := by
    have := hc.append_left.append_right
    simp only [List.length_append, List.length_singleton] at this
    exact this.at (by omega)
  have hjmp : code[off + 1 + (compileExpr c).length + 1 + sizeStmt body]? = some (CInstr.jump off, p) := by
    have := hc.append_right.head
    simp only [List.length_append, List.length_singleton, len_stmt] at this
    rw [← this]; congr 1; omega
  have hend : code[off + 1 + (compileExpr c).length + 1 + sizeStmt body + 1]? =
      some (CInstr.label (labelName "wend" p sfx), p) := by
    have := hc.append_right.tail.head
    simp only [List.length_append, List.length_singleton, len_stmt] at this
    rw [← this]; congr 1; omega
  simp only [desugar, AoR.Ref.exec]
  generalize hec : AoR.Ref.evalCond s c = rv
  obtain ⟨cerr, ctrue, cfalse⟩ := (h0.label hlab).cond c _ p hcc hwc hnc rv hec
  cases rv with
  | error o => exact cerr o rfl _ _
  | ok bv =>
    cases bv with
    | false =>
      have := (cfalse rfl).label hend
      refine Reach.finish ?_
      have e : off + sizeStmt (.while c body p) = off + 1 + (compileExpr c).length + 1 + sizeStmt body + 1 + 1 := by
        simp only [sizeStmt]; omega
      rw [e]; exact this
    | true =>
      simp only
      generalize hrb : AoR.Ref.exec fuel (desugar body) s = rb
      obtain ⟨s2, o1⟩ := rb
      obtain ⟨hn, hab⟩ := (ctrue rfl).stmt ih.self.stmt body sfx hcb hwb ha s2 o1 hrb
      cases o1 with
      | normal => exact ((hn rfl).jump hjmp).again (fun τ hp hr' hss => hloop s2 τ hp hr' hss)
      | halted => exact hab (by simp) _ _
      | error cd q => exact hab (by simp) _ _
      | inexact => exact hab (by simp) _ _
      | outOfFuel => exact hab (by simp) _ _
      | illFormed => exact hab (by simp) _ _
      | tooBig => exact hab (by simp) _ _

/-- DO loops, all four forms -/
theorem case_do (code : Code) (fuel : Nat) (ih : IHle code fuel) (c : AoR.Expr) (top until_ : Bool) (body : SStmt) (p : Pos)
    (sc : Scope) (sfx : String) (off : Nat) (s : St) (σ : Vm)
    (hc : CodeAt code off (compileStmt sfx off (.doLoop c top until_ body p))) (hpc : σ.pc = off)
    (hr : Rel sc s σ) (hw : Wf sc (.doLoop c top until_ body p)) (ha : ActInv σ) :
    StmtPost code sc (sizeStmt (.doLoop c top until_ body p)) off σ
      (AoR.Ref.exec (fuel + 1) (desugar (.doLoop c top until_ body p)) s) := by
  have hw0 := hw
  simp only [Wf] at hw
  obtain ⟨hwc, hnc, hwb⟩ := hw
  -- going round the loop again
  have hloop : ∀ (s' : St) (τ : Vm), τ.pc = off → Rel sc s' τ → SameStacks σ τ →
      StmtPost code sc (sizeStmt (.doLoop c top until_ body p)) off τ
        (AoR.Ref.exec fuel (AoR.Stmt.doLoop c top until_ (desugar body) p) s') := by
    intro s' τ hp hr' hss
    have := ih.self.stmt sc (.doLoop c top until_ body p) sfx off s' τ hc hp hr' hw0 (ha.of_same hss)
    simpa only [desugar] using this
  have h0 : Reach code sc σ s off := by rw [← hpc]; exact Reach.start hr
  cases top with
  | true =>
    cases until_ with
    | false =>
      -- DO WHILE c: label; cond; jif loop; body; jump off; label loop
      simp only [compileStmt, ↓reduceIte, Bool.false_eq_true] at hc
      have hlab : code[off]? = some (CInstr.label (labelName "do" p sfx), p) :=
        hc.append_left.append_left.append_left.append_left.head
      have hcc : CodeAt code (off + 1) (compileExpr c ++
          [(CInstr.jumpIfFalse (off + 1 + (compileExpr c).length + 1 + sizeStmt body + 1), p)]) := by
        have := hc.append_left.append_left
        rw [List.append_assoc] at this
        exact this.append_right
      have hcb : CodeAt code (off + 1 + (compileExpr c).length + 1)
          (compileStmt sfx (off + 1 + (compileExpr c).length + 1) body) := by
        have := hc.append_left.append_right
        simp only [List.length_append, List.length_singleton] at this
        exact this.at (by omega)
      have hjmp : code[off + 1 + (compileExpr c).length + 1 + sizeStmt body]? = some (CInstr.jump off, p) := by
        have := hc.append_right.head
        simp only [List.length_append, List.length_singleton, len_stmt] at this
        rw [← this]; congr 1; omega
      have hend : code[off + 1 + (compileExpr c).length + 1 + sizeStmt body + 1]? =
          some (CInstr.label (labelName "loop" p sfx), p) := by
        have := hc.append_right.tail.head
        simp only [List.length_append, List.length_singleton, len_stmt] at this
        rw [← this]; congr 1; omega
      simp only [desugar, AoR.Ref.exec, ↓reduceIte]
      generalize hec : AoR.Ref.evalCond s c = rv
      obtain ⟨cerr, ctrue, cfalse⟩ := (h0.label hlab).cond c _ p hcc hwc hnc rv hec
      cases rv with
      | error o => exact cerr o rfl _ _
      | ok bv =>
        cases bv with
        | false =>
          simp only [Bool.bne_false, Bool.false_eq_true, ↓reduceIte]
          have := (cfalse rfl).label hend
          refine Reach.finish ?_
          have e : off + sizeStmt (.doLoop c true false body p) =
              off + 1 + (compileExpr c).length + 1 + sizeStmt body + 1 + 1 := by
            simp only [sizeStmt, ↓reduceIte, Bool.false_eq_true]; omega
          rw [e]; exact this
        | true =>
          simp only [Bool.bne_false, ↓reduceIte]
          generalize hrb : AoR.Ref.exec fuel (desugar body) s = rb
          obtain ⟨s2, o1⟩ := rb
          obtain ⟨hn, hab⟩ := (ctrue rfl).stmt ih.self.stmt body sfx hcb hwb ha s2 o1 hrb
          cases o1 with
          | normal => exact ((hn rfl).jump hjmp).again (fun τ hp hr' hss => hloop s2 τ hp hr' hss)
          | halted => exact hab (by simp) _ _
          | error cd q => exact hab (by simp) _ _
          | inexact => exact hab (by simp) _ _
          | outOfFuel => exact hab (by simp) _ _
          | illFormed => exact hab (by simp) _ _
          | tooBig => exact hab (by simp) _ _
    | true =>
      -- DO UNTIL c: label; cond; jif do-body; jump loop; label do-body; body; jump off; label loop
      simp only [compileStmt, ↓reduceIte] at hc
      have hlab : code[off]? = some (CInstr.label (labelName "do" p sfx), p) :=
        hc.append_left.append_left.append_left.append_left.head
      have hj0 : code[off + 1 + (compileExpr c).length]? = some (CInstr.jumpIfFalse (off + 1 + (compileExpr c).length + 3 - 1), p) := by
        have := hc.append_left.append_left.append_right.head
        simp only [List.length_append, List.length_singleton] at this
        rw [← this]; congr 1; omega
      have hcc : CodeAt code (off + 1) (compileExpr c ++
          [(CInstr.jumpIfFalse (off + 1 + (compileExpr c).length + 3 - 1), p)]) := by
        have := hc.append_left.append_left.append_left.append_right
        simp only [List.length_singleton] at this
        exact codeAt_snoc this (by exact hj0)
      have hj1 : code[off + 1 + (compileExpr c).length + 1]? =
          some (CInstr.jump (off + 1 + (compileExpr c).length + 3 + sizeStmt body + 1), p) := by
        have := hc.append_left.append_left.append_right.tail.head
        simp only [List.length_append, List.length_singleton] at this
        rw [← this]; congr 1; omega
      have hl2 : code[off + 1 + (compileExpr c).length + 3 - 1]? = some (CInstr.label (labelName "do-body" p sfx), p) := by
        have := hc.append_left.append_left.append_right.tail.tail.head
        simp only [List.length_append, List.length_singleton] at this
        rw [← this]; congr 1; omega
      have hcb : CodeAt code (off + 1 + (compileExpr c).length + 3)
          (compileStmt sfx (off + 1 + (compileExpr c).length + 3) body) := by
        have := hc.append_left.append_right
        simp only [List.length_append, List.length_singleton, List.length_cons, List.length_nil] at this
        exact this.at (by omega)
      have hjmp : code[off + 1 + (compileExpr c).length + 3 + sizeStmt body]? = some (CInstr.jump off, p) := by
        have := hc.append_right.head
        simp only [List.length_append, List.length_singleton, List.length_cons, List.length_nil,
          len_stmt] at this
        rw [← this]; congr 1; omega
      have hend : code[off + 1 + (compileExpr c).length + 3 + sizeStmt body + 1]? =
          some (CInstr.label (labelName "loop" p sfx), p) := by
        have := hc.append_right.tail.head
        simp only [List.length_append, List.length_singleton, List.length_cons, List.length_nil,
          len_stmt] at this
        rw [← this]; congr 1; omega
      simp only [desugar, AoR.Ref.exec, ↓reduceIte]
      generalize hec : AoR.Ref.evalCond s c = rv
      obtain ⟨cerr, ctrue, cfalse⟩ := (h0.label hlab).cond c _ p hcc hwc hnc rv hec
      cases rv with
      | error o => exact cerr o rfl _ _
      | ok bv =>
        cases bv with
        | true =>
          simp only [bne_self_eq_false, Bool.false_eq_true, ↓reduceIte]
          have := ((ctrue rfl).jump hj1).label hend
          refine Reach.finish ?_
          have e : off + sizeStmt (.doLoop c true true body p) =
              off + 1 + (compileExpr c).length + 3 + sizeStmt body + 1 + 1 := by
            simp only [sizeStmt, ↓reduceIte]; omega
          rw [e]; exact this
        | false =>
          simp only [Bool.bne_true, Bool.not_false, ↓reduceIte]
          have hre0 := (cfalse rfl).label hl2
          have e0 : off + 1 + (compileExpr c).length + 3 - 1 + 1 = off + 1 + (compileExpr c).length + 3 := by omega
          rw [e0] at hre0
          generalize hrb : AoR.Ref.exec fuel (desugar body) s = rb
          obtain ⟨s2, o1⟩ := rb
          obtain ⟨hn, hab⟩ := hre0.stmt ih.self.stmt body sfx hcb hwb ha s2 o1 hrb
          cases o1 with
          | normal => exact ((hn rfl).jump hjmp).again (fun τ hp hr' hss => hloop s2 τ hp hr' hss)
          | halted => exact hab (by simp) _ _
          | error cd q => exact hab (by simp) _ _
          | inexact => exact hab (by simp) _ _
          | outOfFuel => exact hab (by simp) _ _
          | illFormed => exact hab (by simp) _ _
          | tooBig => exact hab (by simp) _ _
  | false =>
    -- test at the bottom: label; body; cond; …
    have hcb : CodeAt code (off + 1) (compileStmt sfx (off + 1) body) := by
      cases until_ <;> simp only [compileStmt, ↓reduceIte, Bool.false_eq_true] at hc
      · exact hc.append_left.append_left.append_left.append_right
      · exact hc.append_left.append_left.append_left.append_right
    have hlab : code[off]? = some (CInstr.label (labelName "do" p sfx), p) := by
      cases until_ <;> simp only [compileStmt, ↓reduceIte, Bool.false_eq_true] at hc
      · exact hc.append_left.append_left.append_left.append_left.head
      · exact hc.append_left.append_left.append_left.append_left.head
    have hce : CodeAt code (off + 1 + sizeStmt body) (compileExpr c) := by
      cases until_ <;> simp only [compileStmt, ↓reduceIte, Bool.false_eq_true] at hc
      · have := hc.append_left.append_left.append_right
        simp only [List.length_append, List.length_singleton, len_stmt] at this
        exact this.at (by omega)
      · have := hc.append_left.append_left.append_right
        simp only [List.length_append, List.length_singleton, len_stmt] at this
        exact this.at (by omega)
    simp only [desugar, AoR.Ref.exec, Bool.false_eq_true, ↓reduceIte]
    generalize hrb : AoR.Ref.exec fuel (desugar body) s = rb
    obtain ⟨s1, o1⟩ := rb
    obtain ⟨hn, hab⟩ := (h0.label hlab).stmt ih.self.stmt body sfx hcb hwb ha s1 o1 hrb
    cases o1 with
    | halted => exact hab (by simp) _ _
    | error cd q => exact hab (by simp) _ _
    | inexact => exact hab (by simp) _ _
    | outOfFuel => exact hab (by simp) _ _
    | illFormed => exact hab (by simp) _ _
    | tooBig => exact hab (by simp) _ _
    | normal =>
      have hre := hn rfl
      simp only
      generalize hec : AoR.Ref.evalCond s1 c = rv
      cases until_ with
      | false =>
        -- … jif loop; jump off; label loop
        simp only [compileStmt, ↓reduceIte, Bool.false_eq_true] at hc
        have hj0 : code[off + 1 + sizeStmt body + (compileExpr c).length]? =
            some (CInstr.jumpIfFalse (off + 1 + sizeStmt body + (compileExpr c).length + 2), p) := by
          have := hc.append_left.append_right.head
          simp only [List.length_append, List.length_singleton, len_stmt] at this
          rw [← this]; congr 1; omega
        have hjmp : code[off + 1 + sizeStmt body + (compileExpr c).length + 1]? = some (CInstr.jump off, p) := by
          have := hc.append_left.append_right.tail.head
          simp only [List.length_append, List.length_singleton, len_stmt] at this
          rw [← this]; congr 1; omega
        have hend : code[off + 1 + sizeStmt body + (compileExpr c).length + 2]? =
            some (CInstr.label (labelName "loop" p sfx), p) := by
          have := hc.append_right.head
          simp only [List.length_append, List.length_singleton, List.length_cons, List.length_nil,
            len_stmt] at this
          rw [← this]; congr 1; omega
        obtain ⟨cerr, ctrue, cfalse⟩ :=
          hre.cond c _ p (codeAt_snoc hce (by exact hj0)) hwc hnc rv hec
        cases rv with
        | error o => exact cerr o rfl _ _
        | ok bv =>
          cases bv with
          | false =>
            simp only [Bool.bne_false, Bool.false_eq_true, ↓reduceIte]
            have := (cfalse rfl).label hend
            refine Reach.finish ?_
            have e : off + sizeStmt (.doLoop c false false body p) =
                off + 1 + sizeStmt body + (compileExpr c).length + 2 + 1 := by
              simp only [sizeStmt, ↓reduceIte, Bool.false_eq_true]; omega
            rw [e]; exact this
          | true =>
            simp only [Bool.bne_false, ↓reduceIte]
            exact ((ctrue rfl).jump hjmp).again (fun τ hp hr' hss => hloop s1 τ hp hr' hss)
      | true =>
        -- … jif off; label loop
        simp only [compileStmt, ↓reduceIte, Bool.false_eq_true] at hc
        have hj0 : code[off + 1 + sizeStmt body + (compileExpr c).length]? = some (CInstr.jumpIfFalse off, p) := by
          have := hc.append_left.append_right.head
          simp only [List.length_append, List.length_singleton, len_stmt] at this
          rw [← this]; congr 1; omega
        have hend : code[off + 1 + sizeStmt body + (compileExpr c).length + 1]? =
            some (CInstr.label (labelName "loop" p sfx), p) := by
          have := hc.append_right.head
          simp only [List.length_append, List.length_singleton, List.length_cons, List.length_nil,
            len_stmt] at this
          rw [← this]; congr 1; omega
        obtain ⟨cerr, ctrue, cfalse⟩ :=
          hre.cond c _ p (codeAt_snoc hce (by exact hj0)) hwc hnc rv hec
        cases rv with
        | error o => exact cerr o rfl _ _
        | ok bv =>
          cases bv with
          | true =>
            simp only [bne_self_eq_false, Bool.false_eq_true, ↓reduceIte]
            have := (ctrue rfl).label hend
            refine Reach.finish ?_
            have e : off + sizeStmt (.doLoop c false true body p) =
                off + 1 + sizeStmt body + (compileExpr c).length + 1 + 1 := by
              simp only [sizeStmt, ↓reduceIte, Bool.false_eq_true]; omega
            rw [e]; exact this
          | false =>
            simp only [Bool.bne_true, Bool.not_false, ↓reduceIte]
            exact (cfalse rfl).again (fun τ hp hr' hss => hloop s1 τ hp hr' hss)

end RbThm.AoRSim
