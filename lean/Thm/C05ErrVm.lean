import Thm.ErrLSim
import Thm.ErrLProps
/-!
# C05 at VM level — ON ERROR / RESUME on the stacks of the VM model of the error layer

`Thm/ErrLProps.lean` states the ON ERROR / RESUME clauses of C05 over the reference semantics `ErrL.Ref` (no addresses, no
stacks); `Thm/ErrLDispatch.lean` states the dispatch and the three RESUME instructions over the VM model alone, for all
programs.  Here the two are joined through the simulation (`ErrLSim.compileStmt_correct`): the clauses are stated over the VM
model `ErrL.Vm` running the code, the statement-address table and the label-depth table of the generator model, for an
arbitrary consistent program context `C` (`Ctx.Ok`; for a program passing `progWfXB`: `progCtx prog`, `progCtx_ok'`), for a
**failing resume unit** `u = [ustart, unext)` at any FOR depth `d` / SELECT depth `e`, on top of any register / value / GOSUB
stacks (`UnitFails`: the step of `x` is the dispatch `Vm.raise` of the error `(c, p)` from the state `y` — `y` is `x` except
that a failing READ has consumed its item — at an address inside the unit; `y` is related to the reference state `s`).
`assign_unit_fails` shows that an assignment whose right-hand side fails is such a unit (the other constructs: the case
lemmas of `Thm/ErrLSim*.lean`).

* **`error_enters_handler_vm`** — under `ON ERROR GOTO h` (and no handler running) the very next state is at the address of
  `h`, ERR (`last_error_code`) = the code, `last_error_address` = the failing address, whose `find_current` is `ustart` and
  `find_next` is `unext`; the interrupted register frame is saved under a fresh one, the heights are recorded, the value stack
  is untouched; the state is related to `handlerStart s c` — the state `ErrLProps.handler_sees_err` starts the handler in.
* `handler_run_vm` — if the handler's run (the reference run of the whole program entered at `h`) ends with a RESUME statement,
  the VM stands at that `Resume` / `ResumeNext` / `ResumeLabel` instruction with `last_error_address` and the recorded heights
  untouched, and — **whatever loops / SELECTs the handler entered and did not leave** (`X`: their register frames, `Y`: their
  selectors) — the interrupted frame, register stack and value stack underneath.
* **`resume_vm`** — … ends with `RESUME`: the run continues at `ustart`, the first instruction of `u`;
  **`resume_next_vm`** — … with `RESUME NEXT`: at `unext`, the first instruction of the unit that follows `u` in the
  statement-address table; in both cases with exactly the register frame, register stack, value stack, var-path stack and GOSUB
  stack of the failing instruction, no handler running, variables and output as the handler left them.
* **`resume_label_vm`** — … with `RESUME L'`: the run continues at the `Label` of `L'` (a label at depth 0 / 0) with the stacks
  cut to the label's depths **relative to the innermost pending GOSUB**: the register stack is the failing state's minus the
  `d` frames of the FORs around `u` — its height is the one recorded at the innermost pending GOSUB plus `fd L'` (1 + `fd L'`
  frames counting the current one when none is pending) —, the value stack is cut to the height recorded there plus `sd L'`
  (`0 + sd L'` when none is pending), the GOSUB stack is kept.
* **`on_error_resume_next_skips_vm`** — under `ON ERROR RESUME NEXT` the very next state is at `unext`, everything else as
  in the failing state (ERR set).
* `unhandled_error_stops_vm` — with no handler mode the step is the BASIC error `(c, p)` (also inside a running handler).

Each with the matching equation of `ErrL.Ref.raise` (`ErrLProps`), so that the VM-level clause is the image of the
reference-level clause.  Non-vacuity: one evaluated program per clause at the end.
-/
namespace RbThm.C05ErrVm
set_option linter.unusedVariables false
set_option linter.unusedSimpArgs false
open RbModel RbModel.Num RbModel.ErrL RbModel.ErrL.Compile RbModel.ErrL.Vm
open RbModel.JmpL.Compile (CInstr Code Dp compileExprTo storeVar)
open RbModel.JmpL.Vm (Vm truncTop Regs)
open RbModel.Ast (Pos PrintItem CaseExpr)
open RbModel.Ref (St)
open RbModel.ErrL.Ref
open RbThm.ErrLLen
open RbThm.ErrLSim
open RbThm.ErrLProps (handlerStart)

/-- **a resume unit fails**: `[ustart, unext)` is a unit of the statement-address table; the step of `x` is the dispatch of the
error `(c, p)` from the state `y` (`Quiet x y`: same stacks and error registers) at an address inside the unit; `y` represents
the reference state `s` and its stacks are high enough for FOR depth `d`, SELECT depth `e`, `gd` pending GOSUBs (`vb`: the
part of the value stack that belongs to the callers).  Exactly the hypotheses of `ErrLSim.raise_correct`. -/
structure UnitFails (C : Ctx) (d e vb gd ustart unext : Nat) (x y : EVm) (s : ESt) (c : Nat) (p : Pos) : Prop where
  unit : MarksAt C.prog.marks [ustart] unext
  lo : ustart ≤ y.b.pc
  hi : y.b.pc < unext
  step : step C.prog x = Vm.raise C.prog y c p
  quiet : Quiet x y
  rel : ERel C.sl C.env s y
  inv : Inv C d e vb gd y

theorem UnitFails.notH {C : Ctx} {d e vb gd ustart unext : Nat} {x y : EVm} {s : ESt} {c : Nat} {p : Pos}
    (hf : UnitFails C d e vb gd ustart unext x y s c p) (hin : s.inH = false) : y.errAddr = none := by
  have h := hf.rel.inH
  rw [hin] at h
  cases hy : y.errAddr with
  | none => rfl
  | some a => rw [hy] at h; cases h

/-! ### ON ERROR GOTO: the dispatch -/

/-- **after an error in unit `u` under `ON ERROR GOTO h` the VM is at `h`'s address with ERR set** — one step; the interrupted
frame is saved under a fresh one, the heights of both stacks are recorded, the value stack (operands the unit had pushed
included) is untouched, and the two finder answers of the recorded error address are the unit's first instruction and the
entry that follows it.  `ERel … (handlerStart s c) τ`: the handler starts in the state of the failure flagged "inside a
handler" with ERR = `c` (`τ.errCode = some c` is its `err` field spelled out). -/
theorem error_enters_handler_vm (C : Ctx) (hC : C.Ok) {d e vb gd ustart unext : Nat} {x y : EVm} {s : ESt} {c : Nat} {p : Pos}
    (hf : UnitFails C d e vb gd ustart unext x y s c p) (L : Nat) (hm : s.mode = .goto L) (hin : s.inH = false) :
    ∃ τ, step C.prog x = .next τ ∧ τ.b.pc = C.env.addr L ∧ τ.errCode = some c ∧ τ.errAddr = some y.b.pc ∧
      findCurrent C.prog.marks y.b.pc = some ustart ∧ findNext C.prog.marks y.b.pc = some unext ∧
      τ.b.regs = Regs.new ∧ τ.b.regStack = y.b.regs :: y.b.regStack ∧
      τ.errMarks = (1 + y.b.regStack.length, y.b.vals.length) ∧
      τ.b.vals = y.b.vals ∧ τ.b.paths = y.b.paths ∧ τ.b.gosubs = y.b.gosubs ∧
      ERel C.sl C.env (handlerStart s c) τ := by
  obtain ⟨hcur, hnext⟩ := unit_find hC.sorted hf.unit hf.lo hf.hi
  have hh := hf.rel.handler
  simp only [hm, hOf] at hh
  refine ⟨dispatchTo y c (C.env.addr L), by rw [hf.step, raise_address hh], rfl, rfl, rfl, hcur, hnext, rfl, rfl, rfl, rfl, rfl,
    rfl, ?_⟩
  exact { base := hf.rel.base.same rfl rfl rfl rfl rfl,
          handler := by show y.handler = hOf C.env s.mode; rw [hm]; exact hh,
          hfd := hf.rel.hfd, inH := rfl, err := fun _ => rfl }

/-- the reference side of the same event (`ErrLProps.handler_sees_err`): the unit's `raise` is the run of the whole program
entered at the handler's label from `handlerStart s c` -/
theorem error_enters_handler_ref (C : Ctx) (fuel gd : Nat) (s : ESt) (c : Nat) (p : Pos) (L : Nat) (hm : s.mode = .goto L)
    (hin : s.inH = false) :
    Ref.raise (fuel + 1) C.P gd c p s =
      ((exec fuel C.P gd C.P (.seek L) (handlerStart s c)).1,
        dispOfHandler (exec fuel C.P gd C.P (.seek L) (handlerStart s c)).2) :=
  (RbThm.ErrLProps.handler_sees_err fuel C.P gd c p s L hm hin).1

/-! ### the handler's run up to its RESUME statement -/

/-- **the handler runs to its RESUME instruction on top of the interrupted stacks.**  The unit failed under `ON ERROR GOTO L`
and the handler's run — the reference run of the whole program entered at `L` in the state `handlerStart s c` — ends with a
RESUME statement (`resumed k`), executed anywhere: at the handler's top level or inside any nest of FOR / SELECT / WHILE / IF
the handler entered, after GOSUB … RETURN pairs of its own.  Then the VM run from `x` arrives at that `Resume` / `ResumeNext` /
`ResumeLabel` instruction (not yet executed) with `last_error_address` = the failing address and the heights recorded at the
dispatch, the var-path and GOSUB stacks of the failing state, and `regStack = X ++ y.regs :: y.regStack`, `vals = Y ++ y.vals`:
**whatever frames `X` and selectors `Y` the handler's open loops / SELECTs left on top, the interrupted register frame, the
register stack and the value stack of the failing instruction lie underneath.** -/
theorem handler_run_vm (C : Ctx) (hC : C.Ok) (fuel : Nat) {d e vb gd ustart unext : Nat} {x y : EVm} {s : ESt} {c : Nat}
    {p : Pos} (hf : UnitFails C d e vb gd ustart unext x y s c p) (L : Nat) (hm : s.mode = .goto L) (hin : s.inH = false)
    (s' : ESt) (k : Resumed) (hH : exec fuel C.P gd C.P (.seek L) (handlerStart s c) = (s', .resumed k)) :
    ∃ τ q X Y, Steps C.prog x τ ∧ C.prog.code[τ.b.pc]? = some (resInstr C.env k, q) ∧ ERelH C.sl C.env s' τ ∧
      s'.inH = false ∧ s'.err = none ∧ τ.errAddr = some y.b.pc ∧
      τ.errMarks = (1 + y.b.regStack.length, y.b.vals.length) ∧
      τ.b.regStack = X ++ y.b.regs :: y.b.regStack ∧ τ.b.vals = Y ++ y.b.vals ∧
      τ.b.paths = y.b.paths ∧ τ.b.gosubs = y.b.gosubs ∧
      (∀ L', k = .label L' → C.rl = true ∧ L' ∈ C.B.labels ∧ C.env.dp.fd L' = 0 ∧ C.env.dp.sd L' = 0) := by
  obtain ⟨τ0, s1, hpc0, hc0, he0, hcur, hnext, _, q1, hm0, q2, q3, q4, hrh⟩ := error_enters_handler_vm C hC hf L hm hin
  obtain ⟨hfd, hsd⟩ := hf.rel.hfd L hm
  have hL : L ∈ C.B.labels := hC.gosubOk L hfd
  have hih : Inv C 0 0 0 gd τ0 :=
    ⟨Nat.zero_le _, Nat.zero_le _, by rw [q4]; exact hf.inv.gs, fun _ hn => by rw [he0] at hn; cases hn⟩
  have hspec := compileStmt_correct C hC fuel C.B "" 0 0 C.base (C.base + sizeStmt C.env.dp 0 0 C.B) 0 gd (.seek L) τ0
    (handlerStart s c) hC.hcode hC.lab hC.wf hC.hmarks (Nat.le_refl _) ⟨hL, hpc0⟩ hrh hih
  have hP : desugar C.B = C.P := rfl
  rw [hP, hH] at hspec
  obtain ⟨τ, q, st, hcode, hrτ, b1, b2, b3, b4, b5, b6, ⟨X, bX⟩, ⟨Y, bY⟩, b7⟩ := hspec
  refine ⟨τ, q, X, Y, Steps.cons s1 st, hcode, hrτ, b1, b2, by rw [b4.addr, he0], by rw [b4.marks b3, hm0], ?_, ?_,
    b5.trans q3, b6.trans q4, b7⟩
  · rw [bX, q1]; rfl
  · rw [bY, q2]; rfl

/-! ### RESUME and RESUME NEXT -/

/-- **`RESUME` continues at the first instruction of the unit that failed, `RESUME NEXT` … — see `resume_next_vm` — with the
register frame, the register stack, the value stack, the var-path stack and the GOSUB stack of the failing instruction**,
whatever loops / SELECTs the handler entered and left by the RESUME (`handler_run_vm`: their frames and selectors are cut by
`leaveHandler`); no handler is running any more, ERR is cleared, variables and output are the handler's (`ERel … s' τ'`).
Reference side: `Ref.raise` answers `again` in the state `s'` the handler left (`ErrLProps.raise_resumed_again`): the failing
statement is executed again (`ErrLProps.resume_reexecutes_statement`). -/
theorem resume_vm (C : Ctx) (hC : C.Ok) (fuel : Nat) {d e vb gd ustart unext : Nat} {x y : EVm} {s : ESt} {c : Nat}
    {p : Pos} (hf : UnitFails C d e vb gd ustart unext x y s c p) (L : Nat) (hm : s.mode = .goto L) (hin : s.inH = false)
    (s' : ESt) (hH : exec fuel C.P gd C.P (.seek L) (handlerStart s c) = (s', .resumed .again)) :
    Ref.raise (fuel + 1) C.P gd c p s = (s', .again) ∧
    ∃ τ', Steps C.prog x τ' ∧ τ'.b.pc = ustart ∧ τ'.b.regs = y.b.regs ∧ τ'.b.regStack = y.b.regStack ∧
      τ'.b.vals = y.b.vals ∧ τ'.b.paths = y.b.paths ∧ τ'.b.gosubs = y.b.gosubs ∧ τ'.errAddr = none ∧ τ'.errCode = none ∧
      ERel C.sl C.env s' τ' := by
  refine ⟨RbThm.ErrLProps.raise_resumed_again fuel C.P gd c p s s' L hm hin hH, ?_⟩
  obtain ⟨hcur, _⟩ := unit_find hC.sorted hf.unit hf.lo hf.hi
  obtain ⟨τ, q, X, Y, st, hcode, hrτ, b1, b2, hτe, hτm, hX, hY, b5, b6, _⟩ := handler_run_vm C hC fuel hf L hm hin s' .again hH
  have hrs : τ.b.regs :: τ.b.regStack = (τ.b.regs :: X) ++ y.b.regs :: y.b.regStack := by rw [hX]; rfl
  have s2 : step C.prog τ = .next (resumeTo τ ustart y.b.regs y.b.regStack y.b.vals) := by
    simp only [resInstr] at hcode
    exact resume_step hcode hτe hcur hτm hrs hY
  refine ⟨_, st.trans (Steps.one s2), rfl, rfl, rfl, rfl, b5, b6, rfl, rfl, ?_⟩
  exact { base := hrτ.base.same rfl rfl rfl rfl rfl, handler := hrτ.handler, hfd := hrτ.hfd, inH := by rw [b1]; rfl,
          err := fun h => by rw [b1] at h; cases h }

/-- **`RESUME NEXT` continues at the first instruction of the unit that follows the failing unit** in the statement-address
table (`unext`: for a simple statement the next statement; for the headers what `ErrL.Ref` calls `next(u)`, `ErrLLen.marks_*`),
with the register frame and all four stacks of the failing instruction.  Reference side: `Ref.raise` answers `next`
(`ErrLProps.raise_resumed_next`; a simple statement then ends normally: `resume_next_continues_after`). -/
theorem resume_next_vm (C : Ctx) (hC : C.Ok) (fuel : Nat) {d e vb gd ustart unext : Nat} {x y : EVm} {s : ESt} {c : Nat}
    {p : Pos} (hf : UnitFails C d e vb gd ustart unext x y s c p) (L : Nat) (hm : s.mode = .goto L) (hin : s.inH = false)
    (s' : ESt) (hH : exec fuel C.P gd C.P (.seek L) (handlerStart s c) = (s', .resumed .next)) :
    Ref.raise (fuel + 1) C.P gd c p s = (s', .next) ∧
    ∃ τ', Steps C.prog x τ' ∧ τ'.b.pc = unext ∧ τ'.b.regs = y.b.regs ∧ τ'.b.regStack = y.b.regStack ∧
      τ'.b.vals = y.b.vals ∧ τ'.b.paths = y.b.paths ∧ τ'.b.gosubs = y.b.gosubs ∧ τ'.errAddr = none ∧ τ'.errCode = none ∧
      ERel C.sl C.env s' τ' := by
  refine ⟨RbThm.ErrLProps.raise_resumed_next fuel C.P gd c p s s' L hm hin hH, ?_⟩
  obtain ⟨_, hnext⟩ := unit_find hC.sorted hf.unit hf.lo hf.hi
  obtain ⟨τ, q, X, Y, st, hcode, hrτ, b1, b2, hτe, hτm, hX, hY, b5, b6, _⟩ := handler_run_vm C hC fuel hf L hm hin s' .next hH
  have hrs : τ.b.regs :: τ.b.regStack = (τ.b.regs :: X) ++ y.b.regs :: y.b.regStack := by rw [hX]; rfl
  have s2 : step C.prog τ = .next (resumeTo τ unext y.b.regs y.b.regStack y.b.vals) := by
    simp only [resInstr] at hcode
    exact resumeNext_step hcode hτe hnext hτm hrs hY
  refine ⟨_, st.trans (Steps.one s2), rfl, rfl, rfl, rfl, b5, b6, rfl, rfl, ?_⟩
  exact { base := hrτ.base.same rfl rfl rfl rfl rfl, handler := hrτ.handler, hfd := hrτ.hfd, inH := by rw [b1]; rfl,
          err := fun h => by rw [b1] at h; cases h }

/-! ### RESUME label -/

/-- **`RESUME L'` continues at the label with the stacks cut to the label's depths relative to the innermost pending GOSUB.**
`L'` is a label of the program at FOR / SELECT depth 0 / 0 (the premise of a `RESUME label` statement).  The run arrives at
the `Label` instruction of `L'`; the register stack is the failing state's minus the `d` frames of the FOR loops around the
failing unit (entered since the innermost pending GOSUB) — so its height, current frame counted, is the height recorded at that
GOSUB plus `fd L'` (`rhTop`: 1 when no GOSUB is pending) —; the value stack is `Y ++ y.vals` (`Y`: what the handler's open
SELECTs left) cut to the height recorded at that GOSUB plus `sd L'` (`vhTop`: 0 when none is pending), and the callers' part
`vb` of it survives; the GOSUB stack and the var-path stack are the failing state's: a later RETURN answers the same GOSUB.
Reference side: the unit answers `jump L'` (`ErrLProps.raise_resumed_label`), the loops between `u` and the label are left
(`resume_label_leaves_loops`). -/
theorem resume_label_vm (C : Ctx) (hC : C.Ok) (fuel : Nat) {d e vb gd ustart unext : Nat} {x y : EVm} {s : ESt} {c : Nat}
    {p : Pos} (hf : UnitFails C d e vb gd ustart unext x y s c p) (L : Nat) (hm : s.mode = .goto L) (hin : s.inH = false)
    (s' : ESt) (L' : Nat) (hH : exec fuel C.P gd C.P (.seek L) (handlerStart s c) = (s', .resumed (.label L'))) :
    Ref.raise (fuel + 1) C.P gd c p s = (s', .out (.jump L')) ∧ C.env.dp.fd L' = 0 ∧ C.env.dp.sd L' = 0 ∧
    ∃ τ' Y, Steps C.prog x τ' ∧ τ'.b.pc = C.env.addr L' ∧
      τ'.b.regStack = y.b.regStack.drop d ∧ τ'.b.regStack.length + 1 = rhTop y.b.gosubs + C.env.dp.fd L' ∧
      τ'.b.vals = truncTop (vhTop y.b.gosubs + C.env.dp.sd L') (Y ++ y.b.vals) ∧ vb + C.env.dp.sd L' ≤ τ'.b.vals.length ∧
      τ'.b.paths = y.b.paths ∧ τ'.b.gosubs = y.b.gosubs ∧ τ'.errAddr = none ∧ τ'.errCode = none ∧
      ERel C.sl C.env s' τ' := by
  obtain ⟨τ, q, X, Y, st, hcode, hrτ, b1, b2, hτe, hτm, hX, hY, b5, b6, b7⟩ :=
    handler_run_vm C hC fuel hf L hm hin s' (.label L') hH
  obtain ⟨hrl, hL', hfd', hsd'⟩ := b7 L' rfl
  refine ⟨RbThm.ErrLProps.raise_resumed_label fuel C.P gd c p s s' L L' hm hin hH, hfd', hsd', ?_⟩
  have hea := hf.notH hin
  obtain ⟨hvb, hlen⟩ := hf.inv.cut hrl hea
  have hdep := hC.depthsOk L' hL'
  rw [hfd', hsd'] at hdep
  have hrs : τ.b.regs :: τ.b.regStack = (τ.b.regs :: X) ++ y.b.regs :: y.b.regStack := by rw [hX]; rfl
  have hsplit : τ.b.regs :: τ.b.regStack =
      ((τ.b.regs :: X) ++ y.b.regs :: y.b.regStack.take d) ++ y.b.regStack.drop d := by
    rw [hrs]; simp only [List.append_assoc, List.cons_append, List.take_append_drop]
  have hrh : rhTop τ.b.gosubs + 0 = (y.b.regStack.drop d).length + 1 := by
    rw [b6, List.length_drop]; have := hf.inv.hd; omega
  obtain ⟨r, hr1⟩ := truncTop_keep ((τ.b.regs :: X) ++ y.b.regs :: y.b.regStack.take d) (y.b.regStack.drop d) (by simp)
  rw [← hsplit, ← hrh] at hr1
  have s2 : step C.prog τ = .next (resumeLabelTo τ (C.env.addr L') 0 r (y.b.regStack.drop d)) := by
    simp only [resInstr] at hcode
    exact resumeLabel_step hcode hτe hdep hr1
  refine ⟨_, Y, st.trans (Steps.one s2), rfl, rfl, ?_, ?_, ?_, b5, b6, rfl, rfl, ?_⟩
  · show (y.b.regStack.drop d).length + 1 = rhTop y.b.gosubs + C.env.dp.fd L'
    rw [hfd', List.length_drop]; have := hf.inv.hd; omega
  · show truncTop (vhTop τ.b.gosubs + 0) τ.b.vals = truncTop (vhTop y.b.gosubs + C.env.dp.sd L') (Y ++ y.b.vals)
    rw [b6, hY, hsd']
  · show vb + C.env.dp.sd L' ≤ (truncTop (vhTop τ.b.gosubs + 0) τ.b.vals).length
    rw [hsd', truncTop_length, b6, hY, List.length_append]
    have := hf.inv.he
    omega
  · exact { base := hrτ.base.same rfl rfl rfl rfl rfl, handler := hrτ.handler, hfd := hrτ.hfd, inH := by rw [b1]; rfl,
            err := fun h => by rw [b1] at h; cases h }

/-! ### ON ERROR RESUME NEXT, no handler -/

/-- **`ON ERROR RESUME NEXT` skips the failing unit**: one step, to the first instruction of the unit that follows; registers,
stacks, variables and output as in the failing state, ERR = the code, no handler runs.  Reference side: `Ref.raise` answers
`next` in the unchanged state (`ErrLProps.on_error_resume_next_skips`). -/
theorem on_error_resume_next_skips_vm (C : Ctx) (hC : C.Ok) (fuel : Nat) {d e vb gd ustart unext : Nat} {x y : EVm} {s : ESt}
    {c : Nat} {p : Pos} (hf : UnitFails C d e vb gd ustart unext x y s c p) (hm : s.mode = .resumeNext)
    (hin : s.inH = false) :
    Ref.raise (fuel + 1) C.P gd c p s = (s, .next) ∧
    ∃ τ, step C.prog x = .next τ ∧ τ.b.pc = unext ∧ τ.b.regs = y.b.regs ∧ τ.b.regStack = y.b.regStack ∧
      τ.b.vals = y.b.vals ∧ τ.b.paths = y.b.paths ∧ τ.b.gosubs = y.b.gosubs ∧ τ.errAddr = none ∧ τ.errCode = some c ∧
      ERel C.sl C.env s τ := by
  obtain ⟨_, hnext⟩ := unit_find hC.sorted hf.unit hf.lo hf.hi
  have hh := hf.rel.handler
  simp only [hm, hOf] at hh
  have hea := hf.notH hin
  refine ⟨by simp only [Ref.raise, hm, hin]; rfl, skipTo y c unext, by rw [hf.step, raise_next hh hnext], rfl, rfl, rfl, rfl, rfl,
    rfl, hea, rfl, ?_⟩
  exact { base := hf.rel.base.setPc unext, handler := by rw [hm]; exact hh, hfd := hf.rel.hfd,
          inH := by rw [hin]; show false = y.errAddr.isSome; rw [hea]; rfl,
          err := fun h => by rw [hin] at h; cases h }

/-- **with no handler mode the error is the outcome** (never set, or cleared by ON ERROR GOTO 0 — also inside a running
handler): the step of `x` is the BASIC error `(c, p)`, with the output of the reference state.  Reference side:
`ErrLProps.raise_unhandled`. -/
theorem unhandled_error_stops_vm (C : Ctx) (fuel : Nat) {d e vb gd ustart unext : Nat} {x y : EVm} {s : ESt}
    {c : Nat} {p : Pos} (hf : UnitFails C d e vb gd ustart unext x y s c p) (hm : s.mode = .none) :
    Ref.raise (fuel + 1) C.P gd c p s = (s, .out (.error c p)) ∧
    step C.prog x = .error c p { y with errCode := some c } ∧ y.b.out = s.st.out := by
  have hh := hf.rel.handler
  simp only [hm, hOf] at hh
  exact ⟨RbThm.ErrLProps.raise_unhandled fuel C.P gd c p s hm, by rw [hf.step, raise_none hh], hf.rel.base.out⟩

/-! ### an assignment whose right-hand side fails is a failing unit -/

/-- the code of `x = ex` placed at `off` (FOR depth `d`, SELECT depth `e`, followed in the statement-address table by `nx`),
entered from its first instruction in a state `σ` related to `s`, where the right-hand side (or its conversion to the type of
`x`) fails with `(c, q)`: the VM run reaches a state `y` whose step is the dispatch of `(c, q)` from `y` itself, inside the
unit `[off, nx)`; `y` differs from `σ` in the program counter, the scratch registers and the operands pushed on the value
stack only. -/
theorem assign_unit_fails (C : Ctx) (hC : C.Ok) (x : Nat) (t : Ty) (ex : Ast.Expr) (p : Pos) (sfx : String)
    (d e off nx vb gd : Nat) (σ : EVm) (s : ESt)
    (hc : CodeAt C.prog.code off (compileStmt C.env sfx d e off (.assign x t ex p)))
    (hw : Wf C.sl C.env.dp C.rl d e (.assign x t ex p)) (hm : MarksAt C.prog.marks [off] nx)
    (hnx : off + sizeStmt C.env.dp d e (.assign x t ex p) ≤ nx) (hpc : σ.b.pc = off) (hr : ERel C.sl C.env s σ)
    (hi : Inv C d e vb gd σ) {c : Nat} {q : Pos} (hev : RbModel.Ref.evalTo s.st.env ex t = .err c q) :
    ∃ y, Steps C.prog σ y ∧ UnitFails C d e vb gd off nx y y s c q ∧ y.b.regStack = σ.b.regStack ∧
      (∃ X, y.b.vals = X ++ σ.b.vals) ∧ y.b.paths = σ.b.paths ∧ y.b.gosubs = σ.b.gosubs ∧ y.handler = σ.handler ∧
      y.errAddr = σ.errAddr := by
  simp only [compileStmt] at hc
  obtain ⟨hx, hse, hwt⟩ := hw
  have hnr := stmt_assign_noread x t ex p
  have hcp : RbThm.JmpLSim.CodeAt (pad off (compileExprTo ex t ++ storeVar x p)) off (compileExprTo ex t ++ storeVar x p) :=
    codeAt_pad off _
  have hsl : RbThm.C01Sim.SlotsBelow σ.b.env.length ex := by rw [hr.base.len]; exact hse
  have henv : σ.b.env = s.st.env := hr.base.env
  have hf := exprTo_fails _ ex t off σ.b hcp.append_left hpc hsl (by rw [henv]; exact hev)
  obtain ⟨υ, st, hs, hfa⟩ := hf
  obtain ⟨hst, hlo, hhi, hstep⟩ := lift_fails' hC.pok hc hnr st hs σ rfl
  refine ⟨{ σ with b := υ }, hst, ?_, hfa.regStack, hfa.vals, hfa.paths, hfa.gosubs, rfl, rfl⟩
  refine ⟨hm, hlo, ?_, hstep, Quiet.refl _, hfa.erel hr, hfa.inv hi⟩
  simp only [sizeStmt] at hnx
  simp only [List.length_append, storeVar, List.length_cons, List.length_nil] at hhi
  show υ.pc < nx
  omega

/-! ### non-vacuity: one evaluated program per clause

```
1  ON ERROR GOTO H                      ' slots: Z% = 0, A% = 1, I% = 2;  labels: H = 0, Fin = 1
2  A% = 10 MOD Z%                       ' the unit [1, 11): Division by zero (11) at 2:9
3  Fin: PRINT A%                        ' Fin at address 11
4  END
5  H:                                   ' at address 21
6  FOR I% = 1 TO 3                      ' the handler enters a FOR loop …
7    Z% = 1
8    <r>                                ' … and leaves it by RESUME | RESUME NEXT | RESUME Fin from inside the body
9  NEXT
```
The run is started at the assignment (address 1) on top of a value stack that already holds an operand (`.int 5`), with the
handler register as line 1 leaves it. -/

section Examples

def tenModZ : Ast.Expr := .bin .modulo (.lit (.int 10) ⟨2, 6⟩) (.var 0 .int ⟨2, 13⟩) .int ⟨2, 9⟩

def demo (r : SStmt) : SProgram :=
  ⟨[.int, .int, .int],
   .seq (.onErrorGoto 0 ⟨1, 1⟩)
   (.seq (.assign 1 .int tenModZ ⟨2, 1⟩)
   (.seq (.label 1 "Fin" ⟨3, 1⟩)
   (.seq (.print [.expr (.var 1 .int ⟨3, 12⟩)] ⟨3, 6⟩)
   (.seq (.end_ ⟨4, 1⟩)
   (.seq (.label 0 "H" ⟨5, 1⟩)
   (.seq (.forLoop 2 .int (.lit (.int 1) ⟨6, 10⟩) (.lit (.int 3) ⟨6, 15⟩) none
      (.seq (.assign 0 .int (.lit (.int 1) ⟨7, 8⟩) ⟨7, 3⟩) (.seq r .skip)) ⟨6, 1⟩) .skip))))))⟩

/-- the VM state at the assignment: handler register `h`, value stack `V`, everything else initial -/
def σ0 (h : Ctl.Handler) (V : List Val) : EVm :=
  { EVm.init [.int, .int, .int] with handler := h, b := { (EVm.init [.int, .int, .int]).b with pc := 1, vals := V } }

/-- the reference state there: handler mode `md`, everything else initial -/
def s0 (r : SStmt) (md : HMode) : ESt := { startSt (demo r) with mode := md }

theorem codeAt_of_drop {code frag : ECode} {off : Nat} (h : (code.drop off).take frag.length = frag) :
    CodeAt code off frag := by
  intro i hi
  have h1 : frag[i]? = ((code.drop off).take frag.length)[i]? := by rw [h]
  rw [h1, List.getElem?_take]
  simp [hi]

/-- what has to be evaluated per program: the premise, the placement of the assignment's code, the unit in the
statement-address table, the handler label's address and depths -/
structure Facts (r : SStmt) : Prop where
  wf : progWfXB (demo r) = true
  code : ((compile (demo r)).drop 1).take
      (compileStmt (progCtx (demo r)).env "" 0 0 1 (.assign 1 .int tenModZ ⟨2, 1⟩)).length =
    compileStmt (progCtx (demo r)).env "" 0 0 1 (.assign 1 .int tenModZ ⟨2, 1⟩)
  marks : ∃ post, (Prog.ofProgram (demo r)).marks = [0] ++ [1] ++ 11 :: post
  addrH : (progCtx (demo r)).env.addr 0 = 21
  depthH : (progCtx (demo r)).env.dp.fd 0 = 0 ∧ (progCtx (demo r)).env.dp.sd 0 = 0
  size : 1 + sizeStmt (progCtx (demo r)).env.dp 0 0 (.assign 1 .int tenModZ ⟨2, 1⟩) ≤ 11

theorem facts_resume : Facts (.resume ⟨8, 3⟩) :=
  ⟨by decide +kernel, by decide +kernel, ⟨[12, 20, 21, 22, 30, 40, 43, 44, 45, 55], by decide +kernel⟩, by decide +kernel,
    by decide +kernel, by decide +kernel⟩
theorem facts_resumeNext : Facts (.resumeNext ⟨8, 3⟩) :=
  ⟨by decide +kernel, by decide +kernel, ⟨[12, 20, 21, 22, 30, 40, 43, 44, 45, 55], by decide +kernel⟩, by decide +kernel,
    by decide +kernel, by decide +kernel⟩
theorem facts_resumeLabel : Facts (.resumeLabel 1 ⟨8, 3⟩) :=
  ⟨by decide +kernel, by decide +kernel, ⟨[12, 20, 21, 22, 30, 40, 43, 44, 45, 55], by decide +kernel⟩, by decide +kernel,
    by decide +kernel, by decide +kernel⟩

theorem tenModZ_wf : RbThm.C01Sim.SlotsBelow 3 tenModZ ∧ RbThm.C01Sim.ExprWt [.int, .int, .int] tenModZ :=
  ⟨⟨trivial, (by show 0 < 3; omega)⟩, trivial, rfl, .inr (by decide +kernel)⟩

theorem tenModZ_fails :
    RbModel.Ref.evalTo ([Ty.int, .int, .int].map RbModel.Ref.zeroOf) tenModZ .int = .err 11 ⟨2, 9⟩ := rfl

theorem ctx_ok {r : SStmt} (f : Facts r) : (progCtx (demo r)).Ok := progCtx_ok' _ (progWfB_sound _ f.wf)

/-- the two start states are related, whatever the handler mode -/
theorem rel0 {r : SStmt} (f : Facts r) (md : HMode) (h : Ctl.Handler) (V : List Val)
    (hh : h = hOf (progCtx (demo r)).env md) (hmd : ∀ L, md = .goto L → L = 0) :
    ERel (progCtx (demo r)).sl (progCtx (demo r)).env (s0 r md) (σ0 h V) :=
  { base := ⟨rfl, RbThm.JmpLSim.typed_init _, rfl, rfl, rfl, rfl⟩,
    handler := hh,
    hfd := fun L hL => by
      have : L = 0 := hmd L hL
      subst this; exact f.depthH,
    inH := rfl, err := fun h => by cases h }

/-- **the assignment of line 2 is a failing unit** `[1, 11)` with Division by zero at 2:9, from the start state on top of any
value stack `V`, under any handler mode -/
theorem unit0 {r : SStmt} (f : Facts r) (md : HMode) (h : Ctl.Handler) (V : List Val)
    (hh : h = hOf (progCtx (demo r)).env md) (hmd : ∀ L, md = .goto L → L = 0) :
    ∃ y, Steps (progCtx (demo r)).prog (σ0 h V) y ∧ UnitFails (progCtx (demo r)) 0 0 0 0 1 11 y y (s0 r md) 11 ⟨2, 9⟩ ∧
      y.b.regStack = [] ∧ (∃ X, y.b.vals = X ++ V) ∧ y.b.gosubs = [] := by
  obtain ⟨post, hpost⟩ := f.marks
  obtain ⟨y, st, hf, h1, h2, _, h4, _, _⟩ :=
    assign_unit_fails (progCtx (demo r)) (ctx_ok f) 1 .int tenModZ ⟨2, 1⟩ "" 0 0 1 11 0 0 (σ0 h V) (s0 r md)
      (codeAt_of_drop f.code) ⟨rfl, tenModZ_wf.1, tenModZ_wf.2⟩ ⟨[0], post, hpost⟩ f.size rfl (rel0 f md h V hh hmd)
      ⟨Nat.zero_le _, Nat.zero_le _, rfl, fun _ _ => ⟨Nat.zero_le _, rfl⟩⟩ (c := 11) (q := ⟨2, 9⟩) tenModZ_fails
  exact ⟨y, st, hf, h1, h2, h4⟩

/-- **`error_enters_handler_vm`**: after the division by zero the VM is at `H` (address 21) with ERR = 11, the interrupted
frame saved, the operand `.int 5` (under whatever the failing expression pushed) still on the value stack -/
example : ∃ y τ, Steps (Prog.ofProgram (demo (.resume ⟨8, 3⟩))) (σ0 (.address 21) [.int 5]) y ∧
    step (Prog.ofProgram (demo (.resume ⟨8, 3⟩))) y = .next τ ∧ τ.b.pc = 21 ∧ τ.errCode = some 11 ∧
    τ.b.regStack = [y.b.regs] ∧ ∃ X, τ.b.vals = X ++ [.int 5] := by
  have f := facts_resume
  obtain ⟨y, st, hf, h1, ⟨X, h2⟩, _⟩ := unit0 f (.goto 0) (.address 21) [.int 5] (by rw [hOf, f.addrH])
    (fun L h => by cases h; rfl)
  obtain ⟨τ, s1, hpc, hc, _, _, _, _, hrs, _, hv, _⟩ := error_enters_handler_vm _ (ctx_ok f) hf 0 rfl rfl
  exact ⟨y, τ, st, s1, by rw [hpc, f.addrH], hc, by rw [hrs, h1], X, by rw [hv, h2]⟩

/-- **`resume_vm`**: the handler (which is inside its FOR loop when it executes RESUME: `I% = 1`, a frame of its own on the
register stack) sets `Z% = 1`; the run continues at address 1 — the first instruction of line 2 — with an empty register
stack and the operand `.int 5` under what the failing expression had pushed -/
example : ∃ τ', Steps (Prog.ofProgram (demo (.resume ⟨8, 3⟩))) (σ0 (.address 21) [.int 5]) τ' ∧ τ'.b.pc = 1 ∧
    τ'.b.regStack = [] ∧ (∃ X, τ'.b.vals = X ++ [.int 5]) ∧ τ'.errAddr = none ∧ τ'.b.env = [.int 1, .int 0, .int 1] := by
  have f := facts_resume
  obtain ⟨y, st, hf, h1, ⟨X, h2⟩, _⟩ := unit0 f (.goto 0) (.address 21) [.int 5] (by rw [hOf, f.addrH])
    (fun L h => by cases h; rfl)
  obtain ⟨_, τ', st', hpc, _, hrs, hv, _, _, hea, _, hrel⟩ := resume_vm _ (ctx_ok f) 30 hf 0 rfl rfl
    (exec 30 (progCtx (demo (.resume ⟨8, 3⟩))).P 0 (progCtx (demo (.resume ⟨8, 3⟩))).P (.seek 0)
      (handlerStart (s0 (.resume ⟨8, 3⟩) (.goto 0)) 11)).1
    (Prod.ext rfl (by decide +kernel))
  refine ⟨τ', st.trans st', hpc, by rw [hrs, h1], ⟨X, by rw [hv, h2]⟩, hea, ?_⟩
  rw [hrel.base.env]
  decide +kernel

/-- **`resume_next_vm`**: the run continues at address 11 — the first instruction of line 3, the unit that follows — with the
same stacks; `A%` keeps its old value -/
example : ∃ τ', Steps (Prog.ofProgram (demo (.resumeNext ⟨8, 3⟩))) (σ0 (.address 21) [.int 5]) τ' ∧ τ'.b.pc = 11 ∧
    τ'.b.regStack = [] ∧ (∃ X, τ'.b.vals = X ++ [.int 5]) ∧ τ'.errAddr = none ∧ τ'.b.env = [.int 1, .int 0, .int 1] := by
  have f := facts_resumeNext
  obtain ⟨y, st, hf, h1, ⟨X, h2⟩, _⟩ := unit0 f (.goto 0) (.address 21) [.int 5] (by rw [hOf, f.addrH])
    (fun L h => by cases h; rfl)
  obtain ⟨_, τ', st', hpc, _, hrs, hv, _, _, hea, _, hrel⟩ := resume_next_vm _ (ctx_ok f) 30 hf 0 rfl rfl
    (exec 30 (progCtx (demo (.resumeNext ⟨8, 3⟩))).P 0 (progCtx (demo (.resumeNext ⟨8, 3⟩))).P (.seek 0)
      (handlerStart (s0 (.resumeNext ⟨8, 3⟩) (.goto 0)) 11)).1
    (Prod.ext rfl (by decide +kernel))
  refine ⟨τ', st.trans st', hpc, by rw [hrs, h1], ⟨X, by rw [hv, h2]⟩, hea, ?_⟩
  rw [hrel.base.env]
  decide +kernel

/-- **`resume_label_vm`**: `RESUME Fin` from inside the handler's FOR loop: the run continues at `Fin` (address 11) with the
register stack empty (the handler's loop frame and the saved frame are cut) and the value stack **cut to height 0** — no GOSUB
is pending and `Fin` is at SELECT depth 0, so even the operand `.int 5` that was there before the statement goes -/
example : ∃ τ', Steps (Prog.ofProgram (demo (.resumeLabel 1 ⟨8, 3⟩))) (σ0 (.address 21) [.int 5]) τ' ∧ τ'.b.pc = 11 ∧
    τ'.b.regStack = [] ∧ τ'.b.vals = [] ∧ τ'.b.gosubs = [] ∧ τ'.errAddr = none := by
  have f := facts_resumeLabel
  obtain ⟨y, st, hf, h1, _, h3⟩ := unit0 f (.goto 0) (.address 21) [.int 5] (by rw [hOf, f.addrH])
    (fun L h => by cases h; rfl)
  obtain ⟨_, _, hsd, τ', Y, st', hpc, hrs, _, hv, _, _, hg, hea, _, _⟩ := resume_label_vm _ (ctx_ok f) 30 hf 0 rfl rfl
    (exec 30 (progCtx (demo (.resumeLabel 1 ⟨8, 3⟩))).P 0 (progCtx (demo (.resumeLabel 1 ⟨8, 3⟩))).P (.seek 0)
      (handlerStart (s0 (.resumeLabel 1 ⟨8, 3⟩) (.goto 0)) 11)).1 1
    (Prod.ext rfl (by decide +kernel))
  refine ⟨τ', st.trans st', by rw [hpc]; decide +kernel, by rw [hrs, h1]; rfl, ?_, by rw [hg, h3], hea⟩
  rw [hv, hsd, h3]
  simp [truncTop, vhTop]

/-- **`on_error_resume_next_skips_vm`**: with the handler register `Next` the failing state's next step lands at address 11 -/
example : ∃ y τ, Steps (Prog.ofProgram (demo (.resume ⟨8, 3⟩))) (σ0 .next [.int 5]) y ∧
    step (Prog.ofProgram (demo (.resume ⟨8, 3⟩))) y = .next τ ∧ τ.b.pc = 11 ∧ τ.b.regStack = [] ∧ τ.errCode = some 11 ∧
    τ.errAddr = none := by
  have f := facts_resume
  obtain ⟨y, st, hf, h1, _, _⟩ := unit0 f .resumeNext .next [.int 5] rfl (fun L h => by cases h)
  obtain ⟨_, τ, s1, hpc, _, hrs, _, _, _, hea, hc, _⟩ := on_error_resume_next_skips_vm _ (ctx_ok f) 30 hf rfl rfl
  exact ⟨y, τ, st, s1, hpc, by rw [hrs, h1], hc, hea⟩

/-- `unhandled_error_stops_vm`: with no handler the failing state's step is Division by zero at 2:9 -/
example : ∃ y υ, Steps (Prog.ofProgram (demo (.resume ⟨8, 3⟩))) (σ0 .none []) y ∧
    step (Prog.ofProgram (demo (.resume ⟨8, 3⟩))) y = .error 11 ⟨2, 9⟩ υ := by
  have f := facts_resume
  obtain ⟨y, st, hf, _⟩ := unit0 f .none .none [] rfl (fun L h => by cases h)
  obtain ⟨_, h, _⟩ := unhandled_error_stops_vm _ 30 hf rfl
  exact ⟨y, _, st, h⟩

end Examples

end RbThm.C05ErrVm
