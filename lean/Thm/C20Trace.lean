import Thm.C20
/-!
C20, second part — statements over the whole expression language and exactness of the loop fuel.

* `fuel exactness` (`manyLoop_fuel_exact`, `delimLoop_fuel_exact`, `many_hang_iff_no_terminating_run`):
  the two unbounded `loop`s of the library are modelled with fuel `len + 3`.  For a sub-parser that never
  moves backwards (every expression: `run_mono`) more fuel never changes the answer, a round that
  succeeds without consuming repeats forever (`manyLoop_nonprogress`, `delimLoop_nonprogress`), and the
  fuelled loop coincides with the *unbounded* loop (`ManyR`, an inductive big-step relation = the terminating
  runs of the real `loop`): the model answers `hang` exactly when the unbounded loop has no terminating run.
* `delimited_ok_iff` — the full value-list characterisation of `delimited_by` / `delimited_by_allow_missing`.
* `Calls` / `Consults` — a small trace semantics: which sub-expression is invoked at which position while
  an expression is evaluated — and **`fatal_never_downgraded_expr`**: one statement for all expressions.
* `soft_failure_restores` — one statement for all expressions built from well-behaved leaves.
-/
namespace RbThm.C20
open RbModel.Pc

/-! ## 1. Fuel exactness of `many` -/

/-- a chain that starts with a non-consuming success never leaves its position -/
theorem Chain.stationary {p : P} {pos : Nat} {vs q} (hc : Chain p pos vs q) :
    ∀ v, p pos = .ok v pos → q = pos := by
  induction hc with
  | nil => intros; rfl
  | cons h1 _ ih =>
    intro v h
    rw [h] at h1
    simp at h1
    obtain ⟨_, hq⟩ := h1
    subst hq
    exact ih v h

/-- **More fuel never changes the answer** of the repetition loop once the fuel exceeds the remaining input
(pigeonhole in its monotone form: over a body that never moves backwards, either every success consumes — at
most `len - pos` of them — or one success does not consume, and then the loop is stuck there with any fuel). -/
theorem manyLoop_succ_stable {len : Nat} {p : P} (hm : Mono len p) :
    ∀ (F pos : Nat) (acc : List Val), pos ≤ len → len - pos < F →
      manyLoop p (F + 1) pos acc = manyLoop p F pos acc := by
  intro F
  induction F with
  | zero => intro pos acc hpos hF; omega
  | succ n ih =>
    intro pos acc hpos hF
    rw [manyLoop.eq_2, manyLoop.eq_2]
    cases hpp : p pos with
    | ok v q =>
      have h1 := hm.ok _ _ _ hpos hpp
      dsimp only
      by_cases hqp : q = pos
      · subst hqp
        simp only [manyLoop_nonprogress p q v hpp]
      · exact ih q _ h1.2 (by omega)
    | soft e q => rfl
    | fatal e q => rfl
    | hang => rfl

/-- The fuel bound of the model suffices: every fuel `F ≥ len + 3` gives the answer of fuel `len + 3`. -/
theorem manyLoop_fuel_exact {len : Nat} {p : P} (hm : Mono len p) (pos : Nat) (hpos : pos ≤ len)
    (acc : List Val) (F : Nat) (hF : len + 3 ≤ F) :
    manyLoop p F pos acc = manyLoop p (len + 3) pos acc := by
  induction F with
  | zero => omega
  | succ n ih =>
    by_cases h : len + 3 ≤ n
    · rw [manyLoop_succ_stable hm n pos acc hpos (by omega)]; exact ih h
    · have : n + 1 = len + 3 := by omega
      rw [this]

/-- The unbounded `loop` of `ManyParser::parse` as a big-step relation: `ManyR p pos acc r` — started at
`pos` with `acc` collected so far, the loop *terminates* with outcome `r`.  (A body that hangs, or that keeps
succeeding for ever, has no derivation.) -/
inductive ManyR (p : P) : Nat → List Val → Res → Prop where
  | stop {pos acc e q} : p pos = .soft e q → ManyR p pos acc (.ok (Val.ofList acc) q)
  | fatal {pos acc e q} : p pos = .fatal e q → ManyR p pos acc (.fatal e q)
  | more {pos acc v q r} : p pos = .ok v q → ManyR p q (acc ++ [v]) r → ManyR p pos acc r

theorem ManyR.ne_hang {p : P} {pos acc r} (h : ManyR p pos acc r) : r ≠ .hang := by
  induction h <;> simp_all

/-- a terminating run of the unbounded loop is found by the fuelled loop for every large enough fuel … -/
theorem ManyR.eventually {p : P} {pos acc r} (h : ManyR p pos acc r) :
    ∃ F0, ∀ F, F0 ≤ F → manyLoop p F pos acc = r := by
  induction h with
  | stop hs => exact ⟨1, fun F hF => by cases F with | zero => omega | succ n => simp [manyLoop, hs]⟩
  | fatal hf => exact ⟨1, fun F hF => by cases F with | zero => omega | succ n => simp [manyLoop, hf]⟩
  | more ho _ ih =>
    obtain ⟨F0, hF0⟩ := ih
    exact ⟨F0 + 1, fun F hF => by
      cases F with
      | zero => omega
      | succ n => simp only [manyLoop, ho]; exact hF0 n (by omega)⟩

/-- … and a non-`hang` answer of the fuelled loop is a terminating run of the unbounded one. -/
theorem ManyR.of_manyLoop {p : P} : ∀ (F pos : Nat) (acc : List Val) (r : Res),
    manyLoop p F pos acc = r → r ≠ .hang → ManyR p pos acc r := by
  intro F
  induction F with
  | zero => intro pos acc r h hr; simp [manyLoop] at h; exact absurd h.symm hr
  | succ n ih =>
    intro pos acc r h hr
    simp only [manyLoop] at h
    split at h
    · next v q hq => exact ManyR.more hq (ih _ _ _ h hr)
    · next e q hq => subst h; exact ManyR.stop hq
    · next e q hq => subst h; exact ManyR.fatal hq
    · exact absurd h.symm hr

/-- **Exactness of the fuel** for the repetition loop: over a body that never moves backwards, the model's loop
(fuel `len + 3`) returns `r ≠ hang` exactly when the unbounded loop of the real code terminates with `r` … -/
theorem manyLoop_exact {len : Nat} {p : P} (hm : Mono len p) (pos : Nat) (hpos : pos ≤ len) (acc : List Val)
    (r : Res) : ManyR p pos acc r ↔ (manyLoop p (len + 3) pos acc = r ∧ r ≠ .hang) := by
  constructor
  · intro h
    obtain ⟨F0, hF0⟩ := h.eventually
    refine ⟨?_, h.ne_hang⟩
    rw [← manyLoop_fuel_exact hm pos hpos acc (max F0 (len + 3)) (by omega)]
    exact hF0 _ (by omega)
  · rintro ⟨h, hr⟩
    exact ManyR.of_manyLoop _ _ _ _ h hr

/-- … hence the model answers `hang` exactly when the real loop has **no** terminating run. -/
theorem many_hang_iff_no_terminating_run {len : Nat} {p : P} (hm : Mono len p) (pos : Nat) (hpos : pos ≤ len)
    (acc : List Val) : manyLoop p (len + 3) pos acc = .hang ↔ ¬ ∃ r, ManyR p pos acc r := by
  constructor
  · rintro h ⟨r, hr⟩
    have := ((manyLoop_exact hm pos hpos acc r).1 hr)
    rw [h] at this
    exact this.2 this.1.symm
  · intro h
    by_cases hh : manyLoop p (len + 3) pos acc = .hang
    · exact hh
    · exact absurd ⟨_, (manyLoop_exact hm pos hpos acc _).2 ⟨rfl, hh⟩⟩ h

/-- A repetition whose body, after some successes, succeeds *without consuming* has no terminating run in the
unbounded loop (the real library never returns) … -/
theorem ManyR.no_run_of_nonprogress {p : P} {pos : Nat} {acc : List Val} {r : Res} (hr : ManyR p pos acc r) :
    ∀ v, p pos ≠ .ok v pos := by
  induction hr with
  | stop hs => intro v h; rw [h] at hs; simp at hs
  | fatal hf => intro v h; rw [h] at hf; simp at hf
  | more ho _ ih =>
    intro v h
    rw [h] at ho
    simp at ho
    obtain ⟨_, hq⟩ := ho
    subst hq
    exact ih v h

/-- … and the model says so (`hang`), whatever the fuel: the statement of `many_nonprogress_hangs` for a
non-consuming success met anywhere along the run. -/
theorem many_hangs_of_chain_nonprogress (len : Nat) (an : Bool) (p : P) (pos : Nat) {vs : List Val} {q : Nat}
    {v : Val} (hc : Chain p pos vs q) (h : p q = .ok v q) : manyP len an p pos = .hang := by
  cases hc with
  | nil => exact many_nonprogress_hangs len an p pos v h
  | cons h1 hc' =>
    rename_i v1 q1 vs'
    simp only [manyP, h1]
    by_cases hf : vs'.length < len + 3
    · rw [manyLoop_of_chain hc' (len + 3) [v1] hf]
      exact manyLoop_nonprogress p q v h _ _
    · -- the fuel runs out before the stationary point is even reached
      have : ∀ (F : Nat) (p1 : Nat) (ws : List Val) (acc : List Val), Chain p p1 ws q → F ≤ ws.length →
          manyLoop p F p1 acc = .hang := by
        intro F
        induction F with
        | zero => intros; rfl
        | succ n ih =>
          intro p1 ws acc hch hlen
          cases hch with
          | nil => simp at hlen
          | cons h2 hc2 => simp only [manyLoop, h2]; exact ih _ _ _ hc2 (by simp at hlen; omega)
      exact this _ _ _ _ hc' (by omega)

/-- `many` without the progress hypothesis of `many_maximal_run`: over a body that never moves backwards, a
maximal run of successes (ended by a soft failure, or stopped by a fatal error) is what `many` returns. -/
theorem many_complete {len : Nat} {an : Bool} {p : P} (hm : Mono len p) {pos : Nat} (hpos : pos ≤ len)
    {v : Val} {q1 : Nat} (h1 : p pos = .ok v q1) {vs : List Val} {q : Nat} (hc : Chain p q1 vs q) :
    (∀ e q', p q = .soft e q' → manyP len an p pos = .ok (Val.ofList (v :: vs)) q') ∧
    (∀ e q', p q = .fatal e q' → manyP len an p pos = .fatal e q') := by
  have hq1 := (hm.ok _ _ _ hpos h1).2
  have key : ∀ r, ManyR p q (([v] : List Val) ++ vs) r → manyP len an p pos = r := by
    intro r hr
    have hrun : ManyR p q1 [v] r := by
      clear h1 hq1
      generalize ([v] : List Val) = acc at hr ⊢
      induction hc generalizing acc with
      | nil => simpa using hr
      | cons h2 _ ih => exact ManyR.more h2 (ih _ (by simpa using hr))
    simp only [manyP, h1]
    exact ((manyLoop_exact hm q1 hq1 [v] r).1 hrun).1
  exact ⟨fun e q' hs => by simpa using key _ (ManyR.stop hs), fun e q' hf => key _ (ManyR.fatal hf)⟩

/-! ## 2. Fuel exactness and value list of `delimited_by` -/

/-- one round of the delimited loop that goes on: element (or, when missing elements are allowed, a soft
failure of the element) followed by a successful delimiter; `q2` is where the next round starts -/
def DRound (am : Bool) (p d : P) (pos q2 : Nat) : Prop :=
  (∃ v q w, p pos = .ok v q ∧ d q = .ok w q2) ∨ (am = true ∧ ∃ e q w, p pos = .soft e q ∧ d q = .ok w q2)

/-- a round that goes on without consuming repeats for ever: the model answers `hang` for every fuel -/
theorem delimLoop_nonprogress {am : Bool} {te : Nat} {p d : P} {pos : Nat} (h : DRound am p d pos pos) :
    ∀ (F : Nat) (acc : List Val) (last : Last), delimLoop am te p d F pos acc last = .hang := by
  intro F
  induction F with
  | zero => intros; rfl
  | succ n ih =>
    intro acc last
    rcases h with ⟨v, q, w, hp, hd⟩ | ⟨ham, e, q, w, hp, hd⟩
    · simp only [delimLoop, hp, hd]; exact ih _ _
    · subst ham; simp only [delimLoop, hp, hd, if_true]; exact ih _ _

theorem delimLoop_succ_stable {len : Nat} {am : Bool} {te : Nat} {p d : P} (hp : Mono len p) (hd : Mono len d) :
    ∀ (F pos : Nat) (acc : List Val) (last : Last), pos ≤ len → len - pos < F →
      delimLoop am te p d (F + 1) pos acc last = delimLoop am te p d F pos acc last := by
  intro F
  induction F with
  | zero => intro pos acc last hpos hF; omega
  | succ n ih =>
    intro pos acc last hpos hF
    rw [delimLoop.eq_2, delimLoop.eq_2]
    cases hpp : p pos with
    | ok v q =>
      have h1 := hp.ok _ _ _ hpos hpp
      dsimp only
      cases hdd : d q with
      | ok w q2 =>
        have h2 := hd.ok _ _ _ h1.2 hdd
        dsimp only
        by_cases hqp : q2 = pos
        · subst hqp
          have hr : DRound am p d q2 q2 := Or.inl ⟨v, q, w, hpp, hdd⟩
          simp only [delimLoop_nonprogress hr]
        · exact ih q2 _ _ h2.2 (by omega)
      | soft e q2 => rfl
      | fatal e q2 => rfl
      | hang => rfl
    | soft e q =>
      have h1 := hp.soft _ _ _ hpos hpp
      dsimp only
      cases hdd : d q with
      | ok w q2 =>
        have h2 := hd.ok _ _ _ h1.2 hdd
        dsimp only
        cases am with
        | false => rfl
        | true =>
          simp only [if_true]
          by_cases hqp : q2 = pos
          · subst hqp
            have hr : DRound true p d q2 q2 := Or.inr ⟨rfl, e, q, w, hpp, hdd⟩
            simp only [delimLoop_nonprogress hr]
          · exact ih q2 _ _ h2.2 (by omega)
      | soft e q2 => rfl
      | fatal e q2 => rfl
      | hang => rfl
    | fatal e q => rfl
    | hang => rfl

/-- The fuel bound of the model suffices for the delimited loop too. -/
theorem delimLoop_fuel_exact {len : Nat} {am : Bool} {te : Nat} {p d : P} (hp : Mono len p) (hd : Mono len d)
    (pos : Nat) (hpos : pos ≤ len) (acc : List Val) (last : Last) (F : Nat) (hF : len + 3 ≤ F) :
    delimLoop am te p d F pos acc last = delimLoop am te p d (len + 3) pos acc last := by
  induction F with
  | zero => omega
  | succ n ih =>
    by_cases h : len + 3 ≤ n
    · rw [delimLoop_succ_stable hp hd n pos acc last hpos (by omega)]; exact ih h
    · have : n + 1 = len + 3 := by omega
      rw [this]

/-- The items of a delimited list as a grammar: `Items am p d pos vs q'` — from `pos` the input reads
`item (delimiter item)*` ending with an element after which the delimiter fails softly, leaving the input at
`q'`; `vs` are the collected elements (`Some v` / `None` for a missing element when `am`, the bare values otherwise). -/
inductive Items (am : Bool) (p d : P) : Nat → List Val → Nat → Prop where
  | last {pos v q e q'} : p pos = .ok v q → d q = .soft e q' →
      Items am p d pos [if am then Val.some v else v] q'
  | more {pos v q w r vs q'} : p pos = .ok v q → d q = .ok w r → Items am p d r vs q' →
      Items am p d pos ((if am then Val.some v else v) :: vs) q'
  | skip {pos e q w r vs q'} : am = true → p pos = .soft e q → d q = .ok w r → Items am p d r vs q' →
      Items am p d pos (Val.none :: vs) q'

theorem Items.eventually {am : Bool} {te : Nat} {p d : P} {pos vs q'} (h : Items am p d pos vs q') :
    ∃ F0, ∀ F, F0 ≤ F → ∀ acc last, delimLoop am te p d F pos acc last = .ok (Val.ofList (acc ++ vs)) q' := by
  induction h with
  | last hp hd =>
    exact ⟨1, fun F hF acc last => by
      cases F with
      | zero => omega
      | succ n => simp [delimLoop, hp, hd, delimFinish]⟩
  | more hp hd _ ih =>
    obtain ⟨F0, hF0⟩ := ih
    exact ⟨F0 + 1, fun F hF acc last => by
      cases F with
      | zero => omega
      | succ n => simp only [delimLoop, hp, hd]; rw [hF0 n (by omega)]; simp⟩
  | skip ham hp hd _ ih =>
    subst ham
    obtain ⟨F0, hF0⟩ := ih
    exact ⟨F0 + 1, fun F hF acc last => by
      cases F with
      | zero => omega
      | succ n => simp only [delimLoop, hp, hd, if_true]; rw [hF0 n (by omega)]; simp⟩

theorem Items.of_delimLoop {am : Bool} {te : Nat} {p d : P} : ∀ (F pos : Nat) (acc : List Val) (last : Last)
    (hl : last ≠ .value) (val : Val) (q' : Nat), delimLoop am te p d F pos acc last = .ok val q' →
    ∃ vs, val = Val.ofList (acc ++ vs) ∧ Items am p d pos vs q' := by
  intro F
  induction F with
  | zero => intro pos acc last hl val q' h; simp [delimLoop] at h
  | succ n ih =>
    intro pos acc last hl val q' h
    simp only [delimLoop] at h
    split at h
    · next v q hq =>
      split at h
      · next w q2 hq2 =>
        obtain ⟨vs, hv, hi⟩ := ih _ _ _ (by simp) _ _ h
        exact ⟨_ :: vs, by simpa using hv, Items.more hq hq2 hi⟩
      · next e q2 hq2 =>
        simp [delimFinish] at h
        exact ⟨[_], h.1.symm, h.2 ▸ Items.last hq hq2⟩
      · simp at h
      · simp at h
    · next e q hq =>
      split at h
      · next w q2 hq2 =>
        split at h
        · next ham =>
          obtain ⟨vs, hv, hi⟩ := ih _ _ _ (by simp) _ _ h
          exact ⟨Val.none :: vs, by simpa using hv, Items.skip ham hq hq2 hi⟩
        · simp at h
      · cases last <;> simp [delimFinish] at h
        exact absurd rfl hl
      · simp at h
      · simp at h
    · simp at h
    · simp at h

/-- **Full value-list characterisation of `delimited_by` / `delimited_by_allow_missing`.**  Over sub-parsers
that never move backwards: the delimited list succeeds with value `val` at `q'` exactly when the input from
`pos` reads as `Items` — elements separated by delimiters, last one an element followed by a softly failing
delimiter — and `val` is the `Vec` of those items in order.  (`→` needs no hypothesis.) -/
theorem delimited_ok_iff {len : Nat} {am : Bool} {te : Nat} {p d : P} (hp : Mono len p) (hd : Mono len d)
    (pos : Nat) (hpos : pos ≤ len) (val : Val) (q' : Nat) :
    delimitedP len am te p d pos = .ok val q' ↔ ∃ vs, val = Val.ofList vs ∧ Items am p d pos vs q' := by
  constructor
  · intro h
    obtain ⟨vs, hv, hi⟩ := Items.of_delimLoop _ _ _ _ (by simp) _ _ h
    exact ⟨vs, by simpa using hv, hi⟩
  · rintro ⟨vs, rfl, hi⟩
    obtain ⟨F0, hF0⟩ := hi.eventually (te := te)
    simp only [delimitedP]
    rw [← delimLoop_fuel_exact hp hd pos hpos [] .nothing (max F0 (len + 3)) (by omega)]
    simpa using hF0 _ (by omega) [] .nothing

/-- the other two outcomes of the first round: nothing at all is a soft failure (code 0) -/
theorem delimited_soft_iff_nothing (len : Nat) (am : Bool) (te : Nat) (p d : P) (pos : Nat) (e1 q1 e2 q2 : Nat)
    (hp : p pos = .soft e1 q1) (hd : d q1 = .soft e2 q2) : delimitedP len am te p d pos = .soft 0 q2 := by
  simp [delimitedP, delimLoop, hp, hd, delimFinish]

example : Items false (oneP [0, 1, 0] 0) (oneP [0, 1, 0] 1) 0 [.sym 0, .sym 0] 3 :=
  Items.more (q := 1) (r := 2) (w := .sym 1) (by decide) (by decide)
    (Items.last (q := 3) (e := 0) (by decide) (by decide))

/-! ## 3. Which sub-parser is consulted where: a small trace semantics -/

/-- positions at which the rounds of a delimited list start: `DReach am p d pos r` -/
inductive DReach (am : Bool) (p d : P) : Nat → Nat → Prop where
  | refl (pos : Nat) : DReach am p d pos pos
  | step {pos q2 r} : DRound am p d pos q2 → DReach am p d q2 r → DReach am p d pos r

/-- `SeqAt inp xs pos s q`: in the sequence `xs` started at `pos`, the element `s` is reached at `q`
(all elements before it succeeded) -/
inductive SeqAt (inp : List Nat) : List PExpr → Nat → PExpr → Nat → Prop where
  | head {x xs pos} : SeqAt inp (x :: xs) pos x pos
  | tail {x xs pos v q s r} : run x inp pos = .ok v q → SeqAt inp xs q s r → SeqAt inp (x :: xs) pos s r

/-- the elements of a `seqN` expression -/
def seqKids : PExpr → Option (List PExpr)
  | .seq2 a b => some [a, b]
  | .seq3 a b c => some [a, b, c]
  | .seq4 a b c d => some [a, b, c, d]
  | .seq5 a b c d e => some [a, b, c, d, e]
  | .seq6 a b c d e f => some [a, b, c, d, e, f]
  | _ => none

/-- `Calls inp e pos s q`: evaluating the expression `e` from `pos` invokes its direct sub-expression `s` at
position `q` — one constructor per combinator and sub-parser, with exactly the conditions under which the
`parse` method reaches that call. -/
inductive Calls (inp : List Nat) : PExpr → Nat → PExpr → Nat → Prop where
  | and_l {c l r pos} : Calls inp (.and c l r) pos l pos
  | and_r {c l r pos a p1} : run l inp pos = .ok a p1 → Calls inp (.and c l r) pos r p1
  | or2_a {a b pos} : Calls inp (.or2 a b) pos a pos
  | or2_b {a b pos e q} : run a inp pos = .soft e q → Calls inp (.or2 a b) pos b pos
  | or3_a {a b c pos} : Calls inp (.or3 a b c) pos a pos
  | or3_b {a b c pos e q} : run a inp pos = .soft e q → Calls inp (.or3 a b c) pos b pos
  | or3_c {a b c pos e q e' q'} : run a inp pos = .soft e q → run b inp pos = .soft e' q' →
      Calls inp (.or3 a b c) pos c pos
  | orNoBox_l {l r pos} : Calls inp (.orNoBox l r) pos l pos
  | orNoBox_r {l r pos e q} : run l inp pos = .soft e q → Calls inp (.orNoBox l r) pos r q
  | many {an e pos vs q} : Chain (run e inp) pos vs q → Calls inp (.many an e) pos e q
  | manyC {mc an e pos vs q} : Chain (run e inp) pos vs q → Calls inp (.manyC mc an e) pos e q
  | manyCtx {an e pos vs q} : Chain (run e inp) pos vs q → Calls inp (.manyCtx an e) pos e q
  | filter {pr e pos} : Calls inp (.filter pr e) pos e pos
  | filterMap {f e pos} : Calls inp (.filterMap f e) pos e pos
  | peek {e pos} : Calls inp (.peek e) pos e pos
  | toOption {e pos} : Calls inp (.toOption e) pos e pos
  | orDefault {e pos} : Calls inp (.orDefault e) pos e pos
  | surround_l {md l m r pos} : Calls inp (.surround md l m r) pos l pos
  | surround_m {md l m r pos q} :
      ((∃ a, run l inp pos = .ok a q) ∨ (md = false ∧ ∃ e, run l inp pos = .soft e q)) →
      Calls inp (.surround md l m r) pos m q
  | surround_r {md l m r pos q v q1} :
      ((∃ a, run l inp pos = .ok a q) ∨ (md = false ∧ ∃ e, run l inp pos = .soft e q)) →
      run m inp q = .ok v q1 → Calls inp (.surround md l m r) pos r q1
  | delim_e {am te e d pos r} : DReach am (run e inp) (run d inp) pos r → Calls inp (.delimited am te e d) pos e r
  | delim_d {am te e d pos r q} : DReach am (run e inp) (run d inp) pos r →
      ((∃ v, run e inp r = .ok v q) ∨ (∃ x, run e inp r = .soft x q)) → Calls inp (.delimited am te e d) pos d q
  | seq {e xs pos s q} : seqKids e = some xs → SeqAt inp xs pos s q → Calls inp e pos s q
  | thenWith_l {c l r pos} : Calls inp (.thenWith c l r) pos l pos
  | thenWith_r {c l r pos a p1} : run l inp pos = .ok a p1 → Calls inp (.thenWith c l r) pos r p1
  | andThen {m e pos} : Calls inp (.andThen m e) pos e pos
  | andThenErr {m e pos} : Calls inp (.andThenErr m e) pos e pos
  | map {f e pos} : Calls inp (.map f e) pos e pos
  | toFatal {e pos} : Calls inp (.toFatal e) pos e pos
  | withSoftErr {c ft e pos} : Calls inp (.withSoftErr c ft e) pos e pos
  | mapFatalErr {c e pos} : Calls inp (.mapFatalErr c e) pos e pos
  | flatten_p {p q pos} : Calls inp (.flatten p q) pos p pos
  | flatten_q {p q pos a p1} : run p inp pos = .ok a p1 → Calls inp (.flatten p q) pos q p1
  | lazy {e pos} : Calls inp (.lazy e) pos e pos
  | iif_l {l r pos} : Calls inp (.iif true l r) pos l pos
  | iif_r {l r pos} : Calls inp (.iif false l r) pos r pos

/-- `Consults inp e pos s q`: evaluating `e` from `pos` consults the (possibly deeply nested, possibly `e`
itself) sub-expression `s` at position `q` — the reflexive-transitive closure of `Calls`. -/
inductive Consults (inp : List Nat) : PExpr → Nat → PExpr → Nat → Prop where
  | refl (e : PExpr) (pos : Nat) : Consults inp e pos e pos
  | step {e pos m p1 s q} : Calls inp e pos m p1 → Consults inp m p1 s q → Consults inp e pos s q

/-! ### positions stay inside the input along a trace -/

theorem DReach.le_len {len : Nat} {am : Bool} {p d : P} (hp : Mono len p) (hd : Mono len d) {pos r : Nat}
    (h : DReach am p d pos r) (hpos : pos ≤ len) : r ≤ len := by
  induction h with
  | refl => exact hpos
  | step hr _ ih =>
    apply ih
    rcases hr with ⟨v, q, w, h1, h2⟩ | ⟨_, e, q, w, h1, h2⟩
    · exact (hd.ok _ _ _ (hp.ok _ _ _ hpos h1).2 h2).2
    · exact (hd.ok _ _ _ (hp.soft _ _ _ hpos h1).2 h2).2

theorem SeqAt.le_len {inp : List Nat} {xs : List PExpr} {pos : Nat} {s : PExpr} {q : Nat}
    (h : SeqAt inp xs pos s q) (hpos : pos ≤ inp.length) : q ≤ inp.length := by
  induction h with
  | head => exact hpos
  | tail hx _ ih => exact ih ((run_mono inp _).ok _ _ _ hpos hx).2

theorem SeqAt.mem {inp : List Nat} {xs : List PExpr} {pos : Nat} {s : PExpr} {q : Nat}
    (h : SeqAt inp xs pos s q) : s ∈ xs := by
  induction h with
  | head => simp
  | tail _ _ ih => simp [ih]

/-- the callee of a call from inside the input starts inside the input -/
theorem Calls.pos_le {inp : List Nat} {e : PExpr} {pos : Nat} {s : PExpr} {q : Nat}
    (h : Calls inp e pos s q) (hpos : pos ≤ inp.length) : q ≤ inp.length := by
  cases h with
  | and_r h1 => exact ((run_mono inp _).ok _ _ _ hpos h1).2
  | orNoBox_r h1 => exact ((run_mono inp _).soft _ _ _ hpos h1).2
  | many hc => exact hc.le_len (run_mono inp _) hpos
  | manyC hc => exact hc.le_len (run_mono inp _) hpos
  | manyCtx hc => exact hc.le_len (run_mono inp _) hpos
  | surround_m hl =>
    rcases hl with ⟨a, h1⟩ | ⟨_, x, h1⟩
    · exact ((run_mono inp _).ok _ _ _ hpos h1).2
    · exact ((run_mono inp _).soft _ _ _ hpos h1).2
  | surround_r hl hm =>
    rcases hl with ⟨a, h1⟩ | ⟨_, x, h1⟩
    · exact ((run_mono inp _).ok _ _ _ ((run_mono inp _).ok _ _ _ hpos h1).2 hm).2
    · exact ((run_mono inp _).ok _ _ _ ((run_mono inp _).soft _ _ _ hpos h1).2 hm).2
  | delim_e hr => exact hr.le_len (run_mono inp _) (run_mono inp _) hpos
  | delim_d hr he =>
    have hq := hr.le_len (run_mono inp _) (run_mono inp _) hpos
    rcases he with ⟨v, h1⟩ | ⟨x, h1⟩
    · exact ((run_mono inp _).ok _ _ _ hq h1).2
    · exact ((run_mono inp _).soft _ _ _ hq h1).2
  | seq _ hs => exact hs.le_len hpos
  | thenWith_r h1 => exact ((run_mono inp _).ok _ _ _ hpos h1).2
  | flatten_q h1 => exact ((run_mono inp _).ok _ _ _ hpos h1).2
  | _ => exact hpos

/-! ### one call: the callee's fatal error is the caller's result -/

theorem seqRest_fatal_at {inp : List Nat} {xs : List PExpr} {pos : Nat} {s : PExpr} {q c q' : Nat}
    (h : SeqAt inp xs pos s q) (hf : run s inp q = .fatal c q') :
    ∀ acc, seqRest (xs.map (fun x => run x inp)) pos acc = .fatal c q' := by
  induction h with
  | head => intro acc; simp [seqRest, hf]
  | tail hx _ ih => intro acc; simp only [List.map_cons, seqRest, hx]; exact ih hf _

theorem seqP_fatal_at {inp : List Nat} {x : PExpr} {xs : List PExpr} {pos : Nat} {s : PExpr} {q c q' : Nat}
    (h : SeqAt inp (x :: xs) pos s q) (hf : run s inp q = .fatal c q') :
    seqP (run x inp) (xs.map (fun x => run x inp)) pos = .fatal c q' := by
  cases h with
  | head => simp [seqP, hf]
  | tail hx hs => simp only [seqP, hx]; exact seqRest_fatal_at hs hf _

theorem manyP_fatal_at {len : Nat} {an : Bool} {p : P} (hm : Mono len p) {pos : Nat} (hpos : pos ≤ len)
    {vs : List Val} {q c q' : Nat} (hc : Chain p pos vs q) (hf : p q = .fatal c q') :
    manyP len an p pos = .fatal c q' := by
  cases hc with
  | nil => simp [manyP, hf]
  | cons h1 hc' => exact (many_complete hm hpos h1 hc').2 c q' hf

theorem DReach.eventually {am : Bool} {te : Nat} {p d : P} {pos r : Nat} (h : DReach am p d pos r) (res : Res)
    (hres : ∀ F acc last, 1 ≤ F → delimLoop am te p d F r acc last = res) :
    ∃ F0, ∀ F, F0 ≤ F → ∀ acc last, delimLoop am te p d F pos acc last = res := by
  induction h with
  | refl => exact ⟨1, fun F hF acc last => hres F acc last hF⟩
  | step hr _ ih =>
    obtain ⟨F0, hF0⟩ := ih hres
    refine ⟨F0 + 1, fun F hF acc last => ?_⟩
    cases F with
    | zero => omega
    | succ n =>
      rcases hr with ⟨v, q, w, h1, h2⟩ | ⟨ham, e, q, w, h1, h2⟩
      · simp only [delimLoop, h1, h2]; exact hF0 n (by omega) _ _
      · subst ham; simp only [delimLoop, h1, h2, if_true]; exact hF0 n (by omega) _ _

theorem delimitedP_of_reach {len : Nat} {am : Bool} {te : Nat} {p d : P} (hp : Mono len p) (hd : Mono len d)
    {pos r : Nat} (hpos : pos ≤ len) (h : DReach am p d pos r) (res : Res)
    (hres : ∀ F acc last, 1 ≤ F → delimLoop am te p d F r acc last = res) :
    delimitedP len am te p d pos = res := by
  obtain ⟨F0, hF0⟩ := h.eventually res hres
  simp only [delimitedP]
  rw [← delimLoop_fuel_exact hp hd pos hpos [] .nothing (max F0 (len + 3)) (by omega)]
  exact hF0 _ (by omega) _ _

/-- does the expression contain a `map_fatal_err` node (the one combinator documented to replace a fatal error)? -/
def hasMFE : PExpr → Bool
  | .any | .peekAny | .one _ | .oneOf _ | .failSoft _ | .failFatal _ | .pure | .manyStr _ | .eatSoft => false
  | .and _ l r | .or2 l r | .orNoBox l r | .delimited _ _ l r | .seq2 l r | .thenWith _ l r | .flatten l r
  | .iif _ l r => hasMFE l || hasMFE r
  | .or3 a b c | .surround _ a b c | .seq3 a b c => hasMFE a || hasMFE b || hasMFE c
  | .many _ e | .manyC _ _ e | .manyCtx _ e | .filter _ e | .filterMap _ e | .peek e | .toOption e | .orDefault e
  | .andThen _ e | .andThenErr _ e | .map _ e | .toFatal e | .withSoftErr _ _ e | .lazy e => hasMFE e
  | .seq4 a b c d => hasMFE a || hasMFE b || hasMFE c || hasMFE d
  | .seq5 a b c d e => hasMFE a || hasMFE b || hasMFE c || hasMFE d || hasMFE e
  | .seq6 a b c d e f => hasMFE a || hasMFE b || hasMFE c || hasMFE d || hasMFE e || hasMFE f
  | .mapFatalErr _ _ => true

/-- **One call.**  If evaluating `e` from `pos` calls its sub-expression `s` at `q` and that call returns a fatal
error, then `e` returns a fatal error at the same position — with the same code, unless `e` is a
`map_fatal_err` (which replaces the code, as documented). -/
theorem Calls.fatal {inp : List Nat} {e : PExpr} {pos : Nat} {s : PExpr} {q c q' : Nat}
    (h : Calls inp e pos s q) (hpos : pos ≤ inp.length) (hf : run s inp q = .fatal c q') :
    ∃ c', run e inp pos = .fatal c' q' ∧ (c' = c ∨ ∃ c0 e0, e = .mapFatalErr c0 e0) := by
  cases h with
  | and_l => exact ⟨c, by simp [run, andP, hf], Or.inl rfl⟩
  | and_r h1 => exact ⟨c, by simp [run, andP, h1, hf], Or.inl rfl⟩
  | or2_a => exact ⟨c, by simp [run, orBoxP, hf], Or.inl rfl⟩
  | or2_b h1 => exact ⟨c, by simp [run, orBoxP, h1, hf], Or.inl rfl⟩
  | or3_a => exact ⟨c, by simp [run, orBoxP, hf], Or.inl rfl⟩
  | or3_b h1 => exact ⟨c, by simp [run, orBoxP, h1, hf], Or.inl rfl⟩
  | or3_c h1 h2 => exact ⟨c, by simp [run, orBoxP, h1, h2, hf], Or.inl rfl⟩
  | orNoBox_l => exact ⟨c, by simp [run, orNoBoxP, hf], Or.inl rfl⟩
  | orNoBox_r h1 => exact ⟨c, by simp [run, orNoBoxP, h1, hf], Or.inl rfl⟩
  | many hc => exact ⟨c, by simp only [run]; exact manyP_fatal_at (run_mono inp _) hpos hc hf, Or.inl rfl⟩
  | manyC hc =>
    exact ⟨c, by simp only [run, manyCP_eq_fin, finP, manyP_fatal_at (run_mono inp _) hpos hc hf], Or.inl rfl⟩
  | manyCtx hc => exact ⟨c, by simp only [run]; exact manyP_fatal_at (run_mono inp _) hpos hc hf, Or.inl rfl⟩
  | filter => exact ⟨c, by simp [run, filterP, hf], Or.inl rfl⟩
  | filterMap => exact ⟨c, by simp [run, filterMapP, hf], Or.inl rfl⟩
  | peek => exact ⟨c, by simp [run, peekP, hf], Or.inl rfl⟩
  | toOption => exact ⟨c, by simp [run, toOptionP, hf], Or.inl rfl⟩
  | orDefault => exact ⟨c, by simp [run, orDefaultP, hf], Or.inl rfl⟩
  | surround_l => exact ⟨c, by simp [run, surroundP, hf], Or.inl rfl⟩
  | surround_m hl =>
    refine ⟨c, ?_, Or.inl rfl⟩
    rcases hl with ⟨a, h1⟩ | ⟨rfl, x, h1⟩ <;> simp [run, surroundP, surroundMain, h1, hf]
  | surround_r hl hm =>
    refine ⟨c, ?_, Or.inl rfl⟩
    rcases hl with ⟨a, h1⟩ | ⟨rfl, x, h1⟩ <;> simp [run, surroundP, surroundMain, h1, hm, hf]
  | delim_e hr =>
    refine ⟨c, ?_, Or.inl rfl⟩
    simp only [run]
    refine delimitedP_of_reach (run_mono inp _) (run_mono inp _) hpos hr _ (fun F acc last hF => ?_)
    cases F with
    | zero => omega
    | succ n => simp [delimLoop, hf]
  | delim_d hr he =>
    refine ⟨c, ?_, Or.inl rfl⟩
    simp only [run]
    refine delimitedP_of_reach (run_mono inp _) (run_mono inp _) hpos hr _ (fun F acc last hF => ?_)
    cases F with
    | zero => omega
    | succ n => rcases he with ⟨v, h1⟩ | ⟨x, h1⟩ <;> simp [delimLoop, h1, hf]
  | seq hk hs =>
    refine ⟨c, ?_, Or.inl rfl⟩
    cases e <;> simp [seqKids] at hk <;> subst hk <;> exact seqP_fatal_at hs hf
  | thenWith_l => exact ⟨c, by simp [run, thenWithP, hf], Or.inl rfl⟩
  | thenWith_r h1 => exact ⟨c, by simp [run, thenWithP, h1, hf], Or.inl rfl⟩
  | andThen => exact ⟨c, by simp [run, andThenP, hf], Or.inl rfl⟩
  | andThenErr => exact ⟨c, by simp [run, andThenErrP, hf], Or.inl rfl⟩
  | map => exact ⟨c, by simp [run, mapP, hf], Or.inl rfl⟩
  | toFatal => exact ⟨c, by simp [run, toFatalP, hf], Or.inl rfl⟩
  | withSoftErr => exact ⟨c, by simp [run, withSoftErrP, hf], Or.inl rfl⟩
  | @mapFatalErr c0 e0 pos0 => exact ⟨c0, by simp [run, mapFatalErrP, hf], Or.inr ⟨_, _, rfl⟩⟩
  | flatten_p => exact ⟨c, by simp [run, flattenP, hf], Or.inl rfl⟩
  | flatten_q h1 => exact ⟨c, by simp [run, flattenP, h1, hf], Or.inl rfl⟩
  | lazy => exact ⟨c, by simp [run, hf], Or.inl rfl⟩
  | iif_l => exact ⟨c, by simp [run, hf], Or.inl rfl⟩
  | iif_r => exact ⟨c, by simp [run, hf], Or.inl rfl⟩

/-- a callee containing a `map_fatal_err` makes the caller contain one -/
theorem Calls.hasMFE_of_callee {inp : List Nat} {e : PExpr} {pos : Nat} {s : PExpr} {q : Nat}
    (h : Calls inp e pos s q) (hs : hasMFE s = true) : hasMFE e = true := by
  cases h with
  | seq hk hsq =>
    have hm := hsq.mem
    cases e <;> simp [seqKids] at hk
    all_goals (subst hk; simp at hm; simp only [hasMFE, Bool.or_eq_true]; grind)
  | _ => simp_all [hasMFE]

/-! ## 4. The two clauses of the property as single statements over all expressions -/

/-- **A fatal error is never swallowed or downgraded — one statement for the whole expression language.**
For every parser expression `e`, every input and every start position inside it: if evaluating `e` consults a
sub-parser `s` (at any nesting depth, at any position `q` the evaluation reaches — `Consults`) and that
sub-parser returns a fatal error, then `e` itself returns a fatal error, with the input where the sub-parser
left it; the error is the *same* error unless `e` contains a `map_fatal_err` (the one combinator documented
to replace fatal errors). -/
theorem fatal_never_downgraded_expr {inp : List Nat} {e : PExpr} {pos : Nat} {s : PExpr} {q c q' : Nat}
    (hc : Consults inp e pos s q) (hpos : pos ≤ inp.length) (hf : run s inp q = .fatal c q') :
    ∃ c', run e inp pos = .fatal c' q' ∧ (hasMFE e = false → c' = c) := by
  induction hc with
  | refl e pos => exact ⟨c, hf, fun _ => rfl⟩
  | @step e1 pos1 m p1 s1 q1 hcall _ ih =>
    obtain ⟨c1, h1, hc1⟩ := ih (hcall.pos_le hpos) hf
    obtain ⟨c2, h2, hc2⟩ := hcall.fatal hpos h1
    refine ⟨c2, h2, fun hno => ?_⟩
    have hm : hasMFE m = false := by
      cases hh : hasMFE m with
      | false => rfl
      | true => rw [hcall.hasMFE_of_callee hh] at hno; exact absurd hno (by simp)
    rcases hc2 with rfl | ⟨c0, e0, rfl⟩
    · exact hc1 hm
    · simp [hasMFE] at hno

/-- **A soft failure leaves the input where it started — one statement for the whole expression language**
(the undo-ing combinators — sequence-with-undo, choice, filter, filter_map, peek, optional, default,
repetition, surround, delimited lists, sequences — over well-behaved leaves; the only exclusions are the
documented ones collected in `leavesWB`: `and_then` with a softly failing mapper, `flatten`, and the harness's
deliberately ill-behaved leaf). -/
theorem soft_failure_restores {inp : List Nat} {e : PExpr} (he : LeavesWB e) {pos c q : Nat}
    (hpos : pos ≤ inp.length) (h : run e inp pos = .soft c q) : q = pos :=
  (run_wb inp e he).soft pos c q hpos h

/-- and whatever the expression, where a soft failure is *absorbed* by an enclosing optional / default /
zero-or-more, the enclosing parser has not moved the input either -/
theorem soft_absorbed_restores {inp : List Nat} {e : PExpr} (he : LeavesWB e) {pos c q : Nat}
    (hpos : pos ≤ inp.length) (h : run e inp pos = .soft c q) :
    run (.toOption e) inp pos = .ok .none pos ∧ run (.orDefault e) inp pos = .ok .nil pos ∧
    run (.many true e) inp pos = .ok .nil pos :=
  let h' := soft_absorbed_in_place (run_wb inp e he) pos hpos c q h
  ⟨h'.1, h'.2.1, h'.2.2.1⟩

/-! ### the hypotheses are satisfiable -/

/-- `(a !4)+` on the input `a`: the repetition calls the sequence at 0, the sequence calls `failFatal 4` at 1 -/
example : Consults [0] (.many false (.and .tuple (.one 0) (.failFatal 4))) 0 (.failFatal 4) 1 :=
  Consults.step (Calls.many (Chain.nil 0))
    (Consults.step (Calls.and_r (a := .sym 0) (by decide)) (Consults.refl _ _))

example : run (.many false (.and .tuple (.one 0) (.failFatal 4))) [0] 0 = .fatal 4 1 := by decide

/-- a delimited list consults its element after two rounds: `a , a , !` -/
example : Consults [0, 1, 0, 1] (.delimited false 9 (.or2 (.one 0) (.failFatal 4)) (.one 1)) 0 (.failFatal 4) 4 :=
  Consults.step
    (Calls.delim_e
      (DReach.step (q2 := 2) (Or.inl ⟨.sym 0, 1, .sym 1, by decide, by decide⟩)
        (DReach.step (q2 := 4) (Or.inl ⟨.sym 0, 3, .sym 1, by decide, by decide⟩) (DReach.refl 4))))
    (Consults.step (Calls.or2_b (e := 0) (q := 4) (by decide)) (Consults.refl _ _))

example : ManyR (anyP [0, 1]) 0 [] (.ok (Val.ofList [.sym 0, .sym 1]) 2) :=
  ManyR.more (q := 1) (v := .sym 0) (by decide)
    (ManyR.more (q := 2) (v := .sym 1) (by decide) (ManyR.stop (e := 0) (by decide)))

example : ¬ ∃ r, ManyR pureP 0 [] r := fun ⟨_, hr⟩ => hr.no_run_of_nonprogress .unit rfl

end RbThm.C20
