import Thm.RecLSimProg
import RbModel.RecL.WfB
/-!
Records layer — a decidable form of the static premise `ProgWf` of `RecL.compile_correct`.

`progWfB prog = true` is what a driver can evaluate on a concrete linted program (`RbModel/RecL/WfB.lean`);
`progWfB_sound` shows it implies `ProgWf prog` (the type table satisfies `Spec.TypesWf`, the body is well formed, the
DATA items hold no NUL).
-/
namespace RbThm.RecLSim
set_option linter.unusedVariables false
set_option linter.unusedSimpArgs false
open RbModel RbModel.Num RbModel.RecL RbModel.RecL.Compile RbModel.RecL.Vm
open RbModel.Ast (Pos)
open RbThm.RecLTy

/-! ### the type table -/

mutual
theorem ftyBeq_sound : ∀ (a b : FTy), FTy.beq a b = true → a = b
  | .sc a, .sc b, h => by simp only [FTy.beq, decide_eq_true_eq] at h; rw [h]
  | .fix a, .fix b, h => by simp only [FTy.beq, decide_eq_true_eq] at h; rw [h]
  | .udt j fs, .udt k gs, h => by
    simp only [FTy.beq, Bool.and_eq_true, decide_eq_true_eq] at h
    rw [h.1, ffieldsBeq_sound fs gs h.2]
  | .sc _, .fix _, h => by simp [FTy.beq] at h
  | .sc _, .udt _ _, h => by simp [FTy.beq] at h
  | .fix _, .sc _, h => by simp [FTy.beq] at h
  | .fix _, .udt _ _, h => by simp [FTy.beq] at h
  | .udt _ _, .sc _, h => by simp [FTy.beq] at h
  | .udt _ _, .fix _, h => by simp [FTy.beq] at h
theorem ffieldsBeq_sound : ∀ (a b : FFields), FFields.beq a b = true → a = b
  | .nil, .nil, _ => rfl
  | .cons f t rest, .cons g u more, h => by
    simp only [FFields.beq, Bool.and_eq_true, decide_eq_true_eq] at h
    rw [h.1.1, ftyBeq_sound t u h.1.2, ffieldsBeq_sound rest more h.2]
  | .nil, .cons _ _ _, h => by simp [FFields.beq] at h
  | .cons _ _ _, .nil, h => by simp [FFields.beq] at h
end

theorem nodupB_sound : ∀ l : List String, nodupB l = true → l.Nodup
  | [], _ => by simp
  | a :: rest, h => by
    simp only [nodupB, Bool.and_eq_true, Bool.not_eq_true', List.contains_eq_mem, decide_eq_false_iff_not] at h
    exact List.nodup_cons.mpr ⟨h.1, nodupB_sound rest h.2⟩

theorem fieldsNestB_sound (types : List FFields) (k : Nat) : ∀ (fs : FFields), fieldsNestB types k fs = true →
    ∀ (f : String) (j : Nat) (inner : FFields), fs.find f = some (.udt j inner) → j < k ∧ types[j]? = some inner
  | .nil, _, f, j, inner, hf => by simp [FFields.find] at hf
  | .cons g t rest, h, f, j, inner, hf => by
    simp only [fieldsNestB, Bool.and_eq_true] at h
    simp only [FFields.find] at hf
    by_cases hg : g = f
    · simp only [hg, if_true] at hf
      injection hf with hf; subst hf
      have h1 := h.1
      simp only [Bool.and_eq_true, decide_eq_true_eq] at h1
      refine ⟨h1.1, ?_⟩
      cases ht : types[j]? with
      | none => simp [ht] at h1
      | some fs' =>
        simp only [ht] at h1
        rw [ffieldsBeq_sound fs' inner h1.2]
    · simp only [hg, if_false] at hf
      exact fieldsNestB_sound types k rest h.2 f j inner hf

theorem typesFromB_sound (types : List FFields) : ∀ (l : List FFields) (k : Nat), typesFromB types k l = true →
    ∀ (i : Nat) (fs : FFields), l[i]? = some fs → typeOkB types (k + i) fs = true
  | [], _, _, i, fs, hi => by simp at hi
  | g :: rest, k, h, i, fs, hi => by
    simp only [typesFromB, Bool.and_eq_true] at h
    cases i with
    | zero =>
      simp only [List.getElem?_cons_zero] at hi
      injection hi with hi; subst hi
      exact h.1
    | succ i =>
      simp only [List.getElem?_cons_succ] at hi
      have := typesFromB_sound types rest (k + 1) h.2 i fs hi
      have e : k + 1 + i = k + (i + 1) := by omega
      rw [e] at this; exact this

theorem typesWfB_sound (types : List FFields) (h : typesWfB types = true) : TypesWf types := by
  intro k fs hk
  have := typesFromB_sound types types 0 h k fs hk
  rw [Nat.zero_add] at this
  simp only [typeOkB, Bool.and_eq_true, List.all_eq_true] at this
  refine ⟨nodupB_sound _ this.1.1, ?_, fieldsNestB_sound types k fs this.2⟩
  intro f hf
  have := this.1.2 f hf
  simpa only [foldedB, decide_eq_true_eq] using this

/-! ### expressions -/

theorem noNulValB_sound : ∀ v, noNulValB v = true → NoNulVal v
  | .str cs, h => by
    simp only [noNulValB, Bool.not_eq_true', List.contains_eq_mem, decide_eq_false_iff_not] at h
    exact h
  | .int _, _ => trivial
  | .long _, _ => trivial
  | .sgl _, _ => trivial
  | .dbl _, _ => trivial

theorem pathTypedB_sound (types : List FFields) (slots : List ETy) (x : Nat) (path : List String) (t : ETy)
    (h : pathTypedB types slots x path t = true) : PathTyped types slots x path t := by
  unfold pathTypedB at h
  cases h1 : slots[x]? with
  | none => simp [h1] at h
  | some st =>
    simp only [h1] at h
    cases h2 : expand types st with
    | none => simp [h2] at h
    | some root =>
      simp only [h2] at h
      cases h3 : root.at path with
      | none => simp [h3] at h
      | some ft =>
        simp only [h3, decide_eq_true_eq] at h
        exact ⟨st, root, ft, h1, h2, h3, h⟩

theorem eWfB_sound (sc : Scope) : ∀ e, eWfB sc.types sc.slots e = true → EWf sc e
  | .lit v _, h => by
    simp only [eWfB] at h
    simp only [EWf, Spec.ExprTyped]; exact noNulValB_sound v h
  | .var x path t _, h => by
    simp only [eWfB] at h
    simp only [EWf, Spec.ExprTyped]; exact pathTypedB_sound _ _ x path t h
  | .un _ e _, h => by
    simp only [eWfB, Bool.and_eq_true] at h
    simp only [EWf, Spec.ExprTyped]
    refine ⟨eWfB_sound sc e h.1, ?_⟩
    cases hty : e.ty with
    | sc t => exact ⟨t, rfl⟩
    | fix n => simp [hty, isScB] at h
    | udt k => simp [hty, isScB] at h
  | .bin op l r t _, h => by
    simp only [eWfB, Bool.and_eq_true] at h
    simp only [EWf, Spec.ExprTyped]
    refine ⟨eWfB_sound sc l h.1.1, eWfB_sound sc r h.1.2, ?_⟩
    have h2 := h.2
    cases hl : RecL.Ref.ETy.asTy l.ty with
    | none => simp [hl] at h2
    | some tl =>
      cases hr : RecL.Ref.ETy.asTy r.ty with
      | none => simp [hl, hr] at h2
      | some tr =>
        simp only [hl, hr, Bool.or_eq_true, decide_eq_true_eq] at h2
        exact ⟨tl, tr, rfl, rfl, h2⟩
  | .paren e _, h => by
    simp only [eWfB] at h
    simp only [EWf, Spec.ExprTyped]; exact eWfB_sound sc e h

theorem numTyB_sound (t : ETy) (h : numTyB t = true) : NumTy t := by
  cases t with
  | sc q => simp only [numTyB, decide_eq_true_eq] at h; exact ⟨q, rfl, h⟩
  | fix n => simp [numTyB] at h
  | udt k => simp [numTyB] at h

theorem itemsWfB_sound (sc : Scope) : ∀ items, itemsWfB sc.types sc.slots items = true → ItemsWf sc items
  | [], _ => trivial
  | .expr e :: rest, h => by
    simp only [itemsWfB, Bool.and_eq_true] at h
    exact ⟨eWfB_sound sc e h.1, itemsWfB_sound sc rest h.2⟩
  | .comma :: rest, h => by
    simp only [itemsWfB] at h
    simp only [ItemsWf]; exact itemsWfB_sound sc rest h
  | .semicolon :: rest, h => by
    simp only [itemsWfB] at h
    simp only [ItemsWf]; exact itemsWfB_sound sc rest h

theorem selRelOpB_sound (op : Op) (h : selRelOpB op = true) : SelRelOp op := by
  simp only [selRelOpB, Bool.or_eq_true, decide_eq_true_eq] at h
  simp only [SelRelOp]
  rcases h with ((((h | h) | h) | h) | h) | h
  · exact .inl h
  · exact .inr (.inl h)
  · exact .inr (.inr (.inl h))
  · exact .inr (.inr (.inr (.inl h)))
  · exact .inr (.inr (.inr (.inr (.inl h))))
  · exact .inr (.inr (.inr (.inr (.inr h))))

theorem caseWfB_sound (sc : Scope) : ∀ c, caseWfB sc.types sc.slots c = true → CaseWf sc c
  | .simple e, h => eWfB_sound sc e h
  | .is op e, h => by
    simp only [caseWfB, Bool.and_eq_true] at h
    exact ⟨selRelOpB_sound op h.1, eWfB_sound sc e h.2⟩
  | .range lo hi, h => by
    simp only [caseWfB, Bool.and_eq_true] at h
    exact ⟨eWfB_sound sc lo h.1, eWfB_sound sc hi h.2⟩

theorem condsWfB_sound (sc : Scope) : ∀ cs, condsWfB sc.types sc.slots cs = true → CondsWf sc cs
  | [], _ => trivial
  | c :: rest, h => by
    simp only [condsWfB, Bool.and_eq_true] at h
    exact ⟨caseWfB_sound sc c h.1, condsWfB_sound sc rest h.2⟩

theorem targetWfB_sound (sc : Scope) (tg : ReadTarget) (h : targetWfB sc.slots tg = true) : TargetWf sc tg := by
  simpa only [targetWfB, TargetWf, decide_eq_true_eq] using h

theorem isSkipB_sound : ∀ s, isSkipB s = true → s = .skip := by
  intro s h; cases s <;> first | rfl | cases h

theorem elseB_sound {hasElse : Bool} {els : SStmt} (h : (hasElse || isSkipB els) = true) :
    hasElse = false → els = .skip := by
  intro hf
  rw [hf] at h
  exact isSkipB_sound els (by simpa using h)

theorem ne_nil_of_not_isEmpty {α : Type} {l : List α} (h : (!l.isEmpty) = true) : l ≠ [] := by
  intro hl; subst hl; simp at h

/-! ### statements -/

mutual
theorem wfB_sound (sc : Scope) : ∀ s, wfB sc.types sc.slots s = true → Wf sc s
  | .skip, _ => trivial
  | .comment, _ => trivial
  | .seq a b, h => by
    simp only [wfB, Bool.and_eq_true] at h
    exact ⟨wfB_sound sc a h.1, wfB_sound sc b h.2⟩
  | .dim x t _, h => by
    simp only [wfB, Bool.and_eq_true, decide_eq_true_eq] at h
    exact h
  | .assign x path t e _, h => by
    simp only [wfB, Bool.and_eq_true] at h
    exact ⟨pathTypedB_sound _ _ x path t h.1, eWfB_sound sc e h.2⟩
  | .print items _, h => by
    simp only [wfB] at h
    exact itemsWfB_sound sc items h
  | .ifBlock c thn elifs hasElse els _, h => by
    simp only [wfB, Bool.and_eq_true] at h
    obtain ⟨⟨⟨⟨⟨h1, h2⟩, h3⟩, h4⟩, h5⟩, h6⟩ := h
    exact ⟨eWfB_sound sc c h1, numTyB_sound _ h2, wfB_sound sc thn h3, wfElifsB_sound sc elifs h4,
      wfB_sound sc els h5, elseB_sound h6⟩
  | .while c body _, h => by
    simp only [wfB, Bool.and_eq_true] at h
    exact ⟨eWfB_sound sc c h.1.1, numTyB_sound _ h.1.2, wfB_sound sc body h.2⟩
  | .doLoop c _ _ body _, h => by
    simp only [wfB, Bool.and_eq_true] at h
    exact ⟨eWfB_sound sc c h.1.1, numTyB_sound _ h.1.2, wfB_sound sc body h.2⟩
  | .end_ _, _ => trivial
  | .data _ _, h => by simp [wfB] at h
  | .read tgs _, h => by
    simp only [wfB, List.all_eq_true] at h
    intro tg htg
    exact targetWfB_sound sc tg (h tg htg)
  | .select e cases hasElse els _, h => by
    simp only [wfB, Bool.and_eq_true] at h
    obtain ⟨⟨⟨h1, h2⟩, h3⟩, h4⟩ := h
    exact ⟨eWfB_sound sc e h1, wfCasesB_sound sc cases h2, wfB_sound sc els h3, elseB_sound h4⟩
  | .forLoop x t lo hi step body _, h => by
    simp only [wfB, Bool.and_eq_true, decide_eq_true_eq] at h
    obtain ⟨⟨⟨⟨⟨h1, h1'⟩, h2⟩, h3⟩, h4⟩, h5⟩ := h
    refine ⟨h1, h1', eWfB_sound sc lo h2, eWfB_sound sc hi h3, ?_, wfB_sound sc body h5⟩
    intro se hse
    subst hse
    exact eWfB_sound sc se h4
theorem wfElifsB_sound (sc : Scope) : ∀ e, wfElifsB sc.types sc.slots e = true → WfElifs sc e
  | .nil, _ => trivial
  | .cons c body rest, h => by
    simp only [wfElifsB, Bool.and_eq_true] at h
    exact ⟨eWfB_sound sc c h.1.1.1, numTyB_sound _ h.1.1.2, wfB_sound sc body h.1.2, wfElifsB_sound sc rest h.2⟩
theorem wfCasesB_sound (sc : Scope) : ∀ cs, wfCasesB sc.types sc.slots cs = true → WfCases sc cs
  | .nil, _ => trivial
  | .cons conds body rest, h => by
    simp only [wfCasesB, Bool.and_eq_true] at h
    exact ⟨ne_nil_of_not_isEmpty h.1.1.1, condsWfB_sound sc conds h.1.1.2, wfB_sound sc body h.1.2,
      wfCasesB_sound sc rest h.2⟩
end

theorem wfTopB_sound (sc : Scope) : ∀ body, wfTopB sc.types sc.slots body = true → WfTop sc body := by
  refine top_induction ?_ ?_
  · intro a b iha ihb h
    simp only [wfTopB, Bool.and_eq_true] at h
    exact ⟨iha h.1, ihb h.2⟩
  · intro st hns h
    cases st with
    | seq a b => exact absurd rfl (hns a b)
    | data items p => trivial
    | _ =>
      simp only [wfTopB] at h
      simp only [WfTop]
      exact wfB_sound sc _ h

/-- the executable premise implies the premise of the theorem -/
theorem progWfB_sound (prog : SProgram) (h : progWfB prog = true) : ProgWf prog := by
  simp only [progWfB, Bool.and_eq_true, List.all_eq_true] at h
  exact ⟨typesWfB_sound prog.types h.1.1, wfTopB_sound (progScope prog) prog.body h.1.2,
    fun v hv => noNulValB_sound v (h.2 v hv)⟩

end RbThm.RecLSim
