import Thm.JmpLWf
import RbModel.JmpL.Enclose
/-!
Jump layer: the checker's rule about jumps into FOR bodies and SELECT CASE blocks (`JmpL.jumpsEnclosedB`, the model of
`ensure_label_blocks_enclose_jump` in `rusty_linter/src/post_linter/label_linter.rs`) against the premise `JmpL.progWfB` of
the layer's simulation theorem.

* `progWf_enclosed`: `progWfB prog = true → jumpsEnclosedB prog = true` — the premise's local depth conditions (a GOTO names a
  label that is not deeper than itself; a GOTO that leaves a FOR body / a SELECT names a label that is not deeper than the
  construct; a GOSUB names a label at depth 0 / 0) imply that no jump enters a FOR body or a SELECT from outside, which is
  the rule the repaired checker enforces.  Hence every program in the premise of `compile_correct` passes the new rule:
  the rule removes nothing from the domain of the theorem, and the programs it rejects were all outside the premise.
* the converse does not hold: the premise is stricter for GOSUB (label at depth 0 / 0, while the checker accepts a GOSUB
  whose label is in the same FOR body) — `enclosed_not_premise`, by evaluation.  `EnclosedGivesGotoRule` states the part of
  the converse that should hold (the GOTO conjuncts); it is not proved here, the harness (`c05j`) evaluates both checkers on
  every explored program and reports every program where they differ together with the reason.
-/
namespace RbThm.JmpLEnclose
set_option linter.unusedVariables false
set_option linter.unusedSimpArgs false
open RbModel RbModel.Num RbModel.JmpL RbModel.JmpL.Compile
open RbModel.Ast (Pos)
open RbThm.JmpLSim RbThm.JmpLLen

/-! ### a GOSUB inside a well-formed statement names a label at depth 0 / 0 -/

mutual
theorem gosub_depths (sl : List Ty) (dp : Dp) : ∀ (s : SStmt) (d e L : Nat), Wf sl dp d e s → L ∈ s.gosubs →
    dp.fd L = 0 ∧ dp.sd L = 0
  | .seq a b, d, e, L, hw, hg => by
    simp only [SStmt.gosubs, List.mem_append] at hg
    rcases hg with hg | hg
    · exact gosub_depths sl dp a d e L hw.1 hg
    · exact gosub_depths sl dp b d e L hw.2 hg
  | .ifBlock c thn elifs hasElse els p, d, e, L, hw, hg => by
    obtain ⟨_, _, h1, h2, h3, _⟩ := hw
    simp only [SStmt.gosubs, List.mem_append] at hg
    rcases hg with hg | hg | hg
    · exact gosub_depths sl dp thn d e L h1 hg
    · exact gosub_depths_elifs sl dp elifs d e L h2 hg
    · exact gosub_depths sl dp els d e L h3 hg
  | .select sel cases hasElse els p, d, e, L, hw, hg => by
    obtain ⟨_, h1, h2, _, _⟩ := hw
    simp only [SStmt.gosubs, List.mem_append] at hg
    rcases hg with hg | hg
    · exact gosub_depths_cases sl dp cases d (e + 1) L h1 hg
    · exact gosub_depths sl dp els d (e + 1) L h2 hg
  | .forLoop x t lo hi step body p, d, e, L, hw, hg => by
    obtain ⟨_, _, _, _, _, h1, _⟩ := hw
    simp only [SStmt.gosubs] at hg
    exact gosub_depths sl dp body (d + 1) e L h1 hg
  | .while c body p, d, e, L, hw, hg => gosub_depths sl dp body d e L hw.2.2 hg
  | .doLoop c top u body p, d, e, L, hw, hg => gosub_depths sl dp body d e L hw.2.2 hg
  | .gosub L' p, d, e, L, hw, hg => by
    simp only [SStmt.gosubs, List.mem_singleton] at hg
    subst hg
    exact hw
  | .skip, _, _, _, _, hg => by simp [SStmt.gosubs] at hg
  | .comment, _, _, _, _, hg => by simp [SStmt.gosubs] at hg
  | .dim _ _ _, _, _, _, _, hg => by simp [SStmt.gosubs] at hg
  | .assign _ _ _ _, _, _, _, _, hg => by simp [SStmt.gosubs] at hg
  | .print _ _, _, _, _, _, hg => by simp [SStmt.gosubs] at hg
  | .data _ _, _, _, _, _, hg => by simp [SStmt.gosubs] at hg
  | .read _ _, _, _, _, _, hg => by simp [SStmt.gosubs] at hg
  | .end_ _, _, _, _, _, hg => by simp [SStmt.gosubs] at hg
  | .label _ _ _, _, _, _, _, hg => by simp [SStmt.gosubs] at hg
  | .goto _ _, _, _, _, _, hg => by simp [SStmt.gosubs] at hg
  | .ret _, _, _, _, _, hg => by simp [SStmt.gosubs] at hg
theorem gosub_depths_elifs (sl : List Ty) (dp : Dp) : ∀ (el : ElseIfs) (d e L : Nat), WfElifs sl dp d e el →
    L ∈ el.gosubs → dp.fd L = 0 ∧ dp.sd L = 0
  | .nil, _, _, _, _, hg => by simp [ElseIfs.gosubs] at hg
  | .cons c body rest, d, e, L, hw, hg => by
    obtain ⟨_, _, h1, h2⟩ := hw
    simp only [ElseIfs.gosubs, List.mem_append] at hg
    rcases hg with hg | hg
    · exact gosub_depths sl dp body d e L h1 hg
    · exact gosub_depths_elifs sl dp rest d e L h2 hg
theorem gosub_depths_cases (sl : List Ty) (dp : Dp) : ∀ (cs : SCases) (d e L : Nat), WfCases sl dp d e cs →
    L ∈ cs.gosubs → dp.fd L = 0 ∧ dp.sd L = 0
  | .nil, _, _, _, _, hg => by simp [SCases.gosubs] at hg
  | .cons conds body rest, d, e, L, hw, hg => by
    obtain ⟨_, _, h1, h2⟩ := hw
    simp only [SCases.gosubs, List.mem_append] at hg
    rcases hg with hg | hg
    · exact gosub_depths sl dp body d e L h1 hg
    · exact gosub_depths_cases sl dp rest d e L h2 hg
end

/-- a jump (GOTO or GOSUB) inside a well-formed statement whose label is outside it names a label that is not deeper
than the statement -/
theorem jump_leaves {sl : List Ty} {dp : Dp} {s : SStmt} {d e L : Nat} (hw : Wf sl dp d e s) (hj : L ∈ s.jumps)
    (hl : L ∉ s.labels) : dp.fd L ≤ d ∧ dp.sd L ≤ e := by
  simp only [SStmt.jumps, List.mem_append] at hj
  rcases hj with hj | hj
  · exact goto_depths sl dp s d e L hw hj hl
  · obtain ⟨h1, h2⟩ := gosub_depths sl dp s d e L hw hj
    omega

theorem jump_leaves_elifs {sl : List Ty} {dp : Dp} {el : ElseIfs} {d e L : Nat} (hw : WfElifs sl dp d e el)
    (hj : L ∈ el.jumps) (hl : L ∉ el.labels) : dp.fd L ≤ d ∧ dp.sd L ≤ e := by
  simp only [ElseIfs.jumps, List.mem_append] at hj
  rcases hj with hj | hj
  · exact goto_depths_elifs sl dp el d e L hw hj hl
  · obtain ⟨h1, h2⟩ := gosub_depths_elifs sl dp el d e L hw hj
    omega

theorem jump_leaves_cases {sl : List Ty} {dp : Dp} {cs : SCases} {d e L : Nat} (hw : WfCases sl dp d e cs)
    (hj : L ∈ cs.jumps) (hl : L ∉ cs.labels) : dp.fd L ≤ d ∧ dp.sd L ≤ e := by
  simp only [SCases.jumps, List.mem_append] at hj
  rcases hj with hj | hj
  · exact goto_depths_cases sl dp cs d e L hw hj hl
  · obtain ⟨h1, h2⟩ := gosub_depths_cases sl dp cs d e L hw hj
    omega

/-! ### the invariant of the induction -/

/-- the depths `dp` records for the labels listed in a depth table are those of the table -/
def DepIn (dp : Dp) (tbl : List (Nat × Nat × Nat)) : Prop := ∀ L d' e', (L, d', e') ∈ tbl → dp.fd L = d' ∧ dp.sd L = e'

/-- what is known about the jumps outside a statement at depth `d` / `e` with the labels `labels`: those that name one of
its labels name a label that is not deeper than the statement -/
def OuterOk (dp : Dp) (d e : Nat) (outer labels : List Nat) : Prop := ∀ L ∈ outer, L ∈ labels → dp.fd L ≤ d ∧ dp.sd L ≤ e

theorem OuterOk.app {dp : Dp} {d e : Nat} {outer extra labels : List Nat} (h1 : OuterOk dp d e outer labels)
    (h2 : OuterOk dp d e extra labels) : OuterOk dp d e (outer ++ extra) labels := by
  intro L hL hm
  rcases List.mem_append.mp hL with h | h
  · exact h1 L h hm
  · exact h2 L h hm

theorem OuterOk.mono {dp : Dp} {d e : Nat} {outer l1 l2 : List Nat} (h : OuterOk dp d e outer l2)
    (hs : ∀ L, L ∈ l1 → L ∈ l2) : OuterOk dp d e outer l1 := fun L hL hm => h L hL (hs L hm)

theorem noneIntoB_of {outer inner : List Nat} (h : ∀ L ∈ outer, L ∉ inner) : noneIntoB outer inner = true := by
  simp only [noneIntoB, List.all_eq_true, Bool.not_eq_true', List.contains_eq_mem, decide_eq_false_iff_not]
  exact h

theorem OuterOk.of_none {dp : Dp} {d e : Nat} {outer labels : List Nat} (h : ∀ L ∈ outer, L ∉ labels) :
    OuterOk dp d e outer labels := fun L hL hm => absurd hm (h L hL)

/-! ### the premise's depth conditions imply enclosure -/

mutual
theorem enc_of_wf (sl : List Ty) (dp : Dp) : ∀ (s : SStmt) (d e : Nat) (outer : List Nat), Wf sl dp d e s →
    DepIn dp (depthTable d e s) → s.labels.Nodup → OuterOk dp d e outer s.labels → encB outer s = true
  | .seq a b, d, e, outer, hw, hd, hn, ho => by
    simp only [SStmt.labels] at hn ho
    obtain ⟨hna, hnb, hdis⟩ := List.nodup_append.mp hn
    have hda : DepIn dp (depthTable d e a) := fun L d' e' hm => hd L d' e' (by simp only [depthTable, List.mem_append]; exact .inl hm)
    have hdb : DepIn dp (depthTable d e b) := fun L d' e' hm => hd L d' e' (by simp only [depthTable, List.mem_append]; exact .inr hm)
    simp only [encB, Bool.and_eq_true]
    refine ⟨enc_of_wf sl dp a d e _ hw.1 hda hna (OuterOk.app (ho.mono fun L h => List.mem_append.mpr (.inl h)) ?_),
      enc_of_wf sl dp b d e _ hw.2 hdb hnb (OuterOk.app (ho.mono fun L h => List.mem_append.mpr (.inr h)) ?_)⟩
    · intro L hj hm
      exact jump_leaves hw.2 hj (fun hb => hdis L hm L hb rfl)
    · intro L hj hm
      exact jump_leaves hw.1 hj (fun ha => hdis L ha L hm rfl)
  | .ifBlock c thn elifs hasElse els p, d, e, outer, hw, hd, hn, ho => by
    obtain ⟨_, _, h1, h2, h3, _⟩ := hw
    simp only [SStmt.labels] at hn ho
    obtain ⟨hn1, hn23, hdis1⟩ := List.nodup_append.mp hn
    obtain ⟨hn2, hn3, hdis2⟩ := List.nodup_append.mp hn23
    have hd1 : DepIn dp (depthTable d e thn) := fun L d' e' hm =>
      hd L d' e' (by simp only [depthTable, List.mem_append]; exact .inl (.inl hm))
    have hd2 : DepIn dp (depthElifs d e elifs) := fun L d' e' hm =>
      hd L d' e' (by simp only [depthTable, List.mem_append]; exact .inl (.inr hm))
    have hd3 : DepIn dp (depthTable d e els) := fun L d' e' hm =>
      hd L d' e' (by simp only [depthTable, List.mem_append]; exact .inr hm)
    have d12 : ∀ L, L ∈ thn.labels → L ∉ elifs.labels := fun L h1' h2' =>
      hdis1 L h1' L (List.mem_append.mpr (.inl h2')) rfl
    have d13 : ∀ L, L ∈ thn.labels → L ∉ els.labels := fun L h1' h3' =>
      hdis1 L h1' L (List.mem_append.mpr (.inr h3')) rfl
    have d23 : ∀ L, L ∈ elifs.labels → L ∉ els.labels := fun L h2' h3' => hdis2 L h2' L h3' rfl
    simp only [encB, Bool.and_eq_true]
    refine ⟨⟨enc_of_wf sl dp thn d e _ h1 hd1 hn1 (OuterOk.app (ho.mono fun L h => List.mem_append.mpr (.inl h)) ?_),
      enc_elifs_of_wf sl dp elifs d e _ h2 hd2 hn2
        (OuterOk.app (ho.mono fun L h => List.mem_append.mpr (.inr (List.mem_append.mpr (.inl h)))) ?_)⟩,
      enc_of_wf sl dp els d e _ h3 hd3 hn3
        (OuterOk.app (ho.mono fun L h => List.mem_append.mpr (.inr (List.mem_append.mpr (.inr h)))) ?_)⟩
    · intro L hj hm
      rcases List.mem_append.mp hj with hj | hj
      · exact jump_leaves_elifs h2 hj (d12 L hm)
      · exact jump_leaves h3 hj (d13 L hm)
    · intro L hj hm
      rcases List.mem_append.mp hj with hj | hj
      · exact jump_leaves h1 hj (fun h => d12 L h hm)
      · exact jump_leaves h3 hj (d23 L hm)
    · intro L hj hm
      rcases List.mem_append.mp hj with hj | hj
      · exact jump_leaves h1 hj (fun h => d13 L h hm)
      · exact jump_leaves_elifs h2 hj (fun h => d23 L h hm)
  | .select sel cases hasElse els p, d, e, outer, hw, hd, hn, ho => by
    obtain ⟨_, h1, h2, _, _⟩ := hw
    simp only [SStmt.labels] at hn ho
    obtain ⟨hn1, hn2, hdis⟩ := List.nodup_append.mp hn
    have hd1 : DepIn dp (depthCases d (e + 1) cases) := fun L d' e' hm =>
      hd L d' e' (by simp only [depthTable, List.mem_append]; exact .inl hm)
    have hd2 : DepIn dp (depthTable d (e + 1) els) := fun L d' e' hm =>
      hd L d' e' (by simp only [depthTable, List.mem_append]; exact .inr hm)
    -- a label of the blocks is deeper than the SELECT, so no outer jump names it
    have hni : ∀ L ∈ outer, L ∉ cases.labels ++ els.labels := by
      intro L hL hm
      obtain ⟨_, hsd⟩ := ho L hL hm
      rcases List.mem_append.mp hm with hm' | hm'
      · obtain ⟨d', e', hmem, _, he⟩ := depth_of_label_cases cases d (e + 1) L hm'
        obtain ⟨_, h⟩ := hd1 L d' e' hmem
        omega
      · obtain ⟨d', e', hmem, _, he⟩ := depth_of_label els d (e + 1) L hm'
        obtain ⟨_, h⟩ := hd2 L d' e' hmem
        omega
    simp only [encB, Bool.and_eq_true]
    refine ⟨⟨noneIntoB_of hni, enc_cases_of_wf sl dp cases d (e + 1) _ h1 hd1 hn1 (OuterOk.app ?_ ?_)⟩,
      enc_of_wf sl dp els d (e + 1) _ h2 hd2 hn2 (OuterOk.app ?_ ?_)⟩
    · exact OuterOk.of_none fun L hL hm => hni L hL (List.mem_append.mpr (.inl hm))
    · intro L hj hm
      exact jump_leaves h2 hj (fun hb => hdis L hm L hb rfl)
    · exact OuterOk.of_none fun L hL hm => hni L hL (List.mem_append.mpr (.inr hm))
    · intro L hj hm
      exact jump_leaves_cases h1 hj (fun ha => hdis L ha L hm rfl)
  | .forLoop x t lo hi step body p, d, e, outer, hw, hd, hn, ho => by
    obtain ⟨_, _, _, _, _, h1, _⟩ := hw
    simp only [SStmt.labels] at hn ho
    have hd1 : DepIn dp (depthTable (d + 1) e body) := fun L d' e' hm => hd L d' e' (by simpa only [depthTable] using hm)
    -- a label of the body is deeper than the FOR, so no outer jump names it
    have hni : ∀ L ∈ outer, L ∉ body.labels := by
      intro L hL hm
      obtain ⟨hfd, _⟩ := ho L hL hm
      obtain ⟨d', e', hmem, hge, _⟩ := depth_of_label body (d + 1) e L hm
      obtain ⟨h, _⟩ := hd1 L d' e' hmem
      omega
    simp only [encB, Bool.and_eq_true]
    exact ⟨noneIntoB_of hni, enc_of_wf sl dp body (d + 1) e _ h1 hd1 hn (OuterOk.of_none hni)⟩
  | .while c body p, d, e, outer, hw, hd, hn, ho => by
    simp only [encB]
    exact enc_of_wf sl dp body d e _ hw.2.2 (fun L d' e' hm => hd L d' e' (by simpa only [depthTable] using hm)) hn ho
  | .doLoop c top u body p, d, e, outer, hw, hd, hn, ho => by
    simp only [encB]
    exact enc_of_wf sl dp body d e _ hw.2.2 (fun L d' e' hm => hd L d' e' (by simpa only [depthTable] using hm)) hn ho
  | .skip, _, _, _, _, _, _, _ => by simp [encB]
  | .comment, _, _, _, _, _, _, _ => by simp [encB]
  | .dim _ _ _, _, _, _, _, _, _, _ => by simp [encB]
  | .assign _ _ _ _, _, _, _, _, _, _, _ => by simp [encB]
  | .print _ _, _, _, _, _, _, _, _ => by simp [encB]
  | .data _ _, _, _, _, _, _, _, _ => by simp [encB]
  | .read _ _, _, _, _, _, _, _, _ => by simp [encB]
  | .end_ _, _, _, _, _, _, _, _ => by simp [encB]
  | .label _ _ _, _, _, _, _, _, _, _ => by simp [encB]
  | .goto _ _, _, _, _, _, _, _, _ => by simp [encB]
  | .gosub _ _, _, _, _, _, _, _, _ => by simp [encB]
  | .ret _, _, _, _, _, _, _, _ => by simp [encB]
theorem enc_elifs_of_wf (sl : List Ty) (dp : Dp) : ∀ (el : ElseIfs) (d e : Nat) (outer : List Nat), WfElifs sl dp d e el →
    DepIn dp (depthElifs d e el) → el.labels.Nodup → OuterOk dp d e outer el.labels → encElifsB outer el = true
  | .nil, _, _, _, _, _, _, _ => by simp [encElifsB]
  | .cons c body rest, d, e, outer, hw, hd, hn, ho => by
    obtain ⟨_, _, h1, h2⟩ := hw
    simp only [ElseIfs.labels] at hn ho
    obtain ⟨hna, hnb, hdis⟩ := List.nodup_append.mp hn
    have hda : DepIn dp (depthTable d e body) := fun L d' e' hm => hd L d' e' (by simp only [depthElifs, List.mem_append]; exact .inl hm)
    have hdb : DepIn dp (depthElifs d e rest) := fun L d' e' hm => hd L d' e' (by simp only [depthElifs, List.mem_append]; exact .inr hm)
    simp only [encElifsB, Bool.and_eq_true]
    refine ⟨enc_of_wf sl dp body d e _ h1 hda hna (OuterOk.app (ho.mono fun L h => List.mem_append.mpr (.inl h)) ?_),
      enc_elifs_of_wf sl dp rest d e _ h2 hdb hnb (OuterOk.app (ho.mono fun L h => List.mem_append.mpr (.inr h)) ?_)⟩
    · intro L hj hm
      exact jump_leaves_elifs h2 hj (fun hb => hdis L hm L hb rfl)
    · intro L hj hm
      exact jump_leaves h1 hj (fun ha => hdis L ha L hm rfl)
theorem enc_cases_of_wf (sl : List Ty) (dp : Dp) : ∀ (cs : SCases) (d e : Nat) (outer : List Nat), WfCases sl dp d e cs →
    DepIn dp (depthCases d e cs) → cs.labels.Nodup → OuterOk dp d e outer cs.labels → encCasesB outer cs = true
  | .nil, _, _, _, _, _, _, _ => by simp [encCasesB]
  | .cons conds body rest, d, e, outer, hw, hd, hn, ho => by
    obtain ⟨_, _, h1, h2⟩ := hw
    simp only [SCases.labels] at hn ho
    obtain ⟨hna, hnb, hdis⟩ := List.nodup_append.mp hn
    have hda : DepIn dp (depthTable d e body) := fun L d' e' hm => hd L d' e' (by simp only [depthCases, List.mem_append]; exact .inl hm)
    have hdb : DepIn dp (depthCases d e rest) := fun L d' e' hm => hd L d' e' (by simp only [depthCases, List.mem_append]; exact .inr hm)
    simp only [encCasesB, Bool.and_eq_true]
    refine ⟨enc_of_wf sl dp body d e _ h1 hda hna (OuterOk.app (ho.mono fun L h => List.mem_append.mpr (.inl h)) ?_),
      enc_cases_of_wf sl dp rest d e _ h2 hdb hnb (OuterOk.app (ho.mono fun L h => List.mem_append.mpr (.inr h)) ?_)⟩
    · intro L hj hm
      exact jump_leaves_cases h2 hj (fun hb => hdis L hm L hb rfl)
    · intro L hj hm
      exact jump_leaves h1 hj (fun ha => hdis L ha L hm rfl)
end

/-! ### the top level (DATA statements allowed) -/

/-- `WfTop` is `Wf` at depth 0 / 0 except for the top-level DATA statements, which define no label and contain no jump -/
theorem jump_leaves_top (sl : List Ty) (dp : Dp) : ∀ (s : SStmt) (L : Nat), WfTop sl dp s → L ∈ s.jumps → L ∉ s.labels →
    dp.fd L ≤ 0 ∧ dp.sd L ≤ 0
  | .seq a b, L, hw, hj, hl => by
    simp only [SStmt.labels, List.mem_append, not_or] at hl
    simp only [SStmt.jumps, SStmt.gotos, SStmt.gosubs, List.mem_append] at hj
    have hj' : L ∈ a.jumps ∨ L ∈ b.jumps := by
      simp only [SStmt.jumps, List.mem_append]
      rcases hj with (h | h) | (h | h)
      · exact .inl (.inl h)
      · exact .inr (.inl h)
      · exact .inl (.inr h)
      · exact .inr (.inr h)
    rcases hj' with h | h
    · exact jump_leaves_top sl dp a L hw.1 h hl.1
    · exact jump_leaves_top sl dp b L hw.2 h hl.2
  | .data _ _, L, _, hj, _ => by simp [SStmt.jumps, SStmt.gotos, SStmt.gosubs] at hj
  | .skip, L, hw, hj, hl => jump_leaves (d := 0) (e := 0) hw hj hl
  | .comment, L, hw, hj, hl => jump_leaves (d := 0) (e := 0) hw hj hl
  | .dim _ _ _, L, hw, hj, hl => jump_leaves (d := 0) (e := 0) hw hj hl
  | .assign _ _ _ _, L, hw, hj, hl => jump_leaves (d := 0) (e := 0) hw hj hl
  | .print _ _, L, hw, hj, hl => jump_leaves (d := 0) (e := 0) hw hj hl
  | .read _ _, L, hw, hj, hl => jump_leaves (d := 0) (e := 0) hw hj hl
  | .ifBlock _ _ _ _ _ _, L, hw, hj, hl => jump_leaves (d := 0) (e := 0) hw hj hl
  | .select _ _ _ _ _, L, hw, hj, hl => jump_leaves (d := 0) (e := 0) hw hj hl
  | .forLoop _ _ _ _ _ _ _, L, hw, hj, hl => jump_leaves (d := 0) (e := 0) hw hj hl
  | .while _ _ _, L, hw, hj, hl => jump_leaves (d := 0) (e := 0) hw hj hl
  | .doLoop _ _ _ _ _, L, hw, hj, hl => jump_leaves (d := 0) (e := 0) hw hj hl
  | .end_ _, L, hw, hj, hl => jump_leaves (d := 0) (e := 0) hw hj hl
  | .label _ _ _, L, hw, hj, hl => jump_leaves (d := 0) (e := 0) hw hj hl
  | .goto _ _, L, hw, hj, hl => jump_leaves (d := 0) (e := 0) hw hj hl
  | .gosub _ _, L, hw, hj, hl => jump_leaves (d := 0) (e := 0) hw hj hl
  | .ret _, L, hw, hj, hl => jump_leaves (d := 0) (e := 0) hw hj hl

theorem enc_of_wfTop (sl : List Ty) (dp : Dp) : ∀ (s : SStmt) (outer : List Nat), WfTop sl dp s →
    DepIn dp (depthTable 0 0 s) → s.labels.Nodup → OuterOk dp 0 0 outer s.labels → encB outer s = true
  | .seq a b, outer, hw, hd, hn, ho => by
    simp only [SStmt.labels] at hn ho
    obtain ⟨hna, hnb, hdis⟩ := List.nodup_append.mp hn
    have hda : DepIn dp (depthTable 0 0 a) := fun L d' e' hm => hd L d' e' (by simp only [depthTable, List.mem_append]; exact .inl hm)
    have hdb : DepIn dp (depthTable 0 0 b) := fun L d' e' hm => hd L d' e' (by simp only [depthTable, List.mem_append]; exact .inr hm)
    simp only [encB, Bool.and_eq_true]
    refine ⟨enc_of_wfTop sl dp a _ hw.1 hda hna (OuterOk.app (ho.mono fun L h => List.mem_append.mpr (.inl h)) ?_),
      enc_of_wfTop sl dp b _ hw.2 hdb hnb (OuterOk.app (ho.mono fun L h => List.mem_append.mpr (.inr h)) ?_)⟩
    · intro L hj hm
      exact jump_leaves_top sl dp b L hw.2 hj (fun hb => hdis L hm L hb rfl)
    · intro L hj hm
      exact jump_leaves_top sl dp a L hw.1 hj (fun ha => hdis L ha L hm rfl)
  | .data _ _, _, _, _, _, _ => by simp [encB]
  | .skip, outer, hw, hd, hn, ho => enc_of_wf sl dp _ 0 0 outer hw hd hn ho
  | .comment, outer, hw, hd, hn, ho => enc_of_wf sl dp _ 0 0 outer hw hd hn ho
  | .dim _ _ _, outer, hw, hd, hn, ho => enc_of_wf sl dp _ 0 0 outer hw hd hn ho
  | .assign _ _ _ _, outer, hw, hd, hn, ho => enc_of_wf sl dp _ 0 0 outer hw hd hn ho
  | .print _ _, outer, hw, hd, hn, ho => enc_of_wf sl dp _ 0 0 outer hw hd hn ho
  | .read _ _, outer, hw, hd, hn, ho => enc_of_wf sl dp _ 0 0 outer hw hd hn ho
  | .ifBlock _ _ _ _ _ _, outer, hw, hd, hn, ho => enc_of_wf sl dp _ 0 0 outer hw hd hn ho
  | .select _ _ _ _ _, outer, hw, hd, hn, ho => enc_of_wf sl dp _ 0 0 outer hw hd hn ho
  | .forLoop _ _ _ _ _ _ _, outer, hw, hd, hn, ho => enc_of_wf sl dp _ 0 0 outer hw hd hn ho
  | .while _ _ _, outer, hw, hd, hn, ho => enc_of_wf sl dp _ 0 0 outer hw hd hn ho
  | .doLoop _ _ _ _ _, outer, hw, hd, hn, ho => enc_of_wf sl dp _ 0 0 outer hw hd hn ho
  | .end_ _, outer, hw, hd, hn, ho => enc_of_wf sl dp _ 0 0 outer hw hd hn ho
  | .label _ _ _, outer, hw, hd, hn, ho => enc_of_wf sl dp _ 0 0 outer hw hd hn ho
  | .goto _ _, outer, hw, hd, hn, ho => enc_of_wf sl dp _ 0 0 outer hw hd hn ho
  | .gosub _ _, outer, hw, hd, hn, ho => enc_of_wf sl dp _ 0 0 outer hw hd hn ho
  | .ret _, outer, hw, hd, hn, ho => enc_of_wf sl dp _ 0 0 outer hw hd hn ho

/-- the depths of the program's table are the depths `dpOf` answers, when every label is defined once -/
theorem depIn_dpOf (prog : SProgram) (hn : prog.body.labels.Nodup) : DepIn (dpOf prog) (depthTable 0 0 prog.body) := by
  intro L d' e' hm
  have hk : ((depthTable 0 0 prog.body).map Prod.fst).Nodup := by rw [depth_keys]; exact hn
  have := lookupDepth_of_mem _ hk L (d', e') hm
  simp [dpOf, Dp.ofTable, this]

/-- **the premise of the simulation theorem implies the checker's rule**: in a program `progWfB` accepts no GOTO and no GOSUB
enters a FOR body or a SELECT CASE from outside.  So "accepted by the repaired checker" is a necessary condition of the
premise, and the rule rejects no program the theorem speaks about. -/
theorem progWf_enclosed (prog : SProgram) (h : progWfB prog = true) : jumpsEnclosedB prog = true := by
  obtain ⟨hw, hn⟩ := progWfB_sound prog h
  exact enc_of_wfTop prog.slots (dpOf prog) prog.body [] hw (depIn_dpOf prog hn) hn (fun L hL => by simp at hL)

/-- contrapositive, as the harness uses it: a program the checker's rule rejects is outside the premise -/
theorem not_enclosed_not_premise (prog : SProgram) (h : jumpsEnclosedB prog = false) : progWfB prog = false := by
  cases hp : progWfB prog with
  | false => rfl
  | true => rw [progWf_enclosed prog hp] at h; exact absurd h (by decide)

/-! ### examples -/

private def p0 : Pos := ⟨1, 1⟩
private def lit1 : Ast.Expr := .lit (.int 1) p0

/-- `GOTO 0 : FOR x = 1 TO 1 : 0: : NEXT` — the jump of `into_for.bas` -/
def intoFor : SProgram :=
  ⟨[.int], .seq (.goto 0 p0) (.forLoop 0 .int lit1 lit1 none (.label 0 "L" p0) p0)⟩

/-- `FOR x = 1 TO 1 : GOTO 0 : NEXT : FOR x = 1 TO 1 : 0: : NEXT` — from a FOR body into the body of the next FOR -/
def siblingFor : SProgram :=
  ⟨[.int], .seq (.forLoop 0 .int lit1 lit1 none (.goto 0 p0) p0)
    (.forLoop 0 .int lit1 lit1 none (.label 0 "L" p0) p0)⟩

/-- `FOR x = 1 TO 1 : 0: : GOTO 1 : NEXT : 1:` — a jump inside a body and a jump that leaves it -/
def insideAndOut : SProgram :=
  ⟨[.int], .seq (.forLoop 0 .int lit1 lit1 none (.seq (.label 0 "L" p0) (.seq (.goto 1 p0) (.goto 0 p0))) p0)
    (.label 1 "M" p0)⟩

/-- `FOR x = 1 TO 1 : 0: : GOSUB 0 : NEXT` — a GOSUB whose label is in the same FOR body -/
def gosubInside : SProgram :=
  ⟨[.int], .forLoop 0 .int lit1 lit1 none (.seq (.label 0 "L" p0) (.gosub 0 p0)) p0⟩

/-- the rule rejects the jumps of the finding, equal depths notwithstanding -/
example : jumpsEnclosedB intoFor = false ∧ jumpsEnclosedB siblingFor = false := by decide

/-- non-vacuity of `progWf_enclosed`: a program with a label in a FOR body, a jump to it and a jump out of the body is
inside the premise (and passes the rule) -/
example : progWfB insideAndOut = true ∧ jumpsEnclosedB insideAndOut = true := by decide +kernel

/-- **the converse fails**: the premise wants every GOSUB label at depth 0 / 0, the checker's rule does not -/
theorem enclosed_not_premise : jumpsEnclosedB gosubInside = true ∧ progWfB gosubInside = false := by decide +kernel

/-- the part of the converse that should hold, stated and not proved: for a program whose labels are defined once and whose
GOTO / GOSUB targets are defined, the checker's rule gives the premise's depth condition at every GOTO (with the two
`Leaves` conditions it is what `Wf` asks of a GOTO) -/
def EnclosedGivesGotoRule : Prop :=
  ∀ prog : SProgram, prog.body.labels.Nodup → (∀ L ∈ prog.body.jumps, L ∈ prog.body.labels) → jumpsEnclosedB prog = true →
    prog.body.gosubs = [] → (∀ sl, WfTop sl ⟨fun _ => 0, fun _ => 0⟩ prog.body → WfTop sl (dpOf prog) prog.body)

end RbThm.JmpLEnclose
