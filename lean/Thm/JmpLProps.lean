import Thm.JmpLRef
/-!
JmpLProps — the clauses of property C05 that concern GOTO / GOSUB / RETURN, over the reference semantics `JmpL.Ref` alone,
for arbitrary programs, any nesting, any fuel.

The semantics is big-step, so "the state at the jump" is the state component of the answer `(s₁, jump L)` /
`(s₁, ret p)` of the sub-statement in which the GOTO / RETURN was executed; the theorems say what every enclosing construct
makes of that answer.  By `JmpLRef.exec_fuel_mono` every equation `exec (n + k) … = …` below holds for every larger fuel as
well, once the right-hand side has ended.
-/
namespace RbThm.JmpLProps
open RbModel RbModel.Num RbModel.JmpL RbModel.JmpL.Ref RbThm.JmpLRef
open RbModel.Ast (Pos PrintItem CaseExpr)
open RbModel.Ref (St ERes eval evalTo codeOf codeOutOfData codeZeroStep zeroOf truthy printValue endsInSeparator StepSign)

/-! ## GOTO continues at its label -/

/-- a `seq` entered in its first part -/
theorem exec_seq_enter_left (n P a b m s) (hen : m.enters a = true) :
    exec (n + 1) P (.seq a b) m s = catchJump n P (.seq a b) (thenRun n P b (exec n P a m s)) := by
  cases m with
  | run => exact exec_seq_run n P a b s
  | seek L => exact exec_seq_seek_left n P a b L s hen

/-- **GOTO continues at its label** (jump raised in the first part of a sequence).  `a` is any statement — any nest of
IF / WHILE / DO / FOR / SELECT — whose execution ended in `jump L` at state `s₁` (a `GOTO L` was executed there and the
jump left `a`); if the label `L` is anywhere inside `seq a b` the sequence continues from `s₁` *at the label*: the answer is
that of `seq a b` entered in `seek L` mode. -/
theorem goto_continues_at_label (n : Nat) (P a b : Stmt) (m : Mode) (s s₁ : St) (L : Nat)
    (hen : m.enters a = true) (hj : exec n P a m s = (s₁, .jump L)) (hL : (Stmt.seq a b).hasLabel L = true) :
    exec (n + 1) P (.seq a b) m s = exec n P (.seq a b) (.seek L) s₁ := by
  rw [exec_seq_enter_left n P a b m s hen, hj, thenRun_jump, catchJump_own hL]

/-- the same, the jump raised in the second part -/
theorem goto_continues_at_label_right (n : Nat) (P a b : Stmt) (m : Mode) (s s₀ s₁ : St) (L : Nat)
    (hen : m.enters a = true) (ha : exec n P a m s = (s₀, .normal)) (hj : exec n P b .run s₀ = (s₁, .jump L))
    (hL : (Stmt.seq a b).hasLabel L = true) :
    exec (n + 1) P (.seq a b) m s = exec n P (.seq a b) (.seek L) s₁ := by
  rw [exec_seq_enter_left n P a b m s hen, ha, thenRun_normal, hj, catchJump_own hL]

/-- a sequence that does not contain the label passes the jump on to its parent, state unchanged -/
theorem goto_leaves_seq (n : Nat) (P a b : Stmt) (m : Mode) (s s₁ : St) (L : Nat)
    (hen : m.enters a = true) (hj : exec n P a m s = (s₁, .jump L)) (hL : (Stmt.seq a b).hasLabel L = false) :
    exec (n + 1) P (.seq a b) m s = (s₁, .jump L) := by
  rw [exec_seq_enter_left n P a b m s hen, hj, thenRun_jump, catchJump_other hL]

/-- **Seeking finds the label and continues with exactly what follows it**: `label L : k` entered in `seek L` mode runs
`k` (from the unchanged state). -/
theorem seek_continues_after_label (n : Nat) (P k : Stmt) (L : Nat) (s : St) :
    exec (n + 2) P (.seq (.label L) k) (.seek L) s =
      catchJump (n + 1) P (.seq (.label L) k) (exec (n + 1) P k .run s) := by
  rw [exec_seq_seek_left (n + 1) P (.label L) k L s (by simp), exec_label_seek, thenRun_normal]

/-- **Seeking skips what does not contain the label, without any effect**: statements in front of the label are not
executed. -/
theorem seek_skips_unlabelled (n : Nat) (P a b : Stmt) (L : Nat) (s : St)
    (ha : a.hasLabel L = false) (hb : b.hasLabel L = true) :
    exec (n + 1) P (.seq a b) (.seek L) s = catchJump n P (.seq a b) (exec n P b (.seek L) s) :=
  exec_seq_seek_right n P a b L s ha hb

/-- **Forward GOTO, end to end**: `GOTO L : mid : L: k` with no `L` inside `mid` runs `k` from the state at the GOTO;
`mid` is skipped without effect.  (The three `catchJump`s are the three enclosing `seq`s, which would catch a jump that `k`
raises to one of their labels; they vanish when `k` does not end in a jump: `goto_forward_ends`.) -/
theorem goto_forward (n : Nat) (P mid k : Stmt) (L : Nat) (s : St) (hmid : mid.hasLabel L = false) :
    exec (n + 5) P (.seq (.goto L) (.seq mid (.seq (.label L) k))) .run s =
      catchJump (n + 3) P (.seq (.goto L) (.seq mid (.seq (.label L) k)))
        (catchJump (n + 2) P (.seq mid (.seq (.label L) k))
          (catchJump (n + 1) P (.seq (.label L) k) (exec (n + 1) P k .run s))) := by
  have h3 : (Stmt.seq (.label L) k).hasLabel L = true := by simp
  have h2 : (Stmt.seq mid (.seq (.label L) k)).hasLabel L = true := by simp
  have h1 : (Stmt.seq (.goto L) (.seq mid (.seq (.label L) k))).hasLabel L = true := by simp
  rw [exec_seq_run, exec_goto, thenRun_jump, catchJump_own h1,
    exec_seq_seek_right (n + 3) P _ _ L s (by simp) h2,
    exec_seq_seek_right (n + 2) P _ _ L s hmid h3, seek_continues_after_label]

theorem catchJump_of_not_jump {n P me s' o} (h : ∀ L, o ≠ .jump L) : catchJump n P me (s', o) = (s', o) := by
  cases o <;> first | rfl | exact absurd rfl (h _)

/-- … and when `k` ends in anything but a jump, that is how the whole fragment ends -/
theorem goto_forward_ends (n : Nat) (P mid k : Stmt) (L : Nat) (s s' : St) (o : Outcome)
    (hmid : mid.hasLabel L = false) (hk : exec (n + 1) P k .run s = (s', o)) (ho : ∀ L', o ≠ .jump L') :
    exec (n + 5) P (.seq (.goto L) (.seq mid (.seq (.label L) k))) .run s = (s', o) := by
  rw [goto_forward n P mid k L s hmid, hk]
  simp only [catchJump_of_not_jump ho]

/-! ### jumps out of and inside IF / WHILE / DO bodies -/

/-- a GOTO out of a WHILE body to a label outside the loop ends the loop at once, state unchanged -/
theorem goto_leaves_while (n P c body p s s₁ L) (hc : evalCond s.env c = .ok true)
    (hj : exec n P body .run s = (s₁, .jump L)) (hL : body.hasLabel L = false) :
    exec (n + 1) P (.while c body p) .run s = (s₁, .jump L) := by
  rw [exec_while_run_true n P c body p s hc, hj, loopNext_other hL]

/-- the restart branches of WHILE / DO / FOR for a label of their *body* never fire: the body handles the jumps to its own
labels itself (`JmpLRef.exec_jump_not_own_label`), so a `jump L` that reaches the loop names a label outside the body -/
theorem loop_body_jump_is_outside {n P body m s s₁ L} (hj : exec n P body m s = (s₁, .jump L)) :
    body.hasLabel L = false :=
  exec_jump_not_own_label hj

/-- a GOTO inside a WHILE body (`a : b`, the jump raised in `a`) to a label of the same body is a `continue`-like jump: the
body goes on at the label, then the loop goes on with its test as after any round -/
theorem goto_inside_while (n P c a b p s s₁ L) (hc : evalCond s.env c = .ok true)
    (hj : exec n P a .run s = (s₁, .jump L)) (hL : (Stmt.seq a b).hasLabel L = true) :
    exec (n + 2) P (.while c (.seq a b) p) .run s =
      loopNext (n + 1) P (.while c (.seq a b) p) (.seq a b) (exec n P (.seq a b) (.seek L) s₁) := by
  rw [exec_while_run_true (n + 1) P c _ p s hc, goto_continues_at_label n P a b .run s s₁ L rfl hj hL]

/-- a jump *into* a WHILE body from outside: the body is entered at the label, then the loop goes on with its test -/
theorem goto_into_while (n P c body p s L) (hL : body.hasLabel L = true) :
    exec (n + 1) P (.while c body p) (.seek L) s =
      loopNext n P (.while c body p) body (exec n P body (.seek L) s) :=
  exec_while_seek n P c body p L s hL

theorem goto_leaves_doTop (n P c u body p s s₁ L b) (hc : evalCond s.env c = .ok b) (hb : (b != u) = true)
    (hj : exec n P body .run s = (s₁, .jump L)) (hL : body.hasLabel L = false) :
    exec (n + 1) P (.doLoop c true u body p) .run s = (s₁, .jump L) := by
  rw [exec_doTop_run_enter n P c u body p s b hc hb, hj, loopNext_other hL]

/-- a GOTO out of an IF block to a label outside the IF leaves the IF, state unchanged -/
theorem goto_leaves_if (n P c thn els p s s₁ L) (hc : evalCond s.env c = .ok true)
    (hj : exec n P thn .run s = (s₁, .jump L)) (hL : (Stmt.ifs c thn els p).hasLabel L = false) :
    exec (n + 1) P (.ifs c thn els p) .run s = (s₁, .jump L) := by
  rw [exec_ifs_run_true n P c thn els p s hc, hj, catchJump_other hL]

/-- a jump into an IF block from outside: the block is entered at the label and the IF is left when the block ends -/
theorem goto_into_if_then (n P c thn els p s L) (hL : thn.hasLabel L = true) :
    exec (n + 1) P (.ifs c thn els p) (.seek L) s = catchJump n P (.ifs c thn els p) (exec n P thn (.seek L) s) :=
  exec_ifs_seek_then n P c thn els p L s hL

/-! ## GOSUB / RETURN -/

/-- **RETURN continues after the GOSUB**: when the nested run entered at `L` reaches a RETURN (at state `s₁`, any position
`q`, from inside any nesting of the routine's loops and blocks), the statement after the GOSUB runs from `s₁`. -/
theorem gosub_then_return_continues_after (n : Nat) (P k : Stmt) (L : Nat) (s s₁ : St) (q : Pos)
    (hr : exec n P P (.seek L) s = (s₁, .ret q)) :
    exec (n + 2) P (.seq (.gosub L) k) .run s =
      catchJump (n + 1) P (.seq (.gosub L) k) (exec (n + 1) P k .run s₁) := by
  have h1 : exec (n + 1) P (.gosub L) .run s = (s₁, .normal) := by rw [exec_gosub, hr, gosubAnswer_ret]
  rw [exec_seq_run, h1, thenRun_normal]

/-- the GOSUB statement itself ends normally in the routine's final state, wherever it is nested -/
theorem gosub_returns_normal (n : Nat) (P : Stmt) (L : Nat) (s s₁ : St) (q : Pos)
    (hr : exec n P P (.seek L) s = (s₁, .ret q)) : exec (n + 1) P (.gosub L) .run s = (s₁, .normal) := by
  rw [exec_gosub, hr, gosubAnswer_ret]

/-- **LIFO**: a routine that itself GOSUBs.  The inner RETURN (at `q₂`) is consumed by the inner GOSUB: the routine goes on
with `k` after it, and the RETURN that `k` reaches (at `q₁`) is the one that answers the outer GOSUB (it is passed out of
`GOSUB L₂ : k`, to the nested run that the outer GOSUB is waiting for). -/
theorem gosub_return_lifo (n : Nat) (P k : Stmt) (L₂ : Nat) (s s₂ s₃ : St) (q₁ q₂ : Pos)
    (hinner : exec n P P (.seek L₂) s = (s₂, .ret q₂))
    (hk : exec (n + 1) P k .run s₂ = (s₃, .ret q₁)) :
    exec (n + 2) P (.seq (.gosub L₂) k) .run s = (s₃, .ret q₁) := by
  rw [gosub_then_return_continues_after n P k L₂ s s₂ q₂ hinner, hk, catchJump_passes rfl]

/-- LIFO, both levels in one statement: the outer GOSUB `L₁` is answered by the RETURN at `q₁`, not by the inner one -/
theorem gosub_nested_outer_answer (n : Nat) (P : Stmt) (L₁ : Nat) (s s₃ : St) (q₁ : Pos)
    (houter : exec n P P (.seek L₁) s = (s₃, .ret q₁)) (k' : Stmt) :
    exec (n + 2) P (.seq (.gosub L₁) k') .run s =
      catchJump (n + 1) P (.seq (.gosub L₁) k') (exec (n + 1) P k' .run s₃) :=
  gosub_then_return_continues_after n P k' L₁ s s₃ q₁ houter

/-- **A routine left by GOTO**: the nested run entered at `L` leaves the routine by a jump to `M` (raised in the first
part `a` of the program `seq a b`); the nested run simply continues at `M`, and the RETURN reached from there answers the
GOSUB `L` — the innermost pending one. -/
theorem return_after_goto_answers_innermost_gosub (n : Nat) (a b : Stmt) (L M : Nat) (s s₁ s₂ : St) (q : Pos)
    (hL : a.hasLabel L = true) (hj : exec n (.seq a b) a (.seek L) s = (s₁, .jump M))
    (hM : (Stmt.seq a b).hasLabel M = true)
    (hr : exec n (.seq a b) (.seq a b) (.seek M) s₁ = (s₂, .ret q)) :
    exec (n + 2) (.seq a b) (.gosub L) .run s = (s₂, .normal) := by
  apply gosub_returns_normal (q := q)
  rw [goto_continues_at_label n (.seq a b) a b (.seek L) s s₁ M hL hj hM, hr]

/-- the other ways a nested run can end: the program text runs out inside the routine, or END: the program ends -/
theorem gosub_without_return_ends_program (n : Nat) (P : Stmt) (L : Nat) (s s₁ : St)
    (hr : exec n P P (.seek L) s = (s₁, .normal) ∨ exec n P P (.seek L) s = (s₁, .halted)) :
    exec (n + 1) P (.gosub L) .run s = (s₁, .halted) := by
  rcases hr with hr | hr <;> rw [exec_gosub, hr] <;> rfl

/-- **RETURN without GOSUB is error 3**, at the RETURN's position, with the state at that point: a `ret p` that reaches
the top of the outermost run has no GOSUB to answer. -/
theorem return_without_gosub_error3 (n : Nat) (prog : Program) (s : St) (p : Pos)
    (h : exec n prog.body prog.body .run (St.init prog) = (s, .ret p)) :
    run n prog = (s, .error 3 p) := by
  unfold run
  rw [h]
  rfl

/-- conversely, error 3 … is either raised by … -/
theorem run_error_of_exec_error (n : Nat) (prog : Program) (s : St) (c : Nat) (p : Pos)
    (h : exec n prog.body prog.body .run (St.init prog) = (s, .error c p)) : run n prog = (s, .error c p) := by
  unfold run
  rw [h]

/-! ## RETURN passes through every construct of the routine -/

/-- **RETURN from inside a FOR**: a `ret` out of the body ends the loop at once — no increment, no further test; the state
(the counter included) is the state at the RETURN. -/
theorem return_from_inside_for (n P x t hv sv up body p m s s₁ q)
    (ht : m = .run → relTest p (if up then .lessOrEqual else .greaterOrEqual) (s.env.getD x (zeroOf t)) hv = .ok true)
    (hr : exec n P body m s = (s₁, .ret q)) :
    forIter (n + 1) P x t hv sv up body p m s = (s₁, .ret q) := by
  cases m with
  | run => rw [forIter_run n P x t hv sv up body p s (ht rfl), hr, forNext_passes rfl]
  | seek L => rw [forIter_seek, hr, forNext_passes rfl]

theorem return_from_inside_while (n P c body p s s₁ q) (hc : evalCond s.env c = .ok true)
    (hr : exec n P body .run s = (s₁, .ret q)) :
    exec (n + 1) P (.while c body p) .run s = (s₁, .ret q) := by
  rw [exec_while_run_true n P c body p s hc, hr, loopNext_passes rfl]

theorem return_from_inside_doTop (n P c u body p s s₁ q b) (hc : evalCond s.env c = .ok b) (hb : (b != u) = true)
    (hr : exec n P body .run s = (s₁, .ret q)) :
    exec (n + 1) P (.doLoop c true u body p) .run s = (s₁, .ret q) := by
  rw [exec_doTop_run_enter n P c u body p s b hc hb, hr, loopNext_passes rfl]

theorem return_from_inside_if (n P c thn els p s s₁ q) (hc : evalCond s.env c = .ok true)
    (hr : exec n P thn .run s = (s₁, .ret q)) :
    exec (n + 1) P (.ifs c thn els p) .run s = (s₁, .ret q) := by
  rw [exec_ifs_run_true n P c thn els p s hc, hr, catchJump_passes rfl]

theorem return_from_inside_seq_left (n P a b m s s₁ q) (hen : m.enters a = true)
    (hr : exec n P a m s = (s₁, .ret q)) : exec (n + 1) P (.seq a b) m s = (s₁, .ret q) := by
  rw [exec_seq_enter_left n P a b m s hen, hr, thenRun_passes rfl, catchJump_passes rfl]

theorem return_from_inside_seq_right (n P a b m s s₀ s₁ q) (hen : m.enters a = true)
    (ha : exec n P a m s = (s₀, .normal)) (hr : exec n P b .run s₀ = (s₁, .ret q)) :
    exec (n + 1) P (.seq a b) m s = (s₁, .ret q) := by
  rw [exec_seq_enter_left n P a b m s hen, ha, thenRun_normal, hr, catchJump_passes rfl]

/-- a RETURN in a CASE block leaves the SELECT -/
theorem return_from_inside_select (n P e cs p s s₁ q subj) (he : evalE s.env e = .ok subj)
    (hr : execCases n P p subj cs s = (s₁, .ret q)) :
    exec (n + 1) P (.select e cs p) .run s = (s₁, .ret q) := by
  rw [exec]; simp only [he, hr]

/-- **RETURN leaves the routine's loops; the caller's FOR is unaffected.**  The caller's FOR (limit `hv`, step `sv`,
direction `up`) has body `GOSUB L : k`.  Whatever loops and blocks the routine was in when it executed RETURN — `hr` is
about the whole nested run — the caller's round goes on with `k` after the GOSUB, then increments *its own* counter by
*its own* step and tests against *its own* limit: the next round is `forIter` with the same `hv`, `sv`, `up`. -/
theorem return_leaves_routine_loops (n P x t hv sv up k p L s s₁ s₂ q v)
    (ht : relTest p (if up then .lessOrEqual else .greaterOrEqual) (s.env.getD x (zeroOf t)) hv = .ok true)
    (hr : exec n P P (.seek L) s = (s₁, .ret q))
    (hk : exec (n + 1) P k .run s₁ = (s₂, .normal))
    (hinc : (plus (s₂.env.getD x (zeroOf t)) sv).bind (fun v => cast v t) = .ok v) :
    forIter (n + 3) P x t hv sv up (.seq (.gosub L) k) p .run s =
      forIter (n + 2) P x t hv sv up (.seq (.gosub L) k) p .run (s₂.set x v) := by
  rw [forIter_run (n + 2) P x t hv sv up _ p s ht,
    gosub_then_return_continues_after n P k L s s₁ q hr, hk, catchJump_normal, forNext_normal hinc]

/-! ## GOTO out of a FOR -/

/-- a GOTO out of a FOR body to a label outside the body ends the loop; the state — the counter included — is the state at
the jump -/
theorem goto_leaves_for (n P x t hv sv up body p m s s₁ L)
    (ht : m = .run → relTest p (if up then .lessOrEqual else .greaterOrEqual) (s.env.getD x (zeroOf t)) hv = .ok true)
    (hj : exec n P body m s = (s₁, .jump L)) (hL : body.hasLabel L = false) :
    forIter (n + 1) P x t hv sv up body p m s = (s₁, .jump L) := by
  cases m with
  | run => rw [forIter_run n P x t hv sv up body p s (ht rfl), hj, forNext_other hL]
  | seek L0 => rw [forIter_seek, hj, forNext_other hL]

/-- **GOTO out of an inner FOR keeps the outer loop.**  The body of the enclosing FOR is `inner : rest` (any statements;
think of `inner` as a FOR, or a nest of FORs); `inner` ended in `jump L` at state `s₁` — a `GOTO L` left it, the loop(s)
inside it ended with their counters as they were (`goto_leaves_for`, `jump_leaves_counter_intact`) — and `L` is a label of
the enclosing body.  Then the *same round of the same* `forIter` goes on: the body continues at `L` from `s₁`, and what the
rest of the body answers is handed to `forNext` with the enclosing loop's own limit `hv`, step `sv` and direction `up`
(the counter is whatever the state holds).  Nothing of the enclosing loop is re-evaluated or lost.

(The task sketch said "the outer `forIter` is re-entered in seek mode": that branch of `forIter` exists in `Ref` but is dead —
`loop_body_jump_is_outside` —: the body, a `seq`, catches the jump to its own label itself, inside the current round.) -/
theorem goto_out_of_for_keeps_outer_loop (n P x t hv sv up inner rest p s s₁ L)
    (ht : relTest p (if up then .lessOrEqual else .greaterOrEqual) (s.env.getD x (zeroOf t)) hv = .ok true)
    (hj : exec n P inner .run s = (s₁, .jump L)) (hL : (Stmt.seq inner rest).hasLabel L = true) :
    forIter (n + 2) P x t hv sv up (.seq inner rest) p .run s =
      forNext (n + 1) P x t hv sv up (.seq inner rest) p (exec n P (.seq inner rest) (.seek L) s₁) := by
  rw [forIter_run (n + 1) P x t hv sv up _ p s ht, goto_continues_at_label n P inner rest .run s s₁ L rfl hj hL]

/-- … and when the rest of the body (from `L`) ends normally in `s₂`, the enclosing loop increments the counter value of
`s₂` by *its own* step and starts the next round with *its own* limit, step and direction -/
theorem goto_out_of_for_next_round (n P x t hv sv up inner rest p s s₁ s₂ L v)
    (ht : relTest p (if up then .lessOrEqual else .greaterOrEqual) (s.env.getD x (zeroOf t)) hv = .ok true)
    (hj : exec n P inner .run s = (s₁, .jump L)) (hL : (Stmt.seq inner rest).hasLabel L = true)
    (hrest : exec n P (.seq inner rest) (.seek L) s₁ = (s₂, .normal))
    (hinc : (plus (s₂.env.getD x (zeroOf t)) sv).bind (fun v => cast v t) = .ok v) :
    forIter (n + 2) P x t hv sv up (.seq inner rest) p .run s =
      forIter (n + 1) P x t hv sv up (.seq inner rest) p .run (s₂.set x v) := by
  rw [goto_out_of_for_keeps_outer_loop n P x t hv sv up inner rest p s s₁ L ht hj hL, hrest, forNext_normal hinc]

/-- a FOR *statement* whose round ends in a jump to a label outside its body ends with that jump and that state -/
theorem goto_leaves_for_statement (n P x t lo hi body p s l hv s₁ L)
    (hl : evalTo s.env lo t = .ok l) (hh : evalTo (s.set x l).env hi t = .ok hv)
    (hj : forIter n P x t hv (.int 1) true body p .run (s.set x l) = (s₁, .jump L)) :
    exec (n + 1) P (.forLoop x t lo hi none body p) .run s = (s₁, .jump L) := by
  rw [exec_forLoop_nostep n P x t lo hi body p s l hv hl hh, hj]

/-! ## a jump that leaves a FOR leaves the counter intact -/

/-- **Inversion**: when a FOR loop (any number of rounds, entered in any mode) ends in `jump L`, the final state is *exactly*
the state in which its body answered `jump L` — nothing (no increment, no assignment) happens to the counter or to any other
variable between the jump and the end of the loop; and `L` is not a label of the body. -/
theorem jump_leaves_counter_intact {P x t hv sv up body p} : ∀ (n : Nat) {m s s' L},
    forIter n P x t hv sv up body p m s = (s', .jump L) →
    body.hasLabel L = false ∧ ∃ k m₀ s₀, k < n ∧ exec k P body m₀ s₀ = (s', .jump L) := by
  intro n m s s' L h
  refine ⟨forIter_jump_not_own_label h, ?_⟩
  induction n generalizing m s with
  | zero => unfold forIter at h; cases h
  | succ n ih =>
    have key : ∀ m1, forNext n P x t hv sv up body p (exec n P body m1 s) = (s', .jump L) →
        ∃ k m₀ s₀, k < n + 1 ∧ exec k P body m₀ s₀ = (s', .jump L) := by
      intro m1 hk
      generalize hr : exec n P body m1 s = r at hk
      obtain ⟨s1, o1⟩ := r
      cases o1 with
      | normal =>
        cases hb : (plus (s1.env.getD x (zeroOf t)) sv).bind (fun v => cast v t) with
        | ok v =>
          rw [forNext_normal hb] at hk
          obtain ⟨k, m0, s0, hlt, he⟩ := ih hk
          exact ⟨k, m0, s0, by omega, he⟩
        | err e => simp only [forNext, hb] at hk; cases hk
        | inexact => simp only [forNext, hb] at hk; cases hk
      | jump L1 =>
        by_cases hb : body.hasLabel L1 = true
        · rw [forNext_own hb] at hk
          obtain ⟨k, m0, s0, hlt, he⟩ := ih hk
          exact ⟨k, m0, s0, by omega, he⟩
        · rw [forNext_other (by simpa using hb)] at hk
          cases hk
          exact ⟨n, m1, s, by omega, hr⟩
      | _ => (rw [forNext_passes rfl] at hk; cases hk)
    cases m with
    | run =>
      cases ht : relTest p (if up then .lessOrEqual else .greaterOrEqual) (s.env.getD x (zeroOf t)) hv with
      | error o =>
        unfold forIter at h
        simp only [ht] at h
        cases h
        exact absurd (relTest_error ht) (by simp [Outcome.isFail])
      | ok b =>
        cases b with
        | false => rw [forIter_run_done n P x t hv sv up body p s ht] at h; cases h
        | true => rw [forIter_run n P x t hv sv up body p s ht] at h; exact key _ h
    | seek L0 => rw [forIter_seek] at h; exact key _ h

/-! ## non-vacuity: the hypotheses of the theorems above are satisfiable (concrete programs, evaluated by the kernel) -/

section Examples

def p0 : Pos := ⟨1, 1⟩
def q1 : Pos := ⟨7, 1⟩
def q2 : Pos := ⟨9, 1⟩
def one : Ast.Expr := .lit (.int 1) p0

/-- `GOTO 0 : END : 0: RETURN` -/
def exGoto : Stmt := .seq (.goto 0) (.seq (.end_ p0) (.seq (.label 0) (.ret q1)))

-- the END between the GOTO and the label is skipped; what follows the label (a RETURN) is what runs
example (P : Stmt) (s : St) : exec 5 P exGoto .run s = (s, .ret q1) :=
  goto_forward_ends 0 P (.end_ p0) (.ret q1) 0 s s (.ret q1) rfl (exec_ret 0 P q1 s) (by intro L h; cases h)

example (P : Stmt) (s : St) :
    exec 3 P (.seq (.goto 0) (.seq (.label 0) (.ret q1))) .run s =
      exec 2 P (.seq (.goto 0) (.seq (.label 0) (.ret q1))) (.seek 0) s :=
  goto_continues_at_label 2 P _ _ .run s s 0 rfl (exec_goto 1 P 0 s) (by decide)

example (P : Stmt) (s : St) : exec 3 P (.seq (.goto 5) (.end_ p0)) .run s = (s, .jump 5) :=
  goto_leaves_seq 2 P _ _ .run s s 5 rfl (exec_goto 1 P 5 s) (by decide)

example (P : Stmt) (s : St) : exec 2 P (.while one (.goto 5) p0) .run s = (s, .jump 5) :=
  goto_leaves_while 1 P one _ p0 s s 5 (by rfl) (exec_goto 0 P 5 s) rfl

example (P : Stmt) (s : St) : exec 2 P (.doLoop one true false (.goto 5) p0) .run s = (s, .jump 5) :=
  goto_leaves_doTop 1 P one false _ p0 s s 5 true (by rfl) (by rfl) (exec_goto 0 P 5 s) rfl

example (P : Stmt) (s : St) : exec 2 P (.ifs one (.goto 5) .skip p0) .run s = (s, .jump 5) :=
  goto_leaves_if 1 P one _ .skip p0 s s 5 (by rfl) (exec_goto 0 P 5 s) (by decide)

-- a continue-like jump inside a WHILE body: `WHILE 1 : GOTO 0 : 0: END : WEND`
example (P : Stmt) (s : St) :
    exec 3 P (.while one (.seq (.goto 0) (.seq (.label 0) (.end_ p0))) p0) .run s =
      loopNext 2 P (.while one (.seq (.goto 0) (.seq (.label 0) (.end_ p0))) p0) (.seq (.goto 0) (.seq (.label 0) (.end_ p0)))
        (exec 1 P (.seq (.goto 0) (.seq (.label 0) (.end_ p0))) (.seek 0) s) :=
  goto_inside_while 1 P one _ _ p0 s s 0 (by rfl) (exec_goto 0 P 0 s) (by decide)

/-- `GOSUB 0 : END : 0: RETURN` -/
def exGosub : Stmt := .seq (.gosub 0) (.seq (.end_ p0) (.seq (.label 0) (.ret q1)))

example (s : St) :
    exec 7 exGosub exGosub .run s =
      catchJump 6 exGosub exGosub (exec 6 exGosub (.seq (.end_ p0) (.seq (.label 0) (.ret q1))) .run s) :=
  gosub_then_return_continues_after 5 exGosub _ 0 s s q1 (by rfl)

example : (run 10 ⟨[], [], exGosub⟩).2 = .halted := by decide

/-- `GOSUB 0 : END : 0: GOSUB 1 : RETURN(q1) : 1: RETURN(q2)` — a routine that itself GOSUBs -/
def exNested : Stmt :=
  .seq (.gosub 0) (.seq (.end_ p0) (.seq (.label 0) (.seq (.gosub 1) (.seq (.ret q1) (.seq (.label 1) (.ret q2))))))

-- the inner RETURN (q2) answers the inner GOSUB; the RETURN that leaves `GOSUB 1 : RETURN …` is the one at q1
example (s : St) :
    exec 9 exNested (.seq (.gosub 1) (.seq (.ret q1) (.seq (.label 1) (.ret q2)))) .run s = (s, .ret q1) :=
  gosub_return_lifo 7 exNested _ 1 s s s q1 q2 (by rfl) (by rfl)

-- … and it is the one that answers the outer GOSUB; the program then reaches END
example (s : St) : exec 12 exNested exNested (.seek 0) s = (s, .ret q1) := by rfl
example : (run 20 ⟨[], [], exNested⟩).2 = .halted := by decide

/-- `0: GOTO 1 : 1: RETURN` as the program `seq a b`: the routine `0` is left by GOTO, the RETURN after `1:` answers it -/
example (s : St) :
    exec 7 (.seq (.seq (.label 0) (.goto 1)) (.seq (.label 1) (.ret q1))) (.gosub 0) .run s = (s, .normal) :=
  return_after_goto_answers_innermost_gosub 5 (.seq (.label 0) (.goto 1)) (.seq (.label 1) (.ret q1)) 0 1 s s s q1
    (by decide) (by rfl) (by decide) (by rfl)

example (s : St) : exec 3 (.seq (.label 0) .skip) (.gosub 0) .run s = (s, .halted) :=
  gosub_without_return_ends_program 2 _ 0 s s (Or.inl (by rfl))

-- RETURN without GOSUB (reached through a GOTO): error 3 at the RETURN's position
example : run 10 ⟨[], [], exGoto⟩ = (St.init ⟨[], [], exGoto⟩, .error 3 q1) :=
  return_without_gosub_error3 10 ⟨[], [], exGoto⟩ _ q1 (by rfl)
example : (run 10 ⟨[], [], exGoto⟩).2 = .error 3 q1 := by decide

/-- counter `x = 0` holds 1, a second variable holds 0 -/
def st1 : St := { env := [.int 1, .int 0], out := Print.WritePrinter.new, data := [], dataIdx := 0 }

-- a FOR round (limit 3, step 1) whose body RETURNs
example (P : Stmt) : forIter 2 P 0 .int (.int 3) (.int 1) true (.ret q1) p0 .run st1 = (st1, .ret q1) :=
  return_from_inside_for 1 P 0 .int _ _ true _ p0 .run st1 st1 q1 (fun _ => by rfl) (exec_ret 0 P q1 st1)

example (P : Stmt) (s : St) : exec 2 P (.while one (.ret q1) p0) .run s = (s, .ret q1) :=
  return_from_inside_while 1 P one _ p0 s s q1 (by rfl) (exec_ret 0 P q1 s)

example (P : Stmt) (s : St) : exec 2 P (.ifs one (.ret q1) .skip p0) .run s = (s, .ret q1) :=
  return_from_inside_if 1 P one _ .skip p0 s s q1 (by rfl) (exec_ret 0 P q1 s)

example (P : Stmt) (s : St) : exec 2 P (.seq (.ret q1) (.end_ p0)) .run s = (s, .ret q1) :=
  return_from_inside_seq_left 1 P _ _ .run s s q1 rfl (exec_ret 0 P q1 s)

/-- `END : 0: FOR v1 = 1 TO 1 : RETURN : NEXT` — a routine that RETURNs from inside its own FOR (limit 1) -/
def exRoutine : Stmt := .seq (.end_ p0) (.seq (.label 0) (.forLoop 1 .int one one none (.ret q1) p0))

-- the caller's FOR (counter 0, limit 3, step 1) has body `GOSUB 0`; after the routine's RETURN the caller's round ends,
-- the caller's counter goes from 1 to 2 by the caller's step, and the next round runs against the caller's limit 3
example :
    forIter 8 exRoutine 0 .int (.int 3) (.int 1) true (.seq (.gosub 0) .skip) p0 .run st1 =
      forIter 7 exRoutine 0 .int (.int 3) (.int 1) true (.seq (.gosub 0) .skip) p0 .run
        ((st1.set 1 (.int 1)).set 0 (.int 2)) :=
  return_leaves_routine_loops 5 exRoutine 0 .int _ _ true .skip p0 0 st1 (st1.set 1 (.int 1)) (st1.set 1 (.int 1)) q1
    (.int 2) (by rfl) (by rfl) (by rfl) (by rfl)

example (P : Stmt) : forIter 2 P 0 .int (.int 3) (.int 1) true (.goto 9) p0 .run st1 = (st1, .jump 9) :=
  goto_leaves_for 1 P 0 .int _ _ true _ p0 .run st1 st1 9 (fun _ => by rfl) (exec_goto 0 P 9 st1) rfl

-- the final state of the loop is the state at the jump
example (P : Stmt) : ∃ k m₀ s₀, k < 2 ∧ exec k P (.goto 9) m₀ s₀ = (st1, .jump 9) :=
  (jump_leaves_counter_intact 2
    (goto_leaves_for 1 P 0 .int (.int 3) (.int 1) true (.goto 9) p0 .run st1 st1 9 (fun _ => by rfl)
      (exec_goto 0 P 9 st1) rfl)).2

/-- `FOR v1 = 1 TO 1 : GOTO 0 : NEXT` — an inner FOR left by GOTO -/
def exInner : Stmt := .forLoop 1 .int one one none (.goto 0) p0

-- outer FOR (counter 0, limit 3, step 1), body `exInner : 0:`: the same round goes on at the label with limit 3 and step 1
example (P : Stmt) :
    forIter 5 P 0 .int (.int 3) (.int 1) true (.seq exInner (.seq (.label 0) .skip)) p0 .run st1 =
      forNext 4 P 0 .int (.int 3) (.int 1) true (.seq exInner (.seq (.label 0) .skip)) p0
        (exec 3 P (.seq exInner (.seq (.label 0) .skip)) (.seek 0) (st1.set 1 (.int 1))) :=
  goto_out_of_for_keeps_outer_loop 3 P 0 .int _ _ true exInner _ p0 st1 (st1.set 1 (.int 1)) 0 (by rfl) (by rfl)
    (by decide)

example (P : Stmt) :
    forIter 5 P 0 .int (.int 3) (.int 1) true (.seq exInner (.seq (.label 0) .skip)) p0 .run st1 =
      forIter 4 P 0 .int (.int 3) (.int 1) true (.seq exInner (.seq (.label 0) .skip)) p0 .run
        ((st1.set 1 (.int 1)).set 0 (.int 2)) :=
  goto_out_of_for_next_round 3 P 0 .int _ _ true exInner _ p0 st1 (st1.set 1 (.int 1)) (st1.set 1 (.int 1)) 0 (.int 2)
    (by rfl) (by rfl) (by decide) (by rfl) (by rfl)

/-- the whole program `FOR v0 = 1 TO 2 : FOR v1 = 1 TO 3 : GOTO 0 : NEXT : 0: NEXT` ends normally with v0 = 3, v1 = 1 -/
def exForProg : Program :=
  ⟨[.int, .int], [],
    .forLoop 0 .int one (.lit (.int 2) p0) none
      (.seq (.forLoop 1 .int one (.lit (.int 3) p0) none (.goto 0) p0) (.seq (.label 0) .skip)) p0⟩

example : (run 30 exForProg).2 = .normal ∧ (run 30 exForProg).1.env = [.int 3, .int 1] := by decide

end Examples

end RbThm.JmpLProps
