import Thm.JmpLSimBase
/-!
Jump layer, simulation part: `WHILE c … WEND` (port of `C01SimBase.case_while`).

New with respect to the core language: the loop can be entered at a label inside its body (no test is made: the run simply
is in the body), and a jump out of the body to a label inside the body re-enters the loop in seek mode; any other jump leaves
the loop (WHILE keeps nothing on the stacks: nothing to pop).
-/
namespace RbThm.JmpLSim
set_option linter.unusedVariables false
set_option linter.unusedSimpArgs false
open RbModel RbModel.Num RbModel.JmpL RbModel.JmpL.Compile RbModel.JmpL.Vm
open RbModel.Ast (Pos PrintItem CaseExpr)
open RbModel.Ref (St ERes eval evalTo codeOf codeOutOfData codeZeroStep zeroOf truthy printValue endsInSeparator StepSign
  binStep lift)
open RbModel.JmpL.Ref
open RbThm.JmpLLen
open RbThm.C01Sim (Typed SlotsBelow ExprWt NumericAt NumericCond ItemsSlots CaseSlots CondsSlots)

theorem case_while (C : Ctx) (fuel : Nat) (ih : StmtIH C fuel) (c : Ast.Expr) (body : SStmt) (p : Pos)
    (sfx : String) (d e off : Nat) (m : Mode) (σ : Vm) (s : St)
    (hc : CodeAt C.code off (compileStmt C.env sfx d e off (.while c body p)))
    (hl : LabAt C.env d e off (.while c body p)) (hw : Wf C.sl C.env.dp d e (.while c body p))
    (hen : Entry C.env off (.while c body p) m σ) (hr : Rel C.sl s σ)
    (hd : d ≤ σ.regStack.length) (he : e ≤ σ.vals.length) :
    StmtSpec C d e (off + sizeStmt C.env.dp d e (.while c body p)) σ
      (exec (fuel + 1) C.P (desugar (.while c body p)) m s) := by
  have hcw := hc
  have hw0 := hw
  simp only [compileStmt] at hc
  obtain ⟨hsc, hnc, hwb⟩ := hw
  have hlb := hl.while
  have hcb : CodeAt C.code (off + 1 + (compileExpr c).length + 1)
      (compileStmt C.env sfx d e (off + 1 + (compileExpr c).length + 1) body) := by
    have := hc.append_left.append_right
    simp only [List.length_append, List.length_singleton] at this
    have e1 : off + (0 + 1 + (compileExpr c).length + 1) = off + 1 + (compileExpr c).length + 1 := by omega
    rw [e1] at this
    exact this
  have hjmp : C.code[off + 1 + (compileExpr c).length + 1 + sizeStmt C.env.dp d e body]? = some (CInstr.jump off, p) := by
    have := hc.append_right.head
    simp only [List.length_append, List.length_singleton, len_stmt] at this
    rw [← this]; congr 1; omega
  have hwend : C.code[off + 1 + (compileExpr c).length + 1 + sizeStmt C.env.dp d e body + 1]? =
      some (CInstr.label (labelName "wend" p sfx), p) := by
    have := hc.append_right.tail.head
    simp only [List.length_append, List.length_singleton, len_stmt] at this
    rw [← this]; congr 1; omega
  have hsize : sizeStmt C.env.dp d e (.while c body p) = 1 + (compileExpr c).length + 1 + sizeStmt C.env.dp d e body + 2 := by
    simp only [sizeStmt]
  have hent : m.enters (desugar (.while c body p)) = true := by
    cases m with
    | run => rfl
    | seek L => exact (hasLabel_iff hw0 L).mpr hen.1
  -- the body phase: from a state in the body (at its start, or at a label inside it)
  have hbody : ∀ (τ0 : Vm), Entry C.env (off + 1 + (compileExpr c).length + 1) body m τ0 → Rel C.sl s τ0 →
      SameStacks σ τ0 →
      StmtSpec C d e (off + sizeStmt C.env.dp d e (.while c body p)) τ0
        (match exec fuel C.P (desugar body) m s with
         | (s', .normal) => exec fuel C.P (Stmt.while c (desugar body) p) .run s'
         | (s', .jump L) =>
           if (desugar body).hasLabel L = true then exec fuel C.P (Stmt.while c (desugar body) p) (.seek L) s'
           else (s', .jump L)
         | r => r) := by
    intro τ0 hen0 hrel0 hss0
    have hd0 : d ≤ τ0.regStack.length := by rw [hss0.1]; exact hd
    have he0 : e ≤ τ0.vals.length := by rw [hss0.2.1]; exact he
    have hb := ih body sfx d e _ m τ0 s hcb hlb hwb hen0 hrel0 hd0 he0
    generalize hrb : exec fuel C.P (desugar body) m s = rb at hb ⊢
    obtain ⟨s1', o1⟩ := rb
    cases o1 with
    | normal =>
      obtain ⟨υ, st2, hp2, hrel2, hss2⟩ := hb
      have hj : C.code[υ.pc]? = some (CInstr.jump off, p) := by rw [hp2]; exact hjmp
      let υ1 : Vm := { υ with pc := off }
      have s3 : Vm.step C.code υ = .next υ1 := by simp only [Vm.step, hj]; rfl
      have hloop := ih (.while c body p) sfx d e off .run υ1 s1' hcw hl hw0 rfl (hrel2.setPc _)
        (by show d ≤ υ.regStack.length; rw [hss2.1]; exact hd0) (by show e ≤ υ.vals.length; rw [hss2.2.1]; exact he0)
      simp only [desugar] at hloop
      simp only
      exact StmtSpec.of_steps (st2.trans (Steps.one s3)) (SameStacks.trans hss2 ⟨rfl, rfl, rfl, rfl⟩) hloop
    | jump L =>
      simp only
      obtain ⟨hnl, hdep⟩ := jump_depths hwb hrb
      by_cases hL : (desugar body).hasLabel L = true
      · exact absurd ((hasLabel_iff hwb L).mp hL) hnl
      · simp only [hL]
        exact hb
    | halted => exact hb
    | ret q => exact hb
    | error cd q => exact hb
    | inexact => trivial
    | outOfFuel => trivial
    | illFormed => trivial
    | notHere => trivial
  simp only [desugar] at hent ⊢
  simp only [exec, hent, if_true]
  cases m with
  | seek L =>
    -- entered at a label inside the body: no test
    have hLb : L ∈ body.labels := by simpa only [SStmt.labels] using hen.1
    simp only
    exact hbody σ ⟨hLb, hen.2⟩ hr (SameStacks.refl σ)
  | run =>
    have hpc : σ.pc = off := hen
    subst hpc
    have hlab : C.code[σ.pc]? = some (CInstr.label (labelName "while" p sfx), p) :=
      hc.append_left.append_left.append_left.append_left.head
    let σ1 : Vm := advance σ
    have s1 : Vm.step C.code σ = .next σ1 := by simp only [Vm.step, hlab]; rfl
    have hcc : CodeAt C.code (σ.pc + 1)
        (compileExpr c ++ [(CInstr.jumpIfFalse (σ.pc + 1 + (compileExpr c).length + 1 + sizeStmt C.env.dp d e body + 1), p)]) := by
      have h1 := hc.append_left.append_left.append_left.append_right
      have h2 := hc.append_left.append_left.append_right
      simp only [List.length_append, List.length_singleton] at h1 h2
      intro i hi
      simp only [List.length_append, List.length_singleton] at hi
      by_cases h3 : i < (compileExpr c).length
      · rw [List.getElem?_append_left h3, ← h1 i h3]
      · have hi' : i = (compileExpr c).length := by omega
        subst hi'
        rw [List.getElem?_append_right (by omega)]
        have := h2 0 (by simp)
        simp only [Nat.sub_self]
        rw [← this]; congr 1; omega
    have henv1 : σ1.env = s.env := hr.env
    have hcond := cond_correct C.code c _ p (σ.pc + 1) σ1 hcc rfl
      (by rw [henv1, hr.typed.len]; exact hsc) (by rw [henv1]; exact hnc _ hr.typed)
    rw [henv1] at hcond
    simp only
    cases hec : evalCond s.env c with
    | error o =>
      simp only [hec] at hcond ⊢
      refine StmtSpec.of_cond_error hec ?_
      intro cd q ho
      subst ho
      have := ErrsWith.of_steps (Steps.one s1) hcond
      exact ⟨s.env, by rw [← hr.out]; exact this⟩
    | ok bv =>
      simp only [hec] at hcond ⊢
      cases bv with
      | false =>
        obtain ⟨v, b, st⟩ := hcond
        simp only [StmtSpec]
        let τ0 : Vm := afterExpr σ1 (σ.pc + 1 + (compileExpr c).length + 1 + sizeStmt C.env.dp d e body + 1) v b
        have s2 : Vm.step C.code τ0 = .next (advance τ0) := by
          simp only [Vm.step, τ0, afterExpr, hwend]
        refine ⟨advance τ0, (Steps.cons s1 st).trans (Steps.one s2), ?_, ?_, ⟨rfl, rfl, rfl, rfl⟩⟩
        · show σ.pc + 1 + (compileExpr c).length + 1 + sizeStmt C.env.dp d e body + 1 + 1 = _
          rw [hsize]; omega
        · exact ((hr.advance).afterExpr _ v b).advance
      | true =>
        obtain ⟨v, b, st⟩ := hcond
        let τ0 : Vm := afterExpr σ1 (σ.pc + 1 + (compileExpr c).length + 1) v b
        have := hbody τ0 rfl ((hr.advance).afterExpr _ v b) ⟨rfl, rfl, rfl, rfl⟩
        exact StmtSpec.of_steps (Steps.cons s1 st) ⟨rfl, rfl, rfl, rfl⟩ this

end RbThm.JmpLSim
