import RbModel.Num
import RbModel.Ref
import Gen.NumTables
import Thm.C06
/-!
Arrays layer, simulation part — value-level facts shared by all cases: the tag (type) of what the numeric operations
return, and `Typed` (every scalar variable holds a value of its declared type).  These are the lemmas of
`Thm/C01SimRead.lean` that do not mention a generator or VM model, restated here so that the arrays layer depends on
`RbModel.Num` / `Thm.C06` only.
-/
set_option linter.unusedVariables false
set_option linter.unusedSimpArgs false
namespace RbThm.ArrLNum
open RbModel RbModel.Num

/-! ### tags of the results of the numeric operations (no range hypotheses) -/

theorem res_bind_ok {α β : Type} {r : Res α} {f : α → Res β} {b : β} (h : r.bind f = .ok b) :
    ∃ a, r = .ok a ∧ f a = .ok b := by
  cases r with
  | ok a => exact ⟨a, rfl, h⟩
  | err e => cases h
  | inexact => cases h

theorem mkSgl_tag {q : Rat} {w : Val} (h : mkSgl q = .ok w) : w.tag = .sgl := by
  unfold mkSgl at h; split at h
  · cases h; rfl
  · cases h

theorem mkDbl_tag {q : Rat} {w : Val} (h : mkDbl q = .ok w) : w.tag = .dbl := by
  unfold mkDbl at h; split at h
  · cases h; rfl
  · cases h

theorem castRound_bind_tag {lo hi : Int} {q : Rat} {mk : Int → Val} {t : Ty} {w : Val} (hmk : ∀ r, (mk r).tag = t)
    (h : ((castRound lo hi q).bind fun r => .ok (mk r)) = .ok w) : w.tag = t := by
  obtain ⟨r, _, h2⟩ := res_bind_ok h
  cases h2; exact hmk r

/-- what a successful conversion returns has the tag of the target type -/
theorem cast_tag (v : Val) (t : Ty) (w : Val) (h : Num.cast v t = .ok w) : w.tag = t := by
  cases t <;> cases v <;> simp only [Num.cast] at h <;>
    first
    | (cases h <;> rfl)
    | (exact mkSgl_tag h)
    | (exact mkDbl_tag h)
    | (split at h
       · first
         | (cases h <;> rfl)
         | (exact mkSgl_tag h)
         | (exact mkDbl_tag h)
         | (exact castRound_bind_tag (fun _ => rfl) h)
       · cases h)

theorem negate_tag (a w : Val) (h : negate a = .ok w) : w.tag = a.tag := by
  cases a <;> simp only [negate] at h
  · split at h
    · cases h
    · cases h; rfl
  · split at h
    · cases h
    · cases h; rfl
  · cases h; rfl
  · cases h; rfl
  · cases h

theorem unaryNot_tag (a w : Val) (h : unaryNot a = .ok w) : w.tag = a.tag := by
  cases a <;> simp only [unaryNot] at h
  · cases h; rfl
  · cases h; rfl
  · split at h
    · exact mkSgl_tag h
    · cases h
  · split at h
    · exact mkDbl_tag h
    · cases h
  · cases h

theorem modulo_tag (a b w : Val) (h : modulo a b = .ok w) : w.tag = .int := by
  unfold modulo at h
  obtain ⟨ra, _, h⟩ := res_bind_ok h
  obtain ⟨rb, _, h⟩ := res_bind_ok h
  split at h
  · cases h
  · cases h
  · split at h
    · cases h; rfl
    · cases h

theorem and_tag (a b w : Val) (h : Num.and a b = .ok w) : w.tag = .int := by
  cases a <;> cases b <;> simp only [Num.and] at h <;> cases h <;> rfl

theorem or_tag (a b w : Val) (h : Num.or a b = .ok w) : w.tag = .int := by
  cases a <;> cases b <;> simp only [Num.or] at h <;> cases h <;> rfl

theorem ofBool_tag (b : Bool) : (ofBool b).tag = .int := rfl

/-- the checker's table types `MOD`, the comparisons, `AND` and `OR` as INTEGER -/
theorem binType_int (op : Op) (ta tb t : Ty) (hop : op ≠ .plus ∧ op ≠ .minus ∧ op ≠ .multiply ∧ op ≠ .divide)
    (h : Gen.NumTables.binType op ta tb = some t) : t = .int := by
  obtain ⟨h1, h2, h3, h4⟩ := hop
  cases op <;> first | (exact absurd rfl h1) | (exact absurd rfl h2) | (exact absurd rfl h3) | (exact absurd rfl h4) |
    (cases ta <;> cases tb <;> first | (cases h <;> rfl) | (cases h))

/-- the value the VM's operator instruction returns has the type the checker's table gives for the operand types -/
theorem vmBin_tag (op : Op) (a b w : Val) (t : Ty) (hd : op ≠ .divide)
    (ht : Gen.NumTables.binType op a.tag b.tag = some t)
    (h : vmBin Gen.NumTables.binType op a b = .ok w) : w.tag = t := by
  have harith : ∀ ao : Arith, op = ao.toOp → arith ao a b = .ok w → w.tag = t := by
    intro ao ho hh
    have := (RbThm.C06.arith_typed ao a b w hh).1
    rw [← ho, ht] at this
    injection this with this
    exact this.symm
  cases op <;> simp only [vmBin] at h
  case plus => exact harith .add rfl h
  case minus => exact harith .sub rfl h
  case multiply => exact harith .mul rfl h
  case divide => exact absurd rfl hd
  case modulo =>
    rw [binType_int _ _ _ _ (by decide) ht]; exact modulo_tag a b w h
  case and =>
    obtain ⟨x, _, h⟩ := res_bind_ok h
    obtain ⟨y, _, h⟩ := res_bind_ok h
    rw [binType_int _ _ _ _ (by decide) ht]; exact and_tag x y w h
  case or =>
    obtain ⟨x, _, h⟩ := res_bind_ok h
    obtain ⟨y, _, h⟩ := res_bind_ok h
    rw [binType_int _ _ _ _ (by decide) ht]; exact or_tag x y w h
  all_goals
    obtain ⟨o, _, h⟩ := res_bind_ok h
    cases h
    rw [binType_int _ _ _ _ (by decide) ht]; rfl

theorem storeCast_tag (s t : Ty) (v w : Val) (hs : v.tag = s) (h : storeCast s t v = .ok w) : w.tag = t := by
  unfold storeCast at h
  split at h
  · next hst => cases h; rw [hs, hst]
  · exact cast_tag v t w h


/-! ### typed environments -/

/-- every variable holds a value of its declared type -/
def Typed (sl : List Ty) (env : List Val) : Prop :=
  env.length = sl.length ∧ ∀ (x : Nat) (t : Ty), sl[x]? = some t → ∃ v : Val, env[x]? = some v ∧ v.tag = t

theorem Typed.len {sl : List Ty} {env : List Val} (h : Typed sl env) : env.length = sl.length := h.1

theorem Typed.lt {sl : List Ty} {env : List Val} (h : Typed sl env) {x : Nat} {t : Ty} (hx : sl[x]? = some t) :
    x < env.length := by
  rw [h.len]
  obtain ⟨hlt, _⟩ := List.getElem?_eq_some_iff.mp hx
  exact hlt

theorem typed_getD_tag {sl : List Ty} {env : List Val} (h : Typed sl env) {x : Nat} {t : Ty} (hx : sl[x]? = some t)
    (d : Val) : (env.getD x d).tag = t := by
  obtain ⟨v, hv, ht⟩ := h.2 x t hx
  simp only [List.getD, hv, Option.getD_some, ht]

theorem typed_getD_eq {sl : List Ty} {env : List Val} (h : Typed sl env) {x : Nat} {t : Ty} (hx : sl[x]? = some t)
    (d : Val) : env[x]? = some (env.getD x d) := by
  obtain ⟨v, hv, ht⟩ := h.2 x t hx
  simp only [List.getD, hv, Option.getD_some]

theorem typed_set {sl : List Ty} {env : List Val} (h : Typed sl env) {x : Nat} {t : Ty} {v : Val}
    (hx : sl[x]? = some t) (hv : v.tag = t) : Typed sl (env.set x v) := by
  refine ⟨by simp only [List.length_set]; exact h.1, ?_⟩
  intro y u hy
  by_cases hxy : x = y
  · subst hxy
    have hu : u = t := by rw [hx] at hy; injection hy with hy; exact hy.symm
    refine ⟨v, ?_, by rw [hv, hu]⟩
    rw [List.getElem?_set_self (h.lt hx)]
  · obtain ⟨w, hw, hwt⟩ := h.2 y u hy
    exact ⟨w, by rw [List.getElem?_set_ne hxy]; exact hw, hwt⟩

end RbThm.ArrLNum
