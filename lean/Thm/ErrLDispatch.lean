import Thm.ErrLLen
/-!
Error layer, the error dispatch and the RESUME instructions **at VM level, for all programs** (no reference semantics, no
premise beyond a strictly ascending statement-address table): models `ErrL.Vm` as of /repo df9ea58 (the dispatch records the
stack heights and gives the handler a register frame of its own; RESUME / RESUME NEXT cut both stacks back).

* `raise_address` / `raise_next` / `raise_none`: what `raise` does under the three handler modes;
* `dispatch_unit`: an error at any address inside a resume unit `[ustart, unext)` with `ON ERROR GOTO h` reaches `h` with
  `find_current (last_error_address) = ustart`, `find_next (last_error_address) = unext`, the value stack untouched, the
  interrupted frame saved under a fresh one and the heights recorded;
* `leaveHandler_restores`: whatever frames and values the handler left on top, `leaveHandler` gives back exactly the register
  frame, the register stack and the value stack of the failing instruction;
* `resume_unit` / `resumeNext_unit`: the two together — from the dispatch state, after any handler run that keeps the recorded
  heights, the error address and what lies below its own frame, `Resume` continues at `ustart` and `ResumeNext` at `unext`
  with the stacks of the failing instruction.
-/
namespace RbThm.ErrLDispatch
set_option linter.unusedVariables false
set_option linter.unusedSimpArgs false
open RbModel RbModel.Num RbModel.ErrL RbModel.ErrL.Compile RbModel.ErrL.Vm
open RbModel.JmpL.Vm (Vm truncTop Regs)
open RbModel.Ast (Pos)
open RbThm.ErrLLen

/-- the state the dispatch enters a handler at `h` with -/
def dispatchTo (y : EVm) (c h : Nat) : EVm :=
  { b := { y.b with pc := h, regs := Regs.new, regStack := y.b.regs :: y.b.regStack }, handler := y.handler,
    errAddr := some y.b.pc, errCode := some c, ctx := y.ctx + 1, errMarks := (1 + y.b.regStack.length, y.b.vals.length) }

/-- the state ON ERROR RESUME NEXT continues with at `t` -/
def skipTo (y : EVm) (c t : Nat) : EVm :=
  { b := { y.b with pc := t }, handler := y.handler, errAddr := y.errAddr, errCode := some c, ctx := y.ctx,
    errMarks := y.errMarks }

theorem raise_address {P : Prog} {y : EVm} {h : Nat} (hh : y.handler = .address h) (c : Nat) (p : Pos) :
    Vm.raise P y c p = .next (dispatchTo y c h) := by
  simp only [Vm.raise, hh, dispatchTo]

theorem raise_next {P : Prog} {y : EVm} {t : Nat} (hh : y.handler = .next) (ht : findNext P.marks y.b.pc = some t)
    (c : Nat) (p : Pos) : Vm.raise P y c p = .next (skipTo y c t) := by
  simp only [Vm.raise, hh, ht, skipTo]

theorem raise_none {P : Prog} {y : EVm} (hh : y.handler = .none) (c : Nat) (p : Pos) :
    Vm.raise P y c p = .error c p { y with errCode := some c } := by
  simp only [Vm.raise, hh]

/-- **dispatch at an address inside a resume unit**, for all programs -/
theorem dispatch_unit {P : Prog} (hs : P.marks.Pairwise (· < ·)) {ustart unext : Nat} (hu : MarksAt P.marks [ustart] unext)
    {y : EVm} (hlo : ustart ≤ y.b.pc) (hhi : y.b.pc < unext) {h : Nat} (hh : y.handler = .address h) (c : Nat) (p : Pos) :
    ∃ τ, Vm.raise P y c p = .next τ ∧ τ.b.pc = h ∧ τ.errCode = some c ∧
      (∃ a, τ.errAddr = some a ∧ findCurrent P.marks a = some ustart ∧ findNext P.marks a = some unext) ∧
      τ.b.regStack = y.b.regs :: y.b.regStack ∧ τ.errMarks = (1 + y.b.regStack.length, y.b.vals.length) ∧
      τ.b.vals = y.b.vals ∧ τ.b.paths = y.b.paths ∧ τ.b.gosubs = y.b.gosubs ∧ τ.b.env = y.b.env ∧ τ.b.out = y.b.out := by
  obtain ⟨h1, h2⟩ := unit_find hs hu hlo hhi
  exact ⟨dispatchTo y c h, raise_address hh c p, rfl, rfl, ⟨y.b.pc, rfl, h1, h2⟩, rfl, rfl, rfl, rfl, rfl, rfl, rfl⟩

theorem truncTop_suffix {α : Type} (X l : List α) : truncTop l.length (X ++ l) = l := by
  simp [truncTop]

/-- **RESUME / RESUME NEXT restore the stacks of the failing instruction**: the handler's own frame, the frames of its FOR
loops (`X`) and whatever it left on the value stack (`Y`) go -/
theorem leaveHandler_restores (τ : EVm) (r : Regs) (R X : List Regs) (V Y : List Val)
    (hm : τ.errMarks = (1 + R.length, V.length)) (hrs : τ.b.regs :: τ.b.regStack = X ++ r :: R) (hv : τ.b.vals = Y ++ V) :
    leaveHandler τ = .next { τ with b := { τ.b with regs := r, regStack := R, vals := V } } := by
  have h1 : truncTop τ.errMarks.1 (τ.b.regs :: τ.b.regStack) = r :: R := by
    rw [hm, hrs]
    have : 1 + R.length = (r :: R).length := by simp; omega
    rw [this]; exact truncTop_suffix X (r :: R)
  have h2 : truncTop τ.errMarks.2 τ.b.vals = V := by rw [hm, hv]; exact truncTop_suffix Y V
  simp only [leaveHandler, h1, h2]

/-- **`Resume` after a handled error in a unit** continues at the unit's first instruction with the register frame, the
register stack and the value stack of the failing instruction `y`: `τ` is any state of the handler's run in which the recorded
heights and the error address are those of the dispatch and the stacks of `y` lie under whatever the handler put on top -/
theorem resume_unit {P : Prog} (hs : P.marks.Pairwise (· < ·)) {ustart unext : Nat} (hu : MarksAt P.marks [ustart] unext)
    {y τ : EVm} (hlo : ustart ≤ y.b.pc) (hhi : y.b.pc < unext) {q : Pos} (hc : P.code[τ.b.pc]? = some (.resume, q))
    (he : τ.errAddr = some y.b.pc) (hm : τ.errMarks = (1 + y.b.regStack.length, y.b.vals.length))
    {X : List Regs} {Y : List Val} (hrs : τ.b.regs :: τ.b.regStack = X ++ y.b.regs :: y.b.regStack)
    (hv : τ.b.vals = Y ++ y.b.vals) :
    ∃ τ', step P τ = .next τ' ∧ τ'.b.pc = ustart ∧ τ'.b.regs = y.b.regs ∧ τ'.b.regStack = y.b.regStack ∧
      τ'.b.vals = y.b.vals ∧ τ'.errAddr = none ∧ τ'.b.env = τ.b.env ∧ τ'.b.out = τ.b.out := by
  obtain ⟨h1, _⟩ := unit_find hs hu hlo hhi
  let σ1 : EVm := { τ with errAddr := none, errCode := none, ctx := τ.ctx - 1, b := { τ.b with pc := ustart } }
  refine ⟨{ σ1 with b := { σ1.b with regs := y.b.regs, regStack := y.b.regStack, vals := y.b.vals } }, ?_, ?_⟩
  · simp only [step, hc, he, h1]
    exact leaveHandler_restores σ1 y.b.regs y.b.regStack X y.b.vals Y hm hrs hv
  · exact ⟨rfl, rfl, rfl, rfl, rfl, rfl, rfl⟩

/-- **`ResumeNext`** likewise continues at the entry that follows the unit -/
theorem resumeNext_unit {P : Prog} (hs : P.marks.Pairwise (· < ·)) {ustart unext : Nat} (hu : MarksAt P.marks [ustart] unext)
    {y τ : EVm} (hlo : ustart ≤ y.b.pc) (hhi : y.b.pc < unext) {q : Pos} (hc : P.code[τ.b.pc]? = some (.resumeNext, q))
    (he : τ.errAddr = some y.b.pc) (hm : τ.errMarks = (1 + y.b.regStack.length, y.b.vals.length))
    {X : List Regs} {Y : List Val} (hrs : τ.b.regs :: τ.b.regStack = X ++ y.b.regs :: y.b.regStack)
    (hv : τ.b.vals = Y ++ y.b.vals) :
    ∃ τ', step P τ = .next τ' ∧ τ'.b.pc = unext ∧ τ'.b.regs = y.b.regs ∧ τ'.b.regStack = y.b.regStack ∧
      τ'.b.vals = y.b.vals ∧ τ'.errAddr = none ∧ τ'.b.env = τ.b.env ∧ τ'.b.out = τ.b.out := by
  obtain ⟨_, h2⟩ := unit_find hs hu hlo hhi
  let σ1 : EVm := { τ with errAddr := none, errCode := none, ctx := τ.ctx - 1, b := { τ.b with pc := unext } }
  refine ⟨{ σ1 with b := { σ1.b with regs := y.b.regs, regStack := y.b.regStack, vals := y.b.vals } }, ?_, ?_⟩
  · simp only [step, hc, he, h2]
    exact leaveHandler_restores σ1 y.b.regs y.b.regStack X y.b.vals Y hm hrs hv
  · exact ⟨rfl, rfl, rfl, rfl, rfl, rfl, rfl⟩

/-- non-vacuity: the unit `[3, 5)` of the table `[0, 3, 5, 9]`, an error at address 4, handler at 7 -/
example (y : EVm) (hpc : y.b.pc = 4) (hh : y.handler = .address 7) :
    ∃ τ, Vm.raise ⟨[], [], [0, 3, 5, 9], []⟩ y 11 ⟨1, 1⟩ = .next τ ∧ τ.b.pc = 7 ∧ τ.b.regStack = y.b.regs :: y.b.regStack := by
  obtain ⟨τ, h1, h2, _, _, h5, _⟩ := dispatch_unit (P := ⟨[], [], [0, 3, 5, 9], []⟩) (by decide) ⟨[0], [9], rfl⟩
    (y := y) (by rw [hpc]; decide) (by rw [hpc]; decide) hh 11 ⟨1, 1⟩
  exact ⟨τ, h1, h2, h5⟩

end RbThm.ErrLDispatch
