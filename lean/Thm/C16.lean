import RbModel.Print
/-!
# C16 — PRINT lays text out by the column rules, on screen, printer and files alike

Theorems over `RbModel.Print` (the hand-written port of `write_printer.rs`, `print.rs`, the print arms of
`main.rs` and `instruction_generator/print.rs`).

* `print_eq`              what `Printer::print` does: every CR and every LF becomes CR LF and restarts the column
* `column_tracks_text`    after any history, the column counter = number of characters since the last CR / LF
  (`column_tracks_bytes`: = number of bytes, for ASCII text)
* `comma_next_zone`       a comma writes `14 - col % 14` spaces (1..14), the new column is a multiple of 14
* `semicolon_writes_nothing`
* `number_layout_*`       leading space or minus, digits = decimal expansion, trailing space
* `line_end_rule`, `print_continues`   CR LF unless the list ends in a separator; the next PRINT continues the line
* `devices_independent`   each device's bytes and column are a function of the operations addressed to it
* `using_literal_copied`, `using_cyclic`, `using_numeric_width`, `using_numeric_digits`, `using_string_fields`
-/
namespace RbThm.C16
open RbModel.Print

/-! ## The column rule as a specification -/

/-- The column after writing `s` from column `c`: every CR and every LF restarts it, anything else advances it. -/
def colFrom (c : Nat) : List Char → Nat
  | [] => c
  | ch :: cs => if isCrLf ch then colFrom 0 cs else colFrom (c + 1) cs

/-- What reaches the device when `s` is printed: every CR and every LF is written as CR LF. -/
def expand : List Char → List Char
  | [] => []
  | ch :: cs => if isCrLf ch then '\r' :: '\n' :: expand cs else ch :: expand cs

/-- Number of characters after the last CR or LF. -/
def sinceNewline (l : List Char) : Nat := (l.reverse.takeWhile (fun c => !isCrLf c)).length

theorem colFrom_append (c : Nat) (a b : List Char) : colFrom c (a ++ b) = colFrom (colFrom c a) b := by
  induction a generalizing c with
  | nil => rfl
  | cons x xs ih =>
    simp only [List.cons_append, colFrom]
    split <;> exact ih _

theorem colFrom_expand (c : Nat) (s : List Char) : colFrom c (expand s) = colFrom c s := by
  induction s generalizing c with
  | nil => rfl
  | cons x xs ih =>
    by_cases h : isCrLf x = true
    · have h1 : isCrLf '\r' = true := by decide
      have h2 : isCrLf '\n' = true := by decide
      simp [expand, colFrom, h, h1, h2, ih]
    · simp [expand, colFrom, h, ih]

theorem colFrom_noNewline (c : Nat) (s : List Char) (h : ∀ x ∈ s, isCrLf x = false) :
    colFrom c s = c + s.length := by
  induction s generalizing c with
  | nil => rfl
  | cons x xs ih =>
    have hx : isCrLf x = false := h x (by simp)
    have := ih (c + 1) (fun y hy => h y (by simp [hy]))
    simp [colFrom, hx, this]; omega

theorem expand_noNewline (s : List Char) (h : ∀ x ∈ s, isCrLf x = false) : expand s = s := by
  induction s with
  | nil => rfl
  | cons x xs ih =>
    have hx : isCrLf x = false := h x (by simp)
    simp [expand, hx, ih (fun y hy => h y (by simp [hy]))]

theorem colFrom_reverse (l : List Char) :
    colFrom 0 l.reverse = (l.takeWhile (fun c => !isCrLf c)).length := by
  induction l with
  | nil => rfl
  | cons x xs ih =>
    rw [List.reverse_cons, colFrom_append]
    by_cases h : isCrLf x = true
    · simp [colFrom, h, List.takeWhile]
    · simp [colFrom, h, List.takeWhile, ih]

/-- `colFrom 0` counts the characters since the last CR / LF. -/
theorem colFrom_eq_sinceNewline (l : List Char) : colFrom 0 l = sinceNewline l := by
  have := colFrom_reverse l.reverse
  simpa [sinceNewline] using this

/-! ## `WritePrinter::print` -/

theorem splitCrLf_ne_nil (s : List Char) : splitCrLf s ≠ [] := by
  cases s with
  | nil => simp [splitCrLf]
  | cons c cs =>
    simp only [splitCrLf]
    split
    · simp
    · split <;> simp

theorem printAsIs_nil (p : WritePrinter) : p.printAsIs [] = p := by
  cases p; simp [WritePrinter.printAsIs]

theorem print_nil (p : WritePrinter) : p.print [] = p := by
  simp [WritePrinter.print, splitCrLf, WritePrinter.printRest, printAsIs_nil]

theorem print_cons (p : WritePrinter) (c : Char) (cs : List Char) :
    p.print (c :: cs) = if isCrLf c then p.println.print cs else (p.printAsIs [c]).print cs := by
  have hne := splitCrLf_ne_nil cs
  by_cases h : isCrLf c = true
  · simp only [h, if_true]
    cases hs : splitCrLf cs with
    | nil => exact absurd hs hne
    | cons f r =>
      simp [WritePrinter.print, splitCrLf, h, hs, WritePrinter.printRest, printAsIs_nil]
  · simp only [h]
    cases hs : splitCrLf cs with
    | nil => exact absurd hs hne
    | cons f r =>
      have : (p.printAsIs [c]).printAsIs f = p.printAsIs (c :: f) := by
        simp [WritePrinter.printAsIs]; omega
      simp [WritePrinter.print, splitCrLf, h, hs, this]

/-- **What `print` does**: the device receives the text with every CR and every LF written as CR LF, and the
column follows the column rule. -/
theorem print_eq (p : WritePrinter) (s : List Char) :
    p.print s = { out := p.out ++ expand s, lastColumn := colFrom p.lastColumn s } := by
  induction s generalizing p with
  | nil => simp [print_nil, expand, colFrom]
  | cons c cs ih =>
    rw [print_cons]
    by_cases h : isCrLf c = true
    · simp [h, ih, WritePrinter.println, expand, colFrom]
    · simp [h, ih, WritePrinter.printAsIs, expand, colFrom]

theorem isCrLf_space : isCrLf ' ' = false := by decide

theorem spaces_noNewline (n : Nat) : ∀ x ∈ List.replicate n ' ', isCrLf x = false := by
  intro x hx
  rw [List.mem_replicate] at hx
  rw [hx.2]; exact isCrLf_space

/-- **comma_next_zone** (device level): moving to the next print zone writes `14 - col % 14` spaces — between
1 and 14 — and the new column is a multiple of 14. -/
theorem comma_next_zone (p : WritePrinter) :
    let n := 14 - p.lastColumn % 14
    p.moveToNextPrintZone = { out := p.out ++ List.replicate n ' ', lastColumn := p.lastColumn + n }
    ∧ 1 ≤ n ∧ n ≤ 14 ∧ (p.lastColumn + n) % 14 = 0 := by
  intro n
  refine ⟨?_, ?_, ?_, ?_⟩
  · simp only [WritePrinter.moveToNextPrintZone, print_eq]
    rw [expand_noNewline _ (spaces_noNewline _), colFrom_noNewline _ _ (spaces_noNewline _)]
    simp [n]
  · omega
  · omega
  · omega

example : (WritePrinter.mk ['a', 'b'] 13).moveToNextPrintZone = ⟨['a', 'b', ' '], 14⟩ := by decide
example : (WritePrinter.mk [] 14).moveToNextPrintZone.lastColumn = 28 := by decide

/-! ## column_tracks_text -/

/-- The column counter agrees with the text written so far. -/
def Inv (p : WritePrinter) : Prop := p.lastColumn = colFrom 0 p.out

theorem inv_new : Inv WritePrinter.new := rfl

theorem inv_print (p : WritePrinter) (s : List Char) (h : Inv p) : Inv (p.print s) := by
  unfold Inv at *
  rw [print_eq]
  simp only
  rw [colFrom_append, colFrom_expand, h]

theorem inv_println (p : WritePrinter) : Inv p.println := by
  unfold Inv
  simp only [WritePrinter.println]
  rw [colFrom_append]
  have h1 : isCrLf '\r' = true := by decide
  have h2 : isCrLf '\n' = true := by decide
  simp [colFrom, h1, h2]

theorem inv_apply (p : WritePrinter) (o : Op) (h : Inv p) : Inv (p.apply o) := by
  cases o with
  | print s => exact inv_print p s h
  | println => exact inv_println p
  | zone => exact inv_print p _ h

theorem inv_run (p : WritePrinter) (ops : List Op) (h : Inv p) : Inv (p.run ops) := by
  induction ops generalizing p with
  | nil => exact h
  | cons o os ih => exact ih _ (inv_apply p o h)

/-- **column_tracks_text** (one device): after any history of `print` / `println` / `move_to_next_print_zone`
calls on a fresh device, the column counter is the number of characters written since the last CR or LF. -/
theorem column_tracks_text (ops : List Op) :
    (WritePrinter.new.run ops).lastColumn = sinceNewline (WritePrinter.new.run ops).out := by
  rw [← colFrom_eq_sinceNewline]
  exact inv_run _ ops inv_new

/-- Number of bytes of the UTF-8 encoding (what the device actually receives). -/
def utf8Len (l : List Char) : Nat := (l.map Char.utf8Size).sum

theorem utf8Len_ascii (l : List Char) (h : ∀ c ∈ l, c.val ≤ 127) : utf8Len l = l.length := by
  induction l with
  | nil => rfl
  | cons x xs ih =>
    have hx : x.val ≤ 127 := h x (by simp)
    have h1 : x.utf8Size = 1 := by
      simp only [Char.utf8Size]
      have : x.val ≤ 0x7f := hx
      simp [this]
    have := ih (fun c hc => h c (by simp [hc]))
    simp only [utf8Len, List.map_cons, List.sum_cons, List.length_cons] at *
    omega

/-- **column_tracks_text**, in bytes: for ASCII text the column counter is the number of bytes written since the
last CR or LF. -/
theorem column_tracks_bytes (ops : List Op)
    (hascii : ∀ c ∈ (WritePrinter.new.run ops).out, c.val ≤ 127) :
    (WritePrinter.new.run ops).lastColumn
      = utf8Len ((WritePrinter.new.run ops).out.reverse.takeWhile (fun c => !isCrLf c)) := by
  rw [utf8Len_ascii]
  · exact column_tracks_text ops
  · intro c hc
    exact hascii c (List.mem_reverse.mp ((List.takeWhile_sublist _).subset hc))

example : (WritePrinter.new.run [.print ['a', '\n', 'b', 'c'], .zone, .print ['x']]).lastColumn = 15 := by decide

/-- F13 (repaired in the code): a non-ASCII character advances the column by one, although it is two bytes
on the device; with the old byte count the column would have been 2. -/
theorem nonascii_counts_one :
    (WritePrinter.new.print [Char.ofNat 200]).lastColumn = 1 ∧ utf8Len [Char.ofNat 200] = 2 := by decide

/-! ## number_layout -/

def digitVal (c : Char) : Nat := c.toNat - 48

/-- The number a digit string denotes (Horner). -/
def digitsValue (l : List Char) : Nat := l.foldl (fun a c => 10 * a + digitVal c) 0

theorem digit_facts : ∀ k, k < 10 →
    digitVal (Char.ofNat (48 + k)) = k ∧ (Char.ofNat (48 + k)).isDigit = true
    ∧ isCrLf (Char.ofNat (48 + k)) = false ∧ (k ≠ 0 → Char.ofNat (48 + k) ≠ '0') := by decide

theorem digitChar_val (d : Nat) : digitVal (digitChar d) = d % 10 :=
  (digit_facts (d % 10) (Nat.mod_lt _ (by decide))).1

theorem digitChar_isDigit (d : Nat) : (digitChar d).isDigit = true :=
  (digit_facts (d % 10) (Nat.mod_lt _ (by decide))).2.1

theorem digitChar_noNewline (d : Nat) : isCrLf (digitChar d) = false :=
  (digit_facts (d % 10) (Nat.mod_lt _ (by decide))).2.2.1

theorem digitsAux_acc (fuel n : Nat) (acc : List Char) :
    digitsAux fuel n acc = digitsAux fuel n [] ++ acc := by
  induction fuel generalizing n acc with
  | zero => simp [digitsAux]
  | succ f ih =>
    simp only [digitsAux]
    split
    · simp
    · rw [ih (n / 10) (digitChar n :: acc), ih (n / 10) [digitChar n]]; simp

theorem digitsAux_fuel (f1 f2 n : Nat) (acc : List Char) (h1 : n < f1) (h2 : n < f2) :
    digitsAux f1 n acc = digitsAux f2 n acc := by
  induction f1 generalizing f2 n acc with
  | zero => omega
  | succ a ih =>
    cases f2 with
    | zero => omega
    | succ b =>
      simp only [digitsAux]
      split
      · rfl
      · exact ih b (n / 10) _ (by omega) (by omega)

theorem natDigits_small (n : Nat) (h : n < 10) : natDigits n = [digitChar n] := by
  have : n / 10 = 0 := by omega
  simp [natDigits, digitsAux, this]

theorem natDigits_big (n : Nat) (h : 10 ≤ n) : natDigits n = natDigits (n / 10) ++ [digitChar n] := by
  have h0 : ¬ n / 10 = 0 := by omega
  have : natDigits n = digitsAux n (n / 10) [digitChar n] := by
    simp [natDigits, digitsAux, h0]
  rw [this, digitsAux_acc, natDigits, digitsAux_fuel n (n / 10 + 1) (n / 10) [] (by omega) (by omega)]

theorem digitsValue_snoc (l : List Char) (c : Char) : digitsValue (l ++ [c]) = 10 * digitsValue l + digitVal c := by
  simp [digitsValue, List.foldl_append]

/-- The digits written for `n` denote `n`. -/
theorem natDigits_value (n : Nat) : digitsValue (natDigits n) = n := by
  induction n using Nat.strongRecOn with
  | _ n ih =>
    by_cases h : n < 10
    · rw [natDigits_small n h]
      simp [digitsValue, digitChar_val]; omega
    · rw [natDigits_big n (by omega), digitsValue_snoc, ih (n / 10) (by omega), digitChar_val]; omega

theorem natDigits_isDigit (n : Nat) : ∀ c ∈ natDigits n, c.isDigit = true := by
  induction n using Nat.strongRecOn with
  | _ n ih =>
    by_cases h : n < 10
    · rw [natDigits_small n h]; intro c hc; simp at hc; rw [hc]; exact digitChar_isDigit n
    · rw [natDigits_big n (by omega)]
      intro c hc
      rw [List.mem_append] at hc
      cases hc with
      | inl h1 => exact ih (n / 10) (by omega) c h1
      | inr h2 => simp at h2; rw [h2]; exact digitChar_isDigit n

theorem natDigits_noNewline (n : Nat) : ∀ c ∈ natDigits n, isCrLf c = false := by
  induction n using Nat.strongRecOn with
  | _ n ih =>
    by_cases h : n < 10
    · rw [natDigits_small n h]; intro c hc; simp at hc; rw [hc]; exact digitChar_noNewline n
    · rw [natDigits_big n (by omega)]
      intro c hc
      rw [List.mem_append] at hc
      cases hc with
      | inl h1 => exact ih (n / 10) (by omega) c h1
      | inr h2 => simp at h2; rw [h2]; exact digitChar_noNewline n

theorem natDigits_ne_nil (n : Nat) : natDigits n ≠ [] := by
  by_cases h : n < 10
  · rw [natDigits_small n h]; simp
  · rw [natDigits_big n (by omega)]; simp

/-- No leading zero (except for zero itself). -/
theorem natDigits_head (n : Nat) (hn : n ≠ 0) : (natDigits n).head? ≠ some '0' := by
  induction n using Nat.strongRecOn with
  | _ n ih =>
    by_cases h : n < 10
    · rw [natDigits_small n h]
      have := (digit_facts (n % 10) (Nat.mod_lt _ (by decide))).2.2.2 (by omega)
      simpa [digitChar] using this
    · rw [natDigits_big n (by omega)]
      have hne := natDigits_ne_nil (n / 10)
      cases hd : natDigits (n / 10) with
      | nil => exact absurd hd hne
      | cons x xs =>
        have := ih (n / 10) (by omega) (by omega)
        rw [hd] at this
        simpa using this

/-- **number_layout** (INTEGER / LONG): a minus sign or a space, the decimal digits of the magnitude, a space. -/
theorem number_layout_int (i : Int) :
    valueText (.int i) = (if i < 0 then '-' else ' ') :: (natDigits i.natAbs ++ [' '])
    ∧ valueText (.long i) = (if i < 0 then '-' else ' ') :: (natDigits i.natAbs ++ [' '])
    ∧ digitsValue (natDigits i.natAbs) = i.natAbs := by
  refine ⟨?_, ?_, natDigits_value _⟩ <;>
  · by_cases h : i < 0
    · have : ¬ i ≥ 0 := by omega
      simp [valueText, numberText, intText, h, this]
    · have : i ≥ 0 := by omega
      simp [valueText, numberText, intText, h, this]

example : valueText (.int (-42)) = ['-', '4', '2', ' '] := by decide
example : valueText (.long 70000) = [' ', '7', '0', '0', '0', '0', ' '] := by decide

theorem fixedDigits_length (k n : Nat) : (fixedDigits k n).length = k := by
  induction k generalizing n with
  | zero => rfl
  | succ k ih => simp [fixedDigits, ih]

theorem fixedDigits_value (k n : Nat) : digitsValue (fixedDigits k n) = n % 10 ^ k := by
  induction k generalizing n with
  | zero => simp [fixedDigits, digitsValue, Nat.mod_one]
  | succ k ih =>
    rw [fixedDigits, digitsValue_snoc, ih, digitChar_val, Nat.pow_succ]
    have h1 : n % (10 ^ k * 10) = n % 10 + 10 * (n / 10 % 10 ^ k) := by
      rw [Nat.mul_comm, Nat.mod_mul]
    omega

theorem fixedDigits_noNewline (k n : Nat) : ∀ c ∈ fixedDigits k n, isCrLf c = false := by
  induction k generalizing n with
  | zero => simp [fixedDigits]
  | succ k ih =>
    intro c hc
    simp only [fixedDigits, List.mem_append, List.mem_singleton] at hc
    cases hc with
    | inl h => exact ih _ c h
    | inr h => rw [h]; exact digitChar_noNewline n

theorem normAux_value (s m : Nat) : (normAux s m).1 * 10 ^ s = m * 10 ^ (normAux s m).2 := by
  induction s generalizing m with
  | zero => simp [normAux]
  | succ s ih =>
    simp only [normAux]
    split
    · rename_i h
      have := ih (m / 10)
      rw [Nat.pow_succ, ← Nat.mul_assoc, this]
      have hm : m = m / 10 * 10 := by omega
      calc m / 10 * 10 ^ (normAux s (m / 10)).2 * 10
          = (m / 10 * 10) * 10 ^ (normAux s (m / 10)).2 := by
            rw [Nat.mul_assoc, Nat.mul_comm (10 ^ _) 10, ← Nat.mul_assoc]
        _ = m * 10 ^ (normAux s (m / 10)).2 := by rw [← hm]
    · rfl

/-- Normalising a decimal (dropping trailing zeros) keeps its value and its sign. -/
theorem normalize_value (d : Dec) :
    d.normalize.mant * 10 ^ d.scale = d.mant * 10 ^ d.normalize.scale ∧ d.normalize.neg = d.neg :=
  ⟨normAux_value d.scale d.mant, rfl⟩

/-- The unsigned text of a decimal: integer digits, and `.` + exactly `scale` fraction digits if the (normalised)
scale is not zero. -/
def decBody (n : Dec) : List Char :=
  if n.scale = 0 then natDigits (n.mant / 10 ^ n.scale)
  else natDigits (n.mant / 10 ^ n.scale) ++ '.' :: fixedDigits n.scale (n.mant % 10 ^ n.scale)

/-- **number_layout** (SINGLE / DOUBLE, in-domain finite decimals): a minus sign (negative values) or a space,
the decimal expansion of the normalised value, a space.  The digits are exact:
`integer digits · 10^scale + fraction digits = mantissa` (`decimal_digits_exact`). -/
theorem number_layout_dec (d : Dec) :
    valueText (.single d) = (if d.isNeg then '-' else ' ') :: (decBody d.normalize ++ [' '])
    ∧ valueText (.double d) = (if d.isNeg then '-' else ' ') :: (decBody d.normalize ++ [' ']) := by
  constructor <;>
  · cases h : d.isNeg <;> simp [valueText, numberText, Dec.text, decBody, h]

theorem decimal_digits_exact (n : Dec) :
    digitsValue (natDigits (n.mant / 10 ^ n.scale)) * 10 ^ n.scale
      + digitsValue (fixedDigits n.scale (n.mant % 10 ^ n.scale)) = n.mant
    ∧ (fixedDigits n.scale (n.mant % 10 ^ n.scale)).length = n.scale := by
  refine ⟨?_, fixedDigits_length _ _⟩
  rw [natDigits_value, fixedDigits_value, Nat.mod_mod]
  exact Nat.div_add_mod' _ _

example : valueText (.single ⟨true, 3140, 3⟩) = ['-', '3', '.', '1', '4', ' '] := by decide
example : valueText (.double ⟨true, 0, 1⟩) = [' ', '0', ' '] := by decide

theorem isCrLf_misc : isCrLf '-' = false ∧ isCrLf ' ' = false ∧ isCrLf '.' = false := by decide

theorem decBody_noNewline (n : Dec) : ∀ c ∈ decBody n, isCrLf c = false := by
  intro c hc
  unfold decBody at hc
  split at hc
  · exact natDigits_noNewline _ c hc
  · simp only [List.mem_append, List.mem_cons] at hc
    rcases hc with h | h | h
    · exact natDigits_noNewline _ c h
    · rw [h]; exact isCrLf_misc.2.2
    · exact fixedDigits_noNewline _ _ c h

/-- The text of a number contains no CR / LF ... -/
theorem number_noNewline (v : Value) (hv : ∀ s, v ≠ .str s) : ∀ c ∈ valueText v, isCrLf c = false := by
  intro c hc
  have key : ∀ (sign : Char) (body : List Char), isCrLf sign = false → (∀ x ∈ body, isCrLf x = false) →
      c ∈ sign :: (body ++ [' ']) → isCrLf c = false := by
    intro sign body hs hb hmem
    simp only [List.mem_cons, List.mem_append, List.not_mem_nil, or_false] at hmem
    rcases hmem with h | h | h
    · rw [h]; exact hs
    · exact hb c h
    · rw [h]; exact isCrLf_space
  have hsign : ∀ b : Bool, isCrLf (if b then '-' else ' ') = false := by
    intro b; cases b <;> decide
  cases v with
  | str s => exact absurd rfl (hv s)
  | int i =>
    rw [(number_layout_int i).1] at hc
    exact key _ _ (by have := hsign (decide (i < 0)); simpa using this) (natDigits_noNewline _) hc
  | long i =>
    rw [(number_layout_int i).2.1] at hc
    exact key _ _ (by have := hsign (decide (i < 0)); simpa using this) (natDigits_noNewline _) hc
  | single d =>
    rw [(number_layout_dec d).1] at hc
    exact key _ _ (by have := hsign d.isNeg; simpa using this) (decBody_noNewline _) hc
  | double d =>
    rw [(number_layout_dec d).2] at hc
    exact key _ _ (by have := hsign d.isNeg; simpa using this) (decBody_noNewline _) hc

/-- ... so printing a number appends its text verbatim and advances the column by its length. -/
theorem number_print (p : WritePrinter) (v : Value) (hv : ∀ s, v ≠ .str s) :
    p.print (valueText v) = { out := p.out ++ valueText v, lastColumn := p.lastColumn + (valueText v).length } := by
  rw [print_eq, expand_noNewline _ (number_noNewline v hv), colFrom_noNewline _ _ (number_noNewline v hv)]

/-- A string is printed verbatim (up to the CR / LF rule). -/
theorem string_print (p : WritePrinter) (s : List Char) :
    p.print (valueText (.str s)) = { out := p.out ++ expand s, lastColumn := colFrom p.lastColumn s } :=
  print_eq p s

/-! ## Instruction level: separators -/

/-- **semicolon_writes_nothing**: a semicolon touches no device; it only sets the skip-newline flag. -/
theorem semicolon_writes_nothing (st : St) :
    step st .semicolon = .ok { st with ps := { st.ps with skipNewLine := true } } := rfl

/-- An instruction that calls the printer: the chosen device — and only it — receives the calls. -/
theorem step_write (st : St) (i : Instr) (ps' : PrintState) (ops : List Op) (p : WritePrinter)
    (h : psStep st.ps i = .ok (ps', some ops)) (ht : ps'.target = st.ps.target)
    (hdev : st.dev st.ps.target = some p) :
    step st i = .ok ⟨ps', st.dev.set st.ps.target (p.run ops)⟩ := by
  unfold step
  rw [h]
  simp only
  rw [ht, hdev]

/-- **comma_next_zone** (instruction level): `PrintComma` pads the chosen device — and only it — to the next
zone and sets the skip-newline flag. -/
theorem comma_instr (st : St) (p : WritePrinter) (h : st.dev st.ps.target = some p) :
    step st .comma = .ok { ps := { st.ps with skipNewLine := true },
                           dev := st.dev.set st.ps.target p.moveToNextPrintZone } := by
  have ht : ({ st.ps with skipNewLine := true } : PrintState).target = st.ps.target := rfl
  simp [step, psStep, ht, h, WritePrinter.run, WritePrinter.apply]

/-! ## devices_independent -/

theorem wp_run_append (p : WritePrinter) (a b : List Op) : p.run (a ++ b) = (p.run a).run b := by
  induction a generalizing p with
  | nil => rfl
  | cons o os ih => exact ih _

/-- The calls a history of instructions makes, each tagged with the device it addresses.  Computed from the
`PrintState` alone: which device is addressed, and what is sent to it, does not depend on any device's contents. -/
def events (ps : PrintState) : List Instr → List (Device × List Op)
  | [] => []
  | i :: is =>
    match psStep ps i with
    | .error _ => []
    | .ok (ps', none) => events ps' is
    | .ok (ps', some ops) => (ps'.target, ops) :: events ps' is

/-- The operations of a tagged history that address device `d`, in order. -/
def opsFor (d : Device) : List (Device × List Op) → List Op
  | [] => []
  | (e, ops) :: r => if e = d then ops ++ opsFor d r else opsFor d r

theorem set_same (dev : Devices) (d : Device) (p : WritePrinter) : (dev.set d p) d = some p := by
  simp [Devices.set]

theorem set_other (dev : Devices) (d e : Device) (p : WritePrinter) (h : e ≠ d) : (dev.set d p) e = dev e := by
  simp [Devices.set, h]

/-- One instruction leaves every device other than the addressed one exactly as it was. -/
theorem devices_independent_step (st st' : St) (i : Instr) (h : step st i = .ok st')
    (d : Device) (hd : d ≠ st'.ps.target) : st'.dev d = st.dev d := by
  unfold step at h
  split at h
  · cases h
  · cases h; rfl
  · rename_i ps' ops hps
    split at h
    · cases h
    · cases h
      exact set_other _ _ _ _ hd

/-- **devices_independent** (frame lemma over interleaved histories): after any history of print instructions,
interleaved over any devices, the bytes and the column of each device `d` are what `d`'s own operations —
the subsequence of the history addressed to `d` — produce from `d`'s initial contents.  Operations addressed to
other devices have no effect on `d`. -/
theorem devices_independent (st st' : St) (is : List Instr) (h : run st is = .ok st') (d : Device) :
    st'.dev d = (st.dev d).map (fun p => p.run (opsFor d (events st.ps is))) := by
  induction is generalizing st with
  | nil =>
    have hst : st' = st := by simp only [run] at h; cases h; rfl
    subst hst
    cases hd : st'.dev d <;> simp [events, opsFor, WritePrinter.run]
  | cons i is ih =>
    simp only [run] at h
    cases hs : step st i with
    | error e => rw [hs] at h; cases h
    | ok st1 =>
      rw [hs] at h
      have ih1 := ih st1 h
      unfold step at hs
      cases hp : psStep st.ps i with
      | error e => rw [hp] at hs; cases hs
      | ok r =>
        obtain ⟨ps', oo⟩ := r
        cases oo with
        | none =>
          rw [hp] at hs
          cases hs
          simp only [events, hp]
          exact ih1
        | some ops =>
          rw [hp] at hs
          simp only at hs
          cases hdev : st.dev ps'.target with
          | none => rw [hdev] at hs; cases hs
          | some p =>
            rw [hdev] at hs
            cases hs
            simp only [events, hp, opsFor]
            by_cases hd : ps'.target = d
            · subst hd
              rw [ih1]
              simp [set_same, hdev, wp_run_append]
            · have hd' : d ≠ ps'.target := fun e => hd e.symm
              rw [ih1]
              simp [set_other _ _ _ _ hd', hd]

/-- Corollary: a device that no operation of the history addresses is unchanged. -/
theorem untouched_device (st st' : St) (is : List Instr) (h : run st is = .ok st') (d : Device)
    (hno : ∀ e ∈ events st.ps is, e.1 ≠ d) : st'.dev d = st.dev d := by
  rw [devices_independent st st' is h d]
  have : opsFor d (events st.ps is) = [] := by
    generalize events st.ps is = evs at hno
    induction evs with
    | nil => rfl
    | cons e r ih =>
      obtain ⟨e1, e2⟩ := e
      have h1 : e1 ≠ d := hno (e1, e2) (by simp)
      simp only [opsFor, h1, if_false]
      exact ih (fun x hx => hno x (by simp [hx]))
  rw [this]
  cases st.dev d <;> simp [WritePrinter.run]

/-- **column_tracks_text** (all devices, any interleaved history of print instructions from the initial state):
on every device the column counter is the number of characters written to it since the last CR or LF. -/
theorem column_tracks_text_all (files : List Nat) (is : List Instr) (st : St)
    (h : run (St.init files) is = .ok st) (d : Device) (p : WritePrinter) (hp : st.dev d = some p) :
    p.lastColumn = sinceNewline p.out := by
  rw [devices_independent _ _ _ h d] at hp
  rw [← colFrom_eq_sinceNewline]
  cases h0 : (St.init files).dev d with
  | none => rw [h0] at hp; cases hp
  | some p0 =>
    rw [h0] at hp
    simp only [Option.map_some, Option.some.injEq] at hp
    have hp0 : p0 = WritePrinter.new := by
      cases d with
      | screen => simp [St.init] at h0; exact h0.symm
      | lpt1 => simp [St.init] at h0; exact h0.symm
      | file k =>
        simp only [St.init] at h0
        split at h0
        · cases h0; rfl
        · cases h0
    rw [← hp, hp0]
    exact inv_run _ _ inv_new

/-! ## line_end_rule -/

theorem run_append (st : St) (a b : List Instr) :
    run st (a ++ b) = match run st a with | .error e => .error e | .ok st' => run st' b := by
  induction a generalizing st with
  | nil => rfl
  | cons i is ih =>
    simp only [List.cons_append, run]
    cases step st i with
    | error e => rfl
    | ok st1 => exact ih st1

/-- What the items of a statement without USING do to its device. -/
def plainArgs (p : WritePrinter) : List Arg → WritePrinter
  | [] => p
  | .expr v :: r => plainArgs (p.print (valueText v)) r
  | .comma :: r => plainArgs p.moveToNextPrintZone r
  | .semicolon :: r => plainArgs p r

/-- The skip-newline flag after the items: set by a separator, cleared by an expression. -/
def flagAfter (f : Bool) : List Arg → Bool
  | [] => f
  | .expr _ :: r => flagAfter false r
  | .comma :: r => flagAfter true r
  | .semicolon :: r => flagAfter true r

/-- The item list ends in a separator. -/
def endsInSep (args : List Arg) : Bool :=
  match args.getLast? with
  | some .comma => true
  | some .semicolon => true
  | _ => false

theorem flagAfter_eq (f : Bool) (args : List Arg) :
    flagAfter f args = if args = [] then f else endsInSep args := by
  induction args generalizing f with
  | nil => rfl
  | cons a r ih =>
    have hr : (a :: r).getLast? = if r = [] then some a else r.getLast? := by
      cases r <;> simp [List.getLast?]
    by_cases hnil : r = []
    · subst hnil
      cases a <;> simp [flagAfter, endsInSep, List.getLast?]
    · have : endsInSep (a :: r) = endsInSep r := by
        simp [endsInSep, hr, hnil]
      cases a <;> simp [flagAfter, ih, hnil, this]

theorem plainArgs_append (p : WritePrinter) (a b : List Arg) :
    plainArgs p (a ++ b) = plainArgs (plainArgs p a) b := by
  induction a generalizing p with
  | nil => rfl
  | cons x xs ih => cases x <;> simp [plainArgs, ih]

/-- Running the lowered items of a statement without format string. -/
theorem run_plain_args (st : St) (args : List Arg) (p : WritePrinter)
    (hfmt : st.ps.formatString = none) (hdev : st.dev st.ps.target = some p) :
    ∃ st', run st (args.map lowerArg) = .ok st'
      ∧ st'.ps = { st.ps with skipNewLine := flagAfter st.ps.skipNewLine args }
      ∧ st'.dev st.ps.target = some (plainArgs p args)
      ∧ ∀ d, d ≠ st.ps.target → st'.dev d = st.dev d := by
  induction args generalizing st p with
  | nil => exact ⟨st, rfl, by cases st; rfl, hdev, fun _ _ => rfl⟩
  | cons a r ih =>
    cases a with
    | expr v =>
      have hps : psStep st.ps (.valueFromA v)
          = .ok ({ st.ps with skipNewLine := false }, some [.print (valueText v)]) := by
        simp only [psStep, hfmt]
      have hs := step_write st _ _ _ p hps rfl hdev
      obtain ⟨st', h1, h2, h3, h4⟩ :=
        ih ⟨{ st.ps with skipNewLine := false }, st.dev.set st.ps.target (p.print (valueText v))⟩
          (p.print (valueText v)) hfmt (set_same _ _ _)
      refine ⟨st', ?_, ?_, ?_, ?_⟩
      · simp only [List.map_cons, lowerArg, run, hs]; exact h1
      · rw [h2]; rfl
      · exact h3
      · intro d hd; rw [h4 d hd]; exact set_other _ _ _ _ hd
    | comma =>
      have hs := comma_instr st p hdev
      obtain ⟨st', h1, h2, h3, h4⟩ :=
        ih ⟨{ st.ps with skipNewLine := true }, st.dev.set st.ps.target p.moveToNextPrintZone⟩
          p.moveToNextPrintZone hfmt (set_same _ _ _)
      refine ⟨st', ?_, ?_, ?_, ?_⟩
      · simp only [List.map_cons, lowerArg, run, hs]; exact h1
      · rw [h2]; rfl
      · exact h3
      · intro d hd; rw [h4 d hd]; exact set_other _ _ _ _ hd
    | semicolon =>
      obtain ⟨st', h1, h2, h3, h4⟩ := ih { st with ps := { st.ps with skipNewLine := true } } p hfmt hdev
      refine ⟨st', ?_, ?_, ?_, ?_⟩
      · simp only [List.map_cons, lowerArg, run, semicolon_writes_nothing]; exact h1
      · rw [h2]; rfl
      · exact h3
      · exact h4

/-- The prologue of a lowered statement without USING selects the device and clears the format; devices untouched. -/
theorem run_prologue (st : St) (d : Device) :
    ∃ ps', run st (lowerTarget d ++ [.setFormatStringFromA (.int 0)]) = .ok { st with ps := ps' }
      ∧ ps'.target = d ∧ ps'.formatString = none ∧ ps'.skipNewLine = false := by
  cases d with
  | screen => exact ⟨_, rfl, rfl, rfl, rfl⟩
  | lpt1 => exact ⟨_, rfl, rfl, rfl, rfl⟩
  | file h => exact ⟨_, rfl, rfl, rfl, rfl⟩

/-- **line_end_rule**: a PRINT / LPRINT / PRINT #n statement without USING, run from any state,
lays its items out on its device and then writes CR LF (column 0) — unless the item list ends in a separator:
then nothing more is written and the column stays where the items left it.  Other devices are untouched, and the
statement ends at a statement boundary again (skip-newline flag clear), so the next PRINT starts afresh. -/
theorem line_end_rule (st : St) (s : Stmt) (p : WritePrinter)
    (hfmt : s.format = none) (hdev : st.dev s.target = some p) :
    ∃ st', run st (lower s) = .ok st'
      ∧ st'.ps.skipNewLine = false
      ∧ st'.dev s.target
          = some (if endsInSep s.args then plainArgs p s.args else (plainArgs p s.args).println)
      ∧ ∀ d, d ≠ s.target → st'.dev d = st.dev d := by
  obtain ⟨ps1, hpro, ht, hf, hsk⟩ := run_prologue st s.target
  have hdev1 : ({ st with ps := ps1 } : St).dev ps1.target = some p := by rw [ht]; exact hdev
  obtain ⟨st2, h1, h2, h3, h4⟩ := run_plain_args { st with ps := ps1 } s.args p hf hdev1
  simp only at h2 h3 h4
  rw [ht] at h3 h4
  have hlow : lower s = (lowerTarget s.target ++ [.setFormatStringFromA (.int 0)]) ++
      (s.args.map lowerArg ++ [.printEnd]) := by
    simp [lower, hfmt]
  have hflag2 : st2.ps.skipNewLine = if s.args = [] then false else endsInSep s.args := by
    rw [h2]; simp only; rw [flagAfter_eq, hsk]
  have hfmt2 : st2.ps.formatString = none := by rw [h2]; exact hf
  have ht2 : st2.ps.target = s.target := by rw [h2]; exact ht
  have hnil : s.args = [] → endsInSep s.args = false := by intro h; rw [h]; rfl
  rw [hlow, run_append, hpro]
  simp only
  rw [run_append, h1]
  simp only [run]
  -- the final PrintEnd
  have hend : step st2 .printEnd = .ok ⟨{ st2.ps with skipNewLine := false },
      st2.dev.set s.target
        (if endsInSep s.args then plainArgs p s.args else (plainArgs p s.args).println)⟩ := by
    have hps : psStep st2.ps .printEnd = .ok ({ st2.ps with skipNewLine := false },
        some (if st2.ps.skipNewLine then [] else [.println])) := by
      simp [psStep, hfmt2]
    rw [step_write st2 .printEnd _ _ (plainArgs p s.args) hps rfl (by rw [ht2]; exact h3), ht2]
    by_cases he : endsInSep s.args = true
    · have hne : s.args ≠ [] := fun h => by rw [hnil h] at he; cases he
      have hsk2 : st2.ps.skipNewLine = true := by rw [hflag2]; simp [hne, he]
      simp [hsk2, he, WritePrinter.run]
    · have he' : endsInSep s.args = false := by simpa using he
      have hsk2 : st2.ps.skipNewLine = false := by rw [hflag2]; simp [he']
      simp [hsk2, he', WritePrinter.run, WritePrinter.apply]
  rw [hend]
  refine ⟨_, rfl, rfl, set_same _ _ _, ?_⟩
  intro d hd
  show (st2.dev.set s.target _) d = st.dev d
  rw [set_other _ _ _ _ hd]
  exact h4 d hd

/-- **The next PRINT continues at the same column**: `PRINT a… ;` (or `,`) followed by `PRINT b…` (at least one item) to the
same device leaves on that device exactly what the single statement `PRINT a… ; b…` leaves. -/
theorem print_continues (st : St) (s1 s2 : Stmt) (p : WritePrinter)
    (h1 : s1.format = none) (h2 : s2.format = none) (hsame : s2.target = s1.target)
    (hsep : endsInSep s1.args = true) (hne : s2.args ≠ [])
    (hdev : st.dev s1.target = some p) :
    ∃ st' st'', run st (lower s1 ++ lower s2) = .ok st'
      ∧ run st (lower { s1 with args := s1.args ++ s2.args }) = .ok st''
      ∧ st'.dev s1.target = st''.dev s1.target := by
  obtain ⟨sa, ha1, ha2, ha3, _⟩ := line_end_rule st s1 p h1 hdev
  rw [hsep] at ha3
  simp only [if_true] at ha3
  obtain ⟨sb, hb1, _, hb3, _⟩ := line_end_rule sa s2 (plainArgs p s1.args) h2 (by rw [hsame]; exact ha3)
  obtain ⟨sc, hc1, _, hc3, _⟩ :=
    line_end_rule st { s1 with args := s1.args ++ s2.args } p h1 hdev
  refine ⟨sb, sc, ?_, hc1, ?_⟩
  · rw [run_append, ha1]; exact hb1
  · rw [hsame] at hb3
    simp only at hc3
    rw [hb3, hc3, plainArgs_append]
    have : endsInSep (s1.args ++ s2.args) = endsInSep s2.args := by
      cases hh : s2.args.getLast? with
      | none => rw [List.getLast?_eq_none_iff] at hh; exact absurd hh hne
      | some x => simp [endsInSep, List.getLast?_append, hh]
    rw [this]

example : endsInSep [.expr (.int 1), .comma] = true := by decide
example : ∃ st', run (St.init []) (lower ⟨.screen, none, [.expr (.str ['A']), .semicolon]⟩ ++
      lower ⟨.screen, none, [.expr (.str ['B'])]⟩) = .ok st'
    ∧ st'.dev .screen = some ⟨['A', 'B', '\r', '\n'], 0⟩ := ⟨_, rfl, by decide⟩

/-! ## PRINT USING -/

theorem nonFmtLoop_lit (pre lit post : List Char) (f : Char) (hf : isFormattingChar f = true)
    (hlit : ∀ c ∈ lit, isFormattingChar c = false) (start fuel : Nat) (buf : List Char)
    (hs : start ≤ pre.length) (hfuel : lit.length < fuel) :
    nonFmtLoop (pre ++ lit ++ f :: post) start fuel pre.length buf
      = .ok (buf ++ lit, pre.length + lit.length) := by
  induction lit generalizing pre buf fuel with
  | nil =>
    cases fuel with
    | zero => simp at hfuel
    | succ k => simp [nonFmtLoop, hf]
  | cons c cs ih =>
    cases fuel with
    | zero => simp at hfuel
    | succ k =>
      have hc : isFormattingChar c = false := hlit c (by simp)
      have hget : (pre ++ (c :: cs) ++ f :: post).getD pre.length ' ' = c := by simp
      have hlen : (pre ++ (c :: cs) ++ f :: post).length = pre.length + cs.length + post.length + 2 := by
        simp; omega
      have hmod : (pre.length + 1) % (pre ++ (c :: cs) ++ f :: post).length = pre.length + 1 := by
        rw [hlen]; exact Nat.mod_eq_of_lt (by omega)
      have hne : ¬ (pre.length + 1 = start) := by omega
      have hre : pre ++ (c :: cs) ++ f :: post = (pre ++ [c]) ++ cs ++ f :: post := by simp
      have h := ih (pre ++ [c]) (fun x hx => hlit x (by simp [hx])) k (buf ++ [c])
        (by simp; omega) (by simp at hfuel; omega)
      unfold nonFmtLoop
      simp only [hget, hc, hmod, hne, if_false, Bool.false_eq_true]
      rw [hre]
      simp only [List.length_append, List.length_cons, List.length_nil, Nat.zero_add] at h
      rw [h]
      simp; omega

/-- **using_literal_copied**: the text between the cursor and the next field is copied verbatim, and the
cursor stops at the field. -/
theorem using_literal_copied (pre lit post : List Char) (f : Char) (hf : isFormattingChar f = true)
    (hlit : ∀ c ∈ lit, isFormattingChar c = false) :
    printNonFormattingChars (pre ++ lit ++ f :: post) pre.length = .ok (lit, pre.length + lit.length) := by
  unfold printNonFormattingChars
  rw [nonFmtLoop_lit pre lit post f hf hlit pre.length _ [] (Nat.le_refl _) (by simp; omega)]
  simp

/-- ... so a value is rendered as that literal text followed by its field. -/
theorem using_value_literal_then_field (pre lit post : List Char) (f : Char) (hf : isFormattingChar f = true)
    (hlit : ∀ c ∈ lit, isFormattingChar c = false) (v : Value) :
    printValueWithFormatString (pre ++ lit ++ f :: post) pre.length v =
      match printFormattingChars (pre ++ lit ++ f :: post) (pre.length + lit.length) v with
      | .error e => .error e
      | .ok (field, i) => .ok (lit ++ field, i) := by
  have hlen : pre.length % (pre ++ lit ++ f :: post).length = pre.length :=
    Nat.mod_eq_of_lt (by simp; omega)
  have hne : (pre ++ lit ++ f :: post).isEmpty = false := by simp
  unfold printValueWithFormatString
  simp only [hne, hlen, using_literal_copied pre lit post f hf hlit]
  rfl

/-- At the end of the statement the literal text up to the next field (or the end of the format) is copied. -/
theorem using_trailing_literal (pre lit rest : List Char)
    (hlit : ∀ c ∈ lit, isFormattingChar c = false)
    (hrest : rest = [] ∨ ∃ f r, rest = f :: r ∧ isFormattingChar f = true) :
    printRemainingNonFormattingChars (pre ++ lit ++ rest) pre.length = (lit, pre.length + lit.length) := by
  have hdrop : (pre ++ lit ++ rest).drop pre.length = lit ++ rest := by simp
  have htw : (lit ++ rest).takeWhile (fun c => !isFormattingChar c) = lit := by
    rw [List.takeWhile_append_of_pos (by intro a ha; simp [hlit a ha])]
    rcases hrest with h | ⟨f, r, h, hf⟩
    · simp [h]
    · simp [h, hf]
  simp [printRemainingNonFormattingChars, htw]

example : (printValueWithFormatString ['A', ':', ' ', '#', ' ', 'B'] 0 (.int 7)).toOption
    = some (['A', ':', ' ', '7'], 4) := by decide

/-- **using_cyclic**: the format is reused cyclically — a cursor is only used modulo the length of the format;
in particular, when the previous value consumed the format to its end, the next value starts from the
beginning again. -/
theorem using_cyclic (fmt : List Char) (idx : Nat) (v : Value) :
    printValueWithFormatString fmt (idx % fmt.length) v = printValueWithFormatString fmt idx v := by
  simp [printValueWithFormatString]

theorem using_cyclic_restart (fmt : List Char) (v : Value) :
    printValueWithFormatString fmt fmt.length v = printValueWithFormatString fmt 0 v := by
  simp [printValueWithFormatString, Nat.mod_self]

example : ((psStep { PrintState.new with formatString := some ['#', 'x'], formatIndex := 1 }
      (.valueFromA (.int 5))).toOption.map (·.2)) = some (some [.print ['x', '5']]) := by decide

/-- number of digit positions (`#`) of an integer picture -/
def hashCount (fs : List Char) : Nat := (fs.filter (fun c => c != ',')).length

theorem fmtIntLoop_comma (f : Char) (fs ds acc : List Char) (h : (f == ',') = true) :
    fmtIntLoop (f :: fs) ds acc = fmtIntLoop fs ds ((if ds.isEmpty then ' ' else ',') :: acc) := by
  simp [fmtIntLoop, h]

theorem fmtIntLoop_hash_nil (f : Char) (fs acc : List Char) (h : (f == ',') = false) :
    fmtIntLoop (f :: fs) [] acc = fmtIntLoop fs [] (' ' :: acc) := by
  simp [fmtIntLoop, h]

theorem fmtIntLoop_hash_cons (f d : Char) (fs ds acc : List Char) (h : (f == ',') = false) :
    fmtIntLoop (f :: fs) (d :: ds) acc = fmtIntLoop fs ds (d :: acc) := by
  simp [fmtIntLoop, h]

theorem fmtIntLoop_length (fs ds acc : List Char) :
    (fmtIntLoop fs ds acc).length = acc.length + fs.length + (ds.length - hashCount fs) := by
  induction fs generalizing ds acc with
  | nil => simp [fmtIntLoop, hashCount]; omega
  | cons f fs ih =>
    by_cases hf : (f == ',') = true
    · have hf' : (f != ',') = false := by simp [bne, hf]
      have hc : hashCount (f :: fs) = hashCount fs := by simp [hashCount, hf']
      rw [fmtIntLoop_comma f fs ds acc hf, ih, hc]
      simp only [List.length_cons]; omega
    · have hfb : (f == ',') = false := by simpa using hf
      have hf' : (f != ',') = true := by simp [bne, hfb]
      have hc : hashCount (f :: fs) = hashCount fs + 1 := by simp [hashCount, hf']
      cases ds with
      | nil =>
        rw [fmtIntLoop_hash_nil f fs acc hfb, ih, hc]
        simp only [List.length_cons, List.length_nil]; omega
      | cons d ds' =>
        rw [fmtIntLoop_hash_cons f d fs ds' acc hfb, ih, hc]
        simp only [List.length_cons]; omega

/-- **using_numeric_width**: an integer picture of `#` and `,` yields exactly as many characters as the picture
has, plus the digits that do not fit into its `#` positions (none, when the number fits). -/
theorem using_numeric_width (fmt digits : List Char) :
    (fmtIntegerPart fmt digits).length = fmt.length + (digits.length - hashCount fmt) := by
  have : hashCount fmt.reverse = hashCount fmt := by simp [hashCount, List.filter_reverse]
  simp [fmtIntegerPart, fmtIntLoop_length, this]

theorem using_numeric_width_fits (fmt digits : List Char) (h : digits.length ≤ hashCount fmt) :
    (fmtIntegerPart fmt digits).length = fmt.length := by
  rw [using_numeric_width]; omega

/-- With a fraction picture: integer picture, the point, and exactly as many fraction digits as the picture has. -/
theorem using_numeric_fraction_width (ifmt ffmt : List Char) (v : Value) (s : List Char)
    (h : fmtWithFractionalPart ifmt ffmt v = .ok s) :
    ∃ ip frac, s = fmtIntegerPart ifmt ip ++ '.' :: frac ∧ frac.length = ffmt.length := by
  unfold fmtWithFractionalPart at h
  split at h
  · cases h
  · simp only [Except.ok.injEq] at h
    exact ⟨_, _, h.symm, by simp⟩

def isPad (c : Char) : Bool := c == ' ' || c == ','

theorem filter_notPad_self (l : List Char) (h : ∀ c ∈ l, isPad c = false) :
    l.filter (fun c => !isPad c) = l := by
  rw [List.filter_eq_self]; intro a ha; simp [h a ha]

theorem fmtIntLoop_digits (fs ds acc : List Char) (hds : ∀ c ∈ ds, isPad c = false) :
    (fmtIntLoop fs ds acc).filter (fun c => !isPad c) = ds.reverse ++ acc.filter (fun c => !isPad c) := by
  induction fs generalizing ds acc with
  | nil =>
    simp only [fmtIntLoop, List.filter_append]
    rw [filter_notPad_self _ (fun c hc => hds c (List.mem_reverse.mp hc))]
  | cons f fs ih =>
    have hp1 : isPad ' ' = true := by decide
    have hp2 : isPad ',' = true := by decide
    by_cases hf : (f == ',') = true
    · rw [fmtIntLoop_comma f fs ds acc hf, ih ds _ hds]
      cases ds <;> simp [hp1, hp2]
    · have hfb : (f == ',') = false := by simpa using hf
      cases ds with
      | nil =>
        rw [fmtIntLoop_hash_nil f fs acc hfb, ih [] _ (by simp)]
        simp [hp1]
      | cons d ds' =>
        have hd : isPad d = false := hds d (by simp)
        rw [fmtIntLoop_hash_cons f d fs ds' acc hfb, ih ds' _ (fun c hc => hds c (by simp [hc]))]
        simp [hd]

/-- **using_numeric_digits**: apart from the padding (spaces and commas) the field shows exactly the digits
(and sign) of the number, in order. -/
theorem using_numeric_digits (fmt digits : List Char) (h : ∀ c ∈ digits, isPad c = false) :
    (fmtIntegerPart fmt digits).filter (fun c => !isPad c) = digits := by
  unfold fmtIntegerPart
  rw [fmtIntLoop_digits _ _ _ (fun c hc => h c (List.mem_reverse.mp hc))]
  simp

example : fmtIntegerPart ['#', '#', '#', ',', '#', '#', '#'] ['1', '0', '0', '0']
    = [' ', ' ', '1', ',', '0', '0', '0'] := by decide
example : fmtIntegerPart ['#', '#'] ['1', '6', '7', '7'] = ['1', '6', '7', '7'] := by decide

theorem scanBackslash_spaces (n k : Nat) (post : List Char) :
    scanBackslash (List.replicate n ' ' ++ '\\' :: post) k = .ok (k + n) := by
  induction n generalizing k with
  | zero => simp [scanBackslash]
  | succ n ih =>
    have h1 : (' ' == '\\') = false := by decide
    have h2 : (' ' != ' ') = false := by decide
    simp only [List.replicate_succ, List.cons_append, scanBackslash, h1, h2]
    simp only [Bool.false_eq_true, if_false]
    rw [ih]; congr 1; omega

theorem fixLength_length (s : List Char) (len : Nat) : (fixLength s len).length = len := by
  simp [fixLength]; omega

theorem takeWhile_self (p : Char → Bool) (l : List Char) (h : ∀ a ∈ l, p a = true) : l.takeWhile p = l := by
  induction l with
  | nil => rfl
  | cons x xs ih =>
    simp [h x (by simp), ih (fun a ha => h a (by simp [ha]))]

theorem fixLength_eq (s : List Char) (len : Nat) (h : ∀ c ∈ s, c ≠ '\x00') :
    fixLength s len = s.take len ++ List.replicate (len - s.length) ' ' := by
  have : s.takeWhile (fun c => c != '\x00') = s :=
    takeWhile_self _ s (fun a ha => by simp [h a ha])
  simp only [fixLength, this, List.length_take]
  congr 2; omega

/-- **using_string_fields**: a `\ \` field with `n` blanks between the backslashes shows exactly `n + 2`
characters — the string truncated or padded with spaces — and moves the cursor past the closing backslash;
a `!` field shows the first character. A number in a string field (or a string in a numeric field) is a
type mismatch. -/
theorem using_string_fields (pre post : List Char) (n : Nat) (s : List Char) :
    printStringFormattingChars (pre ++ '\\' :: (List.replicate n ' ' ++ '\\' :: post)) pre.length (.str s)
      = .ok (fixLength s (n + 2), pre.length + n + 2)
    ∧ (fixLength s (n + 2)).length = n + 2
    ∧ ((∀ c ∈ s, c ≠ '\x00') →
        fixLength s (n + 2) = s.take (n + 2) ++ List.replicate (n + 2 - s.length) ' ') := by
  refine ⟨?_, fixLength_length _ _, fixLength_eq _ _⟩
  have hdrop : (pre ++ '\\' :: (List.replicate n ' ' ++ '\\' :: post)).drop (pre.length + 1)
      = List.replicate n ' ' ++ '\\' :: post := by
    rw [← List.drop_drop]; simp
  simp [printStringFormattingChars, hdrop, scanBackslash_spaces]

theorem using_bang_field (i : Nat) (c : Char) (cs : List Char) :
    printFirstCharFormattingChars i (.str (c :: cs)) = .ok ([c], i + 1) := rfl

theorem using_type_mismatch (fmt : List Char) (i n : Nat) (k : Int) (s : List Char) :
    printFirstCharFormattingChars i (.int k) = .error .typeMismatch
    ∧ (scanBackslash (fmt.drop (i + 1)) 0 = .ok n →
        printStringFormattingChars fmt i (.int k) = .error .typeMismatch)
    ∧ formatVariant (.str s) n = .error .typeMismatch := by
  refine ⟨rfl, ?_, rfl⟩
  intro h; simp [printStringFormattingChars, h]

example : (printStringFormattingChars ['\\', ' ', ' ', ' ', '\\'] 0 (.str ['h', 'e', 'l', 'l', 'o', ' ', 'w'])).toOption
    = some (['h', 'e', 'l', 'l', 'o'], 5) := by decide
example : (printValueWithFormatString ['#', '#', '.', '#', '#'] 0 (.single ⟨false, 3147, 3⟩)).toOption
    = some ([' ', '3', '.', '1', '5'], 5) := by decide

/-! ## Statements on one device: USING included, and the statement-level projection -/

/-- The format string a statement really uses (`PrintSetFormatStringFromA` keeps only string values). -/
def fmtOf (s : Stmt) : Option (List Char) :=
  match s.format with
  | some (.str f) => some f
  | _ => none

/-- What the items of a statement do to its device and to the format cursor (`fmt = none`: no USING). -/
def itemsOn (fmt : Option (List Char)) : WritePrinter → Nat → List Arg → Except Err (WritePrinter × Nat)
  | p, i, [] => .ok (p, i)
  | p, i, .expr v :: r =>
    match fmt with
    | none => itemsOn fmt (p.print (valueText v)) i r
    | some f =>
      match printValueWithFormatString f i v with
      | .error e => .error e
      | .ok (t, i') => itemsOn fmt (p.print t) i' r
  | p, i, .comma :: r => itemsOn fmt p.moveToNextPrintZone i r
  | p, i, .semicolon :: r => itemsOn fmt p i r

/-- The end of a statement: with USING the literal text up to the next field is written; then CR LF unless the
item list ended in a separator. -/
def finishOn (fmt : Option (List Char)) (p : WritePrinter) (i : Nat) (sep : Bool) : WritePrinter :=
  let q := match fmt with
    | none => p
    | some f => p.print (printRemainingNonFormattingChars f i).1
  if sep then q else q.println

/-- **The meaning of one PRINT statement on its device** (a function of the device's contents alone). -/
def stmtOn (s : Stmt) (p : WritePrinter) : Except Err WritePrinter :=
  match itemsOn (fmtOf s) p 0 s.args with
  | .error e => .error e
  | .ok (p', i) => .ok (finishOn (fmtOf s) p' i (endsInSep s.args))

theorem itemsOn_none (p : WritePrinter) (i : Nat) (args : List Arg) :
    itemsOn none p i args = .ok (plainArgs p args, i) := by
  induction args generalizing p with
  | nil => rfl
  | cons a r ih => cases a <;> simp [itemsOn, plainArgs, ih]

/-- Without USING `stmtOn` is the layout of `line_end_rule`. -/
theorem stmtOn_plain (s : Stmt) (p : WritePrinter) (h : fmtOf s = none) :
    stmtOn s p = .ok (if endsInSep s.args then plainArgs p s.args else (plainArgs p s.args).println) := by
  simp [stmtOn, h, itemsOn_none, finishOn]

theorem run_error_append (st : St) (a b : List Instr) (e : Err) (h : run st a = .error e) :
    run st (a ++ b) = .error e := by
  rw [run_append, h]

/-- The prologue of any lowered statement: device selected, format installed, cursor 0, flag kept. -/
theorem run_prologue_fmt (st : St) (s : Stmt) :
    ∃ ps', run st (lowerTarget s.target ++ [.setFormatStringFromA (s.format.getD (.int 0))])
        = .ok { st with ps := ps' }
      ∧ ps'.target = s.target ∧ ps'.formatString = fmtOf s ∧ ps'.formatIndex = 0
      ∧ ps'.skipNewLine = false := by
  obtain ⟨d, f, args⟩ := s
  cases d <;> cases f with
    | none => exact ⟨_, rfl, rfl, rfl, rfl, rfl⟩
    | some v => cases v <;> exact ⟨_, rfl, rfl, rfl, rfl, rfl⟩

/-- Running the lowered items on an open device follows `itemsOn` (error or success). -/
theorem run_items (st : St) (args : List Arg) (p : WritePrinter) (fmt : Option (List Char)) (i : Nat)
    (hfmt : st.ps.formatString = fmt) (hidx : st.ps.formatIndex = i)
    (hdev : st.dev st.ps.target = some p) :
    match itemsOn fmt p i args with
    | .error e => run st (args.map lowerArg) = .error e
    | .ok (p', i') =>
      ∃ st', run st (args.map lowerArg) = .ok st'
        ∧ st'.ps = { st.ps with skipNewLine := flagAfter st.ps.skipNewLine args, formatIndex := i' }
        ∧ st'.dev st.ps.target = some p'
        ∧ ∀ d, d ≠ st.ps.target → st'.dev d = st.dev d := by
  induction args generalizing st p i with
  | nil =>
    subst hidx
    exact ⟨st, rfl, by cases st; rfl, hdev, fun _ _ => rfl⟩
  | cons a r ih =>
    cases a with
    | expr v =>
      cases fmt with
      | none =>
        have hps : psStep st.ps (.valueFromA v)
            = .ok ({ st.ps with skipNewLine := false }, some [.print (valueText v)]) := by
          simp only [psStep, hfmt]
        have hs := step_write st _ _ _ p hps rfl hdev
        have h := ih ⟨{ st.ps with skipNewLine := false }, st.dev.set st.ps.target (p.print (valueText v))⟩
          (p.print (valueText v)) i hfmt hidx (set_same _ _ _)
        simp only [itemsOn]
        cases hi : itemsOn none (p.print (valueText v)) i r with
        | error e =>
          rw [hi] at h
          simp only [List.map_cons, lowerArg, run, hs]; exact h
        | ok r' =>
          obtain ⟨p', i'⟩ := r'
          rw [hi] at h
          obtain ⟨st', h1, h2, h3, h4⟩ := h
          refine ⟨st', ?_, ?_, h3, ?_⟩
          · simp only [List.map_cons, lowerArg, run, hs]; exact h1
          · rw [h2]; rfl
          · intro d hd; rw [h4 d hd]; exact set_other _ _ _ _ hd
      | some f =>
        simp only [itemsOn]
        cases hv : printValueWithFormatString f i v with
        | error e =>
          have : step st (.valueFromA v) = .error e := by
            simp [step, psStep, hfmt, hidx, hv]
          simp only [List.map_cons, lowerArg, run, this]
        | ok tv =>
          obtain ⟨t, i1⟩ := tv
          have hps : psStep st.ps (.valueFromA v)
              = .ok ({ st.ps with skipNewLine := false, formatIndex := i1 }, some [.print t]) := by
            simp only [psStep, hfmt, hidx, hv]
          have hs := step_write st _ _ _ p hps rfl hdev
          have h := ih ⟨{ st.ps with skipNewLine := false, formatIndex := i1 },
            st.dev.set st.ps.target (p.print t)⟩ (p.print t) i1 hfmt rfl (set_same _ _ _)
          dsimp only
          cases hi : itemsOn (some f) (p.print t) i1 r with
          | error e =>
            rw [hi] at h
            simp only [List.map_cons, lowerArg, run, hs]; exact h
          | ok r' =>
            obtain ⟨p', i'⟩ := r'
            rw [hi] at h
            obtain ⟨st', h1, h2, h3, h4⟩ := h
            refine ⟨st', ?_, ?_, h3, ?_⟩
            · simp only [List.map_cons, lowerArg, run, hs]; exact h1
            · rw [h2]; rfl
            · intro d hd; rw [h4 d hd]; exact set_other _ _ _ _ hd
    | comma =>
      have hs := comma_instr st p hdev
      have h := ih ⟨{ st.ps with skipNewLine := true }, st.dev.set st.ps.target p.moveToNextPrintZone⟩
        p.moveToNextPrintZone i hfmt hidx (set_same _ _ _)
      simp only [itemsOn]
      cases hi : itemsOn fmt p.moveToNextPrintZone i r with
      | error e =>
        rw [hi] at h
        simp only [List.map_cons, lowerArg, run, hs]; exact h
      | ok r' =>
        obtain ⟨p', i'⟩ := r'
        rw [hi] at h
        obtain ⟨st', h1, h2, h3, h4⟩ := h
        refine ⟨st', ?_, ?_, h3, ?_⟩
        · simp only [List.map_cons, lowerArg, run, hs]; exact h1
        · rw [h2]; rfl
        · intro d hd; rw [h4 d hd]; exact set_other _ _ _ _ hd
    | semicolon =>
      have h := ih { st with ps := { st.ps with skipNewLine := true } } p i hfmt hidx hdev
      simp only [itemsOn]
      cases hi : itemsOn fmt p i r with
      | error e =>
        rw [hi] at h
        simp only [List.map_cons, lowerArg, run, semicolon_writes_nothing]; exact h
      | ok r' =>
        obtain ⟨p', i'⟩ := r'
        rw [hi] at h
        obtain ⟨st', h1, h2, h3, h4⟩ := h
        refine ⟨st', ?_, ?_, h3, h4⟩
        · simp only [List.map_cons, lowerArg, run, semicolon_writes_nothing]; exact h1
        · rw [h2]; rfl

theorem lower_split (s : Stmt) :
    lower s = (lowerTarget s.target ++ [.setFormatStringFromA (s.format.getD (.int 0))]) ++
      (s.args.map lowerArg ++ [.printEnd]) := by
  simp [lower]

/-- **One statement, open device**: running the lowered statement (from any PrintState) does to its device
exactly what `stmtOn` says — it fails with the same error, or it succeeds, leaves every other device alone and
ends at a statement boundary.  (With and without USING: the same `PrintEnd` path.) -/
theorem run_stmt (st : St) (s : Stmt) (p : WritePrinter)
    (hdev : st.dev s.target = some p) :
    match stmtOn s p with
    | .error e => run st (lower s) = .error e
    | .ok p' =>
      ∃ st', run st (lower s) = .ok st'
        ∧ st'.ps.skipNewLine = false
        ∧ st'.dev s.target = some p'
        ∧ ∀ d, d ≠ s.target → st'.dev d = st.dev d := by
  obtain ⟨ps1, hpro, ht, hf, hi0, hsk⟩ := run_prologue_fmt st s
  have hdev1 : ({ st with ps := ps1 } : St).dev ps1.target = some p := by rw [ht]; exact hdev
  have hit := run_items { st with ps := ps1 } s.args p (fmtOf s) 0 hf hi0 hdev1
  unfold stmtOn
  rw [lower_split, run_append, hpro]
  simp only
  cases hi : itemsOn (fmtOf s) p 0 s.args with
  | error e =>
    rw [hi] at hit
    simp only at hit ⊢
    exact run_error_append _ _ _ _ hit
  | ok r =>
    obtain ⟨p2, i2⟩ := r
    rw [hi] at hit
    obtain ⟨st2, h1, h2, h3, h4⟩ := hit
    simp only at h2 h3 h4 ⊢
    rw [ht] at h3 h4
    have hflag2 : st2.ps.skipNewLine = if s.args = [] then false else endsInSep s.args := by
      rw [h2]; simp only; rw [flagAfter_eq, hsk]
    have hfmt2 : st2.ps.formatString = fmtOf s := by rw [h2]; exact hf
    have hidx2 : st2.ps.formatIndex = i2 := by rw [h2]
    have ht2 : st2.ps.target = s.target := by rw [h2]; exact ht
    have hnil : s.args = [] → endsInSep s.args = false := by intro h; rw [h]; rfl
    rw [run_append, h1]
    simp only [run]
    have hskip : st2.ps.skipNewLine = endsInSep s.args := by
      rw [hflag2]
      by_cases hn : s.args = []
      · rw [if_pos hn, hnil hn]
      · simp [hn]
    -- the final PrintEnd
    have hend : ∃ ps3, step st2 .printEnd = .ok ⟨ps3,
        st2.dev.set s.target (finishOn (fmtOf s) p2 i2 (endsInSep s.args))⟩ ∧ ps3.skipNewLine = false := by
      cases hfo : fmtOf s with
      | none =>
        rw [hfo] at hfmt2
        have hps : psStep st2.ps .printEnd = .ok ({ st2.ps with skipNewLine := false },
            some (if st2.ps.skipNewLine then [] else [.println])) := by
          simp [psStep, hfmt2]
        refine ⟨{ st2.ps with skipNewLine := false }, ?_, rfl⟩
        rw [step_write st2 .printEnd _ _ p2 hps rfl (by rw [ht2]; exact h3), ht2, hskip]
        cases endsInSep s.args <;> simp [finishOn, WritePrinter.run, WritePrinter.apply]
      | some f =>
        rw [hfo] at hfmt2
        have hps : psStep st2.ps .printEnd = .ok
            ({ st2.ps with skipNewLine := false,
                           formatIndex := (printRemainingNonFormattingChars f st2.ps.formatIndex).2 },
            some ([.print (printRemainingNonFormattingChars f st2.ps.formatIndex).1]
              ++ (if st2.ps.skipNewLine then [] else [.println]))) := by
          simp [psStep, hfmt2]
        refine ⟨{ st2.ps with skipNewLine := false, formatIndex := (printRemainingNonFormattingChars f st2.ps.formatIndex).2 }, ?_, rfl⟩
        rw [step_write st2 .printEnd _ _ p2 hps rfl (by rw [ht2]; exact h3), ht2, hskip, hidx2]
        cases endsInSep s.args <;> simp [finishOn, WritePrinter.run, WritePrinter.apply]
    obtain ⟨ps3, hend, hps3⟩ := hend
    rw [hend]
    refine ⟨_, rfl, hps3, set_same _ _ _, ?_⟩
    intro d hd
    show (st2.dev.set s.target _) d = st.dev d
    rw [set_other _ _ _ _ hd]
    exact h4 d hd

/-- **line_end_rule, with USING**: the items are rendered through the format (cyclically), the literal text up to
the next field is appended, and then CR LF — unless the item list ends in a separator: then the line stays open
and the column is where the trailing literal left it. -/
theorem line_end_rule_using (st : St) (s : Stmt) (p p' : WritePrinter) (f : List Char) (i : Nat)
    (hfmt : s.format = some (.str f))
    (hdev : st.dev s.target = some p) (hitems : itemsOn (some f) p 0 s.args = .ok (p', i)) :
    ∃ st', run st (lower s) = .ok st'
      ∧ st'.ps.skipNewLine = false
      ∧ st'.dev s.target = some
          (let q := p'.print (printRemainingNonFormattingChars f i).1
           if endsInSep s.args then q else q.println)
      ∧ ∀ d, d ≠ s.target → st'.dev d = st.dev d := by
  have hfo : fmtOf s = some f := by simp [fmtOf, hfmt]
  have h := run_stmt st s p hdev
  simp only [stmtOn, hfo, hitems] at h
  exact h

/-- A failing item (bad format, type mismatch) makes the statement fail with that error. -/
theorem using_error_propagates (st : St) (s : Stmt) (p : WritePrinter) (e : Err)
    (hdev : st.dev s.target = some p)
    (hitems : itemsOn (fmtOf s) p 0 s.args = .error e) : run st (lower s) = .error e := by
  have h := run_stmt st s p hdev
  simp only [stmtOn, hitems] at h
  exact h

/-- **The next PRINT continues at the same column** (any two statements, USING or not): after `s1` ending in a
separator, `s2` acts on the device exactly as `s1` left it — no CR LF in between; what `s1` left is its items
(and, with USING, the trailing literal). -/
theorem print_continues_any (st : St) (s1 s2 : Stmt) (p p1 p2 : WritePrinter)
    (hsame : s2.target = s1.target) (hdev : st.dev s1.target = some p)
    (h1 : stmtOn s1 p = .ok p1) (h2 : stmtOn s2 p1 = .ok p2) :
    ∃ st', run st (lower s1 ++ lower s2) = .ok st' ∧ st'.dev s1.target = some p2
      ∧ (endsInSep s1.args = true →
          ∃ q i, itemsOn (fmtOf s1) p 0 s1.args = .ok (q, i) ∧ p1 = finishOn (fmtOf s1) q i true) := by
  have ha := run_stmt st s1 p hdev
  rw [h1] at ha
  obtain ⟨sa, ha1, ha2, ha3, _⟩ := ha
  have hb := run_stmt sa s2 p1 (by rw [hsame]; exact ha3)
  rw [h2] at hb
  obtain ⟨sb, hb1, _, hb3, _⟩ := hb
  refine ⟨sb, ?_, by rw [← hsame]; exact hb3, ?_⟩
  · rw [run_append, ha1]; exact hb1
  · intro hsep
    unfold stmtOn at h1
    cases hi : itemsOn (fmtOf s1) p 0 s1.args with
    | error e => rw [hi] at h1; cases h1
    | ok r =>
      obtain ⟨q, i⟩ := r
      rw [hi] at h1
      simp only [Except.ok.injEq] at h1
      exact ⟨q, i, rfl, by rw [← h1, hsep]⟩

example : (stmtOn ⟨.screen, some (.str ['#', '#', ' ', 'x']), [.expr (.int 5), .semicolon]⟩ ⟨[], 0⟩).toOption
    = some ⟨[' ', '5', ' ', 'x'], 4⟩ := by decide

/-! ### Closed devices -/

/-- Items and `PrintEnd` keep the selected device. -/
theorem psStep_target (ps ps' : PrintState) (i : Instr) (o : Option (List Op))
    (h : psStep ps i = .ok (ps', o))
    (hi : i = .comma ∨ i = .semicolon ∨ i = .printEnd ∨ ∃ v, i = .valueFromA v) :
    ps'.target = ps.target := by
  rcases hi with rfl | rfl | rfl | ⟨v, rfl⟩
  · simp only [psStep, Except.ok.injEq, Prod.mk.injEq] at h; rw [← h.1]; rfl
  · simp only [psStep, Except.ok.injEq, Prod.mk.injEq] at h; rw [← h.1]; rfl
  · simp only [psStep, Except.ok.injEq, Prod.mk.injEq] at h; rw [← h.1]; rfl
  · simp only [psStep] at h
    split at h
    · simp only [Except.ok.injEq, Prod.mk.injEq] at h; rw [← h.1]; rfl
    · split at h
      · cases h
      · simp only [Except.ok.injEq, Prod.mk.injEq] at h; rw [← h.1]; rfl

/-- On a closed device every instruction that calls the printer fails. -/
theorem step_closed (st : St) (i : Instr) (hdev : st.dev st.ps.target = none)
    (hi : i = .comma ∨ i = .printEnd ∨ ∃ v, i = .valueFromA v) : ∃ e, step st i = .error e := by
  unfold step
  cases hp : psStep st.ps i with
  | error e => exact ⟨e, rfl⟩
  | ok r =>
    obtain ⟨ps', o⟩ := r
    have ht : ps'.target = st.ps.target :=
      psStep_target _ _ _ _ hp (by rcases hi with h | h | h <;> simp [h])
    cases o with
    | none =>
      rcases hi with rfl | rfl | ⟨v, rfl⟩
      · simp [psStep] at hp
      · simp [psStep] at hp
      · simp only [psStep] at hp
        split at hp
        · simp at hp
        · split at hp <;> simp at hp
    | some ops =>
      simp only [ht, hdev]
      exact ⟨_, rfl⟩

theorem run_items_closed (st : St) (args : List Arg) (hdev : st.dev st.ps.target = none) :
    ∃ e, run st (args.map lowerArg ++ [.printEnd]) = .error e := by
  induction args generalizing st with
  | nil =>
    obtain ⟨e, he⟩ := step_closed st .printEnd hdev (by simp)
    exact ⟨e, by simp [run, he]⟩
  | cons a r ih =>
    cases a with
    | expr v =>
      obtain ⟨e, he⟩ := step_closed st (.valueFromA v) hdev (Or.inr (Or.inr ⟨v, rfl⟩))
      exact ⟨e, by simp [run, lowerArg, he]⟩
    | comma =>
      obtain ⟨e, he⟩ := step_closed st .comma hdev (by simp)
      exact ⟨e, by simp [run, lowerArg, he]⟩
    | semicolon =>
      obtain ⟨e, he⟩ := ih { st with ps := { st.ps with skipNewLine := true } } hdev
      exact ⟨e, by simp only [List.map_cons, List.cons_append, lowerArg, run, semicolon_writes_nothing]; exact he⟩

/-- A statement addressed to a device that is not open fails (nothing is written anywhere). -/
theorem run_stmt_closed (st : St) (s : Stmt) (hdev : st.dev s.target = none) :
    ∃ e, run st (lower s) = .error e := by
  obtain ⟨ps1, hpro, ht, _, _, _⟩ := run_prologue_fmt st s
  have hdev1 : ({ st with ps := ps1 } : St).dev ps1.target = none := by rw [ht]; exact hdev
  obtain ⟨e, he⟩ := run_items_closed { st with ps := ps1 } s.args hdev1
  exact ⟨e, by rw [lower_split, run_append, hpro]; exact he⟩

/-! ### Programs: the statement-level projection -/

/-- The statements of a program addressed to device `d`, applied to `d`'s contents, in order. -/
def runOn (d : Device) (p : WritePrinter) : List Stmt → Except Err WritePrinter
  | [] => .ok p
  | s :: r =>
    if s.target = d then
      match stmtOn s p with
      | .error e => .error e
      | .ok p' => runOn d p' r
    else runOn d p r

theorem lowerProgram_cons (s : Stmt) (r : List Stmt) : lowerProgram (s :: r) = lower s ++ lowerProgram r := by
  simp [lowerProgram]

/-- A successful program run does to every open device what that device's own statements say. -/
theorem program_on_device (st st' : St) (prog : List Stmt)
    (h : run st (lowerProgram prog) = .ok st') (d : Device) (p : WritePrinter) (hp : st.dev d = some p) :
    ∃ p', runOn d p prog = .ok p' ∧ st'.dev d = some p' := by
  induction prog generalizing st p with
  | nil =>
    have : st' = st := by simp [lowerProgram, run] at h; exact h.symm
    subst this
    exact ⟨p, rfl, hp⟩
  | cons s r ih =>
    rw [lowerProgram_cons, run_append] at h
    cases hdev : st.dev s.target with
    | none =>
      obtain ⟨e, he⟩ := run_stmt_closed st s hdev
      rw [he] at h; cases h
    | some ps =>
      have hs := run_stmt st s ps hdev
      cases hso : stmtOn s ps with
      | error e => rw [hso] at hs; simp only at hs; rw [hs] at h; cases h
      | ok p1 =>
        rw [hso] at hs
        obtain ⟨st1, h1, h2, h3, h4⟩ := hs
        rw [h1] at h
        simp only at h
        by_cases htd : s.target = d
        · subst htd
          have hpp : ps = p := by rw [hdev] at hp; exact Option.some.inj hp
          subst hpp
          obtain ⟨p', hr, hd⟩ := ih st1 h p1 h3
          exact ⟨p', by simp [runOn, hso, hr], hd⟩
        · have hd1 : st1.dev d = some p := by rw [h4 d (fun e => htd e.symm)]; exact hp
          obtain ⟨p', hr, hd⟩ := ih st1 h p hd1
          exact ⟨p', by simp [runOn, htd, hr], hd⟩

/-- Running only `d`'s statements succeeds when `runOn` does, with that result on `d`. -/
theorem run_filtered (st : St) (prog : List Stmt)
    (d : Device) (p p' : WritePrinter) (hp : st.dev d = some p) (hr : runOn d p prog = .ok p') :
    ∃ st'', run st (lowerProgram (prog.filter (fun s => s.target = d))) = .ok st''
      ∧ st''.dev d = some p' := by
  induction prog generalizing st p with
  | nil =>
    simp only [runOn, Except.ok.injEq] at hr
    subst hr
    exact ⟨st, rfl, hp⟩
  | cons s r ih =>
    by_cases htd : s.target = d
    · simp only [runOn, htd, if_true] at hr
      cases hso : stmtOn s p with
      | error e => rw [hso] at hr; cases hr
      | ok p1 =>
        rw [hso] at hr
        simp only at hr
        have hs := run_stmt st s p (by rw [htd]; exact hp)
        rw [hso] at hs
        obtain ⟨st1, h1, h2, h3, _⟩ := hs
        rw [htd] at h3
        obtain ⟨st'', hrun, hd⟩ := ih st1 p1 h3 hr
        refine ⟨st'', ?_, hd⟩
        simp only [List.filter_cons, htd, decide_true, if_true]
        rw [lowerProgram_cons, run_append, h1]
        exact hrun
    · simp only [runOn, htd, if_false] at hr
      obtain ⟨st'', hrun, hd⟩ := ih st p hp hr
      refine ⟨st'', ?_, hd⟩
      simp only [List.filter_cons, htd, decide_false]
      exact hrun

/-- **Statement-level projection**: if a program — PRINT / LPRINT / PRINT #n statements, with or without USING,
interleaved over any devices — runs to its end, then for every open device `d`, running only the statements
addressed to `d` also succeeds and leaves on `d` exactly the same bytes and column. -/
theorem statement_projection (st st' : St) (prog : List Stmt)
    (h : run st (lowerProgram prog) = .ok st') (d : Device) (p : WritePrinter) (hp : st.dev d = some p) :
    ∃ st'', run st (lowerProgram (prog.filter (fun s => s.target = d))) = .ok st''
      ∧ st''.dev d = st'.dev d := by
  obtain ⟨p', hr, hd⟩ := program_on_device st st' prog h d p hp
  obtain ⟨st'', hrun, hd''⟩ := run_filtered st prog d p p' hp hr
  exact ⟨st'', hrun, by rw [hd, hd'']⟩

example : (St.init [1]).ps.skipNewLine = false := rfl
example : (runOn .lpt1 WritePrinter.new
    [⟨.screen, none, [.expr (.int 1)]⟩, ⟨.lpt1, none, [.expr (.str ['a']), .comma]⟩,
     ⟨.file 1, none, []⟩, ⟨.lpt1, some (.str ['#']), [.expr (.int 2)]⟩]).toOption
    = some ⟨['a'] ++ List.replicate 13 ' ' ++ ['2', '\r', '\n'], 0⟩ := by decide

/-! ## PRINT USING: rounding of the value to the field's fraction digits -/

/-- `n / p` rounded to the nearest whole number, ties to the even one (Rust `{:.k}` on an exact value). -/
def roundHalfEven (n p : Nat) : Nat :=
  if 2 * (n % p) > p then n / p + 1
  else if 2 * (n % p) < p then n / p
  else if n / p % 2 = 0 then n / p else n / p + 1

/-- `n / p` rounded to the nearest whole number, ties away from zero (`f.round()` on the magnitude). -/
def roundHalfUp (n p : Nat) : Nat := if 2 * (n % p) ≥ p then n / p + 1 else n / p

/-- The mantissa of `d` at `k` fraction digits: exact when `d` has no more than `k`, rounded otherwise. -/
def fixedMant (d : Dec) (k : Nat) : Nat :=
  if d.scale ≤ k then d.mant * 10 ^ (k - d.scale) else roundHalfEven d.mant (10 ^ (d.scale - k))

theorem round_core (n p P m : Nat) (hp : 0 < p)
    (hm : (m = n / p ∧ 2 * (n % p) ≤ p) ∨ (m = n / p + 1 ∧ p ≤ 2 * (n % p))) :
    2 * (m * (p * P)) ≤ 2 * (n * P) + p * P ∧ 2 * (n * P) ≤ 2 * (m * (p * P)) + p * P := by
  have hdm := Nat.div_add_mod n p
  have hr : n % p < p := Nat.mod_lt _ hp
  generalize n / p = q at *
  generalize n % p = r at *
  have hn : n * P = q * (p * P) + r * P := by
    rw [← hdm, Nat.add_mul, Nat.mul_comm p q, Nat.mul_assoc]
  have hY : r * P ≤ p * P := Nat.mul_le_mul_right P (Nat.le_of_lt hr)
  rcases hm with ⟨rfl, h⟩ | ⟨rfl, h⟩
  · have h2 : 2 * (r * P) ≤ p * P := by rw [← Nat.mul_assoc]; exact Nat.mul_le_mul_right P h
    rw [hn]
    generalize m * (p * P) = X at *
    generalize r * P = Y at *
    generalize p * P = A at *
    omega
  · have h2 : p * P ≤ 2 * (r * P) := by rw [← Nat.mul_assoc]; exact Nat.mul_le_mul_right P h
    rw [hn, Nat.add_mul, Nat.one_mul]
    generalize q * (p * P) = X at *
    generalize r * P = Y at *
    generalize p * P = A at *
    omega

theorem roundHalfEven_cases (n p : Nat) :
    (roundHalfEven n p = n / p ∧ 2 * (n % p) ≤ p) ∨ (roundHalfEven n p = n / p + 1 ∧ p ≤ 2 * (n % p)) := by
  unfold roundHalfEven
  split
  · right; exact ⟨rfl, by omega⟩
  · split
    · left; exact ⟨rfl, by omega⟩
    · split
      · left; exact ⟨rfl, by omega⟩
      · right; exact ⟨rfl, by omega⟩

theorem roundHalfUp_cases (n p : Nat) :
    (roundHalfUp n p = n / p ∧ 2 * (n % p) ≤ p) ∨ (roundHalfUp n p = n / p + 1 ∧ p ≤ 2 * (n % p)) := by
  unfold roundHalfUp
  split
  · right; exact ⟨rfl, by omega⟩
  · left; exact ⟨rfl, by omega⟩

theorem pow10_pos (k : Nat) : 0 < 10 ^ k := Nat.pow_pos (by decide)

/-- **using_numeric_rounding** (fields with a fraction): the mantissa shown, `fixedMant d k / 10^k`, is the value
`d.mant / 10^d.scale` rounded to `k` fraction digits to the nearest — the error is at most half a unit of the
last shown digit (both inequalities, cross-multiplied) — exactly the value when it has no more than `k`
fraction digits, and on a tie the even neighbour. -/
theorem using_numeric_rounding (d : Dec) (k : Nat) :
    (2 * (fixedMant d k * 10 ^ d.scale) ≤ 2 * (d.mant * 10 ^ k) + 10 ^ d.scale
      ∧ 2 * (d.mant * 10 ^ k) ≤ 2 * (fixedMant d k * 10 ^ d.scale) + 10 ^ d.scale)
    ∧ (d.scale ≤ k → fixedMant d k * 10 ^ d.scale = d.mant * 10 ^ k)
    ∧ (k < d.scale → 2 * (d.mant % 10 ^ (d.scale - k)) = 10 ^ (d.scale - k) → fixedMant d k % 2 = 0) := by
  have hexact : d.scale ≤ k → fixedMant d k * 10 ^ d.scale = d.mant * 10 ^ k := by
    intro hs
    simp only [fixedMant, hs, if_true]
    rw [Nat.mul_assoc, ← Nat.pow_add, Nat.sub_add_cancel hs]
  refine ⟨?_, hexact, ?_⟩
  · by_cases hs : d.scale ≤ k
    · rw [hexact hs]; exact ⟨Nat.le_add_right _ _, Nat.le_add_right _ _⟩
    · have hS : 10 ^ d.scale = 10 ^ (d.scale - k) * 10 ^ k := by
        rw [← Nat.pow_add, Nat.sub_add_cancel (by omega)]
      simp only [fixedMant, hs, if_false]
      rw [hS]
      exact round_core d.mant (10 ^ (d.scale - k)) (10 ^ k) _ (pow10_pos _) (roundHalfEven_cases _ _)
  · intro hk htie
    have hs : ¬ d.scale ≤ k := by omega
    simp only [fixedMant, hs, if_false, roundHalfEven]
    have h1 : ¬ 2 * (d.mant % 10 ^ (d.scale - k)) > 10 ^ (d.scale - k) := by omega
    have h2 : ¬ 2 * (d.mant % 10 ^ (d.scale - k)) < 10 ^ (d.scale - k) := by omega
    simp only [h1, h2, if_false]
    split <;> omega

/-- What `format!("{:.k}")` yields in the model: sign, the integer digits and exactly `k` fraction digits of the
rounded mantissa. -/
theorem fixedText_eq (d : Dec) (k : Nat) :
    d.fixedText k = (if d.neg then ['-'] else []) ++ natDigits (fixedMant d k / 10 ^ k)
      ++ '.' :: fixedDigits k (fixedMant d k % 10 ^ k) := by
  cases hn : d.neg <;> simp [Dec.fixedText, fixedMant, roundHalfEven, hn]

/-- **using_numeric_rounding** (fields without a fraction): the number shown is the value rounded to the nearest
whole number, ties away from zero; a negative value that rounds to zero is shown without sign. -/
theorem using_numeric_rounding_whole (d : Dec) :
    d.roundText = (if d.neg && roundHalfUp d.mant (10 ^ d.scale) != 0 then ['-'] else [])
        ++ natDigits (roundHalfUp d.mant (10 ^ d.scale))
    ∧ (2 * (roundHalfUp d.mant (10 ^ d.scale) * 10 ^ d.scale) ≤ 2 * d.mant + 10 ^ d.scale
        ∧ 2 * d.mant ≤ 2 * (roundHalfUp d.mant (10 ^ d.scale) * 10 ^ d.scale) + 10 ^ d.scale)
    ∧ (2 * (d.mant % 10 ^ d.scale) = 10 ^ d.scale →
        roundHalfUp d.mant (10 ^ d.scale) = d.mant / 10 ^ d.scale + 1) := by
  refine ⟨?_, ?_, ?_⟩
  · cases hn : d.neg with
    | false => simp [Dec.roundText, roundHalfUp, hn]
    | true =>
      simp only [Dec.roundText, roundHalfUp, hn, Bool.true_and, ge_iff_le]
      split <;> simp_all <;> split <;> simp
  · have := round_core d.mant (10 ^ d.scale) 1 _ (pow10_pos _) (roundHalfUp_cases d.mant (10 ^ d.scale))
    simpa using this
  · intro h
    have : 2 * (d.mant % 10 ^ d.scale) ≥ 10 ^ d.scale := by omega
    simp [roundHalfUp, this]

example : fixedMant ⟨false, 3147, 3⟩ 2 = 315 ∧ fixedMant ⟨false, 125, 3⟩ 2 = 12 ∧ fixedMant ⟨true, 5, 1⟩ 3 = 500 := by
  decide
example : roundHalfUp 25 10 = 3 ∧ roundHalfUp 24 10 = 2 := by decide

theorem digit_facts2 : ∀ k, k < 10 →
    (Char.ofNat (48 + k) != '.') = true ∧ isPad (Char.ofNat (48 + k)) = false := by decide

theorem natDigits_all (P : Char → Prop) (h : ∀ d, P (digitChar d)) (n : Nat) : ∀ c ∈ natDigits n, P c := by
  induction n using Nat.strongRecOn with
  | _ n ih =>
    by_cases hn : n < 10
    · rw [natDigits_small n hn]; intro c hc; simp at hc; rw [hc]; exact h n
    · rw [natDigits_big n (by omega)]
      intro c hc
      rw [List.mem_append] at hc
      cases hc with
      | inl h1 => exact ih (n / 10) (by omega) c h1
      | inr h2 => simp at h2; rw [h2]; exact h n

theorem fixedDigits_all (P : Char → Prop) (h : ∀ d, P (digitChar d)) (k n : Nat) :
    ∀ c ∈ fixedDigits k n, P c := by
  induction k generalizing n with
  | zero => simp [fixedDigits]
  | succ k ih =>
    intro c hc
    simp only [fixedDigits, List.mem_append, List.mem_singleton] at hc
    cases hc with
    | inl h1 => exact ih _ c h1
    | inr h2 => rw [h2]; exact h n

theorem digitChar_notDot (d : Nat) : (digitChar d != '.') = true :=
  (digit_facts2 (d % 10) (Nat.mod_lt _ (by decide))).1

theorem digitChar_notPad (d : Nat) : isPad (digitChar d) = false :=
  (digit_facts2 (d % 10) (Nat.mod_lt _ (by decide))).2

/-- **using_numeric_digits, fields with a fraction** (`#…#.#…#` on a SINGLE / DOUBLE value): the field is the
integer picture filled with the sign and integer digits of the rounded value, the point, and exactly the `k`
fraction digits of the rounded value; apart from padding it shows exactly those characters. -/
theorem using_numeric_fraction_digits (ifmt ffmt : List Char) (d : Dec) (hk : 0 < ffmt.length) :
    let k := ffmt.length
    let ip := (if d.neg then ['-'] else []) ++ natDigits (fixedMant d k / 10 ^ k)
    let fp := fixedDigits k (fixedMant d k % 10 ^ k)
    fmtWithFractionalPart ifmt ffmt (.single d) = .ok (fmtIntegerPart ifmt ip ++ '.' :: fp)
    ∧ fmtWithFractionalPart ifmt ffmt (.double d) = .ok (fmtIntegerPart ifmt ip ++ '.' :: fp)
    ∧ (fmtIntegerPart ifmt ip ++ '.' :: fp).filter (fun c => !isPad c) = ip ++ '.' :: fp
    ∧ fp.length = k := by
  intro k ip fp
  have hipdot : ∀ c ∈ ip, (c != '.') = true := by
    intro c hc
    simp only [ip, List.mem_append] at hc
    rcases hc with h | h
    · cases hn : d.neg <;> simp [hn] at h
      rw [h]; decide
    · exact natDigits_all (fun c => (c != '.') = true) digitChar_notDot _ c h
  have hippad : ∀ c ∈ ip, isPad c = false := by
    intro c hc
    simp only [ip, List.mem_append] at hc
    rcases hc with h | h
    · cases hn : d.neg <;> simp [hn] at h
      rw [h]; decide
    · exact natDigits_all (fun c => isPad c = false) digitChar_notPad _ c h
  have hfpdot : ∀ c ∈ fp, (c != '.') = true := fixedDigits_all (fun c => (c != '.') = true) digitChar_notDot _ _
  have hfppad : ∀ c ∈ fp, isPad c = false := fixedDigits_all (fun c => isPad c = false) digitChar_notPad _ _
  have hfplen : fp.length = k := fixedDigits_length _ _
  have htext : d.fixedText k = ip ++ '.' :: fp := by rw [fixedText_eq]
  have htw : (ip ++ '.' :: fp).takeWhile (fun c => c != '.') = ip := by
    rw [List.takeWhile_append_of_pos hipdot]; simp
  have hdw : (ip ++ '.' :: fp).dropWhile (fun c => c != '.') = '.' :: fp := by
    rw [List.dropWhile_append_of_pos hipdot]; simp
  have hfrac : ((fp.takeWhile (fun c => c != '.')) ++ List.replicate k '0').take k = fp := by
    rw [takeWhile_self _ fp hfpdot]
    exact List.take_left' hfplen
  have hfield : ∀ v, formatVariant v k = .ok (d.fixedText k) →
      fmtWithFractionalPart ifmt ffmt v = .ok (fmtIntegerPart ifmt ip ++ '.' :: fp) := by
    intro v hv
    show fmtWithFractionalPart ifmt ffmt v = _
    unfold fmtWithFractionalPart
    rw [show ffmt.length = k from rfl, hv, htext]
    simp only [htw, hdw, List.drop_one, List.tail_cons, hfrac]
  refine ⟨hfield _ ?_, hfield _ ?_, ?_, hfplen⟩
  · simp [formatVariant, k, hk]
  · simp [formatVariant, k, hk]
  · rw [List.filter_append, using_numeric_digits ifmt ip hippad]
    have hdot : isPad '.' = false := by decide
    rw [List.filter_cons]
    simp [hdot, filter_notPad_self fp hfppad]

example : (fmtWithFractionalPart ['#', '#', '#'] ['#', '#'] (.double ⟨true, 3147, 3⟩)).toOption
    = some [' ', '-', '3', '.', '1', '5'] := by decide

/-! ## Statements start afresh; calls from a PRINT list are transparent (repo fix 89314cd) -/

/-- **A statement forgets the PrintState it finds**: `set_printer_type` resets every field (device, handle, format,
cursor and — since 89314cd — the pending-separator flag), so what a lowered statement does, and the state it leaves,
do not depend on the `PrintState` left by an earlier or an interrupted statement.  (This is why the theorems about
the line end need no "starts at a statement boundary" hypothesis.) -/
theorem statement_forgets_state (ps1 ps2 : PrintState) (dev : Devices) (s : Stmt) :
    run ⟨ps1, dev⟩ (lower s) = run ⟨ps2, dev⟩ (lower s) := by
  obtain ⟨d, f, args⟩ := s
  cases d <;> simp [lower, lowerTarget, run, step, psStep, PrintState.setPrinterType]

example : run ⟨{ PrintState.new with skipNewLine := true, formatString := some ['#'] }, (St.init []).dev⟩
      (lower ⟨.screen, none, []⟩)
    = run (St.init []) (lower ⟨.screen, none, []⟩) := statement_forgets_state _ _ _ _

/-- **An abandoned PRINT statement leaves no pending separator**: whatever part of a statement was executed before a
trapped error ended it (header and the first `k` items, the last of which may be a `;` or a `,`; `PrintEnd` never
runs), the statement executed next — the following one, one of the handler, or the same one again — does exactly
what it does after a completed statement: it starts from the devices as the abandoned statement left them and from
nothing else. -/
theorem abandoned_print_leaves_no_pending_separator (st st' : St) (s : Stmt) (k : Nat)
    (_h : run st (lowerAbandoned s k) = .ok st') (t : Stmt) :
    run st' (lower t) = run ⟨PrintState.new, st'.dev⟩ (lower t) :=
  statement_forgets_state _ _ _ _

/-- In particular a bare PRINT after an abandoned statement ends the line on its device, also when the abandoned
statement stopped directly behind a separator. -/
theorem bare_print_after_abandoned_ends_line (st st' : St) (s : Stmt) (k : Nat)
    (_h : run st (lowerAbandoned s k) = .ok st') (p : WritePrinter) (hp : st'.dev .screen = some p) :
    ∃ st'', run st' (lower ⟨.screen, none, []⟩) = .ok st'' ∧ st''.dev .screen = some p.println := by
  simp [lower, lowerTarget, run, step, psStep, PrintState.setPrinterType, PrintState.target, hp, Devices.set,
    WritePrinter.run, WritePrinter.apply, Option.getD]

/-- Not vacuous: `PRINT "a"; <error>` is abandoned with the separator pending. -/
example : (run (St.init []) (lowerAbandoned ⟨.screen, none, [.expr (.str ['a']), .semicolon, .expr (.int 1)]⟩ 2)).toOption.map
    (fun st => st.ps.skipNewLine) = some true := by
  simp [lowerAbandoned, lowerTarget, lowerArg, run, step, psStep, PrintState.setPrinterType, PrintState.target, St.init,
    Except.toOption]

theorem runS_base (st st' : St) (stack : List PrintState) (is : List Instr) (rest : List SInstr)
    (h : run st is = .ok st') : runS st stack (is.map .base ++ rest) = runS st' stack rest := by
  induction is generalizing st with
  | nil =>
    simp only [run, Except.ok.injEq] at h
    subst h; rfl
  | cons i r ih =>
    simp only [run] at h
    cases hs : step st i with
    | error e => rw [hs] at h; cases h
    | ok st1 =>
      rw [hs] at h
      simp only [List.map_cons, List.cons_append, runS, hs]
      exact ih st1 h

/-- **A function called from a PRINT list is transparent for the caller's statement**: whatever complete print
instructions the callee executes (`PushRet`, body, `PopRet`), the caller continues with exactly the `PrintState` it
had at the call — same device, file handle, format string and cursor, same pending separator — and the devices as
the callee's statements left them. -/
theorem call_transparent (st st1 : St) (stack : List PrintState) (body : List Instr) (rest : List SInstr)
    (h : run st body = .ok st1) :
    runS st stack (.pushRet :: (body.map .base ++ .popRet :: rest))
      = runS { st1 with ps := st.ps } stack rest := by
  simp only [runS]
  rw [runS_base st st1 (st.ps :: stack) body _ h]
  simp only [runS]

/-- ... in particular the callee's statements touch only the devices they address (`devices_independent`), and a
callee that prints nothing to the caller's device leaves the caller's line exactly as it was. -/
theorem call_leaves_other_devices (st st1 : St) (body : List Instr) (h : run st body = .ok st1) (d : Device)
    (hno : ∀ e ∈ events st.ps body, e.1 ≠ d) :
    ({ st1 with ps := st.ps } : St).dev d = st.dev d ∧ ({ st1 with ps := st.ps } : St).ps = st.ps :=
  ⟨untouched_device st st1 body h d hno, rfl⟩

example : (runS (St.init []) []
      ([.base (.setPrinterType .print), .base (.setFormatStringFromA (.int 0)), .base (.valueFromA (.int 1)),
        .base .semicolon, .pushRet] ++ (lower ⟨.screen, none, []⟩).map .base ++
       [.popRet, .base (.valueFromA (.int 3)), .base .printEnd])).1.dev .screen
    = some ⟨[' ', '1', ' ', '\r', '\n', ' ', '3', ' ', '\r', '\n'], 0⟩ := by decide

end RbThm.C16
