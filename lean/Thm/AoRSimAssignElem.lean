import Thm.AoRSimExprHyp
/-!
Layer AoR, simulation part — element assignment `a(i…).f.g = e` (`SStmt.assignElem`): scalar element, `STRING * n` element
(with the `Cast` / `FixLength` conversion), whole record element `a(i) = r`, field of a record element, as ONE case.

The converted right-hand side is computed FIRST (`exprToE_correct`) and stays in A while the path is built: `VarPathName a`,
the subscripts (`IdxSpec`: A is preserved), the field steps (`ae_props_steps`); then `CopyAToVarPath` reads the element
through `abs_index` (`ArrRel.read`: outside the box Subscript out of range (9) at the statement's position, on both
sides), replaces the addressed sub-tree (`RbThm.RecLSim.path_set_rel`: `RV.setPath` on the finite map vs `ArrPath.modAt`
on the tree, the element keeps its type) and puts the element back (`ArrRel.store`, `Rel.storeArr`).

Expression correctness arrives as the instance argument `[ExprOk]` of `Thm/AoRSimExprHyp.lean`; subscript correctness
the same way through the class `IdxOk` declared here ("every subscript list satisfies `IdxSpec`"; the assembly gives the
instance from the real `idx_correct`).  Nothing is assumed: a theorem with these arguments is an implication.
-/
namespace RbThm.AoRSim
set_option linter.unusedVariables false
set_option linter.unusedSimpArgs false
set_option linter.unusedSectionVars false
open RbModel RbModel.Num RbModel.AoR RbModel.AoR.Compile RbModel.AoR.Vm
open RbModel.Ast (Pos)
open RbModel.RecL (ETy FTy FFields expand zeroOf)
open RbModel.RecL.Vm (allocTy defaultVar)
open RbThm.AoRLen RbThm.ArrLNum RbThm.RecLTy RbThm.AoRTy

/-- "every subscript list satisfies its specification" (the counterpart of `ExprOk` for `idx_correct`) -/
class IdxOk : Prop where
  idx : ∀ (code : Code) (sc : Scope) (idx : Exprs), IdxSpec code sc idx

theorem ae_idx_correct [IdxOk] (code : Code) (sc : Scope) (idx : Exprs) : IdxSpec code sc idx := IdxOk.idx code sc idx

/-- a non-empty subscript list evaluates to a non-empty index tuple -/
theorem ae_evalIdx_ne_nil {env : AoR.Ref.Env} {arrs : List (Option RArr)} {idx : Exprs} {is : List Int}
    (h : AoR.Ref.evalIdx env arrs idx = .ok is) (hne : ¬ Exprs.isNilP idx) : ∃ i is', is = i :: is' := by
  cases idx with
  | nil => exact absurd trivial hne
  | cons e rest =>
    simp only [AoR.Ref.evalIdx] at h
    obtain ⟨v, _, h⟩ := eres_bind_ok h
    obtain ⟨v', _, h⟩ := eres_bind_ok h
    obtain ⟨i, _, h⟩ := eres_bind_ok h
    obtain ⟨is', _, h⟩ := eres_bind_ok h
    injection h with h
    exact ⟨i, is', h.symm⟩

theorem ae_len_props (path : List String) (p : Pos) : (compileProps path p).length = path.length := by
  simp only [compileProps, List.length_map]

/-- the state after the field steps `VarPathProperty f1 · … · VarPathProperty fm` -/
def aePropsSt (τ : Vm) (pth : Path) (rest : List Path) (path : List String) : Vm :=
  { τ with pc := τ.pc + path.length, paths := { pth with props := pth.props ++ path } :: rest }

/-- the field steps extend the path on top of the path stack; nothing else changes -/
theorem ae_props_steps (code : Code) (p : Pos) : ∀ (path : List String) (τ : Vm) (pth : Path) (rest : List Path),
    CodeAt code τ.pc (compileProps path p) → τ.paths = pth :: rest → Steps code τ (aePropsSt τ pth rest path)
  | [], τ, pth, rest, _, hp => by
    have e : aePropsSt τ pth rest [] = τ := by
      simp only [aePropsSt, List.length_nil, Nat.add_zero, List.append_nil]
      cases τ; simp only at hp; subst hp; rfl
    rw [e]; exact Steps.refl τ
  | f :: fs, τ, pth, rest, hc, hp => by
    have hc' : CodeAt code τ.pc ((CInstr.prop f, p) :: compileProps fs p) := hc
    have h0 : code[τ.pc]? = some (CInstr.prop f, p) := hc'.head
    let τ1 : Vm := Vm.advance { τ with paths := { pth with props := pth.props ++ [f] } :: rest }
    have s1 : Vm.step code τ = .next τ1 := by simp only [Vm.step, h0, hp]; rfl
    have ih := ae_props_steps code p fs τ1 { pth with props := pth.props ++ [f] } rest hc'.tail rfl
    have e : aePropsSt τ1 { pth with props := pth.props ++ [f] } rest fs = aePropsSt τ pth rest (f :: fs) := by
      simp only [aePropsSt, τ1, Vm.advance, List.length_cons, List.append_assoc, List.singleton_append,
        Nat.add_assoc, Nat.add_comm 1]
    rw [e] at ih
    exact Steps.cons s1 ih

variable [ExprOk] [IdxOk]

/-- **element assignment** `a(idx).path = e`: scalar, `STRING * n`, whole record, field of a record element -/
theorem case_assignElem (code : Code) (fuel : Nat) (ih : IHle code fuel) (a : Nat) (idx : Exprs) (path : List String)
    (t : ETy) (e : AoR.Expr) (p : Pos) (sc : Scope) (sfx : String) (off : Nat) (s : St) (σ : Vm)
    (hc : CodeAt code off (compileStmt sfx off (.assignElem a idx path t e p))) (hpc : σ.pc = off)
    (hr : Rel sc s σ) (hw : Wf sc (.assignElem a idx path t e p)) (ha : ActInv σ) :
    StmtPost code sc (sizeStmt (.assignElem a idx path t e p)) off σ
      (AoR.Ref.exec (fuel + 1) (desugar (.assignElem a idx path t e p)) s) := by
  simp only [compileStmt] at hc
  simp only [Wf] at hw
  obtain ⟨⟨et, root, ft, h1, h2, h3, h4⟩, hne, hwi, hwe⟩ := hw
  have he := exprToE_correct code sc e (expr_correct code sc e) t off s σ
    hc.append_left.append_left.append_left.append_left hpc hr hwe
  simp only [desugar, AoR.Ref.exec, sizeStmt]
  cases hev : AoR.Ref.evalTo s.env s.arrs e t with
  | err c q => rw [hev] at he; exact he
  | inexact => trivial
  | illFormed => trivial
  | ok v =>
    rw [hev] at he
    obtain ⟨τ, st, hp, hav, hrel, hss⟩ := he
    -- the type of the converted value is that of the addressed location
    have hft : expand sc.types t = some ft := by
      rw [← h4]; exact expand_flat (tyIn_at hr.twf path root ft (tyIn_expand h2) h3)
    have hvt : HasTy ft v := evalTo_typed hr.twf hr.typed hr.arrsTyped hwe hft hev
    have hvn : NoNul v := evalTo_noNul hr.nonul hr.arrsNoNul hwe hev
    -- `VarPathName a`
    have h0 : code[τ.pc]? = some (CInstr.arrPath a, p) := by
      have := hc.append_left.append_left.append_left.append_right.head
      rw [hp]; exact this
    let τ1 : Vm := Vm.advance { τ with paths := ⟨.arr a, [], []⟩ :: τ.paths }
    have s1 : Vm.step code τ = .next τ1 := by simp only [Vm.step, h0]; rfl
    have hrel1 : Rel sc s τ1 := hrel.same rfl rfl rfl rfl rfl rfl rfl rfl
    -- the subscripts
    have hci : CodeAt code τ1.pc (compileIdx idx) := by
      have := hc.append_left.append_left.append_right
      simp only [List.length_append, List.length_singleton] at this
      exact this.at (by simp only [τ1, Vm.advance, hp]; omega)
    have hidx := ae_idx_correct code sc idx τ1.pc s τ1 ⟨.arr a, [], []⟩ τ.paths hci rfl hrel1 hwi rfl rfl
    simp only
    cases hei : AoR.Ref.evalIdx s.env s.arrs idx with
    | err c q =>
      rw [hei] at hidx
      exact ErrsWith.of_steps (st.trans (Steps.one s1)) hidx
    | inexact => trivial
    | illFormed => trivial
    | ok is =>
      rw [hei] at hidx
      obtain ⟨υ, st2, hp2, ha2, hrel2, hpaths, hvals, hregs, hctx, htr, hsk⟩ := hidx
      obtain ⟨i0, is', his⟩ := ae_evalIdx_ne_nil hei hne
      simp only [RecL.Ref.ERes.bind, AoR.Ref.getArr]
      cases hA : s.arrs[a]? with
      | none => trivial
      | some oA =>
        cases oA with
        | none => trivial
        | some A =>
          simp only
          obtain ⟨V, ft0, hV, hft0, hAV⟩ := hrel2.arrs.lookup h1 hA
          rw [h2] at hft0; injection hft0 with hft0; subst hft0
          -- the field steps
          have hcpr : CodeAt code υ.pc (compileProps path p) := by
            have := hc.append_left.append_right
            simp only [List.length_append, List.length_singleton] at this
            exact this.at (by simp only [hp2, τ1, Vm.advance, hp]; omega)
          have hpaths' : υ.paths = ⟨.arr a, is, []⟩ :: τ.paths := by
            rw [hpaths]; simp only [List.nil_append]
          have st3 := ae_props_steps code p path υ ⟨.arr a, is, []⟩ τ.paths hcpr hpaths'
          -- `CopyAToVarPath`
          have hcw : code[(aePropsSt υ ⟨.arr a, is, []⟩ τ.paths path).pc]? = some (CInstr.copyAToVarPath, p) := by
            have := hc.append_right.head
            simp only [List.length_append, List.length_singleton, ae_len_props] at this
            simp only [aePropsSt, hp2, τ1, Vm.advance, hp]
            rw [← this]; congr 1; omega
          have hra : υ.regs.a = τ.regs.a := ha2
          have hread := hAV.read is
          by_cases hb : A.inBounds is = true
          · simp only [hb, if_true] at hread ⊢
            obtain ⟨w, hgw, hvw⟩ := hread
            obtain ⟨v', w', g1, g2, g3, g4⟩ :=
              RbThm.RecLSim.path_set_rel hr.twf path root ft (A.get is) w v τ.regs.a (tyIn_expand h2) (hAV.typed is)
                hvw h3 hvt hav
            have hstore := hAV.store is v' w' g4 (noNul_setPath path _ v v' (hAV.nonul is) hvn g1) g3
            simp only [hb, if_true] at hstore
            obtain ⟨V', hsV, hAV'⟩ := hstore
            simp only [g1, StmtPost]
            let υ2 : Vm := Vm.advance { aePropsSt υ ⟨.arr a, is, []⟩ τ.paths path with
              arrs := υ.arrs.set a (some V'), paths := τ.paths }
            have s4 : Vm.step code (aePropsSt υ ⟨.arr a, is, []⟩ τ.paths path) = .next υ2 := by
              have g2' : ArrPath.modAt w (List.map (fun f => ArrPath.Step.fld f.toList) path)
                  (fun _ => some υ.regs.a) = some w' := by rw [hra]; exact g2
              subst his
              simp only [Vm.step, hcw]
              simp only [aePropsSt, writePath, hV, hgw, Path.flds, List.nil_append, g2', hsV]
              rfl
            refine ⟨υ2, st.trans ((Steps.one s1).trans (st2.trans (st3.trans (Steps.one s4)))), ?_, ?_, ?_⟩
            · simp only [υ2, Vm.advance, aePropsSt, hp2, τ1, hp, compileExprToE, List.length_append]
              omega
            · exact hrel2.storeArr h1 h2 hAV' rfl rfl rfl rfl rfl rfl rfl rfl
            · exact hss.trans ⟨hvals, rfl, hregs, hctx, htr, hsk⟩
          · simp only [hb, Bool.false_eq_true, if_false] at hread ⊢
            simp only [StmtPost]
            rw [← hrel2.out]
            refine ⟨aePropsSt υ ⟨.arr a, is, []⟩ τ.paths path, aePropsSt υ ⟨.arr a, is, []⟩ τ.paths path,
              st.trans ((Steps.one s1).trans (st2.trans st3)), ?_, rfl⟩
            subst his
            simp only [Vm.step, hcw]
            simp only [aePropsSt, writePath, hV, hread]

end RbThm.AoRSim
