import Thm.AoRSimExpr0
/-!
Layer AoR (port of the records-layer file `Thm/RecLSimSelect.lean`), simulation part — the SELECT CASE statement (port of `Thm/ProcSimSelect.lean`, itself a port of `Thm.C01SimSelect`).

Generated shape: `<selector>; PushAToValueStack; Jump select-begin; Jump select-skip; select-begin:` (a resume point),
then per CASE block `caseN` label, the item tests
(`<item>; CopyAToB; PopValueStackIntoA; PushAToValueStack; <comparison>; JumpIfFalse next` — selector in A, item in B,
the selector stays on the value stack), an optional `case-statementsN` label, the body, `Jump end-select`; then the
optional `case-else` part, the `end-select` label, `PopValueStackIntoA` and the `select-skip` label.

`cmp_tail` is one comparison against `relTest`, `caseExpr_correct` one item against `caseMatches`, `conds_correct`
the item list of a block against `anyMatches`, `cases_correct` walks the blocks by structural recursion against
`execCases`, `case_select` puts the selector, the blocks, the optional CASE ELSE part and the closing
`end-select; PopValueStackIntoA; select-skip` together.  Items are pure; the subject stays on the
value stack because expressions leave the stacks alone (`SameStacks`).  Comparison errors: the instruction
carries the SELECT's position, which is the position `relTest` reports.

Convention: `StmtPost code sc 0 tgt σ r` is used as "what `r` prescribes, arriving at address `tgt` on a
normal end".
-/
namespace RbThm.AoRSim
set_option linter.unusedVariables false
set_option linter.unusedSimpArgs false
open RbModel RbModel.Num RbModel.AoR RbModel.AoR.Compile RbModel.AoR.Vm
open RbModel.Ast (Pos)
open RbModel.RecL (ETy FTy FFields expand zeroOf)
open RbModel.RecL.Vm (allocTy defaultVar)
open RbThm.AoRLen RbThm.ArrLNum RbThm.RecLTy RbThm.AoRTy

set_option linter.unusedSectionVars false
variable [ExprOk]

namespace SimSelect

/-! ### moving specifications around -/

/-- a `Jump tgt` after the statement: a normal end arrives at `tgt` -/
theorem post_then_jump {code : Code} {sc : Scope} {n off tgt : Nat} {p : Pos} {σ : Vm}
    {r : St × Outcome} (h : StmtPost code sc n off σ r)
    (hj : code[off + n]? = some (CInstr.jump tgt, p)) : StmtPost code sc 0 tgt σ r := by
  obtain ⟨s', o⟩ := r
  cases o with
  | normal =>
    obtain ⟨τ, st, hp, hrel, hss⟩ := h
    have hj' : code[τ.pc]? = some (CInstr.jump tgt, p) := by rw [hp]; exact hj
    have s1 : Vm.step code τ = .next { τ with pc := tgt } := by simp only [Vm.step, hj']
    exact ⟨{ τ with pc := tgt }, st.trans (Steps.one s1), rfl, hrel.setPc tgt,
      hss.trans ⟨rfl, rfl, rfl, rfl, rfl, id⟩⟩
  | halted => exact h
  | error c q => exact h
  | inexact => trivial
  | outOfFuel => trivial
  | illFormed => trivial
  | tooBig => trivial

/-- a label after the statement: a normal end steps over it -/
theorem post_then_label {code : Code} {sc : Scope} {n off : Nat} {name : String} {p : Pos}
    {σ : Vm} {r : St × Outcome} (h : StmtPost code sc n off σ r)
    (hl : code[off + n]? = some (CInstr.label name, p)) : StmtPost code sc (n + 1) off σ r := by
  obtain ⟨s', o⟩ := r
  cases o with
  | normal =>
    obtain ⟨τ, st, hp, hrel, hss⟩ := h
    have hl' : code[τ.pc]? = some (CInstr.label name, p) := by rw [hp]; exact hl
    have s1 : Vm.step code τ = .next (Vm.advance τ) := by simp only [Vm.step, hl']
    exact ⟨Vm.advance τ, st.trans (Steps.one s1), by simp only [Vm.advance, hp]; omega, hrel.advance,
      hss.trans ⟨rfl, rfl, rfl, rfl, rfl, id⟩⟩
  | halted => exact h
  | error c q => exact h
  | inexact => trivial
  | outOfFuel => trivial
  | illFormed => trivial
  | tooBig => trivial

/-- steps that leave the stacks alone may be put in front of a test -/
theorem condPost_of_steps {code : Code} {sc : Scope} {yes no : Nat} {s : St} {σ τ : Vm}
    {r : Except Outcome Bool} (st : Steps code σ τ) (hs : SameStacks σ τ)
    (h : CondPost code sc yes no s τ r) : CondPost code sc yes no s σ r := by
  cases r with
  | error o => exact ErrPost.of_steps st h
  | ok b =>
    cases b with
    | true =>
      obtain ⟨υ, st2, hp, hrel, hss⟩ := h
      exact ⟨υ, st.trans st2, hp, hrel, hs.trans hss⟩
    | false =>
      obtain ⟨υ, st2, hp, hrel, hss⟩ := h
      exact ⟨υ, st.trans st2, hp, hrel, hs.trans hss⟩

/-! ### one comparison -/

/-- the comparison instructions turn `try_cmp` into −1 / 0 -/
theorem binInstr_rel {op : Op} (h : SelRelOp op) (a b : Val) :
    Vm.binInstr op a b = (tryCmp a b).bind fun o => Res.ok (ofBool (relHolds op o)) := by
  rcases h with h | h | h | h | h | h <;> subst h <;> rfl

theorem truthy_ofBool (b : Bool) : _root_.RbModel.Ref.truthy (ofBool b) = some b := by
  cases b <;> rfl

/-- `CopyAToB; PopValueStackIntoA; PushAToValueStack; <comparison>; JumpIfFalse next`: the SELECT subject (top of the
value stack, kept there) is compared with the CASE item's value in A -/
theorem cmp_tail (code : Code) (sc : Scope) (s : St) (op : Op) (hop : SelRelOp op) (p : Pos)
    (next q : Nat) (τ : Vm) (subj v : Val) (vs : List RV)
    (hc : CodeAt code q [(CInstr.copyAToB, p), (CInstr.popA, p), (CInstr.pushA, p), (CInstr.bin op, p),
      (CInstr.jumpIfFalse next, p)])
    (hpc : τ.pc = q) (ha : τ.regs.a = .leaf v) (hv : τ.vals = .leaf subj :: vs) (hr : Rel sc s τ) :
    CondPost code sc (q + 5) next s τ (AoR.Ref.relTest p op subj v) := by
  subst hpc
  have h0 : code[τ.pc]? = some (CInstr.copyAToB, p) := hc.head
  have h1 : code[τ.pc + 1]? = some (CInstr.popA, p) := hc.tail.head
  have h2 : code[τ.pc + 1 + 1]? = some (CInstr.pushA, p) := hc.tail.tail.head
  have h3 : code[τ.pc + 1 + 1 + 1]? = some (CInstr.bin op, p) := hc.tail.tail.tail.head
  have h4 : code[τ.pc + 1 + 1 + 1 + 1]? = some (CInstr.jumpIfFalse next, p) := hc.tail.tail.tail.tail.head
  let τ1 : Vm := Vm.advance { τ with regs := { τ.regs with a := .leaf v, b := v } }
  let τ2 : Vm := Vm.advance { Vm.setRA τ1 (.leaf subj) with vals := vs }
  let τ3 : Vm := Vm.advance { τ2 with vals := .leaf subj :: vs }
  have s1 : Vm.step code τ = .next τ1 := by simp only [Vm.step, h0, onA, ha]; rfl
  have s2 : Vm.step code τ1 = .next τ2 := by simp only [Vm.step, τ1, Vm.advance, h1, hv]; rfl
  have s3 : Vm.step code τ2 = .next τ3 := by simp only [Vm.step, τ2, τ1, Vm.advance, Vm.setRA, h2]; rfl
  have s4 : Vm.step code τ3 = Vm.resA τ3 p (Vm.binInstr op subj v) := by
    simp only [Vm.step, τ3, τ2, τ1, Vm.advance, Vm.setRA, h3, onA]
  have st : Steps code τ τ3 := Steps.cons s1 (Steps.cons s2 (Steps.one s3))
  rw [binInstr_rel hop] at s4
  simp only [AoR.Ref.relTest]
  cases ht : tryCmp subj v with
  | ok o =>
    let τ4 : Vm := Vm.advance (Vm.setA τ3 (ofBool (relHolds op o)))
    have s4' : Vm.step code τ3 = .next τ4 := by rw [s4, ht]; rfl
    have hj : code[τ4.pc]? = some (CInstr.jumpIfFalse next, p) := h4
    have ha4 : τ4.regs.a = .leaf (ofBool (relHolds op o)) := rfl
    have ht4 : _root_.RbModel.Ref.truthy (ofBool (relHolds op o)) = some (relHolds op o) := truthy_ofBool _
    dsimp only
    cases hb : relHolds op o with
    | true =>
      rw [hb] at ht4 ha4
      refine ⟨Vm.advance τ4, st.trans (Steps.cons s4' (Steps.one ?_)), rfl, hr.same rfl rfl rfl rfl rfl rfl rfl rfl,
        ⟨hv.symm, rfl, rfl, rfl, rfl, id⟩⟩
      simp only [Vm.step, hj, onA, ha4, ht4]
    | false =>
      rw [hb] at ht4 ha4
      refine ⟨{ τ4 with pc := next }, st.trans (Steps.cons s4' (Steps.one ?_)), rfl,
        hr.same rfl rfl rfl rfl rfl rfl rfl rfl, ⟨hv.symm, rfl, rfl, rfl, rfl, id⟩⟩
      simp only [Vm.step, hj, onA, ha4, ht4]
  | err e =>
    dsimp only
    refine ⟨τ3, τ3, st, ?_, hr.out⟩
    rw [s4, ht]; rfl
  | inexact => trivial

/-! ### one item -/

/-- one comparison of the subject with the value of an expression -/
def itemTest (s : St) (p : Pos) (op : Op) (subj : Val) (e : AoR.Expr) : Except Outcome Bool :=
  match AoR.Ref.evalE s e with
  | .error o => .error o
  | .ok v => AoR.Ref.relTest p op subj v

theorem caseMatches_simple (p : Pos) (subj : Val) (e : AoR.Expr) (s : St) :
    AoR.Ref.caseMatches s p subj (.simple e) = itemTest s p .equal subj e := rfl

theorem caseMatches_is (p : Pos) (subj : Val) (op : Op) (e : AoR.Expr) (s : St) :
    AoR.Ref.caseMatches s p subj (.is op e) = itemTest s p op subj e := rfl

theorem caseMatches_range (p : Pos) (subj : Val) (lo hi : AoR.Expr) (s : St) :
    AoR.Ref.caseMatches s p subj (.range lo hi) =
      match itemTest s p .greaterOrEqual subj lo with
      | .error o => .error o
      | .ok false => .ok false
      | .ok true => itemTest s p .lessOrEqual subj hi := by
  simp only [AoR.Ref.caseMatches, itemTest]
  cases AoR.Ref.evalE s lo with
  | error o => rfl
  | ok l =>
    dsimp only
    cases AoR.Ref.relTest p .greaterOrEqual subj l with
    | error o => rfl
    | ok b => cases b <;> rfl

/-- `<expr>; CopyAToB; PopValueStackIntoA; PushAToValueStack; <comparison>; JumpIfFalse next` -/
theorem item_correct (code : Code) (sc : Scope) (op : Op)
    (hop : SelRelOp op) (p : Pos) (next off : Nat) (s : St) (σ : Vm) (subj : Val) (vs : List RV) (e : AoR.Expr)
    (hc : CodeAt code off (compileExpr e ++ [(CInstr.copyAToB, p), (CInstr.popA, p), (CInstr.pushA, p),
      (CInstr.bin op, p), (CInstr.jumpIfFalse next, p)]))
    (hpc : σ.pc = off) (hv : σ.vals = .leaf subj :: vs) (hr : Rel sc s σ) (hw : EWf sc e) :
    CondPost code sc (off + (compileExpr e).length + 5) next s σ (itemTest s p op subj e) := by
  have he := evalE_correct' code sc e off s σ hc.append_left hpc hr hw
  simp only [itemTest]
  generalize AoR.Ref.evalE s e = rv at he ⊢
  cases rv with
  | error o => exact he
  | ok v =>
    obtain ⟨τ, st, hp, hav, hrel, hss⟩ := he
    have hct : CodeAt code (off + (compileExpr e).length) [(CInstr.copyAToB, p), (CInstr.popA, p), (CInstr.pushA, p),
        (CInstr.bin op, p), (CInstr.jumpIfFalse next, p)] := hc.append_right
    have := cmp_tail code sc s op hop p next (off + (compileExpr e).length) τ subj v vs hct hp hav
      (by rw [hss.vals]; exact hv) hrel
    exact condPost_of_steps st hss this

/-- one CASE item: `generate_case_expression` -/
theorem caseExpr_correct (code : Code) (sc : Scope) (p : Pos)
    (next off : Nat) (s : St) (σ : Vm) (subj : Val) (vs : List RV) (c : CaseExpr)
    (hc : CodeAt code off (compileCaseExpr p next c))
    (hpc : σ.pc = off) (hv : σ.vals = .leaf subj :: vs) (hr : Rel sc s σ) (hw : CaseWf sc c) :
    CondPost code sc (off + sizeCaseExpr c) next s σ (AoR.Ref.caseMatches s p subj c) := by
  cases c with
  | simple e =>
    simp only [compileCaseExpr] at hc
    rw [caseMatches_simple]
    exact item_correct code sc .equal (.inr (.inr (.inl rfl))) p next off s σ subj vs e hc hpc hv hr hw
  | is op e =>
    simp only [compileCaseExpr] at hc
    rw [caseMatches_is]
    exact item_correct code sc op hw.1 p next off s σ subj vs e hc hpc hv hr hw.2
  | range lo hi =>
    simp only [compileCaseExpr] at hc
    rw [caseMatches_range]
    obtain ⟨hwlo, hwhi⟩ := hw
    have h1 := item_correct code sc .greaterOrEqual (.inr (.inr (.inr (.inl rfl)))) p next off s σ subj vs lo
      hc.append_left.append_left hpc hv hr hwlo
    generalize itemTest s p .greaterOrEqual subj lo = rv at h1 ⊢
    cases rv with
    | error o => exact h1
    | ok b =>
      cases b with
      | false => exact h1
      | true =>
        obtain ⟨τ, st, hp, hrel, hss⟩ := h1
        have hc2 : CodeAt code (off + (compileExpr lo).length + 5)
            (compileExpr hi ++ [(CInstr.copyAToB, p), (CInstr.popA, p),
              (CInstr.pushA, p), (CInstr.bin .lessOrEqual, p), (CInstr.jumpIfFalse next, p)]) := by
          have h' : CodeAt code off ((compileExpr lo ++ [(CInstr.copyAToB, p), (CInstr.popA, p),
              (CInstr.pushA, p), (CInstr.bin .greaterOrEqual, p), (CInstr.jumpIfFalse next, p)]) ++
              (compileExpr hi ++ [(CInstr.copyAToB, p), (CInstr.popA, p),
              (CInstr.pushA, p), (CInstr.bin .lessOrEqual, p), (CInstr.jumpIfFalse next, p)])) := by
            simpa only [List.append_assoc] using hc
          have := h'.append_right
          simp only [List.length_append, List.length_cons, List.length_nil] at this
          exact this.at (by omega)
        have h2 := item_correct code sc .lessOrEqual (.inr (.inl rfl)) p next _ s τ subj vs hi hc2 hp
          (by rw [hss.vals]; exact hv) hrel hwhi
        have := condPost_of_steps st hss h2
        simp only [sizeCaseExpr]
        have e : off + ((compileExpr lo).length + 5 + (compileExpr hi).length + 5) =
            off + (compileExpr lo).length + 5 + (compileExpr hi).length + 5 := by omega
        rw [e]
        exact this

/-! ### the item list of a block -/

/-- the item list of one CASE block (`generate_case_expressions`): on a match control arrives at `stmts` (the block's
statements, or the `case-statements` label in front of them), otherwise at `nextCase` -/
theorem conds_correct (code : Code) (sc : Scope) (p : Pos) (sfx : String)
    (bi nextCase stmts : Nat) (subj : Val) (vs : List RV) (s : St) :
    ∀ (conds : List CaseExpr) (off ei : Nat) (σ : Vm), conds ≠ [] →
      CodeAt code off (compileConds p sfx bi nextCase stmts off ei conds) → stmts = off + sizeConds conds →
      σ.pc = off → σ.vals = .leaf subj :: vs → Rel sc s σ → CondsWf sc conds →
      CondPost code sc stmts nextCase s σ (AoR.Ref.anyMatches s p subj conds)
  | [], _, _, _, hne, _, _, _, _, _, _ => absurd rfl hne
  | [c], off, ei, σ, _, hc, hst, hpc, hv, hr, hw => by
    simp only [compileConds] at hc
    simp only [sizeConds] at hst
    have h := caseExpr_correct code sc p nextCase off s σ subj vs c hc hpc hv hr hw.1
    simp only [AoR.Ref.anyMatches]
    subst hst
    generalize AoR.Ref.caseMatches s p subj c = rv at h ⊢
    cases rv with
    | error o => exact h
    | ok b =>
      cases b with
      | true => exact h
      | false => exact h
  | c :: d :: rest, off, ei, σ, _, hc, hst, hpc, hv, hr, hw => by
    simp only [compileConds] at hc
    simp only [sizeConds] at hst
    have h := caseExpr_correct code sc p (off + sizeCaseExpr c + 1) off s σ subj vs c
      hc.append_left.append_left.append_left hpc hv hr hw.1
    have hjmp : code[off + sizeCaseExpr c]? = some (CInstr.jump stmts, p) := by
      have := hc.append_left.append_left.append_right.head
      simp only [len_caseExpr] at this
      exact this
    have hlab : code[off + sizeCaseExpr c + 1]? =
        some (CInstr.label (labelName ("case-multi-expr-" ++ toString bi ++ "-" ++ toString (ei + 1)) p sfx), p) := by
      have := hc.append_left.append_right.head
      simp only [List.length_append, List.length_singleton, len_caseExpr] at this
      exact this
    have hrest : CodeAt code (off + sizeCaseExpr c + 1 + 1)
        (compileConds p sfx bi nextCase stmts (off + sizeCaseExpr c + 1 + 1) (ei + 1) (d :: rest)) := by
      have := hc.append_right
      simp only [List.length_append, List.length_singleton, len_caseExpr] at this
      exact this
    simp only [AoR.Ref.anyMatches]
    generalize AoR.Ref.caseMatches s p subj c = rv at h ⊢
    cases rv with
    | error o => exact h
    | ok b =>
      cases b with
      | true =>
        obtain ⟨τ, st, hp, hrel, hss⟩ := h
        have hj' : code[τ.pc]? = some (CInstr.jump stmts, p) := by rw [hp]; exact hjmp
        have s1' : Vm.step code τ = .next { τ with pc := stmts } := by simp only [Vm.step, hj']
        exact ⟨{ τ with pc := stmts }, st.trans (Steps.one s1'), rfl, hrel.setPc stmts,
          hss.trans ⟨rfl, rfl, rfl, rfl, rfl, id⟩⟩
      | false =>
        obtain ⟨τ, st, hp, hrel, hss⟩ := h
        have hl' : code[τ.pc]? = some (CInstr.label
            (labelName ("case-multi-expr-" ++ toString bi ++ "-" ++ toString (ei + 1)) p sfx), p) := by
          rw [hp]; exact hlab
        have s1' : Vm.step code τ = .next (Vm.advance τ) := by simp only [Vm.step, hl']
        have hss1 : SameStacks σ (Vm.advance τ) := hss.trans ⟨rfl, rfl, rfl, rfl, rfl, id⟩
        have hrec := conds_correct code sc p sfx bi nextCase stmts subj vs s (d :: rest)
          (off + sizeCaseExpr c + 1 + 1) (ei + 1) (Vm.advance τ) (by simp) hrest
          (by omega) (by simp only [Vm.advance, hp]) (by rw [hss1.vals]; exact hv) hrel.advance hw.2
        exact condPost_of_steps (st.trans (Steps.one s1')) hss1 hrec

/-! ### the blocks -/

/-- the CASE blocks: running from the label of block `i` does what `execCases` prescribes and, on a normal end, arrives
at `endOff`; `htail` says what happens once all blocks have been tried and control is at `elseOff`. -/
theorem cases_correct (code : Code) (fuel : Nat) (ih : IHle code fuel) (sc : Scope) (sfx : String)
    (p : Pos) (endOff elseOff : Nat) (subj : Val) (vs : List RV) (tail : Cases)
    (htail : ∀ f, f ≤ fuel → ∀ (s : St) (σ : Vm), σ.pc = elseOff → Rel sc s σ → σ.vals = .leaf subj :: vs →
      ActInv σ → StmtPost code sc 0 endOff σ (AoR.Ref.execCases f p subj tail s)) :
    ∀ (cs : SCases) (f : Nat), f ≤ fuel → ∀ (off i : Nat) (s : St) (σ : Vm),
      CodeAt code off (compileCases sfx p endOff elseOff off i cs) → off + sizeCases cs = elseOff →
      σ.pc = off → Rel sc s σ → σ.vals = .leaf subj :: vs → WfCases sc cs → ActInv σ →
      StmtPost code sc 0 endOff σ (AoR.Ref.execCases f p subj (desugarCases cs tail) s)
  | .nil, f, hf, off, i, s, σ, hc, he, hpc, hr, hv, hw, ha => by
    simp only [desugarCases]
    simp only [sizeCases] at he
    exact htail f hf s σ (by omega) hr hv ha
  | .cons conds body rest, f, hf, off, i, s, σ, hc, he, hpc, hr, hv, hw, ha => by
    cases f with
    | zero => simp only [desugarCases, AoR.Ref.execCases, StmtPost]
    | succ f' =>
      simp only [desugarCases, AoR.Ref.execCases]
      simp only [compileCases] at hc
      simp only [WfCases] at hw
      obtain ⟨hne, hcs, hwb, hwr⟩ := hw
      simp only [sizeCases] at he
      subst hpc
      simp only [decide_eq_true_eq] at hc
      obtain ⟨m, L, hm, hL, hLlen, hLstep⟩ : ∃ (m : Nat) (L : Code),
          (if conds.length > 1 then 1 else 0) = m ∧
          (if conds.length > 1 then [(CInstr.label (labelName ("case-statements" ++ toString i) p sfx), p)]
            else []) = L ∧
          L.length = m ∧
          (∀ q, CodeAt code q L → ∀ (s' : St) (τ : Vm), τ.pc = q → Rel sc s' τ →
            ∃ τ', Steps code τ τ' ∧ τ'.pc = q + m ∧ Rel sc s' τ' ∧ SameStacks τ τ') := by
        by_cases hmul : conds.length > 1
        · refine ⟨1, [(CInstr.label (labelName ("case-statements" ++ toString i) p sfx), p)], by simp [hmul],
            by simp [hmul], rfl, ?_⟩
          intro q hq s' τ hτ hrτ
          have h0 : code[τ.pc]? = some (CInstr.label (labelName ("case-statements" ++ toString i) p sfx), p) := by
            rw [hτ]; exact hq.head
          exact ⟨Vm.advance τ, Steps.one (by simp only [Vm.step, h0]), by simp only [Vm.advance, hτ], hrτ.advance,
            ⟨rfl, rfl, rfl, rfl, rfl, id⟩⟩
        · refine ⟨0, [], by simp [hmul], by simp [hmul], rfl, ?_⟩
          intro q _ s' τ hτ hrτ
          exact ⟨τ, Steps.refl τ, by omega, hrτ, SameStacks.refl τ⟩
      simp only [hm] at he
      simp only [hm, hL] at hc
      clear hm hL
      have hlab : code[σ.pc]? = some (CInstr.label (labelName ("case" ++ toString i) p sfx), p) :=
        hc.append_left.append_left.append_left.append_left.append_left.head
      have hcc : CodeAt code (σ.pc + 1) (compileConds p sfx i
          (σ.pc + 1 + sizeConds conds + m + sizeStmt body + 1) (σ.pc + 1 + sizeConds conds) (σ.pc + 1) 0 conds) := by
        have := hc.append_left.append_left.append_left.append_left.append_right
        simpa only [List.length_singleton] using this
      have hcL : CodeAt code (σ.pc + 1 + sizeConds conds) L := by
        have := hc.append_left.append_left.append_left.append_right
        simp only [List.length_append, List.length_singleton, len_conds] at this
        exact this.at (by omega)
      have hcb : CodeAt code (σ.pc + 1 + sizeConds conds + m)
          (compileStmt sfx (σ.pc + 1 + sizeConds conds + m) body) := by
        have := hc.append_left.append_left.append_right
        simp only [List.length_append, List.length_singleton, len_conds, hLlen] at this
        exact this.at (by omega)
      have hj : code[σ.pc + 1 + sizeConds conds + m + sizeStmt body]? = some (CInstr.jump endOff, p) := by
        have := hc.append_left.append_right.head
        simp only [List.length_append, List.length_singleton, len_conds, len_stmt, hLlen] at this
        rw [← this]; congr 1; omega
      have hcr : CodeAt code (σ.pc + 1 + sizeConds conds + m + sizeStmt body + 1)
          (compileCases sfx p endOff elseOff (σ.pc + 1 + sizeConds conds + m + sizeStmt body + 1) (i + 1)
            rest) := by
        have := hc.append_right
        simp only [List.length_append, List.length_singleton, len_conds, len_stmt, hLlen] at this
        exact this.at (by omega)
      have s1 : Vm.step code σ = .next (Vm.advance σ) := by simp only [Vm.step, hlab]
      have hss0 : SameStacks σ (Vm.advance σ) := ⟨rfl, rfl, rfl, rfl, rfl, id⟩
      have hconds := conds_correct code sc p sfx i (σ.pc + 1 + sizeConds conds + m + sizeStmt body + 1)
        (σ.pc + 1 + sizeConds conds) subj vs s conds (σ.pc + 1) 0 (Vm.advance σ) hne hcc rfl rfl
        hv hr.advance hcs
      generalize AoR.Ref.anyMatches s p subj conds = rv at hconds ⊢
      cases rv with
      | error o => exact StmtPost.of_err (ErrPost.of_steps (Steps.one s1) hconds)
      | ok b =>
        cases b with
        | true =>
          obtain ⟨τ, st, hp, hrel, hss⟩ := hconds
          obtain ⟨τ', st2, hp', hrel', hss'⟩ := hLstep _ hcL s τ hp hrel
          have hss3 : SameStacks σ τ' := (hss0.trans hss).trans hss'
          have hb := (ih f' (by omega)).stmt sc body sfx _ s τ' hcb hp' hrel' hwb (ha.of_same hss3)
          exact StmtPost.of_steps ((Steps.cons s1 st).trans st2) hss3 (post_then_jump hb hj)
        | false =>
          obtain ⟨τ, st, hp, hrel, hss⟩ := hconds
          have hss3 : SameStacks σ τ := hss0.trans hss
          have hrec := cases_correct code fuel ih sc sfx p endOff elseOff subj vs tail htail rest f' (by omega)
            _ (i + 1) s τ hcr (by omega) hp hrel (by rw [hss3.vals]; exact hv) hwr (ha.of_same hss3)
          exact StmtPost.of_steps (Steps.cons s1 st) hss3 hrec

end SimSelect

open SimSelect in
theorem case_select (code : Code) (fuel : Nat) (ih : IHle code fuel) (e : AoR.Expr) (cases : SCases) (hasElse : Bool)
    (els : SStmt) (p : Pos)
    (sc : Scope) (sfx : String) (off : Nat) (s : St) (σ : Vm)
    (hc : CodeAt code off (compileStmt sfx off (.select e cases hasElse els p))) (hpc : σ.pc = off)
    (hr : Rel sc s σ) (hw : Wf sc (.select e cases hasElse els p)) (ha : ActInv σ) :
    StmtPost code sc (sizeStmt (.select e cases hasElse els p)) off σ
      (AoR.Ref.exec (fuel + 1) (desugar (.select e cases hasElse els p)) s) := by
  simp only [compileStmt] at hc
  simp only [Wf] at hw
  obtain ⟨hwe, hwc, hwels, _⟩ := hw
  have he := evalE_correct' code sc e off s σ hc.append_left.append_left.append_left.append_left.append_left hpc hr hwe
  simp only [desugar, AoR.Ref.exec, sizeStmt]
  generalize AoR.Ref.evalE s e = rv at he ⊢
  cases rv with
  | error o => exact StmtPost.of_err he
  | ok subj =>
    obtain ⟨τ, st, hp, hav, hrel, hss⟩ := he
    dsimp only
    -- the optional CASE ELSE part, abstractly
    obtain ⟨k, T, E, hk, hT, hE, hElen, htail⟩ : ∃ (k : Nat) (T : Cases) (E : Code),
        (if hasElse = true then 1 + sizeStmt els else 0) = k ∧
        (if hasElse = true then Cases.else_ (desugar els) else Cases.nil) = T ∧
        (if hasElse = true then [(CInstr.label (labelName "case-else" p sfx), p)] ++
          compileStmt sfx (off + (compileExpr e).length + 1 + 3 + sizeCases cases + 1) els
          else []) = E ∧
        E.length = k ∧
        (CodeAt code (off + (compileExpr e).length + 1 + 3 + sizeCases cases) E →
          ∀ f, f ≤ fuel → ∀ (s' : St) (υ : Vm), υ.pc = off + (compileExpr e).length + 1 + 3 + sizeCases cases →
            Rel sc s' υ → υ.vals = .leaf subj :: τ.vals → ActInv υ →
            StmtPost code sc 0 (off + (compileExpr e).length + 1 + 3 + sizeCases cases + k) υ
              (AoR.Ref.execCases f p subj T s')) := by
      cases hasElse with
      | false =>
        refine ⟨0, Cases.nil, [], by simp, by simp, by simp, rfl, ?_⟩
        intro _ f hf s' υ hυ hrυ _ _
        cases f with
        | zero => simp only [AoR.Ref.execCases, StmtPost]
        | succ f' =>
          simp only [AoR.Ref.execCases]
          exact ⟨υ, Steps.refl υ, by omega, hrυ, SameStacks.refl υ⟩
      | true =>
        refine ⟨1 + sizeStmt els, Cases.else_ (desugar els),
          [(CInstr.label (labelName "case-else" p sfx), p)] ++
            compileStmt sfx (off + (compileExpr e).length + 1 + 3 + sizeCases cases + 1) els,
          by simp, by simp, by simp, by simp [len_stmt]; omega, ?_⟩
        intro hcE f hf s' υ hυ hrυ _ haυ
        cases f with
        | zero => simp only [AoR.Ref.execCases, StmtPost]
        | succ f' =>
          simp only [AoR.Ref.execCases]
          have hl : code[υ.pc]? = some (CInstr.label (labelName "case-else" p sfx), p) := by
            rw [hυ]; exact hcE.append_left.head
          have s1' : Vm.step code υ = .next (Vm.advance υ) := by simp only [Vm.step, hl]
          have hss1 : SameStacks υ (Vm.advance υ) := ⟨rfl, rfl, rfl, rfl, rfl, id⟩
          have hcb : CodeAt code (off + (compileExpr e).length + 1 + 3 + sizeCases cases + 1)
              (compileStmt sfx (off + (compileExpr e).length + 1 + 3 + sizeCases cases + 1) els) := by
            have := hcE.append_right
            simpa only [List.length_singleton] using this
          have hb := (ih f' (by omega)).stmt sc els sfx _ s' (Vm.advance υ) hcb
            (by simp only [Vm.advance, hυ]) hrυ.advance hwels (haυ.of_same hss1)
          exact StmtPost.of_steps (Steps.one s1') hss1 (hb.addr (by omega))
    simp only [hk, hT, hE] at hc ⊢
    clear hk hT hE
    have hpush : code[off + (compileExpr e).length]? = some (CInstr.pushA, p) :=
      hc.append_left.append_left.append_left.append_left.append_right.head
    have hjb : code[off + (compileExpr e).length + 1]? = some (CInstr.jump (off + (compileExpr e).length + 1 + 3 - 1), p) := by
      have := hc.append_left.append_left.append_left.append_right.head
      simp only [List.length_append, List.length_singleton] at this
      rw [← this]; congr 1
    have hlb : code[off + (compileExpr e).length + 1 + 3 - 1]? = some (CInstr.label (labelName "select-begin" p sfx), p) := by
      have := hc.append_left.append_left.append_left.append_right.tail.tail.head
      simp only [List.length_append, List.length_singleton] at this
      rw [← this]; congr 1
    have hcc : CodeAt code (off + (compileExpr e).length + 1 + 3)
        (compileCases sfx p (off + (compileExpr e).length + 1 + 3 + sizeCases cases + k)
          (off + (compileExpr e).length + 1 + 3 + sizeCases cases) (off + (compileExpr e).length + 1 + 3) 0 cases) := by
      have := hc.append_left.append_left.append_right
      simp only [List.length_append, List.length_singleton, List.length_cons, List.length_nil] at this
      exact this.at (by omega)
    have hcE : CodeAt code (off + (compileExpr e).length + 1 + 3 + sizeCases cases) E := by
      have := hc.append_left.append_right
      simp only [List.length_append, List.length_singleton, List.length_cons, List.length_nil, len_cases]
        at this
      exact this.at (by omega)
    have hend : CodeAt code (off + (compileExpr e).length + 1 + 3 + sizeCases cases + k)
        [(CInstr.label (labelName "end-select" p sfx), p), (CInstr.popA, p),
          (CInstr.label (labelName "select-skip" p sfx), p)] := by
      have := hc.append_right
      simp only [List.length_append, List.length_singleton, List.length_cons, List.length_nil, len_cases,
        hElen] at this
      exact this.at (by omega)
    have hlend : code[off + (compileExpr e).length + 1 + 3 + sizeCases cases + k + 0]? =
        some (CInstr.label (labelName "end-select" p sfx), p) := hend.head
    have hpop : code[off + (compileExpr e).length + 1 + 3 + sizeCases cases + k + 1]? = some (CInstr.popA, p) :=
      hend.tail.head
    have hskip : code[off + (compileExpr e).length + 1 + 3 + sizeCases cases + k + 1 + 1]? =
        some (CInstr.label (labelName "select-skip" p sfx), p) := hend.tail.tail.head
    -- push the subject, jump to the `select-begin` label, step over it
    let σ2 : Vm := Vm.advance { τ with vals := .leaf subj :: τ.vals }
    let σ3 : Vm := { σ2 with pc := off + (compileExpr e).length + 1 + 3 - 1 }
    let σ4 : Vm := Vm.advance σ3
    have s2 : Vm.step code τ = .next σ2 := by
      have h : code[τ.pc]? = some (CInstr.pushA, p) := by rw [hp]; exact hpush
      simp only [Vm.step, h, hav] <;> rfl
    have s3 : Vm.step code σ2 = .next σ3 := by
      have h : code[σ2.pc]? = some (CInstr.jump (off + (compileExpr e).length + 1 + 3 - 1), p) := by
        have : σ2.pc = off + (compileExpr e).length + 1 := by simp only [σ2, Vm.advance, hp]
        rw [this]; exact hjb
      simp only [Vm.step, h] <;> rfl
    have s4 : Vm.step code σ3 = .next σ4 := by
      have h : code[σ3.pc]? = some (CInstr.label (labelName "select-begin" p sfx), p) := hlb
      simp only [Vm.step, h] <;> rfl
    have hr4 : Rel sc s σ4 := hrel.same rfl rfl rfl rfl rfl rfl rfl rfl
    have hv4 : σ4.vals = .leaf subj :: σ.vals := by
      show ArrPath.Val.leaf subj :: τ.vals = .leaf subj :: σ.vals
      rw [hss.vals]
    have ha4 : ActInv σ4 := ⟨hss.skip ha.quiet⟩
    have pre : Steps code σ σ4 := st.trans (Steps.cons s2 (Steps.cons s3 (Steps.one s4)))
    have hcases := cases_correct code fuel ih sc sfx p
      (off + (compileExpr e).length + 1 + 3 + sizeCases cases + k)
      (off + (compileExpr e).length + 1 + 3 + sizeCases cases) subj τ.vals T (htail hcE) cases fuel
      (Nat.le_refl _) (off + (compileExpr e).length + 1 + 3) 0 s σ4 hcc rfl (by simp only [σ4, σ3, Vm.advance]; omega) hr4 rfl hwc
      ha4
    have hcases' := post_then_label hcases hlend
    generalize AoR.Ref.execCases fuel p subj (desugarCases cases T) s = r at hcases' ⊢
    obtain ⟨s', o⟩ := r
    cases o with
    | normal =>
      obtain ⟨υ, st3, hp3, hrel3, hss3⟩ := hcases'
      have hpop' : code[υ.pc]? = some (CInstr.popA, p) := by rw [hp3]; exact hpop
      have hv3 : υ.vals = .leaf subj :: τ.vals := hss3.vals
      let υ1 : Vm := Vm.advance { Vm.setRA υ (.leaf subj) with vals := τ.vals }
      have s5 : Vm.step code υ = .next υ1 := by simp only [Vm.step, hpop', hv3] <;> rfl
      have hskip' : code[υ1.pc]? = some (CInstr.label (labelName "select-skip" p sfx), p) := by
        have : υ1.pc = off + (compileExpr e).length + 1 + 3 + sizeCases cases + k + 1 + 1 := by
          simp only [υ1, Vm.advance, Vm.setRA, hp3]
        rw [this]; exact hskip
      have s6 : Vm.step code υ1 = .next (Vm.advance υ1) := by simp only [Vm.step, hskip']
      refine ⟨Vm.advance υ1, (pre.trans st3).trans (Steps.cons s5 (Steps.one s6)), ?_,
        hrel3.same rfl rfl rfl rfl rfl rfl rfl rfl, ?_⟩
      · simp only [υ1, Vm.advance, Vm.setRA, hp3]; omega
      · exact ⟨hss.vals, hss3.paths.trans hss.paths, hss3.regStack.trans hss.regStack, hss3.ctx.trans hss.ctx,
          hss3.trace.trans hss.trace, fun h => hss3.skip (hss.skip h)⟩
    | halted => exact HaltsWith.of_steps pre hcases'
    | error cd q => exact ErrsWith.of_steps pre hcases'
    | inexact => trivial
    | outOfFuel => trivial
    | illFormed => trivial
    | tooBig => trivial

end RbThm.AoRSim
