import Thm.ErrLSimBase
/-!
Error layer (property C05), a shape fact about the reference semantics `ErrL.Ref.exec` alone (port of `Thm/JmpLShape.lean`)
and its use in the simulation proof.

**Ref-only part** (`shape_all`, `jump_shape`, `resumed_shape`): a `jump L` answered by a statement `s` of a program `P`

* comes from a `GOTO L` inside `s` and names a label that is *not* inside `s`, or
* comes from a `RESUME L` of `P` (a unit of `s` failed, the handler — a nested run of `P` — ended with `RESUME L`) and then
  `L` is not a label of `s` *outside the FOR bodies and SELECT blocks of `s`* (`shShallow`).

The second clause is weaker than in the jump layer for a reason: `ErrL.Ref.exec` passes the answer of a failed SELECT CASE
selector and of a failed FOR header on *uncaught* (every other construct applies the rule "label inside me → seek" to it), so
`SELECT CASE 1 / z% : CASE 1 : L: … END SELECT` answers `jump L` with `L` inside itself when the handler says `RESUME L`.

**Bridge** (`jump_shape_lab`): for a statement whose labels have the depths the generator recorded (the depth half of
`LabAt`) in a program whose `RESUME label` statements name labels at depth 0 / 0 (`Wf` of the program body), the label of a
jump that leaves the statement is not inside it and not deeper than it.
-/
namespace RbThm.ErrLSim
set_option linter.unusedVariables false
set_option linter.unusedSimpArgs false
open RbModel RbModel.Num RbModel.ErrL RbModel.ErrL.Compile RbModel.ErrL.Vm
open RbModel.JmpL.Compile (CInstr Code labelName compileExpr compileExprTo storeVar loadVar compileItems compileConds
  sizeCaseExpr sizeItems sizeConds Dp lookupNat lookupDepth stepSuffix maxPos)
open RbModel.JmpL.Vm (Vm truncTop)
open RbModel.Ast (Pos PrintItem CaseExpr)
open RbModel.Ref (St)
open RbModel.ErrL.Ref
open RbThm.ErrLLen
open RbThm.C01Sim (Typed SlotsBelow ExprWt NumericAt NumericCond ItemsSlots CaseSlots CondsSlots)

/-! ### Ref-only part -/

mutual
/-- the targets of the GOTO statements inside a statement of the lean syntax -/
def shGotosS : Stmt → List Nat
  | .seq a b => shGotosS a ++ shGotosS b
  | .ifs _ thn els _ => shGotosS thn ++ shGotosS els
  | .select _ cases _ => shGotosC cases
  | .forLoop _ _ _ _ _ body _ => shGotosS body
  | .while _ body _ => shGotosS body
  | .doLoop _ _ _ body _ => shGotosS body
  | .goto L => [L]
  | _ => []
def shGotosC : Cases → List Nat
  | .nil => []
  | .else_ body => shGotosS body
  | .case _ body rest => shGotosS body ++ shGotosC rest
end

mutual
/-- the targets of the `RESUME label` statements inside a statement of the lean syntax -/
def shResS : Stmt → List Nat
  | .seq a b => shResS a ++ shResS b
  | .ifs _ thn els _ => shResS thn ++ shResS els
  | .select _ cases _ => shResC cases
  | .forLoop _ _ _ _ _ body _ => shResS body
  | .while _ body _ => shResS body
  | .doLoop _ _ _ body _ => shResS body
  | .resumeLabel L _ => [L]
  | _ => []
def shResC : Cases → List Nat
  | .nil => []
  | .else_ body => shResS body
  | .case _ body rest => shResS body ++ shResC rest
end

/-- the labels of a statement that are not inside one of its FOR bodies or SELECT blocks -/
def shShallow : Stmt → List Nat
  | .seq a b => shShallow a ++ shShallow b
  | .ifs _ thn els _ => shShallow thn ++ shShallow els
  | .while _ body _ => shShallow body
  | .doLoop _ _ _ body _ => shShallow body
  | .label L => [L]
  | _ => []

theorem sh_shallow_sub : ∀ (s : Stmt) (L : Nat), L ∈ shShallow s → L ∈ s.labels
  | .seq a b, L, h => by
    simp only [shShallow, List.mem_append] at h
    simp only [Stmt.labels, List.mem_append]
    exact h.imp (sh_shallow_sub a L) (sh_shallow_sub b L)
  | .ifs _ a b _, L, h => by
    simp only [shShallow, List.mem_append] at h
    simp only [Stmt.labels, List.mem_append]
    exact h.imp (sh_shallow_sub a L) (sh_shallow_sub b L)
  | .while _ body _, L, h => by
    simp only [shShallow] at h; simp only [Stmt.labels]; exact sh_shallow_sub body L h
  | .doLoop _ _ _ body _, L, h => by
    simp only [shShallow] at h; simp only [Stmt.labels]; exact sh_shallow_sub body L h
  | .label L', L, h => by simpa [shShallow, Stmt.labels] using h
  | .skip, _, h => by simp [shShallow] at h
  | .assign .., _, h => by simp [shShallow] at h
  | .print .., _, h => by simp [shShallow] at h
  | .read .., _, h => by simp [shShallow] at h
  | .select .., _, h => by simp [shShallow] at h
  | .forLoop .., _, h => by simp [shShallow] at h
  | .end_ .., _, h => by simp [shShallow] at h
  | .goto .., _, h => by simp [shShallow] at h
  | .gosub .., _, h => by simp [shShallow] at h
  | .ret .., _, h => by simp [shShallow] at h
  | .onErrorGoto .., _, h => by simp [shShallow] at h
  | .onErrorResumeNext, _, h => by simp [shShallow] at h
  | .onErrorGoto0, _, h => by simp [shShallow] at h
  | .resume .., _, h => by simp [shShallow] at h
  | .resumeNext .., _, h => by simp [shShallow] at h
  | .resumeLabel .., _, h => by simp [shShallow] at h

theorem sh_hasLabel_iff (s : Stmt) (L : Nat) : s.hasLabel L = true ↔ L ∈ s.labels := by
  simp [Stmt.hasLabel]

theorem sh_hasLabelC_iff (cs : Cases) (L : Nat) : cs.hasLabel L = true ↔ L ∈ cs.labels := by
  simp [Cases.hasLabel]

/-- what an outcome may name.  A `jump L`: a GOTO target among `G` that is not among `lab`, or a RESUME label of the program
that is not among `sh`; a `resumed (label L)`: a RESUME label among `R` -/
def shGoodL (P : Stmt) (G R lab sh : List Nat) (o : Outcome) : Prop :=
  (∀ L, o = .jump L → (L ∈ G ∧ L ∉ lab) ∨ (L ∈ shResS P ∧ L ∉ sh)) ∧ (∀ L, o = .resumed (.label L) → L ∈ R)

/-- the outcome of a statement -/
def shGood (P s : Stmt) (o : Outcome) : Prop := shGoodL P (shGotosS s) (shResS s) s.labels (shShallow s) o

/-- the answer of `raise` -/
def shGoodD (P : Stmt) (d : Disp) : Prop := ∀ o, d = .out o → shGoodL P [] [] [] [] o

/-- the answer of `condUnit` -/
def shGoodDec (P : Stmt) (d : Dec) : Prop := ∀ o, d = .out o → shGoodL P [] [] [] [] o

theorem sh_lit {P : Stmt} {G R lab sh : List Nat} {o : Outcome} (h1 : ∀ L, o ≠ .jump L) (h2 : ∀ k, o ≠ .resumed k) :
    shGoodL P G R lab sh o :=
  ⟨fun L h => absurd h (h1 L), fun L h => absurd h (h2 _)⟩

theorem shGoodL.mono {P : Stmt} {G R lab sh G' R' lab' sh' : List Nat} {o : Outcome} (h : shGoodL P G R lab sh o)
    (hG : ∀ L, L ∈ G → L ∈ G') (hR : ∀ L, L ∈ R → L ∈ R') (hlab : ∀ L, L ∈ lab' → L ∈ lab) (hsh : ∀ L, L ∈ sh' → L ∈ sh) :
    shGoodL P G' R' lab' sh' o := by
  refine ⟨fun L ho => ?_, fun L ho => hR L (h.2 L ho)⟩
  rcases h.1 L ho with ⟨a, b⟩ | ⟨a, b⟩
  · exact .inl ⟨hG L a, fun hh => b (hlab L hh)⟩
  · exact .inr ⟨a, fun hh => b (hsh L hh)⟩

/-- forget the label part -/
theorem shGoodL.orig {P : Stmt} {G R lab sh G' R' : List Nat} {o : Outcome} (h : shGoodL P G R lab sh o)
    (hG : ∀ L, L ∈ G → L ∈ G') (hR : ∀ L, L ∈ R → L ∈ R') : shGoodL P G' R' [] [] o :=
  h.mono hG hR (fun L hh => by simp at hh) (fun L hh => by simp at hh)

/-- `match r with | (s', .normal) => k s' | r => r` -/
theorem sh_then {Q : Outcome → Prop} (r : ESt × Outcome) (k : ESt → ESt × Outcome) (hr : Q r.2) (hk : ∀ s', Q (k s').2) :
    Q (match r with
       | (s', .normal) => k s'
       | r => r).2 := by
  obtain ⟨s, o⟩ := r
  cases o <;> first | exact hk _ | exact hr

/-- the rule every construct applies to a jump out of one of its parts: restart in seek mode if the label is inside,
pass it on otherwise -/
theorem sh_catch {P : Stmt} {G R lab sh : List Nat} (hl : Nat → Bool) (hhl : ∀ L, hl L = true ↔ L ∈ lab)
    (hsh : ∀ L, L ∈ sh → L ∈ lab) (r : ESt × Outcome) (hr : shGoodL P G R [] [] r.2)
    (k : Nat → ESt → ESt × Outcome) (hk : ∀ L s', shGoodL P G R lab sh (k L s').2) :
    shGoodL P G R lab sh (match r with
       | (s', .jump L) => if hl L = true then k L s' else (s', .jump L)
       | r => r).2 := by
  obtain ⟨s, o⟩ := r
  cases o with
  | jump L =>
    simp only
    split
    · exact hk _ _
    · rename_i hnl
      have hnl' : L ∉ lab := fun hh => hnl ((hhl L).mpr hh)
      refine ⟨fun L' ho => ?_, fun L' ho => by simp at ho⟩
      simp only [Outcome.jump.injEq] at ho
      subst ho
      rcases hr.1 L rfl with ⟨a, _⟩ | ⟨a, _⟩
      · exact .inl ⟨a, hnl'⟩
      · exact .inr ⟨a, fun hh => hnl' (hsh L hh)⟩
  | _ => exact ⟨fun L ho => (by cases ho), fun L ho => hr.2 L ho⟩

/-- `match r with | (s', .normal) => k1 s' | (s', .jump L) => if inside then restart else pass on | r => r` -/
theorem sh_loop {P : Stmt} {G R lab sh : List Nat} (hl : Nat → Bool) (hhl : ∀ L, hl L = true ↔ L ∈ lab)
    (hsh : ∀ L, L ∈ sh → L ∈ lab) (r : ESt × Outcome) (hr : shGoodL P G R [] [] r.2)
    (k1 : ESt → ESt × Outcome) (hk1 : ∀ s', shGoodL P G R lab sh (k1 s').2)
    (k : Nat → ESt → ESt × Outcome) (hk : ∀ L s', shGoodL P G R lab sh (k L s').2) :
    shGoodL P G R lab sh (match r with
       | (s', .normal) => k1 s'
       | (s', .jump L) => if hl L = true then k L s' else (s', .jump L)
       | r => r).2 := by
  obtain ⟨s, o⟩ := r
  cases o with
  | normal => exact hk1 _
  | jump L => exact sh_catch hl hhl hsh (s, .jump L) hr k hk
  | _ => exact ⟨fun L ho => (by cases ho), fun L ho => hr.2 L ho⟩

/-- a jump that came out of `raise` (a RESUME label of the program), caught or passed on -/
theorem sh_outjump {P : Stmt} {G R lab sh : List Nat} (hl : Nat → Bool) (hhl : ∀ L, hl L = true ↔ L ∈ lab)
    (hsh : ∀ L, L ∈ sh → L ∈ lab) (L : Nat) (s1 : ESt) (hL : L ∈ shResS P) (k : ESt × Outcome)
    (hk : shGoodL P G R lab sh k.2) : shGoodL P G R lab sh (if hl L = true then k else (s1, .jump L)).2 := by
  split
  · exact hk
  · rename_i hnl
    have hnl' : L ∉ lab := fun hh => hnl ((hhl L).mpr hh)
    refine ⟨fun L' ho => ?_, fun L' ho => by simp at ho⟩
    simp only [Outcome.jump.injEq] at ho
    subst ho
    exact .inr ⟨hL, fun hh => hnl' (hsh L hh)⟩

/-- an answer of `raise` / `condUnit` that is passed on as it is -/
theorem sh_out {P : Stmt} {G R lab : List Nat} {o : Outcome} (h : shGoodL P [] [] [] [] o) : shGoodL P G R lab [] o := by
  refine ⟨fun L ho => ?_, fun L ho => absurd (h.2 L ho) (by simp)⟩
  rcases h.1 L ho with ⟨a, _⟩ | ⟨a, _⟩
  · simp at a
  · exact .inr ⟨a, by simp⟩

/-- a resume unit: RESUME runs it again, RESUME NEXT continues behind it, everything else is passed on -/
theorem sh_unit {P : Stmt} {G R lab : List Nat} (r : ESt × Disp) (hr : shGoodD P r.2)
    (again next : ESt → ESt × Outcome) (ha : ∀ s', shGoodL P G R lab [] (again s').2)
    (hn : ∀ s', shGoodL P G R lab [] (next s').2) :
    shGoodL P G R lab [] (match r with
      | (s', .again) => again s'
      | (s', .next) => next s'
      | (s', .out o) => (s', o)).2 := by
  obtain ⟨s, d⟩ := r
  cases d with
  | again => exact ha _
  | next => exact hn _
  | out o => exact sh_out (hr o rfl)

/-- the functions of the mutual block, at one amount of fuel -/
structure Shape (P : Stmt) (fuel : Nat) : Prop where
  hExec : ∀ (gd : Nat) (s : Stmt) (m : Mode) (st : ESt), shGood P s (exec fuel P gd s m st).2
  hRaise : ∀ (gd c : Nat) (p : Pos) (st : ESt), shGoodD P (raise fuel P gd c p st).2
  hCond : ∀ (gd : Nat) (c : Ast.Expr) (b : Bool) (st : ESt), shGoodDec P (condUnit fuel P gd c b st).2
  hDoBottom : ∀ (gd : Nat) (c : Ast.Expr) (u : Bool) (body : Stmt) (p : Pos) (st : ESt),
    shGoodL P (shGotosS body) (shResS body) body.labels (shShallow body) (doBottom fuel P gd c u body p st).2
  hExecCases : ∀ (gd : Nat) (p : Pos) (v : Val) (cs : Cases) (st : ESt),
    shGoodL P (shGotosC cs) (shResC cs) [] [] (execCases fuel P gd p v cs st).2
  hSeekCases : ∀ (gd : Nat) (cs : Cases) (L0 : Nat) (st : ESt),
    shGoodL P (shGotosC cs) (shResC cs) [] [] (seekCases fuel P gd cs L0 st).2
  hSelectSeek : ∀ (gd : Nat) (cs : Cases) (L0 : Nat) (st : ESt),
    shGoodL P (shGotosC cs) (shResC cs) cs.labels [] (selectSeek fuel P gd cs L0 st).2
  hForIter : ∀ (gd x : Nat) (t : Ty) (h sv : Val) (up : Bool) (body : Stmt) (p : Pos) (m : Mode) (atNext : Bool) (st : ESt),
    shGoodL P (shGotosS body) (shResS body) body.labels [] (forIter fuel P gd x t h sv up body p m atNext st).2

macro "sh_lit0" : tactic => `(tactic| exact sh_lit (by simp) (by simp))
macro "sh_mem" : tactic => `(tactic| (intro L h; simp [shGotosS, shResS, shGotosC, shResC, h]))

theorem shape_zero (P : Stmt) : Shape P 0 := by
  refine ⟨?_, ?_, ?_, ?_, ?_, ?_, ?_, ?_⟩
  · intro gd s m st; simp only [exec]; sh_lit0
  · intro gd c p st o h; simp only [Ref.raise, Disp.out.injEq] at h; subst h; sh_lit0
  · intro gd c b st o h; simp only [condUnit, Dec.out.injEq] at h; subst h; sh_lit0
  · intro gd c u body p st; simp only [doBottom]; sh_lit0
  · intro gd p v cs st; simp only [execCases]; sh_lit0
  · intro gd cs L0 st; simp only [seekCases]; sh_lit0
  · intro gd cs L0 st; simp only [selectSeek]; sh_lit0
  · intro gd x t h sv up body p m atNext st; simp only [forIter]; sh_lit0

theorem shape_raise {P : Stmt} {n : Nat} (ih : Shape P n) (gd c : Nat) (p : Pos) (st : ESt) :
    shGoodD P (Ref.raise (n + 1) P gd c p st).2 := by
  intro o h
  simp only [Ref.raise] at h
  split at h
  · simp only [Disp.out.injEq] at h; subst h; sh_lit0
  · split at h
    · simp only [Disp.out.injEq] at h; subst h; sh_lit0
    · simp at h
  · rename_i Lh _
    split at h
    · simp only [Disp.out.injEq] at h; subst h; sh_lit0
    · have hx := ih.hExec gd P (.seek Lh) { st with inH := true, err := some c }
      generalize exec n P gd P (.seek Lh) { st with inH := true, err := some c } = r at hx h
      obtain ⟨s', o'⟩ := r
      cases o' with
      | resumed k =>
        cases k with
        | label L' =>
          simp only [dispOfHandler, Disp.out.injEq] at h
          subst h
          refine ⟨fun L ho => ?_, fun L ho => by simp at ho⟩
          simp only [Outcome.jump.injEq] at ho
          subst ho
          exact .inr ⟨hx.2 _ rfl, by simp⟩
        | _ => simp [dispOfHandler] at h
      | _ => simp only [dispOfHandler, Disp.out.injEq] at h; subst h; sh_lit0

theorem shape_cond {P : Stmt} {n : Nat} (ih : Shape P n) (gd : Nat) (c : Ast.Expr) (b : Bool) (st : ESt) :
    shGoodDec P (condUnit (n + 1) P gd c b st).2 := by
  intro o h
  simp only [condUnit] at h
  split at h
  · simp at h
  · simp only [Dec.out.injEq] at h; subst h; sh_lit0
  · have hr := ih.hRaise gd ‹_› ‹_› st
    generalize Ref.raise n P gd _ _ st = r at hr h
    obtain ⟨s', d⟩ := r
    cases d with
    | out o' => simp only [Dec.out.injEq] at h; subst h; exact hr _ rfl
    | _ => simp at h

theorem shape_execCases {P : Stmt} {n : Nat} (ih : Shape P n) (gd : Nat) (p : Pos) (v : Val) (cs : Cases) (st : ESt) :
    shGoodL P (shGotosC cs) (shResC cs) [] [] (execCases (n + 1) P gd p v cs st).2 := by
  cases cs with
  | nil => simp only [execCases]; sh_lit0
  | else_ body => simp only [execCases]; exact (ih.hExec gd body .run st).orig (by sh_mem) (by sh_mem)
  | case conds body rest =>
    simp only [execCases]
    split
    · exact (ih.hExec gd body .run st).orig (by sh_mem) (by sh_mem)
    · exact (ih.hExecCases gd p v rest st).orig (by sh_mem) (by sh_mem)
    · sh_lit0
    · exact sh_unit _ (ih.hRaise gd _ _ st) _ _ (fun s' => ih.hExecCases gd p v _ s')
        (fun s' => (ih.hExec gd body .run s').orig (by sh_mem) (by sh_mem))

theorem shape_seekCases {P : Stmt} {n : Nat} (ih : Shape P n) (gd : Nat) (cs : Cases) (L0 : Nat) (st : ESt) :
    shGoodL P (shGotosC cs) (shResC cs) [] [] (seekCases (n + 1) P gd cs L0 st).2 := by
  cases cs with
  | nil => simp only [seekCases]; sh_lit0
  | else_ body => simp only [seekCases]; exact (ih.hExec gd body _ st).orig (by sh_mem) (by sh_mem)
  | case conds body rest =>
    simp only [seekCases]
    split
    · exact (ih.hExec gd body _ st).orig (by sh_mem) (by sh_mem)
    · exact (ih.hSeekCases gd rest L0 st).orig (by sh_mem) (by sh_mem)

theorem shape_selectSeek {P : Stmt} {n : Nat} (ih : Shape P n) (gd : Nat) (cs : Cases) (L0 : Nat) (st : ESt) :
    shGoodL P (shGotosC cs) (shResC cs) cs.labels [] (selectSeek (n + 1) P gd cs L0 st).2 := by
  simp only [selectSeek]
  exact sh_catch cs.hasLabel (sh_hasLabelC_iff cs) (fun L h => by simp at h) _ (ih.hSeekCases gd cs L0 st) _
    (fun L s' => ih.hSelectSeek gd cs L s')

theorem shape_forIter {P : Stmt} {n : Nat} (ih : Shape P n) (gd x : Nat) (t : Ty) (h sv : Val) (up : Bool) (body : Stmt)
    (p : Pos) (m : Mode) (atNext : Bool) (st : ESt) :
    shGoodL P (shGotosS body) (shResS body) body.labels [] (forIter (n + 1) P gd x t h sv up body p m atNext st).2 := by
  simp only [forIter]
  split
  · split
    · exact ih.hForIter ..
    · sh_lit0
    · rename_i e _
      have hr := ih.hRaise gd (RbModel.Ref.codeOf e) p st
      generalize Ref.raise n P gd (RbModel.Ref.codeOf e) p st = r at hr ⊢
      obtain ⟨s', d⟩ := r
      cases d with
      | again => exact ih.hForIter ..
      | next => sh_lit0
      | out o =>
        have ho := hr o rfl
        cases o with
        | jump L =>
          have hL : L ∈ shResS P := by
            rcases ho.1 L rfl with ⟨a, _⟩ | ⟨a, _⟩
            · simp at a
            · exact a
          exact sh_outjump body.hasLabel (sh_hasLabel_iff body) (fun L h => by simp at h) L s' hL _ (ih.hForIter ..)
        | _ => exact sh_out ho
  · split
    · split <;> sh_lit0
    · sh_lit0
    · exact sh_loop body.hasLabel (sh_hasLabel_iff body) (fun L h => by simp at h) _
        ((ih.hExec gd body m st).orig (fun _ h => h) (fun _ h => h)) _ (fun s' => ih.hForIter ..) _
        (fun L s' => ih.hForIter ..)

theorem shape_doBottom {P : Stmt} {n : Nat} (ih : Shape P n) (gd : Nat) (c : Ast.Expr) (u : Bool) (body : Stmt) (p : Pos)
    (st : ESt) :
    shGoodL P (shGotosS body) (shResS body) body.labels (shShallow body) (doBottom (n + 1) P gd c u body p st).2 := by
  simp only [doBottom]
  have hr := ih.hCond gd c u st
  generalize condUnit n P gd c u st = r at hr ⊢
  obtain ⟨s1, d⟩ := r
  cases d with
  | go b =>
    dsimp only
    split
    · exact ih.hExec gd (.doLoop c false u body p) .run s1
    · sh_lit0
  | again => exact ih.hDoBottom ..
  | out o =>
    have ho := hr o rfl
    cases o with
    | jump L =>
      have hL : L ∈ shResS P := by
        rcases ho.1 L rfl with ⟨a, _⟩ | ⟨a, _⟩
        · simp at a
        · exact a
      exact sh_outjump body.hasLabel (sh_hasLabel_iff body) (sh_shallow_sub body) L s1 hL _
        (ih.hExec gd (.doLoop c false u body p) (.seek L) s1)
    | _ =>
      refine ⟨fun L h => (by cases h), fun L h => absurd (ho.2 L h) (by simp)⟩

/-- a RESUME label of the program named by an answer of `raise` / `condUnit` -/
theorem sh_res_of_out {P : Stmt} {L : Nat} (ho : shGoodL P [] [] [] [] (.jump L)) : L ∈ shResS P := by
  rcases ho.1 L rfl with ⟨a, _⟩ | ⟨a, _⟩
  · simp at a
  · exact a

/-- an answer of `condUnit` at the head of a loop: a jump is caught or passed on, everything else is passed on -/
theorem sh_head {P : Stmt} {G R sh : List Nat} (body : Stmt) (hsh : ∀ L, L ∈ sh → L ∈ body.labels) (s1 : ESt) (o : Outcome)
    (ho : shGoodL P [] [] [] [] o) (k : Nat → ESt × Outcome) (hk : ∀ L, shGoodL P G R body.labels sh (k L).2) :
    (∀ L, o = .jump L → shGoodL P G R body.labels sh (if body.hasLabel L = true then k L else (s1, .jump L)).2) ∧
    ((∀ L, o ≠ .jump L) → shGoodL P G R body.labels sh o) := by
  refine ⟨fun L h => ?_, fun h => ⟨fun L h' => absurd h' (h L), fun L h' => absurd (ho.2 L h') (by simp)⟩⟩
  subst h
  exact sh_outjump body.hasLabel (sh_hasLabel_iff body) hsh L s1 (sh_res_of_out ho) _ (hk L)

theorem shape_exec {P : Stmt} {n : Nat} (ih : Shape P n) (gd : Nat) (s : Stmt) (m : Mode) (st : ESt) :
    shGood P s (exec (n + 1) P gd s m st).2 := by
  cases s with
  | skip => cases m <;> simp only [exec] <;> sh_lit0
  | end_ p => cases m <;> simp only [exec] <;> sh_lit0
  | onErrorGoto L => cases m <;> simp only [exec] <;> sh_lit0
  | onErrorResumeNext => cases m <;> simp only [exec] <;> sh_lit0
  | onErrorGoto0 => cases m <;> simp only [exec] <;> sh_lit0
  | label L' =>
    cases m with
    | run => simp only [exec]; sh_lit0
    | seek L0 => simp only [exec]; split <;> sh_lit0
  | goto L' =>
    cases m with
    | seek _ => simp only [exec]; sh_lit0
    | run =>
      simp only [exec]
      refine ⟨fun L h => ?_, fun L h => by simp at h⟩
      simp only [Outcome.jump.injEq] at h
      subst h
      exact .inl ⟨by simp [shGotosS], by simp [Stmt.labels]⟩
  | gosub L' =>
    cases m with
    | seek _ => simp only [exec]; sh_lit0
    | run =>
      simp only [exec]
      generalize exec n P (gd + 1) P (.seek L') st = r
      obtain ⟨s1, o1⟩ := r
      cases o1 <;> sh_lit0
  | assign x t e p =>
    cases m with
    | seek _ => simp only [exec]; sh_lit0
    | run =>
      simp only [exec]
      split
      · sh_lit0
      · sh_lit0
      · exact sh_unit _ (ih.hRaise gd _ _ st) _ _ (fun s' => ih.hExec gd (.assign x t e p) .run s') (fun s' => by sh_lit0)
  | print items p =>
    cases m with
    | seek _ => simp only [exec]; sh_lit0
    | run =>
      simp only [exec]
      split
      · split <;> sh_lit0
      · exact sh_unit _ (ih.hRaise gd _ _ _) _ _ (fun s' => ih.hExec gd (.print items p) .run s') (fun s' => by sh_lit0)
      · sh_lit0
  | read vars p =>
    cases m with
    | seek _ => simp only [exec]; sh_lit0
    | run =>
      simp only [exec]
      split
      · sh_lit0
      · sh_lit0
      · exact sh_unit _ (ih.hRaise gd _ _ _) _ _ (fun s' => ih.hExec gd (.read vars p) .run s') (fun s' => by sh_lit0)
  | ret p =>
    cases m with
    | seek _ => simp only [exec]; sh_lit0
    | run =>
      simp only [exec]
      split
      · exact sh_unit _ (ih.hRaise gd _ _ _) _ _ (fun s' => ih.hExec gd (.ret p) .run s') (fun s' => by sh_lit0)
      · sh_lit0
  | resume p =>
    cases m with
    | seek _ => simp only [exec]; sh_lit0
    | run =>
      simp only [exec]
      split
      · refine ⟨fun L h => by simp at h, fun L h => by simp at h⟩
      · exact sh_unit _ (ih.hRaise gd _ _ _) _ _ (fun s' => ih.hExec gd (.resume p) .run s') (fun s' => by sh_lit0)
  | resumeNext p =>
    cases m with
    | seek _ => simp only [exec]; sh_lit0
    | run =>
      simp only [exec]
      split
      · refine ⟨fun L h => by simp at h, fun L h => by simp at h⟩
      · exact sh_unit _ (ih.hRaise gd _ _ _) _ _ (fun s' => ih.hExec gd (.resumeNext p) .run s') (fun s' => by sh_lit0)
  | resumeLabel L' p =>
    cases m with
    | seek _ => simp only [exec]; sh_lit0
    | run =>
      simp only [exec]
      split
      · refine ⟨fun L h => by simp at h, fun L h => ?_⟩
        simp only [Outcome.resumed.injEq, Resumed.label.injEq] at h
        subst h
        simp [shResS]
      · exact sh_unit _ (ih.hRaise gd _ _ _) _ _ (fun s' => ih.hExec gd (.resumeLabel L' p) .run s') (fun s' => by sh_lit0)
  | seq a b =>
    simp only [exec]
    split
    · refine sh_catch (Stmt.hasLabel (.seq a b)) (sh_hasLabel_iff _) (sh_shallow_sub _) _ ?_ _
        (fun L s' => ih.hExec gd (.seq a b) (.seek L) s')
      split
      · exact sh_then (Q := shGoodL P _ _ [] []) _ _ ((ih.hExec gd a m st).orig (by sh_mem) (by sh_mem))
          (fun s' => (ih.hExec gd b .run s').orig (by sh_mem) (by sh_mem))
      · exact (ih.hExec gd b m st).orig (by sh_mem) (by sh_mem)
    · sh_lit0
  | ifs c thn els p =>
    cases m with
    | run =>
      simp only [exec]
      split
      · refine sh_catch (Stmt.hasLabel (.ifs c thn els p)) (sh_hasLabel_iff _) (sh_shallow_sub _) _ ?_ _
          (fun L s' => ih.hExec gd (.ifs c thn els p) (.seek L) s')
        have hc := ih.hCond gd c true st
        generalize condUnit n P gd c true st = r at hc ⊢
        obtain ⟨s1, d⟩ := r
        cases d with
        | go bv =>
          cases bv with
          | true => exact (ih.hExec gd thn .run s1).orig (by sh_mem) (by sh_mem)
          | false => exact (ih.hExec gd els .run s1).orig (by sh_mem) (by sh_mem)
        | again => exact (ih.hExec gd (.ifs c thn els p) .run s1).orig (fun _ h => h) (fun _ h => h)
        | out o => exact sh_out (hc o rfl)
      · sh_lit0
    | seek L0 =>
      simp only [exec]
      split
      · refine sh_catch (Stmt.hasLabel (.ifs c thn els p)) (sh_hasLabel_iff _) (sh_shallow_sub _) _ ?_ _
          (fun L s' => ih.hExec gd (.ifs c thn els p) (.seek L) s')
        split
        · exact (ih.hExec gd thn _ st).orig (by sh_mem) (by sh_mem)
        · exact (ih.hExec gd els _ st).orig (by sh_mem) (by sh_mem)
      · sh_lit0
  | select e cases p =>
    cases m with
    | seek L0 => simp only [exec]; split <;> sh_lit0
    | run =>
      simp only [exec]
      split
      · sh_lit0
      · exact sh_unit _ (ih.hRaise gd _ _ _) _ _ (fun s' => ih.hExec gd (.select e cases p) .run s') (fun s' => by sh_lit0)
      · exact sh_catch cases.hasLabel (sh_hasLabelC_iff cases) (fun L h => by simp [shShallow] at h) _
          (ih.hExecCases gd p _ cases st) _ (fun L s' => ih.hSelectSeek gd cases L s')
  | forLoop x t lo hi step body p =>
    cases m with
    | seek L0 => simp only [exec]; split <;> sh_lit0
    | run =>
      simp only [exec]
      split
      · exact ih.hForIter ..
      · sh_lit0
      · exact sh_unit _ (ih.hRaise gd _ _ _) _ _ (fun s' => ih.hExec gd (.forLoop x t lo hi step body p) .run s')
          (fun s' => by sh_lit0)
  | «while» c body p =>
    have hbody : ∀ m s1, shGood P (.while c body p) (match exec n P gd body m s1 with
        | (s', .normal) => exec n P gd (.while c body p) .run s'
        | (s', .jump L) => if body.hasLabel L = true then exec n P gd (.while c body p) (.seek L) s' else (s', .jump L)
        | r => r).2 := fun m s1 =>
      sh_loop body.hasLabel (sh_hasLabel_iff body) (sh_shallow_sub body) _
        ((ih.hExec gd body m s1).orig (fun _ h => h) (fun _ h => h)) _
        (fun s' => ih.hExec gd (.while c body p) .run s') _ (fun L s' => ih.hExec gd (.while c body p) (.seek L) s')
    cases m with
    | seek L0 =>
      simp only [exec]
      split
      · exact hbody _ st
      · sh_lit0
    | run =>
      simp only [exec]
      split
      · have hc := ih.hCond gd c true st
        generalize condUnit n P gd c true st = r at hc ⊢
        obtain ⟨s1, d⟩ := r
        cases d with
        | go bv =>
          cases bv with
          | true => exact hbody _ s1
          | false => sh_lit0
        | again => exact ih.hExec gd (.while c body p) .run s1
        | out o =>
          have hh := sh_head (G := shGotosS (.while c body p)) (R := shResS (.while c body p)) body (sh_shallow_sub body) s1 o
            (hc o rfl) _ (fun L => ih.hExec gd (.while c body p) (.seek L) s1)
          cases o with
          | jump L => exact hh.1 L rfl
          | _ => exact hh.2 (by simp)
      · sh_lit0
  | doLoop c top until_ body p =>
    have hbody : ∀ m s1, shGood P (.doLoop c top until_ body p) (match exec n P gd body m s1 with
        | (s', .normal) => exec n P gd (.doLoop c top until_ body p) .run s'
        | (s', .jump L) =>
          if body.hasLabel L = true then exec n P gd (.doLoop c top until_ body p) (.seek L) s' else (s', .jump L)
        | r => r).2 := fun m s1 =>
      sh_loop body.hasLabel (sh_hasLabel_iff body) (sh_shallow_sub body) _
        ((ih.hExec gd body m s1).orig (fun _ h => h) (fun _ h => h)) _
        (fun s' => ih.hExec gd (.doLoop c top until_ body p) .run s') _
        (fun L s' => ih.hExec gd (.doLoop c top until_ body p) (.seek L) s')
    have hgo : ∀ (b : Bool) m s1, shGood P (.doLoop c top until_ body p)
        (if (b != until_) = true then
          (match exec n P gd body m s1 with
          | (s', .normal) => exec n P gd (.doLoop c top until_ body p) .run s'
          | (s', .jump L) =>
            if body.hasLabel L = true then exec n P gd (.doLoop c top until_ body p) (.seek L) s' else (s', .jump L)
          | r => r)
        else (s1, .normal)).2 := by
      intro b m s1
      split
      · exact hbody m s1
      · sh_lit0
    have hbot : ∀ m s1, shGood P (.doLoop c top until_ body p) (match exec n P gd body m s1 with
        | (s', .normal) => doBottom n P gd c until_ body p s'
        | (s', .jump L) =>
          if body.hasLabel L = true then exec n P gd (.doLoop c top until_ body p) (.seek L) s' else (s', .jump L)
        | r => r).2 := fun m s1 =>
      sh_loop body.hasLabel (sh_hasLabel_iff body) (sh_shallow_sub body) _
        ((ih.hExec gd body m s1).orig (fun _ h => h) (fun _ h => h)) _
        (fun s' => ih.hDoBottom gd c until_ body p s') _
        (fun L s' => ih.hExec gd (.doLoop c top until_ body p) (.seek L) s')
    cases m with
    | seek L0 =>
      simp only [exec]
      split
      · split
        · exact hgo _ _ st
        · exact hbot _ st
      · sh_lit0
    | run =>
      simp only [exec]
      split
      · split
        · have hc := ih.hCond gd c (!until_) st
          generalize condUnit n P gd c (!until_) st = r at hc ⊢
          obtain ⟨s1, d⟩ := r
          cases d with
          | go bv => exact hgo bv _ s1
          | again => exact ih.hExec gd (.doLoop c top until_ body p) .run s1
          | out o =>
            have hh := sh_head (G := shGotosS (.doLoop c top until_ body p)) (R := shResS (.doLoop c top until_ body p)) body
              (sh_shallow_sub body) s1 o (hc o rfl) _ (fun L => ih.hExec gd (.doLoop c top until_ body p) (.seek L) s1)
            cases o with
            | jump L => exact hh.1 L rfl
            | _ => exact hh.2 (by simp)
        · exact hbot _ st
      · sh_lit0

theorem shape_all (P : Stmt) : ∀ n, Shape P n
  | 0 => shape_zero P
  | n + 1 =>
    have ih := shape_all P n
    ⟨shape_exec ih, shape_raise ih, shape_cond ih, shape_doBottom ih, shape_execCases ih, shape_seekCases ih,
      shape_selectSeek ih, shape_forIter ih⟩

/-- **a jump that leaves a statement** comes from a GOTO inside it and names a label outside it, or comes from a
`RESUME label` of the program and names a label that is not a label of the statement outside its FOR bodies and SELECT
blocks -/
theorem jump_shape (fuel : Nat) (P : Stmt) (gd : Nat) (s : Stmt) (m : Mode) (st st' : ESt) (L : Nat)
    (h : exec fuel P gd s m st = (st', .jump L)) :
    (L ∈ shGotosS s ∧ L ∉ s.labels) ∨ (L ∈ shResS P ∧ L ∉ shShallow s) :=
  ((shape_all P fuel).hExec gd s m st).1 L (by rw [h])

/-- a `resumed (label L)` answered by a statement comes from a `RESUME L` inside it -/
theorem resumed_shape (fuel : Nat) (P : Stmt) (gd : Nat) (s : Stmt) (m : Mode) (st st' : ESt) (L : Nat)
    (h : exec fuel P gd s m st = (st', .resumed (.label L))) : L ∈ shResS s :=
  ((shape_all P fuel).hExec gd s m st).2 L (by rw [h])

/-! ### bridge to the faithful syntax and the static premise -/

mutual
theorem sh_gotos_desugar : ∀ (s : SStmt) (L : Nat), L ∈ shGotosS (desugar s) → L ∈ s.gotos
  | .seq a b, L, h => by
    simp only [desugar, shGotosS, List.mem_append] at h
    simp only [SStmt.gotos, List.mem_append]
    exact h.imp (sh_gotos_desugar a L) (sh_gotos_desugar b L)
  | .ifBlock c thn elifs hasElse els p, L, h => by
    simp only [desugar, shGotosS, List.mem_append] at h
    simp only [SStmt.gotos, List.mem_append]
    rcases h with h | h
    · exact .inl (sh_gotos_desugar thn L h)
    · rcases sh_gotos_desugarElifs elifs (desugar els) p L h with h | h
      · exact .inr (.inl h)
      · exact .inr (.inr (sh_gotos_desugar els L h))
  | .select sel cases hasElse els p, L, h => by
    simp only [desugar, shGotosS] at h
    simp only [SStmt.gotos, List.mem_append]
    rcases sh_gotos_desugarCases cases _ L h with h | h
    · exact .inl h
    · cases hasElse with
      | false => simp [shGotosC] at h
      | true => simp only [if_true, shGotosC] at h; exact .inr (sh_gotos_desugar els L h)
  | .forLoop _ _ _ _ _ body _, L, h => by
    simp only [desugar, shGotosS] at h; simp only [SStmt.gotos]; exact sh_gotos_desugar body L h
  | .while _ body _, L, h => by
    simp only [desugar, shGotosS] at h; simp only [SStmt.gotos]; exact sh_gotos_desugar body L h
  | .doLoop _ _ _ body _, L, h => by
    simp only [desugar, shGotosS] at h; simp only [SStmt.gotos]; exact sh_gotos_desugar body L h
  | .goto L' _, L, h => by simpa [desugar, shGotosS, SStmt.gotos] using h
  | .skip, _, h => by simp [desugar, shGotosS] at h
  | .comment, _, h => by simp [desugar, shGotosS] at h
  | .dim _ _ _, _, h => by simp [desugar, shGotosS] at h
  | .assign _ _ _ _, _, h => by simp [desugar, shGotosS] at h
  | .print _ _, _, h => by simp [desugar, shGotosS] at h
  | .data _ _, _, h => by simp [desugar, shGotosS] at h
  | .read _ _, _, h => by simp [desugar, shGotosS] at h
  | .end_ _, _, h => by simp [desugar, shGotosS] at h
  | .label _ _ _, _, h => by simp [desugar, shGotosS] at h
  | .gosub _ _, _, h => by simp [desugar, shGotosS] at h
  | .ret _, _, h => by simp [desugar, shGotosS] at h
  | .onErrorGoto _ _, _, h => by simp [desugar, shGotosS] at h
  | .onErrorResumeNext _, _, h => by simp [desugar, shGotosS] at h
  | .onErrorGoto0 _, _, h => by simp [desugar, shGotosS] at h
  | .resume _, _, h => by simp [desugar, shGotosS] at h
  | .resumeNext _, _, h => by simp [desugar, shGotosS] at h
  | .resumeLabel _ _, _, h => by simp [desugar, shGotosS] at h
theorem sh_gotos_desugarElifs : ∀ (el : ElseIfs) (els : Stmt) (p : Pos) (L : Nat),
    L ∈ shGotosS (desugarElifs el els p) → L ∈ el.gotos ∨ L ∈ shGotosS els
  | .nil, _, _, _, h => by simp only [desugarElifs] at h; exact .inr h
  | .cons c body rest, els, p, L, h => by
    simp only [desugarElifs, shGotosS, List.mem_append] at h
    simp only [ElseIfs.gotos, List.mem_append]
    rcases h with h | h
    · exact .inl (.inl (sh_gotos_desugar body L h))
    · rcases sh_gotos_desugarElifs rest els p L h with h | h
      · exact .inl (.inr h)
      · exact .inr h
theorem sh_gotos_desugarCases : ∀ (cs : SCases) (tail : Cases) (L : Nat),
    L ∈ shGotosC (desugarCases cs tail) → L ∈ cs.gotos ∨ L ∈ shGotosC tail
  | .nil, _, _, h => by simp only [desugarCases] at h; exact .inr h
  | .cons conds body rest, tail, L, h => by
    simp only [desugarCases, shGotosC, List.mem_append] at h
    simp only [SCases.gotos, List.mem_append]
    rcases h with h | h
    · exact .inl (.inl (sh_gotos_desugar body L h))
    · rcases sh_gotos_desugarCases rest tail L h with h | h
      · exact .inl (.inr h)
      · exact .inr h
end

mutual
/-- **static lemma**: a `RESUME label` inside a well-formed statement names a label at depth 0 / 0 -/
theorem sh_res_depths (sl : List Ty) (dp : Dp) (rl : Bool) : ∀ (s : SStmt) (d e L : Nat), Wf sl dp rl d e s →
    L ∈ shResS (desugar s) → dp.fd L = 0 ∧ dp.sd L = 0
  | .seq a b, d, e, L, hw, h => by
    simp only [desugar, shResS, List.mem_append] at h
    rcases h with h | h
    · exact sh_res_depths sl dp rl a d e L hw.1 h
    · exact sh_res_depths sl dp rl b d e L hw.2 h
  | .ifBlock c thn elifs hasElse els p, d, e, L, hw, h => by
    obtain ⟨_, _, h1, h2, h3, _⟩ := hw
    simp only [desugar, shResS, List.mem_append] at h
    rcases h with h | h
    · exact sh_res_depths sl dp rl thn d e L h1 h
    · rcases sh_res_depths_elifs sl dp rl elifs d e L h2 (desugar els) p h with h | h
      · exact h
      · exact sh_res_depths sl dp rl els d e L h3 h
  | .select sel cases hasElse els p, d, e, L, hw, h => by
    obtain ⟨_, h1, h2, _, _⟩ := hw
    simp only [desugar, shResS] at h
    rcases sh_res_depths_cases sl dp rl cases d (e + 1) L h1 _ h with h | h
    · exact h
    · cases hasElse with
      | false => simp [shResC] at h
      | true => simp only [if_true, shResC] at h; exact sh_res_depths sl dp rl els d (e + 1) L h2 h
  | .forLoop _ _ _ _ _ body _, d, e, L, hw, h => by
    simp only [desugar, shResS] at h; exact sh_res_depths sl dp rl body (d + 1) e L hw.2.2.2.2.2.1 h
  | .while _ body _, d, e, L, hw, h => by
    simp only [desugar, shResS] at h; exact sh_res_depths sl dp rl body d e L hw.2.2 h
  | .doLoop _ _ _ body _, d, e, L, hw, h => by
    simp only [desugar, shResS] at h; exact sh_res_depths sl dp rl body d e L hw.2.2 h
  | .resumeLabel L' _, d, e, L, hw, h => by
    simp only [desugar, shResS, List.mem_singleton] at h
    subst h; exact ⟨hw.1, hw.2.1⟩
  | .skip, _, _, _, _, h => by simp [desugar, shResS] at h
  | .comment, _, _, _, _, h => by simp [desugar, shResS] at h
  | .dim _ _ _, _, _, _, _, h => by simp [desugar, shResS] at h
  | .assign _ _ _ _, _, _, _, _, h => by simp [desugar, shResS] at h
  | .print _ _, _, _, _, _, h => by simp [desugar, shResS] at h
  | .data _ _, _, _, _, _, h => by simp [desugar, shResS] at h
  | .read _ _, _, _, _, _, h => by simp [desugar, shResS] at h
  | .end_ _, _, _, _, _, h => by simp [desugar, shResS] at h
  | .label _ _ _, _, _, _, _, h => by simp [desugar, shResS] at h
  | .goto _ _, _, _, _, _, h => by simp [desugar, shResS] at h
  | .gosub _ _, _, _, _, _, h => by simp [desugar, shResS] at h
  | .ret _, _, _, _, _, h => by simp [desugar, shResS] at h
  | .onErrorGoto _ _, _, _, _, _, h => by simp [desugar, shResS] at h
  | .onErrorResumeNext _, _, _, _, _, h => by simp [desugar, shResS] at h
  | .onErrorGoto0 _, _, _, _, _, h => by simp [desugar, shResS] at h
  | .resume _, _, _, _, _, h => by simp [desugar, shResS] at h
  | .resumeNext _, _, _, _, _, h => by simp [desugar, shResS] at h
theorem sh_res_depths_elifs (sl : List Ty) (dp : Dp) (rl : Bool) : ∀ (el : ElseIfs) (d e L : Nat), WfElifs sl dp rl d e el →
    ∀ (els : Stmt) (p : Pos), L ∈ shResS (desugarElifs el els p) → (dp.fd L = 0 ∧ dp.sd L = 0) ∨ L ∈ shResS els
  | .nil, _, _, _, _, _, _, h => by simp only [desugarElifs] at h; exact .inr h
  | .cons c body rest, d, e, L, hw, els, p, h => by
    obtain ⟨_, _, h1, h2⟩ := hw
    simp only [desugarElifs, shResS, List.mem_append] at h
    rcases h with h | h
    · exact .inl (sh_res_depths sl dp rl body d e L h1 h)
    · exact sh_res_depths_elifs sl dp rl rest d e L h2 els p h
theorem sh_res_depths_cases (sl : List Ty) (dp : Dp) (rl : Bool) : ∀ (cs : SCases) (d e L : Nat), WfCases sl dp rl d e cs →
    ∀ (tail : Cases), L ∈ shResC (desugarCases cs tail) → (dp.fd L = 0 ∧ dp.sd L = 0) ∨ L ∈ shResC tail
  | .nil, _, _, _, _, _, h => by simp only [desugarCases] at h; exact .inr h
  | .cons conds body rest, d, e, L, hw, tail, h => by
    obtain ⟨_, _, _, h1, h2⟩ := hw
    simp only [desugarCases, shResC, List.mem_append] at h
    rcases h with h | h
    · exact .inl (sh_res_depths sl dp rl body d e L h1 h)
    · exact sh_res_depths_cases sl dp rl rest d e L h2 tail h
end

mutual
/-- **static lemma**: a GOTO inside a well-formed statement whose label is outside it names a label that is not deeper
than the statement -/
theorem sh_goto_depths (sl : List Ty) (dp : Dp) (rl : Bool) : ∀ (s : SStmt) (d e L : Nat), Wf sl dp rl d e s → L ∈ s.gotos →
    L ∉ s.labels → dp.fd L ≤ d ∧ dp.sd L ≤ e
  | .seq a b, d, e, L, hw, hg, hl => by
    simp only [SStmt.gotos, List.mem_append] at hg
    simp only [SStmt.labels, List.mem_append, not_or] at hl
    rcases hg with hg | hg
    · exact sh_goto_depths sl dp rl a d e L hw.1 hg hl.1
    · exact sh_goto_depths sl dp rl b d e L hw.2 hg hl.2
  | .ifBlock c thn elifs hasElse els p, d, e, L, hw, hg, hl => by
    obtain ⟨_, _, h1, h2, h3, _⟩ := hw
    simp only [SStmt.gotos, List.mem_append] at hg
    simp only [SStmt.labels, List.mem_append, not_or] at hl
    rcases hg with hg | hg | hg
    · exact sh_goto_depths sl dp rl thn d e L h1 hg hl.1
    · exact sh_goto_depths_elifs sl dp rl elifs d e L h2 hg hl.2.1
    · exact sh_goto_depths sl dp rl els d e L h3 hg hl.2.2
  | .select sel cases hasElse els p, d, e, L, hw, hg, hl => by
    obtain ⟨_, h1, h2, _, h4⟩ := hw
    simp only [SStmt.gotos] at hg
    simp only [SStmt.labels] at hl
    have hsd : dp.sd L ≤ e := by
      rcases h4 L hg with h | h
      · exact absurd h hl
      · exact h
    simp only [List.mem_append] at hg
    simp only [List.mem_append, not_or] at hl
    rcases hg with hg | hg
    · exact ⟨(sh_goto_depths_cases sl dp rl cases d (e + 1) L h1 hg hl.1).1, hsd⟩
    · exact ⟨(sh_goto_depths sl dp rl els d (e + 1) L h2 hg hl.2).1, hsd⟩
  | .forLoop x t lo hi step body p, d, e, L, hw, hg, hl => by
    obtain ⟨_, _, _, _, _, h1, h2, _⟩ := hw
    simp only [SStmt.gotos] at hg
    simp only [SStmt.labels] at hl
    have hfd : dp.fd L ≤ d := by
      rcases h2 L hg with h | h
      · exact absurd h hl
      · exact h
    exact ⟨hfd, (sh_goto_depths sl dp rl body (d + 1) e L h1 hg hl).2⟩
  | .while c body p, d, e, L, hw, hg, hl => sh_goto_depths sl dp rl body d e L hw.2.2 hg hl
  | .doLoop c top u body p, d, e, L, hw, hg, hl => sh_goto_depths sl dp rl body d e L hw.2.2 hg hl
  | .goto L' p, d, e, L, hw, hg, hl => by
    simp only [SStmt.gotos, List.mem_singleton] at hg
    subst hg; exact hw
  | .skip, _, _, _, _, hg, _ => by simp [SStmt.gotos] at hg
  | .comment, _, _, _, _, hg, _ => by simp [SStmt.gotos] at hg
  | .dim _ _ _, _, _, _, _, hg, _ => by simp [SStmt.gotos] at hg
  | .assign _ _ _ _, _, _, _, _, hg, _ => by simp [SStmt.gotos] at hg
  | .print _ _, _, _, _, _, hg, _ => by simp [SStmt.gotos] at hg
  | .data _ _, _, _, _, _, hg, _ => by simp [SStmt.gotos] at hg
  | .read _ _, _, _, _, _, hg, _ => by simp [SStmt.gotos] at hg
  | .end_ _, _, _, _, _, hg, _ => by simp [SStmt.gotos] at hg
  | .label _ _ _, _, _, _, _, hg, _ => by simp [SStmt.gotos] at hg
  | .gosub _ _, _, _, _, _, hg, _ => by simp [SStmt.gotos] at hg
  | .ret _, _, _, _, _, hg, _ => by simp [SStmt.gotos] at hg
  | .onErrorGoto _ _, _, _, _, _, hg, _ => by simp [SStmt.gotos] at hg
  | .onErrorResumeNext _, _, _, _, _, hg, _ => by simp [SStmt.gotos] at hg
  | .onErrorGoto0 _, _, _, _, _, hg, _ => by simp [SStmt.gotos] at hg
  | .resume _, _, _, _, _, hg, _ => by simp [SStmt.gotos] at hg
  | .resumeNext _, _, _, _, _, hg, _ => by simp [SStmt.gotos] at hg
  | .resumeLabel _ _, _, _, _, _, hg, _ => by simp [SStmt.gotos] at hg
theorem sh_goto_depths_elifs (sl : List Ty) (dp : Dp) (rl : Bool) : ∀ (el : ElseIfs) (d e L : Nat), WfElifs sl dp rl d e el →
    L ∈ el.gotos → L ∉ el.labels → dp.fd L ≤ d ∧ dp.sd L ≤ e
  | .nil, _, _, _, _, hg, _ => by simp [ElseIfs.gotos] at hg
  | .cons c body rest, d, e, L, hw, hg, hl => by
    obtain ⟨_, _, h1, h2⟩ := hw
    simp only [ElseIfs.gotos, List.mem_append] at hg
    simp only [ElseIfs.labels, List.mem_append, not_or] at hl
    rcases hg with hg | hg
    · exact sh_goto_depths sl dp rl body d e L h1 hg hl.1
    · exact sh_goto_depths_elifs sl dp rl rest d e L h2 hg hl.2
theorem sh_goto_depths_cases (sl : List Ty) (dp : Dp) (rl : Bool) : ∀ (cs : SCases) (d e L : Nat), WfCases sl dp rl d e cs →
    L ∈ cs.gotos → L ∉ cs.labels → dp.fd L ≤ d ∧ dp.sd L ≤ e
  | .nil, _, _, _, _, hg, _ => by simp [SCases.gotos] at hg
  | .cons conds body rest, d, e, L, hw, hg, hl => by
    obtain ⟨_, _, _, h1, h2⟩ := hw
    simp only [SCases.gotos, List.mem_append] at hg
    simp only [SCases.labels, List.mem_append, not_or] at hl
    rcases hg with hg | hg
    · exact sh_goto_depths sl dp rl body d e L h1 hg hl.1
    · exact sh_goto_depths_cases sl dp rl rest d e L h2 hg hl.2
end

mutual
/-- a label of a statement is a label outside its FOR bodies and SELECT blocks, or it is recorded strictly deeper than the
statement -/
theorem sh_deep : ∀ (s : SStmt) (d e L : Nat), L ∈ s.labels →
    L ∈ shShallow (desugar s) ∨ ∃ d' e', (L, d', e') ∈ depthTable d e s ∧ (d < d' ∨ e < e')
  | .seq a b, d, e, L, h => by
    simp only [SStmt.labels, List.mem_append] at h
    simp only [desugar, shShallow, depthTable, List.mem_append]
    rcases h with h | h
    · rcases sh_deep a d e L h with h | ⟨d', e', hm, hd⟩
      · exact .inl (.inl h)
      · exact .inr ⟨d', e', .inl hm, hd⟩
    · rcases sh_deep b d e L h with h | ⟨d', e', hm, hd⟩
      · exact .inl (.inr h)
      · exact .inr ⟨d', e', .inr hm, hd⟩
  | .ifBlock c thn elifs hasElse els p, d, e, L, h => by
    simp only [SStmt.labels, List.mem_append] at h
    simp only [desugar, shShallow, depthTable, List.mem_append]
    rcases h with h | h | h
    · rcases sh_deep thn d e L h with h | ⟨d', e', hm, hd⟩
      · exact .inl (.inl h)
      · exact .inr ⟨d', e', .inl (.inl hm), hd⟩
    · rcases sh_deep_elifs elifs d e L (desugar els) p h with h | ⟨d', e', hm, hd⟩
      · exact .inl (.inr h)
      · exact .inr ⟨d', e', .inl (.inr hm), hd⟩
    · rcases sh_deep els d e L h with h | ⟨d', e', hm, hd⟩
      · exact .inl (.inr (sh_shallow_elifs elifs (desugar els) p L h))
      · exact .inr ⟨d', e', .inr hm, hd⟩
  | .select sel cases hasElse els p, d, e, L, h => by
    simp only [SStmt.labels, List.mem_append] at h
    simp only [depthTable, List.mem_append]
    rcases h with h | h
    · obtain ⟨d', e', hm, h1, h2⟩ := depth_of_label_cases cases d (e + 1) L h
      exact .inr ⟨d', e', .inl hm, .inr (by omega)⟩
    · obtain ⟨d', e', hm, h1, h2⟩ := depth_of_label els d (e + 1) L h
      exact .inr ⟨d', e', .inr hm, .inr (by omega)⟩
  | .forLoop _ _ _ _ _ body _, d, e, L, h => by
    simp only [SStmt.labels] at h
    simp only [depthTable]
    obtain ⟨d', e', hm, h1, h2⟩ := depth_of_label body (d + 1) e L h
    exact .inr ⟨d', e', hm, .inl (by omega)⟩
  | .while _ body _, d, e, L, h => by
    simp only [SStmt.labels] at h
    simp only [desugar, shShallow, depthTable]
    exact sh_deep body d e L h
  | .doLoop _ _ _ body _, d, e, L, h => by
    simp only [SStmt.labels] at h
    simp only [desugar, shShallow, depthTable]
    exact sh_deep body d e L h
  | .label L' _ _, d, e, L, h => by
    simp only [SStmt.labels, List.mem_singleton] at h
    subst h
    exact .inl (by simp [desugar, shShallow])
  | .skip, _, _, _, h => by simp [SStmt.labels] at h
  | .comment, _, _, _, h => by simp [SStmt.labels] at h
  | .dim .., _, _, _, h => by simp [SStmt.labels] at h
  | .assign .., _, _, _, h => by simp [SStmt.labels] at h
  | .print .., _, _, _, h => by simp [SStmt.labels] at h
  | .data .., _, _, _, h => by simp [SStmt.labels] at h
  | .read .., _, _, _, h => by simp [SStmt.labels] at h
  | .end_ .., _, _, _, h => by simp [SStmt.labels] at h
  | .goto .., _, _, _, h => by simp [SStmt.labels] at h
  | .gosub .., _, _, _, h => by simp [SStmt.labels] at h
  | .ret .., _, _, _, h => by simp [SStmt.labels] at h
  | .onErrorGoto .., _, _, _, h => by simp [SStmt.labels] at h
  | .onErrorResumeNext .., _, _, _, h => by simp [SStmt.labels] at h
  | .onErrorGoto0 .., _, _, _, h => by simp [SStmt.labels] at h
  | .resume .., _, _, _, h => by simp [SStmt.labels] at h
  | .resumeNext .., _, _, _, h => by simp [SStmt.labels] at h
  | .resumeLabel .., _, _, _, h => by simp [SStmt.labels] at h
theorem sh_deep_elifs : ∀ (el : ElseIfs) (d e L : Nat) (els : Stmt) (p : Pos), L ∈ el.labels →
    L ∈ shShallow (desugarElifs el els p) ∨ ∃ d' e', (L, d', e') ∈ depthElifs d e el ∧ (d < d' ∨ e < e')
  | .nil, _, _, _, _, _, h => by simp [ElseIfs.labels] at h
  | .cons c body rest, d, e, L, els, p, h => by
    simp only [ElseIfs.labels, List.mem_append] at h
    simp only [desugarElifs, shShallow, depthElifs, List.mem_append]
    rcases h with h | h
    · rcases sh_deep body d e L h with h | ⟨d', e', hm, hd⟩
      · exact .inl (.inl h)
      · exact .inr ⟨d', e', .inl hm, hd⟩
    · rcases sh_deep_elifs rest d e L els p h with h | ⟨d', e', hm, hd⟩
      · exact .inl (.inr h)
      · exact .inr ⟨d', e', .inr hm, hd⟩
theorem sh_shallow_elifs : ∀ (el : ElseIfs) (els : Stmt) (p : Pos) (L : Nat), L ∈ shShallow els →
    L ∈ shShallow (desugarElifs el els p)
  | .nil, _, _, _, h => by simpa only [desugarElifs] using h
  | .cons c body rest, els, p, L, h => by
    simp only [desugarElifs, shShallow, List.mem_append]
    exact .inr (sh_shallow_elifs rest els p L h)
end

/-- **the label of a jump that leaves a well-formed statement whose labels have their recorded depths is not inside the
statement and not deeper than it** (`JumpShape C`, the field `Ctx.Ok.shape`), given that the program body is well-formed (its
`RESUME label` statements name labels at depth 0 / 0) -/
theorem jump_shape_lab {C : Ctx} (hwf : Wf C.sl C.env.dp C.rl 0 0 C.B) : JumpShape C := by
  intro stmt d e fuel gd m s s' L hw hdep h
  rcases jump_shape fuel C.P gd _ m s s' L h with ⟨hg, hl⟩ | ⟨hres, hsh⟩
  · rw [labels_desugar C.sl C.env.dp C.rl stmt d e hw] at hl
    exact ⟨hl, sh_goto_depths C.sl C.env.dp C.rl stmt d e L hw (sh_gotos_desugar stmt L hg) hl⟩
  · obtain ⟨h1, h2⟩ := sh_res_depths C.sl C.env.dp C.rl C.B 0 0 L hwf hres
    refine ⟨fun hin => ?_, by omega, by omega⟩
    rcases sh_deep stmt d e L hin with hs | ⟨d', e', hm, hd⟩
    · exact hsh hs
    · obtain ⟨g1, g2⟩ := hdep L d' e' hm
      omega

end RbThm.ErrLSim
