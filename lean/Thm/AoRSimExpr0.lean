import Thm.AoRSimExprHyp
/-!
Layer AoR (port of the records-layer file `Thm/RecLSimExpr0.lean`), simulation part — the expression cases: literal, variable with a (possibly empty) field path
`v`, `v.f`, `v.f.g` (`VarPathName · VarPathProperty… · CopyVarPathToA · PopVarPath`; the value — a scalar or a whole
record — ends up in A), unary and binary operators, parentheses (ports of `Thm/ArrLSimExpr.lean`); they carry no
`[ExprOk]` argument.  The structural induction that puts them together with the array cases is `expr_correct_real` of
`Thm/AoRSimExpr.lean`; the primed wrappers at the end take the expression theorem as the instance argument `[ExprOk]`.
`path_steps` (building a path on the path stack) is shared with the assignment case; `props_steps` (the field steps,
over any root and subscripts) with the element cases.
-/
namespace RbThm.AoRSim
set_option linter.unusedVariables false
set_option linter.unusedSimpArgs false
open RbModel RbModel.Num RbModel.AoR RbModel.AoR.Compile RbModel.AoR.Vm
open RbModel.Ast (Pos)
open RbModel.RecL (ETy FTy FFields expand zeroOf)
open RbModel.RecL.Vm (allocTy defaultVar)
open RbThm.AoRLen RbThm.ArrLNum RbThm.RecLTy RbThm.AoRTy

theorem case_lit (code : Code) (sc : Scope) (v : Val) (p : Pos) : RvSpec code sc (.lit v p) := by
  intro off s σ hc hpc hr hw
  simp only [compileExpr] at hc
  have h0 : code[σ.pc]? = some (CInstr.loadA v, p) := by rw [hpc]; exact hc.head
  simp only [AoR.Ref.eval, RvPost, compileExpr, List.length_singleton]
  refine ⟨Vm.advance (Vm.setA σ v), Steps.one ?_, by simp [Vm.advance, Vm.setA, hpc],
    by simp [Vm.advance, Vm.setA, ValRel, RecL.Spec.ValRel], (hr.setA v).advance, ⟨rfl, rfl, rfl, rfl, rfl, id⟩⟩
  simp only [Vm.step, h0]

/-- the state after the `VarPathProperty` instructions of `path`, the path on top of the stack being `⟨x, ix, pre⟩`
(`x` a variable or an array, `ix` the subscripts appended so far) -/
def propsSt (σ : Vm) (x : Root) (ix : List Int) (pre path : List String) (rest : List Path) : Vm :=
  { σ with pc := σ.pc + path.length, paths := ⟨x, ix, pre ++ path⟩ :: rest }

theorem props_steps (code : Code) (x : Root) (ix : List Int) (p : Pos) :
    ∀ (path pre : List String) (rest : List Path) (σ : Vm),
    CodeAt code σ.pc (path.map fun f => (CInstr.prop f, p)) → σ.paths = ⟨x, ix, pre⟩ :: rest →
    Steps code σ (propsSt σ x ix pre path rest)
  | [], pre, rest, σ, _, hp => by
    have : propsSt σ x ix pre [] rest = σ := by
      unfold propsSt
      cases σ
      simp at hp ⊢
      exact hp.symm
    rw [this]; exact Steps.refl σ
  | f :: path, pre, rest, σ, hc, hp => by
    simp only [List.map_cons] at hc
    have h0 : code[σ.pc]? = some (CInstr.prop f, p) := hc.head
    let σ1 : Vm := Vm.advance { σ with paths := ⟨x, ix, pre ++ [f]⟩ :: rest }
    have s1 : Vm.step code σ = .next σ1 := by simp only [Vm.step, h0, hp]; rfl
    have ih := props_steps code x ix p path (pre ++ [f]) rest σ1 hc.tail rfl
    have e : propsSt σ1 x ix (pre ++ [f]) path rest = propsSt σ x ix pre (f :: path) rest := by
      simp only [propsSt, σ1, Vm.advance, List.length_cons, List.append_assoc, List.singleton_append]
      congr 1; omega
    rw [e] at ih
    exact Steps.cons s1 ih

/-- the state after `VarPathName x · VarPathProperty f1 · … · VarPathProperty fk` -/
def pathSt (σ : Vm) (x : Nat) (path : List String) : Vm :=
  { σ with pc := σ.pc + (1 + path.length), paths := ⟨.var x, [], path⟩ :: σ.paths }

/-- `generate_path_instructions`: the path `x.f1.….fk` is pushed onto the path stack; nothing else changes -/
theorem path_steps (code : Code) (x : Nat) (path : List String) (p : Pos) (σ : Vm)
    (hc : CodeAt code σ.pc (compilePath x path p)) : Steps code σ (pathSt σ x path) := by
  simp only [compilePath] at hc
  have h0 : code[σ.pc]? = some (CInstr.varPath x, p) := hc.head
  let σ1 : Vm := Vm.advance { σ with paths := ⟨.var x, [], []⟩ :: σ.paths }
  have s1 : Vm.step code σ = .next σ1 := by simp only [Vm.step, h0]; rfl
  have st := props_steps code (.var x) [] p path [] σ.paths σ1 hc.tail rfl
  have e : propsSt σ1 (.var x) [] [] path σ.paths = pathSt σ x path := by
    simp only [propsSt, pathSt, σ1, Vm.advance, List.nil_append]
    congr 1; omega
  rw [e] at st
  exact Steps.cons s1 st

theorem Rel.pathSt {sc : Scope} {s : St} {σ : Vm} (h : Rel sc s σ) (x : Nat) (path : List String) :
    Rel sc s (pathSt σ x path) := h.same rfl rfl rfl rfl rfl rfl rfl rfl

/-- a variable or a field: the path is built, `CopyVarPathToA` reads the tree along it, `PopVarPath` drops it -/
theorem case_var (code : Code) (sc : Scope) (x : Nat) (path : List String) (t : ETy) (p : Pos) :
    RvSpec code sc (.var x path t p) := by
  intro off s σ hc hpc hr hw
  simp only [EWf, AoRTy.ExprTyped] at hw
  obtain ⟨st, root, ft, h1, h2, h3, h4⟩ := hw
  simp only [compileExpr] at hc
  have hlen : (compileExpr (.var x path t p)).length = 1 + path.length + 2 := by
    simp only [compileExpr, List.length_append, len_path, List.length_cons, List.length_nil]
  rw [hlen]
  simp only [AoR.Ref.eval]
  rcases hr.vars.at_ x st h1 with ⟨e1, _⟩ | ⟨rv, w, e1, e2, e3⟩
  · simp only [e1, RvPost]
  · simp only [e1]
    have hty := envTyped_lookup hr.typed h1 h2 e1
    obtain ⟨v', w', g1, g2, g3, g4⟩ := RbThm.RecLSim.path_get_rel hr.twf path root ft rv w (tyIn_expand h2) hty e3 h3
    simp only [g1, RvPost]
    have hcp : CodeAt code σ.pc (compilePath x path p) := by rw [hpc]; exact hc.append_left
    have st1 := path_steps code x path p σ hcp
    have hcv : code[σ.pc + (1 + path.length)]? = some (CInstr.copyVarPathToA, p) := by
      have := hc.append_right.head
      simp only [len_path] at this
      rw [hpc]; exact this
    have hpop : code[σ.pc + (1 + path.length) + 1]? = some (CInstr.popVarPath, p) := by
      have := hc.append_right.tail.head
      simp only [len_path] at this
      rw [hpc]; exact this
    let τ1 : Vm := Vm.advance (Vm.setRA (pathSt σ x path) w')
    have s2 : Vm.step code (pathSt σ x path) = .next τ1 := by
      have hrd : readPath (pathSt σ x path) ⟨.var x, [], path⟩ = .ok w' := by
        have g2' : ArrPath.getAt w (path.map fun f => ArrPath.Step.fld f.toList) = some w' := g2
        simp only [readPath, pathSt, e2, Path.flds, g2']
      simp only [pathSt] at hrd ⊢
      simp only [Vm.step, hcv, hrd]; rfl
    have s3 : Vm.step code τ1 = .next (Vm.advance { τ1 with paths := σ.paths }) := by
      simp only [Vm.step, τ1, Vm.advance, Vm.setRA, hpop, pathSt]
    refine ⟨_, st1.trans (Steps.cons s2 (Steps.one s3)), ?_, g3, hr.same rfl rfl rfl rfl rfl rfl rfl rfl,
      ⟨rfl, rfl, rfl, rfl, rfl, id⟩⟩
    simp only [τ1, Vm.advance, Vm.setRA, pathSt, hpc]; omega

/-- an instruction that rewrites A by a `Res`-valued operation, after an expression whose value is in A -/
theorem after_resA (code : Code) (sc : Scope) (σ τ : Vm) (s : St) (p : Pos)
    (r : Res Val) (n : Nat) (off : Nat) (st : Steps code σ τ) (hp : τ.pc = off + n)
    (hrel : Rel sc s τ) (hss : SameStacks σ τ) (hs : Vm.step code τ = Vm.resA τ p r) :
    RvPost code sc (n + 1) off s σ ((RecL.Ref.lift p r).bind fun w => .ok (.sc w)) := by
  cases hr : r with
  | ok w =>
    simp only [RecL.Ref.lift, RecL.Ref.ERes.bind, RvPost]
    exact ⟨_, st.trans (resA_ok hs hr), by simp [Vm.advance, Vm.setA, hp]; omega,
      by simp [Vm.advance, Vm.setA, ValRel, RecL.Spec.ValRel], (hrel.setA w).advance,
      hss.trans ⟨rfl, rfl, rfl, rfl, rfl, id⟩⟩
  | err e =>
    simp only [RecL.Ref.lift, RecL.Ref.ERes.bind, RvPost]
    rw [← hrel.out]
    exact ErrsWith.of_steps st (resA_err hs hr)
  | inexact => simp only [RecL.Ref.lift, RecL.Ref.ERes.bind, RvPost]

theorem case_un (code : Code) (sc : Scope) (op : UnOp) (e : AoR.Expr) (p : Pos) (hE : RvSpec code sc e) :
    RvSpec code sc (.un op e p) := by
  intro off s σ hc hpc hr hw
  simp only [EWf, AoRTy.ExprTyped] at hw
  have hce : CodeAt code off (compileExpr e) := by
    cases op <;> (simp only [compileExpr] at hc; exact hc.append_left)
  have he := hE off s σ hce hpc hr hw.1
  cases op with
  | neg =>
    simp only [compileExpr] at hc
    simp only [AoR.Ref.eval, compileExpr, List.length_append, List.length_singleton]
    generalize AoR.Ref.eval s.env s.arrs e = r at he ⊢
    cases r with
    | err c q => exact he
    | inexact => trivial
    | illFormed => trivial
    | ok v =>
      cases v with
      | udt fs => trivial
      | sc a =>
        obtain ⟨τ, st, hp, ha, hrel, hss⟩ := he
        simp only [ValRel, RecL.Spec.ValRel] at ha
        have hi : code[τ.pc]? = some (CInstr.negateA, p) := by
          have := hc.append_right.head
          rw [hp]; exact this
        simp only [RecL.Ref.ERes.bind, RecL.Ref.asScalar]
        refine after_resA code sc σ τ s p (negate a) _ off st hp hrel hss ?_
        simp only [Vm.step, hi, onA, ha]
  | not =>
    simp only [compileExpr] at hc
    simp only [AoR.Ref.eval, compileExpr, List.length_append, List.length_singleton]
    generalize AoR.Ref.eval s.env s.arrs e = r at he ⊢
    cases r with
    | err c q => exact he
    | inexact => trivial
    | illFormed => trivial
    | ok v =>
      cases v with
      | udt fs => trivial
      | sc a =>
        obtain ⟨τ, st, hp, ha, hrel, hss⟩ := he
        simp only [ValRel, RecL.Spec.ValRel] at ha
        have hi : code[τ.pc]? = some (CInstr.notA, p) := by
          have := hc.append_right.head
          rw [hp]; exact this
        simp only [RecL.Ref.ERes.bind, RecL.Ref.asScalar]
        refine after_resA code sc σ τ s p (unaryNot a) _ off st hp hrel hss ?_
        simp only [Vm.step, hi, onA, ha]

theorem case_paren (code : Code) (sc : Scope) (e : AoR.Expr) (p : Pos) (hE : RvSpec code sc e) :
    RvSpec code sc (.paren e p) := by
  intro off s σ hc hpc hr hw
  simp only [EWf, AoRTy.ExprTyped] at hw
  simp only [compileExpr] at hc
  simp only [AoR.Ref.eval, compileExpr]
  exact hE off s σ hc hpc hr hw

/-- `binStep` of the reference semantics is the VM's operator instruction followed, for `/`, by the `Cast` the generator
emits -/
theorem binStep_eq (op : Op) (t : Ty) (a b : Val) :
    AoR.Ref.binStep op t a b =
      (if op = .divide then (Vm.binInstr op a b).bind (fun q => cast q t) else Vm.binInstr op a b) := by
  cases op <;> simp [AoR.Ref.binStep, RbModel.Ref.binStep, Vm.binInstr]

/-- the operator tail of a binary expression: `CopyAToB; PopValueStackIntoA; <op>; [Cast t]` -/
theorem bin_tail (code : Code) (op : Op) (t : Ty) (p : Pos) (q : Nat) (τ : Vm) (a bv : Val) (vs : List RV)
    (hc : CodeAt code q ([(CInstr.copyAToB, p), (CInstr.popA, p), (CInstr.bin op, p)] ++
      (if op = .divide then [(CInstr.cast t, p)] else [])))
    (hpc : τ.pc = q) (ha : τ.regs.a = .leaf bv) (hv : τ.vals = .leaf a :: vs) :
    match AoR.Ref.binStep op t a bv with
    | .ok w => Steps code τ { τ with pc := q + 3 + (if op = .divide then 1 else 0),
                                      regs := { τ.regs with a := .leaf w, b := bv }, vals := vs }
    | .err e => ErrsWith code τ (AoR.Ref.codeOf e) p τ.out
    | .inexact => True := by
  have h0 : code[τ.pc]? = some (CInstr.copyAToB, p) := by rw [hpc]; exact hc.append_left.head
  have h1 : code[τ.pc + 1]? = some (CInstr.popA, p) := by rw [hpc]; exact hc.append_left.tail.head
  have h2 : code[τ.pc + 1 + 1]? = some (CInstr.bin op, p) := by rw [hpc]; exact hc.append_left.tail.tail.head
  let τ1 : Vm := Vm.advance { τ with regs := { τ.regs with a := .leaf bv, b := bv } }
  let τ2 : Vm := Vm.advance { Vm.setRA τ1 (.leaf a) with vals := vs }
  have s1 : Vm.step code τ = .next τ1 := by simp only [Vm.step, h0, onA, ha]; rfl
  have s2 : Vm.step code τ1 = .next τ2 := by
    simp only [Vm.step, τ1, Vm.advance, h1, hv]; rfl
  have s3 : Vm.step code τ2 = Vm.resA τ2 p (Vm.binInstr op a bv) := by
    simp only [Vm.step, τ2, τ1, Vm.advance, Vm.setRA, h2, onA]
  have st : Steps code τ τ2 := Steps.cons s1 (Steps.one s2)
  rw [binStep_eq]
  by_cases hd : op = .divide
  · simp only [hd, if_true] at hc ⊢
    have h3 : code[τ.pc + 1 + 1 + 1]? = some (CInstr.cast t, p) := by
      rw [hpc]; exact hc.append_right.head
    subst hd
    cases hb : Vm.binInstr .divide a bv with
    | ok qv =>
      let τ3 : Vm := Vm.advance (Vm.setA τ2 qv)
      have s3' : Vm.step code τ2 = .next τ3 := by rw [s3, hb]; rfl
      have s4 : Vm.step code τ3 = Vm.resA τ3 p (cast qv t) := by
        simp only [Vm.step, τ3, τ2, τ1, Vm.advance, Vm.setA, Vm.setRA, h3, onA]
      simp only [Res.bind]
      cases hcst : cast qv t with
      | ok w =>
        simp only
        refine st.trans (Steps.cons s3' (Steps.one ?_))
        rw [s4, hcst]
        simp only [Vm.resA, τ3, τ2, τ1, Vm.advance, Vm.setA, Vm.setRA, hpc]
      | err e =>
        simp only
        refine ⟨τ3, τ3, st.trans (Steps.one s3'), ?_, rfl⟩
        rw [s4, hcst]; rfl
      | inexact => simp
    | err e =>
      simp only [Res.bind]
      refine ⟨τ2, τ2, st, ?_, rfl⟩
      rw [s3, hb]; rfl
    | inexact => simp [Res.bind]
  · simp only [hd, if_false]
    cases hb : Vm.binInstr op a bv with
    | ok w =>
      simp only
      refine st.trans (Steps.one ?_)
      rw [s3, hb]
      simp only [Vm.resA, τ2, τ1, Vm.advance, Vm.setA, Vm.setRA, hpc, Nat.add_zero]
    | err e =>
      simp only
      refine ⟨τ2, τ2, st, ?_, rfl⟩
      rw [s3, hb]; rfl
    | inexact => simp

theorem case_bin (code : Code) (sc : Scope) (op : Op) (l r : AoR.Expr) (t : Ty) (p : Pos)
    (hL : RvSpec code sc l) (hR : RvSpec code sc r) : RvSpec code sc (.bin op l r t p) := by
  intro off s σ hc hpc hr hw
  simp only [EWf, AoRTy.ExprTyped] at hw
  obtain ⟨hwl, hwr, hop⟩ := hw
  simp only [compileExpr] at hc
  have hcl : CodeAt code off (compileExpr l) := hc.append_left.append_left.append_left.append_left
  have hpush : code[off + (compileExpr l).length]? = some (CInstr.pushA, p) :=
    hc.append_left.append_left.append_left.append_right.head
  have hcr : CodeAt code (off + (compileExpr l).length + 1) (compileExpr r) := by
    have := hc.append_left.append_left.append_right
    simp only [List.length_append, List.length_singleton] at this
    exact this.at (by omega)
  have hct : CodeAt code (off + (compileExpr l).length + 1 + (compileExpr r).length)
      ([(CInstr.copyAToB, p), (CInstr.popA, p), (CInstr.bin op, p)] ++
        (if op = .divide then [(CInstr.cast t, p)] else [])) := by
    have h1 := hc.append_left.append_right
    have h2 := hc.append_right
    intro i hi
    by_cases h3 : i < 3
    · have := h1 i (by simpa using h3)
      simp only [List.length_append, List.length_singleton] at this
      rw [List.getElem?_append_left (by simpa using h3)]
      rw [← this]; congr 1; omega
    · have := h2 (i - 3) (by simp at hi ⊢; omega)
      simp only [List.length_append, List.length_cons, List.length_nil] at this
      rw [List.getElem?_append_right (by simp; omega)]
      simp only [List.length_cons, List.length_nil]
      rw [← this]; congr 1; omega
  have hl := hL off s σ hcl hpc hr hwl
  have hlen : (compileExpr (.bin op l r t p)).length =
      (compileExpr l).length + 1 + (compileExpr r).length + 3 + (if op = .divide then 1 else 0) := by
    simp only [compileExpr, List.length_append, List.length_singleton, List.length_cons, List.length_nil]
    by_cases hd : op = .divide <;> simp [hd]
  rw [hlen]
  simp only [AoR.Ref.eval]
  generalize AoR.Ref.eval s.env s.arrs l = rl at hl ⊢
  cases rl with
  | err c q => exact hl
  | inexact => trivial
  | illFormed => trivial
  | ok av =>
    cases av with
    | udt fs => trivial
    | sc a =>
    obtain ⟨τ1, st1, hp1, ha1, hrel1, hss1⟩ := hl
    simp only [ValRel, RecL.Spec.ValRel] at ha1
    -- push the left value
    let τ2 : Vm := Vm.advance { τ1 with vals := τ1.regs.a :: τ1.vals }
    have spush : Vm.step code τ1 = .next τ2 := by
      have : code[τ1.pc]? = some (CInstr.pushA, p) := by rw [hp1]; exact hpush
      simp only [Vm.step, this]; rfl
    have hrel2 : Rel sc s τ2 := hrel1.same rfl rfl rfl rfl rfl rfl rfl rfl
    have hrr := hR (off + (compileExpr l).length + 1) s τ2 hcr (by simp [τ2, Vm.advance, hp1]) hrel2 hwr
    simp only [RecL.Ref.ERes.bind, RecL.Ref.asScalar]
    generalize AoR.Ref.eval s.env s.arrs r = rr at hrr ⊢
    have pre12 : Steps code σ τ2 := st1.trans (Steps.one spush)
    cases rr with
    | err c q => exact ErrsWith.of_steps pre12 hrr
    | inexact => trivial
    | illFormed => trivial
    | ok bvv =>
      cases bvv with
      | udt fs => trivial
      | sc bv =>
      obtain ⟨τ3, st3, hp3, ha3, hrel3, hss3⟩ := hrr
      simp only [ValRel, RecL.Spec.ValRel] at ha3
      have hv3 : τ3.vals = .leaf a :: σ.vals := by
        rw [hss3.vals]; simp only [τ2, Vm.advance]; rw [ha1, hss1.vals]
      have tail := bin_tail code op t p _ τ3 a bv σ.vals hct hp3 ha3 hv3
      have pre13 : Steps code σ τ3 := pre12.trans st3
      simp only
      cases hb : AoR.Ref.binStep op t a bv with
      | ok w =>
        simp only [hb] at tail
        simp only [RecL.Ref.lift, RecL.Ref.ERes.bind, RvPost]
        refine ⟨_, pre13.trans tail, ?_, by simp only [ValRel, RecL.Spec.ValRel],
          hrel3.same rfl rfl rfl rfl rfl rfl rfl rfl, ?_⟩
        · simp only; omega
        · refine ⟨by simp [hss1.vals], ?_, ?_, ?_, ?_, ?_⟩
          · simp only; rw [hss3.paths]; simp only [τ2, Vm.advance]; exact hss1.paths
          · simp only; rw [hss3.regStack]; simp only [τ2, Vm.advance]; exact hss1.regStack
          · simp only; rw [hss3.ctx]; simp only [τ2, Vm.advance]; exact hss1.ctx
          · simp only; rw [hss3.trace]; simp only [τ2, Vm.advance]; exact hss1.trace
          · intro hk; exact hss3.skip (hss1.skip hk)
      | err e =>
        simp only [hb] at tail
        simp only [RecL.Ref.lift, RecL.Ref.ERes.bind, RvPost]
        rw [← hrel3.out]
        exact ErrsWith.of_steps pre13 tail
      | inexact => simp only [RecL.Ref.lift, RecL.Ref.ERes.bind, RvPost]

/-! ### all expressions (given `ExprOk`: the expression theorem, provided by `Thm/AoRSimExpr.lean`) -/

set_option linter.unusedSectionVars false
variable [ExprOk]

/-- `exprToE_correct` for every expression -/
theorem exprToE_correct' (code : Code) (sc : Scope) (e : AoR.Expr) (t : ETy) (off : Nat) (s : St) (σ : Vm)
    (hc : CodeAt code off (compileExprToE e t)) (hpc : σ.pc = off) (hr : Rel sc s σ) (hw : EWf sc e) :
    RvPost code sc (compileExprToE e t).length off s σ (AoR.Ref.evalTo s.env s.arrs e t) :=
  exprToE_correct code sc e (expr_correct code sc e) t off s σ hc hpc hr hw

/-- `exprTo_correct` for every expression -/
theorem exprTo_correct' (code : Code) (sc : Scope) (e : AoR.Expr) (t : Ty) (off : Nat) (s : St) (σ : Vm)
    (hc : CodeAt code off (compileExprTo e t)) (hpc : σ.pc = off) (hr : Rel sc s σ) (hw : EWf sc e) :
    ExprPost code sc (compileExprTo e t).length off s σ (AoR.Ref.evalToS s.env s.arrs e t) ∧
      ∀ v, AoR.Ref.evalToS s.env s.arrs e t = .ok v → v.tag = t ∧ NoNulVal v :=
  exprTo_correct code sc e (expr_correct code sc e) t off s σ hc hpc hr hw

/-- `cond_correct` for every condition -/
theorem cond_correct' (code : Code) (sc : Scope) (c : AoR.Expr) (target : Nat) (p : Pos) (off : Nat) (s : St) (σ : Vm)
    (hc : CodeAt code off (compileExpr c ++ [(CInstr.jumpIfFalse target, p)])) (hpc : σ.pc = off)
    (hr : Rel sc s σ) (hw : EWf sc c) (hn : NumTy c.ty) :
    CondPost code sc (off + (compileExpr c).length + 1) target s σ (AoR.Ref.evalCond s c) :=
  cond_correct code sc c (expr_correct code sc c) target p off s σ hc hpc hr hw hn

/-- `evalE_correct` for every expression -/
theorem evalE_correct' (code : Code) (sc : Scope) (e : AoR.Expr) (off : Nat) (s : St) (σ : Vm)
    (hc : CodeAt code off (compileExpr e)) (hpc : σ.pc = off) (hr : Rel sc s σ) (hw : EWf sc e) :
    ValPost code sc (compileExpr e).length off s σ (AoR.Ref.evalE s e) :=
  evalE_correct code sc e (expr_correct code sc e) off s σ hc hpc hr hw

/-- `evalS_correct` for every expression -/
theorem evalS_correct' (code : Code) (sc : Scope) (e : AoR.Expr) (off : Nat) (s : St) (σ : Vm)
    (hc : CodeAt code off (compileExpr e)) (hpc : σ.pc = off) (hr : Rel sc s σ) (hw : EWf sc e) :
    ExprPost code sc (compileExpr e).length off s σ (AoR.Ref.evalS s.env s.arrs e) :=
  evalS_correct code sc e (expr_correct code sc e) off s σ hc hpc hr hw

end RbThm.AoRSim
