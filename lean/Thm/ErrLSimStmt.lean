import Thm.ErrLSimBase
import Thm.ErrLSimExpr
/-!
Error layer, simulation part: the simple statements of the core language (`assign`, `dim`, `END`, `PRINT`), ported from
`Thm/JmpLSimStmt.lean`.  None of them defines a label, so they are only ever entered from their first instruction
(`Entry.of_nolabels`).  Each is **one resume unit**: the success path is the jump layer's (run on the fragment placed alone,
lifted by `lift_steps`); on the failure path the failing state is named in full (`exprTo_fails` of `Thm/ErrLSimExpr.lean`,
`stmt_items_fails` here: what PRINT had printed before the failing item stays printed, the operands the item had pushed stay
on the value stack, the PRINT flag may be set), the dispatch is lifted by `lift_fails'`, and `simple_unit` does the rest:
RESUME runs the statement again, RESUME NEXT / ON ERROR RESUME NEXT continue at the entry that follows it.
-/
namespace RbThm.ErrLSim
set_option linter.unusedVariables false
set_option linter.unusedSimpArgs false
open RbModel RbModel.Num RbModel.ErrL RbModel.ErrL.Compile RbModel.ErrL.Vm
open RbModel.JmpL.Compile (CInstr Code labelName compileExpr compileExprTo storeVar loadVar compileItems compileConds
  sizeCaseExpr sizeItems sizeConds Dp lookupNat lookupDepth stepSuffix maxPos)
open RbModel.JmpL.Vm (Vm truncTop)
open RbModel.Ast (Pos PrintItem CaseExpr)
open RbModel.Ref (St)
open RbModel.ErrL.Ref
open RbThm.ErrLLen
open RbThm.C01Sim (Typed SlotsBelow ExprWt NumericAt NumericCond ItemsSlots CaseSlots CondsSlots)

local notation "JSteps" => RbThm.JmpLSim.Steps
local notation "JCodeAt" => RbThm.JmpLSim.CodeAt

/-! ### the fragments contain no `BuiltInRead` -/

theorem stmt_expr_noread : ∀ (e : Ast.Expr), ∀ ip ∈ compileExpr e, ip.1 ≠ CInstr.builtInRead
  | .lit v p => by simp [compileExpr]
  | .var x t p => by simp [compileExpr]
  | .un .neg e p => by
    intro ip h
    simp only [compileExpr, List.mem_append, List.mem_singleton] at h
    rcases h with h | h
    · exact stmt_expr_noread e ip h
    · subst h; simp
  | .un .not e p => by
    intro ip h
    simp only [compileExpr, List.mem_append, List.mem_singleton] at h
    rcases h with h | h
    · exact stmt_expr_noread e ip h
    · subst h; simp
  | .paren e p => by
    intro ip h
    simp only [compileExpr] at h
    exact stmt_expr_noread e ip h
  | .bin op l r t p => by
    intro ip h
    simp only [compileExpr, List.mem_append] at h
    rcases h with (((h | h) | h) | h) | h
    · exact stmt_expr_noread l ip h
    · simp at h; subst h; simp
    · exact stmt_expr_noread r ip h
    · simp at h; rcases h with h | h | h <;> (subst h; simp)
    · split at h
      · simp at h; subst h; simp
      · simp at h

theorem stmt_assign_noread (x : Nat) (t : Ty) (ex : Ast.Expr) (p : Pos) :
    ∀ ip ∈ compileExprTo ex t ++ storeVar x p, ip.1 ≠ CInstr.builtInRead := by
  intro ip h
  simp only [compileExprTo, storeVar, List.mem_append] at h
  rcases h with (h | h) | h
  · exact stmt_expr_noread ex ip h
  · split at h
    · simp at h
    · simp at h; subst h; simp
  · simp at h; rcases h with h | h <;> (subst h; simp)

theorem stmt_items_noread (p : Pos) : ∀ (items : List PrintItem), ∀ ip ∈ compileItems p items, ip.1 ≠ CInstr.builtInRead
  | [] => by simp [compileItems]
  | it :: rest => by
    intro ip h
    simp only [compileItems, List.mem_append] at h
    rcases h with h | h
    · cases it with
      | comma => simp [JmpL.Compile.compileItem] at h; subst h; simp
      | semicolon => simp [JmpL.Compile.compileItem] at h; subst h; simp
      | expr e =>
        simp only [JmpL.Compile.compileItem, List.mem_append, List.mem_singleton] at h
        rcases h with h | h
        · exact stmt_expr_noread e ip h
        · subst h; simp
    · exact stmt_items_noread p rest ip h

/-- the code of a PRINT statement -/
def stmt_printCode (items : List PrintItem) (p : Pos) : Code :=
  [(CInstr.printSetPrinter, p), (CInstr.loadA (.int 0), p), (CInstr.printSetFormat, p)] ++ compileItems p items ++
    [(CInstr.printEnd, p)]

theorem stmt_print_noread (items : List PrintItem) (p : Pos) :
    ∀ ip ∈ stmt_printCode items p, ip.1 ≠ CInstr.builtInRead := by
  intro ip h
  simp only [stmt_printCode, List.mem_append] at h
  rcases h with (h | h) | h
  · simp at h; rcases h with h | h | h <;> (subst h; simp)
  · exact stmt_items_noread p items ip h
  · simp at h; subst h; simp

/-! ### assignment -/

theorem case_assign (C : Ctx) (hC : C.Ok) (fuel : Nat) (ih : StmtIHle C fuel) (x : Nat) (t : Ty) (ex : Ast.Expr) (p : Pos)
    (sfx : String) (d e off nx vb gd : Nat) (m : Mode) (σ : EVm) (s : ESt)
    (hc : CodeAt C.prog.code off (compileStmt C.env sfx d e off (.assign x t ex p)))
    (hl : LabAt C.env d e off (.assign x t ex p)) (hw : Wf C.sl C.env.dp C.rl d e (.assign x t ex p))
    (hm : MarksAt C.prog.marks (marksStmt C.env.dp d e off (.assign x t ex p)) nx)
    (hnx : off + sizeStmt C.env.dp d e (.assign x t ex p) ≤ nx)
    (hen : Entry C.env off (.assign x t ex p) m σ) (hr : ERel C.sl C.env s σ) (hi : Inv C d e vb gd σ) :
    StmtSpec C d e vb (off + sizeStmt C.env.dp d e (.assign x t ex p)) nx σ
      (exec (fuel + 1) C.P gd (desugar (.assign x t ex p)) m s) := by
  obtain ⟨rfl, hpc⟩ := hen.of_nolabels rfl
  have hcs := hc
  have hw0 := hw
  simp only [compileStmt] at hc
  obtain ⟨hx, hse, hwt⟩ := hw
  have hnr := stmt_assign_noread x t ex p
  have hcp : JCodeAt (pad off (compileExprTo ex t ++ storeVar x p)) off (compileExprTo ex t ++ storeVar x p) :=
    codeAt_pad off _
  have hsl : SlotsBelow σ.b.env.length ex := by rw [hr.base.len]; exact hse
  have henv : σ.b.env = s.st.env := hr.base.env
  simp only [desugar, exec]
  cases hev : RbModel.Ref.evalTo s.st.env ex t with
  | inexact => simp [StmtSpec]
  | ok v =>
    have he := RbThm.JmpLSim.exprTo_correct _ ex t off σ.b hcp.append_left hpc hsl
    rw [henv, hev] at he
    obtain ⟨b, st⟩ := he
    have hst := RbThm.JmpLSim.store_steps _ x p (off + (compileExprTo ex t).length)
      (RbThm.JmpLSim.afterExpr σ.b (off + (compileExprTo ex t).length) v b) hcp.append_right rfl
    have hrun := lift_steps hC.pok hc hnr (st.trans hst) σ rfl
    simp only [StmtSpec]
    refine ⟨_, hrun, .inl (by simp only [sizeStmt]; omega), ?_, rfl, ⟨hi.he, fun _ => rfl⟩, rfl, rfl, rfl⟩
    exact { base := hr.base.store hx
              (RbThm.C01Sim.SimRead.evalTo_tag C.sl s.st.env hr.base.typed ex t v hwt hev) rfl rfl rfl rfl rfl,
            handler := hr.handler, hfd := hr.hfd, inH := hr.inH, err := hr.err }
  | err c q =>
    simp only
    have hf := exprTo_fails _ ex t off σ.b hcp.append_left hpc hsl (by rw [henv]; exact hev)
    obtain ⟨υ, st, hs, hfa⟩ := hf
    obtain ⟨hst, hlo, hhi, hstep⟩ := lift_fails' hC.pok hc hnr st hs σ rfl
    obtain ⟨X, hX⟩ := hfa.vals
    have := simple_unit (x := { σ with b := υ }) (y := { σ with b := υ }) (s1 := s) (c := c) (p := q) hC ih hcs hl hw0 hm
      (by simp only [marksStmt]) hnx hst hlo
      (by simp only [sizeStmt]; simp only [List.length_append, storeVar, List.length_cons, List.length_nil] at hhi
          show υ.pc < _; omega)
      hstep (Quiet.refl _) hfa.regStack
      (by show vb + e ≤ υ.vals.length; rw [hX, List.length_append]; have := hi.he; omega)
      hfa.paths hfa.gosubs rfl (hfa.erel hr) hi
    simp only [desugar] at this
    exact this

/-! ### DIM -/

/-- `AllocateBuiltIn t; VarPathName x; CopyAToVarPath` -/
theorem stmt_dim_steps (code : Code) (x : Nat) (t : Ty) (p : Pos) (σ : Vm)
    (hc : JCodeAt code σ.pc [(CInstr.allocate t, p), (CInstr.varPath x, p), (CInstr.copyAToVarPath, p)]) :
    ∃ τ, JSteps code σ τ ∧ τ.pc = σ.pc + 3 ∧ τ.env = σ.env.set x (RbModel.Ref.zeroOf t) ∧ τ.out = σ.out ∧ τ.data = σ.data ∧
      τ.dataIdx = σ.dataIdx ∧ τ.queue = σ.queue ∧ RbThm.JmpLSim.SameStacks σ τ := by
  have h0 : code[σ.pc]? = some (CInstr.allocate t, p) := hc.head
  have h1 : code[σ.pc + 1]? = some (CInstr.varPath x, p) := hc.tail.head
  have h2 : code[σ.pc + 1 + 1]? = some (CInstr.copyAToVarPath, p) := hc.tail.tail.head
  let σ1 : Vm := JmpL.Vm.advance (JmpL.Vm.setA σ (RbModel.Ref.zeroOf t))
  let σ2 : Vm := JmpL.Vm.advance { σ1 with paths := x :: σ1.paths }
  let σ3 : Vm := JmpL.Vm.advance { σ2 with env := σ2.env.set x σ2.regs.a, paths := σ.paths }
  have s1 : JmpL.Vm.step code σ = .next σ1 := by simp only [JmpL.Vm.step, h0]; rfl
  have s2 : JmpL.Vm.step code σ1 = .next σ2 := by
    simp only [JmpL.Vm.step, σ1, JmpL.Vm.advance, JmpL.Vm.setA, h1]; rfl
  have s3 : JmpL.Vm.step code σ2 = .next σ3 := by
    simp only [JmpL.Vm.step, σ2, σ1, JmpL.Vm.advance, JmpL.Vm.setA, h2]; rfl
  exact ⟨σ3, RbThm.JmpLSim.Steps.cons s1 (RbThm.JmpLSim.Steps.cons s2 (RbThm.JmpLSim.Steps.one s3)), rfl, rfl, rfl, rfl,
    rfl, rfl, ⟨rfl, rfl, rfl, rfl⟩⟩

theorem case_dim (C : Ctx) (hC : C.Ok) (fuel : Nat) (ih : StmtIHle C fuel) (x : Nat) (t : Ty) (p : Pos)
    (sfx : String) (d e off nx vb gd : Nat) (m : Mode) (σ : EVm) (s : ESt)
    (hc : CodeAt C.prog.code off (compileStmt C.env sfx d e off (.dim x t p)))
    (hl : LabAt C.env d e off (.dim x t p)) (hw : Wf C.sl C.env.dp C.rl d e (.dim x t p))
    (hm : MarksAt C.prog.marks (marksStmt C.env.dp d e off (.dim x t p)) nx)
    (hnx : off + sizeStmt C.env.dp d e (.dim x t p) ≤ nx)
    (hen : Entry C.env off (.dim x t p) m σ) (hr : ERel C.sl C.env s σ) (hi : Inv C d e vb gd σ) :
    StmtSpec C d e vb (off + sizeStmt C.env.dp d e (.dim x t p)) nx σ
      (exec (fuel + 1) C.P gd (desugar (.dim x t p)) m s) := by
  obtain ⟨rfl, hpc⟩ := hen.of_nolabels rfl
  simp only [compileStmt] at hc
  subst hpc
  have hnr : ∀ ip ∈ [(CInstr.allocate t, p), (CInstr.varPath x, p), (CInstr.copyAToVarPath, p)],
      ip.1 ≠ CInstr.builtInRead := by
    intro ip h; simp at h; rcases h with h | h | h <;> (subst h; simp)
  obtain ⟨τ, st, hp, e1, e2, e3, e4, e5, hss⟩ := stmt_dim_steps _ x t p σ.b (codeAt_pad σ.b.pc _)
  have hrun := lift_steps hC.pok hc hnr st σ rfl
  have hev : RbModel.Ref.evalTo s.st.env (Ast.Expr.lit (Src.zeroOf t) p) t = .ok (RbModel.Ref.zeroOf t) := by
    simp only [RbModel.Ref.evalTo, RbModel.Ref.eval, RbModel.Ref.ERes.bind, storeCast, Ast.Expr.ty,
      RbThm.C01Sim.zeroOf_eq]
    cases t <;> rfl
  simp only [desugar, exec, hev, StmtSpec, sizeStmt]
  refine ⟨_, hrun, .inl hp, ?_, hss.1, ⟨by show vb + e ≤ τ.vals.length; rw [hss.2.1]; exact hi.he,
    fun _ => by show τ.vals = _; rw [hss.2.1]; simp⟩, hss.2.2.1, hss.2.2.2, rfl⟩
  exact { base := hr.base.store hw (by cases t <;> rfl) e1 e2 e3 e4 e5,
          handler := hr.handler, hfd := hr.hfd, inH := hr.inH, err := hr.err }

/-! ### END -/

theorem case_end (C : Ctx) (hC : C.Ok) (fuel : Nat) (ih : StmtIHle C fuel) (p : Pos)
    (sfx : String) (d e off nx vb gd : Nat) (m : Mode) (σ : EVm) (s : ESt)
    (hc : CodeAt C.prog.code off (compileStmt C.env sfx d e off (.end_ p)))
    (hl : LabAt C.env d e off (.end_ p)) (hw : Wf C.sl C.env.dp C.rl d e (.end_ p))
    (hm : MarksAt C.prog.marks (marksStmt C.env.dp d e off (.end_ p)) nx)
    (hnx : off + sizeStmt C.env.dp d e (.end_ p) ≤ nx)
    (hen : Entry C.env off (.end_ p) m σ) (hr : ERel C.sl C.env s σ) (hi : Inv C d e vb gd σ) :
    StmtSpec C d e vb (off + sizeStmt C.env.dp d e (.end_ p)) nx σ (exec (fuel + 1) C.P gd (desugar (.end_ p)) m s) := by
  obtain ⟨rfl, hpc⟩ := hen.of_nolabels rfl
  simp only [compileStmt, lift, List.map] at hc
  subst hpc
  have hcode : C.prog.code[σ.b.pc]? = some (.base .halt, p) := hc.head
  simp only [desugar, exec, StmtSpec]
  refine ⟨σ, σ, Steps.refl σ, ?_, hr.base⟩
  rw [step_base hC.pok hcode (by simp), step_halt (base_get hC.pok hcode)]

/-! ### PRINT -/

/-- what the items of a PRINT leave alone up to a failing instruction: everything but the program counter, the registers,
the variables' *output* (what was printed stays), the PRINT flag and the operands pushed on the value stack -/
structure StmtKeep (σ υ : Vm) : Prop where
  data : υ.data = σ.data
  dataIdx : υ.dataIdx = σ.dataIdx
  queue : υ.queue = σ.queue
  regStack : υ.regStack = σ.regStack
  paths : υ.paths = σ.paths
  gosubs : υ.gosubs = σ.gosubs
  vals : ∃ X, υ.vals = X ++ σ.vals

theorem StmtKeep.of_failAt {σ υ : Vm} (h : FailAt σ υ) : StmtKeep σ υ :=
  ⟨h.data, h.dataIdx, h.queue, h.regStack, h.paths, h.gosubs, h.vals⟩

theorem StmtKeep.of_base {σ σ' υ : Vm} (h : StmtKeep σ' υ) (e4 : σ'.data = σ.data) (e5 : σ'.dataIdx = σ.dataIdx)
    (e6 : σ'.queue = σ.queue) (e7 : σ'.regStack = σ.regStack) (e8 : σ'.paths = σ.paths) (e9 : σ'.gosubs = σ.gosubs)
    (e10 : σ'.vals = σ.vals) : StmtKeep σ υ := by
  obtain ⟨X, hX⟩ := h.vals
  exact ⟨h.data.trans e4, h.dataIdx.trans e5, h.queue.trans e6, h.regStack.trans e7, h.paths.trans e8,
    h.gosubs.trans e9, ⟨X, by rw [hX, e10]⟩⟩

/-- **the items of a PRINT statement, failing**: the run reaches an instruction of the failing item's expression that raises
the error `printItems` names; what the items before it printed is printed -/
theorem stmt_items_fails (code : Code) (p : Pos) :
    ∀ (items : List PrintItem) (off : Nat) (σ : Vm) (s : St),
      JCodeAt code off (compileItems p items) → σ.pc = off → σ.env = s.env → σ.out = s.out →
      ItemsSlots s.env.length items → ∀ (s' : St) (c : Nat) (q : Pos), JmpL.Ref.printItems s items = (s', .error c q) →
      ∃ υ, JSteps code σ υ ∧ JmpL.Vm.step code υ = .error c q υ ∧ υ.env = s'.env ∧ υ.out = s'.out ∧ StmtKeep σ υ ∧
        s'.env = s.env ∧ s'.data = s.data ∧ s'.dataIdx = s.dataIdx := by
  intro items
  induction items with
  | nil => intro off σ s _ _ _ _ _ s' c q h; simp [JmpL.Ref.printItems] at h
  | cons it rest ih =>
    intro off σ s hc hpc he ho hsl s' c q h
    cases it with
    | comma =>
      simp only [compileItems, JmpL.Compile.compileItem] at hc
      have h0 : code[σ.pc]? = some (CInstr.printComma, p) := by rw [hpc]; exact hc.append_left.head
      let σ1 : Vm := JmpL.Vm.advance { σ with out := σ.out.moveToNextPrintZone, skipNewline := true }
      have s1 : JmpL.Vm.step code σ = .next σ1 := by simp only [JmpL.Vm.step, h0]; rfl
      simp only [JmpL.Ref.printItems] at h
      obtain ⟨υ, st, hs, e1, e2, hk, e3, e4, e5⟩ := ih (off + 1) σ1 { s with out := s.out.moveToNextPrintZone } hc.append_right
        (by simp [σ1, JmpL.Vm.advance, hpc]) he (by simp [σ1, JmpL.Vm.advance, ho]) hsl s' c q h
      exact ⟨υ, RbThm.JmpLSim.Steps.cons s1 st, hs, e1, e2, hk.of_base rfl rfl rfl rfl rfl rfl rfl, e3, e4, e5⟩
    | semicolon =>
      simp only [compileItems, JmpL.Compile.compileItem] at hc
      have h0 : code[σ.pc]? = some (CInstr.printSemicolon, p) := by rw [hpc]; exact hc.append_left.head
      let σ1 : Vm := JmpL.Vm.advance { σ with skipNewline := true }
      have s1 : JmpL.Vm.step code σ = .next σ1 := by simp only [JmpL.Vm.step, h0]; rfl
      simp only [JmpL.Ref.printItems] at h
      obtain ⟨υ, st, hs, e1, e2, hk, e3, e4, e5⟩ := ih (off + 1) σ1 s hc.append_right
        (by simp [σ1, JmpL.Vm.advance, hpc]) he ho hsl s' c q h
      exact ⟨υ, RbThm.JmpLSim.Steps.cons s1 st, hs, e1, e2, hk.of_base rfl rfl rfl rfl rfl rfl rfl, e3, e4, e5⟩
    | expr ex =>
      simp only [compileItems, JmpL.Compile.compileItem] at hc
      obtain ⟨hse, hsr⟩ := hsl
      have hsb : SlotsBelow σ.env.length ex := by rw [he]; exact hse
      have hpv : code[off + (compileExpr ex).length]? = some (CInstr.printValue, ex.pos) :=
        hc.append_left.append_right.head
      simp only [JmpL.Ref.printItems] at h
      cases hev : RbModel.Ref.eval s.env ex with
      | inexact => simp [hev] at h
      | err c' q' =>
        simp only [hev, Prod.mk.injEq, JmpL.Ref.Outcome.error.injEq] at h
        obtain ⟨h1, h2, h3⟩ := h
        subst h1; subst h2; subst h3
        obtain ⟨υ, st, hs, hfa⟩ := expr_fails code ex off σ hc.append_left.append_left hpc hsb c' q'
          (by rw [he]; exact hev)
        exact ⟨υ, st, hs, hfa.env.trans he, hfa.out.trans ho, StmtKeep.of_failAt hfa, rfl, rfl, rfl⟩
      | ok v =>
        simp only [hev] at h
        have hce := RbThm.JmpLSim.compileExpr_correct code ex off σ hc.append_left.append_left hpc hsb
        simp only [RbThm.JmpLSim.ExprSpec, he, hev] at hce
        obtain ⟨b, st⟩ := hce
        cases hpr : RbModel.Ref.printValue v with
        | none => simp [hpr] at h
        | some pv =>
          simp only [hpr] at h
          let σ1 : Vm := RbThm.JmpLSim.afterExpr σ (off + (compileExpr ex).length) v b
          let σ2 : Vm := JmpL.Vm.advance { σ1 with out := σ1.out.print (Print.valueText pv), skipNewline := false }
          have s2 : JmpL.Vm.step code σ1 = .next σ2 := by
            simp only [JmpL.Vm.step, σ1, RbThm.JmpLSim.afterExpr, hpv, hpr]; rfl
          have hc' : JCodeAt code (off + (compileExpr ex).length + 1) (compileItems p rest) := by
            have := hc.append_right
            simpa [Nat.add_assoc] using this
          obtain ⟨υ, st', hs, e1, e2, hk, e3, e4, e5⟩ := ih (off + (compileExpr ex).length + 1) σ2
            { s with out := s.out.print (Print.valueText pv) } hc'
            (by simp [σ2, σ1, JmpL.Vm.advance, RbThm.JmpLSim.afterExpr])
            (by simp [σ2, σ1, JmpL.Vm.advance, RbThm.JmpLSim.afterExpr, he])
            (by simp [σ2, σ1, JmpL.Vm.advance, RbThm.JmpLSim.afterExpr, ho]) hsr s' c q h
          exact ⟨υ, st.trans (RbThm.JmpLSim.Steps.cons s2 st'), hs, e1, e2, hk.of_base rfl rfl rfl rfl rfl rfl rfl,
            e3, e4, e5⟩

/-- `PrintSetPrinter; LoadA 0; PrintSetFormat`: the head of a PRINT statement -/
theorem stmt_print_head (code : Code) (items : List PrintItem) (p : Pos) (σ : Vm)
    (hc : JCodeAt code σ.pc (stmt_printCode items p)) :
    ∃ σ3, JSteps code σ σ3 ∧ σ3.pc = σ.pc + 3 ∧ σ3.env = σ.env ∧ σ3.out = σ.out ∧ σ3.skipNewline = false ∧
      σ3.data = σ.data ∧ σ3.dataIdx = σ.dataIdx ∧ σ3.queue = σ.queue ∧ RbThm.JmpLSim.SameStacks σ σ3 := by
  simp only [stmt_printCode] at hc
  have h0 : code[σ.pc]? = some (CInstr.printSetPrinter, p) := hc.append_left.append_left.head
  have h1 : code[σ.pc + 1]? = some (CInstr.loadA (.int 0), p) := hc.append_left.append_left.tail.head
  have h2 : code[σ.pc + 1 + 1]? = some (CInstr.printSetFormat, p) := hc.append_left.append_left.tail.tail.head
  let σ1 : Vm := JmpL.Vm.advance { σ with skipNewline := false }
  let σ2 : Vm := JmpL.Vm.advance (JmpL.Vm.setA σ1 (.int 0))
  let σ3 : Vm := JmpL.Vm.advance σ2
  have s1 : JmpL.Vm.step code σ = .next σ1 := by simp only [JmpL.Vm.step, h0]; rfl
  have s2 : JmpL.Vm.step code σ1 = .next σ2 := by simp only [JmpL.Vm.step, σ1, JmpL.Vm.advance, h1]; rfl
  have s3 : JmpL.Vm.step code σ2 = .next σ3 := by
    simp only [JmpL.Vm.step, σ2, σ1, JmpL.Vm.advance, JmpL.Vm.setA, h2]; rfl
  exact ⟨σ3, RbThm.JmpLSim.Steps.cons s1 (RbThm.JmpLSim.Steps.cons s2 (RbThm.JmpLSim.Steps.one s3)), rfl, rfl, rfl, rfl,
    rfl, rfl, rfl, ⟨rfl, rfl, rfl, rfl⟩⟩

theorem stmt_print_items_at (code : Code) (items : List PrintItem) (p : Pos) (off : Nat)
    (hc : JCodeAt code off (stmt_printCode items p)) :
    JCodeAt code (off + 3) (compileItems p items) ∧ code[off + 3 + sizeItems items]? = some (CInstr.printEnd, p) := by
  simp only [stmt_printCode] at hc
  refine ⟨by have := hc.append_left.append_right; simpa using this, ?_⟩
  have := hc.append_right.head
  simp only [List.length_append, List.length_cons, List.length_nil, RbThm.JmpLLen.len_items] at this
  rw [show off + 3 + sizeItems items = off + (0 + 1 + 1 + 1 + sizeItems items) by omega]
  exact this

/-- **a PRINT statement, all items printed** -/
theorem stmt_print_ok (code : Code) (items : List PrintItem) (p : Pos) (σ : Vm) (s s' : St)
    (hc : JCodeAt code σ.pc (stmt_printCode items p)) (he : σ.env = s.env) (ho : σ.out = s.out)
    (hsl : ItemsSlots s.env.length items) (h : JmpL.Ref.printItems s items = (s', .normal)) :
    ∃ τ, JSteps code σ τ ∧ τ.pc = σ.pc + (3 + sizeItems items + 1) ∧ τ.env = s'.env ∧
      τ.out = (if RbModel.Ref.endsInSeparator items = true then s'.out else s'.out.println) ∧
      RbThm.JmpLSim.SameStacks σ τ ∧ RbThm.JmpLSim.SameData σ τ ∧ s'.env = s.env ∧ s'.data = s.data ∧
      s'.dataIdx = s.dataIdx := by
  obtain ⟨σ3, pre, hp3, a1, a2, a3, a4, a5, a6, hss3⟩ := stmt_print_head code items p σ hc
  obtain ⟨hci, hend⟩ := stmt_print_items_at code items p σ.pc hc
  have hit := RbThm.JmpLSim.items_correct code p items (σ.pc + 3) σ3 s hci hp3 (a1.trans he) (a2.trans ho) hsl
  rw [h] at hit
  obtain ⟨τ, st, hp, e1, e2, e3, e4, e5, e6, e7, e8⟩ := hit
  have hflag : τ.skipNewline = RbModel.Ref.endsInSeparator items := by
    rw [e4, RbThm.C01Sim.flagAfter_eq, a3]
    by_cases hi : items = []
    · subst hi; rfl
    · simp [hi]
  have hpe : code[τ.pc]? = some (CInstr.printEnd, p) := by rw [hp]; exact hend
  have hss : RbThm.JmpLSim.SameStacks σ τ := RbThm.JmpLSim.SameStacks.trans hss3 e5
  have hsd : RbThm.JmpLSim.SameData σ τ := RbThm.JmpLSim.SameData.trans ⟨a4, a5, a6⟩ e6
  by_cases hsep : RbModel.Ref.endsInSeparator items = true
  · have hk : τ.skipNewline = true := by rw [hflag, hsep]
    simp only [hsep, if_true]
    refine ⟨JmpL.Vm.advance { τ with skipNewline := false }, (pre.trans st).trans (RbThm.JmpLSim.Steps.one ?_), ?_, e1, e2,
      RbThm.JmpLSim.SameStacks.trans hss ⟨rfl, rfl, rfl, rfl⟩, RbThm.JmpLSim.SameData.trans hsd ⟨rfl, rfl, rfl⟩, e3, e7, e8⟩
    · simp only [JmpL.Vm.step, hpe, hk, if_true]
    · simp only [JmpL.Vm.advance, hp]; omega
  · have hk : τ.skipNewline = false := by rw [hflag]; simpa using hsep
    simp only [hsep]
    refine ⟨JmpL.Vm.advance { τ with out := τ.out.println }, (pre.trans st).trans (RbThm.JmpLSim.Steps.one ?_), ?_, e1,
      by simp [JmpL.Vm.advance, e2],
      RbThm.JmpLSim.SameStacks.trans hss ⟨rfl, rfl, rfl, rfl⟩, RbThm.JmpLSim.SameData.trans hsd ⟨rfl, rfl, rfl⟩, e3, e7, e8⟩
    · simp only [JmpL.Vm.step, hpe, hk]; rfl
    · simp only [JmpL.Vm.advance, hp]; omega

/-- **a PRINT statement, an item fails** -/
theorem stmt_print_fails (code : Code) (items : List PrintItem) (p : Pos) (σ : Vm) (s s' : St) (c : Nat) (q : Pos)
    (hc : JCodeAt code σ.pc (stmt_printCode items p)) (he : σ.env = s.env) (ho : σ.out = s.out)
    (hsl : ItemsSlots s.env.length items) (h : JmpL.Ref.printItems s items = (s', .error c q)) :
    ∃ υ, JSteps code σ υ ∧ JmpL.Vm.step code υ = .error c q υ ∧ υ.env = s'.env ∧ υ.out = s'.out ∧ StmtKeep σ υ ∧
      s'.env = s.env ∧ s'.data = s.data ∧ s'.dataIdx = s.dataIdx := by
  obtain ⟨σ3, pre, hp3, a1, a2, a3, a4, a5, a6, hss3⟩ := stmt_print_head code items p σ hc
  obtain ⟨hci, hend⟩ := stmt_print_items_at code items p σ.pc hc
  obtain ⟨υ, st, hs, e1, e2, hk, e3, e4, e5⟩ :=
    stmt_items_fails code p items (σ.pc + 3) σ3 s hci hp3 (a1.trans he) (a2.trans ho) hsl s' c q h
  exact ⟨υ, pre.trans st, hs, e1, e2, hk.of_base a4 a5 a6 hss3.1 hss3.2.2.1 hss3.2.2.2 hss3.2.1, e3, e4, e5⟩

theorem stmt_printItems_outcome (items : List PrintItem) : ∀ (s : St),
    (JmpL.Ref.printItems s items).2 = .normal ∨ (∃ c q, (JmpL.Ref.printItems s items).2 = .error c q) ∨
      (JmpL.Ref.printItems s items).2 = .inexact := by
  induction items with
  | nil => intro s; left; rfl
  | cons it rest ih =>
    intro s
    cases it with
    | comma => simp only [JmpL.Ref.printItems]; exact ih _
    | semicolon => simp only [JmpL.Ref.printItems]; exact ih _
    | expr e =>
      simp only [JmpL.Ref.printItems]
      cases RbModel.Ref.eval s.env e with
      | err c q => right; left; exact ⟨c, q, rfl⟩
      | inexact => right; right; rfl
      | ok v =>
        simp only
        cases RbModel.Ref.printValue v with
        | none => right; right; rfl
        | some pv => simp only; exact ih _

theorem case_print (C : Ctx) (hC : C.Ok) (fuel : Nat) (ih : StmtIHle C fuel) (items : List PrintItem) (p : Pos)
    (sfx : String) (d e off nx vb gd : Nat) (m : Mode) (σ : EVm) (s : ESt)
    (hc : CodeAt C.prog.code off (compileStmt C.env sfx d e off (.print items p)))
    (hl : LabAt C.env d e off (.print items p)) (hw : Wf C.sl C.env.dp C.rl d e (.print items p))
    (hm : MarksAt C.prog.marks (marksStmt C.env.dp d e off (.print items p)) nx)
    (hnx : off + sizeStmt C.env.dp d e (.print items p) ≤ nx)
    (hen : Entry C.env off (.print items p) m σ) (hr : ERel C.sl C.env s σ) (hi : Inv C d e vb gd σ) :
    StmtSpec C d e vb (off + sizeStmt C.env.dp d e (.print items p)) nx σ
      (exec (fuel + 1) C.P gd (desugar (.print items p)) m s) := by
  obtain ⟨rfl, hpc⟩ := hen.of_nolabels rfl
  have hcs := hc
  simp only [compileStmt] at hc
  subst hpc
  have hcl : CodeAt C.prog.code σ.b.pc (lift (stmt_printCode items p)) := hc
  have hnr := stmt_print_noread items p
  have hcp : JCodeAt (pad σ.b.pc (stmt_printCode items p)) σ.b.pc (stmt_printCode items p) := codeAt_pad _ _
  have hsl : ItemsSlots s.st.env.length items := by rw [hr.base.typed.len]; exact hw
  have hout := stmt_printItems_outcome items s.st
  simp only [desugar, exec]
  generalize hr' : JmpL.Ref.printItems s.st items = r at hout ⊢
  obtain ⟨st', o⟩ := r
  cases o with
  | normal =>
    obtain ⟨τ, st, hp, e1, e2, hss, hsd, e3, e4, e5⟩ :=
      stmt_print_ok _ items p σ.b s.st st' hcp hr.base.env hr.base.out hsl hr'
    have hrun := lift_steps hC.pok hcl hnr st σ rfl
    have hty : Typed C.sl st'.env := by rw [e3]; exact hr.base.typed
    have hd3 : τ.data = st'.data := by rw [hsd.1, e4]; exact hr.base.data
    have hi3 : τ.dataIdx = st'.dataIdx := by rw [hsd.2.1, e5]; exact hr.base.dataIdx
    have hq3 : τ.queue = [] := by rw [hsd.2.2]; exact hr.base.queue
    have hvals : ValsOk vb e 0 σ { σ with b := τ } :=
      ⟨by show vb + e ≤ τ.vals.length; rw [hss.2.1]; exact hi.he, fun _ => by show τ.vals = _; rw [hss.2.1]; simp⟩
    by_cases hsep : RbModel.Ref.endsInSeparator items = true
    · simp only [hsep, if_true] at e2 ⊢
      simp only [StmtSpec]
      refine ⟨_, hrun, .inl (by simp only [sizeStmt]; exact hp), ?_, hss.1, hvals, hss.2.2.1, hss.2.2.2, rfl⟩
      exact { base := ⟨e1, hty, e2, hd3, hi3, hq3⟩, handler := hr.handler, hfd := hr.hfd, inH := hr.inH, err := hr.err }
    · simp only [hsep] at e2 ⊢
      simp only [StmtSpec]
      refine ⟨_, hrun, .inl (by simp only [sizeStmt]; exact hp), ?_, hss.1, hvals, hss.2.2.1, hss.2.2.2, rfl⟩
      exact { base := ⟨e1, hty, e2, hd3, hi3, hq3⟩, handler := hr.handler, hfd := hr.hfd, inH := hr.inH, err := hr.err }
  | error c q =>
    simp only
    obtain ⟨υ, st, hs, e1, e2, hk, e3, e4, e5⟩ :=
      stmt_print_fails _ items p σ.b s.st st' c q hcp hr.base.env hr.base.out hsl hr'
    obtain ⟨hst, hlo, hhi, hstep⟩ := lift_fails' hC.pok hcl hnr st hs σ rfl
    obtain ⟨X, hX⟩ := hk.vals
    have hrel : ERel C.sl C.env { s with st := st' } { σ with b := υ } :=
      { base := ⟨e1, by rw [e3]; exact hr.base.typed, e2, by rw [hk.data, e4]; exact hr.base.data,
                 by rw [hk.dataIdx, e5]; exact hr.base.dataIdx, by rw [hk.queue]; exact hr.base.queue⟩,
        handler := hr.handler, hfd := hr.hfd, inH := hr.inH, err := hr.err }
    have := simple_unit (x := { σ with b := υ }) (y := { σ with b := υ }) (s1 := { s with st := st' }) (c := c) (p := q)
      hC ih hcs hl hw hm (by simp only [marksStmt]) hnx hst hlo
      (by simp only [sizeStmt]
          simp only [stmt_printCode, List.length_append, List.length_cons, List.length_nil, RbThm.JmpLLen.len_items] at hhi
          show υ.pc < _; omega)
      hstep (Quiet.refl _) hk.regStack
      (by show vb + e ≤ υ.vals.length; rw [hX, List.length_append]; have := hi.he; omega)
      hk.paths hk.gosubs rfl hrel hi
    simp only [desugar] at this
    exact this
  | inexact => simp [StmtSpec]
  | halted => simp at hout
  | outOfFuel => simp at hout
  | jump L => simp at hout
  | ret q => simp at hout
  | illFormed => simp at hout
  | notHere => simp at hout

end RbThm.ErrLSim
