import Thm.ProcArrSimBase
import Thm.ProcArrSimIdx
import Thm.ProcArrBounds
/-!
Combined layer, simulation part — argument lists.

`Grows` / `steps_grows` (the blocks of the STATIC procedures only grow, VM-wide), `Rel.repre` (the same activation under
another collecting prefix), and `case_args`: the arguments are evaluated left to right into the collecting state — by
value with `Cast` + `PushNamed`, a by-reference variable with its current value + `PushNamed`, and (new in this layer) an
array ELEMENT with `⟦path⟧ · CopyVarPathToA [Cast] · PushNamedByRef`: the collecting state receives the value together with
the path `elem a is` resolved NOW, and the location is a valid location of the caller's arrays (`LocsOk`) — also after the
later arguments have been evaluated, because evaluation never re-dimensions an array (`Thm/ProcArrBounds.lean`).
-/
namespace RbThm.ProcArrSim
set_option linter.unusedVariables false
set_option linter.unusedSimpArgs false
open RbModel RbModel.Num RbModel.ProcArr RbModel.ProcArr.Compile RbModel.ProcArr.Vm
open RbModel.Ast (Pos)
open RbThm.ProcArrLen

/-! ### the blocks of the STATIC procedures only grow -/


/-- the blocks of the STATIC procedures only grow: a block that exists keeps existing, a created variable stays created -/
def Grows (σ τ : Vm) : Prop :=
  ∀ (g : Nat) (fr : Frame), σ.statics g = some fr → ∃ fr' : Frame, τ.statics g = some fr' ∧
    ∀ i : Nat, (∃ w, fr[i]? = some (some w)) → ∃ w, fr'[i]? = some (some w)

theorem Grows.refl (σ : Vm) : Grows σ σ := fun _ fr h => ⟨fr, h, fun _ hi => hi⟩

theorem Grows.trans {a b c : Vm} (h₁ : Grows a b) (h₂ : Grows b c) : Grows a c := by
  intro g fr h
  obtain ⟨fr1, e1, k1⟩ := h₁ g fr h
  obtain ⟨fr2, e2, k2⟩ := h₂ g fr1 e1
  exact ⟨fr2, e2, fun i hi => k2 i (k1 i hi)⟩

theorem Grows.of_eq {σ τ : Vm} (h : τ.statics = σ.statics) : Grows σ τ := by
  intro g fr h1; exact ⟨fr, by rw [h]; exact h1, fun _ hi => hi⟩

theorem grows_setV (σ : Vm) (x : Var) (v : Val) : Grows σ (σ.setV x v) := by
  unfold Vm.setV Vm.setLocal
  cases x.shared with
  | true => exact Grows.of_eq rfl
  | false =>
    simp only [Bool.false_eq_true, if_false]
    cases curStatic σ.ctx with
    | none => exact Grows.of_eq rfl
    | some f =>
      intro g fr h1
      by_cases hg : g = f
      · subst hg
        exact ⟨setVar fr x.slot v, by simp [h1], fun i hi => created_setVar fr x.slot i v hi⟩
      · exact ⟨fr, by simp [hg, h1], fun _ hi => hi⟩

theorem created_applyArgs (fr : Frame) (vs : List Val) (i : Nat) (h : ∃ w, fr[i]? = some (some w)) :
    ∃ w, (applyArgs fr vs)[i]? = some (some w) := by
  obtain ⟨w, hw⟩ := h
  unfold applyArgs
  by_cases hi : i < vs.length
  · exact ⟨vs[i], by rw [List.getElem?_append_left (by simpa using hi)]; simp [List.getElem?_eq_getElem hi]⟩
  · refine ⟨w, ?_⟩
    rw [List.getElem?_append_right (by simp; omega), List.getElem?_drop]
    simp only [List.length_map]
    rw [show vs.length + (i - vs.length) = i by omega]; exact hw

theorem pushArg_statics {σ σ' : Vm} {v : Val} {pth : Option Path} (h : pushArg σ v pth = some σ') : σ'.statics = σ.statics := by
  unfold pushArg at h
  split at h
  · injection h with h; subst h; rfl
  · cases h

theorem truncRegs_statics {σ σ' : Vm} {m : Nat} (h : truncRegs σ m = some σ') : σ'.statics = σ.statics := by
  unfold truncRegs at h
  simp only [] at h
  split at h
  · injection h with h; subst h; rfl
  · cases h

theorem step_grows {code : Code} {σ τ : Vm} (h : Vm.step code σ = .next τ) : Grows σ τ := by
  unfold Vm.step at h
  split at h
  · cases h
  · rename_i i p hcode
    cases i <;> simp only [] at h
    all_goals (try (first
      | (injection h with h; subst h; exact Grows.of_eq rfl)
      | (unfold Vm.resA at h; split at h <;> first | (injection h with h; subst h; exact Grows.of_eq rfl) | cases h)))
    case copyAToVarPath =>
      split at h
      · cases h
      · rename_i x t rest hp
        injection h with h; subst h
        exact (grows_setV σ x σ.regs.a).trans (Grows.of_eq rfl)
      all_goals (repeat' split at h)
      all_goals (first | (injection h with h; subst h; exact Grows.of_eq rfl) | cases h)
    case pushStatic f =>
      split at h
      · rename_i vs rest hctx
        injection h with h; subst h
        intro g fr h1
        by_cases hg : g = f
        · subst hg
          exact ⟨applyArgs fr (vs.map (·.1)), by simp [Vm.advance, h1], fun i hi => created_applyArgs fr _ i hi⟩
        · exact ⟨fr, by simp [Vm.advance, hg, h1], fun _ hi => hi⟩
      · cases h
    case pushByVal =>
      split at h
      · rename_i σ' hpa; injection h with h; subst h; have := pushArg_statics hpa; exact Grows.of_eq this
      · cases h
    case pushNamed =>
      split at h
      · rename_i σ' hpa; injection h with h; subst h; have := pushArg_statics hpa; exact Grows.of_eq this
      · cases h
    case pushByRef =>
      split at h
      · cases h
      · split at h
        · rename_i σ' hpa; injection h with h; subst h; have := pushArg_statics hpa; exact Grows.of_eq this
        · cases h
    case pushNamedByRef =>
      split at h
      · cases h
      · split at h
        · rename_i σ' hpa; injection h with h; subst h; have := pushArg_statics hpa; exact Grows.of_eq this
        · cases h
    case popRet =>
      split at h
      · split at h
        · rename_i σ' htr; injection h with h; subst h; have := truncRegs_statics htr; exact Grows.of_eq this
        · cases h
      · cases h
    all_goals (repeat' split at h)
    all_goals (first | (injection h with h; subst h; exact Grows.of_eq rfl) | cases h)

theorem steps_grows {code : Code} {σ τ : Vm} (h : Steps code σ τ) : Grows σ τ := by
  induction h with
  | refl => exact Grows.refl _
  | cons hs _ ih => exact (step_grows hs).trans ih


/-! ### moving the collecting prefix -/

theorem curVars_coll (st : Nat → Option Frame) : ∀ {pre : List CtxState}, Collecting pre → ∀ (rest : List CtxState),
    curVars st (pre ++ rest) = curVars st rest
  | [], _, _ => rfl
  | .args _ :: l, h, rest => by
    simp only [List.cons_append, curVars]
    exact curVars_coll st (pre := l) h rest
  | .frame _ :: _, h, _ => h.elim
  | .sframe _ :: _, h, _ => h.elim

/-- the same activation under another collecting prefix (an argument-collecting state was pushed, filled or dropped) -/
theorem Rel.repre {W : World} {sc : Scope} {pre pre' below : List CtxState} {s : St} {σ τ : Vm}
    (h : Rel W sc pre below s σ) (hcoll : Collecting pre')
    (hctx : ∀ fr, σ.ctx = pre ++ topState sc fr :: below → τ.ctx = pre' ++ topState sc fr :: below)
    (ho : τ.out = σ.out) (hd : τ.data = σ.data) (hi : τ.dataIdx = σ.dataIdx) (hq : τ.queue = σ.queue)
    (hf : τ.funRes = σ.funRes) (hg : τ.glob = σ.glob) (hs : τ.statics = σ.statics) (hA : τ.arrA = σ.arrA) :
    Rel W sc pre' below s τ := by
  obtain ⟨fr, h1, h2, h3, h4, h5⟩ := h.ctx
  have hc' := hctx fr h1
  have hcf : τ.curFrame = some fr.vars := by
    have e := h2
    unfold Vm.curFrame at e ⊢
    rw [h1, curVars_coll _ h.coll] at e
    rw [hc', hs, curVars_coll _ hcoll]; exact e
  exact ⟨hcoll, h.self, ⟨fr, hc', hcf, h3, h4, h5⟩, h.typed, h.gl, h.st, by rw [hg]; exact h.glob, h.gtyped,
    by rw [hs]; exact h.stat, h.scok, by rw [ho, h.out], by rw [hd, h.data], by rw [hi, h.dataIdx],
    by rw [hq, h.queue], by rw [hf, h.funRes], by rw [hA, h.arrA]⟩

/-! ### argument lists -/

/-- `PushNamed`: the value in A joins the collecting state on top, with no path -/
theorem pushNamed_step (W : World) (sc : Scope) (pre below : List CtxState) (s : St) (τ : Vm) (vs : List (Val × Option Path))
    (pn : String) (pt : Ty) (p : Pos) (hi : W.code[τ.pc]? = some (CInstr.pushNamed pn pt, p))
    (hr : Rel W sc (.args vs :: pre) below s τ) :
    ∃ υ, Vm.step W.code τ = .next υ ∧ υ.pc = τ.pc + 1 ∧ Rel W sc (.args (vs ++ [(τ.regs.a, none)]) :: pre) below s υ ∧
      SameStacks τ υ := by
  obtain ⟨fr, h1, h2, h3, h4, h5⟩ := hr.ctx
  have h1' : τ.ctx = .args vs :: (pre ++ topState sc fr :: below) := by simpa using h1
  refine ⟨Vm.advance { τ with ctx := .args (vs ++ [(τ.regs.a, none)]) :: (pre ++ topState sc fr :: below) }, ?_, rfl, ?_,
    ⟨rfl, rfl, rfl, rfl, rfl, rfl, id⟩⟩
  · simp only [Vm.step, hi, pushArg, h1']
  · refine hr.repre (pre' := .args (vs ++ [(τ.regs.a, none)]) :: pre) hr.coll ?_ rfl rfl rfl rfl rfl rfl rfl rfl
    intro fr' hfr'
    have : pre ++ topState sc fr :: below = pre ++ topState sc fr' :: below := by
      have e := h1.symm.trans hfr'
      simpa using e
    simp only [Vm.advance, List.cons_append, this]

/-- `PushNamedByRef`: the value in A joins the collecting state on top together with the path popped from the path stack -/
theorem pushNamedByRef_step (W : World) (sc : Scope) (pre below : List CtxState) (s : St) (τ : Vm)
    (vs : List (Val × Option Path)) (pth : Path) (prest : List Path)
    (pn : String) (pt : Ty) (p : Pos) (hi : W.code[τ.pc]? = some (CInstr.pushNamedByRef pn pt, p))
    (hp : τ.paths = pth :: prest) (hr : Rel W sc (.args vs :: pre) below s τ) :
    ∃ υ, Vm.step W.code τ = .next υ ∧ υ.pc = τ.pc + 1 ∧ Rel W sc (.args (vs ++ [(τ.regs.a, some pth)]) :: pre) below s υ ∧
      SameStacks { τ with paths := prest } υ := by
  obtain ⟨fr, h1, h2, h3, h4, h5⟩ := hr.ctx
  have h1' : τ.ctx = .args vs :: (pre ++ topState sc fr :: below) := by simpa using h1
  refine ⟨Vm.advance { τ with paths := prest, ctx := .args (vs ++ [(τ.regs.a, some pth)]) :: (pre ++ topState sc fr :: below) },
    ?_, rfl, ?_, ⟨rfl, rfl, rfl, rfl, rfl, rfl, id⟩⟩
  · simp only [Vm.step, hi, hp, pushArg, h1']
  · refine hr.repre (pre' := .args (vs ++ [(τ.regs.a, some pth)]) :: pre) hr.coll ?_ rfl rfl rfl rfl rfl rfl rfl rfl
    intro fr' hfr'
    have : pre ++ topState sc fr :: below = pre ++ topState sc fr' :: below := by
      have e := h1.symm.trans hfr'
      simpa using e
    simp only [Vm.advance, List.cons_append, this]

/-- for everything but an element the value of an actual is the converted value of the expression, and it carries no
location -/
theorem evalArg_nonElem (P : Program) (fuel : Nat) (e : ProcArr.Expr) (pt : Ty) (s : St) (h : e.isElem = false) :
    ProcArr.Ref.evalArg P (fuel + 1) e pt s =
      match ProcArr.Ref.evalTo P fuel e pt s with
      | (s1, .error o) => (s1, .error o)
      | (s1, .ok v) => (s1, .ok (v, none)) := by
  cases e with
  | elem a idx t p => simp [Expr.isElem] at h
  | lit _ _ => (simp only [ProcArr.Ref.evalArg]; try rfl)
  | var _ _ _ => (simp only [ProcArr.Ref.evalArg]; try rfl)
  | un _ _ _ => (simp only [ProcArr.Ref.evalArg]; try rfl)
  | bin _ _ _ _ _ => (simp only [ProcArr.Ref.evalArg]; try rfl)
  | paren _ _ => (simp only [ProcArr.Ref.evalArg]; try rfl)
  | callFn _ _ _ _ => (simp only [ProcArr.Ref.evalArg]; try rfl)

theorem locOk_nonElem (sl : SlotTabs) (s : St) (e : ProcArr.Expr) (h : e.isElem = false) : LocOk sl s e none := by
  cases e with
  | elem a idx t p => simp [Expr.isElem] at h
  | lit _ _ => rfl
  | var _ _ _ => rfl
  | un _ _ _ => rfl
  | bin _ _ _ _ _ => rfl
  | paren _ _ => rfl
  | callFn _ _ _ _ => rfl

open RbThm.ProcArrBounds (SameBounds) in
/-- a valid location stays valid while no array is re-dimensioned -/
theorem LocOk.mono {sl : SlotTabs} {s s' : St} {e : ProcArr.Expr} {l : Option Loc} (hb : SameBounds s s')
    (h : LocOk sl s e l) : LocOk sl s' e l := by
  cases e with
  | elem a idx t p =>
    obtain ⟨is, A, hl, hne, ha, hA, hin⟩ := h
    obtain ⟨A', hA', hbd⟩ := hb.lookup hA
    exact ⟨is, A', hl, hne, ha, hA', by rw [RbThm.ProcArrBounds.inBounds_congr hbd]; exact hin⟩
  | lit _ _ => exact h
  | var _ _ _ => exact h
  | un _ _ _ => exact h
  | bin _ _ _ _ _ => exact h
  | paren _ _ => exact h
  | callFn _ _ _ _ => exact h

open RbThm.ProcArrBounds (SameBounds) in
theorem LocsOk.mono {sl : SlotTabs} {s s' : St} (hb : SameBounds s s') : ∀ {args : Args} {avs : List (Val × Option Loc)},
    LocsOk sl s args avs → LocsOk sl s' args avs
  | .nil, [], _ => trivial
  | .nil, _ :: _, h => h.elim
  | .cons _ _ _ _, [], h => h.elim
  | .cons e _ _ rest, av :: avs, h => ⟨LocOk.mono hb h.1, LocsOk.mono hb h.2⟩

theorem case_args (W : World) (fuel : Nat) (ih : IHle W fuel) : ArgsIH W (fuel + 1) := by
  intro sc args cs off pre below vs0 s σ hc hpc hr hw
  cases args with
  | nil =>
    simp only [ProcArr.Ref.evalArgs, ArgsPost, sizePush, Args.params, List.map_nil, List.append_nil, Nat.add_zero]
    exact ⟨σ, Steps.refl σ, hpc, hr, SameStacks.refl σ, trivial, trivial⟩
  | cons e pn pt rest =>
    simp only [AWf] at hw
    obtain ⟨hwe, hwr, hwel, hwrest⟩ := hw
    simp only [pushArgs] at hc
    simp only [ProcArr.Ref.evalArgs, sizePush]
    -- the first argument: value in A (converted), the collecting state extended by its entry
    have first : match ProcArr.Ref.evalArg W.P fuel e pt s with
        | (s1, .ok av) => ∃ υ, Steps W.code σ υ ∧ υ.pc = off + sizeArg e + (if e.ty = pt then 0 else 1) + 1 ∧
            Rel W sc (.args (vs0 ++ [argEntry av]) :: pre) below s1 υ ∧ SameStacks σ υ ∧ av.1.tag = pt ∧
            LocOk sc.slots s1 e av.2
        | (s1, .error o) => ErrPost W.code σ s1 o := by
      cases fuel with
      | zero => simp only [ProcArr.Ref.evalArg, ErrPost]
      | succ n =>
        have ihn : IHle W n := ih.mono (Nat.le_succ n)
        cases hel : e.isElem with
        | false =>
          rw [evalArg_nonElem W.P n e pt s hel]
          rw [compileArg_eq _ _ _ hel, sizeArg_eq _ hel] at *
          simp only [hel, Bool.false_eq_true, if_false] at hc
          have hce : CodeAt W.code off (compileExprTo W.lay off e pt) := hc.append_left.append_left
          have he := exprTo_correct' W n ihn sc e pt off (.args vs0 :: pre) below s σ hce hpc hr hwe
          generalize ProcArr.Ref.evalTo W.P n e pt s = r at he ⊢
          obtain ⟨s1, rv⟩ := r
          cases rv with
          | error o => exact he
          | ok v =>
            obtain ⟨τ, st, hp, hav, hrel, hss, htag⟩ := he
            have hi : W.code[τ.pc]? = some (CInstr.pushNamed pn pt, e.pos) := by
              have := hc.append_left.append_right.head
              simp only [List.length_append, len_expr] at this
              rw [hp]; simp only [sizeExprTo]
              rw [← this]; congr 1
              by_cases h : e.ty = pt <;> simp [h]
            obtain ⟨υ, sυ, hpυ, hrelυ, hssυ⟩ := pushNamed_step W sc pre below s1 τ vs0 pn pt e.pos hi hrel
            rw [hav] at hrelυ
            refine ⟨υ, st.trans (Steps.one sυ), ?_, hrelυ, hss.trans hssυ, htag, locOk_nonElem _ _ _ hel⟩
            rw [hpυ, hp]; simp only [sizeExprTo]; omega
        | true =>
          obtain ⟨a, idx, t, p, rfl⟩ : ∃ a idx t p, e = .elem a idx t p := by
            cases e with
            | elem a idx t p => exact ⟨a, idx, t, p, rfl⟩
            | lit _ _ => simp [Expr.isElem] at hel
            | var _ _ _ => simp [Expr.isElem] at hel
            | un _ _ _ => simp [Expr.isElem] at hel
            | bin _ _ _ _ _ => simp [Expr.isElem] at hel
            | paren _ _ => simp [Expr.isElem] at hel
            | callFn _ _ _ _ => simp [Expr.isElem] at hel
          simp only [Expr.isElem, if_true, ProcArr.Expr.ty, ProcArr.Expr.pos] at hc ⊢
          have hE := elemArg_correct W n ihn sc a idx t pt p off (.args vs0 :: pre) below s σ hc.append_left.append_left hpc hr hwe
          generalize ProcArr.Ref.evalArg W.P (n + 1) (.elem a idx t p) pt s = r at hE ⊢
          obtain ⟨s1, rv⟩ := r
          cases rv with
          | error o => exact hE
          | ok av =>
            obtain ⟨v, l⟩ := av
            obtain ⟨τ, is, hl, st, hp, hav, hrel, hss, htag, hlok⟩ := hE
            subst hl
            have hi : W.code[τ.pc]? = some (CInstr.pushNamedByRef pn pt, p) := by
              have := hc.append_left.append_right.head
              simp only [List.length_append, len_arg] at this
              rw [hp, ← this]; congr 1
              by_cases h : t = pt <;> simp [h] <;> omega
            obtain ⟨υ, sυ, hpυ, hrelυ, hssυ⟩ :=
              pushNamedByRef_step W sc pre below s1 τ vs0 (.elem a is) σ.paths pn pt p hi hss.paths hrel
            rw [hav] at hrelυ
            refine ⟨υ, st.trans (Steps.one sυ), by rw [hpυ, hp]; rfl, hrelυ, ?_, htag, hlok⟩
            exact ⟨by rw [hssυ.vals]; exact hss.vals, hssυ.paths, by rw [hssυ.regStack]; exact hss.regStack,
              by rw [hssυ.rets]; exact hss.rets, by rw [hssυ.marks]; exact hss.marks,
              by rw [hssυ.trace]; exact hss.trace, fun h => hssυ.skip (hss.skip h)⟩
    generalize hev1 : ProcArr.Ref.evalArg W.P fuel e pt s = r at first ⊢
    obtain ⟨s1, rv⟩ := r
    cases rv with
    | error o => exact first
    | ok av =>
      obtain ⟨υ, pre1, hpυ, hrelυ, hssυ, htag, hlok⟩ := first
      have hcr : CodeAt W.code υ.pc (pushArgs W.lay υ.pc rest) := by
        have := hc.append_right
        simp only [List.length_append, List.length_singleton, len_arg] at this
        have e2 : off + (sizeArg e + (if e.ty = pt then [] else [(CInstr.cast pt, e.pos)]).length + 1) = υ.pc := by
          rw [hpυ]; by_cases h : e.ty = pt <;> simp [h] <;> omega
        rw [hpυ]; rw [hpυ] at e2
        exact this.at e2
      have hrest := (ih.self.args) sc rest cs υ.pc pre below (vs0 ++ [argEntry av]) s1 υ hcr rfl hrelυ hwrest
      simp only
      generalize hev2 : ProcArr.Ref.evalArgs W.P fuel rest s1 = r2 at hrest ⊢
      obtain ⟨s2, rv2⟩ := r2
      cases rv2 with
      | error o => exact ErrPost.of_steps pre1 hrest
      | ok avs =>
        obtain ⟨ω, st2, hp2, hrel2, hss2, htags, hloks⟩ := hrest
        refine ⟨ω, pre1.trans st2, ?_, ?_, hssυ.trans hss2, ?_, ?_⟩
        · rw [hp2, hpυ]; simp only [sizePush]; omega
        · rw [List.append_assoc] at hrel2; exact hrel2
        · simp only [Args.params, List.map_cons, htag, htags]
        · exact ⟨LocOk.mono (RbThm.ProcArrBounds.evalArgs_bounds W.P fuel hev2) hlok, hloks⟩

end RbThm.ProcArrSim
