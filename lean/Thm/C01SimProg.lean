import Thm.C01SimBase
import Thm.C01
/-!
C01, simulation part, whole programs: the statement theorem (`StmtIH`, proved case by case in the other
`Thm/C01Sim*.lean` files) lifted to `Core.compile` / `Ref.run`.

`Core.compile` emits the top-level DATA statements first (`move_data_statements_first`), then the other
top-level statements, then `Halt`.  The proof has three parts: the DATA phase fills the VM's data segment
with `Src.dataOf body` and touches nothing else the reference semantics sees; the reference semantics does
not notice that the top-level sequence has been flattened, stripped of `skip`s and of DATA statements
(which it treats as `skip`); the statement theorem then applies to the rest of the program.
-/
namespace RbThm.C01Sim
set_option linter.unusedVariables false
set_option linter.unusedSimpArgs false
open RbModel RbModel.Num RbModel.Ast RbModel.Src RbModel.Core RbModel.CoreVm RbModel.Ref
open RbThm.C01Len

/-- a program body: DATA statements may occur only at top level (where the generator hoists them from);
everything else is well formed -/
def WfTop (sl : List Ty) : SStmt → Prop
  | .seq a b => WfTop sl a ∧ WfTop sl b
  | .data _ _ => True
  | st => Wf sl st

/-- the top-level DATA statements, in program order -/
def datas (body : SStmt) : List SStmt := (topLevel body).filter isData

/-- the other top-level statements, in program order -/
def others (body : SStmt) : List SStmt := (topLevel body).filter (fun s => !isData s)

theorem compile_eq (prog : SProgram) :
    compile prog = compileStmt "" 0 (seqOf (datas prog.body ++ others prog.body)) ++ [(.halt, maxPos)] := rfl

/-! ### induction over the top-level structure -/

/-- induction over the top-level sequence structure of a statement: `seq` nodes, and everything else -/
theorem top_induction {P : SStmt → Prop} (hseq : ∀ a b, P a → P b → P (.seq a b))
    (hatom : ∀ st, (∀ a b, st ≠ .seq a b) → P st) : ∀ st, P st
  | .seq a b => hseq a b (top_induction hseq hatom a) (top_induction hseq hatom b)
  | .skip => hatom _ (by intro a b h; cases h)
  | .comment => hatom _ (by intro a b h; cases h)
  | .dim _ _ _ => hatom _ (by intro a b h; cases h)
  | .assign _ _ _ _ => hatom _ (by intro a b h; cases h)
  | .print _ _ => hatom _ (by intro a b h; cases h)
  | .data _ _ => hatom _ (by intro a b h; cases h)
  | .read _ _ => hatom _ (by intro a b h; cases h)
  | .ifBlock _ _ _ _ _ _ => hatom _ (by intro a b h; cases h)
  | .select _ _ _ _ _ => hatom _ (by intro a b h; cases h)
  | .forLoop _ _ _ _ _ _ _ => hatom _ (by intro a b h; cases h)
  | .while _ _ _ => hatom _ (by intro a b h; cases h)
  | .doLoop _ _ _ _ _ => hatom _ (by intro a b h; cases h)
  | .end_ _ => hatom _ (by intro a b h; cases h)

/-! ### reference side: flattening, dropping `skip`s and DATA statements -/

/-- the statement, run from `s`, ends in `s'` with outcome `o` (not "out of fuel") for some amount of fuel -/
def Runs (st : Stmt) (s s' : St) (o : Outcome) : Prop :=
  ∃ f, exec f st s = (s', o) ∧ RbThm.C01.Outcome.isFuel o = false

theorem Runs.skip_inv {s s' : St} {o : Outcome} (h : Runs .skip s s' o) : s' = s ∧ o = .normal := by
  obtain ⟨f, hf, ho⟩ := h
  cases f with
  | zero =>
    simp only [exec, Prod.mk.injEq] at hf
    obtain ⟨_, rfl⟩ := hf
    simp [RbThm.C01.Outcome.isFuel] at ho
  | succ f =>
    simp only [exec, Prod.mk.injEq] at hf
    exact ⟨hf.1.symm, hf.2.symm⟩

theorem Runs.skip (s : St) : Runs .skip s s .normal := ⟨1, rfl, rfl⟩

theorem Runs.seq_inv {a b : Stmt} {s s' : St} {o : Outcome} (h : Runs (.seq a b) s s' o) :
    (∃ s1, Runs a s s1 .normal ∧ Runs b s1 s' o) ∨ (Runs a s s' o ∧ o ≠ .normal) := by
  obtain ⟨f, hf, ho⟩ := h
  cases f with
  | zero =>
    simp only [exec, Prod.mk.injEq] at hf
    obtain ⟨_, rfl⟩ := hf
    simp [RbThm.C01.Outcome.isFuel] at ho
  | succ f =>
    simp only [exec] at hf
    generalize hra : exec f a s = ra at hf
    obtain ⟨s1, o1⟩ := ra
    cases o1 with
    | normal => exact .inl ⟨s1, ⟨f, hra, rfl⟩, ⟨f, hf, ho⟩⟩
    | halted => cases hf; exact .inr ⟨⟨f, hra, rfl⟩, by simp⟩
    | error c q => cases hf; exact .inr ⟨⟨f, hra, rfl⟩, by simp⟩
    | inexact => cases hf; exact .inr ⟨⟨f, hra, rfl⟩, by simp⟩
    | outOfFuel => cases hf; simp [RbThm.C01.Outcome.isFuel] at ho

theorem Runs.seq_normal {a b : Stmt} {s s1 s' : St} {o : Outcome} (ha : Runs a s s1 .normal) (hb : Runs b s1 s' o) :
    Runs (.seq a b) s s' o := by
  obtain ⟨f1, h1, _⟩ := ha
  obtain ⟨f2, h2, ho⟩ := hb
  have e1 := RbThm.C01.exec_fuel_mono f1 f2 _ _ _ _ h1 rfl
  have e2 := RbThm.C01.exec_fuel_mono f2 f1 _ _ _ _ h2 ho
  rw [Nat.add_comm] at e2
  refine ⟨f1 + f2 + 1, ?_, ho⟩
  simp only [exec, e1, e2]

theorem Runs.seq_stop {a : Stmt} (b : Stmt) {s s' : St} {o : Outcome} (ha : Runs a s s' o) (hn : o ≠ .normal) :
    Runs (.seq a b) s s' o := by
  obtain ⟨f, h, ho⟩ := ha
  refine ⟨f + 1, ?_, ho⟩
  simp only [exec, h]
  cases o with
  | normal => exact absurd rfl hn
  | _ => rfl

/-- list semantics of a top-level statement list: run the statements in order, stop at the first one that does
not end normally -/
def RunsList : List SStmt → St → St → Outcome → Prop
  | [], s, s', o => s' = s ∧ o = .normal
  | a :: rest, s, s', o =>
    (∃ s1, Runs (desugar a) s s1 .normal ∧ RunsList rest s1 s' o) ∨ (Runs (desugar a) s s' o ∧ o ≠ .normal)

theorem runsList_append_normal : ∀ (l1 l2 : List SStmt) (s s1 s' : St) (o : Outcome),
    RunsList l1 s s1 .normal → RunsList l2 s1 s' o → RunsList (l1 ++ l2) s s' o := by
  intro l1
  induction l1 with
  | nil =>
    intro l2 s s1 s' o h1 h2
    obtain ⟨rfl, _⟩ := h1
    exact h2
  | cons a rest ih =>
    intro l2 s s1 s' o h1 h2
    simp only [List.cons_append, RunsList] at h1 ⊢
    rcases h1 with ⟨s2, hr, hrest⟩ | ⟨_, hn⟩
    · exact .inl ⟨s2, hr, ih l2 s2 s1 s' o hrest h2⟩
    · exact absurd rfl hn

theorem runsList_append_stop : ∀ (l1 l2 : List SStmt) (s s' : St) (o : Outcome),
    RunsList l1 s s' o → o ≠ .normal → RunsList (l1 ++ l2) s s' o := by
  intro l1
  induction l1 with
  | nil =>
    intro l2 s s' o h1 hn
    exact absurd h1.2 hn
  | cons a rest ih =>
    intro l2 s s' o h1 hn
    simp only [List.cons_append, RunsList] at h1 ⊢
    rcases h1 with ⟨s2, hr, hrest⟩ | h
    · exact .inl ⟨s2, hr, ih l2 s2 s' o hrest hn⟩
    · exact .inr h

theorem runsList_single (st : SStmt) {s s' : St} {o : Outcome} (h : Runs (desugar st) s s' o) :
    RunsList [st] s s' o := by
  simp only [RunsList]
  by_cases hn : o = .normal
  · subst hn; exact .inl ⟨s', h, rfl, rfl⟩
  · exact .inr ⟨h, hn⟩

/-- a run of the program body is a run of its flattened top-level list -/
theorem runsList_topLevel : ∀ (body : SStmt) (s s' : St) (o : Outcome),
    Runs (desugar body) s s' o → RunsList (topLevel body) s s' o := by
  refine top_induction ?_ ?_
  · intro a b iha ihb s s' o h
    simp only [desugar] at h
    simp only [topLevel]
    rcases h.seq_inv with ⟨s1, ha, hb⟩ | ⟨ha, hn⟩
    · exact runsList_append_normal _ _ _ _ _ _ (iha _ _ _ ha) (ihb _ _ _ hb)
    · exact runsList_append_stop _ _ _ _ _ (iha _ _ _ ha) hn
  · intro st hns s s' o h
    cases st with
    | seq a b => exact absurd rfl (hns a b)
    | skip =>
      simp only [desugar] at h
      simp only [topLevel, RunsList]
      exact h.skip_inv
    | _ => simp only [topLevel]; exact runsList_single _ h

/-- DATA statements do nothing when the reference semantics reaches them -/
theorem runsList_filter : ∀ (l : List SStmt) (s s' : St) (o : Outcome),
    RunsList l s s' o → RunsList (l.filter (fun s => !isData s)) s s' o := by
  intro l
  induction l with
  | nil => intro s s' o h; exact h
  | cons a rest ih =>
    intro s s' o h
    by_cases hd : isData a = true
    · have hf : (a :: rest).filter (fun s => !isData s) = rest.filter (fun s => !isData s) := by
        simp [List.filter_cons, hd]
      rw [hf]
      have hsk : desugar a = .skip := by
        cases a <;> simp [isData] at hd
        simp only [desugar]
      simp only [RunsList, hsk] at h
      rcases h with ⟨s1, hr, hrest⟩ | ⟨hr, hn⟩
      · obtain ⟨rfl, _⟩ := hr.skip_inv
        exact ih _ _ _ hrest
      · exact absurd hr.skip_inv.2 hn
    · have hf : (a :: rest).filter (fun s => !isData s) = a :: rest.filter (fun s => !isData s) := by
        simp [List.filter_cons, hd]
      rw [hf]
      simp only [RunsList] at h ⊢
      rcases h with ⟨s1, hr, hrest⟩ | h
      · exact .inl ⟨s1, hr, ih _ _ _ hrest⟩
      · exact .inr h

theorem runs_seqOf : ∀ (l : List SStmt) (s s' : St) (o : Outcome),
    RunsList l s s' o → Runs (desugar (seqOf l)) s s' o := by
  intro l
  induction l with
  | nil =>
    intro s s' o h
    obtain ⟨rfl, rfl⟩ := h
    simp only [seqOf, desugar]
    exact Runs.skip _
  | cons a rest ih =>
    intro s s' o h
    simp only [seqOf, desugar]
    simp only [RunsList] at h
    rcases h with ⟨s1, hr, hrest⟩ | ⟨hr, hn⟩
    · exact Runs.seq_normal hr (ih _ _ _ hrest)
    · exact Runs.seq_stop _ hr hn

/-- **re-association**: what the reference semantics prescribes for the program body it prescribes for the
sequence of its non-DATA top-level statements, given enough fuel -/
theorem ref_reorder (body : SStmt) (fuel : Nat) (s s' : St) (o : Outcome)
    (h : exec fuel (desugar body) s = (s', o)) (ho : RbThm.C01.Outcome.isFuel o = false) :
    ∃ f', exec f' (desugar (seqOf (others body))) s = (s', o) := by
  have h1 := runsList_topLevel body s s' o ⟨fuel, h, ho⟩
  have h2 := runsList_filter _ _ _ _ h1
  obtain ⟨f', hf, _⟩ := runs_seqOf _ _ _ _ h2
  exact ⟨f', hf⟩

/-! ### static side: DATA items, well-formedness, code layout -/

theorem dataOf_eq : ∀ body : SStmt, dataOf body = (datas body).flatMap dataOf := by
  refine top_induction ?_ ?_
  · intro a b iha ihb
    simp only [datas] at iha ihb ⊢
    simp only [dataOf, topLevel, List.filter_append, List.flatMap_append, ← iha, ← ihb]
  · intro st hns
    cases st with
    | seq a b => exact absurd rfl (hns a b)
    | data items p => simp [datas, dataOf, topLevel, isData, List.filter]
    | _ => simp [datas, dataOf, topLevel, isData]

theorem datas_isData (body : SStmt) : ∀ x ∈ datas body, isData x = true := by
  intro x hx
  simp only [datas, List.mem_filter] at hx
  exact hx.2

theorem wf_topLevel (sl : List Ty) : ∀ body : SStmt, WfTop sl body → ∀ x ∈ topLevel body, isData x = true ∨ Wf sl x := by
  refine top_induction ?_ ?_
  · intro a b iha ihb hw x hx
    simp only [WfTop] at hw
    simp only [topLevel, List.mem_append] at hx
    rcases hx with hx | hx
    · exact iha hw.1 x hx
    · exact ihb hw.2 x hx
  · intro st hns hw x hx
    cases st with
    | seq a b => exact absurd rfl (hns a b)
    | skip => simp [topLevel] at hx
    | data items p =>
      simp only [topLevel, List.mem_singleton] at hx
      subst hx; left; rfl
    | _ =>
      simp only [topLevel, List.mem_singleton] at hx
      subst hx; right
      simpa only [WfTop] using hw

theorem wf_seqOf (sl : List Ty) : ∀ l : List SStmt, (∀ x ∈ l, Wf sl x) → Wf sl (seqOf l) := by
  intro l
  induction l with
  | nil => intro _; simp only [seqOf, Wf]
  | cons a rest ih =>
    intro h
    simp only [seqOf, Wf]
    exact ⟨h a (by simp), ih (fun x hx => h x (by simp [hx]))⟩

theorem wf_others (sl : List Ty) (body : SStmt) (hw : WfTop sl body) : Wf sl (seqOf (others body)) := by
  apply wf_seqOf
  intro x hx
  simp only [others, List.mem_filter] at hx
  rcases wf_topLevel sl body hw x hx.1 with h | h
  · simp [h] at hx
  · exact h

theorem size_seqOf_append (l1 l2 : List SStmt) :
    sizeStmt (seqOf (l1 ++ l2)) = sizeStmt (seqOf l1) + sizeStmt (seqOf l2) := by
  induction l1 with
  | nil => simp [seqOf, sizeStmt]
  | cons a rest ih => simp only [List.cons_append, seqOf, sizeStmt, ih]; omega

theorem code_seqOf_append (sfx : String) : ∀ (l1 l2 : List SStmt) (off : Nat),
    compileStmt sfx off (seqOf (l1 ++ l2)) =
      compileStmt sfx off (seqOf l1) ++ compileStmt sfx (off + sizeStmt (seqOf l1)) (seqOf l2) := by
  intro l1
  induction l1 with
  | nil => intro l2 off; simp [seqOf, compileStmt, sizeStmt]
  | cons a rest ih =>
    intro l2 off
    simp only [List.cons_append, seqOf, compileStmt, sizeStmt, ih, List.append_assoc, Nat.add_assoc]

/-! ### the DATA phase -/

/-- what the code of a DATA statement leaves alone (besides the stacks, which it does not touch either) -/
def Keeps (σ τ : Vm) : Prop :=
  τ.env = σ.env ∧ τ.out = σ.out ∧ τ.skipNewline = σ.skipNewline ∧ τ.dataIdx = σ.dataIdx ∧ τ.queue = σ.queue

theorem Keeps.refl (σ : Vm) : Keeps σ σ := ⟨rfl, rfl, rfl, rfl, rfl⟩

theorem Keeps.trans {a b c : Vm} (h₁ : Keeps a b) (h₂ : Keeps b c) : Keeps a c :=
  ⟨h₂.1.trans h₁.1, h₂.2.1.trans h₁.2.1, h₂.2.2.1.trans h₁.2.2.1, h₂.2.2.2.1.trans h₁.2.2.2.1,
    h₂.2.2.2.2.trans h₁.2.2.2.2⟩

/-- `(LoadIntoA v; PushUnnamedByVal)*`: the items of a DATA statement are appended to the argument list -/
theorem data_items (code : Code) (f : Val × Pos → Code)
    (hf : ∀ it, f it = [(CInstr.loadA it.1, it.2), (CInstr.pushByVal, it.2)]) :
    ∀ (items : List (Val × Pos)) (off : Nat) (σ : Vm),
      CodeAt code off (items.flatMap f) → σ.pc = off →
      ∃ τ, Steps code σ τ ∧ τ.pc = off + 2 * items.length ∧
        τ.args = σ.args ++ items.map (fun it => (it.1, none)) ∧ τ.data = σ.data ∧ Keeps σ τ := by
  intro items
  induction items with
  | nil =>
    intro off σ _ hpc
    exact ⟨σ, Steps.refl σ, by simp [hpc], by simp, rfl, Keeps.refl σ⟩
  | cons it rest ih =>
    intro off σ hc hpc
    rw [List.flatMap_cons, hf it] at hc
    subst hpc
    have h0 : code[σ.pc]? = some (CInstr.loadA it.1, it.2) := hc.append_left.head
    have h1 : code[σ.pc + 1]? = some (CInstr.pushByVal, it.2) := hc.append_left.tail.head
    let σ1 : Vm := advance (setA σ it.1)
    let σ2 : Vm := advance { σ1 with args := σ1.args ++ [(σ1.regs.a, none)] }
    have s1 : CoreVm.step code σ = .next σ1 := by simp only [CoreVm.step, h0]; rfl
    have s2 : CoreVm.step code σ1 = .next σ2 := by simp only [CoreVm.step, σ1, advance, setA, h1]; rfl
    have hcr : CodeAt code (σ.pc + 2) (rest.flatMap f) := by
      have := hc.append_right
      simpa using this
    obtain ⟨τ, st, hp, ha, hd, hk⟩ := ih (σ.pc + 2) σ2 hcr rfl
    refine ⟨τ, Steps.cons s1 (Steps.cons s2 st), ?_, ?_, ?_, ?_⟩
    · rw [hp]; simp only [List.length_cons]; omega
    · rw [ha]; simp [σ2, σ1, advance, setA]
    · exact hd
    · exact Keeps.trans ⟨rfl, rfl, rfl, rfl, rfl⟩ hk

/-- one DATA statement: `BeginCollectArguments; (LoadIntoA v; PushUnnamedByVal)*; PushStack; BuiltInSub Data;
PopStack` appends its items to the data segment -/
theorem data_stmt (code : Code) (items : List (Val × Pos)) (p : Pos) (sfx : String) (off : Nat) (σ : Vm)
    (hc : CodeAt code off (compileStmt sfx off (.data items p))) (hpc : σ.pc = off) :
    ∃ τ, Steps code σ τ ∧ τ.pc = off + sizeStmt (.data items p) ∧ τ.data = σ.data ++ items.map (·.1) ∧
      Keeps σ τ := by
  simp only [compileStmt] at hc
  subst hpc
  have h0 : code[σ.pc]? = some (CInstr.beginArgs, p) := hc.append_left.append_left.head
  let σ1 : Vm := advance { σ with args := [] }
  have s1 : CoreVm.step code σ = .next σ1 := by simp only [CoreVm.step, h0]; rfl
  have hci := hc.append_left.append_right
  simp only [List.length_singleton] at hci
  obtain ⟨τ1, st1, hp1, ha1, hd1, hk1⟩ := data_items code _ (fun it => rfl) items (σ.pc + 1) σ1 hci rfl
  have hct := hc.append_right
  have hl := flatMap_const_len (fun x : Val × Pos => [(CInstr.loadA x.fst, x.snd), (CInstr.pushByVal, x.snd)]) 2
    (fun _ => rfl) items
  simp only [List.length_append, List.length_singleton, hl] at hct
  have e : σ.pc + (1 + 2 * items.length) = τ1.pc := by rw [hp1]; omega
  rw [e] at hct
  have h2 : code[τ1.pc]? = some (CInstr.pushStack, p) := hct.head
  have h3 : code[τ1.pc + 1]? = some (CInstr.builtInData, p) := hct.tail.head
  have h4 : code[τ1.pc + 1 + 1]? = some (CInstr.popStack, p) := hct.tail.tail.head
  let τ2 : Vm := advance { τ1 with callPos := p }
  let τ3 : Vm := advance { τ2 with data := τ2.data ++ τ2.args.map (·.1) }
  let τ4 : Vm := advance { τ3 with args := [] }
  have s2 : CoreVm.step code τ1 = .next τ2 := by simp only [CoreVm.step, h2]; rfl
  have s3 : CoreVm.step code τ2 = .next τ3 := by simp only [CoreVm.step, τ2, advance, h3]; rfl
  have s4 : CoreVm.step code τ3 = .next τ4 := by simp only [CoreVm.step, τ3, τ2, advance, h4]; rfl
  refine ⟨τ4, (Steps.cons s1 st1).trans (Steps.cons s2 (Steps.cons s3 (Steps.one s4))), ?_, ?_, ?_⟩
  · simp only [τ4, τ3, τ2, advance, hp1, sizeStmt]; omega
  · simp only [τ4, τ3, τ2, advance, hd1, ha1, σ1]
    simp [List.map_map, Function.comp_def]
  · exact Keeps.trans (Keeps.trans ⟨rfl, rfl, rfl, rfl, rfl⟩ hk1) ⟨rfl, rfl, rfl, rfl, rfl⟩

/-- the hoisted DATA statements, run in order, build the data segment -/
theorem data_list (code : Code) (sfx : String) : ∀ (l : List SStmt), (∀ x ∈ l, isData x = true) →
    ∀ (off : Nat) (σ : Vm), CodeAt code off (compileStmt sfx off (seqOf l)) → σ.pc = off →
      ∃ τ, Steps code σ τ ∧ τ.pc = off + sizeStmt (seqOf l) ∧ τ.data = σ.data ++ l.flatMap dataOf ∧ Keeps σ τ := by
  intro l
  induction l with
  | nil =>
    intro _ off σ _ hpc
    exact ⟨σ, Steps.refl σ, by simp [seqOf, sizeStmt, hpc], by simp, Keeps.refl σ⟩
  | cons a rest ih =>
    intro hall off σ hc hpc
    have hd : isData a = true := hall a (by simp)
    cases a with
    | data items p =>
      have hc : CodeAt code off (compileStmt sfx off (.data items p) ++
          compileStmt sfx (off + sizeStmt (.data items p)) (seqOf rest)) := by
        simpa only [seqOf, compileStmt] using hc
      obtain ⟨τ1, st1, hp1, hd1, hk1⟩ := data_stmt code items p sfx off σ hc.append_left hpc
      have hcr := hc.append_right
      rw [len_stmt] at hcr
      obtain ⟨τ2, st2, hp2, hd2, hk2⟩ := ih (fun x hx => hall x (by simp [hx])) _ τ1 hcr hp1
      refine ⟨τ2, st1.trans st2, ?_, ?_, Keeps.trans hk1 hk2⟩
      · rw [hp2]; simp only [seqOf, sizeStmt]; omega
      · rw [hd2, hd1]; simp [List.flatMap_cons, dataOf]
    | _ => simp [isData] at hd

theorem typed_init (sl : List Ty) : Typed sl (sl.map Ref.zeroOf) := by
  refine ⟨by simp, ?_⟩
  intro x t hx
  refine ⟨Ref.zeroOf t, by simp [List.getElem?_map, hx], by cases t <;> rfl⟩

/-! ### the program theorem -/

/-- the start state of the reference semantics -/
def startSt (prog : SProgram) : St :=
  { env := prog.slots.map Ref.zeroOf, out := Print.WritePrinter.new, data := dataOf prog.body, dataIdx := 0 }

theorem run_eq (prog : SProgram) (fuel : Nat) :
    Ref.run fuel prog.toAst = exec fuel (desugar prog.body) (startSt prog) := rfl

/-- the DATA phase, then the statement theorem on the rest of the program: from the initial VM state the run
reaches the first non-DATA statement in a state related to the reference start state, and from there does what
the statement-level specification says; the final `Halt` sits right behind -/
theorem prog_spec (prog : SProgram) (fuel : Nat) (hw : WfTop prog.slots prog.body)
    (hstmt : ∀ code fuel, StmtIH code fuel) (s' : St) (o : Outcome)
    (hrun : Ref.run fuel prog.toAst = (s', o)) (ho : RbThm.C01.Outcome.isFuel o = false) :
    ∃ σ1 D N, Steps (compile prog) (Vm.init prog.slots) σ1 ∧
      StmtSpec (compile prog) N D σ1 (startSt prog) (s', o) ∧
      (compile prog)[D + N]? = some (.halt, maxPos) := by
  have hall : CodeAt (compile prog) 0
      (compileStmt "" 0 (seqOf (datas prog.body ++ others prog.body)) ++ [(.halt, maxPos)]) := by
    intro i _; rw [Nat.zero_add]; rfl
  generalize compile prog = code at hall ⊢
  have hbody := hall.append_left
  rw [code_seqOf_append] at hbody
  have hcd := hbody.append_left
  have hco := hbody.append_right
  rw [len_stmt, Nat.zero_add] at hco
  have hhalt := hall.append_right.head
  rw [len_stmt, size_seqOf_append, Nat.zero_add] at hhalt
  -- DATA phase
  obtain ⟨σ1, st1, hp1, hd1, hk1⟩ :=
    data_list code "" (datas prog.body) (datas_isData prog.body) 0 (Vm.init prog.slots) hcd rfl
  rw [Nat.zero_add] at hp1
  have hrel : Rel (startSt prog) σ1 := by
    obtain ⟨k1, k2, k3, k4, k5⟩ := hk1
    refine rel_of _ _ (by rw [k1]; rfl) (by rw [k2]; rfl) (by rw [k3]; rfl) ?_ (by rw [k4]; rfl) (by rw [k5]; rfl)
    rw [hd1, ← dataOf_eq]; simp [Vm.init, startSt]
  -- the rest of the program
  rw [run_eq] at hrun
  obtain ⟨f', hf'⟩ := ref_reorder prog.body fuel _ s' o hrun ho
  have hs := hstmt code f' (seqOf (others prog.body)) "" _ σ1 (startSt prog) prog.slots hco hp1 hrel
    (wf_others _ _ hw) (typed_init prog.slots)
  rw [hf'] at hs
  exact ⟨σ1, _, _, st1, hs, hhalt⟩

/-- **C01_core_correct**: the VM model running the generator model's code for a core program behaves as the
reference semantics prescribes: same output and normal end / END, or the same error code at the same position
with the same output up to there -/
theorem compile_correct (prog : SProgram) (fuel : Nat) (hw : WfTop prog.slots prog.body)
    (hstmt : ∀ code fuel, StmtIH code fuel) :
    match Ref.run fuel prog.toAst with
    | (s', .normal) => ∃ τ υ, Steps (compile prog) (Vm.init prog.slots) τ ∧
        CoreVm.step (compile prog) τ = .halt υ ∧ υ.env = s'.env ∧ υ.out = s'.out
    | (s', .halted) => ∃ τ υ, Steps (compile prog) (Vm.init prog.slots) τ ∧
        CoreVm.step (compile prog) τ = .halt υ ∧ υ.env = s'.env ∧ υ.out = s'.out
    | (s', .error c p) => ∃ τ υ, Steps (compile prog) (Vm.init prog.slots) τ ∧
        CoreVm.step (compile prog) τ = .error c p υ ∧ υ.out = s'.out
    | (_, .inexact) => True
    | (_, .outOfFuel) => True := by
  have key := prog_spec prog fuel hw hstmt
  generalize Ref.run fuel prog.toAst = r at key
  obtain ⟨s', o⟩ := r
  cases o with
  | normal =>
    obtain ⟨σ1, D, N, st1, hs, hhalt⟩ := key s' .normal rfl rfl
    simp only [StmtSpec] at hs
    obtain ⟨τ, st, hp, hrel, _, _⟩ := hs
    refine ⟨τ, τ, st1.trans st, ?_, hrel.env, hrel.out⟩
    simp only [CoreVm.step, hp, hhalt]
  | halted =>
    obtain ⟨σ1, D, N, st1, hs, _⟩ := key s' .halted rfl rfl
    simp only [StmtSpec] at hs
    obtain ⟨τ, υ, st, hh, hrel⟩ := hs
    exact ⟨τ, υ, st1.trans st, hh, hrel.env, hrel.out⟩
  | error c p =>
    obtain ⟨σ1, D, N, st1, hs, _⟩ := key s' (.error c p) rfl rfl
    simp only [StmtSpec] at hs
    obtain ⟨env, τ, υ, st, he, _, hout⟩ := hs
    exact ⟨τ, υ, st1.trans st, he, hout⟩
  | inexact => trivial
  | outOfFuel => trivial

end RbThm.C01Sim
