import Thm.ErrLSimAsm
import Thm.ErrLSimFor
import Thm.ErrLShape
import Thm.ErrLSimProg
import Thm.ErrLDepths
import Thm.ErrLWf
/-!
Error layer (property C05, the ON ERROR / RESUME half), simulation part — the statement theorem and the whole-program theorem.

`Thm/ErrLSimBase.lean` holds the infrastructure (`Ctx`, `ERel`, `LabAt`, `Entry`, the relative `StmtSpec` with its `resumed`
exit, the raise clause `raise_correct`); `Thm/ErrLSimErr.lean` the six new statements; `Thm/ErrLSim{Jump,Seq,Stmt,Read,While,Do,
If,Select,For}.lean` the constructs of the jump layer with their resume units; `Thm/ErrLShape.lean` the shape of jumps
(`JumpShape`); `Thm/ErrLSimProg{Base,}.lean` the lift to whole programs (DATA hoisting and the DATA phase, the label tables and
the statement-address table of the reordered body, the final `Halt`); `Thm/ErrLDepths.lean` the label-depth table;
`Thm/ErrLWf.lean` the soundness of the boolean premise check.  Here they are put together.
-/
namespace RbThm.ErrLSim
set_option linter.unusedVariables false
set_option linter.unusedSimpArgs false
open RbModel RbModel.Num RbModel.ErrL RbModel.ErrL.Compile RbModel.ErrL.Vm
open RbModel.JmpL.Compile (CInstr Code Dp)
open RbModel.Ast (Pos PrintItem CaseExpr)
open RbModel.Ref (St)
open RbModel.ErrL.Ref
open RbThm.ErrLLen

/-- the case lemma for FOR (`Thm/ErrLSimFor.lean`) is what `Thm/ErrLSimAsm.lean` asks for -/
theorem forCase (C : Ctx) (hC : C.Ok) : ForCase C :=
  fun fuel ih x t lo hi step body p sfx d e off nx vb gd m σ s hc hl hw hm hnx hen hr hinv =>
    case_for C hC fuel ih x t lo hi step body p sfx d e off nx vb gd m σ s hc hl hw hm hnx hen hr hinv

/-- **`compileStmt_correct`** — every statement of the error layer (the jump layer plus `ON ERROR GOTO label / RESUME NEXT /
GOTO 0`, `RESUME`, `RESUME NEXT`, `RESUME label`), placed anywhere in the code of a program whose context is consistent
(`Ctx.Ok`), at any FOR / SELECT depth, entered from its first instruction or — in seek mode — at a label inside it, on top of
any register / value / GOSUB stacks, inside or outside a handler: for every amount of fuel the VM model `ErrL.Vm`, with the
statement-address table and the label-depth table of the generator model, does what `ErrL.Ref.exec` prescribes, in the relative
sense of `StmtSpec`.  In particular a unit that fails under `ON ERROR GOTO h` runs the handler (the whole program entered at
`h`, in a register frame of its own) and then goes on as the handler's RESUME says: `RESUME` at the unit's first instruction,
`RESUME NEXT` at the entry that follows it — in both cases with the register frame, the register stack and the value stack of
the failing instruction —, `RESUME label` at the label with the stacks cut relative to the innermost pending GOSUB. -/
theorem compileStmt_correct (C : Ctx) (hC : C.Ok) : ∀ fuel, StmtIH C fuel :=
  compileStmt_correct_of C hC (forCase C hC)

/-- the context of a program that satisfies the premise is consistent -/
theorem progCtx_ok' (prog : SProgram) (hw : ProgWf prog) : (progCtx prog).Ok :=
  progCtx_ok prog hw (depths_ok prog hw)
    (jump_shape_lab (C := progCtx prog) (by
      have := wf_strip prog.slots (dpOf prog) prog.body hw.1
      rw [← envOf_dp prog] at this
      exact this))

/-- **`compile_correct`** — whole programs: for every program of the error layer that satisfies the premise `ProgWf` (what
`progWfXB` decides) and every amount of fuel: if the reference semantics `ErrL.Ref.run` ends normally or with END — whatever
errors were handled on the way, by `ON ERROR RESUME NEXT` or by handlers that ended with `RESUME`, `RESUME NEXT` or `RESUME
label` —, the VM model running the code the generator model emits (`ErrL.Compile.compile`, with `marks` and `labelDepths`) from
the initial state reaches a `Halt` with the same variables and the same output; if it ends with BASIC error `c` at position `p`
(no handler set, or after `ON ERROR GOTO 0`), the VM stops with error `c` at `p` with the same output.  (`inexact`, `outOfFuel`,
`illFormed` and `unspec` — an error inside an active handler, a RETURN that leaves a handler's run — claim nothing.) -/
theorem compile_correct (prog : SProgram) (fuel : Nat) (hw : ProgWf prog) :
    ProgSpec prog (ErrL.Ref.run fuel prog.toAst) :=
  compile_correct_of prog fuel (progCtx_ok' prog hw) (compileStmt_correct (progCtx prog) (progCtx_ok' prog hw))

/-- **`run_correct`** — the same for the bounded interpreter `ErrL.Vm.run` that the correspondence check executes against the
real VM: for every sufficient step budget the run of the generated code ends as the reference semantics prescribes -/
theorem run_correct (prog : SProgram) (fuel : Nat) (hw : ProgWf prog) :
    RunSpec prog (ErrL.Ref.run fuel prog.toAst) :=
  runSpec_of_progSpec prog _ (compile_correct prog fuel hw)

/-- **`compile_correct_checked`** — the premise replaced by the boolean check the driver evaluates on the real front end's tree
of every explored program (`errl.wf`: `progWfB` and `wfXB`) -/
theorem compile_correct_checked (prog : SProgram) (fuel : Nat) (hw : progWfXB prog = true) :
    ProgSpec prog (ErrL.Ref.run fuel prog.toAst) :=
  compile_correct prog fuel (progWfB_sound prog hw)

theorem run_correct_checked (prog : SProgram) (fuel : Nat) (hw : progWfXB prog = true) :
    RunSpec prog (ErrL.Ref.run fuel prog.toAst) :=
  run_correct prog fuel (progWfB_sound prog hw)

/-- the clauses of `ProgSpec`, spelled out -/
theorem compile_correct_normal (prog : SProgram) (fuel : Nat) (hw : ProgWf prog) (s' : ESt)
    (h : ErrL.Ref.run fuel prog.toAst = (s', .normal) ∨ ErrL.Ref.run fuel prog.toAst = (s', .halted)) :
    ∃ τ υ, Steps (Prog.ofProgram prog) (EVm.init prog.slots) τ ∧ step (Prog.ofProgram prog) τ = .halt υ ∧
      υ.b.env = s'.st.env ∧ υ.b.out = s'.st.out := by
  have := compile_correct prog fuel hw
  rcases h with h | h <;> (rw [h] at this; exact this)

theorem compile_correct_error (prog : SProgram) (fuel : Nat) (hw : ProgWf prog) (s' : ESt) (c : Nat) (p : Pos)
    (h : ErrL.Ref.run fuel prog.toAst = (s', .error c p)) :
    ∃ τ υ, Steps (Prog.ofProgram prog) (EVm.init prog.slots) τ ∧ step (Prog.ofProgram prog) τ = .error c p υ ∧
      υ.b.out = s'.st.out := by
  have := compile_correct prog fuel hw
  rw [h] at this; exact this

/-! #### non-vacuity: concrete programs in the covered fragment (slots: `Z%`, `A%`, `I%`) -/

private def tenModZ : Ast.Expr := .bin .modulo (.lit (.int 10) ⟨2, 6⟩) (.var 0 .int ⟨2, 13⟩) .int ⟨2, 9⟩

/-- a handled division by zero with RESUME NEXT:
`ON ERROR GOTO H : A% = 10 MOD Z% : PRINT A% : END : H: Z% = 1 : RESUME NEXT` -/
private def demoNext : SProgram :=
  ⟨[.int, .int, .int],
   .seq (.onErrorGoto 0 ⟨1, 1⟩)
   (.seq (.assign 1 .int tenModZ ⟨2, 1⟩)
   (.seq (.print [.expr (.var 1 .int ⟨3, 7⟩)] ⟨3, 1⟩)
   (.seq (.end_ ⟨4, 1⟩)
   (.seq (.label 0 "H" ⟨5, 1⟩)
   (.seq (.assign 0 .int (.lit (.int 1) ⟨6, 6⟩) ⟨6, 1⟩)
   (.seq (.resumeNext ⟨7, 1⟩) .skip))))))⟩

/-- RESUME label out of a FOR:
`ON ERROR GOTO H : FOR I% = 1 TO 3 : A% = 10 MOD Z% : NEXT : Fin: PRINT I% : END : H: RESUME Fin` -/
private def demoLabel : SProgram :=
  ⟨[.int, .int, .int],
   .seq (.onErrorGoto 0 ⟨1, 1⟩)
   (.seq (.forLoop 2 .int (.lit (.int 1) ⟨2, 10⟩) (.lit (.int 3) ⟨2, 15⟩) none
      (.seq (.assign 1 .int tenModZ ⟨3, 1⟩) .skip) ⟨2, 1⟩)
   (.seq (.label 1 "Fin" ⟨5, 1⟩)
   (.seq (.print [.expr (.var 2 .int ⟨6, 7⟩)] ⟨6, 1⟩)
   (.seq (.end_ ⟨7, 1⟩)
   (.seq (.label 0 "H" ⟨8, 1⟩)
   (.seq (.resumeLabel 1 ⟨9, 1⟩) .skip))))))⟩

/-- an error inside a GOSUB routine called from a FOR body, the handler resumes at a label inside the routine:
`ON ERROR GOTO H : FOR I% = 1 TO 2 : GOSUB R : NEXT : PRINT A% : END : R: A% = 10 MOD Z% : Back: A% = A% + 1 : RETURN :
H: RESUME Back` -/
private def demoGosub : SProgram :=
  ⟨[.int, .int, .int],
   .seq (.onErrorGoto 0 ⟨1, 1⟩)
   (.seq (.forLoop 2 .int (.lit (.int 1) ⟨2, 10⟩) (.lit (.int 2) ⟨2, 15⟩) none
      (.seq (.gosub 1 ⟨3, 1⟩) .skip) ⟨2, 1⟩)
   (.seq (.print [.expr (.var 1 .int ⟨5, 7⟩)] ⟨5, 1⟩)
   (.seq (.end_ ⟨6, 1⟩)
   (.seq (.label 1 "R" ⟨7, 1⟩)
   (.seq (.assign 1 .int tenModZ ⟨8, 1⟩)
   (.seq (.label 2 "Back" ⟨9, 1⟩)
   (.seq (.assign 1 .int (.bin .plus (.var 1 .int ⟨10, 6⟩) (.lit (.int 1) ⟨10, 11⟩) .int ⟨10, 9⟩) ⟨10, 1⟩)
   (.seq (.ret ⟨11, 1⟩)
   (.seq (.label 0 "H" ⟨12, 1⟩)
   (.seq (.resumeLabel 2 ⟨13, 1⟩) .skip))))))))))⟩

/-- the premise of `compile_correct` is satisfiable on programs that use the new statements -/
example : progWfXB demoNext = true := by decide
example : progWfXB demoLabel = true := by decide
example : progWfXB demoGosub = true := by decide
example : ProgWf demoGosub := progWfB_sound demoGosub (by decide)

/-- the reference semantics runs the handlers and answers `halted` (END): the `halted` clause of `ProgSpec` is hit through a
handled error in each of the three programs -/
example : (ErrL.Ref.run 40 demoNext.toAst).2 = .halted := by decide +kernel
example : (ErrL.Ref.run 40 demoLabel.toAst).2 = .halted := by decide +kernel
example : (ErrL.Ref.run 60 demoGosub.toAst).2 = .halted := by decide +kernel

/-- … and the theorem applies to them -/
example (fuel : Nat) : ProgSpec demoNext (ErrL.Ref.run fuel demoNext.toAst) := compile_correct_checked demoNext fuel (by decide)
example (fuel : Nat) : ProgSpec demoLabel (ErrL.Ref.run fuel demoLabel.toAst) :=
  compile_correct_checked demoLabel fuel (by decide)
example (fuel : Nat) : RunSpec demoGosub (ErrL.Ref.run fuel demoGosub.toAst) := run_correct_checked demoGosub fuel (by decide)

end RbThm.ErrLSim
